(* C06: invariants of one scheduler level, for every execution (induction over transition sequences).
   A ghost component (the stage of every action and the multiset of decrements still owed to every
   pending counter) is carried along the base machine of Model/C06.v; it never restricts a step. *)
From Coq Require Import List Arith Bool Lia PeanoNat.
Import ListNotations.
Require Import Verif.Model.C06_Map Verif.Model.C06 Verif.Proofs.C06_Base.

Inductive stage := SWait | SSeed | SSlot (a : nat) | SQueue | SHeld | SThread.
Record ghost := mkgh { owe : nat -> list nat; stg : nat -> stage }.
Definition upd {A} (f : nat -> A) (a : nat) (v : A) : nat -> A := fun x => if x =? a then v else f x.

Lemma upd_same : forall A (f : nat -> A) a v, upd f a v a = v.
Proof. intros. unfold upd. rewrite Nat.eqb_refl. reflexivity. Qed.
Lemma upd_other : forall A (f : nat -> A) a v x, x <> a -> upd f a v x = f x.
Proof. intros. unfold upd. destruct (Nat.eqb_spec x a); congruence. Qed.

Section LevelProofs.
Variable R : Type.
Variables (top strict : bool) (G : dag).
Hypothesis WF : wf_dag G.

Notation lstate := (lstate R).
Notation label := (label R).
Notation step := (step top strict G).

Definition ghost0 : ghost :=
  mkgh (deps G) (fun b => if memb b (nodes G) && nilb (deps G b) then SSeed else SWait).

Definition ghost_step (s : lstate) (g : ghost) (e : label) : ghost :=
  match e with
  | ESeed b => mkgh (owe g) (upd (stg g) b SQueue)
  | EDeq b => mkgh (owe g) (upd (stg g) b SHeld)
  | ESpawn b | EInline b => mkgh (owe g) (upd (stg g) b SThread)
  | EDec a b => mkgh (upd (owe g) b (rm1 a (owe g b))) (if get (pend s) b =? 1 then upd (stg g) b (SSlot a) else stg g)
  | EEnq a b => mkgh (owe g) (upd (stg g) b SQueue)
  | _ => g
  end.

(* decrements of b's counter that a's handler has not performed yet *)
Definition tsof (p : hphase) (a : nat) : list nat := match p with HTrig ts | HSend _ ts => ts | _ => trig G a end.
Definition remT (m : fmap (option thread)) (a b : nat) : nat :=
  countb b (match get m a with Some t => tsof (hph t) a | None => trig G a end).
Definition rem (s : lstate) (a b : nat) : nat := remT (th s) a b.

Definition prerel (p : hphase) : bool := match p with HFresh | HRun _ | HEnded => true | _ => false end.

Record Inv (s : lstate) (g : ghost) : Prop := mkInv {
  i_seed : forall b, countb b (seedl s) = match stg g b with SSeed => 1 | _ => 0 end;
  i_queue : forall b, cntq b (queue s) = match stg g b with SQueue => 1 | _ => 0 end;
  i_main : forall b, mainp s = MHave b <-> stg g b = SHeld;
  i_th : forall b, get (th s) b <> None <-> stg g b = SThread;
  i_slot : forall a b, stg g b = SSlot a <-> exists t ts, get (th s) a = Some t /\ hph t = HSend b ts;
  i_wait : forall b, In b (alln G) -> (stg g b = SWait <-> 0 < get (pend s) b);
  i_out : forall b, ~ In b (alln G) -> stg g b = SWait;
  i_bad : bad s = false;
  i_pend : forall b, In b (alln G) -> get (pend s) b = length (owe g b);
  i_owe : forall a b, In a (alln G) -> In b (alln G) -> countb a (owe g b) = rem s a b;
  i_owed : forall a b, In a (owe g b) -> In a (deps G b);
  i_dn : forall a t, get (th s) a = Some t -> get (dn s) a = negb (match hph t with HFresh | HRun _ => true | _ => false end);
  i_dn0 : forall a, get (th s) a = None -> get (dn s) a = false;
  i_ts : forall a t, get (th s) a = Some t -> match hph t with HTrig ts | HSend _ ts => incl ts (trig G a) | _ => True end;
  i_root : forall t, get (th s) (root G) = Some t -> match hph t with HRun _ => False | _ => True end;
  i_deps : forall b, In b (alln G) -> stg g b <> SWait -> forall d, In d (deps G b) -> get (dn s) d = true;
  i_busy : forall a, mainp s = MBusy a -> exists t, get (th s) a = Some t;
  i_top : top = true -> forall a, mainp s <> MBusy a;
  i_closed : closed s = get (dn s) (root G);
  i_sem : forall a t, get (th s) a = Some t -> hph t = HEnded -> hsem t = true;
  i_seedleaf : forall b, stg g b = SSeed -> b <> root G;
  i_seeding : top = false -> seedl s <> [] -> mainp s = MIdle \/ mainp s = MDone;
  i_seeddeps : forall b, stg g b = SSeed -> deps G b = [] }.

Lemma countb_filter : forall (f : nat -> bool) b l, NoDup l -> countb b (filter f l) = if memb b l && f b then 1 else 0.
Proof.
  intros f b l H. rewrite countb_NoDup by (apply NoDup_filter; assumption).
  destruct (memb b (filter f l)) eqn:E.
  - apply memb_In in E. apply filter_In in E. destruct E as [E1 E2]. apply memb_In in E1. rewrite E1, E2. reflexivity.
  - destruct (memb b l) eqn:E1; simpl; auto. destruct (f b) eqn:E2; auto.
    apply memb_false in E. exfalso. apply E. apply filter_In. split; auto. apply memb_In. assumption.
Qed.

Lemma Inv_init : Inv (init G) ghost0.
Proof.
  constructor; unfold init, ghost0; simpl; intros; rewrite ?get_const in *.
  - (* seed *) rewrite countb_filter by apply (wf_nodup G WF). destruct (memb b (nodes G) && nilb (deps G b)); reflexivity.
  - (* queue *) destruct (memb b (nodes G) && nilb (deps G b)); reflexivity.
  - (* main *) split; intros; try discriminate. destruct (memb b (nodes G) && nilb (deps G b)); discriminate.
  - (* th *) split; intros; try congruence. destruct (memb b (nodes G) && nilb (deps G b)); discriminate.
  - (* slot *) split; intros.
    + destruct (memb b (nodes G) && nilb (deps G b)); discriminate.
    + destruct H as [t [ts [H _]]]. rewrite ?get_const in H. discriminate.
  - (* wait *) rewrite (wf_pend G WF b H).
    destruct (alln_cases G WF b H) as [E | [E1 E2]].
    + subst. pose proof (wf_root G WF) as Hr. apply memb_false in Hr. rewrite Hr. simpl.
      pose proof (wf_rne G WF). destruct (deps G (root G)); simpl; try congruence. split; intros; [lia | reflexivity].
    + apply memb_In in E1. rewrite E1. simpl. destruct (deps G b); simpl; split; intros; try lia; try discriminate; auto.
  - (* out *) assert (memb b (nodes G) = false). { apply memb_false. intro. apply H. right. assumption. }
    rewrite H0. reflexivity.
  - (* bad *) reflexivity.
  - (* pend *) apply wf_pend; assumption.
  - (* owe *) unfold rem, remT. simpl. rewrite get_const. symmetry. apply wf_inv; assumption.
  - (* owed *) assumption.
  - (* dn *) discriminate.
  - (* dn0 *) reflexivity.
  - (* ts *) discriminate.
  - (* root *) discriminate.
  - (* deps *) destruct (memb b (nodes G) && nilb (deps G b)) eqn:E; try congruence.
    apply andb_true_iff in E. destruct E as [_ E]. apply nilb_nil in E. rewrite E in H1. contradiction.
  - (* busy *) discriminate.
  - (* top *) discriminate.
  - (* closed *) reflexivity.
  - (* sem *) discriminate.
  - (* seedleaf *) destruct (memb b (nodes G) && nilb (deps G b)) eqn:E; try discriminate.
    apply andb_true_iff in E. destruct E as [E _]. apply memb_In in E. intro. subst. apply (wf_root G WF). assumption.
  - (* seeding *) left. reflexivity.
  - (* seeddeps *) destruct (memb b (nodes G) && nilb (deps G b)) eqn:E; try discriminate.
    apply andb_true_iff in E. destruct E as [_ E]. apply nilb_nil in E. assumption.
Qed.

(* A thread exists only for actions of the graph. *)
Lemma th_alln : forall s g, Inv s g -> forall a t, get (th s) a = Some t -> In a (alln G).
Proof.
  intros s g I a t H. destruct (in_dec Nat.eq_dec a (alln G)); auto.
  pose proof (i_out s g I a n). assert (get (th s) a <> None) by congruence. apply (i_th s g I) in H1. congruence.
Qed.

Lemma th_stage : forall s g, Inv s g -> forall a t, get (th s) a = Some t -> stg g a = SThread.
Proof. intros. apply (i_th s g H). congruence. Qed.

Ltac gsimp :=
  repeat match goal with
  | |- context [get (set _ ?a _) ?a] => rewrite gss
  | H : context [get (set _ ?a _) ?a] |- _ => rewrite gss in H
  | N : ?a <> ?b |- context [get (set _ ?a _) ?b] => rewrite (gso _ _ a b _ N)
  | N : ?b <> ?a |- context [get (set _ ?a _) ?b] => rewrite (gso _ _ a b _ (not_eq_sym N))
  | N : ?a <> ?b, H : context [get (set _ ?a _) ?b] |- _ => rewrite (gso _ _ a b _ N) in H
  | N : ?b <> ?a, H : context [get (set _ ?a _) ?b] |- _ => rewrite (gso _ _ a b _ (not_eq_sym N)) in H
  | |- context [upd _ ?a _ ?a] => rewrite upd_same
  | H : context [upd _ ?a _ ?a] |- _ => rewrite upd_same in H
  | N : ?x <> ?a |- context [upd _ ?a _ ?x] => rewrite (upd_other _ _ a _ x N)
  | N : ?a <> ?x |- context [upd _ ?a _ ?x] => rewrite (upd_other _ _ a _ x (not_eq_sym N))
  | N : ?x <> ?a, H : context [upd _ ?a _ ?x] |- _ => rewrite (upd_other _ _ a _ x N) in H
  | N : ?a <> ?x, H : context [upd _ ?a _ ?x] |- _ => rewrite (upd_other _ _ a _ x (not_eq_sym N)) in H
  end.

Ltac destr_step H :=
  unfold C06.step in H;
  repeat match type of H with
  | context [match ?x with _ => _ end] => destruct x eqn:?; try discriminate
  end;
  inversion H; subst; clear H.

Ltac psimpl := cbn [pend seedl queue closed mainp th res failed dn bad owe stg new_thread set_phase set_thread ghost_step] in *.
Ltac name_th := match goal with H1 : get (th ?s) ?a = Some ?t, H2 : hph ?t = _ |- _ => rename H1 into Ht; rename H2 into Hp end.
Ltac name_main := match goal with H1 : mainp ?s = MHave _ |- _ => rename H1 into Hm end.
Ltac cases x b := destruct (Nat.eq_dec x b) as [?Heq | ?Hne]; [subst x |].

Ltac eqb_simp :=
  repeat match goal with
  | H : context [?a =? ?a] |- _ => rewrite Nat.eqb_refl in H
  | |- context [?a =? ?a] => rewrite Nat.eqb_refl
  | N : ?a <> ?b, H : context [?a =? ?b] |- _ => rewrite (proj2 (Nat.eqb_neq a b) N) in H
  | N : ?a <> ?b |- context [?a =? ?b] => rewrite (proj2 (Nat.eqb_neq a b) N)
  | N : ?b <> ?a, H : context [?a =? ?b] |- _ => rewrite (proj2 (Nat.eqb_neq a b) (not_eq_sym N)) in H
  | N : ?b <> ?a |- context [?a =? ?b] => rewrite (proj2 (Nat.eqb_neq a b) (not_eq_sym N))
  end.

(* facts of the old invariant about one action *)
Ltac olds I x :=
  pose proof (i_seed _ _ I x); pose proof (i_queue _ _ I x); pose proof (i_main _ _ I x); pose proof (i_th _ _ I x);
  pose proof (fun a => i_slot _ _ I a x); pose proof (i_wait _ _ I x); pose proof (i_out _ _ I x); pose proof (i_seedleaf _ _ I x).

Lemma Inv_ESeed : forall s g free b s' f', Inv s g -> step s free (ESeed b) = Some (s', f') -> Inv s' (ghost_step s g (ESeed b)).
Proof.
  intros s g free b s' f' I H. destr_step H.
  assert (Hc := remove1_count _ _ _ Heqo).
  assert (Sb : stg g b = SSeed).
  { pose proof (i_seed s g I b). pose proof (Hc b). rewrite Nat.eqb_refl in H0. destruct (stg g b); auto; lia. }
  constructor; simpl; intros.
  - cases b0 b; gsimp; olds I b. 
    + specialize (Hc b). eqb_simp. rewrite Sb in *. lia.
    + specialize (Hc b0). eqb_simp. rewrite <- (i_seed _ _ I b0). lia.
  - rewrite cntq_app. simpl. cases b0 b; gsimp; eqb_simp.
    + pose proof (i_queue _ _ I b). rewrite Sb in *. lia.
    + rewrite <- (i_queue _ _ I b0). lia.
  - cases b0 b; gsimp. 
    + pose proof (i_main _ _ I b). rewrite Sb in *. split; intros; try discriminate. apply H in H0. discriminate.
    + apply (i_main _ _ I).
  - cases b0 b; gsimp.
    + pose proof (i_th _ _ I b). rewrite Sb in *. split; intros; try discriminate. apply H in H0. discriminate.
    + apply (i_th _ _ I).
  - cases b0 b; gsimp.
    + pose proof (i_slot _ _ I a b). rewrite Sb in *. split; intros; try discriminate. apply H in H0. discriminate.
    + apply (i_slot _ _ I).
  - cases b0 b; gsimp.
    + pose proof (i_wait _ _ I b H). rewrite Sb in *. split; intros; try discriminate. apply H0 in H1. discriminate.
    + apply (i_wait _ _ I); assumption.
  - cases b0 b; gsimp.
    + pose proof (i_out _ _ I b H). congruence.
    + apply (i_out _ _ I); assumption.
  - apply (i_bad _ _ I).
  - apply (i_pend _ _ I); assumption.
  - apply (i_owe _ _ I); assumption.
  - eapply (i_owed _ _ I); eassumption.
  - apply (i_dn _ _ I); assumption.
  - apply (i_dn0 _ _ I); assumption.
  - apply (i_ts _ _ I); assumption.
  - apply (i_root _ _ I); assumption.
  - cases b0 b; gsimp.
    + apply (i_deps _ _ I b); auto. congruence.
    + apply (i_deps _ _ I b0); auto.
  - apply (i_busy _ _ I); assumption.
  - apply (i_top _ _ I); assumption.
  - apply (i_closed _ _ I).
  - eapply (i_sem _ _ I); eassumption.
  - cases b0 b; gsimp.
    + apply (i_seedleaf _ _ I). assumption.
    + apply (i_seedleaf _ _ I). assumption.
  - apply orb_false_iff in Heqb0. destruct Heqb0 as [_ Hx]. apply negb_false_iff in Hx. rewrite H in Hx. rewrite orb_false_r in Hx.
    unfold main_idle in Hx. destruct (mainp s); try discriminate. left. reflexivity.
  - cases b0 b; gsimp. discriminate. apply (i_seeddeps _ _ I); assumption.
Qed.

Ltac same I :=
  first [ apply (i_bad _ _ I) | apply (i_closed _ _ I) | (apply (i_pend _ _ I); assumption) | (apply (i_owe _ _ I); assumption)
        | (eapply (i_owed _ _ I); eassumption) | (apply (i_dn _ _ I); assumption) | (apply (i_dn0 _ _ I); assumption)
        | (apply (i_ts _ _ I); assumption) | (apply (i_root _ _ I); assumption) | (apply (i_busy _ _ I); assumption)
        | (apply (i_top _ _ I); assumption) | (eapply (i_sem _ _ I); eassumption) | apply (i_seed _ _ I) | apply (i_queue _ _ I)
        | apply (i_main _ _ I) | apply (i_th _ _ I) | apply (i_slot _ _ I) | (apply (i_wait _ _ I); assumption)
        | (apply (i_out _ _ I); assumption) | (eapply (i_deps _ _ I); eassumption) | (eapply (i_seedleaf _ _ I); eassumption)
        | (apply (i_seeding _ _ I); assumption) | (eapply (i_seeddeps _ _ I); eassumption) ].

(* H : X <-> old = C with old <> C syntactically; goal X <-> new = C with new <> C *)
Ltac iff_false H := let Hx := fresh in split; intro Hx; [ apply H in Hx; discriminate Hx | discriminate Hx ].

Ltac iff_false' H := let Hx := fresh in split; intro Hx; [ discriminate Hx | apply H in Hx; discriminate Hx ].

Lemma main_ready_not_have : forall (s : lstate) b, main_ready s = true -> mainp s <> MHave b.
Proof. unfold main_ready. intros. destruct (mainp s); congruence. Qed.

Lemma Inv_EDeq : forall s g free b s' f', Inv s g -> step s free (EDeq b) = Some (s', f') -> Inv s' (ghost_step s g (EDeq b)).
Proof.
  intros s g free b s' f' I H. destr_step H.
  assert (Hc := remove_msg_count _ _ _ Heqo).
  assert (Sb : stg g b = SQueue).
  { pose proof (i_queue s g I b). pose proof (Hc b). rewrite Nat.eqb_refl in H0. destruct (stg g b); auto; lia. }
  apply andb_true_iff in Heqb0. destruct Heqb0 as [Hr Hs].
  constructor; psimpl; intros; try (same I).
  - cases b0 b; gsimp; [| same I]. rewrite (i_seed _ _ I b), Sb. reflexivity.
  - cases b0 b; gsimp.
    + pose proof (i_queue _ _ I b). specialize (Hc b). eqb_simp. rewrite Sb in *. lia.
    + specialize (Hc b0). eqb_simp. rewrite <- (i_queue _ _ I b0). lia.
  - cases b0 b; gsimp.
    + tauto.
    + split; intros. congruence. apply (i_main _ _ I) in H. exfalso. eapply main_ready_not_have; eauto.
  - cases b0 b; gsimp; [| same I]. pose proof (i_th _ _ I b). rewrite Sb in H. iff_false H.
  - cases b0 b; gsimp; [| same I]. pose proof (i_slot _ _ I a b). rewrite Sb in H. iff_false' H.
  - cases b0 b; gsimp; [| same I]. pose proof (i_wait _ _ I b H). rewrite Sb in H0. iff_false' H0.
  - cases b0 b; gsimp; [| same I]. pose proof (i_out _ _ I b H). congruence.
  - cases b0 b; gsimp; [| same I]. apply (i_deps _ _ I b); auto. congruence.
  - discriminate.
  - discriminate.
  - cases b0 b; gsimp; [| same I]. discriminate.
  - exfalso. rewrite H in Hs. simpl in Hs. apply nilb_nil in Hs. congruence.
  - cases b0 b; gsimp; [| same I]. discriminate.
Qed.

Lemma Inv_spawn : forall s g b sem inl mp (e : label),
  Inv s g -> mainp s = MHave b -> (mp = MIdle \/ (mp = MBusy b /\ top = false)) ->
  (e = ESpawn b \/ e = EInline b) ->
  Inv (new_thread R s b sem inl mp) (ghost_step s g e).
Proof.
  intros s g b sem inl mp e I Hm Hmp He.
  assert (Sb : stg g b = SHeld) by (apply (i_main _ _ I); assumption).
  assert (Tb : get (th s) b = None).
  { destruct (get (th s) b) eqn:E; auto. assert (get (th s) b <> None) by congruence. apply (i_th _ _ I) in H. congruence. }
  assert (Eg : ghost_step s g e = mkgh (owe g) (upd (stg g) b SThread)) by (destruct He; subst; reflexivity).
  rewrite Eg. clear Eg He.
  constructor; psimpl; intros; try (same I).
  - cases b0 b; gsimp; [| same I]. rewrite (i_seed _ _ I b), Sb. reflexivity.
  - cases b0 b; gsimp; [| same I]. rewrite (i_queue _ _ I b), Sb. reflexivity.
  - assert (forall x, mp <> MHave x) by (destruct Hmp as [-> | [-> _]]; congruence).
    cases b0 b; gsimp.
    + split; intros; try discriminate. exfalso. eapply H; eauto.
    + split; intros. exfalso. eapply H; eauto. apply (i_main _ _ I) in H0. congruence.
  - cases b0 b; gsimp; [| same I]. split; intros; congruence.
  - cases b0 b; gsimp.
    + split; intros; try discriminate. destruct H as [t [ts [H1 H2]]]. cases a b; gsimp.
      * inversion H1; subst. discriminate.
      * assert (stg g b = SSlot a) by (apply (i_slot _ _ I); eauto). congruence.
    + cases a b; gsimp; [| same I]. split; intros.
      * apply (i_slot _ _ I) in H. destruct H as [t [ts [H1 H2]]]. congruence.
      * destruct H as [t [ts [H1 H2]]]. inversion H1; subst. discriminate.
  - cases b0 b; gsimp; [| same I]. pose proof (i_wait _ _ I b H). rewrite Sb in H0. iff_false' H0.
  - cases b0 b; gsimp; [| same I]. pose proof (i_out _ _ I b H). congruence.
  - rewrite Tb, (i_bad _ _ I). reflexivity.
  - rewrite (i_owe _ _ I a b0 H H0). unfold rem, remT. psimpl. cases a b; gsimp; [| reflexivity]. rewrite Tb. reflexivity.
  - cases a b; gsimp; [| same I]. inversion H; subst. simpl. apply (i_dn0 _ _ I). assumption.
  - cases a b; gsimp; [| same I]. discriminate.
  - cases a b; gsimp; [| same I]. inversion H; subst. simpl. trivial.
  - cases b (root G); gsimp; [| same I]. inversion H; subst. simpl. trivial.
  - cases b0 b; gsimp; [| same I]. apply (i_deps _ _ I b); auto. congruence.
  - destruct Hmp as [-> | [-> _]]; try discriminate. inversion H; subst. gsimp. eauto.
  - destruct Hmp as [-> | [-> Ht]]; congruence.
  - cases a b; gsimp; [| same I]. inversion H; subst. discriminate.
  - cases b0 b; gsimp; [| same I]. discriminate.
  - exfalso. destruct (i_seeding _ _ I H H0); congruence.
  - cases b0 b; gsimp; [| same I]. discriminate.
Qed.

Ltac bsplit :=
  repeat match goal with
  | H : _ && _ = true |- _ => apply andb_true_iff in H; destruct H
  | H : (_ =? _) = true |- _ => apply Nat.eqb_eq in H; try subst
  | H : negb _ = true |- _ => apply negb_true_iff in H
  | H : negb _ = false |- _ => apply negb_false_iff in H
  | H : _ || _ = false |- _ => apply orb_false_iff in H; destruct H
  end.

Lemma Inv_ESpawn : forall s g free b s' f', Inv s g -> step s free (ESpawn b) = Some (s', f') -> Inv s' (ghost_step s g (ESpawn b)).
Proof.
  intros s g free b s' f' I H. destr_step H. bsplit. eapply Inv_spawn; eauto.
Qed.

Lemma Inv_EInline : forall s g free b s' f', Inv s g -> step s free (EInline b) = Some (s', f') -> Inv s' (ghost_step s g (EInline b)).
Proof.
  intros s g free b s' f' I H. destr_step H. bsplit. eapply Inv_spawn; eauto.
Qed.

(* ---- a handler moves from one phase to the next ---- *)
Section Phase.
Variables (s : lstate) (g : ghost) (a : nat) (t : thread) (p' : hphase).
Hypothesis I : Inv s g.
Hypothesis Ht : get (th s) a = Some t.
Let th' := set (th s) a (Some (mkth p' (hsem t) (hinl t))).

Lemma ph_th : forall b, get th' b <> None <-> stg g b = SThread.
Proof.
  intros. unfold th'. cases b a; gsimp; [| same I]. split; intros; try congruence. eapply th_stage; eauto.
Qed.

Lemma ph_slot : (forall b ts, hph t <> HSend b ts) -> (forall b ts, p' <> HSend b ts) ->
  forall a0 b, stg g b = SSlot a0 <-> exists t0 ts, get th' a0 = Some t0 /\ hph t0 = HSend b ts.
Proof.
  intros N1 N2 a0 b. unfold th'. cases a0 a; gsimp; [| same I]. split; intros.
  - apply (i_slot _ _ I) in H. destruct H as [t0 [ts [H1 H2]]]. rewrite Ht in H1. inversion H1; subst. exfalso. eapply N1; eauto.
  - destruct H as [t0 [ts [H1 H2]]]. inversion H1; subst. simpl in H2. exfalso. eapply N2; eauto.
Qed.

Lemma ph_rem : (forall b, countb b (tsof p' a) = countb b (tsof (hph t) a)) -> forall a0 b, remT th' a0 b = remT (th s) a0 b.
Proof.
  intros E a0 b. unfold remT, th'. cases a0 a; gsimp; [| reflexivity]. rewrite Ht. simpl. apply E.
Qed.

Lemma ph_ts : match p' with HTrig ts | HSend _ ts => incl ts (trig G a) | _ => True end ->
  forall a0 t0, get th' a0 = Some t0 -> match hph t0 with HTrig ts | HSend _ ts => incl ts (trig G a0) | _ => True end.
Proof.
  intros E a0 t0. unfold th'. cases a0 a; gsimp; [| apply (i_ts _ _ I)]. intros H. inversion H; subst. simpl. assumption.
Qed.

Lemma ph_root : (a = root G -> match p' with HRun _ => False | _ => True end) ->
  forall t0, get th' (root G) = Some t0 -> match hph t0 with HRun _ => False | _ => True end.
Proof.
  intros E t0. unfold th'. destruct (Nat.eq_dec a (root G)) as [Ea | Na].
  - rewrite <- Ea. gsimp. intros H. inversion H. simpl. apply E. exact Ea.
  - gsimp. apply (i_root _ _ I).
Qed.

Lemma ph_busy : forall x, mainp s = MBusy x -> exists t0, get th' x = Some t0.
Proof.
  intros x H. unfold th'. cases x a; gsimp; eauto. apply (i_busy _ _ I). assumption.
Qed.

Lemma ph_sem : (p' = HEnded -> hsem t = true) -> forall a0 t0, get th' a0 = Some t0 -> hph t0 = HEnded -> hsem t0 = true.
Proof.
  intros E a0 t0. unfold th'. cases a0 a; gsimp; [| apply (i_sem _ _ I)]. intros H H1. inversion H; subst. simpl in *. auto.
Qed.

(* dn when the handler's own flag becomes v *)
Lemma ph_dn : forall (dn' : fmap bool),
  (forall x, x <> a -> get dn' x = get (dn s) x) ->
  get dn' a = negb (match p' with HFresh | HRun _ => true | _ => false end) ->
  (forall a0 t0, get th' a0 = Some t0 -> get dn' a0 = negb (match hph t0 with HFresh | HRun _ => true | _ => false end))
  /\ (forall a0, get th' a0 = None -> get dn' a0 = false).
Proof.
  intros dn' E1 E2. unfold th'. split; intros a0.
  - intros t0. cases a0 a; gsimp.
    + intros H. inversion H; subst. simpl. assumption.
    + intros H. rewrite E1 by assumption. apply (i_dn _ _ I). assumption.
  - cases a0 a; gsimp. discriminate. intros H. rewrite E1 by assumption. apply (i_dn0 _ _ I). assumption.
Qed.

End Phase.

Lemma Inv_EStart : forall s g free a s' f', Inv s g -> step s free (EStart a) = Some (s', f') -> Inv s' (ghost_step s g (EStart a)).
Proof.
  intros s g free a s' f' I H. destr_step H. bsplit.
  match goal with H : get (th s) a = Some ?t, H' : hph ?t = HFresh |- _ => rename H into Ht; rename H' into Hp end.
  constructor; psimpl; intros; try (same I).
  - eapply ph_th; eauto.
  - eapply ph_slot; eauto; congruence.
  - rewrite (i_owe _ _ I) by assumption. unfold rem. psimpl. symmetry. eapply ph_rem; eauto. rewrite Hp. reflexivity.
  - edestruct (ph_dn s g a t) with (dn' := dn s) as [P1 P2]; [eassumption | reflexivity | | eapply P1; eassumption].
    simpl. rewrite (i_dn _ _ I _ _ Ht), Hp. reflexivity.
  - edestruct (ph_dn s g a t) with (dn' := dn s) as [P1 P2]; [eassumption | reflexivity | | eapply P2; eassumption].
    simpl. rewrite (i_dn _ _ I _ _ Ht), Hp. reflexivity.
  - eapply ph_ts; eauto. simpl. trivial.
  - eapply ph_root; eauto. intros. subst. rewrite Nat.eqb_refl in *. discriminate.
  - eapply ph_busy; eauto.
  - eapply ph_sem; eauto. discriminate.
Qed.

Lemma after_end_cases : forall (t : thread) a,
  (hsem t = true /\ after_end G t a = HEnded) \/ (hsem t = false /\ after_end G t a = HTrig (trig G a)).
Proof. intros. unfold after_end. destruct (hsem t); auto. Qed.

Lemma Inv_EEnd : forall s g free a o s' f', Inv s g -> step s free (EEnd a o) = Some (s', f') -> Inv s' (ghost_step s g (EEnd a o)).
Proof.
  intros s g free a o s' f' I H. destr_step H.
  match goal with H : get (th s) a = Some ?t, H' : hph ?t = HRun _ |- _ => rename H into Ht; rename H' into Hp end.
  assert (Na : a <> root G). { intro. subst. pose proof (i_root _ _ I _ Ht). rewrite Hp in H. assumption. }
  assert (Hae := after_end_cases t a).
  constructor; psimpl; intros; try (same I).
  - eapply ph_th; eauto.
  - eapply ph_slot; eauto; try congruence. intros. destruct Hae as [[_ ->] | [_ ->]]; congruence.
  - rewrite (i_owe _ _ I) by assumption. unfold rem. psimpl. symmetry. eapply ph_rem; eauto. rewrite Hp. intros.
    destruct Hae as [[_ ->] | [_ ->]]; reflexivity.
  - edestruct (ph_dn s g a t) with (dn' := set (dn s) a true) as [P1 P2]; [eassumption | | | eapply P1; eassumption].
    intros; gsimp; reflexivity. gsimp. destruct Hae as [[_ ->] | [_ ->]]; reflexivity.
  - edestruct (ph_dn s g a t) with (dn' := set (dn s) a true) as [P1 P2]; [eassumption | | | eapply P2; eassumption].
    intros; gsimp; reflexivity. gsimp. destruct Hae as [[_ ->] | [_ ->]]; reflexivity.
  - eapply ph_ts; eauto. destruct Hae as [[_ ->] | [_ ->]]; simpl; auto. apply incl_refl.
  - eapply ph_root; eauto. intros. congruence.
  - cases d a; gsimp. reflexivity. eapply (i_deps _ _ I); eauto.
  - eapply ph_busy; eauto.
  - gsimp. apply (i_closed _ _ I).
  - eapply ph_sem; eauto. intros. destruct Hae as [[? _] | [_ E]]; auto. rewrite E in H1. discriminate.
Qed.

Lemma Inv_EClose : forall s g free s' f', Inv s g -> step s free EClose = Some (s', f') -> Inv s' (ghost_step s g EClose).
Proof.
  intros s g free s' f' I H. destr_step H.
  match goal with H : get (th s) (root G) = Some ?t, H' : hph ?t = HFresh |- _ => rename H into Ht; rename H' into Hp end.
  assert (Hae := after_end_cases t (root G)).
  constructor; psimpl; intros; try (same I).
  - eapply ph_th; eauto.
  - eapply ph_slot; eauto; try congruence. intros. destruct Hae as [[_ ->] | [_ ->]]; congruence.
  - rewrite (i_owe _ _ I) by assumption. unfold rem. psimpl. symmetry. eapply ph_rem; eauto. rewrite Hp. intros.
    destruct Hae as [[_ ->] | [_ ->]]; reflexivity.
  - edestruct (ph_dn s g (root G) t) with (dn' := set (dn s) (root G) true) as [P1 P2]; [eassumption | | | eapply P1; eassumption].
    intros; gsimp; reflexivity. gsimp. destruct Hae as [[_ ->] | [_ ->]]; reflexivity.
  - edestruct (ph_dn s g (root G) t) with (dn' := set (dn s) (root G) true) as [P1 P2]; [eassumption | | | eapply P2; eassumption].
    intros; gsimp; reflexivity. gsimp. destruct Hae as [[_ ->] | [_ ->]]; reflexivity.
  - eapply ph_ts; eauto. destruct Hae as [[_ ->] | [_ ->]]; simpl; auto. apply incl_refl.
  - eapply ph_root; eauto. intros. destruct Hae as [[_ ->] | [_ ->]]; simpl; auto.
  - cases d (root G); gsimp. reflexivity. eapply (i_deps _ _ I); eauto.
  - eapply ph_busy; eauto.
  - gsimp. reflexivity.
  - eapply ph_sem; eauto. intros. destruct Hae as [[? _] | [_ E]]; auto. rewrite E in H1. discriminate.
Qed.

Lemma Inv_ERel : forall s g free a s' f', Inv s g -> step s free (ERel a) = Some (s', f') -> Inv s' (ghost_step s g (ERel a)).
Proof.
  intros s g free a s' f' I H. destr_step H.
  match goal with H : get (th s) a = Some ?t, H' : hph ?t = HEnded |- _ => rename H into Ht; rename H' into Hp end.
  constructor; psimpl; intros; try (same I).
  - eapply ph_th; eauto.
  - eapply ph_slot; eauto; congruence.
  - rewrite (i_owe _ _ I) by assumption. unfold rem. psimpl. symmetry. eapply ph_rem; eauto. rewrite Hp. reflexivity.
  - edestruct (ph_dn s g a t) with (dn' := dn s) as [P1 P2]; [eassumption | reflexivity | | eapply P1; eassumption].
    simpl. rewrite (i_dn _ _ I _ _ Ht), Hp. reflexivity.
  - edestruct (ph_dn s g a t) with (dn' := dn s) as [P1 P2]; [eassumption | reflexivity | | eapply P2; eassumption].
    simpl. rewrite (i_dn _ _ I _ _ Ht), Hp. reflexivity.
  - eapply ph_ts; eauto. simpl. apply incl_refl.
  - eapply ph_root; eauto. simpl. trivial.
  - eapply ph_busy; eauto.
  - eapply ph_sem; eauto.
Qed.

Lemma Inv_EExit : forall s g free s' f', Inv s g -> step s free EExit = Some (s', f') -> Inv s' (ghost_step s g EExit).
Proof.
  intros s g free s' f' I H. destr_step H. bsplit.
  constructor; psimpl; intros; try (same I).
  - split; intros; try discriminate. apply (i_main _ _ I) in H2. exfalso. eapply main_ready_not_have; eauto.
  - discriminate.
  - discriminate.
  - right. reflexivity.
Qed.

Lemma Inv_EEnq : forall s g free a b s' f', Inv s g -> step s free (EEnq a b) = Some (s', f') -> Inv s' (ghost_step s g (EEnq a b)).
Proof.
  intros s g free a b s' f' I H. destr_step H. bsplit.
  match goal with H : get (th s) a = Some ?t, H' : hph ?t = HSend _ ?ts |- _ => rename H into Ht; rename H' into Hp; rename ts into ts0 end.
  assert (Sb : stg g b = SSlot a) by (apply (i_slot _ _ I); eauto).
  constructor; psimpl; intros; try (same I).
  - cases b0 b; gsimp; [| same I]. rewrite (i_seed _ _ I b), Sb. reflexivity.
  - rewrite cntq_app. simpl. cases b0 b; gsimp; eqb_simp.
    + rewrite (i_queue _ _ I b), Sb. reflexivity.
    + rewrite <- (i_queue _ _ I b0). lia.
  - cases b0 b; gsimp; [| same I]. pose proof (i_main _ _ I b). rewrite Sb in H. iff_false H.
  - cases b0 b; gsimp; [| eapply ph_th; eauto].
    pose proof (ph_th s g a t (HTrig ts0) I Ht b). rewrite Sb in H. iff_false H.
  - cases a0 a; gsimp.
    + split; intros.
      * exfalso. cases b0 b; gsimp. discriminate. apply (i_slot _ _ I) in H. destruct H as [t0 [ts [H1 H2]]].
        rewrite Ht in H1. inversion H1; subst. rewrite Hp in H2. inversion H2. congruence.
      * destruct H as [t0 [ts [H1 H2]]]. inversion H1; subst. discriminate.
    + cases b0 b; gsimp; [| same I]. split; intros. discriminate.
      exfalso. apply (i_slot _ _ I) in H. congruence.
  - cases b0 b; gsimp; [| same I]. pose proof (i_wait _ _ I b H). rewrite Sb in H0. iff_false' H0.
  - cases b0 b; gsimp; [| same I]. pose proof (i_out _ _ I b H). congruence.
  - rewrite (i_owe _ _ I) by assumption. unfold rem. psimpl. symmetry. eapply ph_rem; eauto. rewrite Hp. reflexivity.
  - edestruct (ph_dn s g a t) with (dn' := dn s) as [P1 P2]; [eassumption | reflexivity | | eapply P1; eassumption].
    simpl. rewrite (i_dn _ _ I _ _ Ht), Hp. reflexivity.
  - edestruct (ph_dn s g a t) with (dn' := dn s) as [P1 P2]; [eassumption | reflexivity | | eapply P2; eassumption].
    simpl. rewrite (i_dn _ _ I _ _ Ht), Hp. reflexivity.
  - eapply ph_ts; eauto. pose proof (i_ts _ _ I _ _ Ht) as Hx. rewrite Hp in Hx. assumption.
  - eapply ph_root; eauto. simpl. trivial.
  - cases b0 b; gsimp; [| same I]. apply (i_deps _ _ I b); auto. congruence.
  - eapply ph_busy; eauto.
  - eapply ph_sem; eauto. discriminate.
  - cases b0 b; gsimp; [| same I]. discriminate.
  - cases b0 b; gsimp; [| same I]. discriminate.
Qed.

Lemma remT_set : forall m a t' a0 b,
  remT (set m a (Some t')) a0 b = if a0 =? a then countb b (tsof (hph t') a) else remT m a0 b.
Proof.
  intros. unfold remT. destruct (Nat.eqb_spec a0 a).
  - subst. rewrite gss. reflexivity.
  - rewrite gso by congruence. reflexivity.
Qed.

Lemma Inv_EDec : forall s g free a b s' f', Inv s g -> step s free (EDec a b) = Some (s', f') -> Inv s' (ghost_step s g (EDec a b)).
Proof.
  intros s g free a b s' f' I H. unfold C06.step in H.
  destruct (get (th s) a) as [t |] eqn:Ht; try discriminate.
  destruct (hph t) as [| | | [| b' ts0] |] eqn:Hp; try discriminate.
  destruct ((b' =? b) && negb (blocked top s a)) eqn:Hc; try discriminate.
  inversion H; subst; clear H. bsplit. cbn [ghost_step].
  assert (Ha : In a (alln G)) by (eapply th_alln; eauto).
  assert (Hts : incl (b :: ts0) (trig G a)). { pose proof (i_ts _ _ I _ _ Ht) as Hx. rewrite Hp in Hx. assumption. }
  assert (Hb : In b (alln G)). { eapply (wf_tin G WF); eauto. apply Hts. left. reflexivity. }
  assert (Hrem : rem s a b = S (countb b ts0)). { unfold rem, remT. rewrite Ht, Hp. simpl. rewrite Nat.eqb_refl. reflexivity. }
  assert (Hin : In a (owe g b)). { apply countb_In. rewrite (i_owe _ _ I a b Ha Hb). lia. }
  assert (Hlen := length_rm1 a (owe g b) Hin).
  assert (Hpe := i_pend _ _ I b Hb).
  assert (Swb : stg g b = SWait). { apply (i_wait _ _ I b Hb). lia. }
  assert (Hab : a <> b). { intro. subst. pose proof (th_stage _ _ I _ _ Ht). congruence. }
  remember (if get (pend s) b =? 1 then HSend b ts0 else HTrig ts0) as p' eqn:Ep'.
  assert (Hp'ts : tsof p' a = ts0) by (subst p'; destruct (get (pend s) b =? 1); reflexivity).
  (* the new owe/rem relation *)
  assert (Howe : forall a0 b0, In a0 (alln G) -> In b0 (alln G) ->
            countb a0 (upd (owe g) b (rm1 a (owe g b)) b0) = remT (set (th s) a (Some (mkth p' (hsem t) (hinl t)))) a0 b0).
  { intros a0 b0 Ha0 Hb0. rewrite remT_set. simpl. rewrite Hp'ts.
    cases b0 b; gsimp.
    - rewrite countb_rm1. rewrite (i_owe _ _ I a0 b Ha0 Hb0).
      destruct (Nat.eqb_spec a0 a).
      + subst. rewrite Nat.eqb_refl. rewrite Hrem. lia.
      + eqb_simp. unfold rem. lia.
    - rewrite (i_owe _ _ I a0 b0 Ha0 Hb0). destruct (Nat.eqb_spec a0 a).
      + subst. unfold rem, remT. rewrite Ht, Hp. simpl. eqb_simp. reflexivity.
      + reflexivity. }
  assert (Hnosend : forall x ts, hph t <> HSend x ts) by (intros; rewrite Hp; discriminate).
  destruct (get (pend s) b =? 1) eqn:E1; subst p'.
  - (* last decrement: b gets the slot of a *)
    apply Nat.eqb_eq in E1.
    constructor; psimpl; intros; try (same I).
    + cases b0 b; gsimp; [| same I]. rewrite (i_seed _ _ I b), Swb. reflexivity.
    + cases b0 b; gsimp; [| same I]. rewrite (i_queue _ _ I b), Swb. reflexivity.
    + cases b0 b; gsimp; [| same I]. pose proof (i_main _ _ I b) as Hx. rewrite Swb in Hx. iff_false Hx.
    + cases b0 b; gsimp; [| eapply ph_th; eauto]. pose proof (i_th _ _ I b) as Hx. rewrite Swb in Hx. iff_false Hx.
    + cases b0 b; gsimp.
      * cases a0 a; gsimp.
        -- split; intros; auto. eexists. eexists. split; reflexivity.
        -- split; intros. congruence. exfalso. apply (i_slot _ _ I) in H. congruence.
      * cases a0 a; gsimp; [| same I]. split; intros.
        -- exfalso. apply (i_slot _ _ I) in H. destruct H as [t0 [ts [H1 H2]]]. rewrite Ht in H1. inversion H1; subst. eapply Hnosend; eauto.
        -- destruct H as [t0 [ts [H1 H2]]]. inversion H1; subst. simpl in H2. inversion H2. congruence.
    + cases b0 b; gsimp; [| same I]. split; intros. discriminate. lia.
    + cases b0 b; gsimp; [| same I]. contradiction.
    + cases b0 b; gsimp; [| same I]. lia.
    + apply Howe; assumption.
    + cases b0 b; gsimp; [| same I]. eapply (i_owed _ _ I). eapply rm1_incl; eauto.
    + edestruct (ph_dn s g a t) with (dn' := dn s) as [P1 P2]; [eassumption | reflexivity | | eapply P1; eassumption].
      simpl. rewrite (i_dn _ _ I _ _ Ht), Hp. reflexivity.
    + edestruct (ph_dn s g a t) with (dn' := dn s) as [P1 P2]; [eassumption | reflexivity | | eapply P2; eassumption].
      simpl. rewrite (i_dn _ _ I _ _ Ht), Hp. reflexivity.
    + eapply ph_ts; eauto. simpl. intros x Hx. apply Hts. right. assumption.
    + eapply ph_root; eauto. simpl. trivial.
    + cases b0 b; gsimp; [| same I].
      (* all dependencies of b have decremented, hence have ended *)
      assert (Hd : In d (alln G)) by (right; eapply deps_in_nodes; eauto).
      pose proof (Howe d b Hd Hb) as Hw. gsimp.
      assert (Hnil : rm1 a (owe g b) = []) by (destruct (rm1 a (owe g b)); simpl in *; auto; lia).
      rewrite Hnil in Hw. simpl in Hw.
      assert (Hc : 0 < countb b (trig G d)). { rewrite (wf_inv G WF d b Hd Hb). apply countb_In. assumption. }
      rewrite remT_set in Hw. simpl in Hw. destruct (Nat.eqb_spec d a).
      * subst. rewrite (i_dn _ _ I _ _ Ht), Hp. reflexivity.
      * unfold remT in Hw. destruct (get (th s) d) eqn:Ed; [| lia].
        rewrite (i_dn _ _ I _ _ Ed). destruct (hph t0); simpl in *; try lia; reflexivity.
    + eapply ph_busy; eauto.
    + eapply ph_sem; eauto. discriminate.
    + cases b0 b; gsimp; [| same I]. discriminate.
    + cases b0 b; gsimp; [| same I]. discriminate.
  - (* not the last decrement *)
    apply Nat.eqb_neq in E1.
    constructor; psimpl; intros; try (same I).
    + eapply ph_th; eauto.
    + eapply ph_slot; eauto; discriminate.
    + cases b0 b; gsimp; [| same I]. split; intros. lia. assumption.
    + cases b0 b; gsimp; [| same I]. lia.
    + apply Howe; assumption.
    + cases b0 b; gsimp; [| same I]. eapply (i_owed _ _ I). eapply rm1_incl; eauto.
    + edestruct (ph_dn s g a t) with (dn' := dn s) as [P1 P2]; [eassumption | reflexivity | | eapply P1; eassumption].
      simpl. rewrite (i_dn _ _ I _ _ Ht), Hp. reflexivity.
    + edestruct (ph_dn s g a t) with (dn' := dn s) as [P1 P2]; [eassumption | reflexivity | | eapply P2; eassumption].
      simpl. rewrite (i_dn _ _ I _ _ Ht), Hp. reflexivity.
    + eapply ph_ts; eauto. simpl. intros x Hx. apply Hts. right. assumption.
    + eapply ph_root; eauto. simpl. trivial.
    + eapply ph_busy; eauto.
    + eapply ph_sem; eauto. discriminate.
Qed.

Theorem Inv_step : forall s g free e s' f', Inv s g -> step s free e = Some (s', f') -> Inv s' (ghost_step s g e).
Proof.
  intros. destruct e.
  - eapply Inv_ESeed; eauto.
  - eapply Inv_EDeq; eauto.
  - eapply Inv_ESpawn; eauto.
  - eapply Inv_EInline; eauto.
  - eapply Inv_EStart; eauto.
  - eapply Inv_EEnd; eauto.
  - eapply Inv_ERel; eauto.
  - eapply Inv_EDec; eauto.
  - eapply Inv_EEnq; eauto.
  - eapply Inv_EClose; eauto.
  - eapply Inv_EExit; eauto.
Qed.

(* ------------------------------------------------------------------------------------------------ *)
(* How a step changes the handler table                                                             *)

Definition phase_step (e : label) (a : nat) (sem : bool) (p p' : hphase) : Prop :=
  match e with
  | EStart x => x = a /\ p = HFresh /\ exists sk, p' = HRun sk
  | EEnd x _ => x = a /\ (exists sk, p = HRun sk) /\ p' = (if sem then HEnded else HTrig (trig G a))
  | EClose => a = root G /\ p = HFresh /\ p' = (if sem then HEnded else HTrig (trig G a))
  | ERel x => x = a /\ p = HEnded /\ p' = HTrig (trig G a)
  | EDec x b => x = a /\ exists ts, p = HTrig (b :: ts) /\ (p' = HSend b ts \/ p' = HTrig ts)
  | EEnq x b => x = a /\ exists ts, p = HSend b ts /\ p' = HTrig ts
  | _ => False
  end.

Lemma held_no_thread : forall s g b, Inv s g -> mainp s = MHave b -> get (th s) b = None.
Proof.
  intros s g b I Hm. assert (Sb : stg g b = SHeld) by (apply (i_main _ _ I); assumption).
  destruct (get (th s) b) eqn:E; auto. assert (get (th s) b <> None) by congruence. apply (i_th _ _ I) in H. congruence.
Qed.

Lemma th_step : forall s g free e s' f', Inv s g -> step s free e = Some (s', f') -> forall a,
  get (th s') a = get (th s) a
  \/ (get (th s) a = None /\ (e = ESpawn a \/ e = EInline a) /\ exists sem inl, get (th s') a = Some (mkth HFresh sem inl))
  \/ (exists t p', get (th s) a = Some t /\ get (th s') a = Some (mkth p' (hsem t) (hinl t)) /\ phase_step e a (hsem t) (hph t) p').
Proof.
  intros s g free e s' f' I H a.
  destruct e.
  - destr_step H. left. reflexivity.
  - destr_step H. left. reflexivity.
  - destr_step H. bsplit. psimpl. cases a b; gsimp; [| left; reflexivity]. right. left.
    split. eapply held_no_thread; eauto. split; eauto.
  - destr_step H. bsplit. psimpl. cases a b; gsimp; [| left; reflexivity]. right. left.
    split. eapply held_no_thread; eauto. split; eauto.
  - destr_step H. psimpl. cases a a0; gsimp; [| left; reflexivity]. right. right.
    eexists. eexists. split. eassumption. split. reflexivity. simpl. rewrite Heqh. eauto.
  - destr_step H. psimpl. cases a a0; gsimp; [| left; reflexivity]. right. right.
    eexists. eexists. split. eassumption. split. reflexivity. simpl. rewrite Heqh. split; auto. split; eauto.
  - destr_step H. psimpl. cases a a0; gsimp; [| left; reflexivity]. right. right.
    eexists. eexists. split. eassumption. split. reflexivity. simpl. rewrite Heqh. auto.
  - unfold C06.step in H.
    destruct (get (th s) a0) as [t |] eqn:Ht; try discriminate.
    destruct (hph t) as [| | | [| b' ts0] |] eqn:Hp; try discriminate.
    destruct ((b' =? b) && negb (blocked top s a0)) eqn:Hc; try discriminate.
    inversion H; subst; clear H. bsplit. psimpl. cases a a0; gsimp; [| left; reflexivity]. right. right.
    eexists. eexists. split. eassumption. split. reflexivity. simpl. rewrite Hp. split; auto. eexists. split. reflexivity.
    destruct (get (pend s) b =? 1); auto.
  - destr_step H. bsplit. psimpl. cases a a0; gsimp; [| left; reflexivity]. right. right.
    eexists. eexists. split. eassumption. split. reflexivity. simpl. rewrite Heqh. split; auto. eauto.
  - destr_step H. psimpl. cases a (root G); gsimp; [| left; reflexivity]. right. right.
    eexists. eexists. split. eassumption. split. reflexivity. simpl. rewrite Heqh. split; auto.
  - destr_step H. left. reflexivity.
Qed.

(* ------------------------------------------------------------------------------------------------ *)
(* Executions.  A level runs inside an environment (the other levels) that may change the number of  *)
(* free tokens arbitrarily between its steps.                                                        *)

Inductive lrun : list label -> lstate -> Prop :=
| lrun_nil : lrun [] (init G)
| lrun_snoc : forall tr s free e s' f', lrun tr s -> step s free e = Some (s', f') -> lrun (tr ++ [e]) s'.

Lemma lrun_Inv : forall tr s, lrun tr s -> exists g, Inv s g.
Proof.
  induction 1. exists ghost0. apply Inv_init.
  destruct IHlrun as [g I]. eexists. eapply Inv_step; eauto.
Qed.

Definition is_start (a : nat) (e : label) : bool := match e with EStart x => x =? a | _ => false end.
Definition starts (a : nat) (tr : list label) : nat := length (filter (is_start a) tr).
Definition started (s : lstate) (a : nat) : nat :=
  match get (th s) a with Some t => match hph t with HFresh => 0 | _ => 1 end | None => 0 end.

Lemma starts_snoc : forall a tr e, starts a (tr ++ [e]) = starts a tr + (if is_start a e then 1 else 0).
Proof. intros. unfold starts. rewrite filter_app, app_length. simpl. destruct (is_start a e); reflexivity. Qed.

Lemma started_step : forall s g free e s' f', Inv s g -> step s free e = Some (s', f') -> forall a, a <> root G ->
  started s' a = started s a + (if is_start a e then 1 else 0).
Proof.
  intros s g free e s' f' I H a Hr. unfold started.
  destruct (th_step _ _ _ _ _ _ I H a) as [E | [[E1 [E2 [sem [inl E3]]]] | [t [p' [E1 [E2 E3]]]]]].
  - rewrite E. assert (is_start a e = false).
    { destruct e; simpl; auto. destruct (Nat.eqb_spec a0 a); auto. subst. exfalso. destr_step H. psimpl. gsimp.
      inversion E as [Et]. rewrite <- Et in Heqh. simpl in Heqh. discriminate Heqh. }
    rewrite H0. lia.
  - rewrite E1, E3. simpl. destruct E2 as [-> | ->]; reflexivity.
  - rewrite E1, E2. simpl. destruct e; simpl in E3; try contradiction.
    + destruct E3 as [-> [-> [sk ->]]]. simpl. rewrite Nat.eqb_refl. reflexivity.
    + destruct E3 as [-> [[sk ->] ->]]; destruct (hsem t); reflexivity.
    + destruct E3 as [-> [-> ->]]; reflexivity.
    + destruct E3 as [-> [ts [-> [-> | ->]]]]; reflexivity.
    + destruct E3 as [-> [ts [-> ->]]]; reflexivity.
    + destruct E3 as [-> _]. congruence.
Qed.

Lemma starts_started : forall tr s, lrun tr s -> forall a, a <> root G -> starts a tr = started s a.
Proof.
  induction 1; intros.
  - unfold starts, started, init. simpl. rewrite get_const. reflexivity.
  - destruct (lrun_Inv _ _ H) as [g I]. rewrite starts_snoc. rewrite (started_step _ _ _ _ _ _ I H0) by assumption.
    rewrite IHlrun by assumption. reflexivity.
Qed.

Lemma starts_root : forall tr s, lrun tr s -> starts (root G) tr = 0.
Proof.
  induction 1. reflexivity.
  rewrite starts_snoc, IHlrun. destruct e; simpl; auto.
  destruct (Nat.eqb_spec a (root G)); auto. subst. unfold C06.step in H0. rewrite Nat.eqb_refl in H0. discriminate.
Qed.

(* exec_once, first half: in every execution every action is started at most once *)
Theorem exec_once_level : forall tr s, lrun tr s -> forall a, starts a tr <= 1.
Proof.
  intros. destruct (Nat.eq_dec a (root G)) as [-> | Hr].
  - rewrite (starts_root _ _ H). lia.
  - rewrite (starts_started _ _ H) by assumption. unfold started. destruct (get (th s) a); auto. destruct (hph t); auto.
Qed.

(* no action is ever handed to a second handler *)
Theorem never_bad_level : forall tr s, lrun tr s -> bad s = false.
Proof. intros. destruct (lrun_Inv _ _ H) as [g I]. apply (i_bad _ _ I). Qed.

(* deps_first: when an action is started all its dependencies have ended *)
Theorem deps_first_level : forall tr s free a s' f', lrun tr s -> step s free (EStart a) = Some (s', f') ->
  forall d, In d (deps G a) -> get (dn s) d = true.
Proof.
  intros tr s free a s' f' Hr H d Hd. destruct (lrun_Inv _ _ Hr) as [g I]. destr_step H.
  eapply (i_deps _ _ I a); eauto.
  - eapply th_alln; eauto.
  - erewrite th_stage; eauto. discriminate.
Qed.

(* once the queue has been closed every action has ended *)
Lemma closed_all_dn : forall s g, Inv s g -> closed s = true -> forall a, In a (alln G) -> get (dn s) a = true.
Proof.
  intros s g I Hc.
  assert (forall k a, In a (alln G) -> rank G a + k = length (nodes G) -> get (dn s) a = true).
  { induction k using lt_wf_ind. intros a Ha Hk.
    destruct (alln_cases G WF a Ha) as [-> | [Hn Hr]].
    - rewrite <- (i_closed _ _ I). assumption.
    - pose proof (wf_tne G WF a Hn) as Ht. destruct (trig G a) as [| b ts] eqn:E; try congruence.
      assert (Hbt : In b (trig G a)) by (rewrite E; left; reflexivity).
      assert (Hb : In b (alln G)) by (eapply (wf_tin G WF); eauto).
      assert (Hab : In a (deps G b)) by (apply (trig_deps G WF a b Ha Hb); assumption).
      pose proof (rank_deps G WF b Hb a Hab) as Hlt.
      assert (Hle : rank G b <= length (nodes G)).
      { unfold rank. destruct (b =? root G). lia. apply idx_le. }
      assert (Hdb : get (dn s) b = true). { apply (H (length (nodes G) - rank G b)); auto; lia. }
      apply (i_deps _ _ I b Hb); auto.
      destruct (get (th s) b) eqn:Eb.
      + erewrite th_stage; eauto. discriminate.
      + rewrite (i_dn0 _ _ I b Eb) in Hdb. discriminate. }
  intros a Ha. assert (Hle : rank G a <= length (nodes G)).
  { unfold rank. destruct (a =? root G). lia. apply idx_le. }
  apply (H (length (nodes G) - rank G a)); auto. lia.
Qed.

Lemma final_closed : forall tr s, lrun tr s -> final s = true -> closed s = true.
Proof.
  induction 1; intros Hf.
  - discriminate.
  - destruct e; destr_step H0; unfold final in *; psimpl; try discriminate; auto.
    bsplit. assumption.
Qed.

(* exec_once, second half: in a maximal execution every action has been started exactly once *)
Theorem exec_once_final_level : forall tr s, lrun tr s -> final s = true -> forall a, In a (nodes G) -> starts a tr = 1.
Proof.
  intros tr s Hr Hf a Ha. destruct (lrun_Inv _ _ Hr) as [g I].
  assert (Hnr : a <> root G) by (intro; subst; apply (wf_root G WF); assumption).
  rewrite (starts_started _ _ Hr) by assumption. unfold started.
  pose proof (closed_all_dn _ _ I (final_closed _ _ Hr Hf) a (nodes_alln G a Ha)) as Hd.
  destruct (get (th s) a) eqn:E.
  - rewrite (i_dn _ _ I _ _ E) in Hd. destruct (hph t); simpl in *; auto; discriminate.
  - rewrite (i_dn0 _ _ I _ E) in Hd. discriminate.
Qed.

(* ------------------------------------------------------------------------------------------------ *)
(* Results: executions in which every exec returns the value of one fixed function of the action and  *)
(* of its dependencies' results                                                                       *)

Section Exec.
Variable exec : nat -> (nat -> option R) -> option R.
Hypothesis exec_local : forall a m m', (forall d, In d (deps G a) -> m d = m' d) -> exec a m = exec a m'.

Lemma existsb_ext_in : forall A (f g : A -> bool) l, (forall x, In x l -> f x = g x) -> existsb f l = existsb g l.
Proof.
  induction l; simpl; intros. reflexivity. rewrite H by auto. rewrite IHl; auto.
Qed.

Lemma skipD_local : forall (m m' : nat -> option R) a, (forall d, In d (deps G a) -> m d = m' d) -> skipD G m a = skipD G m' a.
Proof.
  intros. unfold skipD. f_equal. apply existsb_ext_in. intros. rewrite H; auto.
Qed.

(* the defining equation of the result map at a *)
Definition eqn_at (m : nat -> option R) (a : nat) : Prop := m a = if skipD G m a then None else exec a m.

Lemma eqn_at_local : forall m m' a, m a = m' a -> (forall d, In d (deps G a) -> m d = m' d) -> eqn_at m a -> eqn_at m' a.
Proof.
  unfold eqn_at. intros. rewrite <- H. rewrite <- (skipD_local m m' a H0). rewrite <- (exec_local a m m' H0). assumption.
Qed.

Record InvF (s : lstate) : Prop := mkInvF {
  f_fresh : forall a, match get (th s) a with None => True | Some t => hph t = HFresh end -> get (failed s) a = ifail G a;
  f_run : forall a t sk, get (th s) a = Some t -> hph t = HRun sk -> sk = get (failed s) a /\ sk = skipD G (get (res s)) a;
  f_dn : forall a, get (dn s) a = true -> a <> root G -> eqn_at (get (res s)) a /\ get (failed s) a = isNone (get (res s) a) }.

Lemma InvF_init : InvF (init G).
Proof.
  constructor; unfold init; simpl; intros; rewrite ?get_const in *; auto; discriminate.
Qed.

(* a dependency of an action that has ended has ended itself *)
Lemma dn_deps_dn : forall s g, Inv s g -> forall a, In a (alln G) -> get (dn s) a = true -> forall d, In d (deps G a) -> get (dn s) d = true.
Proof.
  intros s g I a Ha Hd d Hin. apply (i_deps _ _ I a Ha); auto.
  destruct (get (th s) a) eqn:E.
  - erewrite th_stage; eauto. discriminate.
  - rewrite (i_dn0 _ _ I a E) in Hd. discriminate.
Qed.

Lemma dn_alln : forall s g, Inv s g -> forall a, get (dn s) a = true -> In a (alln G).
Proof.
  intros s g I a Hd. destruct (get (th s) a) eqn:E.
  - eapply th_alln; eauto.
  - rewrite (i_dn0 _ _ I a E) in Hd. discriminate.
Qed.

Lemma InvF_step : forall s g free e s' f', Inv s g -> InvF s -> step s free e = Some (s', f') -> consistent exec s e -> InvF s'.
Proof.
  intros s g free e s' f' I F H C.
  destruct e.
  - (* ESeed *) destr_step H. constructor; psimpl; intros; [apply (f_fresh _ F) | eapply (f_run _ F) | apply (f_dn _ F)]; eauto.
  - (* EDeq *) destr_step H. constructor; psimpl; intros; [apply (f_fresh _ F) | eapply (f_run _ F) | apply (f_dn _ F)]; eauto.
  - (* ESpawn *) destr_step H. bsplit. name_main. pose proof (held_no_thread _ _ _ I Hm) as Tb.
    constructor; psimpl; intros.
    + cases a b; gsimp. apply (f_fresh _ F). rewrite Tb. trivial. apply (f_fresh _ F). assumption.
    + cases a b; gsimp. inversion H; subst. discriminate. eapply (f_run _ F); eauto.
    + apply (f_dn _ F); auto.
  - (* EInline *) destr_step H. bsplit. name_main. pose proof (held_no_thread _ _ _ I Hm) as Tb.
    constructor; psimpl; intros.
    + cases a b; gsimp. apply (f_fresh _ F). rewrite Tb. trivial. apply (f_fresh _ F). assumption.
    + cases a b; gsimp. inversion H; subst. discriminate. eapply (f_run _ F); eauto.
    + apply (f_dn _ F); auto.
  - (* EStart *) destr_step H. name_th.
    assert (Ha : In a (alln G)) by (eapply th_alln; eauto).
    assert (Hfa : get (failed s) a = ifail G a). { apply (f_fresh _ F). rewrite Ht. assumption. }
    assert (Hdd : forall d, In d (deps G a) -> get (dn s) d = true).
    { intros. eapply (i_deps _ _ I a); eauto. erewrite th_stage; eauto. discriminate. }
    assert (Hsk : get (failed s) a || existsb (get (failed s)) (deps G a) = skipD G (get (res s)) a).
    { unfold skipD. rewrite Hfa. f_equal. apply existsb_ext_in. intros d Hd.
      apply (f_dn _ F); auto. intro. subst. eapply (root_not_dep G WF); eauto. }
    assert (Hda : get (dn s) a = false). { rewrite (i_dn _ _ I _ _ Ht), Hp. reflexivity. }
    constructor; psimpl; intros.
    + cases a0 a; gsimp. inversion H. apply (f_fresh _ F). assumption.
    + cases a0 a; gsimp.
      * inversion H; subst. simpl in H0. inversion H0; subst. split. reflexivity. assumption.
      * eapply (f_run _ F); eauto.
    + cases a0 a; gsimp. congruence. apply (f_dn _ F); auto.
  - (* EEnd *) destr_step H. name_th.
    match goal with H' : hph ?t = HRun ?x |- _ => rename x into sk0 end.
    assert (Ha : In a (alln G)) by (eapply th_alln; eauto).
    assert (Hnr : a <> root G). { intro. subst. pose proof (i_root _ _ I _ Ht) as Hx. rewrite Hp in Hx. assumption. }
    destruct (f_run _ F _ _ _ Ht Hp) as [Hs1 Hs2].
    assert (Hda : get (dn s) a = false). { rewrite (i_dn _ _ I _ _ Ht), Hp. reflexivity. }
    assert (Hnd : forall x, In x (alln G) -> get (dn s) x = true -> ~ In a (deps G x)).
    { intros x Hx Hdx Hin. pose proof (dn_deps_dn _ _ I x Hx Hdx a Hin). congruence. }
    assert (Hself : ~ In a (deps G a)). { intro Hin. pose proof (rank_deps G WF a Ha a Hin). lia. }
    assert (Hagree : forall x, ~ In a (deps G x) -> forall d, In d (deps G x) -> get (res s) d = get (set (res s) a o) d).
    { intros x Hx d Hd. cases d a. contradiction. gsimp. reflexivity. }
    constructor; psimpl; intros.
    + cases a0 a; gsimp. { simpl in H. destruct (after_end_cases t a) as [[_ E] | [_ E]]; rewrite E in H; discriminate. }
      apply (f_fresh _ F). assumption.
    + cases a0 a; gsimp. inversion H; subst. destruct (after_end_cases t a) as [[_ E] | [_ E]]; rewrite E in H0; discriminate.
      destruct (f_run _ F _ _ _ H H0). split; auto.
      (* a running action other than a: a's result is not among its inputs unless a is a dependency, which has not ended *)
      rewrite H2. apply skipD_local. intros d Hd. cases d a; gsimp; auto.
      exfalso. assert (Hx : In a0 (alln G)) by (eapply th_alln; eauto).
      assert (get (dn s) a = true). { eapply (i_deps _ _ I a0); eauto. erewrite th_stage; eauto. discriminate. }
      congruence.
    + cases a0 a; gsimp.
      * unfold eqn_at. gsimp. rewrite <- (skipD_local _ _ a (Hagree a Hself)). rewrite <- Hs2.
        destruct sk0.
        -- destruct o; simpl in *; try discriminate. split; auto. rewrite <- Hs1. reflexivity.
        -- rewrite <- (exec_local a _ _ (Hagree a Hself)). split.
           ++ simpl in C. eapply C; eauto.
           ++ rewrite <- Hs1. reflexivity.
      * destruct (f_dn _ F a0 H H0) as [E1 E2]. assert (Hx : In a0 (alln G)) by (eapply dn_alln; eauto).
        split; [| gsimp; assumption]. eapply eqn_at_local; [| | exact E1]. rewrite gso by congruence. reflexivity. apply Hagree. apply Hnd; auto.
  - (* ERel *) destr_step H. constructor; psimpl; intros.
    + cases a0 a; gsimp. inversion H. apply (f_fresh _ F). assumption.
    + cases a0 a; gsimp. inversion H; subst. discriminate. eapply (f_run _ F); eauto.
    + apply (f_dn _ F); auto.
  - (* EDec *) unfold C06.step in H.
    destruct (get (th s) a) as [t |] eqn:Ht; try discriminate.
    destruct (hph t) as [| | | [| b' ts0] |] eqn:Hp; try discriminate.
    destruct ((b' =? b) && negb (blocked top s a)) eqn:Hc; try discriminate.
    inversion H; subst; clear H. constructor; psimpl; intros.
    + cases a0 a; gsimp. inversion H. destruct (get (pend s) b =? 1); discriminate. apply (f_fresh _ F). assumption.
    + cases a0 a; gsimp. inversion H; subst. simpl in H0. destruct (get (pend s) b =? 1); discriminate. eapply (f_run _ F); eauto.
    + apply (f_dn _ F); auto.
  - (* EEnq *) destr_step H. constructor; psimpl; intros.
    + cases a0 a; gsimp. inversion H. apply (f_fresh _ F). assumption.
    + cases a0 a; gsimp. inversion H; subst. discriminate. eapply (f_run _ F); eauto.
    + apply (f_dn _ F); auto.
  - (* EClose *) destr_step H. name_th. constructor; psimpl; intros.
    + cases a (root G); gsimp. { simpl in H. destruct (after_end_cases t (root G)) as [[_ E] | [_ E]]; rewrite E in H; discriminate. }
      apply (f_fresh _ F). assumption.
    + cases a (root G); gsimp. { inversion H; subst. simpl in H0. destruct (after_end_cases t (root G)) as [[_ E] | [_ E]]; rewrite E in H0; discriminate. }
      eapply (f_run _ F); eauto.
    + cases a (root G); gsimp. congruence. apply (f_dn _ F); auto.
  - (* EExit *) destr_step H. constructor; psimpl; intros; [apply (f_fresh _ F) | eapply (f_run _ F) | apply (f_dn _ F)]; eauto.
Qed.

(* consistent executions *)
Inductive crun : list label -> lstate -> Prop :=
| crun_nil : crun [] (init G)
| crun_snoc : forall tr s free e s' f', crun tr s -> step s free e = Some (s', f') -> consistent exec s e -> crun (tr ++ [e]) s'.

Lemma crun_lrun : forall tr s, crun tr s -> lrun tr s.
Proof. induction 1; econstructor; eauto. Qed.

Lemma crun_InvF : forall tr s, crun tr s -> InvF s.
Proof.
  induction 1. apply InvF_init.
  destruct (lrun_Inv _ _ (crun_lrun _ _ H)) as [g I]. eapply InvF_step; eauto.
Qed.

(* the result map is a solution of the defining equations *)
Definition sol (m : nat -> option R) : Prop := forall a, In a (nodes G) -> eqn_at m a.

Lemma sol_unique : forall m m', sol m -> sol m' -> forall a, In a (nodes G) -> m a = m' a.
Proof.
  intros m m' S S'.
  assert (forall n a, In a (nodes G) -> idx a (nodes G) < n -> m a = m' a).
  { induction n; intros a Ha Hn. lia.
    assert (Hd : forall d, In d (deps G a) -> m d = m' d).
    { intros d Hd. apply IHn. eapply deps_in_nodes; eauto. right; assumption.
      pose proof (wf_topo G WF a Ha d Hd). lia. }
    rewrite (S a Ha), (S' a Ha). rewrite (skipD_local m m' a Hd). rewrite (exec_local a m m' Hd). reflexivity. }
  intros a Ha. apply (H (Datatypes.S (idx a (nodes G)))); auto.
Qed.

Theorem final_sol : forall tr s, crun tr s -> final s = true ->
  sol (get (res s)) /\ forall a, In a (nodes G) -> get (failed s) a = isNone (get (res s) a).
Proof.
  intros tr s Hc Hf. pose proof (crun_lrun _ _ Hc) as Hl. destruct (lrun_Inv _ _ Hl) as [g I].
  pose proof (crun_InvF _ _ Hc) as F.
  assert (Hd : forall a, In a (nodes G) -> get (dn s) a = true /\ a <> root G).
  { intros a Ha. split. eapply closed_all_dn; eauto. eapply final_closed; eauto. right; assumption.
    intro. subst. apply (wf_root G WF). assumption. }
  split; intros a Ha; destruct (Hd a Ha); apply (f_dn _ F); auto.
Qed.

(* confluence: all maximal executions end with the same result and failed maps *)
Theorem confluence_level : forall tr1 s1 tr2 s2, crun tr1 s1 -> final s1 = true -> crun tr2 s2 -> final s2 = true ->
  forall a, In a (nodes G) -> get (res s1) a = get (res s2) a /\ get (failed s1) a = get (failed s2) a.
Proof.
  intros tr1 s1 tr2 s2 H1 F1 H2 F2 a Ha.
  destruct (final_sol _ _ H1 F1) as [S1 E1]. destruct (final_sol _ _ H2 F2) as [S2 E2].
  pose proof (sol_unique _ _ S1 S2 a Ha) as E. split. assumption. rewrite E1, E2 by assumption. rewrite E. reflexivity.
Qed.

(* ---- the denotation computed in dependency order is the solution ---- *)
Lemma idx_app_in : forall x l r, In x l -> idx x (l ++ r) = idx x l.
Proof.
  induction l; simpl; intros. contradiction.
  destruct (Nat.eqb_spec a x). reflexivity. rewrite IHl. reflexivity. destruct H; [congruence | assumption].
Qed.

Lemma idx_app_notin : forall x l r, ~ In x l -> idx x (l ++ x :: r) = length l.
Proof.
  induction l; simpl; intros. rewrite Nat.eqb_refl. reflexivity.
  destruct (Nat.eqb_spec a x). subst. exfalso. apply H. left. reflexivity. rewrite IHl. reflexivity. tauto.
Qed.

Lemma evalD_snoc : forall l a m0, evalD G exec (l ++ [a]) m0 =
  let m := evalD G exec l m0 in let v := if skipD G m a then None else exec a m in fun x => if x =? a then v else m x.
Proof. intros. unfold evalD. rewrite fold_left_app. reflexivity. Qed.

Lemma evalD_prefix : forall l l2, nodes G = l ++ l2 ->
  (forall x, In x l -> eqn_at (evalD G exec l (fun _ => None)) x).
Proof.
  induction l using rev_ind; intros l2 E y Hy. contradiction.
  rewrite <- app_assoc in E. simpl in E.
  pose proof (wf_nodup G WF) as ND. rewrite E in ND.
  assert (Hxl : ~ In x l). { apply NoDup_remove_2 in ND. intro. apply ND. apply in_or_app. left. assumption. }
  assert (Hidx : idx x (nodes G) = length l). { rewrite E. apply idx_app_notin. assumption. }
  assert (Hxn : In x (nodes G)). { rewrite E. apply in_or_app. right. left. reflexivity. }
  set (m := evalD G exec l (fun _ => None)).
  assert (Hag : forall z, In z (nodes G) -> idx z (nodes G) <= length l -> forall d, In d (deps G z) -> m d = evalD G exec (l ++ [x]) (fun _ => None) d).
  { intros z Hz Hle d Hd. rewrite evalD_snoc. simpl. fold m. pose proof (wf_topo G WF z Hz d Hd).
    destruct (Nat.eqb_spec d x); auto. subst. lia. }
  apply in_app_or in Hy. destruct Hy as [Hy | [Hy | []]].
  - assert (Hyn : In y (nodes G)). { rewrite E. apply in_or_app. left. assumption. }
    assert (Hiy : idx y (nodes G) < length l). { rewrite E. rewrite idx_app_in by assumption. apply idx_In. assumption. }
    eapply eqn_at_local; [| | apply (IHl (x :: l2) E y Hy)].
    + rewrite evalD_snoc. simpl. destruct (Nat.eqb_spec y x); auto. subst. contradiction.
    + apply Hag; auto. lia.
  - subst y. unfold eqn_at.
    rewrite <- (skipD_local m _ x (Hag x Hxn ltac:(lia))). rewrite <- (exec_local x m _ (Hag x Hxn ltac:(lia))).
    rewrite evalD_snoc. simpl. rewrite Nat.eqb_refl. reflexivity.
Qed.

Theorem den_sol : sol (den G exec).
Proof. intros a Ha. unfold den. eapply (evalD_prefix (nodes G) []); auto. rewrite app_nil_r. reflexivity. Qed.

(* every maximal execution ends with the denotation *)
Theorem final_den : forall tr s, crun tr s -> final s = true -> forall a, In a (nodes G) ->
  get (res s) a = den G exec a /\ get (failed s) a = isNone (den G exec a).
Proof.
  intros tr s Hc Hf a Ha. destruct (final_sol _ _ Hc Hf) as [S E].
  pose proof (sol_unique _ _ S den_sol a Ha) as Ed. split. assumption. rewrite E by assumption. rewrite Ed. reflexivity.
Qed.

(* failed_iff: an action is failed iff it or a transitive dependency raised an error *)
Inductive dep_star : nat -> nat -> Prop :=
| ds_refl : forall a, dep_star a a
| ds_step : forall d x a, dep_star d x -> In x (deps G a) -> dep_star d a.

Definition raised (m : nat -> option R) (a : nat) : Prop :=
  ifail G a = true \/ (skipD G m a = false /\ exec a m = None).

Lemma existsb_isNone : forall (m : nat -> option R) l, existsb (fun d => isNone (m d)) l = true <-> exists d, In d l /\ m d = None.
Proof.
  intros. rewrite existsb_exists. split; intros [d [H1 H2]]; exists d; split; auto.
  destruct (m d); simpl in *; congruence. rewrite H2. reflexivity.
Qed.

Theorem failed_iff_sol : forall m, sol m -> forall a, In a (nodes G) ->
  (m a = None <-> exists d, dep_star d a /\ In d (nodes G) /\ raised m d).
Proof.
  intros m S.
  assert (forall n a, In a (nodes G) -> idx a (nodes G) < n -> (m a = None <-> exists d, dep_star d a /\ In d (nodes G) /\ raised m d)).
  { induction n; intros a Ha Hn. lia.
    assert (IH : forall x, In x (deps G a) -> (m x = None <-> exists d, dep_star d x /\ In d (nodes G) /\ raised m d)).
    { intros x Hx. apply IHn. eapply deps_in_nodes; eauto. right; assumption. pose proof (wf_topo G WF a Ha x Hx). lia. }
    split.
    - intros Hm. rewrite (S a Ha) in Hm. destruct (skipD G m a) eqn:Es.
      + unfold skipD in Es. apply orb_true_iff in Es. destruct Es as [Es | Es].
        * exists a. split. constructor. split; auto. left. assumption.
        * apply existsb_isNone in Es. destruct Es as [x [Hx Hmx]]. apply (IH x Hx) in Hmx.
          destruct Hmx as [d [D1 [D2 D3]]]. exists d. split; auto. econstructor; eauto.
      + exists a. split. constructor. split; auto. right. split; assumption.
    - intros [d [D1 [D2 D3]]]. rewrite (S a Ha). inversion D1; subst.
      + destruct D3 as [D3 | [D3 D4]]. unfold skipD. rewrite D3. reflexivity. rewrite D3. assumption.
      + assert (m x = None). { apply (IH x H0). exists d. auto. }
        assert (skipD G m a = true). { unfold skipD. apply orb_true_iff. right. apply existsb_isNone. eauto. }
        rewrite H2. reflexivity. }
  intros a Ha. apply (H (Datatypes.S (idx a (nodes G)))); auto.
Qed.

Theorem failed_iff_level : forall tr s, crun tr s -> final s = true -> forall a, In a (nodes G) ->
  (get (failed s) a = true <-> exists d, dep_star d a /\ In d (nodes G) /\ raised (get (res s)) d).
Proof.
  intros tr s Hc Hf a Ha. destruct (final_sol _ _ Hc Hf) as [S E]. rewrite (E a Ha).
  rewrite <- (failed_iff_sol _ S a Ha). destruct (get (res s) a); simpl; split; intros; congruence.
Qed.

Lemma sol_of_inv : forall s g, Inv s g -> InvF s -> closed s = true ->
  sol (get (res s)) /\ forall a, In a (nodes G) -> get (failed s) a = isNone (get (res s) a).
Proof.
  intros s g I F Hc.
  assert (Hd : forall a, In a (nodes G) -> get (dn s) a = true /\ a <> root G).
  { intros a Ha. split. eapply closed_all_dn; eauto. right; assumption.
    intro. subst. apply (wf_root G WF). assumption. }
  split; intros a Ha; destruct (Hd a Ha); apply (f_dn _ F); auto.
Qed.

End Exec.

Lemma InvF_ext : forall (exec exec' : nat -> (nat -> option R) -> option R) s, (forall a m, exec a m = exec' a m) -> InvF exec s -> InvF exec' s.
Proof.
  intros exec exec' s E F. constructor; intros.
  - apply (f_fresh _ _ F). assumption.
  - eapply (f_run _ _ F); eauto.
  - destruct (f_dn _ _ F a H H0) as [A B]. split; auto. unfold eqn_at in *. rewrite <- E. assumption.
Qed.

Lemma evalD_ext : forall (exec exec' : nat -> (nat -> option R) -> option R) l m0, (forall a m, exec a m = exec' a m) -> forall x, evalD G exec l m0 x = evalD G exec' l m0 x.
Proof.
  intros exec exec' l m0 E. unfold evalD. revert m0. induction l; simpl; intros. reflexivity.
  rewrite E. apply IHl.
Qed.

Lemma den_ext : forall (exec exec' : nat -> (nat -> option R) -> option R), (forall a m, exec a m = exec' a m) -> forall x, den G exec x = den G exec' x.
Proof. intros. unfold den. apply evalD_ext. assumption. Qed.

(* ------------------------------------------------------------------------------------------------ *)
(* Progress                                                                                          *)

(* a handler that is neither finished nor blocked in a send *)
Definition movable (s : lstate) (a : nat) : bool :=
  match get (th s) a with
  | None => false
  | Some t => match hph t with HTrig [] => false | HTrig (_ :: _) => negb (blocked top s a) | _ => true end
  end.

(* Every movable handler has an enabled step, whatever the number of free tokens.  A running handler can
   end with any result (None if the action was skipped). *)
Lemma movable_step : forall s g a, Inv s g -> movable s a = true ->
  (exists t sk, get (th s) a = Some t /\ hph t = HRun sk /\
      forall o free, (sk = true -> o = None) -> exists s', step s free (EEnd a o) = Some (s', free))
  \/ (exists e, (forall free, exists s' f', step s free e = Some (s', f') /\ (f' = free \/ (f' = S free /\ e = ERel a)))
         /\ match e with EStart x | ERel x | EDec x _ | EEnq x _ => x = a | EClose => a = root G | _ => False end).
Proof.
  intros s g a I M. unfold movable in M. destruct (get (th s) a) as [t |] eqn:Ht; try discriminate.
  destruct (hph t) as [| sk | | ts | b ts] eqn:Hp.
  - (* HFresh *) right. destruct (Nat.eq_dec a (root G)) as [-> | Hr].
    + exists EClose. split; auto. intros. unfold C06.step. rewrite Ht, Hp. do 2 eexists; split; [reflexivity | auto].
    + exists (EStart a). split; auto. intros. unfold C06.step. rewrite (proj2 (Nat.eqb_neq _ _) Hr), Ht, Hp. do 2 eexists; split; [reflexivity | auto].
  - (* HRun *) left. exists t, sk. split; auto. split; auto. intros o free Ho. unfold C06.step. rewrite Ht, Hp.
    destruct sk; simpl. rewrite Ho by reflexivity. simpl. eauto. eauto.
  - (* HEnded *) right. exists (ERel a). split; auto. intros. unfold C06.step. rewrite Ht, Hp. rewrite (i_sem _ _ I _ _ Ht Hp). do 2 eexists; split; [reflexivity | auto].
  - (* HTrig *) destruct ts as [| b ts]; try discriminate. right. exists (EDec a b). split; auto. intros. unfold C06.step.
    rewrite Ht, Hp. rewrite Nat.eqb_refl, M. simpl. do 2 eexists; split; [reflexivity | auto].
  - (* HSend *) right. exists (EEnq a b). split; auto. intros. unfold C06.step. rewrite Ht, Hp. rewrite Nat.eqb_refl. do 2 eexists; split; [reflexivity | auto].
Qed.

(* if no handler is active and nothing is queued or held, every action has a handler *)
Lemma quiescent_all_threads : forall s g, Inv s g -> seedl s = [] -> queue s = [] -> (forall b, mainp s <> MHave b) ->
  (forall a, movable s a = false) -> forall a, In a (alln G) -> exists t, get (th s) a = Some t /\ hph t = HTrig [].
Proof.
  intros s g I Hs Hq Hm Hmv.
  assert (Hfin : forall a t, get (th s) a = Some t -> hph t = HTrig []).
  { intros a t Ht. specialize (Hmv a). unfold movable in Hmv. rewrite Ht in Hmv.
    destruct (hph t) as [| | | [| b ts] |]; try discriminate; auto.
    apply negb_false_iff in Hmv. unfold blocked in Hmv. rewrite Hq in Hmv. simpl in Hmv. rewrite andb_false_r in Hmv. discriminate. }
  assert (forall n a, In a (alln G) -> rank G a < n -> stg g a = SThread).
  { induction n; intros a Ha Hn. lia.
    destruct (stg g a) eqn:E; auto; exfalso.
    - (* waiting: some dependency still owes a decrement *)
      pose proof (proj1 (i_wait _ _ I a Ha) E) as Hp. rewrite (i_pend _ _ I a Ha) in Hp.
      destruct (owe g a) as [| d l] eqn:Eo; simpl in Hp; try lia.
      assert (Hd : In d (deps G a)). { apply (i_owed _ _ I d a). rewrite Eo. left. reflexivity. }
      assert (Hda : In d (alln G)) by (right; eapply deps_in_nodes; eauto).
      pose proof (i_owe _ _ I d a Hda Ha) as Hw. rewrite Eo in Hw. simpl in Hw. rewrite Nat.eqb_refl in Hw.
      assert (Sd : stg g d = SThread). { apply IHn; auto. pose proof (rank_deps G WF a Ha d Hd). lia. }
      apply (i_th _ _ I) in Sd. destruct (get (th s) d) as [t |] eqn:Et; try congruence.
      unfold rem, remT in Hw. rewrite Et, (Hfin _ _ Et) in Hw. simpl in Hw. lia.
    - pose proof (i_seed _ _ I a) as Hx. rewrite E, Hs in Hx. simpl in Hx. lia.
    - apply (i_slot _ _ I) in E. destruct E as [t [ts [E1 E2]]]. rewrite (Hfin _ _ E1) in E2. discriminate.
    - pose proof (i_queue _ _ I a) as Hx. rewrite E, Hq in Hx. simpl in Hx. lia.
    - apply (i_main _ _ I) in E. eapply Hm; eauto. }
  intros a Ha. assert (Sa : stg g a = SThread). { apply (H (S (rank G a))); auto. }
  apply (i_th _ _ I) in Sa. destruct (get (th s) a) as [t |] eqn:Et; try congruence. exists t. split; auto. eapply Hfin; eauto.
Qed.

Definition main_event (e : label) : Prop := match e with ESeed _ | EDeq _ | EExit => True | _ => False end.

(* no_deadlock for one level: a state that is not final has a movable handler, or the loop's thread holds an
   item (and will acquire a token or, below the package level, run it inline), or the loop's thread / the
   seeding can step. *)
Theorem level_progress : forall s g, Inv s g -> final s = false ->
  (exists a, In a (alln G) /\ movable s a = true)
  \/ (exists b, mainp s = MHave b)
  \/ (exists e, main_event e /\ forall free, exists s', step s free e = Some (s', free)).
Proof.
  intros s g I Hf.
  destruct (existsb (movable s) (alln G)) eqn:Ex.
  { left. apply existsb_exists in Ex. destruct Ex as [a [H1 H2]]. eauto. }
  assert (Hmv : forall a, movable s a = false).
  { intros a. destruct (in_dec Nat.eq_dec a (alln G)).
    - destruct (movable s a) eqn:E; auto. assert (existsb (movable s) (alln G) = true) by (apply existsb_exists; eauto). congruence.
    - unfold movable. destruct (get (th s) a) eqn:E; auto. exfalso. apply n. eapply th_alln; eauto. }
  destruct (mainp s) as [| b | a |] eqn:Em.
  2: { right. left. eauto. }
  3: { unfold final in Hf. rewrite Em in Hf. discriminate. }
  - (* idle *) right. right. assert (Hr : main_ready s = true) by (unfold main_ready; rewrite Em; reflexivity).
    destruct (queue s) as [| m q] eqn:Eq.
    + destruct (seedl s) as [| b l] eqn:Es.
      * (* nothing left: the root has been handled *)
        destruct (quiescent_all_threads s g I Es Eq ltac:(intros; congruence) Hmv (root G) (root_alln G)) as [t [Ht Hp]].
        exists EExit. split. exact Logic.I. intros. unfold C06.step. rewrite Hr, Eq.
        assert (closed s = true). { rewrite (i_closed _ _ I), (i_dn _ _ I _ _ Ht), Hp. reflexivity. }
        rewrite H. simpl. eauto.
      * exists (ESeed b). split. exact Logic.I. intros. unfold C06.step. rewrite Es. simpl. rewrite Nat.eqb_refl.
        unfold seeder_blocked, main_idle. rewrite Eq, Em. simpl. rewrite andb_false_r. simpl. eauto.
    + destruct top eqn:Et.
      * exists (EDeq (mitem m)). split. exact Logic.I. intros. unfold C06.step. rewrite Hr. simpl. rewrite Eq. simpl. rewrite Nat.eqb_refl. eauto.
      * destruct (seedl s) as [| b l] eqn:Es.
        -- exists (EDeq (mitem m)). split. exact Logic.I. intros. unfold C06.step. rewrite Hr, Es. simpl. rewrite Eq. simpl. rewrite Nat.eqb_refl. eauto.
        -- exists (ESeed b). split. exact Logic.I. intros. unfold C06.step. rewrite Es. simpl. rewrite Nat.eqb_refl.
           unfold seeder_blocked, main_idle. rewrite Em. simpl. eauto.
  - (* the loop's thread has run a handler inline: that handler has finished *)
    right. right.
    assert (Ht : top = false). { destruct top eqn:Et; auto. exfalso. eapply (i_top _ _ I); eauto. }
    destruct (i_busy _ _ I a Em) as [t Hta].
    assert (Hp : hph t = HTrig []).
    { specialize (Hmv a). unfold movable in Hmv. rewrite Hta in Hmv. destruct (hph t) as [| | | [| b ts] |]; try discriminate; auto.
      unfold blocked in Hmv. rewrite Ht in Hmv. discriminate. }
    assert (Hr : main_ready s = true). { unfold main_ready. rewrite Em, Hta. simpl. rewrite Hp. reflexivity. }
    assert (Hsd : seedl s = []).
    { destruct (seedl s) eqn:Es; auto. exfalso. destruct (i_seeding _ _ I Ht); rewrite ?Es; congruence. }
    destruct (queue s) as [| m q] eqn:Eq.
    + destruct (quiescent_all_threads s g I Hsd Eq ltac:(intros; congruence) Hmv (root G) (root_alln G)) as [t0 [Ht0 Hp0]].
      exists EExit. split. exact Logic.I. intros. unfold C06.step. rewrite Hr, Eq.
      assert (closed s = true). { rewrite (i_closed _ _ I), (i_dn _ _ I _ _ Ht0), Hp0. reflexivity. }
      rewrite H. simpl. eauto.
    + exists (EDeq (mitem m)). split. exact Logic.I. intros. unfold C06.step. rewrite Hr, Hsd. rewrite orb_true_r. simpl.
      rewrite Eq. simpl. rewrite Nat.eqb_refl. eauto.
Qed.

(* ------------------------------------------------------------------------------------------------ *)
(* Happens-before skeleton.  A second ghost component tracks, as a vector-clock race detector would, for  *)
(* every thread and every synchronisation object the set of actions whose result write (EEnd) happens     *)
(* before it.  Edges: program order; goroutine start (ESpawn: loop thread -> handler; EInline is program   *)
(* order); atomic read-modify-write on a pending counter (EDec: acquires what earlier decrements of the    *)
(* same counter released, and releases); channel send -> receive (ESeed/EEnq -> EDeq); close -> the        *)
(* receive that observes it (EClose -> EExit).                                                             *)

Record hb := mkhb {
  kt : nat -> list nat;      (* handler of action a *)
  km : list nat;             (* the loop's thread *)
  kc : nat -> list nat;      (* pending counter of b *)
  kq : nat -> list nat;      (* the message carrying item b *)
  kcl : list nat }.          (* the close of the queue *)

Definition hb0 : hb := mkhb (fun _ => []) [] (fun _ => []) (fun _ => []) [].

(* what the loop's thread knows: after an inline handler returned, also what that handler knew *)
Definition main_k (s : lstate) (h : hb) : list nat :=
  match mainp s with MBusy a => km h ++ kt h a | _ => km h end.

Definition hb_step (s : lstate) (h : hb) (e : label) : hb :=
  match e with
  | ESeed b => mkhb (kt h) (km h) (kc h) (upd (kq h) b []) (kcl h)
  | EDeq b => mkhb (kt h) (main_k s h ++ kq h b) (kc h) (kq h) (kcl h)
  | ESpawn b | EInline b => mkhb (upd (kt h) b (km h)) (km h) (kc h) (kq h) (kcl h)
  | EEnd a _ => mkhb (upd (kt h) a (a :: kt h a)) (km h) (kc h) (kq h) (kcl h)
  | EDec a b => let k := kt h a ++ kc h b in mkhb (upd (kt h) a k) (km h) (upd (kc h) b k) (kq h) (kcl h)
  | EEnq a b => mkhb (kt h) (km h) (kc h) (upd (kq h) b (kt h a)) (kcl h)
  | EClose => mkhb (kt h) (km h) (kc h) (kq h) (kt h (root G))
  | EExit => mkhb (kt h) (main_k s h ++ kcl h) (kc h) (kq h) (kcl h)
  | _ => h
  end.

(* a knowledge set contains only actions that have ended, and is closed under dependencies *)
Definition kok (s : lstate) (K : list nat) : Prop :=
  forall x, In x K -> get (dn s) x = true /\ In x (nodes G) /\ incl (deps G x) K.

Record HInv (s : lstate) (g : ghost) (h : hb) : Prop := mkHInv {
  h_kt : forall a, kok s (kt h a);
  h_km : kok s (km h);
  h_kc : forall b, kok s (kc h b);
  h_kq : forall b, kok s (kq h b);
  h_kcl : kok s (kcl h);
  h_th : forall a t, get (th s) a = Some t -> incl (deps G a) (kt h a);
  h_self : forall a t, get (th s) a = Some t -> a <> root G -> get (dn s) a = true -> In a (kt h a);
  h_main : forall b, mainp s = MHave b -> incl (deps G b) (km h);
  h_queue : forall b, stg g b = SQueue -> incl (deps G b) (kq h b);
  h_slot : forall a b, stg g b = SSlot a -> incl (deps G b) (kt h a);
  h_cnt : forall d b, In d (alln G) -> In b (alln G) -> In d (deps G b) -> rem s d b = 0 -> In d (kc h b);
  h_closed : closed s = true -> incl (deps G (root G)) (kcl h);
  h_done : mainp s = MDone -> closed s = true /\ incl (kcl h) (km h) }.

Lemma kok_app : forall s K1 K2, kok s K1 -> kok s K2 -> kok s (K1 ++ K2).
Proof.
  intros s K1 K2 H1 H2 x Hx. apply in_app_or in Hx. destruct Hx as [Hx | Hx].
  - destruct (H1 x Hx) as [A [B C]]. split; auto. split; auto. intros y Hy. apply in_or_app. left. auto.
  - destruct (H2 x Hx) as [A [B C]]. split; auto. split; auto. intros y Hy. apply in_or_app. right. auto.
Qed.

Lemma kok_nil : forall s, kok s [].
Proof. intros s x []. Qed.

Lemma kok_mono : forall s s' K, (forall x, get (dn s) x = true -> get (dn s') x = true) -> kok s K -> kok s' K.
Proof. intros s s' K Hm H x Hx. destruct (H x Hx) as [A [B C]]. auto. Qed.

Lemma HInv_init : HInv (init G) ghost0 hb0.
Proof.
  constructor; unfold hb0, init, ghost0; simpl; intros;
    try (match goal with |- kok _ _ => apply kok_nil end); rewrite ?get_const in *; try discriminate.
  - destruct (memb b (nodes G) && nilb (deps G b)); discriminate.
  - destruct (memb b (nodes G) && nilb (deps G b)); discriminate.
  - exfalso. unfold rem, remT in *. simpl in *. rewrite get_const in *.
    match goal with H : countb _ (trig G _) = 0 |- _ => rewrite (wf_inv G WF) in H by assumption end.
    assert (0 < countb d (deps G b)) by (apply countb_In; assumption). lia.
Qed.

Lemma kok_same : forall (s s' : lstate) K, dn s' = dn s -> kok s K -> kok s' K.
Proof. intros s s' K E H x Hx. unfold kok in H. rewrite E. auto. Qed.

Lemma HInv_ESeed : forall s g h free b s' f', Inv s g -> HInv s g h -> step s free (ESeed b) = Some (s', f') ->
  HInv s' (ghost_step s g (ESeed b)) (hb_step s h (ESeed b)).
Proof.
  intros s g h free b s' f' I Hh H. destr_step H.
  assert (Sb : stg g b = SSeed).
  { pose proof (i_seed s g I b) as Hx. pose proof (remove1_count _ _ _ Heqo b) as Hy. rewrite Nat.eqb_refl in Hy. destruct (stg g b); auto; lia. }
  constructor; cbn [hb_step kt km kc kq kcl]; psimpl; intros.
  - apply (h_kt _ _ _ Hh).
  - apply (h_km _ _ _ Hh).
  - apply (h_kc _ _ _ Hh).
  - cases b0 b; gsimp. apply kok_nil. apply (h_kq _ _ _ Hh).
  - apply (h_kcl _ _ _ Hh).
  - eapply (h_th _ _ _ Hh); eauto.
  - eapply (h_self _ _ _ Hh); eauto.
  - eapply (h_main _ _ _ Hh); eauto.
  - cases b0 b; gsimp. rewrite (i_seeddeps _ _ I b Sb). apply incl_nil_l. eapply (h_queue _ _ _ Hh); eauto.
  - cases b0 b; gsimp. discriminate. eapply (h_slot _ _ _ Hh); eauto.
  - eapply (h_cnt _ _ _ Hh); eauto.
  - eapply (h_closed _ _ _ Hh); eauto.
  - eapply (h_done _ _ _ Hh); eauto.
Qed.

Lemma main_k_ok : forall s g h, HInv s g h -> kok s (main_k s h).
Proof.
  intros. unfold main_k. destruct (mainp s); try apply (h_km _ _ _ H). apply kok_app. apply (h_km _ _ _ H). apply (h_kt _ _ _ H).
Qed.

Lemma main_k_incl : forall s h, incl (km h) (main_k s h).
Proof. intros. unfold main_k. destruct (mainp s); try apply incl_refl. apply incl_appl. apply incl_refl. Qed.

Lemma HInv_EDeq : forall s g h free b s' f', Inv s g -> HInv s g h -> step s free (EDeq b) = Some (s', f') ->
  HInv s' (ghost_step s g (EDeq b)) (hb_step s h (EDeq b)).
Proof.
  intros s g h free b s' f' I Hh H. destr_step H. bsplit.
  assert (Sb : stg g b = SQueue).
  { pose proof (i_queue s g I b) as Hx. pose proof (remove_msg_count _ _ _ Heqo b) as Hy. rewrite Nat.eqb_refl in Hy. destruct (stg g b); auto; lia. }
  pose proof (main_k_ok _ _ _ Hh) as Hmk.
  constructor; cbn [hb_step kt km kc kq kcl]; psimpl; intros.
  - apply (h_kt _ _ _ Hh).
  - apply kok_app. exact Hmk. apply (h_kq _ _ _ Hh).
  - apply (h_kc _ _ _ Hh).
  - apply (h_kq _ _ _ Hh).
  - apply (h_kcl _ _ _ Hh).
  - eapply (h_th _ _ _ Hh); eauto.
  - eapply (h_self _ _ _ Hh); eauto.
  - inversion H1; subst. apply incl_appr. apply (h_queue _ _ _ Hh). assumption.
  - cases b0 b; gsimp. discriminate. eapply (h_queue _ _ _ Hh); eauto.
  - cases b0 b; gsimp. discriminate. eapply (h_slot _ _ _ Hh); eauto.
  - eapply (h_cnt _ _ _ Hh); eauto.
  - eapply (h_closed _ _ _ Hh); eauto.
  - discriminate.
Qed.

Lemma HInv_spawn : forall s g h b sem inl mp (e : label),
  Inv s g -> HInv s g h -> mainp s = MHave b -> (mp = MIdle \/ mp = MBusy b) -> (e = ESpawn b \/ e = EInline b) ->
  HInv (new_thread R s b sem inl mp) (ghost_step s g e) (hb_step s h e).
Proof.
  intros s g h b sem inl mp e I Hh Hm Hmp He.
  pose proof (held_no_thread _ _ _ I Hm) as Tb.
  assert (Eg : ghost_step s g e = mkgh (owe g) (upd (stg g) b SThread)) by (destruct He; subst; reflexivity).
  assert (Eh : hb_step s h e = mkhb (upd (kt h) b (km h)) (km h) (kc h) (kq h) (kcl h)) by (destruct He; subst; reflexivity).
  rewrite Eg, Eh. clear Eg Eh He.
  constructor; cbn [kt km kc kq kcl]; psimpl; intros.
  - cases a b; gsimp. apply (h_km _ _ _ Hh). apply (h_kt _ _ _ Hh).
  - apply (h_km _ _ _ Hh).
  - apply (h_kc _ _ _ Hh).
  - apply (h_kq _ _ _ Hh).
  - apply (h_kcl _ _ _ Hh).
  - cases a b; gsimp. apply (h_main _ _ _ Hh). assumption. eapply (h_th _ _ _ Hh); eauto.
  - cases a b; gsimp. rewrite (i_dn0 _ _ I b Tb) in H1. discriminate. eapply (h_self _ _ _ Hh); eauto.
  - destruct Hmp; subst; discriminate.
  - cases b0 b; gsimp. discriminate. eapply (h_queue _ _ _ Hh); eauto.
  - cases b0 b; gsimp. discriminate. cases a b; gsimp.
    + exfalso. apply (i_slot _ _ I) in H. destruct H as [t [ts [H1 H2]]]. congruence.
    + eapply (h_slot _ _ _ Hh); eauto.
  - apply (h_cnt _ _ _ Hh); auto. unfold rem, remT in *. psimpl. cases d b; gsimp; auto. rewrite Tb. assumption.
  - eapply (h_closed _ _ _ Hh); eauto.
  - destruct Hmp; subst; discriminate.
Qed.

Lemma set_some_ex : forall (m : fmap (option thread)) a t t' x tx,
  get m a = Some t -> get (set m a (Some t')) x = Some tx -> exists t0, get m x = Some t0.
Proof. intros. cases x a; gsimp; eauto. Qed.

(* steps that change nothing but the phase of one handler (and flags the skeleton does not look at) *)
Lemma HInv_phase : forall s g h s' a t p',
  HInv s g h -> get (th s) a = Some t ->
  th s' = set (th s) a (Some (mkth p' (hsem t) (hinl t))) -> dn s' = dn s -> mainp s' = mainp s -> closed s' = closed s ->
  (forall b, countb b (tsof p' a) = countb b (tsof (hph t) a)) ->
  HInv s' g h.
Proof.
  intros s g h s' a t p' Hh Ht Eth Edn Em Ec Ets.
  constructor; intros.
  - eapply kok_same; eauto. apply (h_kt _ _ _ Hh).
  - eapply kok_same; eauto. apply (h_km _ _ _ Hh).
  - eapply kok_same; eauto. apply (h_kc _ _ _ Hh).
  - eapply kok_same; eauto. apply (h_kq _ _ _ Hh).
  - eapply kok_same; eauto. apply (h_kcl _ _ _ Hh).
  - rewrite Eth in H. destruct (set_some_ex _ _ _ _ _ _ Ht H) as [tz Hz]. eapply (h_th _ _ _ Hh); eauto.
  - rewrite Eth in H. destruct (set_some_ex _ _ _ _ _ _ Ht H) as [tz Hz]. rewrite Edn in H1. eapply (h_self _ _ _ Hh); eauto.
  - rewrite Em in H. eapply (h_main _ _ _ Hh); eauto.
  - eapply (h_queue _ _ _ Hh); eauto.
  - eapply (h_slot _ _ _ Hh); eauto.
  - apply (h_cnt _ _ _ Hh); auto. unfold rem in *. rewrite Eth in H2. rewrite ph_rem in H2; auto.
  - rewrite Ec in H. eapply (h_closed _ _ _ Hh); eauto.
  - rewrite Em in H. rewrite Ec. eapply (h_done _ _ _ Hh); eauto.
Qed.

Lemma HInv_EStart : forall s g h free a s' f', Inv s g -> HInv s g h -> step s free (EStart a) = Some (s', f') ->
  HInv s' (ghost_step s g (EStart a)) (hb_step s h (EStart a)).
Proof.
  intros s g h free a s' f' I Hh H. destr_step H. name_th. cbn [ghost_step hb_step].
  eapply HInv_phase with (a := a) (t := t); [exact Hh | exact Ht | reflexivity | reflexivity | reflexivity | reflexivity |].
  cbn [tsof]. rewrite Hp. reflexivity.
Qed.

Lemma HInv_ERel : forall s g h free a s' f', Inv s g -> HInv s g h -> step s free (ERel a) = Some (s', f') ->
  HInv s' (ghost_step s g (ERel a)) (hb_step s h (ERel a)).
Proof.
  intros s g h free a s' f' I Hh H. destr_step H. name_th. cbn [ghost_step hb_step].
  eapply HInv_phase with (a := a) (t := t); [exact Hh | exact Ht | reflexivity | reflexivity | reflexivity | reflexivity |].
  cbn [tsof]. rewrite Hp. reflexivity.
Qed.

Lemma kok_grow : forall (s s' : lstate) a K, dn s' = set (dn s) a true -> kok s K -> kok s' K.
Proof.
  intros s s' a K E H. eapply kok_mono; [| exact H]. intros x Hx. rewrite E. cases x a; gsimp; auto.
Qed.

Lemma HInv_EEnd : forall s g h free a o s' f', Inv s g -> HInv s g h -> step s free (EEnd a o) = Some (s', f') ->
  HInv s' (ghost_step s g (EEnd a o)) (hb_step s h (EEnd a o)).
Proof.
  intros s g h free a o s' f' I Hh H. destr_step H. name_th. cbn [ghost_step hb_step].
  assert (Ha : In a (alln G)) by (eapply th_alln; eauto).
  assert (Hnr : a <> root G). { intro. subst. pose proof (i_root _ _ I _ Ht) as Hx. rewrite Hp in Hx. assumption. }
  assert (Han : In a (nodes G)). { destruct (alln_cases G WF a Ha) as [? | [? _]]; [congruence | assumption]. }
  match goal with |- HInv ?S _ _ => set (s' := S) end.
  assert (Edn : dn s' = set (dn s) a true) by reflexivity.
  assert (Hka : kok s' (a :: kt h a)).
  { intros x [<- | Hx].
    - split. rewrite Edn. gsimp. reflexivity. split; auto. apply incl_tl. eapply (h_th _ _ _ Hh); eauto.
    - destruct (kok_grow s s' a _ Edn (h_kt _ _ _ Hh a) x Hx) as [A [B C]]. split; auto. split; auto. apply incl_tl. assumption. }
  constructor; cbn [kt km kc kq kcl]; intros.
  - cases a0 a; gsimp. assumption. eapply kok_grow; eauto. apply (h_kt _ _ _ Hh).
  - eapply kok_grow; eauto. apply (h_km _ _ _ Hh).
  - eapply kok_grow; eauto. apply (h_kc _ _ _ Hh).
  - eapply kok_grow; eauto. apply (h_kq _ _ _ Hh).
  - eapply kok_grow; eauto. apply (h_kcl _ _ _ Hh).
  - subst s'. psimpl. cases a0 a; gsimp. apply incl_tl. eapply (h_th _ _ _ Hh); eauto. eapply (h_th _ _ _ Hh); eauto.
  - subst s'. psimpl. cases a0 a; gsimp. left. reflexivity. eapply (h_self _ _ _ Hh); eauto.
  - subst s'. psimpl. eapply (h_main _ _ _ Hh); eauto.
  - eapply (h_queue _ _ _ Hh); eauto.
  - cases a0 a; gsimp. apply incl_tl. eapply (h_slot _ _ _ Hh); eauto. eapply (h_slot _ _ _ Hh); eauto.
  - apply (h_cnt _ _ _ Hh); auto. unfold rem in *. subst s'. psimpl. rewrite ph_rem in H2; auto.
    intros. rewrite Hp. destruct (after_end_cases t a) as [[_ ->] | [_ ->]]; reflexivity.
  - subst s'. psimpl. eapply (h_closed _ _ _ Hh); eauto.
  - subst s'. psimpl. eapply (h_done _ _ _ Hh); eauto.
Qed.

Lemma HInv_EClose : forall s g h free s' f', Inv s g -> HInv s g h -> step s free EClose = Some (s', f') ->
  HInv s' (ghost_step s g EClose) (hb_step s h EClose).
Proof.
  intros s g h free s' f' I Hh H. destr_step H. name_th. cbn [ghost_step hb_step].
  match goal with |- HInv ?S _ _ => set (s' := S) end.
  assert (Edn : dn s' = set (dn s) (root G) true) by reflexivity.
  assert (Hnc : closed s = false). { rewrite (i_closed _ _ I), (i_dn _ _ I _ _ Ht), Hp. reflexivity. }
  constructor; cbn [kt km kc kq kcl]; intros.
  - eapply kok_grow; eauto. apply (h_kt _ _ _ Hh).
  - eapply kok_grow; eauto. apply (h_km _ _ _ Hh).
  - eapply kok_grow; eauto. apply (h_kc _ _ _ Hh).
  - eapply kok_grow; eauto. apply (h_kq _ _ _ Hh).
  - eapply kok_grow; eauto. apply (h_kt _ _ _ Hh).
  - subst s'. psimpl. destruct (set_some_ex _ _ _ _ _ _ Ht H) as [tz Hz]. eapply (h_th _ _ _ Hh); eauto.
  - subst s'. psimpl. destruct (set_some_ex _ _ _ _ _ _ Ht H) as [tz Hz]. gsimp. eapply (h_self _ _ _ Hh); eauto.
  - subst s'. psimpl. eapply (h_main _ _ _ Hh); eauto.
  - eapply (h_queue _ _ _ Hh); eauto.
  - eapply (h_slot _ _ _ Hh); eauto.
  - apply (h_cnt _ _ _ Hh); auto. unfold rem in *. subst s'. psimpl. rewrite ph_rem in H2; auto.
    intros. rewrite Hp. destruct (after_end_cases t (root G)) as [[_ ->] | [_ ->]]; reflexivity.
  - eapply (h_th _ _ _ Hh); eauto.
  - subst s'. psimpl. destruct (h_done _ _ _ Hh H). congruence.
Qed.

Lemma HInv_EEnq : forall s g h free a b s' f', Inv s g -> HInv s g h -> step s free (EEnq a b) = Some (s', f') ->
  HInv s' (ghost_step s g (EEnq a b)) (hb_step s h (EEnq a b)).
Proof.
  intros s g h free a b s' f' I Hh H. destr_step H. bsplit. name_th. cbn [ghost_step hb_step].
  assert (Sb : stg g b = SSlot a) by (apply (i_slot _ _ I); eauto).
  constructor; cbn [kt km kc kq kcl]; psimpl; intros.
  - apply (h_kt _ _ _ Hh).
  - apply (h_km _ _ _ Hh).
  - apply (h_kc _ _ _ Hh).
  - cases b0 b; gsimp. apply (h_kt _ _ _ Hh). apply (h_kq _ _ _ Hh).
  - apply (h_kcl _ _ _ Hh).
  - destruct (set_some_ex _ _ _ _ _ _ Ht H) as [tz Hz]. eapply (h_th _ _ _ Hh); eauto.
  - destruct (set_some_ex _ _ _ _ _ _ Ht H) as [tz Hz]. eapply (h_self _ _ _ Hh); eauto.
  - eapply (h_main _ _ _ Hh); eauto.
  - cases b0 b; gsimp. eapply (h_slot _ _ _ Hh); eauto. eapply (h_queue _ _ _ Hh); eauto.
  - cases b0 b; gsimp. discriminate. eapply (h_slot _ _ _ Hh); eauto.
  - apply (h_cnt _ _ _ Hh); auto. unfold rem in *. psimpl. rewrite ph_rem in H2; auto. rewrite Hp. reflexivity.
  - eapply (h_closed _ _ _ Hh); eauto.
  - eapply (h_done _ _ _ Hh); eauto.
Qed.

Lemma HInv_EExit : forall s g h free s' f', Inv s g -> HInv s g h -> step s free EExit = Some (s', f') ->
  HInv s' (ghost_step s g EExit) (hb_step s h EExit).
Proof.
  intros s g h free s' f' I Hh H. destr_step H. bsplit. cbn [ghost_step hb_step].
  pose proof (main_k_ok _ _ _ Hh) as Hmk.
  constructor; cbn [kt km kc kq kcl]; psimpl; intros.
  - apply (h_kt _ _ _ Hh).
  - apply kok_app. exact Hmk. apply (h_kcl _ _ _ Hh).
  - apply (h_kc _ _ _ Hh).
  - apply (h_kq _ _ _ Hh).
  - apply (h_kcl _ _ _ Hh).
  - eapply (h_th _ _ _ Hh); eauto.
  - eapply (h_self _ _ _ Hh); eauto.
  - discriminate.
  - eapply (h_queue _ _ _ Hh); eauto.
  - eapply (h_slot _ _ _ Hh); eauto.
  - eapply (h_cnt _ _ _ Hh); eauto.
  - eapply (h_closed _ _ _ Hh); eauto.
  - split. assumption. apply incl_appr. apply incl_refl.
Qed.

Lemma HInv_EDec : forall s g h free a b s' f', Inv s g -> HInv s g h -> step s free (EDec a b) = Some (s', f') ->
  HInv s' (ghost_step s g (EDec a b)) (hb_step s h (EDec a b)).
Proof.
  intros s g h free a b s' f' I Hh H.
  pose proof (Inv_step _ _ _ _ _ _ I H) as I'.
  unfold C06.step in H.
  destruct (get (th s) a) as [t |] eqn:Ht; try discriminate.
  destruct (hph t) as [| | | [| b' ts0] |] eqn:Hp; try discriminate.
  destruct ((b' =? b) && negb (blocked top s a)) eqn:Hc; try discriminate.
  inversion H; subst; clear H. bsplit.
  assert (Ha : In a (alln G)) by exact (th_alln _ _ I _ _ Ht).
  assert (Hts : incl (b :: ts0) (trig G a)). { pose proof (i_ts _ _ I _ _ Ht) as Hx. rewrite Hp in Hx. assumption. }
  assert (Hb : In b (alln G)). { eapply (wf_tin G WF); eauto. apply Hts. left. reflexivity. }
  assert (Hnr : a <> root G). { intro. subst. pose proof (wf_rtrig G WF) as Hx. rewrite Hx in Hts. apply (Hts b). left. reflexivity. }
  assert (Hda : get (dn s) a = true). { rewrite (i_dn _ _ I _ _ Ht), Hp. reflexivity. }
  assert (Hself : In a (kt h a)) by (eapply (h_self _ _ _ Hh); eauto).
  remember (if get (pend s) b =? 1 then HSend b ts0 else HTrig ts0) as p' eqn:Ep'.
  assert (Hp'ts : tsof p' a = ts0) by (subst p'; destruct (get (pend s) b =? 1); reflexivity).
  match goal with |- HInv ?S _ _ => set (s' := S) in * end.
  assert (Hrem : forall d b0, rem s' d b0 = if d =? a then countb b0 ts0 else rem s d b0).
  { intros. unfold rem. subst s'. psimpl. rewrite remT_set. simpl. rewrite Hp'ts. reflexivity. }
  assert (Hold : forall b0, rem s a b0 = (if b =? b0 then 1 else 0) + countb b0 ts0).
  { intros. unfold rem, remT. rewrite Ht, Hp. simpl. reflexivity. }
  cbn [ghost_step hb_step].
  constructor; cbn [kt km kc kq kcl owe stg]; intros.
  - cases a0 a; gsimp. apply kok_app. apply (h_kt _ _ _ Hh). apply (h_kc _ _ _ Hh). apply (h_kt _ _ _ Hh).
  - apply (h_km _ _ _ Hh).
  - cases b0 b; gsimp. apply kok_app. apply (h_kt _ _ _ Hh). apply (h_kc _ _ _ Hh). apply (h_kc _ _ _ Hh).
  - apply (h_kq _ _ _ Hh).
  - apply (h_kcl _ _ _ Hh).
  - subst s'. psimpl. destruct (set_some_ex _ _ _ _ _ _ Ht H) as [tz Hz]. cases a0 a; gsimp.
    apply incl_appl. eapply (h_th _ _ _ Hh); eauto. eapply (h_th _ _ _ Hh); eauto.
  - subst s'. psimpl. destruct (set_some_ex _ _ _ _ _ _ Ht H) as [tz Hz]. cases a0 a; gsimp.
    apply in_or_app. left. assumption. eapply (h_self _ _ _ Hh); eauto.
  - subst s'. psimpl. eapply (h_main _ _ _ Hh); eauto.
  - destruct (get (pend s) b =? 1) eqn:E1.
    + cases b0 b; gsimp. discriminate. eapply (h_queue _ _ _ Hh); eauto.
    + eapply (h_queue _ _ _ Hh); eauto.
  - assert (Hmono : forall x, incl (kt h x) (upd (kt h) a (kt h a ++ kc h b) x)).
    { intros x. cases x a; gsimp. apply incl_appl. apply incl_refl. apply incl_refl. }
    destruct (get (pend s) b =? 1) eqn:E1.
    + cases b0 b; gsimp.
      * inversion H as [Ea]. subst a0. gsimp. intros d Hd.
        (* the counter reached zero: every dependency of b has performed all its decrements *)
        assert (Hdn : In d (alln G)) by (right; eapply deps_in_nodes; eauto).
        apply Nat.eqb_eq in E1.
        assert (Hz : rem s' d b = 0).
        { rewrite <- (i_owe _ _ I' d b Hdn Hb). cbn [ghost_step owe]. gsimp.
          pose proof (i_pend _ _ I' b Hb) as Hx. cbn [ghost_step owe] in Hx. gsimp. subst s'. psimpl. gsimp.
          rewrite E1 in Hx. simpl in Hx. destruct (rm1 a (owe g b)); simpl in *; [reflexivity | discriminate]. }
        rewrite Hrem in Hz. destruct (Nat.eqb_spec d a).
        -- subst. apply in_or_app. left. assumption.
        -- apply in_or_app. right. apply (h_cnt _ _ _ Hh); auto.
      * eapply incl_tran; [| apply Hmono]. eapply (h_slot _ _ _ Hh); eauto.
    + eapply incl_tran; [| apply Hmono]. eapply (h_slot _ _ _ Hh); eauto.
  - match goal with Hr : rem _ _ _ = 0 |- _ => rename Hr into Hz end. rewrite Hrem in Hz. cases b0 b; gsimp.
    + destruct (Nat.eqb_spec d a).
      * subst. apply in_or_app. left. assumption.
      * apply in_or_app. right. apply (h_cnt _ _ _ Hh); auto.
    + apply (h_cnt _ _ _ Hh); auto. destruct (Nat.eqb_spec d a); auto. subst. rewrite Hold. eqb_simp. assumption.
  - subst s'. psimpl. eapply (h_closed _ _ _ Hh); eauto.
  - subst s'. psimpl. eapply (h_done _ _ _ Hh); eauto.
Qed.

Theorem HInv_step : forall s g h free e s' f', Inv s g -> HInv s g h -> step s free e = Some (s', f') ->
  HInv s' (ghost_step s g e) (hb_step s h e).
Proof.
  intros. destruct e.
  - eapply HInv_ESeed; eauto.
  - eapply HInv_EDeq; eauto.
  - destr_step H1. bsplit. eapply HInv_spawn; eauto.
  - destr_step H1. bsplit. eapply HInv_spawn; eauto.
  - eapply HInv_EStart; eauto.
  - eapply HInv_EEnd; eauto.
  - eapply HInv_ERel; eauto.
  - eapply HInv_EDec; eauto.
  - eapply HInv_EEnq; eauto.
  - eapply HInv_EClose; eauto.
  - eapply HInv_EExit; eauto.
Qed.

(* executions with the happens-before tracker running alongside *)
Inductive hrun : list label -> lstate -> ghost -> hb -> Prop :=
| hrun_nil : hrun [] (init G) ghost0 hb0
| hrun_snoc : forall tr s g h free e s' f', hrun tr s g h -> step s free e = Some (s', f') ->
    hrun (tr ++ [e]) s' (ghost_step s g e) (hb_step s h e).

Lemma hrun_lrun : forall tr s g h, hrun tr s g h -> lrun tr s.
Proof. induction 1; econstructor; eauto. Qed.

Lemma lrun_hrun : forall tr s, lrun tr s -> exists g h, hrun tr s g h.
Proof.
  induction 1. do 2 eexists. constructor. destruct IHlrun as [g [h Hh]]. do 2 eexists. econstructor; eauto.
Qed.

Lemma hrun_inv : forall tr s g h, hrun tr s g h -> Inv s g /\ HInv s g h.
Proof.
  induction 1. split. apply Inv_init. apply HInv_init.
  destruct IHhrun as [I Hh]. split. eapply Inv_step; eauto. eapply HInv_step; eauto.
Qed.

Inductive dep_plus : nat -> nat -> Prop :=
| dp_one : forall d a, In d (deps G a) -> dep_plus d a
| dp_step : forall d x a, dep_plus d x -> In x (deps G a) -> dep_plus d a.

Lemma kok_cone : forall s K, kok s K -> forall a, incl (deps G a) K -> forall d, dep_plus d a -> In d K.
Proof.
  intros s K HK a Ha d Hd. induction Hd.
  - auto.
  - specialize (IHHd (proj2 (proj2 (HK x (Ha x H))))). assumption.
Qed.

(* results_read_after_write: when a handler starts an action (the point where it reads the failed flags and,
   in exec, the results of its dependencies), the write of the result of every direct or transitive
   dependency happens before that point; and only writes that have occurred are known. *)
Theorem results_read_after_write_level : forall tr s g h free a s' f', hrun tr s g h -> step s free (EStart a) = Some (s', f') ->
  forall d, dep_plus d a -> In d (kt h a) /\ get (dn s) d = true.
Proof.
  intros tr s g h free a s' f' Hr H d Hd. destruct (hrun_inv _ _ _ _ Hr) as [I Hh]. destr_step H. name_th.
  assert (In d (kt h a)). { eapply kok_cone. apply (h_kt _ _ _ Hh a). eapply (h_th _ _ _ Hh); eauto. assumption. }
  split. assumption. apply (h_kt _ _ _ Hh a d H).
Qed.

(* a dependency-closed set that contains the root's dependencies contains every action *)
Lemma kok_all : forall s K, kok s K -> incl (deps G (root G)) K -> forall a, In a (nodes G) -> In a K.
Proof.
  intros s K HK Hr.
  assert (forall k a, In a (nodes G) -> rank G a + k = length (nodes G) -> In a K).
  { induction k using lt_wf_ind. intros a Hn Hk.
    assert (Ha : In a (alln G)) by (right; assumption).
    pose proof (wf_tne G WF a Hn) as Ht. destruct (trig G a) as [| b ts] eqn:E; try congruence.
    assert (Hbt : In b (trig G a)) by (rewrite E; left; reflexivity).
    assert (Hb : In b (alln G)) by (eapply (wf_tin G WF); eauto).
    assert (Hab : In a (deps G b)) by (apply (trig_deps G WF a b Ha Hb); assumption).
    destruct (alln_cases G WF b Hb) as [-> | [Hbn Hbr]].
    - apply Hr. assumption.
    - pose proof (rank_deps G WF b Hb a Hab) as Hlt.
      assert (Hle : rank G b <= length (nodes G)). { unfold rank. destruct (b =? root G). lia. apply idx_le. }
      assert (In b K). { apply (H (length (nodes G) - rank G b)); auto; lia. }
      apply (proj2 (proj2 (HK b H0))). assumption. }
  intros a Ha. assert (Hle : rank G a <= length (nodes G)). { unfold rank. destruct (a =? root G). lia. apply idx_le. }
  apply (H (length (nodes G) - rank G a)); auto. lia.
Qed.

(* when the loop has ended, the writes of all results happen before the loop thread's subsequent reads *)
Theorem final_reads_after_writes_level : forall tr s g h, hrun tr s g h -> final s = true ->
  forall a, In a (nodes G) -> In a (km h) /\ get (dn s) a = true.
Proof.
  intros tr s g h Hr Hf a Ha. destruct (hrun_inv _ _ _ _ Hr) as [I Hh].
  assert (Hm : mainp s = MDone). { unfold final in Hf. destruct (mainp s); try discriminate. reflexivity. }
  destruct (h_done _ _ _ Hh Hm) as [Hc Hi].
  assert (In a (km h)). { apply Hi. eapply kok_all; eauto. apply (h_kcl _ _ _ Hh). apply (h_closed _ _ _ Hh). assumption. }
  split. assumption. apply (h_km _ _ _ Hh a H).
Qed.

(* ------------------------------------------------------------------------------------------------ *)
(* The buffered queue of an analyzer level (capacity: the number of analyzer actions) is never full   *)

Lemma root_ready_all_dn : forall s g, Inv s g -> stg g (root G) <> SWait -> forall a, In a (nodes G) -> get (dn s) a = true.
Proof.
  intros s g I Hr.
  assert (forall k a, In a (nodes G) -> rank G a + k = length (nodes G) -> get (dn s) a = true).
  { induction k using lt_wf_ind. intros a Hn Hk.
    assert (Ha : In a (alln G)) by (right; assumption).
    pose proof (wf_tne G WF a Hn) as Ht. destruct (trig G a) as [| b ts] eqn:E; try congruence.
    assert (Hbt : In b (trig G a)) by (rewrite E; left; reflexivity).
    assert (Hb : In b (alln G)) by (eapply (wf_tin G WF); eauto).
    assert (Hab : In a (deps G b)) by (apply (trig_deps G WF a b Ha Hb); assumption).
    destruct (alln_cases G WF b Hb) as [-> | [Hbn Hbr]].
    - apply (i_deps _ _ I (root G)); auto.
    - pose proof (rank_deps G WF b Hb a Hab) as Hlt.
      assert (Hle : rank G b <= length (nodes G)). { unfold rank. destruct (b =? root G). lia. apply idx_le. }
      assert (Hdb : get (dn s) b = true). { apply (H (length (nodes G) - rank G b)); auto; lia. }
      apply (i_deps _ _ I b Hb); auto.
      destruct (get (th s) b) eqn:Eb.
      + erewrite th_stage; eauto. discriminate.
      + rewrite (i_dn0 _ _ I b Eb) in Hdb. discriminate. }
  intros a Ha. assert (Hle : rank G a <= length (nodes G)). { unfold rank. destruct (a =? root G). lia. apply idx_le. }
  apply (H (length (nodes G) - rank G a)); auto. lia.
Qed.

Lemma cntq_In : forall b q, 0 < cntq b q <-> In b (map mitem q).
Proof.
  induction q; simpl. split; [lia | tauto].
  destruct (Nat.eqb_spec (mitem a) b).
  - subst. split; intros; [auto | lia].
  - rewrite IHq. simpl. split; intros; [auto | destruct H; [congruence | auto]].
Qed.

Lemma cntq_NoDup : forall q, (forall b, cntq b q <= 1) -> NoDup (map mitem q).
Proof.
  induction q; simpl; intros. constructor.
  constructor.
  - intro Hin. apply cntq_In in Hin. specialize (H (mitem a)). rewrite Nat.eqb_refl in H. lia.
  - apply IHq. intros b. specialize (H b). lia.
Qed.

Theorem queue_bound : forall s g, Inv s g -> length (queue s) <= length (nodes G).
Proof.
  intros s g I. rewrite <- (map_length mitem).
  assert (Hone : forall b, cntq b (queue s) <= 1). { intros b. rewrite (i_queue _ _ I b). destruct (stg g b); lia. }
  assert (Hstage : forall b, In b (map mitem (queue s)) -> stg g b = SQueue).
  { intros b Hb. apply cntq_In in Hb. rewrite (i_queue _ _ I b) in Hb. destruct (stg g b); try lia. reflexivity. }
  pose proof (cntq_NoDup _ Hone) as ND.
  destruct (in_dec Nat.eq_dec (root G) (map mitem (queue s))) as [Hr | Hr].
  - (* the root is queued: every other action has a handler, so nothing else is queued *)
    assert (Hsr : stg g (root G) <> SWait) by (rewrite (Hstage _ Hr); discriminate).
    assert (Hsub : incl (map mitem (queue s)) [root G]).
    { intros b Hb. destruct (Nat.eq_dec b (root G)) as [-> | Hn]. left; reflexivity. exfalso.
      assert (Hbn : In b (nodes G)).
      { pose proof (Hstage b Hb) as Sb. destruct (in_dec Nat.eq_dec b (alln G)) as [[Hx | Hx] | Hx]; auto. congruence.
        rewrite (i_out _ _ I b Hx) in Sb. discriminate. }
      pose proof (root_ready_all_dn _ _ I Hsr b Hbn) as Hd.
      destruct (get (th s) b) eqn:Eb.
      - pose proof (th_stage _ _ I _ _ Eb). rewrite (Hstage b Hb) in H. discriminate.
      - rewrite (i_dn0 _ _ I b Eb) in Hd. discriminate. }
    pose proof (NoDup_incl_length ND Hsub). simpl in H.
    pose proof (wf_rne G WF). destruct (deps G (root G)) as [| d l] eqn:E; try congruence.
    assert (In d (nodes G)). { apply (wf_rdeps G WF). rewrite E. left. reflexivity. }
    destruct (nodes G); simpl in *; [contradiction | lia].
  - apply NoDup_incl_length; auto. intros b Hb. pose proof (Hstage b Hb) as Sb.
    destruct (in_dec Nat.eq_dec b (alln G)) as [[Hx | Hx] | Hx]; auto.
    + subst. contradiction.
    + rewrite (i_out _ _ I b Hx) in Sb. discriminate.
Qed.

Theorem queue_bound_run : forall tr s, lrun tr s -> length (queue s) <= length (nodes G).
Proof. intros. destruct (lrun_Inv _ _ H) as [g I]. eapply queue_bound; eauto. Qed.

(* ------------------------------------------------------------------------------------------------ *)
(* Tokens                                                                                             *)

(* handler a holds a token it has not released yet *)
Definition holdsb (s : lstate) (a : nat) : bool :=
  match get (th s) a with Some t => hsem t && prerel (hph t) | None => false end.

Lemma free_step : forall (s : lstate) free (e : label) s' f', step s free e = Some (s', f') ->
  match e with ESpawn _ => 0 < free /\ f' = free - 1 | ERel _ => f' = S free | _ => f' = free end.
Proof.
  intros. destruct e; try (destr_step H; bsplit; auto; fail).
  destr_step H. bsplit. split; auto. apply Nat.ltb_lt. assumption.
Qed.

Lemma holds_step : forall s g free e s' f', Inv s g -> step s free e = Some (s', f') -> forall a,
  holdsb s' a = match e with
                | ESpawn b => if a =? b then true else holdsb s a
                | ERel b => if a =? b then false else holdsb s a
                | _ => holdsb s a
                end
  /\ (e = ERel a -> holdsb s a = true) /\ (e = ESpawn a -> holdsb s a = false).
Proof.
  intros s g free e s' f' I H a.
  assert (Hsp : e = ESpawn a -> holdsb s a = false).
  { intros ->. destr_step H. bsplit. name_main. unfold holdsb. rewrite (held_no_thread _ _ _ I Hm). reflexivity. }
  assert (Hrl : e = ERel a -> holdsb s a = true).
  { intros ->. destr_step H. name_th. unfold holdsb. rewrite Ht, Hp. simpl. rewrite andb_true_r. assumption. }
  split; [| split; assumption].
  unfold holdsb.
  destruct (th_step _ _ _ _ _ _ I H a) as [E | [[E1 [E2 [sem [inl E3]]]] | [t [p' [E1 [E2 E3]]]]]].
  - rewrite E. destruct e; auto.
    + destruct (Nat.eqb_spec a b); auto. subst. exfalso. destr_step H. bsplit. name_main. psimpl. gsimp.
      rewrite (held_no_thread _ _ _ I Hm) in E. discriminate E.
    + destruct (Nat.eqb_spec a a0); auto. subst. exfalso. destr_step H. psimpl. gsimp.
      match goal with Hx : Some _ = Some ?t, Hy : hph ?t = HEnded |- _ => inversion Hx as [Et]; rewrite <- Et in Hy; simpl in Hy; discriminate Hy end.
  - rewrite E1, E3. simpl. destruct E2 as [-> | ->].
    + rewrite Nat.eqb_refl. destr_step H. bsplit. psimpl. gsimp. inversion E3; subst. reflexivity.
    + destr_step H. bsplit. psimpl. gsimp. inversion E3; subst. reflexivity.
  - rewrite E1, E2. simpl. destruct e; simpl in E3; try contradiction.
    + destruct E3 as [-> [-> [sk ->]]]. reflexivity.
    + destruct E3 as [-> [[sk ->] ->]]. destruct (hsem t); reflexivity.
    + destruct E3 as [-> [-> ->]]. rewrite Nat.eqb_refl. simpl. rewrite andb_false_r. reflexivity.
    + destruct E3 as [-> [ts [-> [-> | ->]]]]; simpl; rewrite !andb_false_r; reflexivity.
    + destruct E3 as [-> [ts [-> ->]]]. simpl. rewrite !andb_false_r. reflexivity.
    + destruct E3 as [-> [-> ->]]. destruct (hsem t); reflexivity.
Qed.

End LevelProofs.
