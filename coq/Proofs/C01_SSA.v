(* C01: functions accepted by the definitions-before-uses validator never read an unassigned register.
   Invariant over machine states: for every frame there is a set [avail] of registers, all assigned in
   the frame's environment, under which the rest of the current block (and its outgoing edges) passes
   the validator's local checks. *)
From Coq Require Import List ZArith NArith PArith Bool Lia FMapPositive.
Import ListNotations.
Require Import Verif.Model.C01_IRSem Verif.Model.C01_SSA.

(* ---------------------------------------------------------------- sets, environments *)

Definition defined (e : env) (s : regset) : Prop := forall r, mem r s = true -> PM.find r e <> None.

Definition env_le (e e' : env) : Prop := forall r, PM.find r e <> None -> PM.find r e' <> None.

Lemma env_le_refl : forall e, env_le e e.
Proof. intros e r H; exact H. Qed.

Lemma env_le_trans : forall a b c, env_le a b -> env_le b c -> env_le a c.
Proof. intros a b c H1 H2 r H. apply H2, H1, H. Qed.

Lemma env_le_add : forall e r v, env_le e (PM.add r v e).
Proof.
  intros e r v x H. destruct (Pos.eq_dec x r) as [->|N].
  - rewrite PM.gss. discriminate.
  - rewrite PM.gso by exact N. exact H.
Qed.

Lemma mem_In : forall r s, mem r s = true <-> In r s.
Proof.
  intros r s. unfold mem. rewrite existsb_exists. split.
  - intros [x [Hx He]]. apply Pos.eqb_eq in He. subst. exact Hx.
  - intros H. exists r. split; [exact H | apply Pos.eqb_refl].
Qed.

Lemma mem_app : forall r a b, mem r (a ++ b) = mem r a || mem r b.
Proof. intros. unfold mem. apply existsb_app. Qed.

Lemma defined_le : forall e e' s, defined e s -> env_le e e' -> defined e' s.
Proof. intros e e' s D L r H. apply L, D, H. Qed.

Lemma defined_app : forall e a b, defined e a -> defined e b -> defined e (a ++ b).
Proof.
  intros e a b Da Db r H. rewrite mem_app in H. apply orb_true_iff in H. destruct H; auto.
Qed.

Lemma defined_app_l : forall e a b, defined e (a ++ b) -> defined e a.
Proof. intros e a b D r H. apply D. rewrite mem_app, H. reflexivity. Qed.

Lemma defined_app_r : forall e a b, defined e (a ++ b) -> defined e b.
Proof. intros e a b D r H. apply D. rewrite mem_app, H. apply orb_true_r. Qed.

Lemma defined_nil : forall e, defined e [].
Proof. intros e r H. discriminate. Qed.

Lemma defined_subset : forall e a b, subset a b = true -> defined e b -> defined e a.
Proof.
  intros e a b S D r H. apply D. unfold subset in S. rewrite forallb_forall in S.
  apply S. apply mem_In. exact H.
Qed.

Lemma defined_set_dst : forall e d v s, defined e s -> defined (set_dst e d v) (opt_list d ++ s).
Proof.
  intros e d v s D. destruct d as [r|]; simpl.
  - intros x H. unfold mem in H. simpl in H. apply orb_true_iff in H. destruct H as [H|H].
    + apply Pos.eqb_eq in H. subst. rewrite PM.gss. discriminate.
    + apply env_le_add. apply D. exact H.
  - exact D.
Qed.

Lemma set_dst_le : forall e d v, env_le e (set_dst e d v).
Proof. intros e [r|] v; simpl; [apply env_le_add | apply env_le_refl]. Qed.

(* ---------------------------------------------------------------- operand evaluation *)

Lemma eval_operand_ok : forall e s o, operand_ok s o = true -> defined e s -> exists v, eval_operand e o = inl v.
Proof.
  intros e s o H D. destruct o as [r|v|g|f]; simpl; eauto.
  simpl in H. specialize (D r H). destruct (PM.find r e); [eauto | congruence].
Qed.

Lemma eval_operands_ok : forall e s os, forallb (operand_ok s) os = true -> defined e s ->
  exists vs, eval_operands e os = inl vs.
Proof.
  intros e s os. induction os as [|o r IH]; intros H D; simpl; eauto.
  simpl in H. apply andb_true_iff in H. destruct H as [Ho Hr].
  destruct (eval_operand_ok e s o Ho D) as [v ->].
  destruct (IH Hr D) as [vs ->]. eauto.
Qed.

Lemma eval_opt_operands_ok : forall e s os, forallb (operand_ok s) (flat_map opt_list os) = true -> defined e s ->
  exists vs, eval_opt_operands e os = inl vs.
Proof.
  intros e s os. induction os as [|o r IH]; intros H D; simpl; eauto.
  destruct o as [o|]; simpl in H.
  - apply andb_true_iff in H. destruct H as [Ho Hr].
    destruct (eval_operand_ok e s o Ho D) as [v ->].
    destruct (IH Hr D) as [vs ->]. eauto.
  - destruct (IH H D) as [vs ->]. eauto.
Qed.

(* ---------------------------------------------------------------- phis *)

Lemma assign_all_le : forall l e, env_le e (assign_all e l).
Proof.
  unfold assign_all. induction l as [|[d v] r IH]; intros e; simpl.
  - apply env_le_refl.
  - eapply env_le_trans; [apply env_le_add | apply IH].
Qed.

Lemma assign_all_defined : forall l e, defined (assign_all e l) (map fst l).
Proof.
  unfold assign_all. induction l as [|[d v] r IH]; intros e; simpl.
  - apply defined_nil.
  - intros x H. unfold mem in H. simpl in H. apply orb_true_iff in H. destruct H as [H|H].
    + apply Pos.eqb_eq in H. subst. apply (assign_all_le r (PM.add d v e)). rewrite PM.gss. discriminate.
    + apply IH. exact H.
Qed.

Lemma eval_phis_ok : forall e s k ps,
  forallb (fun ph => match nthN (snd ph) k with Some o => operand_ok s o | None => false end) ps = true ->
  defined e s -> exists l, eval_phis e k ps = inl l /\ map fst l = map fst ps.
Proof.
  intros e s k ps. induction ps as [|[d es] r IH]; intros H D; simpl.
  - exists []. auto.
  - simpl in H. apply andb_true_iff in H. destruct H as [Ho Hr].
    destruct (nthN es k) as [o|]; [|discriminate].
    destruct (eval_operand_ok e s o Ho D) as [v ->].
    destruct (IH Hr D) as [l [-> Hl]]. exists ((d, v) :: l). simpl. rewrite Hl. auto.
Qed.

(* ---------------------------------------------------------------- the validator's facts *)

Definition code_ok (fn : func) (ins : list regset) (blk : N) (avail : regset) (code : list instr) : Prop :=
  exists b out, get_block fn blk = Some b /\ check_code avail code = Some out /\
                forallb (check_edge fn ins blk out) (b_succs b) = true.

Lemma code_ok_cons : forall fn ins blk avail i rest,
  code_ok fn ins blk avail (i :: rest) ->
  is_phi i = false /\ forallb (operand_ok avail) (instr_uses i) = true /\
  code_ok fn ins blk (instr_def i ++ avail) rest /\ (is_term i = true -> rest = []).
Proof.
  intros fn ins blk avail i rest [b [out [Hb [Hc He]]]]. simpl in Hc.
  destruct (is_phi i) eqn:Hp; [discriminate|].
  destruct (is_term i && negb match rest with [] => true | _ => false end) eqn:Ht; [discriminate|].
  destruct (forallb (operand_ok avail) (instr_uses i)) eqn:Hu; [|discriminate].
  repeat split; auto.
  - exists b, out. auto.
  - intros T. rewrite T in Ht. simpl in Ht. destruct rest; [reflexivity | discriminate].
Qed.

Lemma check_blocks_nth : forall fn ins bs i k b,
  check_blocks fn ins bs i = true -> nthN bs k = Some b -> check_block fn ins (i + k) b = true.
Proof.
  intros fn ins bs. induction bs as [|b0 r IH]; intros i k b H Hn; simpl in *; [discriminate|].
  apply andb_true_iff in H. destruct H as [H0 Hr].
  destruct (N.eqb k 0) eqn:E.
  - apply N.eqb_eq in E. subst. inversion Hn; subst. rewrite N.add_0_r. exact H0.
  - apply N.eqb_neq in E. specialize (IH (N.succ i) (N.pred k) b Hr Hn).
    replace (i + k)%N with (N.succ i + N.pred k)%N by lia. exact IH.
Qed.

Lemma validate_block : forall fn ins blk b,
  validate fn ins = true -> get_block fn blk = Some b ->
  let '(phis, rest) := split_phis (b_code b) in
  code_ok fn ins blk (map fst phis ++ block_in ins blk) rest.
Proof.
  intros fn ins blk b V Hb. unfold validate in V.
  apply andb_true_iff in V. destruct V as [_ Vb].
  pose proof (check_blocks_nth fn ins (fn_blocks fn) 0 blk b Vb Hb) as H. simpl in H.
  unfold check_block in H. destruct (split_phis (b_code b)) as [phis rest].
  destruct (check_code (map fst phis ++ block_in ins blk) rest) as [out|] eqn:Hc; [|discriminate].
  exists b, out. auto.
Qed.

Lemma split_phis_no_phis : forall b, no_phis b = true -> split_phis (b_code b) = ([], b_code b).
Proof.
  intros b H. unfold no_phis in H. destruct (b_code b) as [|i r]; [reflexivity|].
  destruct i; try reflexivity. discriminate.
Qed.

(* ---------------------------------------------------------------- frames *)

Definition is_iop (i : instr) : bool := match i with IOp _ _ _ => true | _ => false end.

Definition prefix_done (fn : func) (fr : frame) : Prop :=
  exists b0, get_block fn 0 = Some b0 /\ defined (f_env fr) (safe_prefix_defs (b_code b0) ++ entry_set fn).

Definition in_prefix (fn : func) (fr : frame) : Prop :=
  exists b0 pre, get_block fn 0 = Some b0 /\ f_blk fr = 0%N /\ b_code b0 = pre ++ f_code fr /\
    forallb is_iop pre = true /\
    defined (f_env fr) (flat_map instr_def pre ++ entry_set fn) /\
    f_defers fr = [] /\ (f_rundefers fr = true -> f_panic fr <> None).

Definition recov (fn : func) (fr : frame) : Prop := prefix_done fn fr \/ in_prefix fn fr.

Definition frame_ok (p : program) (fr : frame) : Prop :=
  exists fn, get_func p (f_fn fr) = Some fn /\ validate fn (compute_in fn) = true /\
    exists avail, defined (f_env fr) avail /\ code_ok fn (compute_in fn) (f_blk fr) avail (f_code fr).

Definition top_ok (p : program) (fr : frame) : Prop :=
  frame_ok p fr /\ forall fn, get_func p (f_fn fr) = Some fn -> recov fn fr.

Definition lower_ok (p : program) (fr : frame) : Prop :=
  frame_ok p fr /\ forall fn, get_func p (f_fn fr) = Some fn -> prefix_done fn fr.

Definition stack_inv (p : program) (st : state) : Prop :=
  match st_stack st with
  | [] => True
  | top :: rest => top_ok p top /\ Forall (lower_ok p) rest
  end.

Definition prog_ok (p : program) : Prop := ssa_ok_prog p = true.

Lemma prog_ok_func : forall p f fn, prog_ok p -> get_func p f = Some fn -> fn_blocks fn <> [] ->
  validate fn (compute_in fn) = true.
Proof.
  intros p f fn P G NB. unfold prog_ok, ssa_ok_prog in P. rewrite forallb_forall in P.
  assert (In fn (p_funcs p)) as HI.
  { unfold get_func in G. clear P NB. revert f G. induction (p_funcs p) as [|x r IH]; intros f G; simpl in G; [discriminate|].
    destruct (N.eqb f 0); [inversion G; left; reflexivity | right; eapply IH; eauto]. }
  specialize (P fn HI). unfold ssa_ok_func in P. destruct (fn_blocks fn); [congruence | exact P].
Qed.

Lemma lower_to_top : forall p fr, lower_ok p fr -> top_ok p fr.
Proof. intros p fr [F R]. split; [exact F|]. intros fn G. left. apply R, G. Qed.

(* flag-only updates of a frame *)
Definition same_core (a b : frame) : Prop :=
  f_fn a = f_fn b /\ f_blk a = f_blk b /\ f_code a = f_code b /\ f_env a = f_env b.

Lemma frame_ok_core : forall p a b, same_core a b -> frame_ok p a -> frame_ok p b.
Proof.
  intros p a b [H1 [H2 [H3 H4]]] [fn [G [V [av [D C]]]]].
  exists fn. rewrite <- H1, <- H2, <- H3, <- H4. eauto.
Qed.

Lemma prefix_done_core : forall fn a b, f_env a = f_env b -> prefix_done fn a -> prefix_done fn b.
Proof. intros fn a b E [b0 [G D]]. exists b0. rewrite <- E. auto. Qed.

Lemma lower_ok_core : forall p a b, same_core a b -> lower_ok p a -> lower_ok p b.
Proof.
  intros p a b C [F R]. split; [eapply frame_ok_core; eauto|].
  destruct C as [H1 [_ [_ H4]]]. intros fn G. eapply prefix_done_core; [exact H4|]. apply R. rewrite H1. exact G.
Qed.

(* ---------------------------------------------------------------- helper facts *)

Lemma nthN_In : forall {A} (l : list A) i x, nthN l i = Some x -> In x l.
Proof.
  intros A l. induction l as [|y r IH]; intros i x H; simpl in H; [discriminate|].
  destruct (N.eqb i 0); [inversion H; left; reflexivity | right; eapply IH; eauto].
Qed.

Lemma prefix_done_le : forall fn a b, prefix_done fn a -> env_le (f_env a) (f_env b) -> prefix_done fn b.
Proof. intros fn a b [b0 [G D]] L. exists b0. split; [exact G | eapply defined_le; eauto]. Qed.

Lemma safe_prefix_app : forall pre i rest, forallb is_iop pre = true -> is_iop i = false ->
  safe_prefix_defs (pre ++ i :: rest) = flat_map instr_def pre.
Proof.
  induction pre as [|j r IH]; intros i rest H Hi; simpl.
  - destruct i; simpl in Hi; try reflexivity. discriminate.
  - simpl in H. apply andb_true_iff in H. destruct H as [Hj Hr].
    destruct j; simpl in Hj; try discriminate. simpl. rewrite (IH i rest Hr Hi). reflexivity.
Qed.

Lemma safe_prefix_all : forall pre, forallb is_iop pre = true -> safe_prefix_defs pre = flat_map instr_def pre.
Proof.
  induction pre as [|j r IH]; intros H; simpl; [reflexivity|].
  simpl in H. apply andb_true_iff in H. destruct H as [Hj Hr].
  destruct j; simpl in Hj; try discriminate. simpl. rewrite (IH Hr). reflexivity.
Qed.

Lemma in_prefix_done : forall fn fr,
  in_prefix fn fr -> match f_code fr with IOp _ _ _ :: _ => False | _ => True end -> prefix_done fn fr.
Proof.
  intros fn fr [b0 [pre [G [Hb [Hc [Hp [D _]]]]]]] H. exists b0. split; [exact G|].
  rewrite Hc. destruct (f_code fr) as [|i rest].
  - rewrite app_nil_r. rewrite (safe_prefix_all pre Hp). exact D.
  - rewrite (safe_prefix_app pre i rest Hp); [exact D|]. destruct i; try reflexivity. contradiction.
Qed.

Lemma recov_done : forall fn fr,
  recov fn fr -> match f_code fr with IOp _ _ _ :: _ => False | _ => True end -> prefix_done fn fr.
Proof. intros fn fr [H|H] C; [exact H | apply in_prefix_done; assumption]. Qed.

Lemma recov_done_defers : forall fn fr, recov fn fr -> f_defers fr <> [] -> prefix_done fn fr.
Proof.
  intros fn fr [H|H] C; [exact H|]. destruct H as [b0 [pre [_ [_ [_ [_ [_ [E _]]]]]]]]. congruence.
Qed.

Lemma recov_done_quiet : forall fn fr, recov fn fr -> f_rundefers fr = true -> f_panic fr = None -> prefix_done fn fr.
Proof.
  intros fn fr [H|H] R Pn; [exact H|]. destruct H as [b0 [pre [_ [_ [_ [_ [_ [_ E]]]]]]]]. specialize (E R). congruence.
Qed.

Lemma defined_equiv : forall e a b, defined e a -> (forall r, mem r b = true -> mem r a = true) -> defined e b.
Proof. intros e a b D H r M. apply D, H, M. Qed.

(* executing the head IOp of a frame that is still in its entry prefix keeps it in the prefix *)
Lemma recov_iop : forall fn fr fr' d op args rest v,
  recov fn fr -> f_code fr = IOp d op args :: rest -> f_rundefers fr = false ->
  f_blk fr' = f_blk fr -> f_code fr' = rest -> f_env fr' = set_dst (f_env fr) d v ->
  f_defers fr' = f_defers fr -> f_rundefers fr' = false ->
  recov fn fr'.
Proof.
  intros fn fr fr' d op args rest v R Hc Hr Hb Hc' He Hd Hr'.
  destruct R as [R|R].
  - left. eapply prefix_done_le; [exact R|]. rewrite He. apply set_dst_le.
  - right. destruct R as [b0 [pre [G [B0 [Hcode [Hp [D [Hdef _]]]]]]]].
    exists b0, (pre ++ [IOp d op args]). repeat split.
    + exact G.
    + rewrite Hb. exact B0.
    + rewrite Hc', Hcode, Hc, <- app_assoc. reflexivity.
    + rewrite forallb_app, Hp. reflexivity.
    + rewrite He. eapply defined_equiv; [apply (defined_set_dst (f_env fr) d v _ D)|].
      intros r M. rewrite flat_map_app in M. simpl in M. rewrite app_nil_r in M.
      rewrite !mem_app in *. rewrite orb_assoc. rewrite (orb_comm (mem r (opt_list d))). exact M.
    + rewrite Hd. exact Hdef.
    + intros X. congruence.
Qed.

(* ---------------------------------------------------------------- control transfer *)

Lemma goto_succ_inv : forall fn fr succ avail,
  validate fn (compute_in fn) = true ->
  defined (f_env fr) avail ->
  (exists b, get_block fn (f_blk fr) = Some b /\
             forallb (check_edge fn (compute_in fn) (f_blk fr) avail) (b_succs b) = true) ->
  match goto_succ fn fr succ with
  | inl fr' => f_fn fr' = f_fn fr /\ env_le (f_env fr) (f_env fr') /\
               f_defers fr' = f_defers fr /\ f_rundefers fr' = f_rundefers fr /\ f_panic fr' = f_panic fr /\
               exists avail', defined (f_env fr') avail' /\ code_ok fn (compute_in fn) (f_blk fr') avail' (f_code fr')
  | inr (EUndef _) => False
  | inr _ => True
  end.
Proof.
  intros fn fr succ avail V D [b [Hb He]]. unfold goto_succ. rewrite Hb.
  destruct (nthN (b_succs b) succ) as [tgt|] eqn:Hs; [|exact I].
  rewrite forallb_forall in He. specialize (He tgt (nthN_In _ _ _ Hs)).
  unfold check_edge in He.
  destruct (get_block fn tgt) as [tb|] eqn:Ht; [|discriminate].
  destruct (index_of (f_blk fr) (b_preds tb) 0) as [k|]; [|discriminate].
  pose proof (validate_block fn (compute_in fn) tgt tb V Ht) as VB.
  destruct (split_phis (b_code tb)) as [ps rest].
  apply andb_true_iff in He. destruct He as [Hphi Hsub].
  destruct (eval_phis_ok (f_env fr) avail k ps Hphi D) as [l [-> Hl]].
  simpl. repeat split; auto.
  - apply assign_all_le.
  - exists (map fst ps ++ block_in (compute_in fn) tgt). split; [|exact VB].
    apply defined_app.
    + rewrite <- Hl. apply assign_all_defined.
    + eapply defined_le; [|apply assign_all_le]. eapply defined_subset; eauto.
Qed.

(* ---------------------------------------------------------------- calls *)

Lemma bind_regs_le : forall rs vs e e', bind_regs e rs vs = Some e' -> env_le e e'.
Proof.
  induction rs as [|r rs IH]; intros vs e e' H; destruct vs as [|v vs]; simpl in H; try discriminate.
  - inversion H. apply env_le_refl.
  - eapply env_le_trans; [apply env_le_add | eapply IH; eauto].
Qed.

Lemma bind_regs_defined : forall rs vs e e', bind_regs e rs vs = Some e' -> defined e' rs.
Proof.
  induction rs as [|r rs IH]; intros vs e e' H; destruct vs as [|v vs]; simpl in H; try (inversion H; fail).
  - apply defined_nil.
  - intros x M. unfold mem in M. simpl in M. apply orb_true_iff in M. destruct M as [M|M].
    + apply Pos.eqb_eq in M. subst. apply (bind_regs_le _ _ _ _ H). rewrite PM.gss. discriminate.
    + eapply IH; eauto.
Qed.

Lemma enter_inv : forall p f binds args, prog_ok p ->
  match enter p f binds args with
  | CPush nf => top_ok p nf
  | CErr e => forall r, e <> EUndef r
  | _ => True
  end.
Proof.
  intros p f binds args P. unfold enter.
  destruct (get_func p f) as [fn|] eqn:G; [|intros r; discriminate].
  destruct (fn_blocks fn) as [|bb bs] eqn:NB; [exact I|].
  destruct (bind_regs (PM.empty value) (fn_params fn) args) as [e1|] eqn:B1; [|intros r; discriminate].
  destruct (bind_regs e1 (fn_freevars fn) binds) as [e2|] eqn:B2; [|intros r; discriminate].
  unfold new_frame. destruct (get_block fn 0) as [b0|] eqn:G0; [|intros r; discriminate].
  assert (validate fn (compute_in fn) = true) as V by (eapply prog_ok_func; eauto; rewrite NB; discriminate).
  assert (defined e2 (entry_set fn)) as DE.
  { unfold entry_set. apply defined_app.
    - eapply defined_le; [eapply bind_regs_defined; eauto | eapply bind_regs_le; eauto].
    - eapply bind_regs_defined; eauto. }
  pose proof V as V'. unfold validate in V'. apply andb_true_iff in V'. destruct V' as [V' _].
  apply andb_true_iff in V'. destruct V' as [EO _]. unfold entry_ok in EO. rewrite G0 in EO.
  apply andb_true_iff in EO. destruct EO as [NP SUB].
  split.
  - exists fn. simpl. repeat split; auto.
    exists (block_in (compute_in fn) 0). split.
    + eapply defined_subset; eauto.
    + pose proof (validate_block fn (compute_in fn) 0 b0 V G0) as VB.
      rewrite (split_phis_no_phis b0 NP) in VB. simpl in VB. exact VB.
  - intros fn' G'. simpl in G'. rewrite G in G'. inversion G'; subst fn'. right.
    exists b0, []. simpl. repeat split; auto. discriminate.
Qed.

Lemma resolve_call_inv : forall p m vs, prog_ok p ->
  match resolve_call p m vs with
  | CPush nf => top_ok p nf
  | CErr e => forall r, e <> EUndef r
  | _ => True
  end.
Proof.
  intros p m vs P. unfold resolve_call.
  destruct m; try (destruct vs as [|v vs]); try exact I; try (intros r; discriminate);
    try apply enter_inv; auto.
  - destruct v; try (intros r; discriminate); try exact I. apply enter_inv; auto.
  - destruct v; try (intros r; discriminate). destruct dyn as [[ty recv]|]; [|exact I].
    destruct (find_method (p_methods p) ty m); [apply enter_inv; auto | intros r; discriminate].
  - destruct vs; [exact I | intros r; discriminate].
Qed.

Ltac flags_core := repeat split; reflexivity.

Lemma do_call_inv : forall p st fr rest m vs after,
  prog_ok p -> lower_ok p fr -> Forall (lower_ok p) rest -> (forall v, top_ok p (after v)) ->
  match do_call p st fr rest m vs after with
  | Next st' => stack_inv p st'
  | Final (Stuck (EUndef _)) => False
  | Final _ => True
  end.
Proof.
  intros p st fr rest m vs after P L R A. unfold do_call.
  pose proof (resolve_call_inv p m vs P) as RC.
  destruct (resolve_call p m vs) as [nf|f args|v| | |e].
  - unfold stack_inv. simpl. split; [exact RC | constructor; assumption].
  - unfold stack_inv. simpl. split; [apply A | exact R].
  - unfold raise, stack_inv. simpl. split; [|exact R].
    apply lower_to_top. eapply lower_ok_core; [|exact L]. flags_core.
  - destruct rest as [|c below].
    + unfold stack_inv. simpl. split; [apply A | constructor].
    + inversion R; subst. destruct (f_panic c).
      * unfold stack_inv. simpl. split; [apply A|]. constructor; [|assumption].
        eapply lower_ok_core; [|eassumption]. flags_core.
      * unfold stack_inv. simpl. split; [apply A | exact R].
  - unfold stack_inv. simpl. split; [apply A | exact R].
  - destruct e; try exact I. exfalso. eapply RC; reflexivity.
Qed.

Lemma do_return_inv : forall p st rest vs, Forall (lower_ok p) rest ->
  match do_return st rest vs with
  | Next st' => stack_inv p st'
  | Final (Stuck (EUndef _)) => False
  | Final _ => True
  end.
Proof.
  intros p st rest vs R. unfold do_return. destruct rest as [|c below]; [exact I|].
  inversion R as [|? ? Lc Lb]; subst. unfold deliver.
  destruct (f_rundefers c) eqn:RD.
  - unfold stack_inv. simpl. split; [apply lower_to_top; exact Lc | exact Lb].
  - destruct (f_code c) as [|i code] eqn:Hc; [exact I|].
    destruct i; try exact I.
    unfold stack_inv. simpl. split; [|exact Lb].
    destruct Lc as [[fn [G [V [av [D C]]]]] PD]. rewrite Hc in C.
    apply code_ok_cons in C. destruct C as [_ [_ [C _]]].
    split.
    + exists fn. simpl. repeat split; auto. exists (instr_def (ICall dst m args) ++ av). split; [|exact C].
      simpl. apply defined_set_dst. exact D.
    + intros fn' G'. left. eapply prefix_done_le; [apply PD; exact G'|]. simpl. apply set_dst_le.
Qed.

(* ---------------------------------------------------------------- single steps *)

Lemma top_ok_start_panic : forall p fr v, top_ok p fr -> top_ok p (start_panic fr v).
Proof.
  intros p fr v [F R]. split.
  - eapply frame_ok_core; [|exact F]. flags_core.
  - intros fn G. simpl in G. destruct (R fn G) as [H|H].
    + left. eapply prefix_done_core; [|exact H]. reflexivity.
    + right. destruct H as [b0 [pre [G0 [B [C [Pp [D [Df _]]]]]]]].
      exists b0, pre. simpl. repeat split; auto. discriminate.
Qed.

Lemma iop_done : forall p fr fr' d op args code v,
  top_ok p fr -> f_code fr = IOp d op args :: code -> f_rundefers fr = false ->
  f_fn fr' = f_fn fr -> f_blk fr' = f_blk fr -> f_code fr' = code -> f_env fr' = set_dst (f_env fr) d v ->
  f_defers fr' = f_defers fr -> f_rundefers fr' = false -> top_ok p fr'.
Proof.
  intros p fr fr' d op args code v [[fn [G [V [av [D C]]]]] R] Hc Hr E1 E2 E3 E4 E5 E6.
  rewrite Hc in C. apply code_ok_cons in C. destruct C as [_ [_ [C _]]]. split.
  - exists fn. rewrite E1, E2, E3, E4. repeat split; auto.
    exists (instr_def (IOp d op args) ++ av). split; [|exact C]. simpl. apply defined_set_dst. exact D.
  - intros fn' G'. rewrite E1 in G'. eapply recov_iop; eauto.
Qed.

Lemma nonop_done : forall p fr fr' i d code v,
  top_ok p fr -> f_code fr = i :: code -> is_iop i = false -> instr_def i = opt_list d ->
  f_fn fr' = f_fn fr -> f_blk fr' = f_blk fr -> f_code fr' = code -> f_env fr' = set_dst (f_env fr) d v ->
  top_ok p fr'.
Proof.
  intros p fr fr' i d code v [[fn [G [V [av [D C]]]]] R] Hc Hi Hd E1 E2 E3 E4.
  rewrite Hc in C. apply code_ok_cons in C. destruct C as [_ [_ [C _]]]. split.
  - exists fn. rewrite E1, E2, E3, E4. repeat split; auto.
    exists (instr_def i ++ av). split; [|exact C]. rewrite Hd. apply defined_set_dst. exact D.
  - intros fn' G'. rewrite E1 in G'. left. eapply prefix_done_le.
    + apply (recov_done fn' fr (R fn' G')). rewrite Hc. destruct i; try exact I. discriminate.
    + rewrite E4. apply set_dst_le.
Qed.

Lemma top_to_lower : forall p fr,
  top_ok p fr -> match f_code fr with IOp _ _ _ :: _ => False | _ => True end -> lower_ok p fr.
Proof. intros p fr [F R] H. split; [exact F|]. intros fn G. apply recov_done; auto. Qed.

Lemma step_op_inv : forall p st fr rest d op args vs code,
  top_ok p fr -> Forall (lower_ok p) rest ->
  f_code fr = IOp d op args :: code -> f_rundefers fr = false ->
  match step_op st fr rest d op vs code with
  | Next st' => stack_inv p st'
  | Final (Stuck (EUndef _)) => False
  | Final _ => True
  end.
Proof.
  intros p st fr rest d op args vs code T L Hc Hr.
  assert (forall v h' , stack_inv p (mkState (with_code fr code (set_dst (f_env fr) d v) :: rest) h' (st_trace st))) as OKC.
  { intros v h'. unfold stack_inv. simpl. split; [|exact L].
    eapply iop_done; eauto; try reflexivity; simpl; auto. }
  assert (match (match sem_op op vs (st_heap st) with
                 | ROk v h' => Next (mkState (with_code fr code (set_dst (f_env fr) d v) :: rest) h' (st_trace st))
                 | RPanic k => raise st fr rest (rt_panic_value k)
                 | RErr e => Final (Stuck (err_of e))
                 end) with
          | Next st' => stack_inv p st'
          | Final (Stuck (EUndef _)) => False
          | Final _ => True
          end) as DEF.
  { destruct (sem_op op vs (st_heap st)) as [v h'|k|e].
    - apply OKC.
    - unfold raise, stack_inv. simpl. split; [apply top_ok_start_panic; exact T | exact L].
    - destruct e; exact I. }
  unfold step_op. destruct op; try exact DEF.
  destruct onheap; [exact DEF|]. destruct d as [r|]; [|exact DEF].
  destruct (PM.find r (f_locals fr)) as [c|].
  - apply (OKC (VPtr (Some (c, [])))).
  - destruct (alloc_cell (st_heap st) zero) as [c h'].
    unfold stack_inv. simpl. split; [|exact L].
    eapply iop_done with (v := VPtr (Some (c, []))); eauto; reflexivity.
Qed.

Lemma push_defer_at_ok : forall p l j d l',
  Forall (lower_ok p) l -> push_defer_at l j d = Some l' -> Forall (lower_ok p) l'.
Proof.
  intros p l. induction l as [|fr r IH]; intros j d l' F H; simpl in H; [discriminate|].
  inversion F; subst. destruct j.
  - inversion H; subst. constructor; [|assumption]. eapply lower_ok_core; [|eassumption]. flags_core.
  - destruct (push_defer_at r j d) as [r'|] eqn:E; [|discriminate]. inversion H; subst.
    constructor; [assumption | eapply IH; eauto].
Qed.

Lemma code_ok_term : forall fn ins blk av i rest,
  code_ok fn ins blk av (i :: rest) -> is_term i = true ->
  exists b, get_block fn blk = Some b /\ forallb (check_edge fn ins blk av) (b_succs b) = true.
Proof.
  intros fn ins blk av i rest C T. pose proof (code_ok_cons _ _ _ _ _ _ C) as [_ [_ [_ Tl]]].
  specialize (Tl T). subst rest. destruct C as [b [out [Hb [Hc He]]]]. simpl in Hc.
  destruct (is_phi i); [discriminate|]. rewrite T in Hc. simpl in Hc.
  destruct (forallb (operand_ok av) (instr_uses i)); [|discriminate].
  assert (instr_def i = []) as E by (destruct i; simpl in T; try discriminate; reflexivity).
  rewrite E in Hc. simpl in Hc. inversion Hc; subst. exists b. auto.
Qed.

Lemma goto_top : forall p fn fr rest succ st,
  top_ok p fr -> Forall (lower_ok p) rest -> get_func p (f_fn fr) = Some fn ->
  (exists i code, f_code fr = i :: code /\ is_term i = true) ->
  match (match goto_succ fn fr succ with
         | inl fr' => Next (mkState (fr' :: rest) (st_heap st) (st_trace st))
         | inr e => Final (Stuck e)
         end) with
  | Next st' => stack_inv p st'
  | Final (Stuck (EUndef _)) => False
  | Final _ => True
  end.
Proof.
  intros p fn fr rest succ st [[fn0 [G0 [V [av [D C]]]]] R] L G [i [code [Hc T]]].
  rewrite G in G0. inversion G0; subst fn0. rewrite Hc in C.
  pose proof (code_ok_term _ _ _ _ _ _ C T) as E.
  pose proof (goto_succ_inv fn fr succ av V D E) as GI.
  destruct (goto_succ fn fr succ) as [fr'|e].
  - destruct GI as [E1 [Le [_ [_ [_ [av' [D' C']]]]]]].
    unfold stack_inv. simpl. split; [|exact L]. split.
    + exists fn. rewrite E1. repeat split; auto. exists av'. auto.
    + intros fn' G'. rewrite E1, G in G'. inversion G'; subst fn'. left.
      eapply prefix_done_le; [|exact Le]. apply (recov_done fn fr (R fn G)). rewrite Hc.
      destruct i; simpl in T; try discriminate; exact I.
  - destruct e; try exact I. exact GI.
Qed.

Lemma forallb_app_l : forall {A} (f : A -> bool) a b, forallb f (a ++ b) = true -> forallb f a = true.
Proof. intros. rewrite forallb_app in H. apply andb_true_iff in H. tauto. Qed.
Lemma forallb_app_r : forall {A} (f : A -> bool) a b, forallb f (a ++ b) = true -> forallb f b = true.
Proof. intros. rewrite forallb_app in H. apply andb_true_iff in H. tauto. Qed.

Theorem step_inv : forall p st, prog_ok p -> stack_inv p st ->
  match step p st with
  | Next st' => stack_inv p st'
  | Final (Stuck (EUndef _)) => False
  | Final _ => True
  end.
Proof.
  intros p st P S. unfold step. unfold stack_inv in S.
  destruct (st_stack st) as [|fr rest]; [exact I|].
  destruct S as [T L]. pose proof T as [[fn [G [V [av [D C]]]]] R].
  rewrite G. specialize (R fn G).
  destruct (f_rundefers fr) eqn:RD.
  - (* the frame is popping its deferred calls *)
    destruct (f_defers fr) as [|dc ds] eqn:DF.
    + destruct (f_panic fr) as [v|] eqn:PN.
      * destruct rest as [|caller below]; [exact I|]. inversion L; subst.
        unfold stack_inv. simpl. split; [|assumption].
        apply lower_to_top. eapply lower_ok_core; [|eassumption]. flags_core.
      * destruct (f_unwinding fr).
        -- destruct (fn_recover fn) as [rb|] eqn:RB.
           ++ destruct (get_block fn rb) as [b|] eqn:GB; [|exact I].
              unfold stack_inv. simpl. split; [|exact L].
              assert (prefix_done fn fr) as PD by (apply recov_done_quiet; auto).
              pose proof V as V'. unfold validate in V'. apply andb_true_iff in V'. destruct V' as [V' _].
              apply andb_true_iff in V'. destruct V' as [_ RO]. unfold recover_ok in RO. rewrite RB, GB in RO.
              destruct PD as [b0 [G0 D0]]. rewrite G0 in RO.
              apply andb_true_iff in RO. destruct RO as [NP SUB].
              split.
              ** exists fn. simpl. repeat split; auto.
                 exists (block_in (compute_in fn) rb). split; [eapply defined_subset; eauto|].
                 pose proof (validate_block fn (compute_in fn) rb b V GB) as VB.
                 rewrite (split_phis_no_phis b NP) in VB. simpl in VB. exact VB.
              ** intros fn' G'. simpl in G'. rewrite G in G'. inversion G'; subst fn'. left. exists b0. auto.
           ++ apply do_return_inv. exact L.
        -- unfold stack_inv. simpl. split; [|exact L]. split.
           ++ eapply frame_ok_core; [|destruct T; eassumption]. flags_core.
           ++ intros fn' G'. simpl in G'. rewrite G in G'. inversion G'; subst fn'.
              destruct R as [H|H].
              ** left. eapply prefix_done_core; [|exact H]. reflexivity.
              ** right. destruct H as [b0 [pre [G0 [B [Cc [Pp [Dd _]]]]]]].
                 exists b0, pre. simpl. repeat split; auto. discriminate.
    + (* call the next deferred function *)
      assert (lower_ok p (mkFrame (f_fn fr) (f_blk fr) (f_code fr) (f_env fr) (f_locals fr) ds true (f_panic fr) (f_unwinding fr))) as LO.
      { split.
        - eapply frame_ok_core; [|destruct T; eassumption]. flags_core.
        - intros fn' G'. simpl in G'. rewrite G in G'. inversion G'; subst fn'.
          eapply prefix_done_core; [|apply (recov_done_defers fn fr R); rewrite DF; discriminate]. reflexivity. }
      apply do_call_inv; auto. intros _. apply lower_to_top. exact LO.
  - (* normal execution *)
    destruct (f_code fr) as [|i code] eqn:HC; [exact I|].
    pose proof (code_ok_cons _ _ _ _ _ _ C) as [NPhi [U [C' Tm]]].
    destruct i; simpl in U.
    + (* IOp *)
      destruct (eval_operands_ok (f_env fr) av args U D) as [vs ->].
      eapply step_op_inv; eauto.
    + exact I.
    + (* ICall *)
      destruct (eval_operands_ok (f_env fr) av args U D) as [vs ->].
      apply do_call_inv; auto.
      * apply top_to_lower; [exact T | rewrite HC; exact I].
      * intros v. eapply nonop_done with (i := ICall dst m args) (d := dst) (v := v); eauto; reflexivity.
    + (* IDefer *)
      destruct (eval_operands_ok (f_env fr) av args (forallb_app_r _ _ _ U) D) as [vs ->].
      assert (top_ok p (with_code fr code (f_env fr))) as TW.
      { eapply nonop_done with (i := IDefer m ds args) (d := None) (v := VInt 0); eauto; reflexivity. }
      assert (forall dcl, top_ok p (push_defer (with_code fr code (f_env fr)) dcl)) as TP.
      { intros dcl. destruct TW as [FW RW]. split.
        - eapply frame_ok_core; [|exact FW]. flags_core.
        - intros fn' G'. simpl in G'. rewrite G in G'. inversion G'; subst fn'. left.
          eapply prefix_done_core; [|apply (recov_done fn fr R); rewrite HC; exact I]. reflexivity. }
      destruct ds as [o|].
      * pose proof (forallb_app_l _ _ _ U) as Uo. simpl in Uo. apply andb_true_iff in Uo. destruct Uo as [Uo _].
        destruct (eval_operand_ok (f_env fr) av o Uo D) as [dv ->].
        destruct dv; try exact I.
        destruct (z =? Z.of_nat (length rest))%Z.
        -- unfold stack_inv. simpl. split; [apply TP | exact L].
        -- destruct ((0 <=? z)%Z && (z <? Z.of_nat (length rest))%Z); [|exact I].
           destruct (push_defer_at rest (Z.to_nat (Z.of_nat (length rest) - 1 - z)) (mkDcall m vs)) as [rest'|] eqn:PA; [|exact I].
           unfold stack_inv. simpl. split; [exact TW | eapply push_defer_at_ok; eauto].
      * rewrite Z.eqb_refl. unfold stack_inv. simpl. split; [apply TP | exact L].
    + (* IRunDefers *)
      unfold stack_inv. simpl. split; [|exact L]. split.
      * exists fn. simpl. repeat split; auto. exists (instr_def IRunDefers ++ av). split; [exact D | exact C'].
      * intros fn' G'. simpl in G'. rewrite G in G'. inversion G'; subst fn'. left.
        eapply prefix_done_core; [|apply (recov_done fn fr R); rewrite HC; exact I]. reflexivity.
    + (* IJump *)
      eapply goto_top; eauto; exists IJump, code; auto.
    + (* IIf *)
      apply andb_true_iff in U. destruct U as [Uc _].
      destruct (eval_operand_ok (f_env fr) av c Uc D) as [cv ->].
      destruct cv; try exact I.
      eapply goto_top; eauto; exists (IIf c), code; auto.
    + (* ISwitch *)
      apply andb_true_iff in U. destruct U as [Ut Uc].
      destruct (eval_operand_ok (f_env fr) av tag Ut D) as [tv ->].
      destruct (eval_opt_operands_ok (f_env fr) av conds Uc D) as [cvs ->].
      destruct (switch_target tv cvs); [|exact I].
      eapply goto_top; eauto; exists (ISwitch tag conds), code; auto.
    + (* IReturn *)
      destruct (eval_operands_ok (f_env fr) av rs U D) as [vs ->].
      apply do_return_inv. exact L.
    + (* IPanic *)
      apply andb_true_iff in U. destruct U as [Ux _].
      destruct (eval_operand_ok (f_env fr) av x Ux D) as [xv ->].
      unfold raise, stack_inv. simpl. split; [apply top_ok_start_panic; exact T | exact L].
    + exact I.
Qed.

(* ---------------------------------------------------------------- whole executions *)

Theorem run_no_undef : forall n p st, prog_ok p -> stack_inv p st ->
  forall r, run n p st <> Stuck (EUndef r).
Proof.
  induction n as [|n IH]; intros p st P S r; simpl; [discriminate|].
  pose proof (step_inv p st P S) as H.
  destruct (step p st) as [st'|o].
  - apply IH; assumption.
  - intros E. subst o. exact H.
Qed.

Theorem exec_no_undef : forall n p f args h, ssa_ok_prog p = true ->
  forall r, exec n p f args h <> Stuck (EUndef r).
Proof.
  intros n p f args h P r. unfold exec, init_state.
  pose proof (enter_inv p f [] args P) as E.
  destruct (enter p f [] args) as [nf|f' a|v| | |e]; try discriminate.
  - apply run_no_undef; [exact P|]. unfold stack_inv. simpl. split; [exact E | constructor].
  - intros X. inversion X. eapply E; eauto.
Qed.
