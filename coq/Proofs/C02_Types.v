(* C02 — the declarative typing judgement [instr_typed] and the proof that the boolean check [type_ok]
   implies it.  Type ids are equal iff go/types.Identical holds (harness); [core], [celem], ... are the
   structural accessors of Model/C02.v.  Instruction kinds without a constructor below carry no typing
   rule in this development (listed at [untyped_kind]). *)
From Coq Require Import List NArith Bool Lia Arith.
Import ListNotations.
Require Import Verif.Lib.Graphs Verif.Model.C02.
Local Open Scope N_scope.

Section Typing.
Variable T : tytable.
Variable f : func.

(* p is a pointer-like type whose element type is e; vacuous for a type parameter without core type *)
Definition points_to (p e : N) : Prop := core T p = 0 \/ (ckind T p = TPointer /\ celem T p = e).
(* result of an operation with optional ",ok": v, or the pair (v, bool) *)
Definition value_or_commaok (commaok ty v : N) : Prop :=
  (commaok = 0 /\ ty = v) \/ (commaok <> 0 /\ is_commaok T ty v = true).
(* type of a call: the single result, or the tuple of results *)
Definition call_result (ty : N) (results : list N) : Prop :=
  match results with [r] => ty = r | rs => is_tuple_of T ty rs = true end.

(* arguments against parameter types (receiver first): pairwise identical, or same core type with one side a type
   literal, or a type parameter without core type on either side *)
Definition compatible (a p : N) : Prop :=
  a = p \/ core T a = 0 \/ core T p = 0 \/ (core T a = core T p /\ (is_unnamed T a = true \/ is_unnamed T p = true)).
Definition args_compatible (args params : list N) : Prop := Forall2 compatible args params.

Definition untyped_kind (k : kind) : Prop :=
  match k with
  | KChangeType | KConvert | KMultiConvert | KSliceToArray | KCompositeValue | KJump | KUnreachable
  | KConstantSwitch | KRunDefers | KBlankStore | KDebugRef | KOther | KBad => True
  | _ => False
  end.

Inductive instr_typed (i : instr) : Prop :=
| ty_store : forall a v, i_kind i = KStore -> i_ops i = [a; v] -> points_to (snd a) (snd v) -> instr_typed i
| ty_load : forall x, i_kind i = KLoad -> i_ops i = [x] -> points_to (snd x) (i_ty i) -> instr_typed i
| ty_phi : i_kind i = KPhi -> (forall op, In op (i_ops i) -> snd op = i_ty i) -> instr_typed i
| ty_if : forall c, i_kind i = KIf -> i_ops i = [c] -> is_bool T (snd c) = true -> instr_typed i
| ty_binop_arith : forall x y, i_kind i = KBinOp -> i_aux i = [0] -> i_ops i = [x; y] ->
    snd x = i_ty i -> snd y = i_ty i -> instr_typed i
| ty_binop_shift : forall x y, i_kind i = KBinOp -> i_aux i = [1] -> i_ops i = [x; y] -> snd x = i_ty i -> instr_typed i
| ty_binop_compare : forall x y, i_kind i = KBinOp -> i_aux i = [2] -> i_ops i = [x; y] -> is_bool T (i_ty i) = true ->
    (snd x = snd y \/ core T (snd x) = 0 \/ core T (snd y) = 0 \/ (ckind T (snd x) = TChan /\ ckind T (snd y) = TChan) \/
     (core T (snd x) = core T (snd y) /\ (is_unnamed T (snd x) = true \/ is_unnamed T (snd y) = true))) -> instr_typed i
| ty_unop : i_kind i = KUnOp -> (i_aux i = [0] -> exists x, i_ops i = [x] /\ snd x = i_ty i) -> instr_typed i
| ty_fieldaddr : forall x, i_kind i = KFieldAddr -> i_ops i = [x] ->
    (core T (snd x) = 0 \/
     exists k, i_aux i = [k] /\
      ckind T (snd x) = TPointer /\ ckind T (celem T (snd x)) = TStruct /\ ckind T (i_ty i) = TPointer /\
      nth_error (cfields T (celem T (snd x))) (N.to_nat k) = Some (celem T (i_ty i))) -> instr_typed i
| ty_field : forall x, i_kind i = KField -> i_ops i = [x] ->
    (core T (snd x) = 0 \/
     exists k, i_aux i = [k] /\
      ckind T (snd x) = TStruct /\ nth_error (cfields T (snd x)) (N.to_nat k) = Some (i_ty i)) -> instr_typed i
| ty_indexaddr : forall x n, i_kind i = KIndexAddr -> i_ops i = [x; n] ->
    (core T (snd x) = 0 \/
     (ckind T (i_ty i) = TPointer /\
      (((ckind T (snd x) = TSlice \/ ckind T (snd x) = TArray) /\ celem T (i_ty i) = celem T (snd x)) \/
       (ckind T (snd x) = TPointer /\ ckind T (celem T (snd x)) = TArray /\
        celem T (i_ty i) = celem T (celem T (snd x)))))) -> instr_typed i
| ty_index : forall x n, i_kind i = KIndex -> i_ops i = [x; n] ->
    (ckind T (snd x) = TArray -> i_ty i = celem T (snd x)) -> instr_typed i
| ty_maplookup : forall m k, i_kind i = KMapLookup -> i_ops i = [m; k] ->
    (core T (snd m) = 0 \/
     exists c, i_aux i = [c] /\
      ckind T (snd m) = TMap /\ snd k = ckey T (snd m) /\ value_or_commaok c (i_ty i) (celem T (snd m))) -> instr_typed i
| ty_extract : forall t k, i_kind i = KExtract -> i_ops i = [t] -> i_aux i = [k] ->
    t_kind (tget T (snd t)) = TTuple -> nth_error (t_fields (tget T (snd t))) (N.to_nat k) = Some (i_ty i) -> instr_typed i
| ty_return : i_kind i = KReturn -> map snd (i_ops i) = f_results f -> instr_typed i
| ty_makeinterface : forall x, i_kind i = KMakeInterface -> i_ops i = [x] -> is_iface T (i_ty i) = true ->
    (is_tparam T (snd x) = true \/ is_iface T (snd x) = false) -> instr_typed i
| ty_changeinterface : forall x, i_kind i = KChangeInterface -> i_ops i = [x] -> is_iface T (i_ty i) = true ->
    is_iface T (snd x) = true -> instr_typed i
| ty_makeclosure : forall fn binds, i_kind i = KMakeClosure -> i_ops i = fn :: binds ->
    (fst fn = VFn \/ exists a, fst fn = VA a) -> map snd binds = i_aux i -> instr_typed i
| ty_makemap : i_kind i = KMakeMap -> (core T (i_ty i) = 0 \/ ckind T (i_ty i) = TMap) -> instr_typed i
| ty_makechan : i_kind i = KMakeChan -> (core T (i_ty i) = 0 \/ ckind T (i_ty i) = TChan) -> instr_typed i
| ty_makeslice : forall l c, i_kind i = KMakeSlice -> i_ops i = [l; c] ->
    (core T (i_ty i) = 0 \/ ckind T (i_ty i) = TSlice) -> instr_typed i
| ty_alloc : i_kind i = KAlloc -> ckind T (i_ty i) = TPointer -> instr_typed i
| ty_slice : forall x lo hi mx, i_kind i = KSlice -> i_ops i = [x; lo; hi; mx] ->
    (core T (snd x) = 0 \/
     (is_string T (snd x) = true /\ is_string T (i_ty i) = true) \/
     (ckind T (snd x) = TSlice /\ ckind T (i_ty i) = TSlice /\ celem T (i_ty i) = celem T (snd x)) \/
     (ckind T (snd x) = TPointer /\ ckind T (celem T (snd x)) = TArray /\ ckind T (i_ty i) = TSlice /\
      celem T (i_ty i) = celem T (celem T (snd x)))) -> instr_typed i
| ty_typeassert : forall x c at_, i_kind i = KTypeAssert -> i_ops i = [x] -> i_aux i = [c; at_] ->
    is_iface T (snd x) = true -> value_or_commaok c (i_ty i) at_ -> instr_typed i
| ty_send : forall ch x, i_kind i = KSend -> i_ops i = [ch; x] ->
    (core T (snd ch) = 0 \/ (ckind T (snd ch) = TChan /\ snd x = celem T (snd ch))) -> instr_typed i
| ty_recv : forall ch, i_kind i = KRecv -> i_ops i = [ch] ->
    (core T (snd ch) = 0 \/
     exists c, i_aux i = [c] /\ ckind T (snd ch) = TChan /\ value_or_commaok c (i_ty i) (celem T (snd ch))) -> instr_typed i
| ty_mapupdate : forall m k v, i_kind i = KMapUpdate -> i_ops i = [m; k; v] ->
    (core T (snd m) = 0 \/ (ckind T (snd m) = TMap /\ snd k = ckey T (snd m) /\ snd v = celem T (snd m))) -> instr_typed i
| ty_panic : forall x, i_kind i = KPanic -> i_ops i = [x] -> is_iface T (snd x) = true -> instr_typed i
| ty_next : forall it a b c, i_kind i = KNext -> i_ops i = [it] -> t_kind (tget T (i_ty i)) = TTuple ->
    t_fields (tget T (i_ty i)) = [a; b; c] -> is_bool T a = true -> instr_typed i
| ty_range : forall x, i_kind i = KRange -> i_ops i = [x] ->
    (core T (snd x) = 0 \/ is_string T (snd x) = true \/ ckind T (snd x) = TMap) -> instr_typed i
| ty_stringlookup : forall x n, i_kind i = KStringLookup -> i_ops i = [x; n] ->
    (core T (snd x) = 0 \/ is_string T (snd x) = true) -> instr_typed i
| ty_slicetoarrayptr : forall x, i_kind i = KSliceToArrayPointer -> i_ops i = [x] ->
    (core T (snd x) = 0 \/ core T (i_ty i) = 0 \/
     (ckind T (snd x) = TSlice /\ ckind T (i_ty i) = TPointer /\ ckind T (celem T (i_ty i)) = TArray /\
      celem T (celem T (i_ty i)) = celem T (snd x))) -> instr_typed i
| ty_select : forall a b rest, i_kind i = KSelect -> t_kind (tget T (i_ty i)) = TTuple ->
    t_fields (tget T (i_ty i)) = a :: b :: rest -> is_integer T a = true -> is_bool T b = true -> instr_typed i
| ty_typeswitch : forall x, i_kind i = KTypeSwitch -> i_ops i = [x] -> is_iface T (snd x) = true -> instr_typed i
| ty_call_value : forall recv m, (i_kind i = KCall \/ i_kind i = KGo \/ i_kind i = KDefer) -> i_aux i = [0; recv; m] ->
    (core T (opty (i_ops i) 0) = 0 \/
     (ckind T (opty (i_ops i) 0) = TSig /\
      length (match i_kind i with KDefer => removelast (tl (i_ops i)) | _ => tl (i_ops i) end) =
        (length (t_params (tget T (core T (opty (i_ops i) 0)))) + (if N.eqb recv 0 then 0 else 1))%nat /\
      args_compatible (map snd (match i_kind i with KDefer => removelast (tl (i_ops i)) | _ => tl (i_ops i) end))
                      ((if N.eqb recv 0 then [] else [recv]) ++ t_params (tget T (core T (opty (i_ops i) 0)))) /\
      (i_kind i = KCall -> call_result (i_ty i) (t_results (tget T (core T (opty (i_ops i) 0))))))) -> instr_typed i
| ty_call_invoke : forall r msig, (i_kind i = KCall \/ i_kind i = KGo \/ i_kind i = KDefer) -> i_aux i = [1; r; msig] ->
    is_iface T (opty (i_ops i) 0) = true -> t_kind (tget T msig) = TSig ->
    length (match i_kind i with KDefer => removelast (tl (i_ops i)) | _ => tl (i_ops i) end) = length (t_params (tget T msig)) ->
    args_compatible (map snd (match i_kind i with KDefer => removelast (tl (i_ops i)) | _ => tl (i_ops i) end)) (t_params (tget T msig)) ->
    (i_kind i = KCall -> call_result (i_ty i) (t_results (tget T msig))) -> instr_typed i
| ty_call_builtin : forall a b, (i_kind i = KCall \/ i_kind i = KGo \/ i_kind i = KDefer) -> i_aux i = [2; a; b] -> instr_typed i
| ty_none : untyped_kind (i_kind i) -> instr_typed i.

(* ------------------------------------------------------------------ reflection helpers *)
Lemma tkind_eqb_eq : forall a b, tkind_eqb a b = true <-> a = b.
Proof. intros a b; split; [destruct a, b; simpl; intros H; try discriminate; reflexivity | intros ->; destruct b; reflexivity]. Qed.

Lemma is_kind_eq : forall id k, is_kind T id k = true <-> ckind T id = k.
Proof. intros; unfold is_kind; apply tkind_eqb_eq. Qed.

Lemma has_core_false : forall id, negb (has_core T id) = true <-> core T id = 0.
Proof. intros id; unfold has_core. rewrite negb_involutive. apply N.eqb_eq. Qed.

Lemma len1 : forall {A} (l : list A), Nat.eqb (length l) 1 = true -> exists a, l = [a].
Proof. intros A [|a [|b t]] H; try discriminate. now exists a. Qed.
Lemma len2 : forall {A} (l : list A), Nat.eqb (length l) 2 = true -> exists a b, l = [a; b].
Proof. intros A [|a [|b [|c t]]] H; try discriminate. now exists a, b. Qed.
Lemma len3 : forall {A} (l : list A), Nat.eqb (length l) 3 = true -> exists a b c, l = [a; b; c].
Proof. intros A [|a [|b [|c [|e t]]]] H; try discriminate. now exists a, b, c. Qed.
Lemma len4 : forall {A} (l : list A), Nat.eqb (length l) 4 = true -> exists a b c e, l = [a; b; c; e].
Proof. intros A [|a [|b [|c [|e [|x t]]]]] H; try discriminate. now exists a, b, c, e. Qed.

Lemma eq_list_eq : forall a b, eq_list a b = true -> a = b.
Proof.
  induction a as [|x a IH]; intros [|y b] H; try discriminate; [reflexivity|].
  simpl in H. apply andb_true_iff in H as [H1 H2]. apply N.eqb_eq in H1. f_equal; auto.
Qed.

Lemma commaok_spec : forall aux ty v,
  match aux with [0] => ty =? v | [_] => is_commaok T ty v | _ => false end = true ->
  exists c, aux = [c] /\ value_or_commaok c ty v.
Proof.
  intros [|c [|x t]] ty v H; try discriminate; [|destruct c; discriminate].
  exists c. split; [reflexivity|]. destruct c; [left; split; [reflexivity|now apply N.eqb_eq]|right; split; [discriminate|assumption]].
Qed.

Lemma call_result_spec : forall ty rs,
  match rs with [] => is_tuple_of T ty [] | [r] => ty =? r | r :: n :: l => is_tuple_of T ty (r :: n :: l) end = true ->
  call_result ty rs.
Proof.
  intros ty [|r [|r' t]] H; unfold call_result; try assumption. now apply N.eqb_eq.
Qed.

Lemma args_ok_sound : forall args params, args_ok T args params = true -> args_compatible args params.
Proof.
  induction args as [|a args IH]; intros [|p params] H; simpl in H; try discriminate; [constructor|].
  apply andb_true_iff in H as [Hc H]. constructor; [|now apply IH].
  unfold compat in Hc. unfold compatible.
  apply orb_true_iff in Hc as [Hc|Hc];
    [|right; right; right; apply andb_true_iff in Hc as [H1 H2]; apply N.eqb_eq in H1; apply orb_true_iff in H2; auto].
  apply orb_true_iff in Hc as [Hc|Hc]; [|right; right; left; now apply has_core_false].
  apply orb_true_iff in Hc as [Hc|Hc]; [left; now apply N.eqb_eq|right; left; now apply has_core_false].
Qed.

Ltac bsplit :=
  repeat match goal with
  | H : _ && _ = true |- _ => apply andb_true_iff in H; destruct H
  | H : (_ =? _) = true |- _ => apply N.eqb_eq in H
  | H : is_kind T _ _ = true |- _ => apply is_kind_eq in H
  end.


Ltac ops1 H x Eo := let Hl := fresh "Hl" in apply andb_true_iff in H as [Hl H]; destruct (len1 _ Hl) as (x & Eo);
                    try rewrite Eo in H; unfold opty in H; simpl in H.
Ltac ops2 H x y Eo := let Hl := fresh "Hl" in apply andb_true_iff in H as [Hl H]; destruct (len2 _ Hl) as (x & y & Eo);
                    try rewrite Eo in H; unfold opty in H; simpl in H.
Ltac kill H := simpl in H; repeat (match type of H with context [match ?v with _ => _ end] => is_var v; destruct v; simpl in H end); discriminate H.
Ltac nocore_or H := apply orb_true_iff in H as [H|H]; [left; now apply has_core_false|right].

Section Rules.
Variable i : instr.
Hypothesis H : type_ok T f i = true.

Lemma ok_alloc : i_kind i = KAlloc -> instr_typed i.
Proof. intros Ek. unfold type_ok in H; rewrite Ek in H. apply ty_alloc; [assumption|now apply is_kind_eq]. Qed.

Lemma ok_phi : i_kind i = KPhi -> instr_typed i.
Proof.
  intros Ek. unfold type_ok in H; rewrite Ek in H. apply ty_phi; [assumption|].
  intros op Hop. rewrite forallb_forall in H. now apply N.eqb_eq, H.
Qed.

Lemma ok_store : i_kind i = KStore -> instr_typed i.
Proof.
  intros Ek. unfold type_ok in H; rewrite Ek in H. ops2 H a v Eo. eapply ty_store; eauto.
  unfold points_to. nocore_or H. bsplit. auto.
Qed.

Lemma ok_load : i_kind i = KLoad -> instr_typed i.
Proof.
  intros Ek. unfold type_ok in H; rewrite Ek in H. ops1 H x Eo. eapply ty_load; eauto.
  unfold points_to. nocore_or H. bsplit. auto.
Qed.

Lemma ok_if : i_kind i = KIf -> instr_typed i.
Proof. intros Ek. unfold type_ok in H; rewrite Ek in H. ops1 H c Eo. eapply ty_if; eauto. Qed.

Lemma ok_binop : i_kind i = KBinOp -> instr_typed i.
Proof.
  intros Ek. unfold type_ok in H; rewrite Ek in H. ops2 H x y Eo.
  destruct (i_aux i) as [|c [|? ?]] eqn:Ea; [discriminate| |kill H].
  destruct c as [|[p|[p|p|]|]]; simpl in H; try discriminate.
  - bsplit. eapply ty_binop_arith; eauto.
  - apply andb_true_iff in H as [Hb Hc]. eapply ty_binop_compare; eauto.
    apply orb_true_iff in Hc as [Hc|Hc];
      [|right; right; right; right; apply andb_true_iff in Hc as [Hc1 Hc2]; apply N.eqb_eq in Hc1;
        apply orb_true_iff in Hc2; auto].
    apply orb_true_iff in Hc as [Hc|Hc]; [|right; right; right; left; bsplit; auto].
    apply orb_true_iff in Hc as [Hc|Hc]; [|right; right; left; now apply has_core_false].
    apply orb_true_iff in Hc as [Hc|Hc]; [left; now apply N.eqb_eq|right; left; now apply has_core_false].
  - bsplit. eapply ty_binop_shift; eauto.
Qed.

Lemma ok_unop : i_kind i = KUnOp -> instr_typed i.
Proof.
  intros Ek. unfold type_ok in H; rewrite Ek in H. apply ty_unop; [assumption|]. intros Ea. rewrite Ea in H.
  apply andb_true_iff in H as [Hl H]. destruct (len1 _ Hl) as (x & Eo). exists x. split; [assumption|].
  rewrite Eo in H. unfold opty in H; simpl in H. now apply N.eqb_eq.
Qed.

Lemma ok_fieldaddr : i_kind i = KFieldAddr -> instr_typed i.
Proof.
  intros Ek. unfold type_ok in H; rewrite Ek in H. ops1 H x Eo. eapply ty_fieldaddr; eauto.
  nocore_or H. bsplit. destruct (i_aux i) as [|k [|? ?]] eqn:Ea; try discriminate.
  destruct (nth_error (cfields T (celem T (snd x))) (N.to_nat k)) as [ft|] eqn:En; [|discriminate]. bsplit.
  exists k. repeat split; auto. congruence.
Qed.

Lemma ok_field : i_kind i = KField -> instr_typed i.
Proof.
  intros Ek. unfold type_ok in H; rewrite Ek in H. ops1 H x Eo. eapply ty_field; eauto.
  nocore_or H. bsplit. destruct (i_aux i) as [|k [|? ?]] eqn:Ea; try discriminate.
  destruct (nth_error (cfields T (snd x)) (N.to_nat k)) as [ft|] eqn:En; [|discriminate]. bsplit.
  exists k. repeat split; auto. congruence.
Qed.

Lemma ok_indexaddr : i_kind i = KIndexAddr -> instr_typed i.
Proof.
  intros Ek. unfold type_ok in H; rewrite Ek in H. ops2 H x n Eo. eapply ty_indexaddr; eauto.
  nocore_or H. bsplit. split; [assumption|].
  destruct (ckind T (snd x)) eqn:Ec; try discriminate; bsplit.
  - right. auto.
  - left. auto.
  - left. auto.
Qed.

Lemma ok_index : i_kind i = KIndex -> instr_typed i.
Proof.
  intros Ek. unfold type_ok in H; rewrite Ek in H. ops2 H x n Eo. eapply ty_index; eauto.
  intros Ec. rewrite Ec in H. now apply N.eqb_eq.
Qed.

Lemma ok_maplookup : i_kind i = KMapLookup -> instr_typed i.
Proof.
  intros Ek. unfold type_ok in H; rewrite Ek in H. ops2 H m k Eo. eapply ty_maplookup; eauto.
  nocore_or H. bsplit.
  match goal with Hc : match i_aux i with _ => _ end = true |- _ => destruct (commaok_spec _ _ _ Hc) as (c & Ea & Hcc) end.
  exists c. auto.
Qed.

Lemma ok_extract : i_kind i = KExtract -> instr_typed i.
Proof.
  intros Ek. unfold type_ok in H; rewrite Ek in H. apply andb_true_iff in H as [H H2]. ops1 H t Eo.
  destruct (i_aux i) as [|k [|? ?]] eqn:Ea; try discriminate. rewrite Eo in H2. unfold opty in H2; simpl in H2.
  destruct (nth_error (t_fields (tget T (snd t))) (N.to_nat k)) as [ft|] eqn:En; [|discriminate]. bsplit.
  eapply ty_extract; eauto; [now apply tkind_eqb_eq|congruence].
Qed.

Lemma ok_return : i_kind i = KReturn -> instr_typed i.
Proof. intros Ek. unfold type_ok in H; rewrite Ek in H. apply ty_return; [assumption|now apply eq_list_eq]. Qed.

Lemma ok_makeinterface : i_kind i = KMakeInterface -> instr_typed i.
Proof.
  intros Ek. unfold type_ok in H; rewrite Ek in H. apply andb_true_iff in H as [H H3]. ops1 H x Eo.
  rewrite Eo in H3. unfold opty in H3; simpl in H3.
  eapply ty_makeinterface; eauto. apply orb_true_iff in H3 as [H3|H3]; [now left|right; now apply negb_true_iff].
Qed.

Lemma ok_changeinterface : i_kind i = KChangeInterface -> instr_typed i.
Proof.
  intros Ek. unfold type_ok in H; rewrite Ek in H. apply andb_true_iff in H as [H H3]. ops1 H x Eo.
  rewrite Eo in H3. unfold opty in H3; simpl in H3. eapply ty_changeinterface; eauto.
Qed.

Lemma ok_makeclosure : i_kind i = KMakeClosure -> instr_typed i.
Proof.
  intros Ek. unfold type_ok in H; rewrite Ek in H.
  destruct (i_ops i) as [|[v t] binds] eqn:Eo; [discriminate|]. destruct v; try discriminate.
  - eapply ty_makeclosure; [assumption|exact Eo|right; now exists i0|now apply eq_list_eq].
  - eapply ty_makeclosure; [assumption|exact Eo|now left|now apply eq_list_eq].
Qed.

Lemma ok_makemap : i_kind i = KMakeMap -> instr_typed i.
Proof. intros Ek. unfold type_ok in H; rewrite Ek in H. apply ty_makemap; [assumption|]. nocore_or H. now apply is_kind_eq. Qed.
Lemma ok_makechan : i_kind i = KMakeChan -> instr_typed i.
Proof. intros Ek. unfold type_ok in H; rewrite Ek in H. apply ty_makechan; [assumption|]. nocore_or H. now apply is_kind_eq. Qed.
Lemma ok_makeslice : i_kind i = KMakeSlice -> instr_typed i.
Proof.
  intros Ek. unfold type_ok in H; rewrite Ek in H. apply andb_true_iff in H as [Hl H]. destruct (len2 _ Hl) as (l & c & Eo).
  eapply ty_makeslice; eauto. nocore_or H. now apply is_kind_eq.
Qed.

Lemma ok_slice : i_kind i = KSlice -> instr_typed i.
Proof.
  intros Ek. unfold type_ok in H; rewrite Ek in H. apply andb_true_iff in H as [Hl H].
  destruct (len4 _ Hl) as (x & lo & hi & mx & Eo). rewrite Eo in H. unfold opty in H; simpl in H.
  eapply ty_slice; eauto. nocore_or H.
  destruct (ckind T (snd x)) eqn:Ec; try discriminate; bsplit.
  - left. auto.
  - right; right. auto.
  - right; left. auto.
Qed.

Lemma ok_typeassert : i_kind i = KTypeAssert -> instr_typed i.
Proof.
  intros Ek. unfold type_ok in H; rewrite Ek in H. apply andb_true_iff in H as [H H3]. apply andb_true_iff in H as [Hl H].
  destruct (len1 _ Hl) as (x & Eo). rewrite Eo in H. unfold opty in H; simpl in H.
  destruct (i_aux i) as [|c [|at_ [|? ?]]] eqn:Ea; try discriminate; try (destruct c; discriminate).
  eapply ty_typeassert; eauto. destruct c; [left; split; [reflexivity|now apply N.eqb_eq]|right; split; [discriminate|assumption]].
Qed.

Lemma ok_send : i_kind i = KSend -> instr_typed i.
Proof.
  intros Ek. unfold type_ok in H; rewrite Ek in H. ops2 H ch x Eo. eapply ty_send; eauto. nocore_or H. bsplit. auto.
Qed.

Lemma ok_recv : i_kind i = KRecv -> instr_typed i.
Proof.
  intros Ek. unfold type_ok in H; rewrite Ek in H. ops1 H ch Eo. eapply ty_recv; eauto.
  nocore_or H. bsplit.
  match goal with Hc : match i_aux i with _ => _ end = true |- _ => destruct (commaok_spec _ _ _ Hc) as (c & Ea & Hcc) end.
  exists c. auto.
Qed.

Lemma ok_mapupdate : i_kind i = KMapUpdate -> instr_typed i.
Proof.
  intros Ek. unfold type_ok in H; rewrite Ek in H. apply andb_true_iff in H as [Hl H].
  destruct (len3 _ Hl) as (m & k & v & Eo). rewrite Eo in H. unfold opty in H; simpl in H.
  eapply ty_mapupdate; eauto. nocore_or H. bsplit. auto.
Qed.

Lemma ok_panic : i_kind i = KPanic -> instr_typed i.
Proof. intros Ek. unfold type_ok in H; rewrite Ek in H. ops1 H x Eo. eapply ty_panic; eauto. Qed.

Lemma ok_next : i_kind i = KNext -> instr_typed i.
Proof.
  intros Ek. unfold type_ok in H; rewrite Ek in H. apply andb_true_iff in H as [H H3]. apply andb_true_iff in H as [Hl H].
  destruct (len1 _ Hl) as (x & Eo).
  destruct (t_fields (tget T (i_ty i))) as [|a [|b [|c [|? ?]]]] eqn:Ef; try discriminate.
  eapply ty_next; eauto. now apply tkind_eqb_eq.
Qed.

Lemma ok_range : i_kind i = KRange -> instr_typed i.
Proof.
  intros Ek. unfold type_ok in H; rewrite Ek in H. ops1 H x Eo. eapply ty_range; eauto.
  apply orb_true_iff in H as [H|H]; [apply orb_true_iff in H as [H|H]; [left; now apply has_core_false|right; now left]|].
  right; right. now apply is_kind_eq.
Qed.

Lemma ok_stringlookup : i_kind i = KStringLookup -> instr_typed i.
Proof. intros Ek. unfold type_ok in H; rewrite Ek in H. ops2 H x n Eo. eapply ty_stringlookup; eauto. nocore_or H. assumption. Qed.

Lemma ok_slicetoarrayptr : i_kind i = KSliceToArrayPointer -> instr_typed i.
Proof.
  intros Ek. unfold type_ok in H; rewrite Ek in H. ops1 H x Eo. eapply ty_slicetoarrayptr; eauto.
  apply orb_true_iff in H as [H|H]; [apply orb_true_iff in H as [H|H]; [left|right; left]; now apply has_core_false|].
  right; right. bsplit. auto.
Qed.

Lemma ok_select : i_kind i = KSelect -> instr_typed i.
Proof.
  intros Ek. unfold type_ok in H; rewrite Ek in H. apply andb_true_iff in H as [H1 H2].
  destruct (t_fields (tget T (i_ty i))) as [|a [|b rest]] eqn:Ef; try discriminate. bsplit.
  eapply ty_select; eauto. now apply tkind_eqb_eq.
Qed.

Lemma ok_typeswitch : i_kind i = KTypeSwitch -> instr_typed i.
Proof. intros Ek. unfold type_ok in H; rewrite Ek in H. ops1 H x Eo. eapply ty_typeswitch; eauto. Qed.

Ltac bsplit2 :=
  repeat match goal with
  | Hx : _ && _ = true |- _ => apply andb_true_iff in Hx; destruct Hx
  | Hx : is_kind T _ _ = true |- _ => apply is_kind_eq in Hx
  | Hx : Nat.eqb _ _ = true |- _ => apply Nat.eqb_eq in Hx
  | Hx : tkind_eqb _ _ = true |- _ => apply tkind_eqb_eq in Hx
  end.

Lemma ok_call : (i_kind i = KCall \/ i_kind i = KGo \/ i_kind i = KDefer) -> instr_typed i.
Proof.
  intros Ek0. assert (Ek := Ek0).
  destruct Ek as [Ek|[Ek|Ek]]; unfold type_ok in H; rewrite Ek in H; cbv zeta in H;
  (destruct (i_aux i) as [|m [|recv [|ms [|? ?]]]] eqn:Ea; try (kill H));
  (destruct m as [|[p|[p|p|]|]]; simpl in H; try discriminate H);
  try (eapply ty_call_builtin; eauto; fail).
  all: try (eapply ty_call_value; [exact Ek0|exact Ea|]; rewrite Ek;
            apply orb_true_iff in H as [H|H]; [left; now apply has_core_false|right]; bsplit2;
            repeat split; auto; try (now apply args_ok_sound); try (intros _; now apply call_result_spec); try (intros EK; discriminate EK); fail).
  all: bsplit2; eapply ty_call_invoke; [exact Ek0|exact Ea|assumption|assumption|rewrite Ek; assumption|rewrite Ek; now apply args_ok_sound|];
       try (intros _; now apply call_result_spec); try (intros EK; rewrite Ek in EK; discriminate EK).
Qed.

End Rules.

(* The boolean typing check implies the declarative judgement. *)
Theorem type_ok_sound : forall i, type_ok T f i = true -> instr_typed i.
Proof.
  intros i H. destruct (i_kind i) eqn:Ek;
    try (apply ty_none; rewrite Ek; exact I);
    first [ now apply ok_unop | now apply ok_alloc | now apply ok_phi | apply ok_call; auto; fail | now apply ok_binop | now apply ok_load
          | now apply ok_changeinterface | now apply ok_slicetoarrayptr | now apply ok_makeinterface | now apply ok_makeclosure
          | now apply ok_makemap | now apply ok_makechan | now apply ok_makeslice | now apply ok_slice | now apply ok_fieldaddr
          | now apply ok_field | now apply ok_indexaddr | now apply ok_index | now apply ok_maplookup | now apply ok_stringlookup
          | now apply ok_select | now apply ok_range | now apply ok_next | now apply ok_typeassert | now apply ok_extract
          | now apply ok_typeswitch | now apply ok_if | now apply ok_return | now apply ok_panic | now apply ok_send
          | now apply ok_recv | now apply ok_store | now apply ok_mapupdate ].
Qed.
End Typing.
