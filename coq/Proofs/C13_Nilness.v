(* C13 — the nilness lattice (regenerated table) satisfies the semilattice laws; rank function. Finite:
   every lemma here is decided by computation on Gen/C13_NilnessTable.v and re-checked on every run. *)
From Coq Require Import List Arith Bool Lia NArith.
Import ListNotations.
Require Import Verif.Model.C13 Verif.Gen.C13_NilnessTable Verif.Model.C13_Nilness Verif.Proofs.C13 Verif.Proofs.C13_Lattices.

Lemma nil_eqb_eq a b : nil_eqb a b = true <-> a = b.
Proof. destruct a, b; simpl; split; intros; try discriminate; auto. Qed.

Lemma nilness_laws_finite : laws_b NilSemilattice all_nilness = true.
Proof. vm_compute. reflexivity. Qed.

Lemma nilness_table_shape : table_shape_ok = true.
Proof. vm_compute. reflexivity. Qed.

Global Instance NilLaws : @SemilatticeLaws nilness NilSemilattice.
Proof.
  split; simpl.
  - intros a. apply nil_eqb_eq. reflexivity.
  - intros a b H. apply nil_eqb_eq in H. apply nil_eqb_eq. auto.
  - intros a b c H1 H2. apply nil_eqb_eq in H1, H2. apply nil_eqb_eq. congruence.
  - intros a a' b b' H1 H2. apply nil_eqb_eq in H1, H2. subst. apply nil_eqb_eq. reflexivity.
  - intros a b c. destruct a, b, c; vm_compute; reflexivity.
  - intros a b. destruct a, b; vm_compute; reflexivity.
  - intros a. destruct a; vm_compute; reflexivity.
  - intros a. destruct a; vm_compute; reflexivity.
Qed.

Global Instance VNLaws : @SemilatticeLaws vn VNSemilattice := ProdLaws.
Global Instance NilStateLaws : @SemilatticeLaws (list vn) NilStateSemilattice := DenseMapLaws.

(* number of elements strictly below the top element; any strictly monotone bounded rank serves *)
Definition nil_height : nat := 4.

Lemma nil_rank_bound a : nil_rank a <= nil_height.
Proof. destruct a; vm_compute; lia. Qed.

Lemma nil_rank_strict a b : leq a b -> eqv b a = false -> nil_rank a < nil_rank b.
Proof.
  destruct a, b; vm_compute; intros H1 H2; try discriminate; lia.
Qed.

Definition vn_rank (v : vn) : nat := nil_rank (fst v) + nil_rank (snd v).

Lemma vn_rank_bound v : vn_rank v <= 2 * nil_height.
Proof. unfold vn_rank. pose proof (nil_rank_bound (fst v)). pose proof (nil_rank_bound (snd v)). lia. Qed.

Lemma vn_rank_strict (a b : vn) : leq a b -> eqv b a = false -> vn_rank a < vn_rank b.
Proof.
  destruct a as [a1 a2], b as [b1 b2]. unfold leq, leqb, vn_rank. simpl.
  intros H1 H2. apply andb_true_iff in H1. destruct H1 as [L1 L2].
  apply andb_false_iff in H2.
  assert (M1 : nil_rank a1 <= nil_rank b1).
  { destruct (nil_eqb b1 a1) eqn:E.
    - apply nil_eqb_eq in E. subst. lia.
    - pose proof (nil_rank_strict a1 b1 L1 E). lia. }
  assert (M2 : nil_rank a2 <= nil_rank b2).
  { destruct (nil_eqb b2 a2) eqn:E.
    - apply nil_eqb_eq in E. subst. lia.
    - pose proof (nil_rank_strict a2 b2 L2 E). lia. }
  destruct H2 as [E | E].
  - pose proof (nil_rank_strict a1 b1 L1 E). lia.
  - pose proof (nil_rank_strict a2 b2 L2 E). lia.
Qed.
