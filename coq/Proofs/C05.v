(* C05: facts that need a concrete hash function (the theorems of Proofs/C05_FS.v are generic in H):
   the refutation of soundness when a data file is truncated WHILE a writer holds it open, and the
   corollaries stated in Props/C05.v. *)
From Coq Require Import List NArith ZArith Bool Arith Lia ZifyBool ZifyNat ZifyN.
Import ListNotations.
Require Import Verif.Model.C05_Types Verif.Model.C05_Codec Verif.Model.C05_FS.
Require Import Verif.Proofs.C05_Codec Verif.Proofs.C05_FSLemmas Verif.Proofs.C05_FS.
Open Scope N_scope.

(* a hash function with exactly two values: collision-free on the single stored content [1;2;3] *)
Definition x123 : list N := [1; 2; 3].
Definition H2 (x : list N) : list N := if bytes_eqb x x123 then repeat 1 32 else repeat 2 32.
Definition k5 : list N := repeat 5 32.

Lemma H2_wf : forall x, wf_id (H2 x).
Proof.
  intro x. unfold H2. destruct (bytes_eqb x x123); (split; [reflexivity |]); repeat constructor.
Qed.

Lemma H2_cf : forall k, H_cf_on H2 [(k, x123)].
Proof.
  intros k x y Hx Hy. cbn in Hx. destruct Hx as [<- | []].
  unfold H2 in Hy. rewrite list_eqb_N_refl in Hy.
  destruct (bytes_eqb y x123) eqn:E; [apply bytes_eqb_eq; auto | discriminate].
Qed.

Definition c1 : choice := mkCh 1000 1700000000000000000 1 (FA []) false.

(* one writer; the data file is truncated to 0 after two of its three bytes were written; the writer goes on,
   commits; GetFile then returns the path of a full-size file whose content was never stored *)
Definition refute_trace : list label :=
  [LSpawn (OpPut k5 x123)] ++ repeat (LStep 0 c1) 4 ++ [LTruncAny (FD (H2 x123)) 0 1000] ++
  repeat (LStep 0 c1) 8 ++ [LSpawn (OpGetFile k5)] ++ repeat (LStep 1 c1) 5.

Definition refute_final : option state := Eval vm_compute in exec H2 init_state refute_trace.

Theorem midwrite_truncate_refuted_proof :
  exists (H : list N -> list N) (ls : list label) (s : state) (p : nat) (k o : list N) (sz : N) (y : list N),
    (forall x, wf_id (H x)) /\ exec H init_state ls = Some s /\ H_cf_on H (st_stored s) /\
    (* every label but one respects the premise; that one truncates a file held open by the writer *)
    length (filter (fun l => negb (label_ok l)) ls) = 1%nat /\
    nth_error (st_procs s) p = Some (PDone (RFile k o sz (Some y))) /\
    ~ In (k, y) (st_stored s).
Proof.
  destruct refute_final as [s |] eqn:E; [| discriminate E].
  exists H2, refute_trace, s, 1%nat, k5, (H2 x123), 3, [0; 0; 3].
  unfold refute_final in E. inversion E; subst s. clear E.
  split; [exact H2_wf |]. split; [vm_compute; reflexivity |].
  split; [apply H2_cf |]. split; [reflexivity |]. split; [reflexivity |].
  cbn [st_stored]. intros [Hin | []]. inversion Hin.
Qed.

(* ---- corollaries in the shape used by Props ---- *)
Section Cor.
Variable H : list N -> list N.
Hypothesis H_wf : forall x, wf_id (H x).

(* external truncation (no process holds the file) and removal of any cache file preserve the invariant *)
Theorem trunc_delete_safe_proof : forall s p n now s',
  Inv H s -> H_cf_on H (st_stored s) ->
  (step H s (LTrunc p n now) = Some s' \/ step H s (LDelete p) = Some s') -> Inv H s'.
Proof.
  intros s p n now s' Hi Hcf [Hs | Hs].
  - apply (inv_step_proof H H_wf s (LTrunc p n now) s' Hi eq_refl Hs). rewrite (step_stored H _ _ _ Hs). exact Hcf.
  - apply (inv_step_proof H H_wf s (LDelete p) s' Hi eq_refl Hs). rewrite (step_stored H _ _ _ Hs). exact Hcf.
Qed.

(* whatever can be read at the path <H x>-d, at any time, is a prefix of x *)
Theorem data_path_prefix_proof : forall s k x d,
  Inv H s -> H_cf_on H (st_stored s) -> In (k, x) (st_stored s) ->
  read_path (st_fs s) (FD (H x)) = Some d -> prefix d x.
Proof.
  intros s k x d (Hn & Hf & _) Hcf Hin Hr.
  destruct (read_path_lookup _ _ _ Hr) as (j & f & Hl & Hg & Hd). subst d.
  destruct (Hn _ _ Hl) as (f0 & Hf0 & Ho). assert (f0 = f) by congruence. subst f0.
  eapply (dfile_prefix H); eauto. apply H_cf_inj. auto.
Qed.
End Cor.
