(* C05 proofs: assembled from Proofs/C05_Codec.v and Proofs/C05_FS.v *)
Require Import Verif.Model.C05_Types Verif.Model.C05_Codec Verif.Model.C05_FS.
