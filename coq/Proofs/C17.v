(* C17 — U1000 verdicts are order-independent, monotone, merged over variants: proofs. *)
From Coq Require Import String List NArith PArith Bool Lia Arith Permutation.
From Coq Require Import ZifyBool ZifyNat ZifyN.
Import ListNotations.
Require Import Verif.Model.C17_Graph Verif.Model.C17_Merge Verif.Model.C17_Check Verif.Proofs.C17_Graph.
Open Scope N_scope.

(* ================================================================== graph part *)

Lemma verdict_ext : forall g1 g2 x1 x2,
  (seen g1 x1 <-> seen g2 x2) -> (quiet g1 x1 <-> quiet g2 x2) -> verdict g1 x1 = verdict g2 x2.
Proof.
  intros g1 g2 x1 x2 Hs Hq.
  destruct (verdict_spec g1 x1) as (U1 & Q1 & N1). destruct (verdict_spec g2 x2) as (U2 & Q2 & N2).
  destruct (verdict g1 x1) eqn:E1.
  - symmetry. apply U2, Hs, U1. reflexivity.
  - symmetry. apply Q2. destruct (proj1 Q1 eq_refl). tauto.
  - symmetry. apply N2. destruct (proj1 N1 eq_refl). tauto.
Qed.

(* ---- homomorphisms: adding use edges (and renaming nodes) never shrinks the seen set ---- *)
Record hom (g1 g2 : graph) (f : node -> node) : Prop := {
  hom_root : f 0 = 0;
  hom_range : forall x, x < gn g1 -> f x < gn g2;
  hom_uses : forall x y, x < gn g1 -> y < gn g1 -> In y (guses g1 x) -> In (f y) (guses g2 (f x))
}.

Theorem monotone_general : forall g1 g2 f, hom g1 g2 f ->
  forall x, seen g1 x -> seen g2 (f x).
Proof.
  intros g1 g2 f [Hr Hg Hu] x H. unfold seen in *.
  apply (reachN_hom (gn g1) (gn g2) (guses g1) (guses g2) (eq 0) (eq 0) f); auto.
  intros y <- _. symmetry; exact Hr.
Qed.

Corollary used_monotone : forall g1 g2 f, hom g1 g2 f ->
  forall x, verdict g1 x = Used -> verdict g2 (f x) = Used.
Proof.
  intros g1 g2 f H x Hx. apply verdict_spec. eapply monotone_general; eauto. apply verdict_spec. exact Hx.
Qed.

(* the graph with one more use edge a -> b *)
Definition add_use (g : graph) (a b : node) : graph :=
  mkGraph (gn g) (fun x => if x =? a then b :: guses g x else guses g x) (gowns g).

Lemma add_use_hom : forall g a b, hom g (add_use g a b) (fun x => x).
Proof.
  intros g a b. split; auto. intros x y _ _ H. cbn. destruct (x =? a); [right|]; exact H.
Qed.

(* adding a reference (from used code or from anywhere) never turns a used object into an unused one *)
Theorem verdict_monotone : forall g a b x, seen g x -> seen (add_use g a b) x.
Proof. intros g a b x H. exact (monotone_general g (add_use g a b) (fun y => y) (add_use_hom g a b) x H). Qed.

(* and a reference added inside code that is NOT used changes nothing *)
Theorem unused_edge_irrelevant : forall g a b, ~ seen g a -> forall x, seen (add_use g a b) x <-> seen g x.
Proof.
  intros g a b Hna x. split; [|apply verdict_monotone].
  unfold seen. cbn [add_use gn guses]. intros H. induction H as [y <- Hy | y z _ IH Hz Hzn].
  - apply reach_src; auto.
  - cbn in Hz. destruct (y =? a) eqn:E.
    + exfalso. apply Hna. assert (y = a) by lia. subst. exact IH.
    + eapply reach_step; eauto.
Qed.

(* ---- isomorphisms: verdicts depend only on the labelled edge SETS ---- *)
Record iso (g1 g2 : graph) (f finv : node -> node) : Prop := {
  iso_root : f 0 = 0;
  iso_range : forall x, x < gn g1 -> f x < gn g2;
  iso_range' : forall y, y < gn g2 -> finv y < gn g1;
  iso_inv1 : forall x, x < gn g1 -> finv (f x) = x;
  iso_inv2 : forall y, y < gn g2 -> f (finv y) = y;
  iso_uses : forall x y, x < gn g1 -> y < gn g1 -> (In y (guses g1 x) <-> In (f y) (guses g2 (f x)));
  iso_owns : forall x y, x < gn g1 -> y < gn g1 -> (In y (gowns g1 x) <-> In (f y) (gowns g2 (f x)))
}.

Lemma iso_finv_root : forall g1 g2 f finv, iso g1 g2 f finv -> 0 < gn g2 -> finv 0 = 0.
Proof.
  intros g1 g2 f finv [Hr Hg Hg' H1 H2 Hu Ho] H0.
  pose proof (Hg' 0 H0) as Hlt. assert (H01 : 0 < gn g1) by lia.
  rewrite <- Hr at 1. apply H1. exact H01.
Qed.

Lemma iso_uses_inv : forall g1 g2 f finv, iso g1 g2 f finv ->
  forall x y, x < gn g2 -> y < gn g2 -> In y (guses g2 x) -> In (finv y) (guses g1 (finv x)).
Proof.
  intros g1 g2 f finv [Hr Hg Hg' H1 H2 Hu Ho] x y Hx Hy H.
  apply (Hu (finv x) (finv y)); auto. rewrite !H2 by auto. exact H.
Qed.
Lemma iso_owns_inv : forall g1 g2 f finv, iso g1 g2 f finv ->
  forall x y, x < gn g2 -> y < gn g2 -> In y (gowns g2 x) -> In (finv y) (gowns g1 (finv x)).
Proof.
  intros g1 g2 f finv [Hr Hg Hg' H1 H2 Hu Ho] x y Hx Hy H.
  apply (Ho (finv x) (finv y)); auto. rewrite !H2 by auto. exact H.
Qed.

Lemma iso_seen : forall g1 g2 f finv, iso g1 g2 f finv ->
  forall x, x < gn g1 -> (seen g1 x <-> seen g2 (f x)).
Proof.
  intros g1 g2 f finv I x Hx. pose proof I as [Hr Hg Hg' H1 H2 Hu Ho]. split.
  - apply monotone_general. split; auto. intros a b Ha Hb. apply Hu; auto.
  - intros H. unfold seen in *.
    pose proof (reachN_hom (gn g2) (gn g1) (guses g2) (guses g1) (eq 0) (eq 0) finv Hg') as L.
    rewrite <- (H1 x Hx). apply L; auto.
    + intros y <- H0. symmetry. eapply iso_finv_root; eauto.
    + intros a b Ha Hb. eapply iso_uses_inv; eauto.
Qed.

Lemma iso_seen_inv : forall g1 g2 f finv, iso g1 g2 f finv ->
  forall y, y < gn g2 -> (seen g2 y <-> seen g1 (finv y)).
Proof.
  intros g1 g2 f finv I y Hy. pose proof I as [Hr Hg Hg' H1 H2 Hu Ho].
  rewrite (iso_seen g1 g2 f finv I (finv y)) by auto. rewrite H2 by auto. tauto.
Qed.

Lemma iso_quiet : forall g1 g2 f finv, iso g1 g2 f finv ->
  forall x, x < gn g1 -> (quiet g1 x <-> quiet g2 (f x)).
Proof.
  intros g1 g2 f finv I x Hx. pose proof I as [Hr Hg Hg' H1 H2 Hu Ho]. unfold quiet. split.
  - apply (reachN_hom (gn g1) (gn g2) (gowns g1) (gowns g2) (quiet_src g1) (quiet_src g2) f); auto.
    + intros y (u & Hu1 & Hns & Hy) Hyn. exists (f u). split; [auto|]. split.
      * intros Hs. apply Hns. apply (iso_seen g1 g2 f finv I u Hu1). exact Hs.
      * apply Ho; auto.
    + intros a b Ha Hb. apply Ho; auto.
  - intros H. rewrite <- (H1 x Hx).
    apply (reachN_hom (gn g2) (gn g1) (gowns g2) (gowns g1) (quiet_src g2) (quiet_src g1) finv); auto.
    + intros y (u & Hu1 & Hns & Hy) Hyn. exists (finv u). split; [auto|]. split.
      * intros Hs. apply Hns. apply (iso_seen_inv g1 g2 f finv I u Hu1). exact Hs.
      * eapply iso_owns_inv; eauto.
    + intros a b Ha Hb. eapply iso_owns_inv; eauto.
Qed.

(* renumbering by a bijection that fixes the root, with the same edge sets: same verdicts *)
Theorem verdict_iso_invariant : forall g1 g2 f finv, iso g1 g2 f finv ->
  forall x, x < gn g1 -> verdict g2 (f x) = verdict g1 x.
Proof.
  intros g1 g2 f finv I x Hx. symmetry. apply verdict_ext.
  - eapply iso_seen; eauto.
  - eapply iso_quiet; eauto.
Qed.

(* same node numbering, adjacency lists with the same elements (any order, any multiplicity) *)
Definition same_edge_sets (g1 g2 : graph) : Prop :=
  gn g1 = gn g2 /\
  (forall x y, In y (guses g1 x) <-> In y (guses g2 x)) /\
  (forall x y, In y (gowns g1 x) <-> In y (gowns g2 x)).

Theorem verdict_perm_invariant : forall g1 g2, same_edge_sets g1 g2 ->
  forall x, verdict g1 x = verdict g2 x.
Proof.
  intros g1 g2 (Hn & Hu & Ho) x.
  assert (I : iso g1 g2 (fun a => a) (fun a => a)).
  { split; auto; try (intros; lia). }
  destruct (N.ltb_spec x (gn g1)) as [Hx|Hx].
  - symmetry. apply (verdict_iso_invariant g1 g2 _ _ I x Hx).
  - (* ids outside the graph are Unused in both *)
    apply verdict_ext.
    + split; intros H; apply reachN_lt in H; lia.
    + split; intros H; apply reachN_lt in H; lia.
Qed.

Corollary verdict_Permutation_invariant : forall g1 g2, gn g1 = gn g2 ->
  (forall x, Permutation (guses g1 x) (guses g2 x)) -> (forall x, Permutation (gowns g1 x) (gowns g2 x)) ->
  forall x, verdict g1 x = verdict g2 x.
Proof.
  intros g1 g2 Hn Hu Ho. apply verdict_perm_invariant. split; [exact Hn|]. split; intros x y; split;
    apply Permutation_in; auto using Permutation_sym.
Qed.

(* every edge recorded twice (the analysis repeated into the same graph): nothing changes *)
Definition dup (g : graph) : graph :=
  mkGraph (gn g) (fun x => guses g x ++ guses g x) (fun x => gowns g x ++ gowns g x).
Corollary verdict_dup_invariant : forall g x, verdict (dup g) x = verdict g x.
Proof.
  intros g x. symmetry. apply verdict_perm_invariant. split; [reflexivity|]. split; intros a b; cbn;
    rewrite in_app_iff; tauto.
Qed.

(* idempotence of the colouring: making the root use everything that was found used changes no verdict *)
Definition mark (g : graph) : graph :=
  mkGraph (gn g) (fun x => if x =? 0 then guses g x ++ filter (seenb g) (all_nodes (gn g)) else guses g x) (gowns g).

Lemma mark_seen : forall g x, seen (mark g) x <-> seen g x.
Proof.
  intros g x. split.
  - unfold seen. cbn [mark gn guses]. intros H. induction H as [y <- Hy | y z _ IH Hz Hzn].
    + apply reach_src; auto.
    + destruct (y =? 0) eqn:E.
      * apply in_app_iff in Hz. destruct Hz as [Hz|Hz].
        -- assert (y = 0) by lia. subst. eapply reach_step; eauto.
        -- apply filter_In in Hz. apply seenb_iff. apply Hz.
      * eapply reach_step; eauto.
  - apply (monotone_general g (mark g) (fun a => a)). split; auto.
    intros a b _ _ H. cbn. destruct (a =? 0); [apply in_app_iff; left|]; exact H.
Qed.

Theorem verdict_idempotent : forall g x, verdict (mark g) x = verdict g x.
Proof.
  intros g x. apply verdict_ext; [apply mark_seen|].
  unfold quiet. cbn [mark gn gowns].
  split; intro H; (eapply reachN_src_mono; [|exact H]); intros y (u & Hu & Hns & Hy) _; exists u;
    (split; [exact Hu|]); (split; [|exact Hy]); intros Hs; apply Hns; apply mark_seen; exact Hs.
Qed.

(* ---- boolean checkers used on exported graphs are sound for the hypotheses above ---- *)
Lemma memN_iff : forall x l, memN x l = true <-> In x l.
Proof.
  intros x l. unfold memN. rewrite existsb_exists. split.
  - intros (y & Hy & E). apply N.eqb_eq in E. subst. exact Hy.
  - intros H. exists x. split; [exact H|apply N.eqb_refl].
Qed.

Lemma pif_range : forall pi n2 x, forallb (fun y => y <? n2) pi = true ->
  (N.to_nat x < length pi)%nat -> pif pi x < n2.
Proof.
  intros pi n2 x H Hx. rewrite forallb_forall in H. unfold pif.
  assert (In (nth (N.to_nat x) pi 0) pi) by (apply nth_In; exact Hx). apply H in H0. lia.
Qed.

Lemma sub_edges_sound : forall c1 c2 pi, sub_edges_b c1 c2 pi = true ->
  forall x y, x < N.of_nat (length c1) ->
    (In y (cuses c1 x) -> In (pif pi y) (cuses c2 (pif pi x))) /\
    (In y (cowns c1 x) -> In (pif pi y) (cowns c2 (pif pi x))).
Proof.
  intros c1 c2 pi H x y Hx. unfold sub_edges_b in H. rewrite forallb_forall in H.
  specialize (H x (proj2 (in_all_nodes _ x) Hx)). apply andb_true_iff in H. destruct H as (Hu & Ho).
  rewrite forallb_forall in Hu, Ho. split; intros Hy; apply memN_iff; auto.
Qed.

Theorem hom_b_sound : forall c1 c2 pi, hom_b c1 c2 pi = true ->
  hom (of_cgraph c1) (of_cgraph c2) (pif pi).
Proof.
  intros c1 c2 pi H. unfold hom_b in H. repeat (apply andb_true_iff in H; destruct H as (H & ?)).
  apply Nat.eqb_eq in H. split; cbn [of_cgraph gn guses].
  - lia.
  - intros x Hx. apply pif_range; [assumption|lia].
  - intros x y Hx Hy Hin. eapply sub_edges_sound; eauto.
Qed.

Theorem iso_b_sound : forall c1 c2 pi pinv, iso_b c1 c2 pi pinv = true ->
  iso (of_cgraph c1) (of_cgraph c2) (pif pi) (pif pinv).
Proof.
  intros c1 c2 pi pinv H. unfold iso_b in H.
  apply andb_true_iff in H. destruct H as (H & I2).
  apply andb_true_iff in H. destruct H as (H & I1).
  apply andb_true_iff in H. destruct H as (H12 & H21).
  pose proof (hom_b_sound _ _ _ H12) as [R1 G1 U1]. pose proof (hom_b_sound _ _ _ H21) as [R2 G2 U2].
  unfold inverse_b in I1, I2. rewrite forallb_forall in I1, I2.
  assert (J1 : forall x, x < gn (of_cgraph c1) -> pif pinv (pif pi x) = x).
  { intros x Hx. specialize (I1 x (proj2 (in_all_nodes _ x) Hx)). lia. }
  assert (J2 : forall y, y < gn (of_cgraph c2) -> pif pi (pif pinv y) = y).
  { intros y Hy. specialize (I2 y (proj2 (in_all_nodes _ y) Hy)). lia. }
  unfold hom_b in H12, H21.
  repeat (apply andb_true_iff in H12; destruct H12 as (H12 & ?)).
  repeat (apply andb_true_iff in H21; destruct H21 as (H21 & ?)).
  split; auto.
  - intros x y Hx Hy. split; [apply U1; auto|]. intros Hin.
    rewrite <- (J1 x Hx), <- (J1 y Hy). apply U2; auto.
  - intros x y Hx Hy. cbn [of_cgraph gn gowns] in *. split.
    + intros Hin. eapply sub_edges_sound; eauto.
    + intros Hin. rewrite <- (J1 x Hx), <- (J1 y Hy).
      eapply (sub_edges_sound c2 c1 pinv); eauto.
Qed.

Lemma verdict_eqb_eq : forall a b, verdict_eqb a b = true <-> a = b.
Proof. intros [] []; cbn; split; intros; congruence. Qed.

(* what a successful check of two exported graphs implies, for all nodes *)
Theorem iso_b_verdicts : forall c1 c2 pi pinv, iso_b c1 c2 pi pinv = true ->
  forall x, x < N.of_nat (length c1) -> verdict (of_cgraph c2) (pif pi x) = verdict (of_cgraph c1) x.
Proof. intros c1 c2 pi pinv H x Hx. eapply verdict_iso_invariant; [apply iso_b_sound; eauto|exact Hx]. Qed.

Theorem hom_b_used : forall c1 c2 pi, hom_b c1 c2 pi = true ->
  forall x, verdict (of_cgraph c1) x = Used -> verdict (of_cgraph c2) (pif pi x) = Used.
Proof. intros c1 c2 pi H x. apply used_monotone, hom_b_sound, H. Qed.

(* ================================================================== variant merge *)

Lemma key_eqb_eq : forall a b : ukey, key_eqb a b = true <-> a = b.
Proof.
  intros [[[p1 f1] l1] n1] [[[p2 f2] l2] n2]. cbn. rewrite !andb_true_iff, !String.eqb_eq, N.eqb_eq.
  split; [intros (((-> & ->) & ->) & ->); reflexivity|intros E; inversion E; auto].
Qed.
Lemma key_eqb_refl : forall a, key_eqb a a = true.
Proof. intros a. apply key_eqb_eq. reflexivity. Qed.

Lemma mtrue_set_true : forall m k' k, mtrue (mset m k' true) k = key_eqb k k' || mtrue m k.
Proof. intros m k' k. unfold mtrue, mset. cbn [mget]. destruct (key_eqb k k'); reflexivity. Qed.

Lemma fold_used : forall pkg os m k,
  mtrue (fold_left (step_used pkg) os m) k = mtrue m k || existsb (fun o => key_eqb k (key_of pkg o)) os.
Proof.
  intros pkg os. induction os as [|o os IH]; intros m k; cbn [fold_left existsb].
  - rewrite orb_false_r. reflexivity.
  - rewrite IH. unfold step_used. rewrite mtrue_set_true.
    destruct (key_eqb k (key_of pkg o)), (mtrue m k); reflexivity.
Qed.

Lemma fold_unused : forall pkg os m us,
  (forall k, mtrue (fst (fold_left (step_unused pkg) os (m, us))) k = mtrue m k) /\
  snd (fold_left (step_unused pkg) os (m, us)) = us ++ map (fun o => (key_of pkg o, o)) os.
Proof.
  intros pkg os. induction os as [|o os IH]; intros m us; cbn [fold_left map].
  - rewrite app_nil_r. split; reflexivity.
  - unfold step_unused at 2 4. cbn [fst snd].
    destruct (IH (match mget m (key_of pkg o) with Some _ => m | None => mset m (key_of pkg o) false end)
                 (us ++ [(key_of pkg o, o)])) as (A & B).
    split.
    + intros k. rewrite A. destruct (mget m (key_of pkg o)) eqn:E; [reflexivity|].
      unfold mtrue, mset. cbn [mget]. destruct (key_eqb k (key_of pkg o)) eqn:E2; [|reflexivity].
      apply key_eqb_eq in E2. subst. rewrite E. reflexivity.
    + rewrite B, <- app_assoc. reflexivity.
Qed.

Lemma step_result_spec : forall st r,
  (forall k, mtrue (fst (step_result st r)) k =
             mtrue (fst st) k || existsb (fun o => key_eqb k (key_of (r_pkg r) o)) (r_used r)) /\
  snd (step_result st r) = snd st ++ unused_pairs r.
Proof.
  intros [m us] r. unfold step_result, unused_pairs. cbn [fst snd]. destruct (r_allowed r).
  - destruct (fold_unused (r_pkg r) (r_unused r) (fold_left (step_used (r_pkg r)) (r_used r) m) us) as (A & B).
    split; [intros k; rewrite A; apply fold_used|exact B].
  - cbn [fst snd]. split; [intros k; apply fold_used|rewrite app_nil_r; reflexivity].
Qed.

Lemma fold_results : forall rs st,
  (forall k, mtrue (fst (fold_left step_result rs st)) k = mtrue (fst st) k || used_somewhere rs k) /\
  snd (fold_left step_result rs st) = snd st ++ flat_map unused_pairs rs.
Proof.
  induction rs as [|r rs IH]; intros st; cbn [fold_left flat_map].
  - rewrite app_nil_r. split; [intros k; unfold used_somewhere; cbn; rewrite orb_false_r|]; reflexivity.
  - destruct (IH (step_result st r)) as (A & B). destruct (step_result_spec st r) as (C & D). split.
    + intros k. rewrite A, C. unfold used_somewhere. cbn [existsb]. rewrite orb_assoc. reflexivity.
    + rewrite B, D, <- app_assoc. reflexivity.
Qed.

(* the map-based code computes the declarative specification *)
Theorem merge_impl_eq_spec : forall rs, merge_impl rs = merge_spec rs.
Proof.
  intros rs. unfold merge_impl, merge_spec. destruct (fold_results rs ([], [])) as (A & B).
  rewrite B. cbn [snd app]. apply filter_ext. intros uo. rewrite A. reflexivity.
Qed.

Lemma used_somewhere_iff : forall rs k,
  used_somewhere rs k = true <-> exists r o, In r rs /\ In o (r_used r) /\ key_of (r_pkg r) o = k.
Proof.
  intros rs k. unfold used_somewhere. rewrite existsb_exists. split.
  - intros (r & Hr & H). apply existsb_exists in H. destruct H as (o & Ho & E).
    apply key_eqb_eq in E. eauto.
  - intros (r & o & Hr & Ho & E). exists r. split; [exact Hr|]. apply existsb_exists. exists o.
    split; [exact Ho|]. apply key_eqb_eq. auto.
Qed.

(* a key is reported iff some variant with U1000 enabled lists it unused and NO variant lists it used *)
Theorem merge_variants_iff : forall rs k,
  In k (map fst (merge_impl rs)) <->
  (exists r o, In r rs /\ r_allowed r = true /\ In o (r_unused r) /\ key_of (r_pkg r) o = k) /\
  (forall r o, In r rs -> In o (r_used r) -> key_of (r_pkg r) o <> k).
Proof.
  intros rs k. rewrite merge_impl_eq_spec. unfold merge_spec. rewrite in_map_iff. split.
  - intros ((k' & o) & E & Hin). cbn in E. subst k'. apply filter_In in Hin. destruct Hin as (Hin & Hnu).
    cbn [fst] in Hnu. apply in_flat_map in Hin. destruct Hin as (r & Hr & Hp). unfold unused_pairs in Hp.
    destruct (r_allowed r) eqn:Ea; [|destruct Hp]. apply in_map_iff in Hp. destruct Hp as (o' & E & Ho').
    inversion E; subst. split; [exists r, o; auto|].
    intros r' o' Hr' Ho'' E'. apply negb_true_iff in Hnu.
    assert (used_somewhere rs (key_of (r_pkg r) o) = true) by (apply used_somewhere_iff; eauto). congruence.
  - intros ((r & o & Hr & Ea & Ho & E) & Hnone). exists (k, o). split; [reflexivity|]. apply filter_In. split.
    + apply in_flat_map. exists r. split; [exact Hr|]. unfold unused_pairs. rewrite Ea. apply in_map_iff.
      exists o. subst k. auto.
    + cbn [fst]. apply negb_true_iff. destruct (used_somewhere rs k) eqn:E'; [|reflexivity].
      apply used_somewhere_iff in E'. destruct E' as (r' & o' & Hr' & Ho' & E''). exfalso. eapply Hnone; eauto.
Qed.

(* a colliding key can only REMOVE reports: whatever is emitted is an object that an enabled variant lists unused,
   under its own key, and that key is not used anywhere *)
Theorem key_collision_only_suppresses : forall rs k o, In (k, o) (merge_impl rs) ->
  exists r, In r rs /\ r_allowed r = true /\ In o (r_unused r) /\ k = key_of (r_pkg r) o /\
            used_somewhere rs k = false.
Proof.
  intros rs k o H. rewrite merge_impl_eq_spec in H. apply filter_In in H. destruct H as (Hin & Hnu).
  apply in_flat_map in Hin. destruct Hin as (r & Hr & Hp). unfold unused_pairs in Hp.
  destruct (r_allowed r) eqn:Ea; [|destruct Hp]. apply in_map_iff in Hp. destruct Hp as (o' & E & Ho').
  inversion E; subst. exists r. apply negb_true_iff in Hnu. cbn [fst] in Hnu. repeat split; auto.
Qed.

Lemma Permutation_filter' : forall A (f : A -> bool) l l', Permutation l l' -> Permutation (filter f l) (filter f l').
Proof.
  intros A f l l' H. induction H; cbn.
  - constructor.
  - destruct (f x); [constructor|]; assumption.
  - destruct (f x), (f y); try (apply perm_swap); try (apply perm_skip); apply Permutation_refl.
  - eapply Permutation_trans; eauto.
Qed.

Lemma used_somewhere_perm : forall rs rs' k, Permutation rs rs' -> used_somewhere rs k = used_somewhere rs' k.
Proof.
  intros rs rs' k H. destruct (used_somewhere rs k) eqn:E; symmetry.
  - apply used_somewhere_iff in E. apply used_somewhere_iff. destruct E as (r & o & Hr & Ho).
    exists r, o. split; [eapply Permutation_in; eauto|exact Ho].
  - destruct (used_somewhere rs' k) eqn:E'; [|reflexivity]. apply used_somewhere_iff in E'.
    destruct E' as (r & o & Hr & Ho).
    assert (used_somewhere rs k = true).
    { apply used_somewhere_iff. exists r, o. split; [eapply Permutation_in; [apply Permutation_sym|]; eauto|exact Ho]. }
    congruence.
Qed.

(* the set (indeed the multiset) of emitted problems does not depend on the order of the runner's result list *)
Theorem merge_order_invariant : forall rs rs', Permutation rs rs' ->
  Permutation (merge_impl rs) (merge_impl rs').
Proof.
  intros rs rs' H. rewrite !merge_impl_eq_spec. unfold merge_spec.
  rewrite (filter_ext _ (fun uo => negb (used_somewhere rs' (fst uo))))
    by (intros uo; rewrite (used_somewhere_perm rs rs' _ H); reflexivity).
  apply Permutation_filter'. apply Permutation_flat_map. exact H.
Qed.
