(* C02 — instruction-level control flow of a serialised function and its relation to the block-level
   CFG: the semantic side of def-dominates-use.

   A program point is (block, index).  [ipath f pt h]: control can be at point pt having executed exactly
   the points of h (most recent first), starting at the function entry (0,0), by
     - falling through to the next instruction of the block,
     - following a CFG edge after the last instruction of a block,
     - a recovered panic: from ANY point, once a Defer or Call instruction has been executed, control may
       resume at the first instruction of the Recover block.
   No bound on the length of h. *)
From Coq Require Import List NArith Bool Lia Arith.
Import ListNotations.
Require Import Verif.Lib.Graphs Verif.Model.C02.
Local Open Scope N_scope.

Definition point := (N * N)%type.

Section Sem.
Variable f : func.

Definition blk (b : N) : block := nth_N b (f_blocks f) (mkB 0 [] [] []).
Definition blen (b : N) : N := len_N (b_instrs (blk b)).
Definition instr_at (b k : N) : option instr := nth_error (b_instrs (blk b)) (N.to_nat k).
Definition cedge (b c : N) : Prop := In c (b_succs (blk b)).
Definition deferlike_at (q : point) : Prop :=
  exists i, instr_at (fst q) (snd q) = Some i /\ defer_like (i_kind i) = true.

Inductive ipath : point -> list point -> Prop :=
| ip_entry : ipath (0, 0) []
| ip_next : forall b k h, ipath (b, k) h -> k + 1 < blen b -> ipath (b, k + 1) ((b, k) :: h)
| ip_edge : forall b k c h, ipath (b, k) h -> k + 1 = blen b -> cedge b c -> ipath (c, 0) ((b, k) :: h)
| ip_panic : forall b k rc h, ipath (b, k) h -> f_rec f = Some rc ->
    (exists q, In q ((b, k) :: h) /\ deferlike_at q) -> ipath (rc, 0) ((b, k) :: h).

(* plain control flow only, starting at the first instruction of block r *)
Inductive ppath (r : N) : point -> list point -> Prop :=
| pp_start : ppath r (r, 0) []
| pp_next : forall b k h, ppath r (b, k) h -> k + 1 < blen b -> ppath r (b, k + 1) ((b, k) :: h)
| pp_edge : forall b k c h, ppath r (b, k) h -> k + 1 = blen b -> cedge b c -> ppath r (c, 0) ((b, k) :: h).

(* ---------------------------------------------------------------- within a block *)
Lemma ipath_prefix : forall pt h, ipath pt h -> forall k', k' < snd pt -> In (fst pt, k') h.
Proof.
  induction 1 as [|b k h Hp IH Hlt|b k c h Hp IH He Hc|b k rc h Hp IH Hr Hq]; simpl; intros k' Hk; try lia.
  destruct (N.eq_dec k' k) as [->|Hne]; [now left|right]. apply IH. simpl. lia.
Qed.

Lemma ppath_prefix : forall r pt h, ppath r pt h -> forall k', k' < snd pt -> In (fst pt, k') h.
Proof.
  induction 1 as [|b k h Hp IH Hlt|b k c h Hp IH He Hc]; simpl; intros k' Hk; try lia.
  destruct (N.eq_dec k' k) as [->|Hne]; [now left|right]. apply IH. simpl. lia.
Qed.

(* ---------------------------------------------------------------- decompositions *)
(* after the LAST panic the walk is plain from the Recover block *)
Lemma ipath_last_panic : forall pt h, ipath pt h ->
  ppath 0 pt h \/
  exists rc h2 p1 h1, f_rec f = Some rc /\ h = h2 ++ p1 :: h1 /\ ppath rc pt h2.
Proof.
  induction 1 as [|b k h Hp IH Hlt|b k c h Hp IH He Hc|b k rc h Hp IH Hr Hq].
  - left; constructor.
  - destruct IH as [IH|(rc & h2 & p1 & h1 & Hr & -> & Hpp)].
    + left; now constructor.
    + right. exists rc, ((b, k) :: h2), p1, h1. repeat split; auto. now constructor.
  - destruct IH as [IH|(rc & h2 & p1 & h1 & Hr & -> & Hpp)].
    + left; now apply pp_edge.
    + right. exists rc, ((b, k) :: h2), p1, h1. repeat split; auto. now apply pp_edge.
  - right. exists rc, [], (b, k), h. repeat split; auto. constructor.
Qed.

(* before the FIRST panic the walk is plain from the entry, and has executed a Defer or Call *)
Lemma ipath_first_panic : forall pt h, ipath pt h ->
  ppath 0 pt h \/
  exists h2 p1 h1, h = h2 ++ p1 :: h1 /\ ppath 0 p1 h1 /\ exists q, In q (p1 :: h1) /\ deferlike_at q.
Proof.
  induction 1 as [|b k h Hp IH Hlt|b k c h Hp IH He Hc|b k rc h Hp IH Hr Hq].
  - left; constructor.
  - destruct IH as [IH|(h2 & p1 & h1 & -> & Hpp & Hq)].
    + left; now constructor.
    + right. exists ((b, k) :: h2), p1, h1. repeat split; auto.
  - destruct IH as [IH|(h2 & p1 & h1 & -> & Hpp & Hq)].
    + left; now apply pp_edge.
    + right. exists ((b, k) :: h2), p1, h1. repeat split; auto.
  - destruct IH as [IH|(h2 & p1 & h1 & -> & Hpp & Hq')].
    + right. exists [], (b, k), h. repeat split; auto.
    + right. exists ((b, k) :: h2), p1, h1. repeat split; auto.
Qed.

(* every point on a plain walk is reached by an initial part of the walk *)
Lemma ppath_split : forall r pt h, ppath r pt h -> forall q, In q (pt :: h) ->
  exists h' h'', pt :: h = h'' ++ q :: h' /\ ppath r q h'.
Proof.
  induction 1 as [|b k h Hp IH Hlt|b k c h Hp IH He Hc]; intros q Hin.
  - destruct Hin as [<-|[]]. exists [], []. split; [reflexivity|constructor].
  - destruct Hin as [<-|Hin].
    + exists ((b, k) :: h), []. split; [reflexivity|now constructor].
    + destruct (IH q Hin) as (h' & h'' & E & Hq). exists h', ((b, k + 1) :: h''). split; [|assumption].
      simpl. f_equal. exact E.
  - destruct Hin as [<-|Hin].
    + exists ((b, k) :: h), []. split; [reflexivity|now apply pp_edge].
    + destruct (IH q Hin) as (h' & h'' & E & Hq). exists h', ((c, 0) :: h''). split; [|assumption].
      simpl. f_equal. exact E.
Qed.

(* ---------------------------------------------------------------- projection to the block-level CFG *)
Lemma edges_agree : forall b c, cedge b c <-> edge (cfg_of f) b c.
Proof.
  intros b c. unfold cedge, edge, succs, cfg_of, blk, nth_N.
  now rewrite <- (map_nth b_succs (f_blocks f) (mkB 0 [] [] []) (N.to_nat b)).
Qed.

Lemma ppath_blocks : forall r pt h, ppath r pt h ->
  exists l, path (cfg_of f) r (fst pt) l /\ forall x, In x l -> exists i, In (x, i) (pt :: h).
Proof.
  induction 1 as [|b k h Hp IH Hlt|b k c h Hp IH He Hc]; simpl in *.
  - exists [r]. split; [constructor|]. intros x [<-|[]]. exists 0. now left.
  - destruct IH as (l & Hl & Hin). exists l. split; [assumption|].
    intros x Hx. destruct (Hin x Hx) as (i & Hi). exists i. now right.
  - destruct IH as (l & Hl & Hin). exists (c :: l). split.
    + econstructor; [exact Hl|]. now apply edges_agree.
    + intros x [<-|Hx]; [exists 0; now left|]. destruct (Hin x Hx) as (i & Hi). exists i. now right.
Qed.

(* a block that a plain walk has left was executed completely *)
Lemma ppath_full_block : forall r pt h, ppath r pt h ->
  forall d i, d <> fst pt -> (exists i', In (d, i') (pt :: h)) -> i < blen d -> In (d, i) h.
Proof.
  induction 1 as [|b k h Hp IH Hlt|b k c h Hp IH He Hc]; simpl; intros d i Hd (i' & Hi') Hi.
  - destruct Hi' as [E|[]]. injection E as E _. congruence.
  - destruct Hi' as [E|Hi']; [injection E as E _; congruence|].
    right. apply (IH d i Hd); [|assumption]. exists i'. assumption.
  - destruct Hi' as [E|Hi']; [injection E as E _; congruence|].
    destruct (N.eq_dec d b) as [->|Hdb].
    + destruct (N.eq_dec i k) as [->|Hik]; [now left|right].
      apply (ppath_prefix _ _ _ Hp). simpl. lia.
    + right. apply (IH d i Hdb); [|assumption]. exists i'. assumption.
Qed.

(* the two facts combined: a block-level dominator has been executed completely *)
Lemma ppath_dominator : forall r pt h D k, ppath r pt h ->
  dominates (cfg_of f) r D (fst pt) -> D <> fst pt -> k < blen D -> In (D, k) h.
Proof.
  intros r pt h D k Hp Hdom Hne Hk.
  destruct (ppath_blocks _ _ _ Hp) as (l & Hl & Hin).
  apply (ppath_full_block _ _ _ Hp D k Hne); [|assumption]. apply Hin. now apply Hdom.
Qed.

Lemma ppath_reach : forall r pt h, ppath r pt h -> reachable (cfg_of f) r (fst pt).
Proof. intros r pt h Hp. destruct (ppath_blocks _ _ _ Hp) as (l & Hl & _). now exists l. Qed.

End Sem.
