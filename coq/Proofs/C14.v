(* C14 — soundness of the dominator-tree checker: whatever observation [tree_check] accepts is exact
   with respect to the all-paths definition of dominance (Lib/Graphs.v), for every graph. *)
From Coq Require Import List NArith Bool Lia Arith Permutation.
Import ListNotations.
Require Import Verif.Lib.Graphs Verif.Model.C14.
Local Open Scope N_scope.

(* ------------------------------------------------------------------ list helpers *)
Lemma flat_map_nil : forall {A B} (f : A -> list B) l, flat_map f l = [] -> forall x, In x l -> f x = [].
Proof.
  intros A B f; induction l as [|a t IH]; intros H x Hin; [destruct Hin|].
  simpl in H. apply app_eq_nil in H as [Ha Ht]. destruct Hin as [<-|Hin]; auto.
Qed.

Lemma node_list_nth : forall g b, b < nnodes g -> nth (N.to_nat b) (node_list g) 0 = b.
Proof.
  intros g b Hb. unfold node_list, nnodes in *.
  rewrite (nth_indep _ 0 (N.of_nat 0)) by (rewrite map_length, seq_length; lia).
  rewrite map_nth, seq_nth by lia. lia.
Qed.

Lemma node_list_length : forall g, length (node_list g) = length g.
Proof. intros; unfold node_list; now rewrite map_length, seq_length. Qed.

Lemma node_list_NoDup : forall g, NoDup (node_list g).
Proof.
  intros g. unfold node_list. apply FinFun.Injective_map_NoDup; [|apply seq_NoDup].
  intros x y H; lia.
Qed.

Lemma combine_nodes_in : forall {A} g (l : list A) (d : A) b, length l = length g -> b < nnodes g ->
  In (b, nth (N.to_nat b) l d) (combine (node_list g) l).
Proof.
  intros A g l d b Hl Hb.
  assert (E : (b, nth (N.to_nat b) l d) = nth (N.to_nat b) (combine (node_list g) l) (0, d)).
  { rewrite combine_nth by (now rewrite node_list_length). now rewrite node_list_nth. }
  rewrite E. apply nth_In. rewrite combine_length, node_list_length, Hl. unfold nnodes in Hb. lia.
Qed.

Lemma filter_map_idx_nil : forall {A} (f : N -> A -> bool) mk g (l : list A) (d : A),
  filter_map_idx f mk (node_list g) l = [] -> length l = length g ->
  forall b, b < nnodes g -> f b (nth (N.to_nat b) l d) = true.
Proof.
  unfold filter_map_idx; intros A f mk g l d H Hl b Hb.
  pose proof (flat_map_nil _ _ H _ (combine_nodes_in g l d b Hl Hb)) as E. simpl in E.
  destruct (f b (nth (N.to_nat b) l d)); [reflexivity|discriminate].
Qed.

Lemma memb_In : forall x l, memb x l = true <-> In x l.
Proof.
  intros x; induction l as [|y t IH]; simpl; [split; [discriminate|tauto]|].
  rewrite orb_true_iff, IH, N.eqb_eq. split; intros [H|H]; auto.
Qed.

Lemma nodupb_NoDup : forall l, nodupb l = true -> NoDup l.
Proof.
  induction l as [|y t IH]; simpl; intros H; [constructor|].
  apply andb_true_iff in H as [H1 H2]. constructor; [|auto].
  intros Hin. apply memb_In in Hin. rewrite Hin in H1. discriminate.
Qed.

Lemma index_of_lt_In : forall x l, index_of x l < N.of_nat (length l) -> In x l.
Proof.
  intros x; induction l as [|y t IH]; simpl; intros H; [lia|].
  destruct (x =? y) eqn:E; [left; symmetry; now apply N.eqb_eq|right; apply IH; lia].
Qed.

Lemma opt_eqb_eq : forall a b, opt_eqb a b = true <-> a = b.
Proof.
  intros [x|] [y|]; simpl; split; intros H; try discriminate; try reflexivity.
  - apply N.eqb_eq in H; now subst.
  - injection H as ->; apply N.eqb_refl.
Qed.

Lemma listing_perm : forall g l, Nat.eqb (length l) (length g) = true ->
  forallb (fun c => index_of c l <? nnodes g) (node_list g) = true -> Permutation l (node_list g).
Proof.
  intros g l Hl Hall. apply Nat.eqb_eq in Hl. symmetry.
  apply NoDup_Permutation_bis; [apply node_list_NoDup | rewrite node_list_length; lia|].
  intros c Hc. rewrite forallb_forall in Hall. specialize (Hall c Hc). apply N.ltb_lt in Hall.
  apply index_of_lt_In. unfold nnodes in Hall. now rewrite Hl.
Qed.

(* ------------------------------------------------------------------ the statement *)
Definition o_dominates (o : dom_obs) (b c : N) : bool := N.testbit (nth (N.to_nat b) (o_dom o) 0) c.
Definition o_idom_of (o : dom_obs) (c : N) : option N := nth (N.to_nat c) (o_idom o) None.
Definition o_dominees (o : dom_obs) (b : N) : list N := nth (N.to_nat b) (o_kids o) [].

(* immediate dominator in a two-rooted CFG, declaratively *)
Definition Idom_of (g : graph) (rec : option N) (d c : N) : Prop :=
  d <> c /\ Dominates g rec d c /\
  forall b, b < nnodes g -> b <> c -> Dominates g rec b c -> Dominates g rec b d.

Record exact (g : graph) (rec : option N) (o : dom_obs) : Prop := mkExact {
  ex_dominates : forall b c, b < nnodes g -> c < nnodes g ->
      (o_dominates o b c = true <-> Dominates g rec b c);
  ex_reachable : forall c, c < nnodes g ->
      reachable g 0 c \/ exists rc, rec = Some rc /\ reachable g rc c;
  ex_idom : forall c, c < nnodes g ->
      match o_idom_of o c with
      | None => c = 0 \/ rec = Some c
      | Some d => d < nnodes g /\ c <> 0 /\ rec <> Some c /\ Idom_of g rec d c
      end;
  ex_dominees : forall b, b < nnodes g ->
      NoDup (o_dominees o b) /\
      forall c, In c (o_dominees o b) <-> (c < nnodes g /\ o_idom_of o c = Some b);
  ex_pre_perm : Permutation (o_pre o) (node_list g);
  ex_post_perm : Permutation (o_post o) (node_list g);
  ex_interval : forall b c, b < nnodes g -> c < nnodes g ->
      (Dominates g rec b c <->
       index_of b (o_pre o) <= index_of c (o_pre o) /\ index_of c (o_post o) <= index_of b (o_post o));
  ex_pre_run : forall b, b < nnodes g -> exists sz, forall c, c < nnodes g ->
      (Dominates g rec b c <->
       index_of b (o_pre o) <= index_of c (o_pre o) < index_of b (o_pre o) + sz);
  ex_post_run : forall b, b < nnodes g -> exists sz, forall c, c < nnodes g ->
      (Dominates g rec b c <->
       index_of c (o_post o) <= index_of b (o_post o) < index_of c (o_post o) + sz)
}.

Lemma app_nil_l2 : forall {A} (a b : list A), a ++ b = [] -> a = [] /\ b = [].
Proof. intros; now apply app_eq_nil. Qed.

Theorem tree_check_sound : forall g rec o, tree_check g rec o = true -> exact g rec o.
Proof.
  unfold tree_check, tree_diag; intros g rec o H.
  destruct (cfg_dominance g rec) as [d|] eqn:Hd; [|discriminate].
  destruct (cfg_dominance_correct _ _ _ Hd) as (Hok & Hn & Hrl & Hrec & HE & Hcov & Hrows).
  set (rows := cd_rows d) in *.
  destruct (Nat.eqb (length (o_dom o)) (length g) && Nat.eqb (length (o_idom o)) (length g)
            && Nat.eqb (length (o_kids o)) (length g)) eqn:Hlen; [|discriminate]. simpl in H.
  apply andb_true_iff in Hlen as [Hlen Hl3]. apply andb_true_iff in Hlen as [Hl1 Hl2].
  apply Nat.eqb_eq in Hl1, Hl2, Hl3.
  match type of H with match ?t with _ => _ end = true => destruct t eqn:HD; [clear H|discriminate] end.
  apply app_nil_l2 in HD as [D1 HD]. apply app_nil_l2 in HD as [D2 HD].
  apply app_nil_l2 in HD as [D3 HD]. apply app_nil_l2 in HD as [D4 HD]. apply app_nil_l2 in HD as [D5 D6].
  pose proof (filter_map_idx_nil _ _ g _ 0 D1 Hl1) as F1.
  pose proof (filter_map_idx_nil _ _ g _ None D2 Hl2) as F2.
  pose proof (filter_map_idx_nil _ _ g _ [] D3 Hl3) as F3.
  clear D1 D2 D3.
  destruct (Nat.eqb (length (o_pre o)) (length g) &&
            forallb (fun c => index_of c (o_pre o) <? nnodes g) (node_list g)) eqn:Hpre; [|discriminate].
  destruct (Nat.eqb (length (o_post o)) (length g) &&
            forallb (fun c => index_of c (o_post o) <? nnodes g) (node_list g)) eqn:Hpost; [|discriminate].
  simpl in D6. clear D4 D5.
  apply andb_true_iff in Hpre as [Hp1 Hp2]. apply andb_true_iff in Hpost as [Hq1 Hq2].
  (* (1) the matrix *)
  assert (EX1 : forall b c, b < nnodes g -> c < nnodes g -> (o_dominates o b c = true <-> Dominates g rec b c)).
  { intros b c Hb Hc. unfold o_dominates. specialize (F1 b Hb). apply N.eqb_eq in F1. rewrite F1.
    now apply Hrows. }
  (* numbering facts *)
  set (num := map (fun c => (c, (index_of c (o_pre o), index_of c (o_post o)))) (node_list g)) in D6.
  assert (Hnum : forall c, c < nnodes g -> In (c, (index_of c (o_pre o), index_of c (o_post o))) num).
  { intros c Hc. unfold num. apply in_map_iff. exists c. split; [reflexivity|now apply node_list_in]. }
  assert (Hrow : forall b c, b < nnodes g -> c < nnodes g ->
            (N.testbit (row rows b) c = true <-> Dominates g rec b c)) by (intros; now apply Hrows).
  constructor.
  - exact EX1.
  - exact Hcov.
  - (* idom *)
    intros c Hc. specialize (F2 c Hc). unfold o_idom_of. unfold idom_ok in F2.
    destruct (nth (N.to_nat c) (o_idom o) None) as [dd|].
    + repeat (apply andb_true_iff in F2 as [F2 ?]).
      apply negb_true_iff in F2. unfold is_root in F2. apply orb_false_iff in F2 as [R0 R1].
      apply N.eqb_neq in R0. apply N.ltb_lt in H2. apply negb_true_iff in H1. apply N.eqb_neq in H1.
      split; [assumption|]. split; [assumption|]. split.
      { intros ->. rewrite N.eqb_refl in R1. discriminate. }
      split; [assumption|]. split; [now apply Hrow|].
      intros b Hb Hbc HD. apply Hrow; [assumption..|].
      rewrite forallb_forall in H.
      specialize (H (b, nth (N.to_nat b) rows 0) (combine_nodes_in g rows 0 b Hrl Hb)). simpl in H.
      apply orb_true_iff in H as [H|H]; [|assumption].
      apply orb_true_iff in H as [H|H]; [apply N.eqb_eq in H; contradiction|].
      apply negb_true_iff in H. apply (Hrow b c Hb Hc) in HD. unfold row in HD. congruence.
    + unfold is_root in F2. apply orb_true_iff in F2 as [F2|F2]; [left; now apply N.eqb_eq|right].
      destruct rec as [rc|]; [|discriminate]. apply N.eqb_eq in F2; now subst.
  - (* dominees *)
    intros b Hb. specialize (F3 b Hb). unfold o_dominees, kids_ok in *.
    apply andb_true_iff in F3 as [F3 K3]. apply andb_true_iff in F3 as [K1 K2].
    split; [now apply nodupb_NoDup|]. intros c. split.
    + intros Hin. rewrite forallb_forall in K2. specialize (K2 c Hin).
      apply andb_true_iff in K2 as [K2a K2b]. apply N.ltb_lt in K2a. apply opt_eqb_eq in K2b.
      split; assumption.
    + intros [Hc Hi]. rewrite forallb_forall in K3.
      specialize (K3 _ (combine_nodes_in g (o_idom o) None c Hl2 Hc)). simpl in K3.
      unfold o_idom_of in Hi. rewrite Hi in K3. rewrite N.eqb_refl in K3. simpl in K3. now apply memb_In.
  - now apply listing_perm.
  - now apply listing_perm.
  - (* interval *)
    intros b c Hb Hc.
    pose proof (flat_map_nil _ _ D6 _ (Hnum b Hb)) as I. simpl in I.
    apply app_nil_l2 in I as [I _].
    destruct (forallb _ num) eqn:It in I; [|discriminate I].
    rewrite forallb_forall in It. specialize (It _ (Hnum c Hc)). simpl in It.
    apply eqb_prop in It. rewrite <- (Hrow b c Hb Hc), It, andb_true_iff, !N.leb_le. tauto.
  - (* pre run *)
    intros b Hb. exists (count_row (node_list g) (row rows b)). intros c Hc.
    pose proof (flat_map_nil _ _ D6 _ (Hnum b Hb)) as I. simpl in I.
    apply app_nil_l2 in I as [_ I]. apply app_nil_l2 in I as [I _].
    destruct (forallb _ num) eqn:It in I; [|discriminate I].
    rewrite forallb_forall in It. specialize (It _ (Hnum c Hc)). simpl in It.
    apply eqb_prop in It. rewrite <- (Hrow b c Hb Hc), It, andb_true_iff, N.leb_le, N.ltb_lt. tauto.
  - (* post run *)
    intros b Hb. exists (count_row (node_list g) (row rows b)). intros c Hc.
    pose proof (flat_map_nil _ _ D6 _ (Hnum b Hb)) as I. simpl in I.
    apply app_nil_l2 in I as [_ I]. apply app_nil_l2 in I as [_ I].
    destruct (forallb _ num) eqn:It in I; [|discriminate I].
    rewrite forallb_forall in It. specialize (It _ (Hnum c Hc)). simpl in It.
    apply eqb_prop in It. rewrite <- (Hrow b c Hb Hc), It, andb_true_iff, N.leb_le, N.ltb_lt. tauto.
Qed.

(* ------------------------------------------------------------------ uniqueness of the immediate dominator *)
Lemma Dominates_reach : forall g rec b c, Dominates g rec b c ->
  (reachable g 0 c \/ exists rc, rec = Some rc /\ reachable g rc c) ->
  (reachable g 0 c /\ reachable g 0 b /\ dominates g 0 b c) \/
  (~ reachable g 0 c /\ exists rc, rec = Some rc /\ reachable g rc c /\ reachable g rc b /\ dominates g rc b c).
Proof.
  intros g rec b c [(Hr & Hd)|(Hnr & rc & -> & Hd)] Hcov.
  - left. split; [assumption|]. split; [|assumption]. destruct Hr as [l Hl].
    destruct (path_split _ _ _ _ Hl b (Hd _ Hl)) as (l1 & _ & _ & H1). now exists l1.
  - right. split; [assumption|]. exists rc. split; [reflexivity|].
    destruct Hcov as [?|(rc' & E & Hr)]; [contradiction|]. injection E as <-.
    split; [assumption|]. split; [|assumption]. destruct Hr as [l Hl].
    destruct (path_split _ _ _ _ Hl b (Hd _ Hl)) as (l1 & _ & _ & H1). now exists l1.
Qed.

Theorem Idom_of_unique : forall g rec c d d',
  (forall x, x < nnodes g -> reachable g 0 x \/ exists rc, rec = Some rc /\ reachable g rc x) ->
  c < nnodes g -> d < nnodes g -> d' < nnodes g ->
  Idom_of g rec d c -> Idom_of g rec d' c -> d = d'.
Proof.
  intros g rec c d d' Hcov Hc Hd Hd' (Hn & HD & Hm) (Hn' & HD' & Hm').
  pose proof (Hm' d Hd Hn HD) as A.   (* d dominates d' *)
  pose proof (Hm d' Hd' Hn' HD') as B. (* d' dominates d *)
  destruct (Dominates_reach _ _ _ _ A (Hcov _ Hd')) as [(R1 & R2 & D1)|(NR1 & rc & E & R1 & R2 & D1)];
  destruct (Dominates_reach _ _ _ _ B (Hcov _ Hd)) as [(S1 & S2 & D2)|(NS1 & rc' & E' & S1 & S2 & D2)].
  - now apply (dominates_antisym g 0).
  - contradiction.
  - contradiction.
  - rewrite E in E'; injection E' as <-. now apply (dominates_antisym g rc).
Qed.
