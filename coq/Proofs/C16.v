(* C16: proofs about Model/C16.v (positions <-> offsets, edit application). *)
From Coq Require Import List Arith Bool NArith Lia Permutation.
Import ListNotations.
Require Import Verif.Model.C16.
Arguments is_nl : simpl never.

(* ================================================================== positions *)

Lemma adv_spec f : forall dc off l c,
  adv f dc = Some off -> off = dc /\ dc <= length f /\ pos_of_aux f off l c = (l, c + dc).
Proof.
  induction f as [|b f IH]; intros dc off l c H.
  - destruct dc; simpl in H; [|discriminate]. inversion H; subst. simpl. repeat split; auto; try (f_equal; lia).
  - destruct dc; simpl in H.
    + inversion H; subst. simpl. repeat split; auto with arith; try (f_equal; lia).
    + destruct (is_nl b) eqn:Hb; [discriminate|].
      destruct (adv f dc) as [k|] eqn:Hk; [|discriminate]. simpl in H. inversion H; subst.
      destruct (IH dc k l (S c) Hk) as (-> & Hlen & Hp).
      repeat split; simpl; try lia. rewrite Hb, Hp. f_equal; lia.
Qed.

Lemma adv_total f : forall dc l c,
  dc <= length f -> pos_of_aux f dc l c = (l, c + dc) -> adv f dc = Some dc.
Proof.
  induction f as [|b f IH]; intros dc l c Hle Hp.
  - simpl in Hle. assert (dc = 0) by lia. subst. reflexivity.
  - destruct dc; [reflexivity|]. simpl in *. destruct (is_nl b) eqn:Hb.
    + (* a newline was crossed: the line number grew *)
      exfalso. clear IH.
      assert (Hmono : forall g k l0 c0, fst (pos_of_aux g k l0 c0) >= l0).
      { induction g as [|b' g IHg]; intros k l0 c0; destruct k; simpl; try lia.
        destruct (is_nl b'); [specialize (IHg k (S l0) 1)|specialize (IHg k l0 (S c0))]; lia. }
      specialize (Hmono f dc (S l) 1). rewrite Hp in Hmono. simpl in Hmono. lia.
    + rewrite (IH dc l (S c)); [reflexivity|lia|]. rewrite Hp. f_equal; lia.
Qed.

Definition target (l c dl dc : nat) : nat * nat :=
  match dl with O => (l, c + dc) | S _ => (l + dl, 1 + dc) end.

Lemma offset_of_aux_nil_l f dc : offset_of_aux f 0 dc = adv f dc.
Proof. destruct f; reflexivity. Qed.

(* (line, col) -> offset -> (line, col) *)
Lemma offset_of_aux_sound f : forall dl dc off l c,
  offset_of_aux f dl dc = Some off ->
  off <= length f /\ pos_of_aux f off l c = target l c dl dc.
Proof.
  induction f as [|b f IH]; intros dl dc off l c H.
  - destruct dl; simpl in H; [|discriminate].
    destruct (adv_spec [] dc off l c H) as (-> & Hlen & Hp). split; [exact Hlen|exact Hp].
  - destruct dl.
    + rewrite offset_of_aux_nil_l in H. destruct (adv_spec _ dc off l c H) as (-> & Hlen & Hp).
      split; [exact Hlen|exact Hp].
    + simpl in H. destruct (is_nl b) eqn:Hb.
      * destruct (offset_of_aux f dl dc) as [k|] eqn:Hk; [|discriminate]. simpl in H. inversion H; subst.
        destruct (IH dl dc k (S l) 1 Hk) as [Hlen Hp]. split; [simpl; lia|].
        simpl. rewrite Hb, Hp. unfold target. destruct dl; f_equal; lia.
      * destruct (offset_of_aux f (S dl) dc) as [k|] eqn:Hk; [|discriminate]. simpl in H. inversion H; subst.
        destruct (IH (S dl) dc k l (S c) Hk) as [Hlen Hp]. split; [simpl; lia|].
        simpl. rewrite Hb, Hp. reflexivity.
Qed.

(* offset -> (line, col) -> offset *)
Lemma pos_of_aux_complete f : forall off l c,
  off <= length f ->
  exists dl dc, offset_of_aux f dl dc = Some off /\ pos_of_aux f off l c = target l c dl dc.
Proof.
  induction f as [|b f IH]; intros off l c Hle.
  - simpl in Hle. assert (off = 0) by lia. subst. exists 0, 0. split; [reflexivity|]. simpl. f_equal; lia.
  - destruct off.
    + exists 0, 0. split; [reflexivity|]. simpl. f_equal; lia.
    + simpl in Hle. simpl. destruct (is_nl b) eqn:Hb.
      * destruct (IH off (S l) 1) as (dl & dc & Ho & Hp); [lia|].
        exists (S dl), (match dl with O => dc | S _ => dc end). rewrite Hp. split.
        -- simpl. try rewrite Hb. destruct dl; rewrite Ho; reflexivity.
        -- unfold target. destruct dl; f_equal; lia.
      * destruct (IH off l (S c)) as (dl & dc & Ho & Hp); [lia|].
        destruct dl.
        -- exists 0, (S dc). rewrite offset_of_aux_nil_l in Ho. split.
           ++ simpl. try rewrite Hb. rewrite Ho. reflexivity.
           ++ rewrite Hp. simpl. f_equal; lia.
        -- exists (S dl), dc. split.
           ++ simpl. try rewrite Hb. rewrite Ho. reflexivity.
           ++ rewrite Hp. reflexivity.
Qed.

Lemma target_top dl dc : target 1 1 dl dc = (S dl, S dc).
Proof. destruct dl; reflexivity. Qed.

Theorem offset_of_some_iff f p off :
  offset_of f p = Some off <-> off <= length f /\ pos_of f off = p.
Proof.
  split.
  - destruct p as [[|dl] [|dc]]; simpl; try discriminate. intro H.
    destruct (offset_of_aux_sound f dl dc off 1 1 H) as [Hlen Hp]. split; [exact Hlen|].
    unfold pos_of. rewrite Hp. apply target_top.
  - intros [Hle Hp]. destruct (pos_of_aux_complete f off 1 1 Hle) as (dl & dc & Ho & Hq).
    unfold pos_of in Hp. rewrite Hq, target_top in Hp. subst p. exact Ho.
Qed.

(* for every file (any mixture of LF / CRLF line ends, final newline present or not) *)
Theorem pos_offset_roundtrip_1 f off :
  off <= length f -> offset_of f (pos_of f off) = Some off.
Proof. intro H. apply offset_of_some_iff. auto. Qed.

Theorem pos_offset_roundtrip_2 f p off :
  offset_of f p = Some off -> pos_of f off = p.
Proof. intro H. apply offset_of_some_iff in H. tauto. Qed.

(* ---------- validity through the line-length table ---------- *)
Lemma line_lengths_nonempty f : line_lengths f <> [].
Proof. destruct f as [|b f]; simpl; [discriminate|]. destruct (is_nl b); [discriminate|]. destruct (line_lengths f); discriminate. Qed.

Lemma adv_some_iff f : forall dc, (exists o, adv f dc = Some o) <-> dc <= hd 0 (line_lengths f).
Proof.
  induction f as [|b f IH]; intro dc.
  - simpl. destruct dc; simpl; split; intro H; try lia; eauto. destruct H; discriminate.
  - destruct dc.
    + simpl. split; intro; [lia|eauto].
    + simpl. destruct (is_nl b) eqn:Hb.
      * simpl. split; [intros [o Ho]; discriminate|lia].
      * specialize (IH dc). pose proof (line_lengths_nonempty f) as Hne.
        destruct (line_lengths f) as [|n r]; [contradiction|]. simpl in *.
        split.
        -- intros [o Ho]. destruct (adv f dc) eqn:Ha; [|discriminate]. assert (dc <= n) by (apply IH; eauto). lia.
        -- intro Hle. assert (Hd : dc <= n) by lia. apply IH in Hd. destruct Hd as [o Ho]. rewrite Ho. simpl. eauto.
Qed.

Lemma offset_of_aux_some_iff f : forall dl dc,
  (exists o, offset_of_aux f dl dc = Some o) <-> (exists n, nth_error (line_lengths f) dl = Some n /\ dc <= n).
Proof.
  induction f as [|b f IH]; intros dl dc.
  - destruct dl; simpl.
    + destruct dc; simpl; split.
      * intros _. exists 0. auto.
      * eauto.
      * intros [o Ho]; discriminate.
      * intros (n & Hn & Hle). inversion Hn; subst. lia.
    + split; [intros [o Ho]; discriminate|]. intros (n & Hn & _). destruct dl; discriminate.
  - destruct dl.
    + rewrite offset_of_aux_nil_l. rewrite adv_some_iff.
      pose proof (line_lengths_nonempty (b :: f)) as Hne.
      destruct (line_lengths (b :: f)) as [|n r] eqn:E; [contradiction|]. simpl.
      split; [intro H; exists n; auto|]. intros (m & Hm & Hle). inversion Hm; subst. exact Hle.
    + simpl. destruct (is_nl b) eqn:Hb.
      * simpl. rewrite <- IH. split; intros [o Ho].
        -- destruct (offset_of_aux f dl dc) eqn:E; [eauto|discriminate].
        -- rewrite Ho. simpl. eauto.
      * pose proof (line_lengths_nonempty f) as Hne.
        specialize (IH (S dl) dc).
        destruct (line_lengths f) as [|n r] eqn:E; [contradiction|]. simpl in *.
        rewrite <- IH. split; intros [o Ho].
        -- destruct (offset_of_aux f (S dl) dc) eqn:E2; [eauto|discriminate].
        -- rewrite Ho. simpl. eauto.
Qed.

Theorem valid_pos_iff f p :
  valid_pos_b f p = true <-> exists off, off <= length f /\ pos_of f off = p.
Proof.
  assert (H : valid_pos_b f p = true <-> exists off, offset_of f p = Some off).
  { destruct p as [[|dl] [|dc]]; simpl; try (split; [discriminate|intros [o Ho]; discriminate]).
    rewrite offset_of_aux_some_iff. destruct (nth_error (line_lengths f) dl) as [n|].
    - rewrite Nat.leb_le. split; [intro; exists n; auto|]. intros (m & Hm & Hle). inversion Hm; subst; exact Hle.
    - split; [discriminate|]. intros (m & Hm & _). discriminate. }
  rewrite H. split; intros [off Ho]; exists off; apply offset_of_some_iff; exact Ho.
Qed.

Corollary valid_pos_offset f p : valid_pos_b f p = true <-> exists off, offset_of f p = Some off.
Proof.
  rewrite valid_pos_iff. split; intros [off Ho]; exists off; apply offset_of_some_iff; exact Ho.
Qed.

(* ================================================================== edits *)

Lemma key_le_total a b : key_le a b = true \/ key_le b a = true.
Proof.
  unfold key_le. destruct (Nat.lt_total (e_start a) (e_start b)) as [H|[H|H]].
  - left. apply Nat.ltb_lt in H. rewrite H. reflexivity.
  - rewrite H, Nat.ltb_irrefl, Nat.eqb_refl. simpl. destruct (Nat.le_ge_cases (e_end a) (e_end b)) as [L|L];
      apply Nat.leb_le in L; rewrite L; auto.
  - right. apply Nat.ltb_lt in H. rewrite H. reflexivity.
Qed.
Lemma key_le_trans a b c : key_le a b = true -> key_le b c = true -> key_le a c = true.
Proof.
  unfold key_le. rewrite !orb_true_iff, !andb_true_iff, !Nat.ltb_lt, !Nat.eqb_eq, !Nat.leb_le. lia.
Qed.
Lemma key_le_antisym a b : key_le a b = true -> key_le b a = true -> e_start a = e_start b /\ e_end a = e_end b.
Proof.
  unfold key_le. rewrite !orb_true_iff, !andb_true_iff, !Nat.ltb_lt, !Nat.eqb_eq, !Nat.leb_le. lia.
Qed.

Definition kle (a b : edit) : Prop := key_le a b = true.

Lemma insert_perm e l : Permutation (e :: l) (insert_edit e l).
Proof.
  induction l as [|x r IH]; simpl; [apply Permutation_refl|].
  destruct (key_le e x); [apply Permutation_refl|].
  eapply Permutation_trans; [apply perm_swap|]. apply perm_skip. exact IH.
Qed.
Lemma sort_perm l : Permutation l (sort_edits l).
Proof.
  induction l as [|e r IH]; simpl; [constructor|].
  eapply Permutation_trans; [apply perm_skip; exact IH|]. apply insert_perm.
Qed.

Inductive ssorted : list edit -> Prop :=
| ss_nil : ssorted []
| ss_cons e l : Forall (kle e) l -> ssorted l -> ssorted (e :: l).

Lemma insert_sorted e l : ssorted l -> ssorted (insert_edit e l).
Proof.
  induction 1 as [|x r Hx Hr IH]; simpl.
  - constructor; constructor.
  - destruct (key_le e x) eqn:E.
    + constructor; [|constructor; assumption]. constructor; [exact E|].
      eapply Forall_impl; [|exact Hx]. intros y Hy. eapply key_le_trans; eassumption.
    + constructor; [|exact IH].
      assert (Hxe : kle x e) by (destruct (key_le_total e x) as [H|H]; [congruence|exact H]).
      eapply Permutation_Forall; [apply insert_perm|]. constructor; assumption.
Qed.
Lemma sort_sorted l : ssorted (sort_edits l).
Proof. induction l; simpl; [constructor|apply insert_sorted; assumption]. Qed.

(* two sorted permutations of one another coincide when equal keys imply equal edits *)
Lemma sorted_perm_unique l1 : forall l2,
  ssorted l1 -> ssorted l2 -> Permutation l1 l2 ->
  (forall a b, In a l1 -> In b l1 -> e_start a = e_start b -> e_end a = e_end b -> a = b) ->
  l1 = l2.
Proof.
  induction l1 as [|a r1 IH]; intros l2 S1 S2 P Hk.
  - apply Permutation_nil in P. auto.
  - destruct l2 as [|b r2]; [apply Permutation_sym, Permutation_nil in P; discriminate|].
    inversion S1 as [|? ? Fa Sr1]; subst. inversion S2 as [|? ? Fb Sr2]; subst.
    assert (Hab : a = b).
    { assert (Ia : In a (b :: r2)) by (eapply Permutation_in; [exact P|left; reflexivity]).
      assert (Ib : In b (a :: r1)) by (eapply Permutation_in; [apply Permutation_sym; exact P|left; reflexivity]).
      destruct Ia as [->|Ia]; [reflexivity|]. destruct Ib as [->|Ib]; [reflexivity|].
      rewrite Forall_forall in Fa, Fb. specialize (Fa b Ib). specialize (Fb a Ia).
      destruct (key_le_antisym a b Fa Fb) as [Hs He].
      apply Hk; auto. left; reflexivity. right; exact Ib. }
    subst b. f_equal. apply IH; auto.
    + eapply Permutation_cons_inv; exact P.
    + intros x y Hx Hy. apply Hk; right; assumption.
Qed.

(* ---------- ForallOrdPairs under permutation (symmetric relation) ---------- *)
Lemma disjoint_sym a b : disjoint a b -> disjoint b a.
Proof. unfold disjoint. tauto. Qed.

Lemma FOP_cons_inv {A} (R : A -> A -> Prop) a l : ForallOrdPairs R (a :: l) -> Forall (R a) l /\ ForallOrdPairs R l.
Proof. intro H. inversion H; subst. auto. Qed.

Lemma FOP_perm l l' : Permutation l l' -> ForallOrdPairs disjoint l -> ForallOrdPairs disjoint l'.
Proof.
  induction 1 as [|x l l' P IH|x y l|l l' l'' P1 IH1 P2 IH2]; intro H.
  - exact H.
  - apply FOP_cons_inv in H as [Hx Hl]. constructor; [eapply Permutation_Forall; eassumption|auto].
  - apply FOP_cons_inv in H as [Hy H]. apply FOP_cons_inv in H as [Hx Hl].
    inversion Hy as [|? ? Hyx Hyl]; subst.
    constructor; [constructor; [apply disjoint_sym; exact Hyx|exact Hx]|]. constructor; assumption.
  - auto.
Qed.

Lemma edits_ok_perm n l l' : Permutation l l' -> edits_ok n l -> edits_ok n l'.
Proof. intros P [B D]. split; [eapply Permutation_Forall; eassumption|eapply FOP_perm; eassumption]. Qed.

(* ---------- check_sorted on a sorted list = the declarative condition ---------- *)
Lemma check_sorted_spec n : forall l cur,
  check_sorted n cur l = true ->
  Forall (in_bounds n) l /\ ForallOrdPairs disjoint l /\ Forall (fun e => cur <= e_start e) l.
Proof.
  induction l as [|e r IH]; intros cur H; simpl in H.
  - repeat split; constructor.
  - rewrite !andb_true_iff, !Nat.leb_le in H. destruct H as [[[Hc Hse] Hen] Hr].
    destruct (IH _ Hr) as (B & D & S). repeat split.
    + constructor; [split; assumption|exact B].
    + constructor; [|exact D]. eapply Forall_impl; [|exact S]. intros x Hx. left. exact Hx.
    + constructor; [exact Hc|]. eapply Forall_impl; [|exact S]. simpl. intros; lia.
Qed.

Lemma check_sorted_complete n : forall l cur,
  ssorted l -> Forall (in_bounds n) l -> ForallOrdPairs disjoint l -> Forall (fun e => cur <= e_start e) l ->
  check_sorted n cur l = true.
Proof.
  induction l as [|e r IH]; intros cur S B D C; simpl; [reflexivity|].
  inversion S as [|? ? Fe Sr]; subst. inversion B as [|? ? [Be1 Be2] Br]; subst.
  apply FOP_cons_inv in D as [De Dr]. inversion C as [|? ? Ce Cr]; subst.
  rewrite !andb_true_iff, !Nat.leb_le. repeat split; try assumption.
  apply IH; try assumption.
  rewrite Forall_forall in *. intros x Hx.
  specialize (Fe x Hx). specialize (De x Hx). specialize (Br x Hx). destruct Br as [Bx1 Bx2].
  unfold kle, key_le in Fe. rewrite orb_true_iff, andb_true_iff, Nat.ltb_lt, Nat.eqb_eq, Nat.leb_le in Fe.
  destruct De as [De|De]; [exact De|]. lia.
Qed.

Lemma apply_some_iff f es : (exists r, apply_edits f es = Some r) <-> edits_ok (length f) es.
Proof.
  unfold apply_edits. split.
  - intros [r H]. destruct (check_sorted (length f) 0 (sort_edits es)) eqn:E; [|discriminate].
    destruct (check_sorted_spec _ _ _ E) as (B & D & _).
    eapply edits_ok_perm; [apply Permutation_sym, sort_perm|]. split; assumption.
  - intro H. apply (edits_ok_perm _ _ _ (sort_perm es)) in H. destruct H as [B D].
    rewrite check_sorted_complete; eauto using sort_sorted.
    apply Forall_forall. intros; lia.
Qed.

(* out-of-bounds or overlapping edits are rejected, and nothing else is *)
Theorem overlap_detected f es : apply_edits f es = None <-> ~ edits_ok (length f) es.
Proof.
  rewrite <- apply_some_iff. destruct (apply_edits f es) as [r|]; split; intro H.
  - discriminate.
  - exfalso. apply H. eauto.
  - intros [r Hr]. discriminate.
  - reflexivity.
Qed.

(* the executable pairwise predicate used on observed fixes is the declarative one *)
Lemma pairwise_b_iff l : pairwise_b l = true <-> ForallOrdPairs disjoint l.
Proof.
  induction l as [|e r IH]; simpl.
  - split; [constructor|reflexivity].
  - rewrite andb_true_iff, IH, forallb_forall. split.
    + intros [H1 H2]. constructor; [|exact H2]. apply Forall_forall. intros x Hx. specialize (H1 x Hx).
      unfold disjoint_b in H1. rewrite orb_true_iff, !Nat.leb_le in H1. exact H1.
    + intro H. apply FOP_cons_inv in H as [H1 H2]. split; [|exact H2]. intros x Hx.
      rewrite Forall_forall in H1. specialize (H1 x Hx). unfold disjoint_b. rewrite orb_true_iff, !Nat.leb_le. exact H1.
Qed.
Theorem edits_ok_b_iff n es : edits_ok_b n es = true <-> edits_ok n es.
Proof.
  unfold edits_ok_b, edits_ok. rewrite andb_true_iff, pairwise_b_iff, forallb_forall, Forall_forall.
  unfold in_bounds_b, in_bounds. split; intros [H1 H2]; split; auto; intros x Hx; specialize (H1 x Hx).
  - rewrite andb_true_iff, !Nat.leb_le in H1. exact H1.
  - rewrite andb_true_iff, !Nat.leb_le. exact H1.
Qed.

(* ---------- order independence ---------- *)
Lemma FOP_In_disjoint l a b : ForallOrdPairs disjoint l -> In a l -> In b l -> a = b \/ disjoint a b.
Proof.
  intros H Ha Hb. destruct (ForallOrdPairs_In H a b Ha Hb) as [E|[D|D]]; auto. right. apply disjoint_sym. exact D.
Qed.

Theorem apply_perm_invariant f es es' :
  Permutation es es' -> inserts_unambiguous es -> apply_edits f es = apply_edits f es'.
Proof.
  intros P U.
  destruct (apply_edits f es) as [r|] eqn:E1.
  - assert (OK : edits_ok (length f) es) by (apply apply_some_iff; eauto).
    assert (Heq : sort_edits es = sort_edits es').
    { apply sorted_perm_unique; try apply sort_sorted.
      - eapply Permutation_trans; [apply Permutation_sym, sort_perm|].
        eapply Permutation_trans; [exact P|apply sort_perm].
      - intros a b Ha Hb Hs He.
        assert (Ia : In a es) by (eapply Permutation_in; [apply Permutation_sym, sort_perm|exact Ha]).
        assert (Ib : In b es) by (eapply Permutation_in; [apply Permutation_sym, sort_perm|exact Hb]).
        destruct OK as [B D]. rewrite Forall_forall in B.
        destruct (FOP_In_disjoint _ _ _ D Ia Ib) as [->|Dab]; [reflexivity|].
        destruct (B a Ia) as [Ba _]. destruct (B b Ib) as [Bb _].
        assert (is_insert a /\ is_insert b) as [Hia Hib] by (unfold is_insert, disjoint in *; lia).
        specialize (U a b Ia Ib Hia Hib Hs).
        destruct a, b; simpl in *; subst; reflexivity. }
    unfold apply_edits in *. rewrite <- Heq. symmetry. exact E1.
  - symmetry. apply overlap_detected. intro OK. apply overlap_detected in E1. apply E1.
    eapply edits_ok_perm; [apply Permutation_sym; exact P|exact OK].
Qed.

(* ---------- length ---------- *)
Lemma list_sum_perm l l' : Permutation l l' -> list_sum l = list_sum l'.
Proof. induction 1; simpl; lia. Qed.

Lemma splice_length f n : forall l cur,
  n = length f -> cur <= n -> check_sorted n cur l = true ->
  length (splice f cur l) + sum_del l = (n - cur) + sum_new l.
Proof.
  induction l as [|e r IH]; intros cur Hn Hc H; simpl.
  - rewrite skipn_length. unfold sum_del, sum_new. simpl. lia.
  - simpl in H. rewrite !andb_true_iff, !Nat.leb_le in H. destruct H as [[[H1 H2] H3] H4].
    rewrite !app_length, firstn_length, skipn_length.
    specialize (IH (e_end e) Hn H3 H4). unfold sum_del, sum_new in *. simpl. lia.
Qed.

Theorem apply_length f es r :
  apply_edits f es = Some r -> length r + sum_del es = length f + sum_new es.
Proof.
  unfold apply_edits. intro H. destruct (check_sorted (length f) 0 (sort_edits es)) eqn:E; [|discriminate].
  inversion H; subst. pose proof (splice_length f (length f) _ 0 eq_refl (Nat.le_0_l _) E) as L.
  unfold sum_del, sum_new in *.
  rewrite (list_sum_perm _ _ (Permutation_map (fun e => e_end e - e_start e) (sort_perm es))).
  rewrite (list_sum_perm _ _ (Permutation_map (fun e => length (e_new e)) (sort_perm es))). lia.
Qed.

(* ---------- untouched bytes ---------- *)
Lemma before_zero n : forall l cur o,
  check_sorted n cur l = true -> o < cur -> ins_before l o = 0 /\ del_before l o = 0.
Proof.
  induction l as [|e r IH]; intros cur o H Ho; [split; reflexivity|].
  simpl in H. rewrite !andb_true_iff, !Nat.leb_le in H. destruct H as [[[H1 H2] H3] H4].
  destruct (IH (e_end e) o H4 ltac:(lia)) as [I D]. unfold ins_before, del_before in *. simpl.
  destruct (e_end e <=? o) eqn:E; [apply Nat.leb_le in E; lia|]. rewrite I, D. auto.
Qed.

Lemma del_before_bound n : forall l cur o,
  check_sorted n cur l = true -> cur <= o -> del_before l o <= o - cur.
Proof.
  induction l as [|e r IH]; intros cur o H Ho; [unfold del_before; simpl; lia|].
  pose proof H as H0. simpl in H. rewrite !andb_true_iff, !Nat.leb_le in H. destruct H as [[[H1 H2] H3] H4].
  unfold del_before in *. simpl. destruct (e_end e <=? o) eqn:E.
  - apply Nat.leb_le in E. specialize (IH (e_end e) o H4 E). lia.
  - apply Nat.leb_gt in E. destruct (before_zero n r (e_end e) o H4 E) as [_ D]. unfold del_before in D. rewrite D. lia.
Qed.

Lemma nth_error_skipn {A} (l : list A) : forall k i, nth_error (skipn k l) i = nth_error l (k + i).
Proof. induction l as [|x l IH]; intros [|k] i; simpl; auto. destruct i; reflexivity. Qed.

Lemma nth_error_firstn {A} (l : list A) : forall k i, i < k -> nth_error (firstn k l) i = nth_error l i.
Proof.
  induction l as [|x l IH]; intros [|k] i Hi; simpl; try lia; auto.
  destruct i; simpl; auto. apply IH. lia.
Qed.

Lemma splice_untouched f n : forall l cur o,
  n = length f -> check_sorted n cur l = true -> cur <= o -> o < n -> untouched l o ->
  nth_error (splice f cur l) (o - cur + ins_before l o - del_before l o) = nth_error f o.
Proof.
  induction l as [|e r IH]; intros cur o Hn H Hc Ho U.
  - simpl. unfold ins_before, del_before. simpl. rewrite nth_error_skipn. f_equal. lia.
  - pose proof H as H0. simpl in H. rewrite !andb_true_iff, !Nat.leb_le in H. destruct H as [[[H1 H2] H3] H4].
    assert (Ue : ~ (e_start e <= o /\ o < e_end e)) by (apply U; left; reflexivity).
    assert (Ur : untouched r o) by (intros x Hx; apply U; right; exact Hx).
    simpl. unfold ins_before, del_before. simpl. fold (ins_before r o) (del_before r o).
    destruct (e_end e <=? o) eqn:E.
    + apply Nat.leb_le in E.
      pose proof (del_before_bound n r (e_end e) o H4 E) as DB.
      specialize (IH (e_end e) o Hn H4 E Ho Ur).
      assert (Lf : length (firstn (e_start e - cur) (skipn cur f)) = e_start e - cur).
      { rewrite firstn_length, skipn_length. lia. }
      rewrite nth_error_app2; [|rewrite Lf; lia]. rewrite Lf.
      rewrite nth_error_app2; [|lia].
      rewrite <- IH. f_equal. lia.
    + apply Nat.leb_gt in E. assert (Hlt : o < e_start e) by lia.
      destruct (before_zero n r (e_end e) o H4 E) as [I D]. rewrite I, D.
      rewrite nth_error_app1; [|rewrite firstn_length, skipn_length; lia].
      rewrite nth_error_firstn by lia. rewrite nth_error_skipn. f_equal. lia.
Qed.

Lemma untouched_perm l l' o : Permutation l l' -> untouched l o -> untouched l' o.
Proof. intros P U e He. apply U. eapply Permutation_in; [apply Permutation_sym; exact P|exact He]. Qed.

(* every byte outside all edit ranges survives, at its offset shifted by what was inserted/deleted before it *)
Theorem apply_untouched f es r o :
  apply_edits f es = Some r -> o < length f -> untouched es o ->
  nth_error r (shifted es o) = nth_error f o.
Proof.
  unfold apply_edits, shifted. intros H Ho U.
  destruct (check_sorted (length f) 0 (sort_edits es)) eqn:E; [|discriminate]. inversion H; subst.
  pose proof (splice_untouched f (length f) (sort_edits es) 0 o eq_refl E (Nat.le_0_l _) Ho
                (untouched_perm _ _ _ (sort_perm es) U)) as S.
  unfold ins_before, del_before in *.
  rewrite (list_sum_perm _ _ (Permutation_map (fun e => if e_end e <=? o then length (e_new e) else 0) (sort_perm es))).
  rewrite (list_sum_perm _ _ (Permutation_map (fun e => if e_end e <=? o then e_end e - e_start e else 0) (sort_perm es))).
  rewrite <- S. f_equal. lia.
Qed.

(* the subtraction in [shifted] never truncates *)
Lemma shifted_no_truncation f es r o :
  apply_edits f es = Some r -> del_before es o <= o.
Proof.
  unfold apply_edits. intro H. destruct (check_sorted (length f) 0 (sort_edits es)) eqn:E; [|discriminate].
  pose proof (del_before_bound _ _ 0 o E (Nat.le_0_l _)) as B. unfold del_before in *.
  rewrite (list_sum_perm _ _ (Permutation_map (fun e => if e_end e <=? o then e_end e - e_start e else 0) (sort_perm es))). lia.
Qed.
