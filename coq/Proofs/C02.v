(* C02 — soundness of the SSA validator [wf_ssa] (Model/C02.v): acceptance implies the semantic
   properties, for every function and every path. *)
From Coq Require Import List NArith Bool Lia Arith Permutation.
Import ListNotations.
Require Import Verif.Lib.Graphs Verif.Model.C02 Verif.Proofs.C02_Paths.
Local Open Scope N_scope.

(* ------------------------------------------------------------------ list helpers *)
Lemma flat_map_nil : forall {A B} (g : A -> list B) l, flat_map g l = [] -> forall x, In x l -> g x = [].
Proof.
  intros A B g; induction l as [|a t IH]; intros H x Hin; [destruct Hin|].
  simpl in H. apply app_eq_nil in H as [Ha Ht]. destruct Hin as [<-|Hin]; auto.
Qed.

Lemma number_from_In : forall {A} (l : list A) s k a,
  In (k, a) (number_from s l) <-> s <= k /\ nth_error l (N.to_nat (k - s)) = Some a.
Proof.
  intros A; induction l as [|x t IH]; intros s k a; simpl.
  - split; [tauto|]. intros [_ H]. destruct (N.to_nat (k - s)); discriminate.
  - rewrite IH. split.
    + intros [E|[Hle Hn]].
      * injection E as <- <-. split; [lia|]. now rewrite N.sub_diag.
      * split; [lia|]. replace (N.to_nat (k - s)) with (S (N.to_nat (k - N.succ s))) by lia. assumption.
    + intros [Hle Hn]. destruct (N.eq_dec k s) as [->|Hne].
      * left. rewrite N.sub_diag in Hn. simpl in Hn. now injection Hn as ->.
      * right. split; [lia|]. replace (N.to_nat (k - s)) with (S (N.to_nat (k - N.succ s))) in Hn by lia. assumption.
Qed.

Lemma number_from_snd : forall {A} (l : list A) s, map snd (number_from s l) = l.
Proof. intros A; induction l as [|x t IH]; intros s; simpl; [reflexivity|now rewrite IH]. Qed.

Lemma nth_error_nth_N : forall {A} (l : list A) k d a, nth_error l (N.to_nat k) = Some a -> nth_N k l d = a.
Proof. intros; unfold nth_N; now apply nth_error_nth. Qed.

Section Facts.
Variable T : tytable.
Variable f : func.

Lemma ipoints_In : forall b k i, In (b, k, i) (ipoints f) <-> instr_at f b k = Some i.
Proof.
  intros b k i. unfold ipoints, instr_at, blk. rewrite in_flat_map. split.
  - intros ((b', bl) & Hb & Hin). simpl in Hin. apply in_map_iff in Hin as ((k', i') & E & Hk).
    simpl in E. injection E as <- <- <-.
    apply number_from_In in Hb as [_ Hb]. apply number_from_In in Hk as [_ Hk].
    rewrite N.sub_0_r in *. now rewrite (nth_error_nth_N _ _ _ _ Hb).
  - intros H. destruct (nth_error (f_blocks f) (N.to_nat b)) as [bl|] eqn:Hb.
    + exists (b, bl). split; [apply number_from_In; split; [lia|now rewrite N.sub_0_r]|].
      simpl. apply in_map_iff. exists (k, i). split; [reflexivity|].
      apply number_from_In. split; [lia|]. rewrite N.sub_0_r.
      now rewrite (nth_error_nth_N _ _ (mkB 0 [] [] []) _ Hb) in H.
    + exfalso. unfold nth_N in H. rewrite nth_overflow in H by (now apply nth_error_None). simpl in H.
      destruct (N.to_nat k); discriminate.
Qed.

Lemma ipoints_instrs : map snd (ipoints f) = all_instrs f.
Proof.
  unfold ipoints, all_instrs.
  assert (H : forall s l, map snd (flat_map (fun nb : N * block =>
              map (fun ki => (fst nb, fst ki, snd ki)) (number_from 0 (b_instrs (snd nb)))) (number_from s l))
            = flat_map b_instrs l).
  { intros s l; revert s; induction l as [|bl t IH]; intros s; simpl; [reflexivity|].
    rewrite map_app, IH. f_equal. rewrite map_map. simpl. apply number_from_snd. }
  apply H.
Qed.

Lemma numbering_nth : numbering_ok f = true -> forall p i, nth_error (all_instrs f) p = Some i -> i_seq i = N.of_nat p.
Proof.
  unfold numbering_ok. generalize (all_instrs f) as l. intros l.
  assert (H : forall k, (fix go (k : N) (l : list instr) : bool :=
                 match l with [] => true | i :: t => (i_seq i =? k) && go (N.succ k) t end) k l = true ->
               forall p i, nth_error l p = Some i -> i_seq i = k + N.of_nat p).
  { induction l as [|x t IH]; intros k Hgo p i Hn; [destruct p; discriminate|].
    apply andb_true_iff in Hgo as [H1 H2]. destruct p as [|p]; simpl in Hn.
    - injection Hn as <-. apply N.eqb_eq in H1. lia.
    - rewrite (IH _ H2 p i Hn). lia. }
  intros Hgo p i Hn. now rewrite (H 0 Hgo p i Hn).
Qed.

(* the location table maps the sequence number of an instruction to its program point *)
Lemma locs_spec : numbering_ok f = true -> forall s, s < len_N (all_instrs f) ->
  exists D k idef, instr_at f D k = Some idef /\ i_seq idef = s /\
                   nth_N s (locs f) (0, 0, false) = (D, k, is_value idef).
Proof.
  intros Hnum s Hs. unfold len_N in Hs. rewrite <- ipoints_instrs, map_length in Hs.
  destruct (nth_error (ipoints f) (N.to_nat s)) as [[[D k] idef]|] eqn:Hn;
    [|apply nth_error_None in Hn; lia].
  exists D, k, idef. split; [apply ipoints_In; eapply nth_error_In; eauto|]. split.
  - assert (Hi : nth_error (all_instrs f) (N.to_nat s) = Some idef)
      by (rewrite <- ipoints_instrs, nth_error_map, Hn; reflexivity).
    rewrite (numbering_nth Hnum _ _ Hi). lia.
  - unfold locs. apply nth_error_nth_N. now rewrite nth_error_map, Hn.
Qed.

End Facts.

(* ------------------------------------------------------------------ what acceptance gives *)
Record accepted_facts (T : tytable) (f : func) (d : cfg_dom) : Prop := mkFacts {
  af_struct : structural_diag f = [];
  af_dom : cfg_dominance (cfg_of f) (f_rec f) = Some d;
  af_disj : N.land (cd_E d) (cd_R d) = 0;
  af_scope : scope_diag f = [];
  af_refs : refs_diag f = [];
  af_domuse : domuse_diag f d = [];
  af_type : type_diag T f = []
}.

Lemma wf_ssa_facts : forall T f, wf_ssa T f = true -> exists d, accepted_facts T f d.
Proof.
  unfold wf_ssa, wf_diag; intros T f H.
  destruct (structural_diag f) eqn:Hs; [|simpl in H; discriminate].
  destruct (cfg_dominance (cfg_of f) (f_rec f)) as [d|] eqn:Hd; [|simpl in H; discriminate].
  destruct (N.land (cd_E d) (cd_R d) =? 0) eqn:Hl; [|simpl in H; discriminate]. simpl in H.
  destruct (scope_diag f) eqn:Hsc; [|simpl in H; discriminate].
  destruct (refs_diag f ++ domuse_diag f d ++ type_diag T f) eqn:Hr; [|simpl in H; discriminate].
  apply app_eq_nil in Hr as [Hr1 Hr]. apply app_eq_nil in Hr as [Hr2 Hr3].
  exists d. constructor; auto. now apply N.eqb_eq.
Qed.

Lemma structural_parts : forall f, structural_diag f = [] ->
  numbering_ok f = true /\ nodupN (map i_id (all_instrs f)) = true /\
  (forall b bl, nth_error (f_blocks f) (N.to_nat b) = Some bl ->
     b_index bl = b /\
     terminator_ok (b_instrs bl) (len_N (b_succs bl)) = true /\
     phi_shape_ok (b_instrs bl) (len_N (b_preds bl)) false = true /\
     predsucc_ok f b bl = true) /\
  (forall i, In i (all_instrs f) -> kind_eqb (i_kind i) KBad = false).
Proof.
  unfold structural_diag; intros f H.
  apply app_eq_nil in H as [H1 H]. apply app_eq_nil in H as [H2 H]. apply app_eq_nil in H as [H3 H].
  apply app_eq_nil in H as [H4 H]. apply app_eq_nil in H as [H5 H6].
  destruct (numbering_ok f && nodupN (map i_id (all_instrs f))) eqn:Hn; [|discriminate].
  apply andb_true_iff in Hn as [Hn1 Hn2].
  split; [assumption|]. split; [assumption|]. split; [intros b bl H; repeat split|intros i H0].
  - assert (Hin : In (b, bl) (idx_blocks f)) by (apply number_from_In; split; [lia|now rewrite N.sub_0_r]).
    pose proof (flat_map_nil _ _ H2 _ Hin) as E. simpl in E.
    destruct (b_index bl =? b) eqn:Eb; [now apply N.eqb_eq|discriminate].
  - assert (Hin : In (b, bl) (idx_blocks f)) by (apply number_from_In; split; [lia|now rewrite N.sub_0_r]).
    pose proof (flat_map_nil _ _ H4 _ Hin) as E. simpl in E.
    destruct (terminator_ok (b_instrs bl) (len_N (b_succs bl))); [reflexivity|discriminate].
  - assert (Hin : In (b, bl) (idx_blocks f)) by (apply number_from_In; split; [lia|now rewrite N.sub_0_r]).
    pose proof (flat_map_nil _ _ H5 _ Hin) as E. simpl in E.
    destruct (phi_shape_ok (b_instrs bl) (len_N (b_preds bl)) false); [reflexivity|discriminate].
  - assert (Hin : In (b, bl) (idx_blocks f)) by (apply number_from_In; split; [lia|now rewrite N.sub_0_r]).
    pose proof (flat_map_nil _ _ H6 _ Hin) as E. simpl in E.
    destruct (predsucc_ok f b bl); [reflexivity|discriminate].
  - pose proof (flat_map_nil _ _ H3 _ H0) as E. simpl in E.
    destruct (kind_eqb (i_kind i) KBad); [discriminate|reflexivity].
Qed.

(* ------------------------------------------------------------------ def dominates use *)
Section DefUse.
Variable T : tytable.
Variable f : func.
Variable d : cfg_dom.
Hypothesis AF : accepted_facts T f d.

Let g := cfg_of f.
Let rows := cd_rows d.
Let E := cd_E d.

Lemma blk_some : forall b bl, nth_error (f_blocks f) (N.to_nat b) = Some bl -> blk f b = bl.
Proof. intros; unfold blk; now apply nth_error_nth_N. Qed.

Lemma nnodes_cfg : nnodes g = len_N (f_blocks f).
Proof. unfold g, nnodes, cfg_of, len_N. now rewrite map_length. Qed.

Lemma instr_at_range : forall b k i, instr_at f b k = Some i -> b < nnodes g /\ k < blen f b.
Proof.
  intros b k i H. rewrite nnodes_cfg. unfold instr_at, blen, len_N in *.
  assert (Hk : (N.to_nat k < length (b_instrs (blk f b)))%nat) by (apply nth_error_Some; congruence).
  split; [|lia]. unfold blk, nth_N in *.
  destruct (lt_dec (N.to_nat b) (length (f_blocks f))) as [|Hge]; [lia|].
  rewrite nth_overflow in Hk by lia. simpl in Hk. lia.
Qed.

Lemma E_spec : forall c, N.testbit E c = true <-> reachable g 0 c.
Proof. destruct (cfg_dominance_correct _ _ _ (af_dom _ _ _ AF)) as (_ & _ & _ & _ & HE & _). exact HE. Qed.

Lemma rows_spec : forall b c, b < nnodes g -> c < nnodes g ->
  (N.testbit (row rows b) c = true <-> Dominates g (f_rec f) b c).
Proof. destruct (cfg_dominance_correct _ _ _ (af_dom _ _ _ AF)) as (_ & _ & _ & _ & _ & _ & H). exact H. Qed.

Lemma regions_disjoint : forall rc c, f_rec f = Some rc -> reachable g 0 c -> reachable g rc c -> False.
Proof.
  intros rc c Hr H0 H1. apply E_spec in H0.
  apply (cfg_dominance_R _ _ _ (af_dom _ _ _ AF) rc Hr) in H1.
  pose proof (af_disj _ _ _ AF) as Hl.
  assert (Hb : N.testbit (N.land (cd_E d) (cd_R d)) c = true) by (rewrite N.land_spec; fold E; now rewrite H0, H1).
  rewrite Hl, N.bits_0 in Hb. discriminate.
Qed.

Lemma path_end_range : forall r c l, r < nnodes g -> path g r c l -> c < nnodes g.
Proof.
  intros r c l Hr Hp. destruct (cfg_dominance_correct _ _ _ (af_dom _ _ _ AF)) as (Hok & _).
  apply (path_in_range g r c l Hok Hr Hp). eapply path_in_end; eauto.
Qed.

(* [avail D k B]: the definition at (D,k) has been executed whenever control is anywhere in block B,
   B <> D, on every walk *)
Lemma avail_sound : forall D k B j, D <> B -> D < nnodes g -> B < nnodes g -> k < blen f D ->
  avail rows E (defer_points f E) D k B = true ->
  forall h, ipath f (B, j) h -> In (D, k) h.
Proof.
  intros D k B j Hne HD HB Hk Hav h Hp. unfold avail in Hav. apply orb_true_iff in Hav as [Hrow|Hrec].
  - (* plain dominance w.r.t. the root of B's region *)
    apply (rows_spec D B HD HB) in Hrow.
    destruct (ipath_last_panic f _ _ Hp) as [Hpp|(rc & h2 & p1 & h1 & Hr & -> & Hpp)].
    + destruct Hrow as [(_ & Hdom)|(Hnr & _)].
      * now apply (ppath_dominator f 0 (B, j) h D k Hpp Hdom Hne Hk).
      * exfalso. apply Hnr. apply (ppath_reach f _ _ _ Hpp).
    + apply in_or_app; left. destruct Hrow as [(Hr0 & _)|(_ & rc' & Hr' & Hdom)].
      * exfalso. apply (regions_disjoint rc B Hr Hr0). apply (ppath_reach f _ _ _ Hpp).
      * rewrite Hr in Hr'; injection Hr' as <-.
        now apply (ppath_dominator f rc (B, j) h2 D k Hpp Hdom Hne Hk).
  - (* use in the recover region of a definition of the entry region *)
    apply andb_true_iff in Hrec as [Hrec Hall]. apply andb_true_iff in Hrec as [HnB HDE].
    apply negb_true_iff in HnB.
    destruct (ipath_first_panic f _ _ Hp) as [Hpp|(h2 & p1 & h1 & -> & Hpp & q & Hq & (iq & Hiq & Hdl))].
    + exfalso. assert (N.testbit E B = true) by (apply E_spec; apply (ppath_reach f _ _ _ Hpp)). congruence.
    + apply in_or_app; right.
      destruct (ppath_split f 0 _ _ Hpp q Hq) as (h' & h'' & Esplit & Hq').
      assert (Hsub : forall x, In x h' -> In x (p1 :: h1)).
      { intros x Hx. rewrite Esplit. apply in_or_app; right; now right. }
      apply Hsub. destruct q as [b i]. simpl in *.
      assert (HbE : N.testbit E b = true) by (apply E_spec; apply (ppath_reach f _ _ _ Hq')).
      assert (Hdp : In (b, i) (defer_points f E)).
      { unfold defer_points. apply in_flat_map. exists (b, i, iq). split; [now apply ipoints_In|].
        simpl. rewrite Hdl, HbE. now left. }
      rewrite forallb_forall in Hall. specialize (Hall _ Hdp). simpl in Hall.
      destruct (D =? b) eqn:EDb.
      * apply N.eqb_eq in EDb; subst b. apply N.ltb_lt in Hall.
        apply (ppath_prefix f _ _ _ Hq'). simpl. assumption.
      * apply N.eqb_neq in EDb.
        destruct (instr_at_range _ _ _ Hiq) as (Hb & _).
        apply (rows_spec D b HD Hb) in Hall.
        destruct Hall as [(_ & Hdom)|(Hnr & _)].
        -- now apply (ppath_dominator f 0 (b, i) h' D k Hq' Hdom EDb Hk).
        -- exfalso. apply Hnr. now apply E_spec.
Qed.

(* operands that are instructions denote value-defining instructions of this function, located by [locs] *)
Lemma operand_def : forall i s ty, In i (all_instrs f) -> In (VI s, ty) (i_ops i) ->
  exists D k idef, instr_at f D k = Some idef /\ i_seq idef = s /\ is_value idef = true /\
                   loc_of (locs f) s = (D, k).
Proof.
  intros i s ty Hi Hop.
  destruct (structural_parts f (af_struct _ _ _ AF)) as (Hnum & _).
  pose proof (flat_map_nil _ _ (af_scope _ _ _ AF) _ Hi) as Hs. simpl in Hs.
  destruct (scope_ok f (locs f) (len_N (all_instrs f)) i) eqn:Hsc; [|discriminate].
  unfold scope_ok in Hsc. rewrite forallb_forall in Hsc. specialize (Hsc _ Hop). simpl in Hsc.
  apply andb_true_iff in Hsc as [Hlt Hval]. apply N.ltb_lt in Hlt.
  destruct (locs_spec f Hnum s Hlt) as (D & k & idef & Hat & Hseq & Hloc).
  exists D, k, idef. repeat split; auto.
  - rewrite Hloc in Hval. exact Hval.
  - unfold loc_of. now rewrite Hloc.
Qed.

Lemma instr_at_in : forall b k i, instr_at f b k = Some i -> In i (all_instrs f).
Proof.
  intros b k i H. rewrite <- ipoints_instrs. apply in_map_iff. exists (b, k, i). split; [reflexivity|].
  now apply ipoints_In.
Qed.

Lemma domuse_at : forall b k i, instr_at f b k = Some i ->
  dom_use_ok rows E (defer_points f E) (locs f) b k (blk f b) i = true.
Proof.
  intros b k i H. apply ipoints_In in H.
  pose proof (flat_map_nil _ _ (af_domuse _ _ _ AF) _ H) as Hd. simpl in Hd.
  unfold blk, dflt_block in *. fold rows E in Hd.
  destruct (dom_use_ok rows E (defer_points f E) (locs f) b k (nth_N b (f_blocks f) (mkB 0 [] [] [])) i);
    [reflexivity|discriminate].
Qed.

(* Every execution that reaches a (non-phi) use has executed the definition of each operand. *)
Theorem def_before_use : forall B j i s ty,
  instr_at f B j = Some i -> kind_eqb (i_kind i) KPhi = false -> In (VI s, ty) (i_ops i) ->
  exists D k idef, instr_at f D k = Some idef /\ i_seq idef = s /\ is_value idef = true /\
    forall h, ipath f (B, j) h -> In (D, k) h.
Proof.
  intros B j i s ty Hat Hk Hop.
  destruct (operand_def i s ty (instr_at_in _ _ _ Hat) Hop) as (D & k & idef & Hdat & Hseq & Hval & Hloc).
  exists D, k, idef. repeat split; auto. intros h Hp.
  pose proof (domuse_at _ _ _ Hat) as Hd. unfold dom_use_ok in Hd. rewrite Hk in Hd.
  rewrite forallb_forall in Hd. specialize (Hd _ Hop). simpl in Hd. rewrite Hloc in Hd.
  destruct (instr_at_range _ _ _ Hat) as (HB & _). destruct (instr_at_range _ _ _ Hdat) as (HD & HkD).
  destruct (D =? B) eqn:EDB.
  - apply N.eqb_eq in EDB; subst D. apply N.ltb_lt in Hd.
    apply (ipath_prefix f _ _ Hp). simpl. assumption.
  - apply N.eqb_neq in EDB. now apply (avail_sound D k B j EDB HD HB HkD Hd).
Qed.

(* Phi: every execution that reaches the end of the e-th predecessor has executed the definition of the
   e-th edge. *)
Theorem def_before_phi_edge : forall B j i e s ty P,
  instr_at f B j = Some i -> kind_eqb (i_kind i) KPhi = true ->
  nth_error (i_ops i) e = Some (VI s, ty) -> nth_error (b_preds (blk f B)) e = Some P ->
  exists D k idef, instr_at f D k = Some idef /\ i_seq idef = s /\ is_value idef = true /\
    forall h last, last + 1 = blen f P -> ipath f (P, last) h -> In (D, k) ((P, last) :: h).
Proof.
  intros B j i e s ty P Hat Hk Hop HP.
  destruct (operand_def i s ty (instr_at_in _ _ _ Hat) (nth_error_In _ _ Hop)) as (D & k & idef & Hdat & Hseq & Hval & Hloc).
  exists D, k, idef. repeat split; auto. intros h last Hlast Hp.
  pose proof (domuse_at _ _ _ Hat) as Hd. unfold dom_use_ok in Hd. rewrite Hk in Hd.
  rewrite forallb_forall in Hd.
  assert (Hin : In ((VI s, ty), P) (combine (i_ops i) (b_preds (blk f B)))).
  { clear -Hop HP. revert e Hop HP. generalize (i_ops i) (b_preds (blk f B)).
    induction l as [|x t IH]; intros l' e Hop HP; [destruct e; discriminate|].
    destruct l' as [|y t']; [destruct e; discriminate|]. destruct e as [|e]; simpl in *.
    - injection Hop as ->. injection HP as ->. now left.
    - right. eapply IH; eauto. }
  specialize (Hd _ Hin). simpl in Hd. rewrite Hloc in Hd.
  destruct (instr_at_range _ _ _ Hdat) as (HD & HkD).
  destruct (D =? P) eqn:EDP.
  - apply N.eqb_eq in EDP; subst D. destruct (N.eq_dec k last) as [->|Hne]; [now left|right].
    apply (ipath_prefix f _ _ Hp). simpl. lia.
  - simpl in Hd. apply N.eqb_neq in EDP. right.
    (* P is a block of the function: it is a predecessor listed by block B, whose Preds are in range *)
    destruct (instr_at_range _ _ _ Hat) as (HB & _).
    destruct (structural_parts f (af_struct _ _ _ AF)) as (_ & _ & Hblocks & _).
    assert (HBl : exists bl, nth_error (f_blocks f) (N.to_nat B) = Some bl).
    { rewrite nnodes_cfg in HB. unfold len_N in HB.
      destruct (nth_error (f_blocks f) (N.to_nat B)) eqn:En; [eauto|]. apply nth_error_None in En. lia. }
    destruct HBl as (bl & Hbl). destruct (Hblocks B bl Hbl) as (_ & _ & _ & Hps).
    rewrite (blk_some _ _ Hbl) in HP. unfold predsucc_ok in Hps. apply andb_true_iff in Hps as [_ Hps].
    rewrite forallb_forall in Hps. specialize (Hps P (nth_error_In _ _ HP)).
    apply andb_true_iff in Hps as [HPn _]. apply N.ltb_lt in HPn. rewrite <- nnodes_cfg in HPn.
    now apply (avail_sound D k P last EDP HD HPn HkD Hd).
Qed.

End DefUse.

(* ------------------------------------------------------------------ inverse relations *)
Lemma count_pos_In : forall x l, count x l <> 0 <-> In x l.
Proof.
  intros x; induction l as [|y t IH]; simpl; [tauto|].
  destruct (x =? y) eqn:E.
  - apply N.eqb_eq in E; subst. split; [now left|intros _; lia].
  - apply N.eqb_neq in E. rewrite IH. split; [now right|intros [H|H]; [congruence|assumption]].
Qed.

Lemma count_count_occ : forall x l, N.to_nat (count x l) = count_occ N.eq_dec l x.
Proof.
  intros x; induction l as [|y t IH]; simpl; [reflexivity|].
  destruct (N.eq_dec y x) as [->|Hne].
  - rewrite N.eqb_refl. lia.
  - replace (x =? y) with false by (symmetry; apply N.eqb_neq; congruence). assumption.
Qed.

Lemma same_multiset_perm : forall a b, same_multiset a b = true -> Permutation a b.
Proof.
  unfold same_multiset; intros a b H. apply (Permutation_count_occ N.eq_dec). intros x.
  rewrite <- !count_count_occ. f_equal. rewrite forallb_forall in H.
  destruct (in_dec N.eq_dec x (a ++ b)) as [Hin|Hnin].
  - now apply N.eqb_eq, H.
  - assert (Ha : count x a = 0).
    { destruct (N.eq_dec (count x a) 0); [assumption|]. exfalso; apply Hnin, in_or_app; left. now apply count_pos_In. }
    assert (Hb : count x b = 0).
    { destruct (N.eq_dec (count x b) 0); [assumption|]. exfalso; apply Hnin, in_or_app; right. now apply count_pos_In. }
    congruence.
Qed.

(* the users of a value, one entry per operand slot holding it, in instruction order *)
Definition uses (f : func) (v : vref) : list N :=
  flat_map (fun j => flat_map (fun op => if vref_eqb v (fst op) then [i_seq j] else []) (i_ops j)) (all_instrs f).

Lemma users_of_uses : forall f v, users_of v (use_pairs f) = uses f v.
Proof.
  intros f v. unfold users_of, use_pairs, uses. induction (all_instrs f) as [|j t IH]; [reflexivity|].
  simpl. rewrite filter_app, map_app, IH. f_equal.
  induction (i_ops j) as [|op ops IHo]; [reflexivity|]. simpl.
  destruct (vref_eqb v (fst op)); simpl; now rewrite IHo.
Qed.

Section Inverse.
Variable T : tytable.
Variable f : func.
Variable d : cfg_dom.
Hypothesis AF : accepted_facts T f d.

Theorem preds_succs_inverse : forall a b bla blb,
  nth_error (f_blocks f) (N.to_nat a) = Some bla -> nth_error (f_blocks f) (N.to_nat b) = Some blb ->
  count b (b_succs bla) = count a (b_preds blb).
Proof.
  intros a b bla blb Ha Hb.
  destruct (structural_parts f (af_struct _ _ _ AF)) as (_ & _ & Hblocks & _).
  destruct (Hblocks a bla Ha) as (_ & _ & _ & Hpa). destruct (Hblocks b blb Hb) as (_ & _ & _ & Hpb).
  unfold predsucc_ok in *. apply andb_true_iff in Hpa as [Hpa _]. apply andb_true_iff in Hpb as [_ Hpb].
  rewrite forallb_forall in Hpa, Hpb.
  destruct (in_dec N.eq_dec b (b_succs bla)) as [Hin|Hnin].
  - specialize (Hpa b Hin). apply andb_true_iff in Hpa as [_ Hpa]. apply N.eqb_eq in Hpa.
    now rewrite (nth_error_nth_N _ _ (mkB 0 [] [] []) _ Hb) in Hpa.
  - destruct (in_dec N.eq_dec a (b_preds blb)) as [Hin'|Hnin'].
    + specialize (Hpb a Hin'). apply andb_true_iff in Hpb as [_ Hpb]. apply N.eqb_eq in Hpb.
      now rewrite (nth_error_nth_N _ _ (mkB 0 [] [] []) _ Ha) in Hpb.
    + assert (count b (b_succs bla) = 0)
        by (destruct (N.eq_dec (count b (b_succs bla)) 0); [assumption|exfalso; now apply Hnin, count_pos_In]).
      assert (count a (b_preds blb) = 0)
        by (destruct (N.eq_dec (count a (b_preds blb)) 0); [assumption|exfalso; now apply Hnin', count_pos_In]).
      congruence.
Qed.

(* edges stay inside the function and BasicBlock.Index is the position *)
Theorem block_index_is_position : forall b bl, nth_error (f_blocks f) (N.to_nat b) = Some bl -> b_index bl = b.
Proof.
  intros b bl Hb. destruct (structural_parts f (af_struct _ _ _ AF)) as (_ & _ & Hblocks & _).
  now destruct (Hblocks b bl Hb).
Qed.

Lemma refs_ok_perm : forall total v r, refs_ok total (use_pairs f) v r = true ->
  Permutation r (uses f v) /\ forall x, In x r -> x < total.
Proof.
  unfold refs_ok; intros total v r H. apply andb_true_iff in H as [H1 H2]. split.
  - rewrite <- users_of_uses. now apply same_multiset_perm.
  - intros x Hx. rewrite forallb_forall in H1. now apply N.ltb_lt, H1.
Qed.

(* Referrers of a value-defining instruction = its users, as multisets; instructions that define no
   value have no referrer list and no type. *)
Theorem instr_referrers_inverse : forall i, In i (all_instrs f) ->
  match i_refs i with
  | Some r => Permutation r (uses f (VI (i_seq i))) /\ i_ty i <> 0
  | None => i_ty i = 0
  end.
Proof.
  intros i Hi. pose proof (af_refs _ _ _ AF) as H. unfold refs_diag in H.
  apply app_eq_nil in H as [H _]. pose proof (flat_map_nil _ _ H _ Hi) as E. simpl in E.
  destruct (instr_refs_ok (len_N (all_instrs f)) (use_pairs f) i) eqn:Hok; [|discriminate].
  unfold instr_refs_ok in Hok. destruct (i_refs i) as [r|].
  - apply andb_true_iff in Hok as [H1 H2]. split; [now apply (refs_ok_perm _ _ _ H1)|].
    apply negb_true_iff in H2. now apply N.eqb_neq.
  - now apply N.eqb_eq.
Qed.

Lemma local_refs_perm : forall total k ctor ls, local_refs_diag total (use_pairs f) k ctor ls = [] ->
  forall n l, nth_error ls (N.to_nat n) = Some l -> Permutation (l_refs l) (uses f (ctor n)).
Proof.
  unfold local_refs_diag; intros total k ctor ls H n l Hn.
  assert (Hin : In (n, l) (number_from 0 ls)) by (apply number_from_In; split; [lia|now rewrite N.sub_0_r]).
  pose proof (flat_map_nil _ _ H _ Hin) as E. simpl in E.
  destruct (refs_ok total (use_pairs f) (ctor n) (l_refs l)) eqn:Hok; [|discriminate].
  now apply (refs_ok_perm _ _ _ Hok).
Qed.

Theorem local_referrers_inverse :
  (forall n l, nth_error (f_params f) (N.to_nat n) = Some l -> Permutation (l_refs l) (uses f (VP n))) /\
  (forall n l, nth_error (f_free f) (N.to_nat n) = Some l -> Permutation (l_refs l) (uses f (VF n))) /\
  (forall n l, nth_error (f_anons f) (N.to_nat n) = Some l -> Permutation (l_refs l) (uses f (VA n))).
Proof.
  pose proof (af_refs _ _ _ AF) as H. unfold refs_diag in H.
  apply app_eq_nil in H as [_ H]. apply app_eq_nil in H as [H1 H]. apply app_eq_nil in H as [H2 H3].
  repeat split; eapply local_refs_perm; eauto.
Qed.

(* ------------------------------------------------------------------ shape of blocks *)
Lemma phi_shape_spec : forall l n seen, phi_shape_ok l n seen = true ->
  forall k i, nth_error l k = Some i -> kind_eqb (i_kind i) KPhi = true ->
  seen = false /\ len_N (i_ops i) = n /\
  forall k', (k' < k)%nat -> exists i', nth_error l k' = Some i' /\ kind_eqb (i_kind i') KPhi = true.
Proof.
  induction l as [|x t IH]; intros n seen H k i Hn Hk; [destruct k; discriminate|].
  simpl in H. destruct k as [|k]; simpl in Hn.
  - injection Hn as ->. rewrite Hk in H. apply andb_true_iff in H as [H _]. apply andb_true_iff in H as [H1 H2].
    apply negb_true_iff in H1. apply N.eqb_eq in H2. repeat split; auto. intros k' Hk'. lia.
  - destruct (kind_eqb (i_kind x) KPhi) eqn:Ex.
    + apply andb_true_iff in H as [H H3]. apply andb_true_iff in H as [H1 H2]. apply negb_true_iff in H1.
      destruct (IH _ _ H3 k i Hn Hk) as (_ & Hlen & Hpre). repeat split; auto.
      intros [|k'] Hk'; [exists x; split; [reflexivity|assumption]|]. apply Hpre. lia.
    + destruct (IH _ _ H k i Hn Hk) as (Hs & _). discriminate.
Qed.

(* phis lead their block and have exactly one operand per predecessor *)
Theorem phi_shape : forall b bl k i,
  nth_error (f_blocks f) (N.to_nat b) = Some bl -> nth_error (b_instrs bl) k = Some i ->
  kind_eqb (i_kind i) KPhi = true ->
  length (i_ops i) = length (b_preds bl) /\
  forall k', (k' < k)%nat -> exists i', nth_error (b_instrs bl) k' = Some i' /\ kind_eqb (i_kind i') KPhi = true.
Proof.
  intros b bl k i Hb Hn Hk. destruct (structural_parts f (af_struct _ _ _ AF)) as (_ & _ & Hblocks & _).
  destruct (Hblocks b bl Hb) as (_ & _ & Hphi & _).
  destruct (phi_shape_spec _ _ _ Hphi k i Hn Hk) as (_ & Hlen & Hpre). split; [|assumption].
  unfold len_N in Hlen. lia.
Qed.

Lemma terminator_spec : forall l n, terminator_ok l n = true ->
  exists pre last, l = pre ++ [last] /\ is_terminator (i_kind last) = true /\ arity_ok last n = true /\
                   forall i, In i pre -> is_terminator (i_kind i) = false.
Proof.
  induction l as [|x t IH]; intros n H; [discriminate|]. simpl in H. destruct t as [|y t'].
  - apply andb_true_iff in H as [H1 H2]. exists [], x. repeat split; auto. intros i [].
  - apply andb_true_iff in H as [H1 H2]. apply negb_true_iff in H1.
    destruct (IH n H2) as (pre & last & E & Ht & Ha & Hpre). exists (x :: pre), last.
    split; [simpl; now rewrite E|]. repeat split; auto. intros i [<-|Hi]; auto.
Qed.

(* every block ends in exactly one terminator whose arity matches the successor list *)
Theorem terminators : forall b bl, nth_error (f_blocks f) (N.to_nat b) = Some bl ->
  exists pre last, b_instrs bl = pre ++ [last] /\ is_terminator (i_kind last) = true /\
    arity_ok last (len_N (b_succs bl)) = true /\ forall i, In i pre -> is_terminator (i_kind i) = false.
Proof.
  intros b bl Hb. destruct (structural_parts f (af_struct _ _ _ AF)) as (_ & _ & Hblocks & _).
  destruct (Hblocks b bl Hb) as (_ & Ht & _). now apply terminator_spec.
Qed.

End Inverse.
