(* C12: the executable specification used by the correspondence check (spec_group: one entry per distinct
   descriptor with the sorted set of its build names) satisfies exact_output; hence, by uniqueness, every
   exact output shows the same (descriptor, build names) pairs as spec_group. *)
From Coq Require Import List ZArith Bool String Permutation Sorting.Sorted Lia.
Import ListNotations.
Require Import Verif.Lib.CmpOrder Verif.Model.C12_Types Verif.Model.C12 Verif.Proofs.C12.

Lemma filter_length_le {A} (p : A -> bool) l : (List.length (filter p l) <= List.length l)%nat.
Proof. induction l as [|x r IH]; simpl; [lia|]. destruct (p x); simpl; lia. Qed.

Lemma group_fuel_exact n : forall l, (List.length l <= n)%nat -> exact_output l (group_fuel n l).
Proof.
  induction n as [|n IH]; intros l Hlen.
  - destruct l; [|simpl in Hlen; lia]. simpl. split; [constructor|]. split; [intros d []|intros e []].
  - destruct l as [|d r].
    + simpl. split; [constructor|]. split; [intros x []|intros e []].
    + simpl in Hlen. cbn [group_fuel].
      set (same := filter (fun x => descr_eqb (descr_of x) (descr_of d)) r).
      set (rest := filter (fun x => negb (descr_eqb (descr_of x) (descr_of d))) r).
      assert (Hrest : (List.length rest <= n)%nat).
      { unfold rest. pose proof (filter_length_le (fun x => negb (descr_eqb (descr_of x) (descr_of d))) r). lia. }
      destruct (IH rest Hrest) as [N [C E]].
      assert (Hin_rest : forall x, In x rest <-> In x r /\ descr_of x <> descr_of d).
      { intro x. unfold rest. rewrite filter_In, negb_true_iff. split; intros [I H]; (split; [exact I|]).
        - intro Eq. apply descr_eqb_eq in Eq. congruence.
        - destruct (descr_eqb (descr_of x) (descr_of d)) eqn:Eq; [|reflexivity]. apply descr_eqb_eq in Eq. contradiction. }
      assert (Hin_same : forall x, In x same <-> In x r /\ descr_of x = descr_of d).
      { intro x. unfold same. rewrite filter_In, descr_eqb_eq. reflexivity. }
      split; [|split].
      * simpl. constructor; [|exact N].
        intro I. apply in_map_iff in I. destruct I as [e [Ee Ie]].
        destruct (E e Ie) as [If _]. apply Hin_rest in If. destruct If as [_ Hne]. apply Hne. exact Ee.
      * intros x [<-|Ix].
        -- eexists. split; [left; reflexivity|reflexivity].
        -- destruct (descr_eqb (descr_of x) (descr_of d)) eqn:Eq.
           ++ apply descr_eqb_eq in Eq. eexists. split; [left; reflexivity|]. simpl. symmetry. exact Eq.
           ++ assert (Ir : In x rest).
              { apply Hin_rest. split; [exact Ix|]. intro Eq'. apply descr_eqb_eq in Eq'. congruence. }
              destruct (C x Ir) as [e [Ie Ee]]. exists e. split; [right; exact Ie|exact Ee].
      * intros e [<-|Ie].
        -- simpl. split; [left; reflexivity|]. split; [apply names_of_sorted|].
           intro b. rewrite names_of_In. simpl. rewrite in_map_iff. split.
           ++ intros [<-|[x [<- Ix]]].
              ** exists d. auto.
              ** apply Hin_same in Ix. destruct Ix as [Ix Ex]. exists x. auto.
           ++ intros [x [[<-|Ix] [Ex Eb]]]; [left; exact Eb|].
              right. exists x. split; [exact Eb|]. apply Hin_same. auto.
        -- destruct (E e Ie) as [If [Ss B]]. pose proof (proj1 (Hin_rest _) If) as [Ifr Hne].
           split; [right; exact Ifr|]. split; [exact Ss|].
           intro b. rewrite B. split.
           ++ intros [x [Ix Hx]]. apply Hin_rest in Ix. destruct Ix as [Ix _]. exists x. split; [right; exact Ix|exact Hx].
           ++ intros [x [[<-|Ix] [Ex Eb]]].
              ** exfalso. apply Hne. symmetry. exact Ex.
              ** exists x. split; [|auto]. apply Hin_rest. split; [exact Ix|]. rewrite Ex. exact Hne.
Qed.

Theorem spec_group_exact ds : exact_output ds (spec_group ds).
Proof. unfold spec_group. apply group_fuel_exact. lia. Qed.

(* any exact output and the executable specification show the same (descriptor, build names) pairs *)
Theorem exact_matches_spec ds out v :
  exact_output ds out -> (In v (map entry_view out) <-> In v (map entry_view (spec_group ds))).
Proof.
  intro H. split.
  - apply (exact_output_unique ds ds out (spec_group ds)); [tauto | exact H | apply spec_group_exact].
  - apply (exact_output_unique ds ds (spec_group ds) out); [tauto | apply spec_group_exact | exact H].
Qed.

(* CheckedFiles: a file is counted as checked iff it belongs to a package that was analysed *)
Theorem checked_of_iff ps f :
  In f (checked_of ps) <-> exists p, In p ps /\ pk_initial p = true /\ pk_failed p = false /\ pk_skipped p = false /\ In f (pk_files p).
Proof.
  unfold checked_of, analysed. rewrite in_flat_map. split.
  - intros [p [Ip If]]. exists p. destruct (pk_initial p), (pk_failed p), (pk_skipped p); simpl in If; try contradiction. auto.
  - intros [p (Ip & H1 & H2 & H3 & If)]. exists p. rewrite H1, H2, H3. auto.
Qed.
(* hence a run in which the package of a file failed to compile does not veto an 'all' problem of that file *)
