(* C08: soundness of the package pre-filter (SymbolsPattern / CouldMatchAny) and of the root call
   symbols, relative to the reference semantics of the matcher, under the index contract. *)
From Coq Require Import List String ZArith NArith Bool Lia.
Import ListNotations.
Require Import Verif.Model.C09_Types Verif.Model.C09 Verif.Model.C08_Types Verif.Model.C08
               Verif.Proofs.C09_Frames Verif.Proofs.C09 Verif.Proofs.C08.
Open Scope string_scope.
Open Scope list_scope.
Local Arguments String.eqb : simpl never.

Lemma strs_eqb_eq : forall l l',
  (fix go (l l' : list string) : bool :=
     match l, l' with
     | [], [] => true
     | x :: r, y :: r' => String.eqb x y && go r r'
     | _, _ => false
     end) l l' = true -> l = l'.
Proof.
  induction l as [|x l IH]; intros [|y l'] H; try discriminate; [reflexivity|].
  apply andb_true_iff in H as [H1 H2]. apply String.eqb_eq in H1. subst. f_equal. apply IH. exact H2.
Qed.
Lemma sbeh_eqb_eq a b : sbeh_eqb a b = true -> a = b.
Proof.
  destruct a, b; simpl; intro H; try discriminate; try reflexivity.
  - apply String.eqb_eq in H. subst. reflexivity.
  - apply String.eqb_eq in H. subst. reflexivity.
  - apply strs_eqb_eq in H. subst. reflexivity.
Qed.
Lemma sbeh_tbl_eqb_eq a b : sbeh_tbl_eqb a b = true -> a = b.
Proof.
  revert b. induction a as [|[k x] a IH]; intros [|[k' y] b] H; try discriminate; [reflexivity|].
  simpl in H. apply andb_true_iff in H as [H H3]. apply andb_true_iff in H as [H1 H2].
  apply String.eqb_eq in H1. apply sbeh_eqb_eq in H2. subst. f_equal. apply IH. exact H3.
Qed.

Section Symbols.
Variable T : entry_tables.
Hypothesis Hsym : sym_tables_ok T = true.
Variable epa : bool.                                   (* CouldMatchAny: empty package path counts as present *)
Variable has : string -> string -> string -> bool.     (* Index.Object / Index.Selection <> nil *)

Let cd := could epa has.

Lemma Hsbeh : t_sbeh T = expected_sbeh.
Proof. apply sbeh_tbl_eqb_eq. exact Hsym. Qed.

Lemma could_mk_or_true cs : (exists c, In c cs /\ cd c = true) -> cd (mk_or cs) = true.
Proof.
  intros [c [Hin Hc]]. unfold mk_or. destruct (existsb is_sany cs) eqn:E; [reflexivity|].
  assert (Hflat : existsb cd (flat_map (fun c => match c with SOr l => l | SNone => [] | _ => [c] end) cs) = true).
  { clear E. induction cs as [|c' cs IH]; [contradiction|]. simpl. rewrite existsb_app.
    apply orb_true_iff. destruct Hin as [->|Hin].
    - left. unfold cd in *. destruct c; simpl in *; rewrite ?orb_false_r; try discriminate; auto.
    - right. apply IH. exact Hin. }
  unfold cd in *. destruct (flat_map _ cs) as [|x [|y l]]; simpl in Hflat |- *; try discriminate.
  - rewrite orb_false_r in Hflat. exact Hflat.
  - exact Hflat.
Qed.

Lemma could_mk_and_true cs : (forall c, In c cs -> cd c = true) -> cd (mk_and cs) = true.
Proof.
  intro H. unfold mk_and.
  assert (Hflat : forallb cd (flat_map (fun c => match c with SAnd l => l | SAny => [] | SNone => [] | _ => [c] end) cs) = true).
  { induction cs as [|c cs IH]; [reflexivity|]. simpl. rewrite forallb_app. apply andb_true_iff. split.
    - assert (Hc := H c (or_introl eq_refl)). unfold cd in *.
      destruct c; simpl in *; rewrite ?andb_true_r; try reflexivity; auto.
    - apply IH. intros c' Hc'. apply H. right. exact Hc'. }
  unfold cd in *. destruct (flat_map _ cs) as [|x [|y l]]; simpl in Hflat |- *; try reflexivity.
  - rewrite andb_true_r in Hflat. exact Hflat.
  - exact Hflat.
Qed.

(* unfolding collect under the expected shape *)
Lemma collect_eq p b :
  collect T p b =
  match p with
  | POr ps => mk_or (map (fun q => collect T q b) ps)
  | PNot _ | PToken _ | PNone | PAny => SAny
  | PString s => if b then sym_of s else SAny
  | PBinding _ _ sub => collect T sub b
  | PList h t => mk_and [collect T h b; collect T t b]
  | PNil => SAny
  | PNode ty fs => if mem ty reserved_names then collect T p b
                   else mk_and (map (fun nf => collect T (snd nf) b) fs)
  | PTypeAware k arg => if String.eqb k "Symbol" then collect T arg true
                        else if mem k ta_kinds then mk_and [collect T arg b] else collect T p b
  end.
Proof.
  destruct p as [| | |s|t|name idx sub|hd tl|ps|q|ty fs|k arg].
  - simpl. rewrite Hsbeh. reflexivity.
  - simpl. rewrite Hsbeh. reflexivity.
  - simpl. rewrite Hsbeh. reflexivity.
  - simpl. rewrite Hsbeh. reflexivity.
  - simpl. rewrite Hsbeh. reflexivity.
  - simpl. rewrite Hsbeh. reflexivity.
  - simpl. rewrite Hsbeh. reflexivity.
  - (* POr *) simpl. rewrite Hsbeh. reflexivity.
  - simpl. rewrite Hsbeh. reflexivity.
  - (* PNode *)
    destruct (mem ty reserved_names) eqn:E; [reflexivity|].
    unfold reserved_names in E. simpl in E.
    repeat match type of E with (_ || _) = false => apply orb_false_iff in E as [? E] end.
    simpl. rewrite Hsbeh. unfold beh_of, expected_sbeh. simpl.
    repeat match goal with H : String.eqb ?a ty = false |- _ => rewrite H; clear H end.
    f_equal. induction fs as [|[n q] fs IH]; [reflexivity|]. simpl. f_equal. exact IH.
  - (* PTypeAware *)
    destruct (String.eqb k "Symbol") eqn:E1.
    { apply String.eqb_eq in E1. subst k. simpl. rewrite Hsbeh. reflexivity. }
    destruct (mem k ta_kinds) eqn:E2; [|reflexivity].
    unfold ta_kinds in E2. simpl in E2.
    repeat match type of E2 with (_ || _) = true => apply orb_true_iff in E2 as [E2|E2] end;
      try (apply String.eqb_eq in E2; subst k; try discriminate; simpl; rewrite Hsbeh; reflexivity).
    discriminate.
Qed.

Variable cfg : matcher_cfg.
Variable orc : oracle.
Variable af : nat.
(* index contract + the property's premise, in terms of the oracle: whenever go/types resolves a node to a
   symbol with fully qualified name nm (Symbol.Match reaches the comparison with fn.Name), the index can
   see that symbol from the analysed package *)
Hypothesis Hidx : forall rv obj o, o_ta orc "Symbol" rv = Some (obj, o) ->
  exists nm, o = Some (VStr nm) /\ cd (sym_of nm) = true.
(* IntegerLiteral and TrulyConstantExpression always match their argument against the constant value, and
   apply to expressions only *)
Hypothesis Hconst : forall k rv res o, k = "IntegerLiteral" \/ k = "TrulyConstantExpression" ->
  o_ta orc k rv = Some (res, o) -> (exists sv, o = Some sv) /\ (forall nm, rv <> VStr nm).

Definition good (p : pat) (r : val) : Prop :=
  cd (collect T p false) = true /\
  (forall nm, r = VStr nm -> cd (sym_of nm) = true -> cd (collect T p true) = true).

Lemma good_any p r : collect T p false = SAny -> collect T p true = SAny -> good p r.
Proof. intros H1 H2. split; [rewrite H1|intros; rewrite H2]; reflexivity. Qed.

Lemma known_node ty fs : known_pat_b (PNode ty fs) = true ->
  mem ty reserved_names = false /\
  Forall (fun nf => is_pnone (snd nf) = false /\ known_pat_b (snd nf) = true) fs.
Proof.
  change (known_pat_b (PNode ty fs)) with
    (negb (mem ty reserved_names) &&
     (fix go (l : list (string * pat)) : bool :=
        match l with [] => true | (_, q) :: l' => negb (is_pnone q) && known_pat_b q && go l' end) fs).
  intro H. apply andb_true_iff in H as [H1 H2]. split; [apply negb_true_iff; exact H1|].
  induction fs as [|[n q] fs IH]; constructor.
  - apply andb_true_iff in H2 as [H2 _]. apply andb_true_iff in H2 as [H2 H3].
    split; [apply negb_true_iff; exact H2|exact H3].
  - apply IH. apply andb_true_iff in H2 as [_ H2]. exact H2.
Qed.

(* a successful field loop matched every field pattern against some value *)
Lemma s_fields_inv (rs : srecfn) fs fsb b :
  Forall (fun nf => is_pnone (snd nf) = false) fs ->
  forall s v s', s_fields rs fs fsb b s = RDone true v s' ->
  Forall (fun nf => exists bf s1 v1 s2, rs (snd nf) bf s1 = RDone true v1 s2) fs.
Proof.
  induction fs as [|[n pf] fs IH]; intros Hnn s v s' H; [constructor|].
  inversion Hnn as [|? ? Hpf Hrest]; subst. simpl in Hpf.
  simpl in H. destruct (assoc n fsb) as [bf|]; [|discriminate].
  assert (Hgen : match rs pf bf s with
                 | RDone true _ s1 => s_fields rs fs fsb b s1
                 | RDone false _ _ => RDone false VNil s
                 | e => e end = RDone true v s').
  { destruct pf; try exact H. discriminate. }
  clear H. destruct (rs pf bf s) as [| |ok v1 s1] eqn:E; try discriminate. destruct ok; [|discriminate].
  constructor; [exists bf, s, v1, s1; exact E|]. eapply IH; eassumption.
Qed.

Lemma good_unwrap p r r' : unwrap (cfg_unwrap_right cfg) r = UTo r' -> good p r' -> good p r.
Proof.
  intros Hu [H1 _]. split; [exact H1|]. intros nm -> _. simpl in Hu. discriminate.
Qed.

(* a struct node pattern that matched has matched each of its field patterns against some value *)
Lemma pnode_inv : forall f ty fs r s v sigma,
  Forall (fun nf => is_pnone (snd nf) = false) fs ->
  ms cfg orc af f (PNode ty fs) r s = RDone true v sigma ->
  exists f', f' < f /\ Forall (fun nf => exists bf s1 v1 s2, ms cfg orc af f' (snd nf) bf s1 = RDone true v1 s2) fs.
Proof.
  induction f as [|f IH]; intros ty fs r s v sigma Hnn H; [discriminate|].
  simpl ms in H. unfold ms_step in H.
  destruct (unwrap (cfg_unwrap_right cfg) r) as [| |r']; [|discriminate|].
  2: { destruct (IH _ _ _ _ _ _ Hnn H) as [f' [Hlt Hf]]. exists f'. split; [lia|exact Hf]. }
  unfold s_node in H. destruct r; try discriminate.
  - assert (Hone : exists x, ms cfg orc af f (PNode ty fs) x s = RDone true v sigma).
    { destruct k; try discriminate; destruct l as [|x [|y l']]; try discriminate; exists x; exact H. }
    destruct Hone as [x Hx]. destruct (IH _ _ _ _ _ _ Hnn Hx) as [f' [Hlt Hf]]. exists f'. split; [lia|exact Hf].
  - destruct (String.eqb ty ty0); [|discriminate]. exists f. split; [lia|].
    eapply s_fields_inv; eassumption.
Qed.

Theorem symbols_good : forall fuel p r s v sigma,
  known_pat_b p = true -> ms cfg orc af fuel p r s = RDone true v sigma -> good p r.
Proof.
  intro fuel0. induction fuel0 as [fuel0 IHs] using lt_wf_ind. intros p r s v sigma Hk H.
  destruct fuel0 as [|fuel]; [discriminate|].
  assert (IH : forall p r s v sigma, known_pat_b p = true ->
               ms cfg orc af fuel p r s = RDone true v sigma -> good p r) by (apply IHs; lia).
  simpl ms in H. unfold ms_step in H.
  destruct (unwrap (cfg_unwrap_right cfg) r) as [| |r'] eqn:Hu; [|discriminate|].
  2: { eapply good_unwrap; [exact Hu|]. eapply IH; eassumption. }
  destruct p as [| | |str|t|name idx sub|hd tl|ps|q|pty pfs|k arg].
  - apply good_any; rewrite collect_eq; reflexivity.
  - apply good_any; rewrite collect_eq; reflexivity.
  - apply good_any; rewrite collect_eq; reflexivity.
  - (* PString *)
    split; [rewrite collect_eq; reflexivity|]. intros nm -> Hnm. rewrite collect_eq.
    simpl in H. destruct (String.eqb str nm) eqn:E; [|discriminate]. apply String.eqb_eq in E. subst. exact Hnm.
  - apply good_any; rewrite collect_eq; reflexivity.
  - (* PBinding *)
    simpl in Hk. unfold s_binding in H.
    assert (Hg : is_nilpat sub = false -> good sub r).
    { intro En. rewrite En in H. destruct (lookup name s); [discriminate|].
      destruct (ms cfg orc af fuel sub r s) as [| |ok v1 s1] eqn:E; try discriminate.
      destruct ok; [|discriminate]. eapply IH; eassumption. }
    destruct (is_nilpat sub) eqn:En.
    + destruct sub; try discriminate; apply good_any; rewrite collect_eq; rewrite collect_eq; reflexivity.
    + destruct (Hg eq_refl) as [G1 G2]. split; [rewrite collect_eq; exact G1|].
      intros nm Hr Hnm. rewrite collect_eq. eapply G2; eassumption.
  - (* PList *)
    change (known_pat_b (PList hd tl)) with
      ((if is_nilpat hd then is_nilpat tl else true) && known_pat_b hd && known_pat_b tl) in Hk.
    apply andb_true_iff in Hk as [Hk Hkt]. apply andb_true_iff in Hk as [Hnil Hkh].
    unfold s_list in H. destruct r; try discriminate.
    split; [|intros nm Hr; discriminate].
    rewrite collect_eq. apply could_mk_and_true.
    destruct (is_nilpat hd) eqn:En.
    + intros c [<-|[<-|[]]].
      * destruct hd; try discriminate; rewrite collect_eq; reflexivity.
      * destruct tl; try discriminate; rewrite collect_eq; reflexivity.
    + destruct l as [|x xs]; [discriminate|].
      destruct (ms cfg orc af fuel hd x s) as [| |ok1 v1 s1] eqn:E1; try discriminate. destruct ok1; [|discriminate].
      destruct (ms cfg orc af fuel tl (VList k false xs) s1) as [| |ok2 v2 s2] eqn:E2; try discriminate.
      destruct ok2; [|discriminate].
      intros c [<-|[<-|[]]]; [eapply (IH hd); eassumption | eapply (IH tl); eassumption].
  - (* POr *)
    apply s_or_inv in H as [pre [q [post [-> [_ Hq]]]]].
    assert (Hkq : known_pat_b q = true).
    { eapply known_or; [exact Hk|]. apply in_or_app. right. left. reflexivity. }
    destruct (IH q r s v sigma Hkq Hq) as [G1 G2].
    split.
    + rewrite collect_eq. apply could_mk_or_true. exists (collect T q false). split; [|exact G1].
      apply in_map_iff. exists q. split; [reflexivity|]. apply in_or_app. right. left. reflexivity.
    + intros nm Hr Hnm. rewrite collect_eq. apply could_mk_or_true. exists (collect T q true). split; [|eapply G2; eassumption].
      apply in_map_iff. exists q. split; [reflexivity|]. apply in_or_app. right. left. reflexivity.
  - (* PNot *) apply good_any; rewrite collect_eq; reflexivity.
  - (* PNode *)
    destruct (known_node pty pfs Hk) as [Hres Hfs].
    unfold s_node in H.
    assert (Hand : forall b, (forall nf, In nf pfs -> cd (collect T (snd nf) b) = true) ->
                   cd (collect T (PNode pty pfs) b) = true).
    { intros b Hall. rewrite collect_eq, Hres. apply could_mk_and_true. intros c Hc.
      apply in_map_iff in Hc as [nf [<- Hin]]. apply Hall. exact Hin. }
    destruct r; try discriminate.
    + (* a list of exactly one element *)
      assert (Hone : exists x, ms cfg orc af fuel (PNode pty pfs) x s = RDone true v sigma).
      { destruct k; try discriminate; destruct l as [|x [|y l']]; try discriminate; exists x; exact H. }
      destruct Hone as [x Hx]. destruct (IH _ _ _ _ _ Hk Hx) as [G1 _].
      split; [exact G1|intros nm Hr; discriminate].
    + (* a node: every field pattern matched *)
      destruct (String.eqb pty ty); [|discriminate].
      split; [|intros nm Hr; discriminate].
      apply Hand. intros nf Hin.
      assert (Hnn : Forall (fun nf => is_pnone (snd nf) = false) pfs).
      { eapply Forall_impl; [|exact Hfs]. intros a [Ha _]. exact Ha. }
      pose proof (s_fields_inv _ _ _ _ Hnn _ _ _ H) as Hinv.
      rewrite Forall_forall in Hinv, Hfs. destruct (Hinv nf Hin) as [bf [s1 [v1 [s2 E]]]].
      destruct (Hfs nf Hin) as [_ Hknf]. destruct (IH _ _ _ _ _ Hknf E) as [G1 _]. exact G1.
  - (* PTypeAware *)
    change (known_pat_b (PTypeAware k arg)) with (mem k ta_kinds && negb (is_pnone arg) && known_pat_b arg) in Hk.
    apply andb_true_iff in Hk as [Hkk Harg]. apply andb_true_iff in Hkk as [Hkk Hnn]. apply negb_true_iff in Hnn.
    unfold s_ta in H.
    (* what happens after the structural pre-match *)
    assert (Hafter : forall rv s1,
      match o_ta orc k rv with
      | None => RDone false VNil s
      | Some (resv, None) => RDone true resv s1
      | Some (resv, Some sv) =>
          match ms cfg orc af fuel arg sv s1 with
          | RDone true _ s2 => RDone true resv s2
          | RDone false _ _ => RDone false VNil s
          | e => e end
      end = RDone true v sigma ->
      (exists resv, o_ta orc k rv = Some (resv, None)) \/
      (exists resv sv, o_ta orc k rv = Some (resv, Some sv) /\ good arg sv)).
    { intros rv s1 Ha. destruct (o_ta orc k rv) as [[resv [sv|]]|]; try discriminate.
      - right. exists resv, sv. split; [reflexivity|].
        destruct (ms cfg orc af fuel arg sv s1) as [| |ok v1 s2] eqn:E; try discriminate.
        destruct ok; [|discriminate]. eapply IH; eassumption.
      - left. exists resv. reflexivity. }
    destruct (String.eqb k "Symbol") eqn:Esym.
    + (* Symbol: the name pattern matched the fully qualified name, which the index can see *)
      apply String.eqb_eq in Esym. subst k.
      assert (Hg : cd (collect T arg true) = true).
      { unfold ta_pre in H. rewrite String.eqb_refl in H.
        match type of H with match ?X with _ => _ end = _ => destruct X as [| |ok rv s1] eqn:E; try discriminate end.
        destruct ok; [|discriminate].
        destruct (Hafter rv s1 H) as [[resv Ho]|[resv [sv [Ho [_ G2]]]]].
        - destruct (Hidx _ _ _ Ho) as [nm [Hnone _]]. discriminate.
        - destruct (Hidx _ _ _ Ho) as [nm [Hsv Hnm]]. inversion Hsv; subst. eapply G2; [reflexivity|exact Hnm]. }
      split; [|intros nm Hr Hnm]; rewrite collect_eq; exact Hg.
    + (* the other type-aware nodes: And over the argument *)
      assert (Hb : forall b, cd (collect T arg b) = true -> cd (collect T (PTypeAware k arg) b) = true).
      { intros b Hc. rewrite collect_eq, Esym, Hkk. apply could_mk_and_true. intros c [<-|[]]. exact Hc. }
      assert (Hcases : k = "Builtin" \/ k = "Object" \/ k = "IntegerLiteral" \/ k = "TrulyConstantExpression").
      { pose proof Hkk as Hin. apply mem_In in Hin. unfold ta_kinds in Hin. simpl in Hin.
        destruct Hin as [<-|[<-|[<-|[<-|[<-|[]]]]]]; auto. vm_compute in Esym. discriminate. }
      (* Builtin / Object: the argument is the Name field of the Ident pre-pattern *)
      assert (Hident : k = "Builtin" \/ k = "Object" -> good (PTypeAware k arg) r).
      { intro Hk2.
        assert (Epre : ta_pre k arg = Some (PNode "Ident" [("Name", arg)])) by (destruct Hk2; subst; reflexivity).
        rewrite Epre in H.
        destruct (ms cfg orc af fuel (PNode "Ident" [("Name", arg)]) r s) as [| |ok rv s1] eqn:E; try discriminate.
        destruct ok; [|discriminate].
        assert (Hkpre : known_pat_b (PNode "Ident" [("Name", arg)]) = true) by (simpl; rewrite Hnn, Harg; reflexivity).
        assert (Hnn1 : Forall (fun nf : string * pat => is_pnone (snd nf) = false) [("Name", arg)])
          by (constructor; [exact Hnn|constructor]).
        destruct (pnode_inv _ _ _ _ _ _ _ Hnn1 E) as [f' [Hlt Hf]].
        inversion Hf as [|? ? [bf [s2 [v2 [s3 Ea]]]] _]; subst. simpl in Ea.
        assert (Hga : good arg bf) by (eapply (IHs f'); [lia|exact Harg|exact Ea]).
        destruct Hga as [Ga _].
        split; [apply Hb; exact Ga|].
        intros nm Hr Hnm. subst r. exfalso.
        (* an Ident pattern never matches a string *)
        clear - E. destruct fuel; [discriminate|]. simpl in E. unfold ms_step in E. simpl in E. discriminate. }
      destruct Hcases as [Hc|[Hc|Hc]]; [apply Hident; auto|apply Hident; auto|].
      (* IntegerLiteral / TrulyConstantExpression *)
      assert (Hafter2 : forall rv s1,
        match o_ta orc k rv with
        | None => RDone false VNil s
        | Some (resv, None) => RDone true resv s1
        | Some (resv, Some sv) =>
            match ms cfg orc af fuel arg sv s1 with
            | RDone true _ s2 => RDone true resv s2
            | RDone false _ _ => RDone false VNil s
            | e => e end
        end = RDone true v sigma -> (forall nm, rv <> VStr nm) /\ cd (collect T arg false) = true).
      { intros rv s1 Ha. destruct (Hafter rv s1 Ha) as [[resv Ho]|[resv [sv [Ho [G1 _]]]]].
        - destruct (Hconst k rv resv None Hc Ho) as [[sv Hsv] _]. discriminate.
        - destruct (Hconst k rv resv (Some sv) Hc Ho) as [_ Hns]. split; assumption. }
      destruct (ta_pre k arg) as [q|] eqn:Epre.
      * destruct (ms cfg orc af fuel q r s) as [| |ok rv s1] eqn:E; try discriminate. destruct ok; [|discriminate].
        destruct (Hafter2 rv s1 H) as [_ G1].
        split; [apply Hb; exact G1|]. intros nm Hr Hnm. subst r. exfalso.
        (* the pre-pattern of IntegerLiteral is an Or of struct nodes: it never matches a string *)
        destruct Hc as [->| ->]; [|discriminate].
        simpl in Epre. inversion Epre; subst q. clear - E.
        destruct fuel as [|[|fuel]]; try discriminate; simpl in E; unfold ms_step in E; simpl in E; discriminate.
      * destruct (Hafter2 r s H) as [Hns G1].
        split; [apply Hb; exact G1|]. intros nm Hr _. exfalso. eapply Hns. exact Hr.
Qed.
End Symbols.

(* symbols_sound: if CouldMatchAny rejects the package for the pattern's SymbolsPattern then the pattern
   matches no value at all -- under the index contract [Hidx] (every symbol that go/types resolves a node
   to is visible to the index from the analysed package: the symbol is not declared in that package, and
   the index is complete for imported / selected-through packages). *)
Theorem symbols_sound_gen T epa has cfg orc af :
  sym_tables_ok T = true ->
  (forall rv obj o, o_ta orc "Symbol" rv = Some (obj, o) ->
     exists nm, o = Some (VStr nm) /\ could epa has (sym_of nm) = true) ->
  (forall k rv res o, k = "IntegerLiteral" \/ k = "TrulyConstantExpression" ->
     o_ta orc k rv = Some (res, o) -> (exists sv, o = Some sv) /\ (forall nm, rv <> VStr nm)) ->
  forall p, known_pat_b p = true ->
    could epa has (collect T p (String.eqb (pat_type p) "Symbol")) = false ->
    forall fuel n s v sigma, ms cfg orc af fuel p n s <> RDone true v sigma.
Proof.
  intros Hsym Hidx Hconst p Hk Hc fuel n s v sigma H.
  destruct (symbols_good T Hsym epa has cfg orc af Hidx Hconst fuel p n s v sigma Hk H) as [G1 _].
  assert (Heq : collect T p (String.eqb (pat_type p) "Symbol") = collect T p false).
  { destruct (String.eqb (pat_type p) "Symbol") eqn:E; [|reflexivity].
    apply String.eqb_eq in E. destruct p; simpl in E; try discriminate.
    - (* a PNode named Symbol is excluded by known_pat_b *)
      subst ty. exfalso. destruct (known_node _ _ Hk) as [Hr _]. vm_compute in Hr. discriminate.
    - subst k. rewrite (collect_eq T Hsym (PTypeAware "Symbol" p) true), (collect_eq T Hsym (PTypeAware "Symbol" p) false).
      reflexivity. }
  rewrite Heq in Hc. rewrite Hc in G1. discriminate.
Qed.
