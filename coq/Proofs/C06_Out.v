(* C06: the printed order is determined by the multiset of diagnostics when the sort key is total on it,
   whatever (unstable) sorting algorithm is used and in whatever order the results were collected. *)
From Coq Require Import List ZArith Bool Permutation Lia.
Import ListNotations.
Require Import Verif.Model.C06_Out.

Lemma lessb_irrefl : forall key x, lessb key x x = false.
Proof. induction key; simpl; intros. reflexivity. rewrite Z.compare_refl. apply IHkey. Qed.

Lemma lessb_incomparable : forall key x y, lessb key x y = false -> lessb key y x = false -> key_eqb key x y = true.
Proof.
  induction key; simpl; intros. reflexivity.
  destruct (Z.compare (proj a x) (proj a y)) eqn:E.
  - apply Z.compare_eq in E. rewrite E in *. rewrite Z.compare_refl in H0. rewrite Z.eqb_refl. simpl. apply IHkey; assumption.
  - discriminate.
  - rewrite Z.compare_antisym in H0. rewrite E in H0. simpl in H0. discriminate.
Qed.

Lemma diag_eqb_eq : forall x y, diag_eqb x y = true -> x = y.
Proof.
  induction x; destruct y; simpl; intros; try discriminate. reflexivity.
  apply andb_true_iff in H. destruct H as [H1 H2]. apply Z.eqb_eq in H1. subst. f_equal. apply IHx. assumption.
Qed.

Definition key_total (key : list dfield) (l : list diag) : Prop :=
  forall x y, In x l -> In y l -> key_eqb key x y = true -> x = y.

Lemma key_eqb_refl : forall key x, key_eqb key x x = true.
Proof. induction key; simpl; intros. reflexivity. rewrite Z.eqb_refl. simpl. apply IHkey. Qed.

Lemma key_totalb_sound : forall key l, key_totalb key l = true -> key_total key l.
Proof.
  induction l; simpl; intros H x y Hx Hy E. contradiction.
  apply andb_true_iff in H. destruct H as [H1 H2]. rewrite forallb_forall in H1.
  assert (Hsym : forall u v, key_eqb key u v = true -> key_eqb key v u = true).
  { clear. induction key; simpl; intros. reflexivity. apply andb_true_iff in H. destruct H. rewrite Z.eqb_sym. rewrite H. simpl. auto. }
  destruct Hx as [<- | Hx]; destruct Hy as [<- | Hy].
  - reflexivity.
  - specialize (H1 y Hy). rewrite E in H1. simpl in H1. apply diag_eqb_eq. assumption.
  - specialize (H1 x Hx). rewrite (Hsym _ _ E) in H1. simpl in H1. symmetry. apply diag_eqb_eq. assumption.
  - apply IHl; assumption.
Qed.

Lemma sortedb_head : forall key x l, sortedb key (x :: l) = true -> forall z, In z l -> lessb key z x = false.
Proof.
  simpl. intros. apply andb_true_iff in H. destruct H as [H _]. rewrite forallb_forall in H. specialize (H z H0).
  apply negb_true_iff in H. assumption.
Qed.

(* a list has at most one sorted permutation when the key is total on it *)
Theorem sorted_perm_unique : forall key s1 s2,
  Permutation s1 s2 -> sortedb key s1 = true -> sortedb key s2 = true -> key_total key s1 -> s1 = s2.
Proof.
  induction s1 as [| a s1 IH]; intros s2 P S1 S2 T.
  - apply Permutation_nil in P. subst. reflexivity.
  - destruct s2 as [| y r2]. apply Permutation_sym, Permutation_nil in P. discriminate.
    assert (Hy : In y (a :: s1)). { eapply Permutation_in. apply Permutation_sym. exact P. left. reflexivity. }
    assert (Ha : In a (y :: r2)). { eapply Permutation_in. exact P. left. reflexivity. }
    assert (L1 : lessb key y a = false).
    { destruct Hy as [<- | Hy]. apply lessb_irrefl. eapply sortedb_head; eauto. }
    assert (L2 : lessb key a y = false).
    { destruct Ha as [<- | Ha]. apply lessb_irrefl. eapply sortedb_head; eauto. }
    assert (E : a = y). { apply T; auto. left; reflexivity. apply lessb_incomparable; assumption. }
    subst y. f_equal. apply IH.
    + eapply Permutation_cons_inv. exact P.
    + simpl in S1. apply andb_true_iff in S1. tauto.
    + simpl in S2. apply andb_true_iff in S2. tauto.
    + intros u v Hu Hv. apply T; right; assumption.
Qed.

(* output_deterministic: two runs whose collected diagnostics are the same multiset (in any order) print the
   same bytes, whatever the sort did with ties, provided the regenerated key is total on that multiset. *)
Theorem output_deterministic_sort : forall (B : Type) (render : list diag -> B) key l1 l2 s1 s2,
  Permutation l1 l2 -> Permutation s1 l1 -> Permutation s2 l2 ->
  sortedb key s1 = true -> sortedb key s2 = true -> key_total key l1 ->
  render s1 = render s2.
Proof.
  intros B render key l1 l2 s1 s2 P P1 P2 S1 S2 T. f_equal.
  apply (sorted_perm_unique key); auto.
  - eapply Permutation_trans. exact P1. eapply Permutation_trans. exact P. apply Permutation_sym. exact P2.
  - intros x y Hx Hy. apply T; eapply Permutation_in; eauto.
Qed.

(* results are collected package by package in map-iteration order: any two orders give the same multiset *)
Lemma collect_perm : forall (A : Type) (f : A -> list diag) ps ps', Permutation ps ps' -> Permutation (flat_map f ps) (flat_map f ps').
Proof.
  induction 1; simpl.
  - constructor.
  - apply Permutation_app_head. assumption.
  - rewrite !app_assoc. apply Permutation_app_tail. apply Permutation_app_comm.
  - eapply Permutation_trans; eauto.
Qed.
