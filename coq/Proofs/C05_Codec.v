(* C05: proofs about the index-entry codec. *)
From Coq Require Import List NArith ZArith Bool Arith Lia ZifyBool ZifyNat ZifyN.
Import ListNotations.
Require Import Verif.Model.C05_Types Verif.Model.C05_Codec.
Open Scope N_scope.

(* ---- generic list facts ---- *)
Lemma slice_skip : forall (a r : list N) n s l, length a = n -> slice (n + s) l (a ++ r) = slice s l r.
Proof.
  intros a r n s l <-. unfold slice. f_equal.
  rewrite skipn_app. rewrite skipn_all2 by lia. simpl. f_equal. lia.
Qed.
Lemma slice_take : forall (b r : list N) l, length b = l -> slice 0 l (b ++ r) = b.
Proof.
  intros b r l <-. unfold slice. simpl. rewrite firstn_app, Nat.sub_diag, firstn_all. simpl. apply app_nil_r.
Qed.
Lemma nth_skip : forall (a r : list N) n i d, length a = n -> nth (n + i) (a ++ r) d = nth i r d.
Proof. intros a r n i d <-. rewrite app_nth2 by lia. f_equal. lia. Qed.

Lemma slice_drop : forall (a r : list N) s l n, length a = n -> (n <= s)%nat -> slice s l (a ++ r) = slice (s - n) l r.
Proof.
  intros a r s l n <- Hle. replace s with (length a + (s - length a))%nat at 1 by lia. apply slice_skip. reflexivity.
Qed.
Lemma nth_drop : forall (a r : list N) i d n, length a = n -> (n <= i)%nat -> nth i (a ++ r) d = nth (i - n) r d.
Proof. intros a r i d n <- Hle. apply app_nth2. lia. Qed.

Lemma list_eqb_N_refl : forall l, bytes_eqb l l = true.
Proof. unfold bytes_eqb. induction l; cbn [list_eqb]; auto. rewrite N.eqb_refl. auto. Qed.
Lemma bytes_eqb_eq : forall a b, bytes_eqb a b = true <-> a = b.
Proof.
  unfold bytes_eqb. induction a; destruct b; cbn [list_eqb]; split; intro Hx; try discriminate; auto.
  - apply andb_true_iff in Hx. destruct Hx as [H1 H2]. apply N.eqb_eq in H1. apply IHa in H2. congruence.
  - inversion Hx; subst. rewrite N.eqb_refl. apply IHa. reflexivity.
Qed.

(* ---- hex ---- *)
Lemma unhex_hexdigit : forall n, n < 16 -> unhex (hexdigit n) = Some n.
Proof.
  intros n Hn.
  assert (Hc : n = 0 \/ n = 1 \/ n = 2 \/ n = 3 \/ n = 4 \/ n = 5 \/ n = 6 \/ n = 7 \/ n = 8 \/ n = 9 \/
               n = 10 \/ n = 11 \/ n = 12 \/ n = 13 \/ n = 14 \/ n = 15) by lia.
  repeat (destruct Hc as [-> | Hc]; [reflexivity |]). subst; reflexivity.
Qed.

Lemma hex_decode_encode : forall l, Forall (fun b => b < 256) l -> hex_decode (hex_encode l) = Some l.
Proof.
  induction 1 as [| b l Hb Hl IH]; [reflexivity |].
  cbn [hex_encode flat_map hex_byte app hex_decode].
  fold (hex_encode l). rewrite IH.
  assert (b / 16 < 16) by (apply N.div_lt_upper_bound; lia).
  assert (b mod 16 < 16) by (apply N.mod_lt; lia).
  rewrite !unhex_hexdigit by assumption.
  f_equal. f_equal. pose proof (N.div_mod' b 16). lia.
Qed.

Lemma length_hex_encode : forall l, length (hex_encode l) = (2 * length l)%nat.
Proof. induction l; [reflexivity |]. unfold hex_encode in *. cbn [flat_map]. rewrite app_length, IHl. cbn [hex_byte length]. lia. Qed.

(* ---- decimal ---- *)
Fixpoint enough (fuel : nat) (n : N) : Prop :=
  match fuel with
  | O => False
  | S f => n / 10 = 0 \/ enough f (n / 10)
  end.

Lemma enough_bound : forall f n, n < 10 ^ N.of_nat (S f) -> enough (S f) n.
Proof.
  induction f; intros n Hn.
  - left. apply N.div_small. exact Hn.
  - right. apply IHf. rewrite Nat2N.inj_succ, N.pow_succ_r' in Hn.
    apply N.div_lt_upper_bound; lia.
Qed.

Lemma enough_mono : forall f f' n, enough f n -> (f <= f')%nat -> enough f' n.
Proof.
  induction f; intros f' n He Hle; [destruct He |].
  destruct f'; [lia |]. simpl in *. destruct He as [He | He]; [left; auto | right; apply IHf; auto; lia].
Qed.

Lemma dec_digits_fuel : forall f f' n acc, enough f n -> (f <= f')%nat -> dec_digits f' n acc = dec_digits f n acc.
Proof.
  induction f; intros f' n acc He Hle; [destruct He |].
  destruct f'; [lia |]. simpl in *.
  destruct (n / 10 =? 0) eqn:E; [reflexivity |].
  destruct He as [He | He]; [apply N.eqb_neq in E; contradiction |].
  apply IHf; auto; lia.
Qed.

Lemma dec_digits_length : forall f n acc, (length (dec_digits f n acc) <= f + length acc)%nat.
Proof.
  induction f; intros n acc; simpl; [lia |].
  destruct (n / 10 =? 0); simpl; [lia |]. specialize (IHf (n / 10) ((48 + n mod 10) :: acc)). simpl in IHf. lia.
Qed.

Definition all_digits (l : list N) : Prop := Forall (fun c => is_digit c = true) l.

(* dec_digits f n acc = ds ++ acc where ds is a non-empty digit string whose value is n *)
Lemma dec_digits_spec : forall f n acc, enough f n ->
  exists ds, dec_digits f n acc = ds ++ acc /\ ds <> [] /\ all_digits ds /\
             forall rest a, parse_digits (ds ++ rest) a = parse_digits rest (a * 10 ^ N.of_nat (length ds) + n).
Proof.
  induction f; intros n acc He; [destruct He |].
  simpl in He. cbn [dec_digits].
  assert (Hd : is_digit (48 + n mod 10) = true).
  { unfold is_digit. assert (n mod 10 < 10) by (apply N.mod_lt; lia). apply andb_true_iff. split; apply N.leb_le; lia. }
  destruct (n / 10 =? 0) eqn:E.
  - exists [48 + n mod 10]. split; [reflexivity |]. split; [discriminate |]. split; [repeat constructor; auto |].
    intros rest a. cbn [app parse_digits length]. rewrite Hd.
    apply N.eqb_eq in E. pose proof (N.div_mod' n 10). f_equal. change (N.of_nat 1) with 1. rewrite N.pow_1_r. lia.
  - destruct He as [He | He]; [apply N.eqb_neq in E; contradiction |].
    destruct (IHf (n / 10) ((48 + n mod 10) :: acc) He) as (ds & Heq & Hne & Had & Hp).
    exists (ds ++ [48 + n mod 10]). split; [rewrite Heq, <- app_assoc; reflexivity |].
    split; [destruct ds; discriminate |].
    split; [apply Forall_app; split; auto |].
    intros rest a. rewrite <- app_assoc. rewrite Hp. cbn [app parse_digits]. rewrite Hd.
    f_equal. rewrite app_length. cbn [length]. rewrite Nat.add_1_r, Nat2N.inj_succ, N.pow_succ_r'.
    pose proof (N.div_mod' n 10). set (p := 10 ^ N.of_nat (length ds)) in *. lia.
Qed.

Lemma enough_40 : forall n, n <= max_int64 -> enough 20 n.
Proof. intros n Hn. apply enough_bound. unfold max_int64 in Hn. change (10 ^ N.of_nat 20) with 100000000000000000000. lia. Qed.

Lemma dec_of_N_spec : forall n, n <= max_int64 ->
  exists ds, dec_of_N n = ds /\ ds <> [] /\ all_digits ds /\ (length ds <= 20)%nat /\ parse_digits ds 0 = Some n.
Proof.
  intros n Hn. pose proof (enough_40 n Hn) as He.
  unfold dec_of_N. rewrite (dec_digits_fuel 20 40 n [] He) by lia.
  destruct (dec_digits_spec 20 n [] He) as (ds & Heq & Hne & Had & Hp).
  exists (dec_digits 20 n []). split; [reflexivity |].
  pose proof (dec_digits_length 20 n []) as Hl. change (length (@nil N)) with 0%nat in Hl. rewrite Nat.add_0_r in Hl.
  rewrite Heq, app_nil_r in *. repeat split; auto; try lia.
  specialize (Hp [] 0). rewrite app_nil_r in Hp. rewrite Hp. simpl. reflexivity.
Qed.

Lemma skip_spaces_pad : forall m c r, c <> 32 -> skip_spaces (repeat 32 m ++ c :: r) = c :: r.
Proof.
  induction m; intros c r Hc; simpl.
  - apply N.eqb_neq in Hc. rewrite Hc. reflexivity.
  - apply IHm; auto.
Qed.

Lemma digit_facts : forall c, is_digit c = true -> c <> 32 /\ c <> 43 /\ c <> 45.
Proof. unfold is_digit. intros c Hc. apply andb_true_iff in Hc. destruct Hc as [H1 H2]. apply N.leb_le in H1. apply N.leb_le in H2. lia. Qed.

(* the %20d field of a non-negative int64 reads back as itself *)
Lemma field_roundtrip : forall n, n <= max_int64 ->
  length (pad_left 20 (dec_of_N n)) = 20%nat /\
  parse_int (skip_spaces (pad_left 20 (dec_of_N n))) = Some (Z.of_N n).
Proof.
  intros n Hn. destruct (dec_of_N_spec n Hn) as (ds & -> & Hne & Had & Hl & Hp).
  split.
  - unfold pad_left. rewrite app_length, repeat_length. lia.
  - destruct ds as [| c r]; [contradiction |].
    inversion Had as [| ? ? Hc Hr]; subst.
    destruct (digit_facts c Hc) as (H32 & H43 & H45).
    unfold pad_left. rewrite skip_spaces_pad by assumption.
    unfold parse_int. apply N.eqb_neq in H43. apply N.eqb_neq in H45. rewrite H43, H45.
    rewrite Hp. assert (max_int64 <? n = false) by (apply N.ltb_ge; exact Hn). rewrite H. reflexivity.
Qed.

(* ---- format / parse ---- *)
Lemma wf_id_hex : forall k, wf_id k -> length (hex_encode k) = 64%nat.
Proof. intros k [Hl _]. rewrite length_hex_encode, Hl. reflexivity. Qed.

Lemma format_entry_length : forall k o sz tm, wf_id k -> wf_id o -> sz <= max_int64 -> tm <= max_int64 ->
  length (format_entry k o sz tm) = entry_size.
Proof.
  intros k o sz tm Hk Ho Hs Ht. unfold format_entry.
  destruct (field_roundtrip sz Hs) as [Ls _]. destruct (field_roundtrip tm Ht) as [Lt _].
  repeat rewrite app_length. rewrite (wf_id_hex k Hk), (wf_id_hex o Ho), Ls, Lt. reflexivity.
Qed.

Theorem parse_format_proof : forall k o sz tm, wf_id k -> wf_id o -> sz <= max_int64 -> tm <= max_int64 ->
  parse_entry k (format_entry k o sz tm) = Some (o, sz, tm).
Proof.
  intros k o sz tm Hk Ho Hs Ht.
  pose proof (format_entry_length k o sz tm Hk Ho Hs Ht) as Hlen.
  unfold parse_entry. rewrite Hlen. cbn [Nat.eqb entry_size negb].
  destruct (field_roundtrip sz Hs) as [Ls Ps]. destruct (field_roundtrip tm Ht) as [Lt Pt].
  pose proof (wf_id_hex k Hk) as Lk. pose proof (wf_id_hex o Ho) as Lo.
  unfold format_entry in *.
  set (K := hex_encode k) in *. set (O := hex_encode o) in *.
  set (S := pad_left 20 (dec_of_N sz)) in *. set (T := pad_left 20 (dec_of_N tm)) in *.
  (* header *)
  assert (Hh : header_ok ([118; 49; 32] ++ K ++ [32] ++ O ++ [32] ++ S ++ [32] ++ T ++ [10]) = true).
  { unfold header_ok.
    rewrite (nth_drop [118; 49; 32] _ 67%nat 0 3%nat eq_refl) by (cbn; lia); cbn [Nat.sub].
    rewrite (nth_drop K _ 64%nat 0 64%nat Lk) by (cbn; lia); cbn [Nat.sub].
    rewrite (nth_drop [118; 49; 32] _ 132%nat 0 3%nat eq_refl) by (cbn; lia); cbn [Nat.sub].
    rewrite (nth_drop K _ 129%nat 0 64%nat Lk) by (cbn; lia); cbn [Nat.sub].
    rewrite (nth_drop [32] _ 65%nat 0 1%nat eq_refl) by (cbn; lia); cbn [Nat.sub].
    rewrite (nth_drop O _ 64%nat 0 64%nat Lo) by (cbn; lia); cbn [Nat.sub].
    rewrite (nth_drop [118; 49; 32] _ 153%nat 0 3%nat eq_refl) by (cbn; lia); cbn [Nat.sub].
    rewrite (nth_drop K _ 150%nat 0 64%nat Lk) by (cbn; lia); cbn [Nat.sub].
    rewrite (nth_drop [32] _ 86%nat 0 1%nat eq_refl) by (cbn; lia); cbn [Nat.sub].
    rewrite (nth_drop O _ 85%nat 0 64%nat Lo) by (cbn; lia); cbn [Nat.sub].
    rewrite (nth_drop [32] _ 21%nat 0 1%nat eq_refl) by (cbn; lia); cbn [Nat.sub].
    rewrite (nth_drop S _ 20%nat 0 20%nat Ls) by (cbn; lia); cbn [Nat.sub].
    rewrite (nth_drop [118; 49; 32] _ 174%nat 0 3%nat eq_refl) by (cbn; lia); cbn [Nat.sub].
    rewrite (nth_drop K _ 171%nat 0 64%nat Lk) by (cbn; lia); cbn [Nat.sub].
    rewrite (nth_drop [32] _ 107%nat 0 1%nat eq_refl) by (cbn; lia); cbn [Nat.sub].
    rewrite (nth_drop O _ 106%nat 0 64%nat Lo) by (cbn; lia); cbn [Nat.sub].
    rewrite (nth_drop [32] _ 42%nat 0 1%nat eq_refl) by (cbn; lia); cbn [Nat.sub].
    rewrite (nth_drop S _ 41%nat 0 20%nat Ls) by (cbn; lia); cbn [Nat.sub].
    rewrite (nth_drop [32] _ 21%nat 0 1%nat eq_refl) by (cbn; lia); cbn [Nat.sub].
    rewrite (nth_drop T _ 20%nat 0 20%nat Lt) by (cbn; lia); cbn [Nat.sub].
    reflexivity. }
  rewrite Hh. cbn [negb].
  assert (S1 : slice 3 64 ([118; 49; 32] ++ K ++ [32] ++ O ++ [32] ++ S ++ [32] ++ T ++ [10]) = K).
  { rewrite (slice_drop [118; 49; 32] _ 3%nat 64%nat 3%nat eq_refl) by (cbn; lia); cbn [Nat.sub]. apply slice_take; exact Lk. }
  assert (S2 : slice 68 64 ([118; 49; 32] ++ K ++ [32] ++ O ++ [32] ++ S ++ [32] ++ T ++ [10]) = O).
  { rewrite (slice_drop [118; 49; 32] _ 68%nat 64%nat 3%nat eq_refl) by (cbn; lia); cbn [Nat.sub]. rewrite (slice_drop K _ 65%nat 64%nat 64%nat Lk) by (cbn; lia); cbn [Nat.sub]. rewrite (slice_drop [32] _ 1%nat 64%nat 1%nat eq_refl) by (cbn; lia); cbn [Nat.sub]. apply slice_take; exact Lo. }
  assert (S3 : slice 133 20 ([118; 49; 32] ++ K ++ [32] ++ O ++ [32] ++ S ++ [32] ++ T ++ [10]) = S).
  { rewrite (slice_drop [118; 49; 32] _ 133%nat 20%nat 3%nat eq_refl) by (cbn; lia); cbn [Nat.sub]. rewrite (slice_drop K _ 130%nat 20%nat 64%nat Lk) by (cbn; lia); cbn [Nat.sub]. rewrite (slice_drop [32] _ 66%nat 20%nat 1%nat eq_refl) by (cbn; lia); cbn [Nat.sub]. rewrite (slice_drop O _ 65%nat 20%nat 64%nat Lo) by (cbn; lia); cbn [Nat.sub]. rewrite (slice_drop [32] _ 1%nat 20%nat 1%nat eq_refl) by (cbn; lia); cbn [Nat.sub]. apply slice_take; exact Ls. }
  assert (S4 : slice 154 20 ([118; 49; 32] ++ K ++ [32] ++ O ++ [32] ++ S ++ [32] ++ T ++ [10]) = T).
  { rewrite (slice_drop [118; 49; 32] _ 154%nat 20%nat 3%nat eq_refl) by (cbn; lia); cbn [Nat.sub]. rewrite (slice_drop K _ 151%nat 20%nat 64%nat Lk) by (cbn; lia); cbn [Nat.sub]. rewrite (slice_drop [32] _ 87%nat 20%nat 1%nat eq_refl) by (cbn; lia); cbn [Nat.sub]. rewrite (slice_drop O _ 86%nat 20%nat 64%nat Lo) by (cbn; lia); cbn [Nat.sub]. rewrite (slice_drop [32] _ 22%nat 20%nat 1%nat eq_refl) by (cbn; lia); cbn [Nat.sub]. rewrite (slice_drop S _ 21%nat 20%nat 20%nat Ls) by (cbn; lia); cbn [Nat.sub]. rewrite (slice_drop [32] _ 1%nat 20%nat 1%nat eq_refl) by (cbn; lia); cbn [Nat.sub]. apply slice_take; exact Lt. }
  rewrite S1, S2, S3, S4.
  unfold K at 1. rewrite hex_decode_encode by apply Hk. rewrite list_eqb_N_refl. cbn [negb].
  unfold O at 1. rewrite hex_decode_encode by apply Ho.
  rewrite Ps.
  assert (H1 : (Z.of_N sz <? 0)%Z = false) by (apply Z.ltb_ge; lia). rewrite H1.
  rewrite Pt.
  assert (H2 : (Z.of_N tm <? 0)%Z = false) by (apply Z.ltb_ge; lia). rewrite H2.
  rewrite !N2Z.id. reflexivity.
Qed.

(* any byte string whose length is not entrySize is a miss - in particular every strict prefix and every extension *)
Theorem parse_rejects_length : forall k e, length e <> entry_size -> parse_entry k e = None.
Proof.
  intros k e Hl. unfold parse_entry. apply Nat.eqb_neq in Hl. rewrite Hl. reflexivity.
Qed.

Definition strict_prefix (b e : list N) : Prop := exists c, c <> [] /\ e = b ++ c.

Theorem parse_rejects_prefix_proof : forall k o sz tm k' b, wf_id k -> wf_id o -> sz <= max_int64 -> tm <= max_int64 ->
  strict_prefix b (format_entry k o sz tm) -> parse_entry k' b = None.
Proof.
  intros k o sz tm k' b Hk Ho Hs Ht (c & Hc & He). apply parse_rejects_length.
  pose proof (format_entry_length k o sz tm Hk Ho Hs Ht) as Hl. rewrite He, app_length in Hl.
  destruct c; [contradiction |]. simpl in Hl. lia.
Qed.

Theorem parse_rejects_longer_proof : forall k o sz tm k' c, wf_id k -> wf_id o -> sz <= max_int64 -> tm <= max_int64 ->
  c <> [] -> parse_entry k' (format_entry k o sz tm ++ c) = None.
Proof.
  intros k o sz tm k' c Hk Ho Hs Ht Hc. apply parse_rejects_length.
  rewrite app_length, (format_entry_length k o sz tm Hk Ho Hs Ht). destruct c; [contradiction |]. cbn [length]. lia.
Qed.

(* whatever bytes are in the file: a hit means the embedded id decodes to the requested id *)
Theorem parse_checks_id : forall k e r, parse_entry k e = Some r -> embedded_id e = Some k.
Proof.
  intros k e r. unfold parse_entry, embedded_id.
  destruct (negb (Nat.eqb (length e) entry_size)); [discriminate |].
  destruct (negb (header_ok e)); [discriminate |].
  destruct (hex_decode (slice 3 64 e)) as [buf |]; [| discriminate].
  destruct (bytes_eqb buf k) eqn:E; [| discriminate].
  intros _. apply bytes_eqb_eq in E. congruence.
Qed.

Theorem parse_rejects_other_id_proof : forall k k' o sz tm, wf_id k -> wf_id o -> sz <= max_int64 -> tm <= max_int64 ->
  k' <> k -> parse_entry k' (format_entry k o sz tm) = None.
Proof.
  intros k k' o sz tm Hk Ho Hs Ht Hne.
  destruct (parse_entry k' (format_entry k o sz tm)) as [r |] eqn:E; [| reflexivity].
  apply parse_checks_id in E.
  pose proof (parse_format_proof k o sz tm Hk Ho Hs Ht) as E2. apply parse_checks_id in E2. congruence.
Qed.

(* used by the state machine: a prefix of an entry that parses is the whole entry *)
Lemma prefix_parse : forall k o sz tm b c r, wf_id k -> wf_id o -> sz <= max_int64 -> tm <= max_int64 ->
  format_entry k o sz tm = b ++ c -> parse_entry k b = Some r -> b = format_entry k o sz tm /\ r = (o, sz, tm).
Proof.
  intros k o sz tm b c r Hk Ho Hs Ht He Hp.
  destruct c as [| x c].
  - rewrite app_nil_r in He. subst b. rewrite parse_format_proof in Hp by assumption. split; congruence.
  - rewrite (parse_rejects_prefix_proof k o sz tm k b Hk Ho Hs Ht) in Hp; [discriminate |].
    exists (x :: c). split; [discriminate | assumption].
Qed.
