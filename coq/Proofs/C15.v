(* C15 — soundness of the nilness analysis model w.r.t. the nil-shape semantics. *)
From Coq Require Import List Arith Bool Lia.
Import ListNotations.
Require Import Verif.Model.C13 Verif.Model.C13_Nilness Verif.Model.C15.
Require Import Verif.Proofs.C13 Verif.Proofs.C13_Lattices Verif.Proofs.C13_Nilness.
