(* C15 — soundness of the nilness analysis model w.r.t. the nil-shape semantics. *)
From Coq Require Import List Arith Bool Lia.
Import ListNotations.
Require Import Verif.Model.C13 Verif.Model.C13_Nilness Verif.Model.C15.
Require Import Verif.Proofs.C13 Verif.Proofs.C13_Lattices Verif.Proofs.C13_Nilness.

(* ------------------------------------------------------------------ gamma *)
Lemma vn_eqb_eq a b : vn_eqb a b = true <-> a = b.
Proof.
  destruct a, b. unfold vn_eqb. simpl. rewrite andb_true_iff, !nil_eqb_eq. split.
  - intros [-> ->]. reflexivity.
  - intros H. inversion H. auto.
Qed.

Lemma gamma_ident sh : gamma vident sh = false.
Proof. unfold gamma, vident. simpl. apply andb_false_r. Qed.

Lemma gamma_o_mono a b sh : leq a b -> gamma_o a sh = true -> gamma_o b sh = true.
Proof. destruct a, b, sh; vm_compute; intros; congruence. Qed.

Lemma gamma_i_mono a b sh : leq a b -> gamma_i a sh = true -> gamma_i b sh = true.
Proof. destruct a, b, sh as [| | |[]]; vm_compute; intros; congruence. Qed.

(* merge_sound: the concretisation is monotone, hence gamma a U gamma b <= gamma (a merge b) *)
Lemma gamma_mono (a b : vn) sh : leq a b -> gamma a sh = true -> gamma b sh = true.
Proof.
  destruct a as [a1 a2], b as [b1 b2]. unfold leq, leqb, gamma. simpl.
  rewrite !andb_true_iff. intros [L1 L2] [G1 G2]. split.
  - eapply gamma_i_mono; eauto.
  - eapply gamma_o_mono; eauto.
Qed.

Lemma merge_sound_l (a b : vn) sh : gamma a sh = true -> gamma (merge a b) sh = true.
Proof. apply gamma_mono. apply merge_ub_l. Qed.
Lemma merge_sound_r (a b : vn) sh : gamma b sh = true -> gamma (merge a b) sh = true.
Proof. apply gamma_mono. apply merge_ub_r. Qed.

Lemma gamma_i_nonhold i sh : (forall b, sh <> SHold b) -> gamma_i i sh = true.
Proof. destruct sh; simpl; intros; auto. exfalso. eapply H; eauto. Qed.

Lemma gamma_MM sh : gamma MM sh = true.
Proof. destruct sh as [| | |[]]; reflexivity. Qed.

Lemma gamma_normalize x ifc sh : gamma x sh = true -> gamma (normalize x ifc) sh = true.
Proof.
  destruct x as [i o]. unfold gamma, normalize. simpl. rewrite !andb_true_iff. intros [G1 G2]. split.
  - destruct (nil_eqb i NoNil || negb ifc); [destruct sh as [| | |[]]; reflexivity | exact G1].
  - destruct (nil_eqb o NoNil) eqn:E; [destruct sh as [| | |[]]; reflexivity | exact G2].
Qed.

(* ------------------------------------------------------------------ the state vector *)
Lemma length_dset s k x : length (dset s k x) = Nat.max (length s) (S k).
Proof. unfold dset. rewrite length_upd, app_length, repeat_length. lia. Qed.

Lemma nth_dset_eq s k x : nth k (dset s k x) vident = x.
Proof. unfold dset. apply nth_upd_eq. rewrite app_length, repeat_length. lia. Qed.

Lemma nth_dset_neq s k x w : w <> k -> nth w (dset s k x) vident = nth w s vident.
Proof.
  intros H. unfold dset. rewrite nth_upd_neq by auto.
  destruct (Nat.lt_ge_cases w (length s)).
  - apply app_nth1; auto.
  - rewrite app_nth2 by auto. rewrite (nth_overflow s) by auto.
    destruct (Nat.lt_ge_cases (w - length s) (S k - length s)).
    + apply nth_repeat_lt; auto.
    + apply nth_overflow. rewrite repeat_length. auto.
Qed.

Section Sound.
  Variable f : func.

  (* typing of environments, and the abstract state covering an environment: every defined pointer-like value has an
     explicit entry in the state vector whose concretisation contains its shape *)
  Definition env_wf (r : env) : Prop := forall v sh, r v = Some sh -> ptr f v = false -> sh = SNon.
  Definition covers (s : st) (r : env) : Prop :=
    forall v sh, r v = Some sh -> ptr f v = true -> v < length s /\ gamma (nth v s vident) sh = true.

  Lemma sget_covered s r v sh : covers s r -> r v = Some sh -> ptr f v = true -> sget f s v = nth v s vident.
  Proof.
    intros C R P. unfold sget. rewrite P. simpl. destruct (C v sh R P) as [L _].
    apply Nat.ltb_lt in L. rewrite L. reflexivity.
  Qed.

  Lemma sget_gamma s r v sh : covers s r -> env_wf r -> r v = Some sh -> gamma (sget f s v) sh = true.
  Proof.
    intros C W R. destruct (ptr f v) eqn:P.
    - rewrite (sget_covered s r v sh C R P). apply (C v sh R P).
    - unfold sget. rewrite P. simpl. rewrite (W v sh R P). reflexivity.
  Qed.

  Lemma wf_nonptr r v sh : env_wf r -> r v = Some sh -> ptr f v = false -> sh = SNon.
  Proof. intros W R P. eapply W; eauto. Qed.

  Lemma wf_shape_nonptr v sh : wf_shape (vi f v) sh = true -> ptr f v = false -> sh = SNon.
  Proof.
    unfold wf_shape, ptr. intros H P. rewrite P in H. simpl in H. destruct sh; try discriminate. reflexivity.
  Qed.

  Lemma eset_eq r v sh : eset r v sh v = Some sh.
  Proof. unfold eset. rewrite Nat.eqb_refl. reflexivity. Qed.
  Lemma eset_neq r v sh w : w <> v -> eset r v sh w = r w.
  Proof. intros H. unfold eset. apply Nat.eqb_neq in H. rewrite H. reflexivity. Qed.

  Lemma env_wf_eset r v sh : env_wf r -> (ptr f v = false -> sh = SNon) -> env_wf (eset r v sh).
  Proof.
    intros W H w sh' R P. unfold eset in R. destruct (Nat.eqb_spec w v).
    - inversion R; subst. auto.
    - eapply W; eauto.
  Qed.

  (* covering is preserved by writes to other entries *)
  Lemma covers_dset_other s r v x : covers s r -> r v = None \/ True ->
    forall w sh, w <> v -> r w = Some sh -> ptr f w = true ->
    w < length (dset s v x) /\ gamma (nth w (dset s v x) vident) sh = true.
  Proof.
    intros C _ w sh N R P. destruct (C w sh R P) as [L G]. split.
    - rewrite length_dset. lia.
    - rewrite nth_dset_neq by auto. exact G.
  Qed.

  (* defining (or redefining) v with an abstract value that contains its shape *)
  Lemma covers_set s r v x sh :
    covers s r -> (ptr f v = true -> gamma x sh = true) -> covers (sset f s v x) (eset r v sh).
  Proof.
    intros C G w sh' R P. unfold eset in R. unfold sset.
    destruct (Nat.eqb_spec w v).
    - subst w. inversion R; subst sh'. rewrite P. simpl.
      specialize (G P). destruct (vn_eqb x vident) eqn:E.
      + apply vn_eqb_eq in E. subst x. rewrite gamma_ident in G. discriminate.
      + split. * rewrite length_dset. lia. * rewrite nth_dset_eq. exact G.
    - destruct (negb (ptr f v)); [apply C; auto|].
      destruct (vn_eqb x vident); [apply C; auto|].
      apply covers_dset_other with (r := r); auto.
  Qed.

  (* refining the Outer / Inner component of a value that stays as it is *)
  Lemma covers_refine_outer s r x o sh :
    covers s r -> env_wf r -> r x = Some sh -> gamma_o o sh = true -> covers (sset_outer f s x o) r.
  Proof.
    intros C W R G w sh' R' P. unfold sset_outer.
    destruct (ptr f x) eqn:Px; simpl; [| apply C; auto].
    destruct (nil_eqb o NoNil) eqn:E; [apply C; auto|].
    destruct (Nat.eq_dec w x).
    - subst w. rewrite R in R'. inversion R'; subst sh'. split.
      + rewrite length_dset. lia.
      + rewrite nth_dset_eq. rewrite (sget_covered s r x sh C R Px).
        destruct (C x sh R Px) as [_ G']. unfold gamma in *. simpl.
        apply andb_true_iff in G'. destruct G' as [G1 _]. rewrite G1, G. reflexivity.
    - apply covers_dset_other with (r := r); auto.
  Qed.

  (* defining v through setOuter only: fine when the shape is not an interface holding something *)
  Lemma covers_def_outer s r v o sh :
    covers s r -> (forall b, sh <> SHold b) -> (ptr f v = true -> gamma_o o sh = true) ->
    covers (sset_outer f s v o) (eset r v sh).
  Proof.
    intros C NH G w sh' R P. unfold eset in R. unfold sset_outer.
    destruct (Nat.eqb_spec w v).
    - subst w. inversion R; subst sh'. rewrite P. simpl. specialize (G P).
      destruct (nil_eqb o NoNil) eqn:E.
      + apply nil_eqb_eq in E. subst o. simpl in G. discriminate.
      + split. * rewrite length_dset. lia.
        * rewrite nth_dset_eq. unfold gamma. simpl. rewrite (gamma_i_nonhold _ sh NH), G. reflexivity.
    - destruct (negb (ptr f v)); [apply C; auto|].
      destruct (nil_eqb o NoNil); [apply C; auto|].
      apply covers_dset_other with (r := r); auto.
  Qed.

  Lemma covers_eset_nonptr s r v sh : covers s r -> ptr f v = false -> covers s (eset r v sh).
  Proof.
    intros C P w sh' R Pw. unfold eset in R. destruct (Nat.eqb_spec w v).
    - subst. congruence.
    - apply C; auto.
  Qed.

  Lemma covers_reset s r x val sh :
    covers s r -> r x = Some sh -> (ptr f x = true -> gamma val sh = true) -> covers (sset f s x val) r.
  Proof.
    intros C R G w sh' R' P. unfold sset.
    destruct (ptr f x) eqn:Px; simpl; [| apply C; auto].
    specialize (G eq_refl).
    destruct (vn_eqb val vident) eqn:E.
    - apply vn_eqb_eq in E. subst val. rewrite gamma_ident in G. discriminate.
    - destruct (Nat.eq_dec w x).
      + subst w. rewrite R in R'. inversion R'; subst sh'. split.
        * rewrite length_dset. lia.
        * rewrite nth_dset_eq. exact G.
      + apply covers_dset_other with (r := r); auto.
  Qed.

  Lemma eset_SNon_keep r v x : r x = Some SNon -> eset r v SNon x = Some SNon.
  Proof. intros H. unfold eset. destruct (Nat.eqb x v); auto. Qed.

  Lemma wf_noniface v sh : wf_shape (vi f v) sh = true -> v_iface (vi f v) = false -> forall b, sh <> SHold b.
  Proof.
    unfold wf_shape. intros H I b ->. destruct (negb (v_ptr (vi f v))); [discriminate|].
    rewrite I in H. discriminate.
  Qed.

  Lemma gamma_o_outer o sh sa : outer_nil sh = outer_nil sa -> gamma_o o sh = gamma_o o sa.
  Proof. intros H. destruct o; simpl; rewrite ?H; reflexivity. Qed.

  Lemma gamma_o_to_inner o sx : gamma_o o sx = true -> gamma_i o (SHold (outer_nil sx)) = true.
  Proof. destruct o, sx; simpl; intros; congruence. Qed.

  Lemma gamma_i_to_outer i b : gamma_i i (SHold b) = true -> gamma_o i (if b then SNil else SNon) = true.
  Proof. destruct i, b; simpl; intros; congruence. Qed.

  Lemma held_not_hold v b : forall c, held_shape (vi f v) b <> SHold c.
  Proof. intros c. unfold held_shape. destruct (negb (v_ptr (vi f v))); [discriminate|]. destruct b; discriminate. Qed.

  Lemma held_gamma_o v b i : ptr f v = true -> gamma_i i (SHold b) = true -> gamma_o i (held_shape (vi f v) b) = true.
  Proof.
    intros P G. unfold held_shape. unfold ptr in P. rewrite P. simpl. apply gamma_i_to_outer. exact G.
  Qed.

  (* defining an interface value by setOuter followed by setInner, or the other way round *)
  Lemma covers_def_outer_inner s r v o i sh :
    covers s r -> ptr f v = true -> gamma (i, o) sh = true ->
    covers (sset_inner f (sset_outer f s v o) v i) (eset r v sh).
  Proof.
    intros C P G w sh' R Pw.
    assert (No : nil_eqb o NoNil = false).
    { destruct (nil_eqb o NoNil) eqn:E; auto. apply nil_eqb_eq in E. subst o.
      unfold gamma in G. simpl in G. rewrite andb_false_r in G. discriminate. }
    assert (Ni : nil_eqb i NoNil = false \/ forall b, sh <> SHold b).
    { destruct (nil_eqb i NoNil) eqn:E; auto. right. apply nil_eqb_eq in E. subst i.
      intros b ->. unfold gamma in G. simpl in G. discriminate. }
    unfold sset_inner, sset_outer. rewrite P, No. simpl.
    set (s1 := dset s v (fst (sget f s v), o)).
    assert (G1 : sget f s1 v = (fst (sget f s v), o)).
    { unfold sget at 1. rewrite P. simpl.
      assert (L : v < length s1) by (unfold s1; rewrite length_dset; lia).
      apply Nat.ltb_lt in L. rewrite L. unfold s1. apply nth_dset_eq. }
    unfold eset in R. destruct (Nat.eqb_spec w v).
    - subst w. inversion R; subst sh'.
      destruct (nil_eqb i NoNil) eqn:Ei.
      + (* setInner was a no-op: the shape is not an interface holding something *)
        destruct Ni as [Ni | Ni]; [discriminate|].
        split. * unfold s1. rewrite length_dset. lia.
        * unfold s1. rewrite nth_dset_eq. unfold gamma in *. simpl in *.
          apply andb_true_iff in G. destruct G as [_ G2]. rewrite (gamma_i_nonhold _ sh Ni), G2. reflexivity.
      + split. * rewrite length_dset. lia.
        * rewrite nth_dset_eq. rewrite G1. simpl. exact G.
    - assert (B : w < length s1 /\ gamma (nth w s1 vident) sh' = true)
        by (unfold s1; apply covers_dset_other with (r := r); auto).
      destruct (nil_eqb i NoNil); [exact B|].
      destruct B as [B1 B2]. split.
      + rewrite length_dset. lia.
      + rewrite nth_dset_neq by auto. exact B2.
  Qed.

  Lemma covers_def_inner_outer s r v o i sh :
    covers s r -> ptr f v = true -> gamma (i, o) sh = true ->
    covers (sset_outer f (sset_inner f s v i) v o) (eset r v sh).
  Proof.
    intros C P G w sh' R Pw.
    assert (No : nil_eqb o NoNil = false).
    { destruct (nil_eqb o NoNil) eqn:E; auto. apply nil_eqb_eq in E. subst o.
      unfold gamma in G. simpl in G. rewrite andb_false_r in G. discriminate. }
    unfold sset_outer. rewrite P, No. simpl.
    unfold eset in R. destruct (Nat.eqb_spec w v).
    - subst w. inversion R; subst sh'. split.
      + rewrite length_dset. lia.
      + rewrite nth_dset_eq. unfold sset_inner. rewrite P. simpl.
        destruct (nil_eqb i NoNil) eqn:Ei.
        * apply nil_eqb_eq in Ei. subst i. unfold gamma in *. simpl in *.
          apply andb_true_iff in G. destruct G as [G1 G2]. rewrite G2, andb_true_r.
          apply gamma_i_nonhold. intros b ->. simpl in G1. discriminate.
        * set (s1 := dset s v (i, snd (sget f s v))).
          assert (G1 : sget f s1 v = (i, snd (sget f s v))).
          { unfold sget at 1. rewrite P. simpl.
            assert (L : v < length s1) by (unfold s1; rewrite length_dset; lia).
            apply Nat.ltb_lt in L. rewrite L. unfold s1. apply nth_dset_eq. }
          rewrite G1. simpl. exact G.
    - assert (B : w < length (sset_inner f s v i) /\ gamma (nth w (sset_inner f s v i) vident) sh' = true).
      { unfold sset_inner. rewrite P. simpl. destruct (nil_eqb i NoNil); [apply C; auto|].
        apply covers_dset_other with (r := r); auto. }
      destruct B as [B1 B2]. split.
      + rewrite length_dset. lia.
      + rewrite nth_dset_neq by auto. exact B2.
  Qed.

  Lemma handle_ret_sound s r v cr sh :
    covers s r -> env_wf r -> call_result_ok f r v cr sh -> covers (handle_ret f s v cr) (eset r v sh).
  Proof.
    intros C W [WS OK]. unfold handle_ret.
    destruct (ptr f v) eqn:P; simpl.
    2:{ apply covers_eset_nonptr; auto. }
    destruct cr as [[] a | [x|] ifc | ].
    - (* append *)
      destruct OK as (NI & sa & Ra & H).
      pose proof (sget_gamma s r a sa C W Ra) as Ga.
      unfold gamma in Ga. apply andb_true_iff in Ga. destruct Ga as [_ Ga].
      pose proof (wf_noniface v sh WS NI) as NH.
      destruct (snd (sget f s a)) eqn:E; simpl in Ga.
      + discriminate.
      + apply covers_def_outer; auto. intros _.
        rewrite H; [reflexivity|]. apply negb_true_iff. exact Ga.
      + apply covers_def_outer; auto; intros _; destruct sh; reflexivity.
      + apply covers_def_outer; auto; intros _; destruct sh; reflexivity.
      + apply covers_def_outer; auto; intros _; destruct sh; reflexivity.
    - (* result as nil as the first argument *)
      destruct OK as (NI & sa & Ra & H).
      pose proof (sget_gamma s r a sa C W Ra) as Ga.
      pose proof (wf_noniface v sh WS NI) as NH.
      apply covers_set; auto. intros _.
      unfold gamma in *. apply andb_true_iff in Ga. destruct Ga as [_ Ga].
      rewrite (gamma_i_nonhold _ sh NH). simpl. rewrite (gamma_o_outer _ sh sa H). exact Ga.
    - apply covers_def_outer; auto. eapply wf_noniface; eauto.
    - subst sh. apply covers_def_outer; auto; discriminate.
    - apply covers_set; auto. intros _. apply gamma_MM.
    - apply covers_set; auto.
    - apply covers_set; auto. intros _. apply gamma_MM.
    - apply covers_set; auto. intros _. apply gamma_MM.
  Qed.

  (* transfer_sound: one lemma covering every instruction kind *)
  Lemma transfer_sound tb s r i r' :
    covers s r -> env_wf r -> exec f tb r i r' -> covers (process_instr f tb s i) r' /\ env_wf r'.
  Proof.
    intros C W E. destruct E; simpl.
    - (* Convert, integer operand *)
      split.
      + apply covers_def_outer; auto. eapply wf_noniface; eauto.
      + apply env_wf_eset; auto. intros P. eapply wf_shape_nonptr; eauto.
    - (* Convert, pointer-like operand *)
      split.
      + apply covers_set; auto. intros P. rewrite P. eapply sget_gamma; eauto.
      + apply env_wf_eset; auto. intros P. rewrite P. reflexivity.
    - (* Convert from a value (string) *)
      split.
      + apply covers_set; auto. intros _. unfold sget. rewrite H. reflexivity.
      + apply env_wf_eset; auto.
    - (* ChangeType / ChangeInterface *)
      split.
      + apply covers_set; auto. intros P. rewrite P. eapply sget_gamma; eauto.
      + apply env_wf_eset; auto. intros P. rewrite P. reflexivity.
    - (* SliceToArrayPointer, non-zero length *)
      split.
      + apply covers_refine_outer with (sh := SNon); auto.
        * apply covers_def_outer; auto. discriminate.
        * apply env_wf_eset; auto.
        * apply eset_SNon_keep; auto.
      + apply env_wf_eset; auto.
    - (* SliceToArrayPointer, zero length *)
      split.
      + apply covers_set; auto. intros P. rewrite P. eapply sget_gamma; eauto.
      + apply env_wf_eset; auto. intros P. rewrite P. reflexivity.
    - (* SliceToArray, non-zero length *)
      split.
      + apply covers_eset_nonptr; auto. eapply covers_refine_outer; eauto.
      + apply env_wf_eset; auto.
    - split.
      + apply covers_eset_nonptr; auto.
      + apply env_wf_eset; auto.
    - (* Slice of an array *)
      split.
      + apply covers_def_outer; auto. discriminate.
      + apply env_wf_eset; auto.
    - (* Slice with a non-zero constant bound *)
      split.
      + apply covers_refine_outer with (sh := SNon); auto.
        * apply covers_def_outer; auto. discriminate.
        * apply env_wf_eset; auto.
        * apply eset_SNon_keep; auto.
      + apply env_wf_eset; auto.
    - (* Slice of a slice *)
      split.
      + apply covers_set; auto. intros P. rewrite P. eapply sget_gamma; eauto.
      + apply env_wf_eset; auto. intros P. rewrite P. reflexivity.
    - (* Slice of an array pointer *)
      split.
      + apply covers_set; auto. intros _. eapply sget_gamma; eauto.
      + apply env_wf_eset; auto.
    - (* Slice of a string *)
      split.
      + apply covers_set; auto. intros P. congruence.
      + apply env_wf_eset; auto.
    - (* If on a nil comparison *)
      subst tb. simpl. split; auto.
      rewrite <- H1. destruct (outer_nil sh) eqn:O.
      + apply covers_reset with (sh := sh); auto. intros _. destruct sh; try discriminate; reflexivity.
      + apply covers_refine_outer with (sh := sh); auto. simpl. rewrite O. reflexivity.
    - (* Load *)
      split.
      + apply covers_refine_outer with (sh := SNon); auto.
        * apply covers_set; auto. intros _. destruct glob; destruct sh as [| | |[]]; reflexivity.
        * apply env_wf_eset; auto. intros P. eapply wf_shape_nonptr; eauto.
        * rewrite eset_neq; auto.
      + apply env_wf_eset; auto. intros P. eapply wf_shape_nonptr; eauto.
    - (* FieldAddr / IndexAddr *)
      split.
      + apply covers_def_outer; auto; try discriminate. eapply covers_refine_outer; eauto.
      + apply env_wf_eset; auto.
    - (* Alloc / Make* *)
      split.
      + apply covers_def_outer; auto. discriminate.
      + apply env_wf_eset; auto.
    - (* Store / MapUpdate / Send / Select *)
      split; auto. eapply covers_refine_outer; eauto.
    - (* Call / Go / Defer *)
      assert (C1 : covers (match fv with Some g => sset_outer f s g NeverNil | None => s end) r).
      { destruct fv as [g|]; auto. eapply covers_refine_outer; eauto. }
      destruct res as [[v cr]|].
      + destruct H0 as (sh & OK & ->). split.
        * apply handle_ret_sound; auto.
        * apply env_wf_eset; auto. intros P. destruct OK as [WS _]. eapply wf_shape_nonptr; eauto.
      + subst r'. split; auto.
    - (* Recv *)
      split.
      + apply covers_set; auto.
        * eapply covers_refine_outer; eauto.
        * intros _. apply gamma_MM.
      + apply env_wf_eset; auto. intros P. eapply wf_shape_nonptr; eauto.
    - (* MakeInterface *)
      split.
      + apply covers_set; auto. intros _.
        pose proof (sget_gamma s r x sx C W H) as G. unfold gamma in G.
        apply andb_true_iff in G. destruct G as [_ G].
        unfold gamma. cbn [fst snd]. rewrite (gamma_o_to_inner _ _ G). reflexivity.
      + apply env_wf_eset; auto. intros P. congruence.
    - (* TypeAssert to an interface *)
      assert (C1 : covers (sset_outer f s x NeverNil) r) by (eapply covers_refine_outer; eauto).
      split.
      + apply covers_def_outer_inner; auto.
        pose proof (sget_gamma _ r x (SHold b) C1 W H) as G. unfold gamma in G.
        apply andb_true_iff in G. destruct G as [G _].
        unfold gamma. cbn [fst snd]. rewrite G. reflexivity.
      + apply env_wf_eset; auto. intros P. congruence.
    - (* TypeAssert to a concrete type *)
      assert (C1 : covers (sset_outer f s x NeverNil) r) by (eapply covers_refine_outer; eauto).
      split.
      + apply covers_def_outer; auto.
        * apply held_not_hold.
        * intros P. apply held_gamma_o; auto.
          pose proof (sget_gamma _ r x (SHold b) C1 W H) as G. unfold gamma in G.
          apply andb_true_iff in G. apply G.
      + apply env_wf_eset; auto. intros P. unfold held_shape. unfold ptr in P. rewrite P. reflexivity.
    - (* MapLookup in a nil map *)
      split.
      + destruct (nil_eqb (snd (sget f s x)) AlwaysNil).
        * apply covers_set; auto. intros P. unfold nil_shape_of. unfold ptr in P. rewrite P. simpl.
          destruct (v_iface (vi f v)); reflexivity.
        * apply covers_set; auto. intros _. apply gamma_MM.
      + apply env_wf_eset; auto. intros P. unfold nil_shape_of. unfold ptr in P. rewrite P. reflexivity.
    - (* MapLookup *)
      split.
      + pose proof (sget_gamma s r x SNon C W H) as G. unfold gamma in G.
        apply andb_true_iff in G. destruct G as [_ G].
        destruct (nil_eqb (snd (sget f s x)) AlwaysNil) eqn:E.
        * apply nil_eqb_eq in E. rewrite E in G. discriminate.
        * apply covers_set; auto. intros _. apply gamma_MM.
      + apply env_wf_eset; auto. intros P. eapply wf_shape_nonptr; eauto.
    - (* Field / Index *)
      split.
      + apply covers_set; auto.
        * unfold sset. rewrite H0. exact C.
        * intros _. apply gamma_MM.
      + apply env_wf_eset; auto. intros P. eapply wf_shape_nonptr; eauto.
    - (* type switch: index *)
      split.
      + apply covers_eset_nonptr; auto.
      + apply env_wf_eset; auto.
    - (* type switch: default branch *)
      assert (C1 : covers (sset_outer f s tag (if hasNil then NeverNil else MaybeNil)) r).
      { eapply covers_refine_outer; eauto. destruct hasNil; simpl.
        - rewrite H0; auto.
        - reflexivity. }
      split.
      + apply covers_set; auto. intros P. rewrite P. eapply sget_gamma; eauto.
      + apply env_wf_eset; auto. intros P. rewrite P. reflexivity.
    - (* type switch: case with an interface type *)
      assert (C1 : covers (sset_outer f s tag NeverNil) r) by (eapply covers_refine_outer; eauto).
      split.
      + apply covers_def_inner_outer; auto.
        pose proof (sget_gamma _ r tag (SHold b) C1 W H) as G. unfold gamma in G.
        apply andb_true_iff in G. destruct G as [G _].
        unfold gamma. cbn [fst snd]. rewrite G. reflexivity.
      + apply env_wf_eset; auto. intros P. congruence.
    - (* type switch: case with a concrete type *)
      assert (C1 : covers (sset_outer f s tag NeverNil) r) by (eapply covers_refine_outer; eauto).
      split.
      + apply covers_def_outer; auto.
        * apply held_not_hold.
        * intros P. apply held_gamma_o; auto.
          pose proof (sget_gamma _ r tag (SHold b) C1 W H) as G. unfold gamma in G.
          apply andb_true_iff in G. apply G.
      + apply env_wf_eset; auto. intros P. unfold held_shape. unfold ptr in P. rewrite P. reflexivity.
    - (* Extract of a call result *)
      split.
      + apply handle_ret_sound; auto.
      + apply env_wf_eset; auto. intros P. destruct H as [WS _]. eapply wf_shape_nonptr; eauto.
    - (* Extract of another tuple *)
      split.
      + apply covers_set; auto. intros _. apply gamma_MM.
      + apply env_wf_eset; auto. intros P. eapply wf_shape_nonptr; eauto.
    - (* BinOp etc. *)
      split.
      + apply covers_eset_nonptr; auto.
      + apply env_wf_eset; auto.
    - split; auto.
    - split; auto.
    - split; auto.
  Qed.
End Sound.
