(* C15 — soundness of the nilness analysis model w.r.t. the nil-shape semantics. *)
From Coq Require Import List Arith Bool Lia.
Import ListNotations.
Require Import Verif.Model.C13 Verif.Model.C13_Nilness Verif.Model.C15.
Require Import Verif.Proofs.C13 Verif.Proofs.C13_Lattices Verif.Proofs.C13_Nilness.

(* ------------------------------------------------------------------ gamma *)
Lemma vn_eqb_eq a b : vn_eqb a b = true <-> a = b.
Proof.
  destruct a, b. unfold vn_eqb. simpl. rewrite andb_true_iff, !nil_eqb_eq. split.
  - intros [-> ->]. reflexivity.
  - intros H. inversion H. auto.
Qed.

Lemma gamma_ident sh : gamma vident sh = false.
Proof. unfold gamma, vident. simpl. apply andb_false_r. Qed.

Lemma gamma_o_mono a b sh : leq a b -> gamma_o a sh = true -> gamma_o b sh = true.
Proof. destruct a, b, sh; vm_compute; intros; congruence. Qed.

Lemma gamma_i_mono a b sh : leq a b -> gamma_i a sh = true -> gamma_i b sh = true.
Proof. destruct a, b, sh as [| | |[]]; vm_compute; intros; congruence. Qed.

(* merge_sound: the concretisation is monotone, hence gamma a U gamma b <= gamma (a merge b) *)
Lemma gamma_mono (a b : vn) sh : leq a b -> gamma a sh = true -> gamma b sh = true.
Proof.
  destruct a as [a1 a2], b as [b1 b2]. unfold leq, leqb, gamma. simpl.
  rewrite !andb_true_iff. intros [L1 L2] [G1 G2]. split.
  - eapply gamma_i_mono; eauto.
  - eapply gamma_o_mono; eauto.
Qed.

Lemma merge_sound_l (a b : vn) sh : gamma a sh = true -> gamma (merge a b) sh = true.
Proof. apply gamma_mono. apply merge_ub_l. Qed.
Lemma merge_sound_r (a b : vn) sh : gamma b sh = true -> gamma (merge a b) sh = true.
Proof. apply gamma_mono. apply merge_ub_r. Qed.

Lemma gamma_i_nonhold i sh : (forall b, sh <> SHold b) -> gamma_i i sh = true.
Proof. destruct sh; simpl; intros; auto. exfalso. eapply H; eauto. Qed.

Lemma gamma_MM sh : gamma MM sh = true.
Proof. destruct sh as [| | |[]]; reflexivity. Qed.

Lemma gamma_normalize x ifc sh : gamma x sh = true -> gamma (normalize x ifc) sh = true.
Proof.
  destruct x as [i o]. unfold gamma, normalize. simpl. rewrite !andb_true_iff. intros [G1 G2]. split.
  - destruct (nil_eqb i NoNil || negb ifc); [destruct sh as [| | |[]]; reflexivity | exact G1].
  - destruct (nil_eqb o NoNil) eqn:E; [destruct sh as [| | |[]]; reflexivity | exact G2].
Qed.

(* ------------------------------------------------------------------ the state vector *)
Lemma length_dset s k x : length (dset s k x) = Nat.max (length s) (S k).
Proof. unfold dset. rewrite length_upd, app_length, repeat_length. lia. Qed.

Lemma nth_dset_eq s k x : nth k (dset s k x) vident = x.
Proof. unfold dset. apply nth_upd_eq. rewrite app_length, repeat_length. lia. Qed.

Lemma nth_dset_neq s k x w : w <> k -> nth w (dset s k x) vident = nth w s vident.
Proof.
  intros H. unfold dset. rewrite nth_upd_neq by auto.
  destruct (Nat.lt_ge_cases w (length s)).
  - apply app_nth1; auto.
  - rewrite app_nth2 by auto. rewrite (nth_overflow s) by auto.
    destruct (Nat.lt_ge_cases (w - length s) (S k - length s)).
    + apply nth_repeat_lt; auto.
    + apply nth_overflow. rewrite repeat_length. auto.
Qed.

Section Sound.
  Variable f : func.

  (* typing of environments, and the abstract state covering an environment: every defined pointer-like value has an
     explicit entry in the state vector whose concretisation contains its shape *)
  Definition env_wf (r : env) : Prop := forall v sh, r v = Some sh -> ptr f v = false -> sh = SNon.
  Definition covers (s : st) (r : env) : Prop :=
    forall v sh, r v = Some sh -> ptr f v = true -> v < length s /\ gamma (nth v s vident) sh = true.

  Lemma sget_covered s r v sh : covers s r -> r v = Some sh -> ptr f v = true -> sget f s v = nth v s vident.
  Proof.
    intros C R P. unfold sget. rewrite P. simpl. destruct (C v sh R P) as [L _].
    apply Nat.ltb_lt in L. rewrite L. reflexivity.
  Qed.

  Lemma sget_gamma s r v sh : covers s r -> env_wf r -> r v = Some sh -> gamma (sget f s v) sh = true.
  Proof.
    intros C W R. destruct (ptr f v) eqn:P.
    - rewrite (sget_covered s r v sh C R P). apply (C v sh R P).
    - unfold sget. rewrite P. simpl. rewrite (W v sh R P). reflexivity.
  Qed.

  Lemma wf_nonptr r v sh : env_wf r -> r v = Some sh -> ptr f v = false -> sh = SNon.
  Proof. intros W R P. eapply W; eauto. Qed.

  Lemma wf_shape_nonptr v sh : wf_shape (vi f v) sh = true -> ptr f v = false -> sh = SNon.
  Proof.
    unfold wf_shape, ptr. intros H P. rewrite P in H. simpl in H. destruct sh; try discriminate. reflexivity.
  Qed.

  Lemma eset_eq r v sh : eset r v sh v = Some sh.
  Proof. unfold eset. rewrite Nat.eqb_refl. reflexivity. Qed.
  Lemma eset_neq r v sh w : w <> v -> eset r v sh w = r w.
  Proof. intros H. unfold eset. apply Nat.eqb_neq in H. rewrite H. reflexivity. Qed.

  Lemma env_wf_eset r v sh : env_wf r -> (ptr f v = false -> sh = SNon) -> env_wf (eset r v sh).
  Proof.
    intros W H w sh' R P. unfold eset in R. destruct (Nat.eqb_spec w v).
    - inversion R; subst. auto.
    - eapply W; eauto.
  Qed.

  (* covering is preserved by writes to other entries *)
  Lemma covers_dset_other s r v x : covers s r -> r v = None \/ True ->
    forall w sh, w <> v -> r w = Some sh -> ptr f w = true ->
    w < length (dset s v x) /\ gamma (nth w (dset s v x) vident) sh = true.
  Proof.
    intros C _ w sh N R P. destruct (C w sh R P) as [L G]. split.
    - rewrite length_dset. lia.
    - rewrite nth_dset_neq by auto. exact G.
  Qed.

  (* defining (or redefining) v with an abstract value that contains its shape *)
  Lemma covers_set s r v x sh :
    covers s r -> (ptr f v = true -> gamma x sh = true) -> covers (sset f s v x) (eset r v sh).
  Proof.
    intros C G w sh' R P. unfold eset in R. unfold sset.
    destruct (Nat.eqb_spec w v).
    - subst w. inversion R; subst sh'. rewrite P. simpl.
      specialize (G P). destruct (vn_eqb x vident) eqn:E.
      + apply vn_eqb_eq in E. subst x. rewrite gamma_ident in G. discriminate.
      + split. * rewrite length_dset. lia. * rewrite nth_dset_eq. exact G.
    - destruct (negb (ptr f v)); [apply C; auto|].
      destruct (vn_eqb x vident); [apply C; auto|].
      apply covers_dset_other with (r := r); auto.
  Qed.

  (* refining the Outer / Inner component of a value that stays as it is *)
  Lemma covers_refine_outer s r x o sh :
    covers s r -> env_wf r -> r x = Some sh -> gamma_o o sh = true -> covers (sset_outer f s x o) r.
  Proof.
    intros C W R G w sh' R' P. unfold sset_outer.
    destruct (ptr f x) eqn:Px; simpl; [| apply C; auto].
    destruct (nil_eqb o NoNil) eqn:E; [apply C; auto|].
    destruct (Nat.eq_dec w x).
    - subst w. rewrite R in R'. inversion R'; subst sh'. split.
      + rewrite length_dset. lia.
      + rewrite nth_dset_eq. rewrite (sget_covered s r x sh C R Px).
        destruct (C x sh R Px) as [_ G']. unfold gamma in *. simpl.
        apply andb_true_iff in G'. destruct G' as [G1 _]. rewrite G1, G. reflexivity.
    - apply covers_dset_other with (r := r); auto.
  Qed.

  (* defining v through setOuter only: fine when the shape is not an interface holding something *)
  Lemma covers_def_outer s r v o sh :
    covers s r -> (forall b, sh <> SHold b) -> (ptr f v = true -> gamma_o o sh = true) ->
    covers (sset_outer f s v o) (eset r v sh).
  Proof.
    intros C NH G w sh' R P. unfold eset in R. unfold sset_outer.
    destruct (Nat.eqb_spec w v).
    - subst w. inversion R; subst sh'. rewrite P. simpl. specialize (G P).
      destruct (nil_eqb o NoNil) eqn:E.
      + apply nil_eqb_eq in E. subst o. simpl in G. discriminate.
      + split. * rewrite length_dset. lia.
        * rewrite nth_dset_eq. unfold gamma. simpl. rewrite (gamma_i_nonhold _ sh NH), G. reflexivity.
    - destruct (negb (ptr f v)); [apply C; auto|].
      destruct (nil_eqb o NoNil); [apply C; auto|].
      apply covers_dset_other with (r := r); auto.
  Qed.

  Lemma covers_eset_nonptr s r v sh : covers s r -> ptr f v = false -> covers s (eset r v sh).
  Proof.
    intros C P w sh' R Pw. unfold eset in R. destruct (Nat.eqb_spec w v).
    - subst. congruence.
    - apply C; auto.
  Qed.

  Lemma covers_reset s r x val sh :
    covers s r -> r x = Some sh -> (ptr f x = true -> gamma val sh = true) -> covers (sset f s x val) r.
  Proof.
    intros C R G w sh' R' P. unfold sset.
    destruct (ptr f x) eqn:Px; simpl; [| apply C; auto].
    specialize (G eq_refl).
    destruct (vn_eqb val vident) eqn:E.
    - apply vn_eqb_eq in E. subst val. rewrite gamma_ident in G. discriminate.
    - destruct (Nat.eq_dec w x).
      + subst w. rewrite R in R'. inversion R'; subst sh'. split.
        * rewrite length_dset. lia.
        * rewrite nth_dset_eq. exact G.
      + apply covers_dset_other with (r := r); auto.
  Qed.

  Lemma eset_SNon_keep r v x : r x = Some SNon -> eset r v SNon x = Some SNon.
  Proof. intros H. unfold eset. destruct (Nat.eqb x v); auto. Qed.

  Lemma wf_noniface v sh : wf_shape (vi f v) sh = true -> v_iface (vi f v) = false -> forall b, sh <> SHold b.
  Proof.
    unfold wf_shape. intros H I b ->. destruct (negb (v_ptr (vi f v))); [discriminate|].
    rewrite I in H. discriminate.
  Qed.

  Lemma gamma_o_outer o sh sa : outer_nil sh = outer_nil sa -> gamma_o o sh = gamma_o o sa.
  Proof. intros H. destruct o; simpl; rewrite ?H; reflexivity. Qed.

  Lemma gamma_o_to_inner o sx : gamma_o o sx = true -> gamma_i o (SHold (outer_nil sx)) = true.
  Proof. destruct o, sx; simpl; intros; congruence. Qed.

  Lemma gamma_i_to_outer i b : gamma_i i (SHold b) = true -> gamma_o i (if b then SNil else SNon) = true.
  Proof. destruct i, b; simpl; intros; congruence. Qed.

  Lemma held_not_hold v b : forall c, held_shape (vi f v) b <> SHold c.
  Proof. intros c. unfold held_shape. destruct (negb (v_ptr (vi f v))); [discriminate|]. destruct b; discriminate. Qed.

  Lemma held_gamma_o v b i : ptr f v = true -> gamma_i i (SHold b) = true -> gamma_o i (held_shape (vi f v) b) = true.
  Proof.
    intros P G. unfold held_shape. unfold ptr in P. rewrite P. simpl. apply gamma_i_to_outer. exact G.
  Qed.

  (* defining an interface value by setOuter followed by setInner, or the other way round *)
  Lemma covers_def_outer_inner s r v o i sh :
    covers s r -> ptr f v = true -> gamma (i, o) sh = true ->
    covers (sset_inner f (sset_outer f s v o) v i) (eset r v sh).
  Proof.
    intros C P G w sh' R Pw.
    assert (No : nil_eqb o NoNil = false).
    { destruct (nil_eqb o NoNil) eqn:E; auto. apply nil_eqb_eq in E. subst o.
      unfold gamma in G. simpl in G. rewrite andb_false_r in G. discriminate. }
    assert (Ni : nil_eqb i NoNil = false \/ forall b, sh <> SHold b).
    { destruct (nil_eqb i NoNil) eqn:E; auto. right. apply nil_eqb_eq in E. subst i.
      intros b ->. unfold gamma in G. simpl in G. discriminate. }
    unfold sset_inner, sset_outer. rewrite P, No. simpl.
    set (s1 := dset s v (fst (sget f s v), o)).
    assert (G1 : sget f s1 v = (fst (sget f s v), o)).
    { unfold sget at 1. rewrite P. simpl.
      assert (L : v < length s1) by (unfold s1; rewrite length_dset; lia).
      apply Nat.ltb_lt in L. rewrite L. unfold s1. apply nth_dset_eq. }
    unfold eset in R. destruct (Nat.eqb_spec w v).
    - subst w. inversion R; subst sh'.
      destruct (nil_eqb i NoNil) eqn:Ei.
      + (* setInner was a no-op: the shape is not an interface holding something *)
        destruct Ni as [Ni | Ni]; [discriminate|].
        split. * unfold s1. rewrite length_dset. lia.
        * unfold s1. rewrite nth_dset_eq. unfold gamma in *. simpl in *.
          apply andb_true_iff in G. destruct G as [_ G2]. rewrite (gamma_i_nonhold _ sh Ni), G2. reflexivity.
      + split. * rewrite length_dset. lia.
        * rewrite nth_dset_eq. rewrite G1. simpl. exact G.
    - assert (B : w < length s1 /\ gamma (nth w s1 vident) sh' = true)
        by (unfold s1; apply covers_dset_other with (r := r); auto).
      destruct (nil_eqb i NoNil); [exact B|].
      destruct B as [B1 B2]. split.
      + rewrite length_dset. lia.
      + rewrite nth_dset_neq by auto. exact B2.
  Qed.

  Lemma covers_def_inner_outer s r v o i sh :
    covers s r -> ptr f v = true -> gamma (i, o) sh = true ->
    covers (sset_outer f (sset_inner f s v i) v o) (eset r v sh).
  Proof.
    intros C P G w sh' R Pw.
    assert (No : nil_eqb o NoNil = false).
    { destruct (nil_eqb o NoNil) eqn:E; auto. apply nil_eqb_eq in E. subst o.
      unfold gamma in G. simpl in G. rewrite andb_false_r in G. discriminate. }
    unfold sset_outer. rewrite P, No. simpl.
    unfold eset in R. destruct (Nat.eqb_spec w v).
    - subst w. inversion R; subst sh'. split.
      + rewrite length_dset. lia.
      + rewrite nth_dset_eq. unfold sset_inner. rewrite P. simpl.
        destruct (nil_eqb i NoNil) eqn:Ei.
        * apply nil_eqb_eq in Ei. subst i. unfold gamma in *. simpl in *.
          apply andb_true_iff in G. destruct G as [G1 G2]. rewrite G2, andb_true_r.
          apply gamma_i_nonhold. intros b ->. simpl in G1. discriminate.
        * set (s1 := dset s v (i, snd (sget f s v))).
          assert (G1 : sget f s1 v = (i, snd (sget f s v))).
          { unfold sget at 1. rewrite P. simpl.
            assert (L : v < length s1) by (unfold s1; rewrite length_dset; lia).
            apply Nat.ltb_lt in L. rewrite L. unfold s1. apply nth_dset_eq. }
          rewrite G1. simpl. exact G.
    - assert (B : w < length (sset_inner f s v i) /\ gamma (nth w (sset_inner f s v i) vident) sh' = true).
      { unfold sset_inner. rewrite P. simpl. destruct (nil_eqb i NoNil); [apply C; auto|].
        apply covers_dset_other with (r := r); auto. }
      destruct B as [B1 B2]. split.
      + rewrite length_dset. lia.
      + rewrite nth_dset_neq by auto. exact B2.
  Qed.

  Lemma handle_ret_sound s r v cr sh :
    covers s r -> env_wf r -> call_result_ok f r v cr sh -> covers (handle_ret f s v cr) (eset r v sh).
  Proof.
    intros C W [WS OK]. unfold handle_ret.
    destruct (ptr f v) eqn:P; simpl.
    2:{ apply covers_eset_nonptr; auto. }
    destruct cr as [[] a | [x|] ifc | ].
    - (* append *)
      destruct OK as (NI & sa & Ra & H).
      pose proof (sget_gamma s r a sa C W Ra) as Ga.
      unfold gamma in Ga. apply andb_true_iff in Ga. destruct Ga as [_ Ga].
      pose proof (wf_noniface v sh WS NI) as NH.
      destruct (snd (sget f s a)) eqn:E; simpl in Ga.
      + discriminate.
      + apply covers_def_outer; auto. intros _.
        rewrite H; [reflexivity|]. apply negb_true_iff. exact Ga.
      + apply covers_def_outer; auto; intros _; destruct sh; reflexivity.
      + apply covers_def_outer; auto; intros _; destruct sh; reflexivity.
      + apply covers_def_outer; auto; intros _; destruct sh; reflexivity.
    - (* result as nil as the first argument *)
      destruct OK as (NI & sa & Ra & H).
      pose proof (sget_gamma s r a sa C W Ra) as Ga.
      pose proof (wf_noniface v sh WS NI) as NH.
      apply covers_set; auto. intros _.
      unfold gamma in *. apply andb_true_iff in Ga. destruct Ga as [_ Ga].
      rewrite (gamma_i_nonhold _ sh NH). simpl. rewrite (gamma_o_outer _ sh sa H). exact Ga.
    - apply covers_def_outer; auto. eapply wf_noniface; eauto.
    - subst sh. apply covers_def_outer; auto; discriminate.
    - apply covers_set; auto. intros _. apply gamma_MM.
    - apply covers_set; auto.
    - apply covers_set; auto. intros _. apply gamma_MM.
    - apply covers_set; auto. intros _. apply gamma_MM.
  Qed.

  (* transfer_sound: one lemma covering every instruction kind *)
  Lemma transfer_sound tb s r i r' :
    covers s r -> env_wf r -> exec f tb r i r' -> covers (process_instr f tb s i) r' /\ env_wf r'.
  Proof.
    intros C W E. destruct E; simpl.
    - (* Convert, integer operand *)
      split.
      + apply covers_def_outer; auto. eapply wf_noniface; eauto.
      + apply env_wf_eset; auto. intros P. eapply wf_shape_nonptr; eauto.
    - (* Convert, pointer-like operand *)
      split.
      + apply covers_set; auto. intros P. rewrite P. eapply sget_gamma; eauto.
      + apply env_wf_eset; auto. intros P. rewrite P. reflexivity.
    - (* Convert from a value (string) *)
      split.
      + apply covers_set; auto. intros _. unfold sget. rewrite H. reflexivity.
      + apply env_wf_eset; auto.
    - (* ChangeType / ChangeInterface *)
      split.
      + apply covers_set; auto. intros P. rewrite P. eapply sget_gamma; eauto.
      + apply env_wf_eset; auto. intros P. rewrite P. reflexivity.
    - (* SliceToArrayPointer, non-zero length *)
      split.
      + apply covers_refine_outer with (sh := SNon); auto.
        * apply covers_def_outer; auto. discriminate.
        * apply env_wf_eset; auto.
        * apply eset_SNon_keep; auto.
      + apply env_wf_eset; auto.
    - (* SliceToArrayPointer, zero length *)
      split.
      + apply covers_set; auto. intros P. rewrite P. eapply sget_gamma; eauto.
      + apply env_wf_eset; auto. intros P. rewrite P. reflexivity.
    - (* SliceToArray, non-zero length *)
      split.
      + apply covers_eset_nonptr; auto. eapply covers_refine_outer; eauto.
      + apply env_wf_eset; auto.
    - split.
      + apply covers_eset_nonptr; auto.
      + apply env_wf_eset; auto.
    - (* Slice of an array *)
      split.
      + apply covers_def_outer; auto. discriminate.
      + apply env_wf_eset; auto.
    - (* Slice with a non-zero constant bound *)
      split.
      + apply covers_refine_outer with (sh := SNon); auto.
        * apply covers_def_outer; auto. discriminate.
        * apply env_wf_eset; auto.
        * apply eset_SNon_keep; auto.
      + apply env_wf_eset; auto.
    - (* Slice of a slice *)
      split.
      + apply covers_set; auto. intros P. rewrite P. eapply sget_gamma; eauto.
      + apply env_wf_eset; auto. intros P. rewrite P. reflexivity.
    - (* Slice of an array pointer *)
      split.
      + apply covers_set; auto. intros _. eapply sget_gamma; eauto.
      + apply env_wf_eset; auto.
    - (* Slice of a string *)
      split.
      + apply covers_set; auto. intros P. congruence.
      + apply env_wf_eset; auto.
    - (* If on a nil comparison *)
      subst tb. simpl. split; auto.
      rewrite <- H1. destruct (outer_nil sh) eqn:O.
      + apply covers_reset with (sh := sh); auto. intros _. destruct sh; try discriminate; reflexivity.
      + apply covers_refine_outer with (sh := sh); auto. simpl. rewrite O. reflexivity.
    - (* Load *)
      split.
      + apply covers_refine_outer with (sh := SNon); auto.
        * apply covers_set; auto. intros _. destruct glob; destruct sh as [| | |[]]; reflexivity.
        * apply env_wf_eset; auto. intros P. eapply wf_shape_nonptr; eauto.
        * rewrite eset_neq; auto.
      + apply env_wf_eset; auto. intros P. eapply wf_shape_nonptr; eauto.
    - (* FieldAddr / IndexAddr *)
      split.
      + apply covers_def_outer; auto; try discriminate. eapply covers_refine_outer; eauto.
      + apply env_wf_eset; auto.
    - (* Alloc / Make* *)
      split.
      + apply covers_def_outer; auto. discriminate.
      + apply env_wf_eset; auto.
    - (* Store / MapUpdate / Send / Select *)
      split; auto. eapply covers_refine_outer; eauto.
    - (* Call / Go / Defer *)
      assert (C1 : covers (match fv with Some g => sset_outer f s g NeverNil | None => s end) r).
      { destruct fv as [g|]; auto. eapply covers_refine_outer; eauto. }
      destruct res as [[v cr]|].
      + destruct H0 as (sh & OK & ->). split.
        * apply handle_ret_sound; auto.
        * apply env_wf_eset; auto. intros P. destruct OK as [WS _]. eapply wf_shape_nonptr; eauto.
      + subst r'. split; auto.
    - (* Recv *)
      split.
      + apply covers_set; auto.
        * eapply covers_refine_outer; eauto.
        * intros _. apply gamma_MM.
      + apply env_wf_eset; auto. intros P. eapply wf_shape_nonptr; eauto.
    - (* MakeInterface *)
      split.
      + apply covers_set; auto. intros _.
        pose proof (sget_gamma s r x sx C W H) as G. unfold gamma in G.
        apply andb_true_iff in G. destruct G as [_ G].
        unfold gamma. cbn [fst snd]. rewrite (gamma_o_to_inner _ _ G). reflexivity.
      + apply env_wf_eset; auto. intros P. congruence.
    - (* TypeAssert to an interface *)
      assert (C1 : covers (sset_outer f s x NeverNil) r) by (eapply covers_refine_outer; eauto).
      split.
      + apply covers_def_outer_inner; auto.
        pose proof (sget_gamma _ r x (SHold b) C1 W H) as G. unfold gamma in G.
        apply andb_true_iff in G. destruct G as [G _].
        unfold gamma. cbn [fst snd]. rewrite G. reflexivity.
      + apply env_wf_eset; auto. intros P. congruence.
    - (* TypeAssert to a concrete type *)
      assert (C1 : covers (sset_outer f s x NeverNil) r) by (eapply covers_refine_outer; eauto).
      split.
      + apply covers_def_outer; auto.
        * apply held_not_hold.
        * intros P. apply held_gamma_o; auto.
          pose proof (sget_gamma _ r x (SHold b) C1 W H) as G. unfold gamma in G.
          apply andb_true_iff in G. apply G.
      + apply env_wf_eset; auto. intros P. unfold held_shape. unfold ptr in P. rewrite P. reflexivity.
    - (* MapLookup in a nil map *)
      split.
      + destruct (nil_eqb (snd (sget f s x)) AlwaysNil).
        * apply covers_set; auto. intros P. unfold nil_shape_of. unfold ptr in P. rewrite P. simpl.
          destruct (v_iface (vi f v)); reflexivity.
        * apply covers_set; auto. intros _. apply gamma_MM.
      + apply env_wf_eset; auto. intros P. unfold nil_shape_of. unfold ptr in P. rewrite P. reflexivity.
    - (* MapLookup *)
      split.
      + pose proof (sget_gamma s r x SNon C W H) as G. unfold gamma in G.
        apply andb_true_iff in G. destruct G as [_ G].
        destruct (nil_eqb (snd (sget f s x)) AlwaysNil) eqn:E.
        * apply nil_eqb_eq in E. rewrite E in G. discriminate.
        * apply covers_set; auto. intros _. apply gamma_MM.
      + apply env_wf_eset; auto. intros P. eapply wf_shape_nonptr; eauto.
    - (* Field / Index *)
      split.
      + apply covers_set; auto.
        * unfold sset. rewrite H0. exact C.
        * intros _. apply gamma_MM.
      + apply env_wf_eset; auto. intros P. eapply wf_shape_nonptr; eauto.
    - (* type switch: index *)
      split.
      + apply covers_eset_nonptr; auto.
      + apply env_wf_eset; auto.
    - (* type switch: default branch *)
      assert (C1 : covers (sset_outer f s tag (if hasNil then NeverNil else MaybeNil)) r).
      { eapply covers_refine_outer; eauto. destruct hasNil; simpl.
        - rewrite H0; auto.
        - reflexivity. }
      split.
      + apply covers_set; auto. intros P. rewrite P. eapply sget_gamma; eauto.
      + apply env_wf_eset; auto. intros P. rewrite P. reflexivity.
    - (* type switch: case with an interface type *)
      assert (C1 : covers (sset_outer f s tag NeverNil) r) by (eapply covers_refine_outer; eauto).
      split.
      + apply covers_def_inner_outer; auto.
        pose proof (sget_gamma _ r tag (SHold b) C1 W H) as G. unfold gamma in G.
        apply andb_true_iff in G. destruct G as [G _].
        unfold gamma. cbn [fst snd]. rewrite G. reflexivity.
      + apply env_wf_eset; auto. intros P. congruence.
    - (* type switch: case with a concrete type *)
      assert (C1 : covers (sset_outer f s tag NeverNil) r) by (eapply covers_refine_outer; eauto).
      split.
      + apply covers_def_outer; auto.
        * apply held_not_hold.
        * intros P. apply held_gamma_o; auto.
          pose proof (sget_gamma _ r tag (SHold b) C1 W H) as G. unfold gamma in G.
          apply andb_true_iff in G. apply G.
      + apply env_wf_eset; auto. intros P. unfold held_shape. unfold ptr in P. rewrite P. reflexivity.
    - (* type switch: clause with several types *)
      assert (C1 : covers (sset_outer f s tag NeverNil) r).
      { eapply covers_refine_outer; eauto. simpl. rewrite H0. reflexivity. }
      split.
      + apply covers_set; auto. intros P. rewrite P. eapply sget_gamma; eauto.
      + apply env_wf_eset; auto. intros P. rewrite P. reflexivity.
    - (* type switch: the nil entry of a clause with several types *)
      split.
      + apply covers_set; auto. intros P. rewrite P. destruct sh; try discriminate; reflexivity.
      + apply env_wf_eset; auto. intros P. rewrite P. reflexivity.
    - (* Extract of a call result *)
      split.
      + apply handle_ret_sound; auto.
      + apply env_wf_eset; auto. intros P. destruct H as [WS _]. eapply wf_shape_nonptr; eauto.
    - (* Extract of another tuple *)
      split.
      + apply covers_set; auto. intros _. apply gamma_MM.
      + apply env_wf_eset; auto. intros P. eapply wf_shape_nonptr; eauto.
    - (* BinOp etc. *)
      split.
      + apply covers_eset_nonptr; auto.
      + apply env_wf_eset; auto.
    - split; auto.
    - split; auto.
    - split; auto.
  Qed.

  (* ---- blocks, phis, edges *)
  Lemma block_sound tb l : forall s r r1,
    covers s r -> env_wf r -> exec_list f tb r l r1 ->
    covers (fold_left (process_instr f tb) l s) r1 /\ env_wf r1.
  Proof.
    induction l; intros s r r1 C W E; inversion E; subst; simpl.
    - auto.
    - destruct (transfer_sound tb s r a r2 C W H2) as [C1 W1]. eapply IHl; eauto.
  Qed.

  Lemma phis_fold_sound (l : list (nat * list nat * vn * shape)) : forall acc racc,
    covers acc racc -> env_wf racc ->
    (forall p, In p l -> ptr f (fst (fst (fst p))) = true -> gamma (snd (fst p)) (snd p) = true) ->
    covers (fold_left (fun a p => sset f a (fst (fst (fst p))) (snd (fst p))) l acc)
           (fold_left (fun a p => eset a (fst (fst (fst p))) (if ptr f (fst (fst (fst p))) then snd p else SNon)) l racc) /\
    env_wf (fold_left (fun a p => eset a (fst (fst (fst p))) (if ptr f (fst (fst (fst p))) then snd p else SNon)) l racc).
  Proof.
    induction l as [|p l IH]; intros acc racc C W G; simpl; auto.
    apply IH.
    - apply covers_set; auto. intros P. rewrite P. apply G; simpl; auto.
    - apply env_wf_eset; auto. intros P. rewrite P. reflexivity.
    - intros q Hq. apply G. simpl; auto.
  Qed.

  Definition quads (g : nat * list nat -> vn) (phis : list (nat * list nat)) (shs : list shape) :=
    map (fun ps : (nat * list nat) * shape => (fst ps, g (fst ps), snd ps)) (combine phis shs).

  Lemma fold_sset_quads g phis : forall shs acc, length shs = length phis ->
    fold_left (fun acc (pv : (nat * list nat) * vn) => sset f acc (fst (fst pv)) (snd pv)) (combine phis (map g phis)) acc =
    fold_left (fun a (p : (nat * list nat) * vn * shape) => sset f a (fst (fst (fst p))) (snd (fst p))) (quads g phis shs) acc.
  Proof.
    induction phis as [|p ps IH]; intros shs acc Len; destruct shs; simpl in *; try discriminate; auto.
    apply IH. lia.
  Qed.

  Lemma fold_eset_quads g phis : forall shs racc, length shs = length phis ->
    fold_left (fun acc (ps : (nat * list nat) * shape) => eset acc (fst (fst ps)) (if ptr f (fst (fst ps)) then snd ps else SNon))
              (combine phis shs) racc =
    fold_left (fun a (p : (nat * list nat) * vn * shape) =>
                 eset a (fst (fst (fst p))) (if ptr f (fst (fst (fst p))) then snd p else SNon)) (quads g phis shs) racc.
  Proof.
    induction phis as [|p ps IH]; intros shs racc Len; destruct shs; simpl in *; try discriminate; auto.
    apply IH. lia.
  Qed.

  Lemma combine_nth_error {A B} (la : list A) : forall (lb : list B) a b d, length lb = length la ->
    In (a, b) (combine la lb) -> exists k, nth_error la k = Some a /\ nth k lb d = b.
  Proof.
    induction la as [|a0 la IH]; intros lb a b d Len Hin; destruct lb; simpl in *; try discriminate; [tauto|].
    destruct Hin as [H|H].
    - inversion H; subst. exists 0. auto.
    - destruct (IH lb a b d ltac:(lia) H) as (k & K1 & K2). exists (S k). auto.
  Qed.

  Lemma phi_sound to idx s1 r1 r' :
    covers s1 r1 -> env_wf r1 -> phi_assign f to idx r1 r' ->
    covers (process_phis f to idx s1) r' /\ env_wf r'.
  Proof.
    intros C W (shs & Len & Rd & ->). unfold process_phis.
    set (g := fun p : nat * list nat => sget f s1 (nth idx (snd p) 0)).
    rewrite (fold_sset_quads g _ shs s1 Len), (fold_eset_quads g _ shs r1 Len).
    apply phis_fold_sound; auto.
    intros q Hq P. unfold quads in Hq. apply in_map_iff in Hq. destruct Hq as ([p sh] & <- & Hin). simpl in *.
    destruct (combine_nth_error _ _ p sh SNon Len Hin) as (k & Hp & <-).
    unfold g. eapply sget_gamma; eauto.
  Qed.

  Lemma edge_sound a b s r r' :
    covers s r -> env_wf r -> edge_step f a b r r' -> covers (ntransfer f a b s) r' /\ env_wf r'.
  Proof.
    intros C W (_ & r1 & E & P). unfold ntransfer.
    destruct (block_sound _ _ _ _ _ C W E) as [C1 W1].
    eapply phi_sound; eauto.
  Qed.

  (* ---- monotone transport of covering along the lattice order of state vectors *)
  Lemma covers_leq s s' r : covers s r -> @leq st NilStateSemilattice s s' -> covers s' r.
  Proof.
    intros C L v sh R P. destruct (C v sh R P) as [Lt G].
    assert (Lv : leq (nth v s vident) (nth v s' vident)).
    { pose proof (proj1 (@dense_leq_spec vn VNSemilattice VNLaws s s') L v) as H. exact H. }
    pose proof (gamma_mono _ _ sh Lv G) as G'. split; auto.
    destruct (Nat.lt_ge_cases v (length s')); auto.
    rewrite nth_overflow in G' by auto. rewrite gamma_ident in G'. discriminate.
  Qed.

  (* ---- the entry state *)
  Lemma entry_state_covers r0 : init_env_ok f r0 -> covers (entry_state f) r0 /\ env_wf r0.
  Proof.
    intros I. split.
    - unfold entry_state.
      assert (J : forall l s,
        (forall v, (v < length s /\ nth v s vident = seed_value f v) \/ True) ->
        forall v, In v l -> ptr f v = true -> seed_value f v <> vident ->
        let s' := fold_left (fun s v => sset f s v (seed_value f v)) l s in
        v < length s' /\ nth v s' vident = seed_value f v).
      { induction l as [|w l IH]; intros s _ v Hin P NE; simpl in *; [tauto|].
        destruct (in_dec Nat.eq_dec v l) as [Hl|Hl].
        - apply IH; auto.
        - destruct Hin as [->|]; [|tauto].
          (* v is set now and not touched afterwards *)
          assert (K : forall l0 s0, ~ In v l0 -> v < length s0 ->
                     let s' := fold_left (fun s v => sset f s v (seed_value f v)) l0 s0 in
                     v < length s' /\ nth v s' vident = nth v s0 vident).
          { induction l0 as [|u l0 IH0]; intros s0 Hn Lt; simpl; auto.
            assert (Hu : u <> v) by (intros ->; apply Hn; simpl; auto).
            assert (Hl0 : ~ In v l0) by (intros H; apply Hn; simpl; auto).
            assert (A : v < length (sset f s0 u (seed_value f u)) /\
                        nth v (sset f s0 u (seed_value f u)) vident = nth v s0 vident).
            { unfold sset. destruct (negb (ptr f u)); auto. destruct (vn_eqb (seed_value f u) vident); auto.
              split. - rewrite length_dset. lia. - apply nth_dset_neq. auto. }
            destruct A as [A1 A2]. destruct (IH0 _ Hl0 A1) as [B1 B2]. split; auto. rewrite B2. exact A2. }
          assert (A : v < length (sset f s v (seed_value f v)) /\ nth v (sset f s v (seed_value f v)) vident = seed_value f v).
          { unfold sset. rewrite P. simpl. destruct (vn_eqb (seed_value f v) vident) eqn:E.
            - apply vn_eqb_eq in E. congruence.
            - split. + rewrite length_dset. lia. + apply nth_dset_eq. }
          destruct A as [A1 A2]. destruct (K l _ Hl A1) as [B1 B2]. split; auto. rewrite B2. exact A2. }
      intros v sh R P. specialize (I v). rewrite R in I. destruct I as (WS & Seed & K).
      assert (G : gamma (seed_value f v) sh = true).
      { unfold seed_value. destruct (vk (vi f v)).
        - apply gamma_MM.
        - subst sh. reflexivity.
        - subst sh. reflexivity.
        - subst sh. reflexivity.
        - subst sh. unfold nil_shape_of. unfold ptr in P. rewrite P. simpl. destruct (v_iface (vi f v)); reflexivity.
        - destruct K. congruence.
        - destruct K. }
      assert (NE : seed_value f v <> vident) by (intros E; rewrite E, gamma_ident in G; discriminate).
      destruct (J (f_seed f) [] (fun _ => or_intror Logic.I) v (Seed P) P NE) as [L E].
      split; auto. rewrite E. exact G.
    - intros v sh R P. specialize (I v). rewrite R in I. destruct I as (WS & _). eapply wf_shape_nonptr; eauto.
  Qed.

  (* ---- the CFG of f as seen by the dense solver *)
  Lemma succs_of_fsuccs a : succs_of (fsuccs f) a = b_succs (blk f a).
  Proof.
    unfold succs_of, fsuccs, blk.
    change (@nil nat) with (b_succs (mkB [] [] [])). apply map_nth.
  Qed.

  Lemma nn_fsuccs : nn (fsuccs f) = length (f_blocks f).
  Proof. unfold nn, fsuccs. apply map_length. Qed.

  Hypothesis WF : wf_func_b f = true.

  Lemma wf_blocks a : a < length (f_blocks f) ->
    forall b, In b (b_succs (blk f a)) -> b < length (f_blocks f).
  Proof.
    intros Ha b Hb. unfold wf_func_b in WF. rewrite !andb_true_iff in WF. destruct WF as [[_ H] _].
    rewrite forallb_forall in H. specialize (H a). rewrite in_seq in H. specialize (H ltac:(lia)).
    rewrite !andb_true_iff in H. destruct H as [[[[[[H _] _] _] _] _] _].
    rewrite forallb_forall in H. specialize (H b Hb). apply andb_true_iff in H. destruct H as [H _].
    apply Nat.ltb_lt in H. exact H.
  Qed.

  Lemma wf_graph_f : wf_graph (fsuccs f).
  Proof.
    intros a i Ha Hi. rewrite nn_fsuccs in *. unfold succ_at. unfold outdeg in Hi.
    rewrite succs_of_fsuccs in *. apply wf_blocks with (a := a); auto. apply nth_In. exact Hi.
  Qed.

  (* ---- mfp_covers_paths *)
  Variable sol : @state st.
  Hypothesis FIX : is_fixpoint_b (fsuccs f) (ntransfer f) (nentry f) (get_in sol) (get_out sol) = true.

  Lemma fix_in b : b < length (f_blocks f) ->
    eqv (get_in sol b) (in_eq (fsuccs f) (nentry f) (get_out sol) b) = true.
  Proof.
    intros Hb. unfold is_fixpoint_b in FIX. rewrite forallb_forall in FIX. specialize (FIX b).
    rewrite in_seq, nn_fsuccs in FIX. specialize (FIX ltac:(lia)). apply andb_true_iff in FIX. apply FIX.
  Qed.

  Lemma fix_out b i : b < length (f_blocks f) -> i < outdeg (fsuccs f) b ->
    eqv (get_out sol b i) (ntransfer f b (succ_at (fsuccs f) b i) (get_in sol b)) = true.
  Proof.
    intros Hb Hi. unfold is_fixpoint_b in FIX. rewrite forallb_forall in FIX. specialize (FIX b).
    rewrite in_seq, nn_fsuccs in FIX. specialize (FIX ltac:(lia)). apply andb_true_iff in FIX. destruct FIX as [_ H].
    rewrite forallb_forall in H. apply H. apply in_seq. lia.
  Qed.

  Theorem mfp_covers_paths r0 b r :
    init_env_ok f r0 -> reach f r0 b r -> b < length (f_blocks f) ->
    covers (get_in sol b) r /\ env_wf r.
  Proof.
    intros I R. induction R as [| a b r r' R IH E]; intros Hb.
    - destruct (entry_state_covers r0 I) as [C W]. split; auto.
      pose proof Hb as H0.
      {        pose proof (fix_in 0 H0) as FI.
        assert (P0 : preds (fsuccs f) 0 = []).
        { destruct (preds (fsuccs f) 0) as [|[p i] l] eqn:Pr; auto. exfalso.
          assert (Hin : In (p, i) (preds (fsuccs f) 0)) by (rewrite Pr; simpl; auto).
          apply (In_preds (fsuccs f) (ntransfer f) (nentry f)) in Hin. destruct Hin as (Hp & Hi & Hs). rewrite nn_fsuccs in Hp.
          unfold wf_func_b in WF. rewrite !andb_true_iff in WF. destruct WF as [[WF0 H] _].
          rewrite forallb_forall in H. specialize (H p). rewrite in_seq in H. specialize (H ltac:(lia)).
          rewrite !andb_true_iff in H. destruct H as [[[[[[H _] _] _] _] _] _].
          rewrite forallb_forall in H. unfold succ_at, outdeg in *. rewrite succs_of_fsuccs in *.
          assert (In0 : In 0 (b_succs (blk f p))) by (rewrite <- Hs; apply nth_In; exact Hi).
          specialize (H 0 In0).
          apply andb_true_iff in H. destruct H as [_ H]. apply existsb_exists in H. destruct H as (x & Hx & _).
          destruct (b_preds (blk f 0)); [destruct Hx | discriminate]. }
        unfold in_eq in FI. rewrite P0 in FI. unfold entry0, nentry in FI. simpl in FI.
        eapply covers_leq; eauto. apply eqv_leq. apply eqv_sym. exact FI.
      }
    - destruct E as (Hin & E).
      assert (Ha : a < length (f_blocks f)).
      { destruct (Nat.lt_ge_cases a (length (f_blocks f))); auto. exfalso.
        unfold blk in Hin. rewrite nth_overflow in Hin by auto. simpl in Hin. exact Hin. }
      assert (Hb' : b < length (f_blocks f)) by (eapply wf_blocks; eauto).
      destruct (IH Ha) as [C W].
      destruct (edge_sound a b _ r r' C W (conj Hin E)) as [C1 W1]. split; auto.
      destruct (In_nth _ _ 0 Hin) as (i & Hi & Hnth).
      assert (Hi' : i < outdeg (fsuccs f) a) by (unfold outdeg; rewrite succs_of_fsuccs; exact Hi).
      assert (Hs : succ_at (fsuccs f) a i = b) by (unfold succ_at; rewrite succs_of_fsuccs; exact Hnth).
      pose proof (fix_out a i Ha Hi') as FO. rewrite Hs in FO.
      pose proof (fix_in b Hb') as FI.
      assert (Pin : In (a, i) (preds (fsuccs f) b)).
      { apply (In_preds (fsuccs f) (ntransfer f) (nentry f)). rewrite nn_fsuccs. auto. }
      unfold in_eq in FI. destruct (preds (fsuccs f) b) as [|e l] eqn:Pr; [destruct Pin|].
      eapply covers_leq; [exact C1|].
      eapply leq_trans; [apply eqv_leq; apply eqv_sym; exact FO|].
      eapply leq_trans; [| apply eqv_leq; apply eqv_sym; exact FI].
      apply big_merge_ub.
      change (get_out sol a i) with ((fun e : nat * nat => get_out sol (fst e) (snd e)) (a, i)).
      apply in_map. exact Pin.
  Qed.

  Lemma nth_map_seq {B} (g : nat -> B) n k d : k < n -> nth k (map g (seq 0 n)) d = g k.
  Proof.
    intros Hk. rewrite (nth_indep _ d (g 0)) by (rewrite map_length, seq_length; exact Hk).
    rewrite (map_nth g). rewrite seq_nth by exact Hk. reflexivity.
  Qed.

  (* ---- the merged return state covers every normal return *)
  Lemma merge_rets_ge ins b rs k :
    b < length (f_blocks f) -> block_returns (blk f b) = Some rs -> k < length (f_results f) ->
    leq (sget f (process_block f b None (ins b)) (nth k rs 0)) (nth k (merge_rets f ins) vident).
  Proof.
    intros Hb BR Hk. unfold merge_rets.
    set (step := fun acc b0 =>
      match block_returns (blk f b0) with
      | Some rs0 =>
          let s := process_block f b0 None (ins b0) in
          map (fun k0 => merge (nth k0 acc vident) (sget f s (nth k0 rs0 0))) (seq 0 (length (f_results f)))
      | None => acc
      end).
    assert (Mono : forall l acc, leq (nth k acc vident) (nth k (fold_left step l acc) vident)).
    { induction l as [|b0 l IH]; intros acc; simpl; [apply leq_refl|].
      eapply leq_trans; [| apply IH].
      unfold step. destruct (block_returns (blk f b0)); [| apply leq_refl].
      rewrite nth_map_seq by exact Hk. apply merge_ub_l. }
    assert (Hit : forall l acc, In b l ->
              leq (sget f (process_block f b None (ins b)) (nth k rs 0)) (nth k (fold_left step l acc) vident)).
    { induction l as [|b0 l IH]; intros acc Hin; simpl; [destruct Hin|].
      destruct Hin as [->|Hin]; [| apply IH; exact Hin].
      eapply leq_trans; [| apply Mono].
      unfold step. rewrite BR.
      rewrite nth_map_seq by exact Hk. apply merge_ub_r. }
    apply Hit. apply in_seq. lia.
  Qed.

  Lemma nth_map_combine_seq {A B} (g : nat * A -> B) (l : list A) k d dA :
    k < length l -> nth k (map g (combine (seq 0 (length l)) l)) d = g (k, nth k l dA).
  Proof.
    intros Hk.
    rewrite (nth_indep _ d (g (0, dA))) by (rewrite map_length, combine_length, seq_length; lia).
    rewrite (map_nth g). rewrite combine_nth by (rewrite seq_length; reflexivity).
    rewrite seq_nth by exact Hk. reflexivity.
  Qed.

  Lemma nth_map_combine {A B C} (g : A * B -> C) (la : list A) (lb : list B) k d dA dB :
    k < length la -> k < length lb -> nth k (map g (combine la lb)) d = g (nth k la dA, nth k lb dB).
  Proof.
    revert lb k. induction la as [|a la IH]; intros lb k H1 H2; destruct lb; simpl in *; try lia.
    destruct k; auto. apply IH; lia.
  Qed.

  Lemma ret_facts_length ins : length (ret_facts f ins) = length (f_results f).
  Proof. unfold ret_facts. rewrite map_length, combine_length, seq_length. lia. Qed.

  (* nilness_sound, for a solution of the flow equations *)
  Theorem nilness_sound_fix r0 k sh :
    init_env_ok f r0 -> returns f r0 k sh -> k < length (f_results f) ->
    fst (nth k (f_results f) (false, false)) = true ->
    gamma (nth k (observable f (ret_facts f (get_in sol))) MM) sh = true.
  Proof.
    intros I (b & r & r1 & rs & R & BR & E & Rk) Hk Pk.
    assert (Hb : b < length (f_blocks f)).
    { destruct (Nat.lt_ge_cases b (length (f_blocks f))); auto. exfalso.
      unfold blk in BR. rewrite nth_overflow in BR by auto. simpl in BR. discriminate. }
    destruct (mfp_covers_paths r0 b r I R Hb) as [C W].
    destruct (block_sound None _ _ _ _ C W E) as [C1 W1].
    pose proof (sget_gamma _ _ _ _ C1 W1 Rk) as G.
    pose proof (merge_rets_ge (get_in sol) b rs k Hb BR Hk) as L.
    pose proof (gamma_mono _ _ sh L G) as G2.
    unfold observable.
    rewrite (nth_map_combine _ _ _ k MM vident (false, false)) by (rewrite ?ret_facts_length; lia).
    destruct (nth k (f_results f) (false, false)) as [p ifc] eqn:Rs. simpl in Pk. subst p. simpl.
    destruct (interesting f (ret_facts f (get_in sol))); [| apply gamma_MM].
    apply gamma_normalize.
    unfold ret_facts. rewrite (nth_map_combine_seq _ _ k vident (false, false)) by exact Hk.
    rewrite Rs. simpl. apply gamma_normalize. exact G2.
  Qed.
End Sound.

(* ------------------------------------------------------------------ end to end *)
Theorem nilness_sound_run (f : func) (pick : list nat -> nat) (fuel : nat) (facts : list vn) (r0 : env) (k : nat) (sh : shape) :
  wf_func_b f = true ->
  analyse f pick fuel = Some facts ->
  init_env_ok f r0 -> returns f r0 k sh -> k < length (f_results f) ->
  fst (nth k (f_results f) (false, false)) = true ->
  gamma (nth k facts MM) sh = true.
Proof.
  intros WF A I R Hk Pk. unfold analyse, nil_solve in A.
  destruct (run (fsuccs f) (ntransfer f) pick fuel (init (fsuccs f) (nentry f))) as [s|] eqn:Run; [| discriminate].
  inversion A; subst facts.
  destruct (run_steps (fsuccs f) (ntransfer f) pick fuel _ _ Run) as (picks & St & Wk).
  destruct (@dense_fixpoint_steps st NilStateSemilattice NilStateLaws (fsuccs f) (ntransfer f) (nentry f)
              (wf_graph_f f WF) picks s St Wk) as [_ FIX].
  eapply nilness_sound_fix; eauto.
Qed.

(* ------------------------------------------------------------------ SA4023 *)
Require Import Verif.Gen.C15_SA4023 Verif.Model.C15_Check.

(* finite, on the regenerated guard of staticcheck/sa4023/sa4023.go *)
Lemma sa4023_guard_ok : nil_eqb gen_sa4023_outer NeverNil = true.
Proof. reflexivity. Qed.

Lemma sa4023_sound_flags (x : vn) sh : sa4023_flags x = true -> gamma x sh = true -> outer_nil sh = false.
Proof.
  unfold sa4023_flags. intros Fl G.
  pose proof sa4023_guard_ok as K. apply nil_eqb_eq in K. rewrite K in Fl. apply nil_eqb_eq in Fl.
  unfold gamma in G. apply andb_true_iff in G. destruct G as [_ G]. rewrite Fl in G. simpl in G.
  apply negb_true_iff in G. exact G.
Qed.

Lemma merge_sound (a b : vn) sh : gamma a sh = true \/ gamma b sh = true -> gamma (merge a b) sh = true.
Proof. intros [H|H]; [apply merge_sound_l | apply merge_sound_r]; exact H. Qed.
