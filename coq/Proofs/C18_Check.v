(* C18 — the executable property predicate of Model/C18_Check.v agrees with the theorems:
   a log that is a run of the model has no violation. (So [violations] can only be non-empty for a
   log the model rejects, and the search for a failing input after a broken tie is sound.) *)
From Coq Require Import List Arith NArith Bool Lia.
Import ListNotations.
Require Import Verif.Model.C18 Verif.Model.C18_Check Verif.Proofs.C18_Task.

Lemma apply_all_run : forall tr s s', run s tr = Some s' -> apply_all s tr = s'.
Proof.
  induction tr as [|l tr IH]; cbn; intros s s' H.
  - injection H as <-. reflexivity.
  - unfold step in H. destruct (guard s l); [|discriminate]. apply IH. assumption.
Qed.

Lemma add_new_spec :
  forall ys seen seen' new, add_new seen ys = (seen', new) ->
    (forall y, In y seen' -> In y seen \/ In y ys) /\ (forall y, In y new -> In y ys).
Proof.
  induction ys as [|y ys IH]; cbn; intros seen seen' new H.
  - injection H as <- <-. split; [auto | intros y []].
  - destruct (memb y seen).
    + destruct (IH _ _ _ H) as [A B]. split.
      * intros z Hz. destruct (A z Hz); auto.
      * intros z Hz. right. auto.
    + destruct (add_new (seen ++ [y]) ys) as [s1 n1] eqn:E. injection H as <- <-.
      destruct (IH _ _ _ E) as [A B]. split.
      * intros z Hz. destruct (A z Hz) as [H1|H1]; [|auto].
        apply in_app_or in H1. destruct H1 as [H1|[H1|[]]]; auto.
      * intros z [Hz|Hz]; [left; assumption | right; auto].
Qed.

Lemma bfs_sound :
  forall (final : state) x fuel work seen,
    (forall w, In w work -> reach final x w) -> (forall y, In y seen -> reach final x y) ->
    forall y, In y (bfs (edges final) fuel work seen) -> reach final x y.
Proof.
  intros final x. induction fuel as [|n IH]; cbn; intros work seen Hw Hs y Hy; [auto|].
  destruct work as [|u r]; [auto|].
  destruct (add_new seen (edges final u)) as [seen' new] eqn:E.
  destruct (add_new_spec _ _ _ _ E) as [A B].
  assert (forall v, In v (edges final u) -> reach final x v) as Hsucc.
  { intros v Hv. apply reach_trans with u; [apply Hw; left; reflexivity|]. eapply reach_step; [exact Hv | constructor]. }
  apply (IH (r ++ new) seen'); [| |assumption].
  - intros w Hin. apply in_app_or in Hin. destruct Hin as [Hin|Hin]; [apply Hw; right; assumption | apply Hsucc; auto].
  - intros z Hz. destruct (A z Hz); auto.
Qed.

Lemma reachable_sound : forall final fuel x y, In y (reachable (edges final) fuel x) -> reach final x y.
Proof.
  intros final fuel x y H. unfold reachable in H. eapply bfs_sound; [| |exact H].
  - intros w [<-|[]]. constructor.
  - intros w [<-|[]]. constructor.
Qed.

Lemma filter_nil : forall A (f : A -> bool) l, (forall x, In x l -> f x = false) -> filter f l = [].
Proof.
  induction l as [|a l IH]; cbn; intros H; [reflexivity|].
  rewrite (H a (or_introl eq_refl)). apply IH. intros x Hx. apply H. right. assumption.
Qed.

(* a shared function registered later cannot belong to a task that was already done *)
Lemma step_fns_late : forall s l s' f t, step s l = Some s' -> In (f, t) (fns s') -> done s t = true -> In (f, t) (fns s).
Proof.
  intros s l s' f t Hs Hin Hd. unfold step in Hs. destruct (guard s l) eqn:G; [|discriminate]. injection Hs as <-.
  destruct l; cbn in Hin; auto; try (destruct (waiter s w); cbn in Hin; auto; fail).
  cbn in G. destruct (N.eqb x 0) eqn:E0; [assumption|]. cbn in G, Hin.
  destruct Hin as [Heq|Hin]; [|assumption]. injection Heq as <- <-.
  apply andb_true_iff in G. destruct G as [G _]. apply negb_true_iff in G. congruence.
Qed.

Lemma run_fns_late : forall tr s s' f t, run s tr = Some s' -> In (f, t) (fns s') -> done s t = true -> In (f, t) (fns s).
Proof.
  induction tr as [|l tr IH]; cbn; intros s s' f t Hr Hin Hd.
  - injection Hr as <-. assumption.
  - destruct (step s l) as [s1|] eqn:Es; [|discriminate].
    eapply step_fns_late; [exact Es| |assumption].
    eapply IH; [exact Hr | assumption | eapply step_done_mono; eauto].
Qed.

(* what the predicate computes at a wait return is empty when the root is closed and done *)
Lemma return_clean :
  forall s final fuel tr x, Inv s -> run s tr = Some final -> closed_done s x ->
    filter (fun y => negb (done s y)) (reachable (edges final) fuel x) = [] /\
    filter (fun ft => negb (built s (fst ft)))
           (filter (fun ft => memb (snd ft) (reachable (edges final) fuel x)) (fns final)) = [].
Proof.
  intros s final fuel tr x HI Hr Hc.
  assert (forall y, In y (reachable (edges final) fuel x) -> done s y = true) as Hd.
  { intros y Hy. apply Hc. eapply closure_frozen; [exact Hr | exact Hc |]. apply reachable_sound with fuel. assumption. }
  split.
  - apply filter_nil. intros y Hy. rewrite (Hd y Hy). reflexivity.
  - apply filter_nil. intros [f t] Hin. apply filter_In in Hin. destruct Hin as [Hin Hm]. cbn in *.
    apply memb_In in Hm. pose proof (Hd t Hm) as Hdt.
    rewrite (inv_fns _ HI f t (run_fns_late _ _ _ _ _ Hr Hin Hdt) Hdt). reflexivity.
Qed.

Lemma scan_clean :
  forall tr s final fuel i, Inv s -> run s tr = Some final -> scan final fuel s tr i = [].
Proof.
  induction tr as [|l tr IH]; intros s final fuel i HI Hr; [reflexivity|].
  pose proof Hr as Hr0. cbn in Hr. destruct (step s l) as [s1|] eqn:Es; [|discriminate].
  pose proof (step_inv _ _ _ HI Es) as HI1.
  assert (effect s l = s1) as He.
  { unfold step in Es. destruct (guard s l); [|discriminate]. injection Es as <-. reflexivity. }
  cbn [scan]. rewrite He, (IH s1 final fuel (S i) HI1 Hr), app_nil_r.
  unfold step in Es. destruct (guard s l) eqn:G; [|discriminate].
  destruct l; try reflexivity; cbn [guard] in G.
  - (* LAddEdge *) apply negb_true_iff in G. rewrite G. reflexivity.
  - (* LWaitFast *)
    destruct (waiter s w) as [ws|] eqn:Ew; [|discriminate].
    repeat (apply andb_true_iff in G; destruct G as [G ?]).
    destruct (return_clean s final fuel _ x HI Hr0 (inv_trans _ HI _ H)) as [A B].
    rewrite A, B. reflexivity.
  - (* LWaitClosed *)
    destruct (waiter s w) as [ws|] eqn:Ew; [|discriminate].
    repeat (apply andb_true_iff in G; destruct G as [G ?]).
    apply inclb_incl in H. apply N.eqb_eq in H0. subst x.
    pose proof (bfs_complete s ws (inv_trans _ HI) (inv_wait _ HI _ _ Ew) H) as Hc.
    destruct (return_clean s final fuel _ (w_root ws) HI Hr0 Hc) as [A B].
    rewrite A, B. reflexivity.
  - (* LBuilt *) apply negb_true_iff in G. rewrite G. reflexivity.
Qed.

Theorem valid_log_no_violation_any :
  forall tr s, run init tr = Some s -> trace_violations tr = [].
Proof.
  intros tr s Hr. unfold trace_violations. rewrite (apply_all_run _ _ _ Hr).
  eapply scan_clean; [apply init_inv | exact Hr].
Qed.
