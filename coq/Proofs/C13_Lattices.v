(* C13 — lattice laws: DenseMapLattice and MapLattice over any element lattice, products, finite tables. *)
From Coq Require Import List Arith Bool Lia Setoid Morphisms NArith.
Import ListNotations.
Require Import Verif.Model.C13 Verif.Proofs.C13.

(* ------------------------------------------------------------------ DenseMapLattice *)
Section DenseMapLaws.
  Context {E : Type} {LE : Semilattice E} {LLE : SemilatticeLaws E}.

  Notation den a k := (nth k a ident).

  Lemma dense_equals_nil_l b :
    dense_equals [] b = negb (existsb (fun e => negb (eqv e ident)) b).
  Proof. unfold dense_equals. simpl. reflexivity. Qed.

  Lemma dense_equals_nil_r a :
    dense_equals a [] = negb (existsb (fun e => negb (eqv e ident)) a).
  Proof.
    unfold dense_equals. rewrite Nat.min_0_r. simpl. rewrite andb_true_r. reflexivity.
  Qed.

  Lemma dense_equals_cons x a y b :
    dense_equals (x :: a) (y :: b) = eqv x y && dense_equals a b.
  Proof. unfold dense_equals. simpl. rewrite !andb_assoc. reflexivity. Qed.

  Lemma all_ident_spec a :
    negb (existsb (fun e => negb (eqv e ident)) a) = true <-> forall k, eqvP (den a k) ident.
  Proof.
    induction a; simpl.
    - split; auto. intros _ k. destruct k; apply eqv_refl.
    - rewrite negb_orb, andb_true_iff, negb_involutive, IHa. split.
      + intros [H1 H2] k. destruct k; auto.
      + intros H. split; [apply (H 0) | intros k; apply (H (S k))].
  Qed.

  Lemma dense_equals_spec a b :
    dense_equals a b = true <-> forall k, eqvP (den a k) (den b k).
  Proof.
    revert b; induction a; intros b.
    - rewrite dense_equals_nil_l, all_ident_spec. split; intros H k.
      + destruct k; simpl; symmetry; apply H.
      + specialize (H k). destruct k; simpl in H; symmetry; exact H.
    - destruct b.
      + rewrite dense_equals_nil_r, all_ident_spec. split; intros H k.
        * specialize (H k). destruct k; simpl; exact H.
        * specialize (H k). destruct k; simpl in *; exact H.
      + rewrite dense_equals_cons, andb_true_iff, IHa. split.
        * intros [H1 H2] k. destruct k; simpl; auto.
        * intros H. split; [apply (H 0) | intros k; apply (H (S k))].
  Qed.

  Lemma dense_merge_nth a b k : eqvP (den (dense_merge a b) k) (merge (den a k) (den b k)).
  Proof.
    unfold dense_merge. destruct a as [|x a].
    - replace (den (@nil E) k) with (@ident E _) by (destruct k; reflexivity).
      symmetry. apply merge_ident_l.
    - destruct b as [|y b].
      + replace (den (@nil E) k) with (@ident E _) by (destruct k; reflexivity).
        symmetry. apply merge_ident.
      + set (m := Nat.max (length (x :: a)) (length (y :: b))).
        destruct (Nat.lt_ge_cases k m) as [Hk | Hk].
        * rewrite (nth_indep _ ident (merge (den (x :: a) 0) (den (y :: b) 0)))
            by (rewrite map_length, seq_length; exact Hk).
          rewrite (map_nth (fun k => merge (den (x :: a) k) (den (y :: b) k))).
          rewrite seq_nth by exact Hk. reflexivity.
        * rewrite (nth_overflow (map _ _)) by (rewrite map_length, seq_length; exact Hk).
          rewrite (nth_overflow (x :: a)) by (unfold m in Hk; lia).
          rewrite (nth_overflow (y :: b)) by (unfold m in Hk; lia).
          symmetry. apply merge_ident.
  Qed.

  Global Instance DenseMapLaws : @SemilatticeLaws (list E) DenseMapSemilattice.
  Proof.
    split; simpl.
    - intros a. apply dense_equals_spec. intros k. reflexivity.
    - intros a b H. apply dense_equals_spec. intros k. symmetry. revert k. apply dense_equals_spec. exact H.
    - intros a b c H1 H2. apply dense_equals_spec. intros k.
      rewrite dense_equals_spec in H1, H2. rewrite (H1 k). apply H2.
    - intros a a' b b' H1 H2. apply dense_equals_spec. intros k.
      rewrite dense_equals_spec in H1, H2. rewrite !dense_merge_nth. rewrite (H1 k), (H2 k). reflexivity.
    - intros a b c. apply dense_equals_spec. intros k.
      rewrite !dense_merge_nth. apply merge_assoc.
    - intros a b. apply dense_equals_spec. intros k. rewrite !dense_merge_nth. apply merge_comm.
    - intros a. apply dense_equals_spec. intros k. rewrite !dense_merge_nth. apply merge_idem.
    - intros a. apply dense_equals_spec. intros k. rewrite !dense_merge_nth.
      replace (den (@ident (list E) DenseMapSemilattice) k) with (@ident E _) by (destruct k; reflexivity).
      apply merge_ident.
  Qed.

  (* the order on dense maps is pointwise *)
  Lemma dense_leq_spec (a b : list E) :
    @leq (list E) DenseMapSemilattice a b <-> forall k, leq (den a k) (den b k).
  Proof.
    unfold leq, leqb. simpl. rewrite dense_equals_spec. split; intros H k; specialize (H k).
    - rewrite dense_merge_nth in H. exact H.
    - rewrite dense_merge_nth. exact H.
  Qed.
End DenseMapLaws.

(* ------------------------------------------------------------------ products *)
Section ProdLaws.
  Context {A B : Type} {LA : Semilattice A} {LB : Semilattice B}
          {LLA : SemilatticeLaws A} {LLB : SemilatticeLaws B}.

  Global Instance ProdLaws : @SemilatticeLaws (A * B) (ProdSemilattice LA LB).
  Proof.
    split; simpl; intros.
    - rewrite !eqv_refl. reflexivity.
    - apply andb_true_iff in H. destruct H. rewrite (eqv_sym _ _ H), (eqv_sym _ _ H0). reflexivity.
    - apply andb_true_iff in H, H0. destruct H, H0.
      rewrite (eqv_trans _ _ _ H H0), (eqv_trans _ _ _ H1 H2). reflexivity.
    - apply andb_true_iff in H, H0. destruct H, H0.
      rewrite (merge_cong _ _ _ _ H H0), (merge_cong _ _ _ _ H1 H2). reflexivity.
    - rewrite !merge_assoc. reflexivity.
    - rewrite !merge_comm. reflexivity.
    - rewrite !merge_idem. reflexivity.
    - rewrite !merge_ident. reflexivity.
  Qed.
End ProdLaws.

(* ------------------------------------------------------------------ bitsets *)
Global Instance BitsLaws : @SemilatticeLaws N BitsSemilattice.
Proof.
  split; simpl; intros.
  - apply N.eqb_refl.
  - apply N.eqb_eq in H. subst. apply N.eqb_refl.
  - apply N.eqb_eq in H, H0. subst. apply N.eqb_refl.
  - apply N.eqb_eq in H, H0. subst. apply N.eqb_refl.
  - apply N.eqb_eq. apply N.lor_assoc.
  - apply N.eqb_eq. apply N.lor_comm.
  - apply N.eqb_eq. apply N.lor_diag.
  - apply N.eqb_eq. apply N.lor_0_r.
Qed.

(* ------------------------------------------------------------------ finite tables *)
(* A table lattice is used on the carrier 0..dim-1 only; the laws are decided by computation there and
   transported to a subset type so that the generic theorems apply. *)
Section TableLaws.
  Variable t : list (list N).
  Variable dim : N.
  Definition carrier : list N := map N.of_nat (seq 0 (N.to_nat dim)).
  Definition in_carrier (x : N) : bool := N.ltb x dim.

  Lemma in_carrier_In x : in_carrier x = true <-> In x carrier.
  Proof.
    unfold in_carrier, carrier. rewrite N.ltb_lt, in_map_iff. split.
    - intros H. exists (N.to_nat x). split; [apply N2Nat.id|]. apply in_seq. lia.
    - intros (k & <- & H). apply in_seq in H. lia.
  Qed.

  Hypothesis LAWS : laws_b (TableSemilattice t) carrier = true.

  Local Notation tm := (table_merge t).

  Lemma table_laws_unpack a : In a carrier ->
    tm a a = a /\ tm a 0%N = a /\ tm 0%N a = a /\
    forall b, In b carrier -> tm a b = tm b a /\ In (tm a b) carrier /\
      forall c, In c carrier -> tm a (tm b c) = tm (tm a b) c.
  Proof.
    intros Ha. unfold laws_b in LAWS. rewrite forallb_forall in LAWS. specialize (LAWS a Ha).
    simpl in LAWS. rewrite !andb_true_iff in LAWS. destruct LAWS as [[[H1 H2] H3] H4].
    apply N.eqb_eq in H1, H2, H3. repeat split; auto.
    - rewrite forallb_forall in H4. specialize (H4 b H). rewrite !andb_true_iff in H4.
      destruct H4 as [[H4 _] _]. apply N.eqb_eq in H4. exact H4.
    - rewrite forallb_forall in H4. specialize (H4 b H). rewrite !andb_true_iff in H4.
      destruct H4 as [[_ H4] _]. apply existsb_exists in H4. destruct H4 as (c & Hc & E).
      apply N.eqb_eq in E. rewrite E. exact Hc.
    - intros c Hc. rewrite forallb_forall in H4. specialize (H4 b H). rewrite !andb_true_iff in H4.
      destruct H4 as [_ H4]. rewrite forallb_forall in H4. specialize (H4 c Hc). apply N.eqb_eq in H4. exact H4.
  Qed.

  (* the carrier as a type *)
  Definition telem : Type := { x : N | in_carrier x = true }.
  Hypothesis dim_pos : in_carrier 0%N = true.

  Lemma tm_closed (a b : telem) : in_carrier (tm (proj1_sig a) (proj1_sig b)) = true.
  Proof.
    destruct a as [a Ha], b as [b Hb]. simpl.
    apply in_carrier_In. apply in_carrier_In in Ha, Hb.
    destruct (table_laws_unpack a Ha) as (_ & _ & _ & H). apply (H b Hb).
  Qed.

  Definition TElemSemilattice : Semilattice telem :=
    {| ident := exist _ 0%N dim_pos;
       merge := fun a b => exist _ (tm (proj1_sig a) (proj1_sig b)) (tm_closed a b);
       eqv := fun a b => N.eqb (proj1_sig a) (proj1_sig b) |}.

  Global Instance TElemLaws : @SemilatticeLaws telem TElemSemilattice.
  Proof.
    split; simpl.
    - intros. apply N.eqb_refl.
    - intros a b H. apply N.eqb_eq in H. rewrite H. apply N.eqb_refl.
    - intros a b c H1 H2. apply N.eqb_eq in H1, H2. rewrite H1, H2. apply N.eqb_refl.
    - intros a a' b b' H1 H2. apply N.eqb_eq in H1, H2. rewrite H1, H2. apply N.eqb_refl.
    - intros [a Ha] [b Hb] [c Hc]. simpl. apply N.eqb_eq.
      apply in_carrier_In in Ha, Hb, Hc.
      destruct (table_laws_unpack a Ha) as (_ & _ & _ & H). apply (H b Hb); auto.
    - intros [a Ha] [b Hb]. simpl. apply N.eqb_eq. apply in_carrier_In in Ha, Hb.
      destruct (table_laws_unpack a Ha) as (_ & _ & _ & H). apply (H b Hb).
    - intros [a Ha]. simpl. apply N.eqb_eq. apply in_carrier_In in Ha.
      apply (table_laws_unpack a Ha).
    - intros [a Ha]. simpl. apply N.eqb_eq. apply in_carrier_In in Ha.
      apply (table_laws_unpack a Ha).
  Qed.
End TableLaws.
