(* C13 — the sparse (per-value) solver: analysis/dfa/sparse/dfa.go:Instance.Forward. *)
From Coq Require Import List Arith Bool Lia Setoid Morphisms NArith.
Import ListNotations.
Require Import Verif.Model.C13 Verif.Proofs.C13 Verif.Proofs.C13_Lattices.

Section SparseProofs.
  Context {F : Type} {L : Semilattice F} {LL : SemilatticeLaws F}.
  Variable instrs : list (list nat * bool).
  (* writes_self: a transfer function yields at most one mapping, for the instruction's own value ... *)
  Variable tself : nat -> (nat -> F) -> option F.
  Definition transfer_of (i : nat) (m : nat -> F) : list (nat * F) :=
    match tself i m with Some x => [(i, x)] | None => [] end.
  (* ... and reads only the states of the instruction's operands *)
  Hypothesis reads_ops : forall i m m', (forall v, In v (ops_of instrs i) -> m v = m' v) -> tself i m = tself i m'.

  Notation n := (ni instrs).
  Notation sstep := (sstep_at instrs transfer_of).
  Notation ops := (ops_of instrs).

  Definition phi_val (i : nat) (m : nat -> F) : F := fold_left (fun d e => merge d (m e)) (ops i) ident.
  (* the value an instruction is given by one solver step: phis merge their edges, others run the transfer function *)
  Definition target (i : nat) (m : nat -> F) : option F :=
    if is_phi instrs i then Some (phi_val i m) else tself i m.

  Lemma target_reads_ops i m m' : (forall v, In v (ops i) -> m v = m' v) -> target i m = target i m'.
  Proof.
    intros H. unfold target. destruct (is_phi instrs i); [| apply reads_ops; exact H].
    f_equal. unfold phi_val. revert H. generalize (@ident F L). induction (ops i) as [|e l IH]; intros d H; simpl; auto.
    rewrite (H e) by (simpl; auto). apply IH. intros v Hv. apply H. simpl; auto.
  Qed.

  (* the equations of a solution at instruction i *)
  Definition fix_at (m : nat -> F) (i : nat) : Prop :=
    match target i m with Some x => eqv x (m i) = true | None => True end.

  Lemma lookup_cons (m : list (nat * F)) k x v :
    lookup ((k, x) :: m) v = if Nat.eqb k v then x else lookup m v.
  Proof. reflexivity. Qed.

  Lemma In_referrers i j : In j (referrers instrs i) <-> j < n /\ In i (ops j).
  Proof.
    unfold referrers. rewrite filter_In, in_seq, memb_In. split; intros [A B]; split; auto; lia.
  Qed.

  (* one step, computed *)
  Lemma sstep_eq i s :
    sstep i s =
    let s1 := mkS (smap s) (rm i (swork s)) in
    match target i (value s) with
    | None => s1
    | Some x => if eqv x (value s i) then s1
                else mkS ((i, x) :: smap s) (fold_left enqueue (referrers instrs i) (rm i (swork s)))
    end.
  Proof.
    unfold sstep_at, target, transfer_of. simpl.
    change (value (mkS (smap s) (rm i (swork s)))) with (value s).
    destruct (is_phi instrs i).
    - simpl. unfold apply_mapping. simpl. change (value (mkS (smap s) (rm i (swork s))) i) with (value s i).
      fold (phi_val i (value s)). destruct (eqv (phi_val i (value s)) (value s i)); reflexivity.
    - destruct (tself i (value s)) as [x|]; simpl; [| reflexivity].
      unfold apply_mapping. simpl. change (value (mkS (smap s) (rm i (swork s))) i) with (value s i).
      destruct (eqv x (value s i)); reflexivity.
  Qed.

  Record SInv (s : sstate) : Prop := {
    sinv_lt : forall i, In i (swork s) -> i < n;
    sinv_fix : forall i, i < n -> ~ In i (swork s) -> fix_at (value s) i
  }.

  Lemma SInv_init m0 : SInv (sinit instrs m0).
  Proof.
    split; unfold sinit; simpl.
    - intros i H. apply in_seq in H. lia.
    - intros i Hi H. exfalso. apply H. apply in_seq. lia.
  Qed.

  Lemma SInv_step s i : SInv s -> In i (swork s) -> SInv (sstep i s).
  Proof.
    intros I Hw. pose proof (sinv_lt _ I i Hw) as Hi. rewrite sstep_eq. cbv zeta.
    assert (Keep : forall w, SInv (mkS (smap s) w) -> True) by auto.
    assert (Same : fix_at (value s) i -> SInv (mkS (smap s) (rm i (swork s)))).
    { intros Hfix. split; simpl.
      - intros j Hj. apply In_rm in Hj. apply (sinv_lt _ I). tauto.
      - intros j Hj Hn. change (value (mkS (smap s) (rm i (swork s)))) with (value s).
        destruct (Nat.eq_dec j i).
        + subst j. exact Hfix.
        + apply (sinv_fix _ I); auto. intros H. apply Hn. apply In_rm. tauto. }
    destruct (target i (value s)) as [x|] eqn:T.
    - destruct (eqv x (value s i)) eqn:E.
      + apply Same. unfold fix_at. rewrite T. exact E.
      + split; simpl.
        * intros j Hj. apply In_fold_enqueue in Hj. destruct Hj as [Hj|Hj].
          -- apply In_rm in Hj. apply (sinv_lt _ I). tauto.
          -- apply In_referrers in Hj. tauto.
        * intros j Hj Hn.
          set (s' := mkS ((i, x) :: smap s) (fold_left enqueue (referrers instrs i) (rm i (swork s)))).
          assert (V : forall v, value s' v = if Nat.eqb i v then x else value s v) by (intros v; reflexivity).
          assert (NR : ~ In i (ops j)).
          { intros H. apply Hn. apply In_fold_enqueue. right. apply In_referrers. auto. }
          assert (TE : target j (value s') = target j (value s)).
          { apply target_reads_ops. intros v Hv. rewrite V. destruct (Nat.eqb_spec i v); auto. subst v. tauto. }
          unfold fix_at. rewrite TE, V.
          destruct (Nat.eqb_spec i j).
          -- subst j. rewrite T. apply eqv_refl.
          -- assert (NW : ~ In j (swork s)).
             { intros H. apply Hn. apply In_fold_enqueue. left. apply In_rm. auto. }
             apply (sinv_fix _ I j Hj NW).
    - apply Same. unfold fix_at. rewrite T. exact Logic.I.
  Qed.

  Lemma SInv_steps picks : forall s s', ssteps instrs transfer_of picks s = Some s' -> SInv s -> SInv s'.
  Proof.
    induction picks; simpl; intros s s' H I.
    - inversion H; subst; auto.
    - destruct (memb a (swork s)) eqn:M; [| discriminate]. apply memb_In in M.
      eapply IHpicks; eauto. apply SInv_step; auto.
  Qed.

  Theorem sparse_fixpoint_steps m0 picks s :
    ssteps instrs transfer_of picks (sinit instrs m0) = Some s -> swork s = [] ->
    forall i, i < n -> fix_at (value s) i.
  Proof.
    intros H W i Hi. pose proof (SInv_steps _ _ _ H (SInv_init m0)) as I.
    apply (sinv_fix _ I); auto. rewrite W. simpl. tauto.
  Qed.

  (* ---- least *)
  Definition mono_tself : Prop :=
    forall i m m', (forall v, leq (m v) (m' v)) -> forall x, tself i m = Some x ->
                   exists x', tself i m' = Some x' /\ leq x x'.

  Lemma phi_val_mono i m m' : (forall v, leq (m v) (m' v)) -> leq (phi_val i m) (phi_val i m').
  Proof.
    intros H. unfold phi_val.
    assert (G : forall l d d', leq d d' ->
              leq (fold_left (fun d e => merge d (m e)) l d) (fold_left (fun d e => merge d (m' e)) l d')).
    { induction l as [|e l IH]; intros d d' Hd; simpl; auto. apply IH. apply merge_mono; auto. }
    apply G. apply leq_refl.
  Qed.

  Lemma target_mono : mono_tself ->
    forall i m m', (forall v, leq (m v) (m' v)) -> forall x, target i m = Some x ->
                   exists x', target i m' = Some x' /\ leq x x'.
  Proof.
    intros M i m m' H x T. unfold target in *. destruct (is_phi instrs i).
    - inversion T; subst. eexists. split; eauto. apply phi_val_mono; auto.
    - eapply M; eauto.
  Qed.

  Section Least.
    Variable m0 : list (nat * F).
    Variable m' : nat -> F.
    Hypothesis mono : mono_tself.
    Hypothesis above_init : forall v, leq (lookup m0 v) (m' v).
    Hypothesis post : forall i x, i < n -> target i m' = Some x -> leq x (m' i).

    Definition SLInv (s : sstate) : Prop := forall v, leq (value s v) (m' v).

    Lemma SLInv_step s i : SInv s -> SLInv s -> In i (swork s) -> SLInv (sstep i s).
    Proof.
      intros I LI Hw. pose proof (sinv_lt _ I i Hw) as Hi. rewrite sstep_eq. cbv zeta.
      destruct (target i (value s)) as [x|] eqn:T; [| exact LI].
      destruct (eqv x (value s i)); [exact LI|].
      intros v. change (value (mkS ((i, x) :: smap s) (fold_left enqueue (referrers instrs i) (rm i (swork s)))) v)
        with (if Nat.eqb i v then x else value s v).
      destruct (Nat.eqb_spec i v); [| apply LI].
      subst v. destruct (target_mono mono i (value s) m' LI x T) as (x' & T' & Lx).
      eapply leq_trans; eauto.
    Qed.

    Lemma SLInv_steps picks : forall s s', ssteps instrs transfer_of picks s = Some s' -> SInv s -> SLInv s -> SLInv s'.
    Proof.
      induction picks; simpl; intros s s' H I LI.
      - inversion H; subst; auto.
      - destruct (memb a (swork s)) eqn:M; [| discriminate]. apply memb_In in M.
        eapply IHpicks; eauto. + apply SInv_step; auto. + apply SLInv_step; auto.
    Qed.

    Theorem sparse_least_steps picks s :
      ssteps instrs transfer_of picks (sinit instrs m0) = Some s -> forall v, leq (value s v) (m' v).
    Proof.
      intros H. apply (SLInv_steps _ _ _ H (SInv_init m0)). intros v. apply above_init.
    Qed.
  End Least.

  Lemma srun_steps pick fuel : forall s s', srun instrs transfer_of pick fuel s = Some s' ->
    exists picks, ssteps instrs transfer_of picks s = Some s' /\ swork s' = [].
  Proof.
    induction fuel; simpl; intros s s' H.
    - destruct (swork s) eqn:W; [| discriminate]. inversion H; subst. exists []. simpl. auto.
    - destruct (swork s) eqn:W.
      + inversion H; subst. exists []. simpl; auto.
      + rewrite <- W in H. apply IHfuel in H. destruct H as (picks & H1 & H2).
        exists (pick_ok pick (swork s) :: picks). simpl.
        assert (M : memb (pick_ok pick (swork s)) (swork s) = true).
        { apply memb_In. apply pick_ok_In. rewrite W. discriminate. }
        rewrite M. auto.
  Qed.
End SparseProofs.

(* ------------------------------------------------------------------ outside the premise: DESIGN F14 *)
(* Instruction 0's transfer function writes the value of instruction 1; instruction 2 copies value 1. The solver
   re-enqueues the referrers of the INSTRUCTION it ran (0, which has none), not of the value that changed (1), so
   with the schedule 2, 1, 0 it stops in a state that is not a solution. *)
Definition f14_instrs : list (list nat * bool) := [([], false); ([], false); ([1], false)].
Definition f14_transfer (i : nat) (m : nat -> N) : list (nat * N) :=
  match i with 0 => [(1, 5%N)] | 2 => [(2, m 1)] | _ => [] end.

Lemma sparse_wrong_referrers_refuted :
  exists picks s,
    @ssteps N BitsSemilattice f14_instrs f14_transfer picks (@sinit N f14_instrs []) = Some s /\
    swork s = [] /\
    @value N BitsSemilattice s 2 <> @value N BitsSemilattice s 1.
Proof.
  exists [2; 1; 0]. eexists. split; [vm_compute; reflexivity|]. split; [reflexivity|]. vm_compute. discriminate.
Qed.

(* not proved: termination of the sparse solver for monotone transfer functions over lattices of finite height *)
Definition sparse_terminates_full_statement : Prop :=
  forall (F : Type) (L : Semilattice F), SemilatticeLaws F ->
  forall (instrs : list (list nat * bool)) (tself : nat -> (nat -> F) -> option F) (rank : F -> nat) (H : nat),
    (forall i m m', (forall v, In v (ops_of instrs i) -> m v = m' v) -> tself i m = tself i m') ->
    mono_tself tself ->
    (forall x, rank x <= H) -> (forall a b, leq a b -> eqv b a = false -> rank a < rank b) ->
    forall pick, exists fuel s,
      srun instrs (transfer_of tself) pick fuel (sinit instrs []) = Some s.

Lemma sparse_fixpoint_least_run :
  forall (F : Type) (L : Semilattice F) (LL : SemilatticeLaws F)
         (instrs : list (list nat * bool)) (tself : nat -> (nat -> F) -> option F)
         (m0 : list (nat * F)) (pick : list nat -> nat) (fuel : nat) (s : sstate),
    (forall i m m', (forall v, In v (ops_of instrs i) -> m v = m' v) -> tself i m = tself i m') ->
    srun instrs (transfer_of tself) pick fuel (sinit instrs m0) = Some s ->
    (forall i, i < ni instrs -> fix_at instrs tself (value s) i) /\
    (mono_tself tself ->
     forall m' : nat -> F,
       (forall v, leq (lookup m0 v) (m' v)) ->
       (forall i x, i < ni instrs -> target instrs tself i m' = Some x -> leq x (m' i)) ->
       forall v, leq (value s v) (m' v)).
Proof.
  intros F L LL instrs tself m0 pick fuel s RO H.
  destruct (srun_steps instrs tself pick fuel _ _ H) as (picks & H1 & H2). split.
  - eapply sparse_fixpoint_steps; eauto.
  - intros M m' A P. eapply sparse_least_steps; eauto.
Qed.
