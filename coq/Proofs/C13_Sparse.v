(* C13 — the sparse (per-value) solver. *)
From Coq Require Import List Arith Bool Lia Setoid Morphisms.
Import ListNotations.
Require Import Verif.Model.C13 Verif.Proofs.C13.
