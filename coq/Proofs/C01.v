(* C01: proofs about the IR semantics (Model/C01_IRSem.v). *)
From Coq Require Import List ZArith NArith PArith Bool Lia FMapPositive.
Import ListNotations.
Require Import Verif.Model.C01_IRSem.

(* ---------------------------------------------------------------- fuel monotonicity, determinism *)

Lemma run_mono : forall n p st o,
  run n p st = o -> o <> OutOfFuel -> forall m, (n <= m)%nat -> run m p st = o.
Proof.
  induction n as [|n IH]; intros p st o Hr Hne m Hle.
  - simpl in Hr. congruence.
  - destruct m as [|m]; [lia|].
    simpl in *. destruct (step p st) as [st'|o'].
    + apply IH; auto. lia.
    + exact Hr.
Qed.

(* "the execution of p from st ends with outcome o" *)
Definition terminates_with (p : program) (st : state) (o : outcome) : Prop :=
  exists n, run n p st = o /\ o <> OutOfFuel.

Lemma terminates_deterministic : forall p st o1 o2,
  terminates_with p st o1 -> terminates_with p st o2 -> o1 = o2.
Proof.
  intros p st o1 o2 [n1 [H1 N1]] [n2 [H2 N2]].
  rewrite <- (run_mono n1 p st o1 H1 N1 (Nat.max n1 n2) (Nat.le_max_l _ _)).
  rewrite <- (run_mono n2 p st o2 H2 N2 (Nat.max n1 n2) (Nat.le_max_r _ _)).
  reflexivity.
Qed.

Lemma exec_mono : forall n p f args h o,
  exec n p f args h = o -> o <> OutOfFuel -> forall m, (n <= m)%nat -> exec m p f args h = o.
Proof.
  unfold exec. intros n p f args h o H Hne m Hle.
  destruct (init_state p f args h); [eapply run_mono; eauto | exact H].
Qed.

(* ---------------------------------------------------------------- phis are parallel copies *)

Lemma assign_all_other : forall l e r, ~ In r (map fst l) -> PM.find r (assign_all e l) = PM.find r e.
Proof.
  unfold assign_all. induction l as [|[d v] t IH]; intros e r H; simpl; [reflexivity|].
  simpl in H. rewrite IH by tauto. apply PM.gso. intros E. apply H. left. symmetry. exact E.
Qed.

Lemma assign_all_in : forall l e d v, NoDup (map fst l) -> In (d, v) l -> PM.find d (assign_all e l) = Some v.
Proof.
  induction l as [|[d0 v0] t IH]; intros e d v ND HI; simpl in *; [contradiction|].
  inversion ND as [|? ? Hn Ht]; subst. destruct HI as [E|HI].
  - inversion E; subst. change (PM.find d (assign_all (PM.add d v e) t) = Some v).
    rewrite assign_all_other by exact Hn. apply PM.gss.
  - change (PM.find d (assign_all (PM.add d0 v0 e) t) = Some v). apply IH; assumption.
Qed.

Lemma eval_phis_spec : forall e k ps l, eval_phis e k ps = inl l ->
  map fst l = map fst ps /\
  forall d es, In (d, es) ps -> exists o v, nthN es k = Some o /\ eval_operand e o = inl v /\ In (d, v) l.
Proof.
  intros e k ps. induction ps as [|[d0 es0] t IH]; intros l H; simpl in H.
  - inversion H; subst. split; [reflexivity | intros d es []].
  - destruct (nthN es0 k) as [o|] eqn:Hn; [|discriminate].
    destruct (eval_operand e o) as [v|] eqn:Ho; [|discriminate].
    destruct (eval_phis e k t) as [l'|] eqn:Hl; [|discriminate].
    inversion H; subst. destruct (IH l' eq_refl) as [Hm Hs]. split; [simpl; rewrite Hm; reflexivity|].
    intros d es [E|HI].
    + inversion E; subst. exists o, v. simpl. auto.
    + destruct (Hs d es HI) as [o' [v' [A [B C]]]]. exists o', v'. simpl. auto.
Qed.

(* Control transfer along an edge: every phi of the target block receives the value its operand for
   that edge has in the environment BEFORE the transfer -- also when the operand is another phi of the
   same block -- and no other register changes. *)
Theorem phi_parallel_thm : forall fn fr succ fr',
  goto_succ fn fr succ = inl fr' ->
  exists tb k ps rest,
    get_block fn (f_blk fr') = Some tb /\ split_phis (b_code tb) = (ps, rest) /\ f_code fr' = rest /\
    index_of (f_blk fr) (b_preds tb) 0 = Some k /\
    (NoDup (map fst ps) ->
       (forall d es, In (d, es) ps ->
          exists o v, nthN es k = Some o /\ eval_operand (f_env fr) o = inl v /\ PM.find d (f_env fr') = Some v) /\
       (forall r, ~ In r (map fst ps) -> PM.find r (f_env fr') = PM.find r (f_env fr))).
Proof.
  intros fn fr succ fr' H. unfold goto_succ in H.
  destruct (get_block fn (f_blk fr)) as [cur|]; [|discriminate].
  destruct (nthN (b_succs cur) succ) as [tgt|]; [|discriminate].
  destruct (get_block fn tgt) as [tb|] eqn:Ht; [|discriminate].
  destruct (index_of (f_blk fr) (b_preds tb) 0) as [k|] eqn:Hk; [|discriminate].
  destruct (split_phis (b_code tb)) as [ps rest] eqn:Hs.
  destruct (eval_phis (f_env fr) k ps) as [l|] eqn:Hl; [|discriminate].
  inversion H; subst fr'; simpl. exists tb, k, ps, rest.
  split; [exact Ht|]. split; [exact Hs|]. split; [reflexivity|]. split; [exact Hk|].
  intros ND. split.
  - intros d es HI. destruct (eval_phis_spec _ _ _ _ Hl) as [Hm Hsp].
    destruct (Hsp d es HI) as [o [v [A [B C]]]]. exists o, v. repeat split; auto.
    apply (assign_all_in l (f_env fr) d v); [exact (eq_ind_r (@NoDup positive) ND Hm) | exact C].
  - intros r Hr. destruct (eval_phis_spec _ _ _ _ Hl) as [Hm _].
    apply assign_all_other. intros X. apply Hr. rewrite <- Hm. exact X.
Qed.

(* ---------------------------------------------------------------- the step counter is faithful *)

Lemma run_steps_fst : forall n p st k, fst (run_steps n p st k) = run n p st.
Proof.
  induction n as [|n IH]; intros p st k; simpl; [reflexivity|].
  destruct (step p st); [apply IH | reflexivity].
Qed.

Lemma exec_steps_fst : forall n p f args h, fst (exec_steps n p f args h) = exec n p f args h.
Proof.
  intros. unfold exec_steps, exec. destruct (init_state p f args h); [apply run_steps_fst | reflexivity].
Qed.
