(* C01: proofs about the IR semantics (Model/C01_IRSem.v). *)
From Coq Require Import List ZArith NArith PArith Bool Lia FMapPositive.
Import ListNotations.
Require Import Verif.Model.C01_IRSem.

(* ---------------------------------------------------------------- fuel monotonicity, determinism *)

Lemma run_mono : forall n p st o,
  run n p st = o -> o <> OutOfFuel -> forall m, (n <= m)%nat -> run m p st = o.
Proof.
  induction n as [|n IH]; intros p st o Hr Hne m Hle.
  - simpl in Hr. congruence.
  - destruct m as [|m]; [lia|].
    simpl in *. destruct (step p st) as [st'|o'].
    + apply IH; auto. lia.
    + exact Hr.
Qed.

(* "the execution of p from st ends with outcome o" *)
Definition terminates_with (p : program) (st : state) (o : outcome) : Prop :=
  exists n, run n p st = o /\ o <> OutOfFuel.

Lemma terminates_deterministic : forall p st o1 o2,
  terminates_with p st o1 -> terminates_with p st o2 -> o1 = o2.
Proof.
  intros p st o1 o2 [n1 [H1 N1]] [n2 [H2 N2]].
  rewrite <- (run_mono n1 p st o1 H1 N1 (Nat.max n1 n2) (Nat.le_max_l _ _)).
  rewrite <- (run_mono n2 p st o2 H2 N2 (Nat.max n1 n2) (Nat.le_max_r _ _)).
  reflexivity.
Qed.

Lemma exec_mono : forall n p f args h o,
  exec n p f args h = o -> o <> OutOfFuel -> forall m, (n <= m)%nat -> exec m p f args h = o.
Proof.
  unfold exec. intros n p f args h o H Hne m Hle.
  destruct (init_state p f args h); [eapply run_mono; eauto | exact H].
Qed.
