(* C19: the statements of Props/C19.v, generic in the regenerated tables (T = std_tables, chain = std_chain are
   finite obligations re-checked on every run). *)
From Coq Require Import List ZArith Bool Lia Znumtheory Permutation.
Import ListNotations.
Require Import Verif.Model.C19_Types Verif.Model.C19 Verif.Model.C19_Check.
Require Import Verif.Proofs.C19 Verif.Proofs.C19_Optimize Verif.Proofs.C19_Layout.
Open Scope Z_scope.

Definition struct_offsets_ok (T : tables) (a : arch) (fs : list ty) : Prop :=
  let t := TStruct fs in
  offsets_wf 0 (List.combine (offsetsof T a t) (map (sa T a) fs)) (sizeof T a t)
  /\ (alignof T a t | sizeof T a t)
  /\ pow2 (alignof T a t) /\ alignof T a t <= maxalign a
  /\ Forall (fun f => (alignof T a f | alignof T a t)) fs.

Lemma offsets_ok_gen T : T = std_tables ->
  forall a fs, arch_ok a -> wf_ty (TStruct fs) -> struct_offsets_ok T a fs.
Proof. intros -> a fs Ha Hwf. apply offsets_ok_std; auto. Qed.

Lemma gcsizes_eq_gc_gen T : T = std_tables ->
  forall a t, arch_ok a -> wf_ty t ->
    sizeof T a t = gc_sizeof a t /\ alignof T a t = gc_alignof a t /\ offsetsof T a t = gc_offsetsof a t.
Proof. intros -> a t Ha Hwf. apply gcsizes_eq_gc_std; auto. Qed.

(* reflection of the executable predicates used on the tools' observed output *)
Lemma tiles_from_true l lo hi : tiles l lo hi -> tiles_from l lo hi = true.
Proof.
  revert lo. induction l as [|e r IH]; intros lo H; simpl in *.
  - apply Z.eqb_eq. exact H.
  - destruct H as (A & B & C & D). rewrite (IH _ D).
    rewrite (proj2 (Z.eqb_eq _ _) A), (proj2 (Z.eqb_eq _ _) B), (proj2 (Z.leb_le _ _) C). reflexivity.
Qed.
Lemma path_eqb_refl p : path_eqb p p = true.
Proof. induction p as [|x r IH]; simpl; [reflexivity|]. rewrite Nat.eqb_refl. exact IH. Qed.
Lemma leaf_rel_ok e c : leaf_rel e c -> leaf_ok e c = true.
Proof.
  destruct c as [[[p off] w] al]. unfold leaf_rel, leaf_ok. intros (A & B & C & D).
  rewrite A, B, C, path_eqb_refl, !Z.eqb_refl. simpl.
  destruct D as [->|[-> ->]]; [rewrite Z.eqb_refl; reflexivity | reflexivity].
Qed.
Lemma forall2b_leaf_ok l cs : Forall2 leaf_rel l cs -> forall2b leaf_ok l cs = true.
Proof. intro H. induction H; simpl; [reflexivity|]. rewrite (leaf_rel_ok _ _ H), IHForall2. reflexivity. Qed.

Definition layout_matches_gc (T : tables) (a : arch) (fs : list ty) : Prop :=
  let t := TStruct fs in
  tiles (layout T a t) 0 (gc_sizeof a t)
  /\ Forall2 leaf_rel (nonpad (layout T a t)) (gc_leaves (fst a) (snd a) t [] 0)
  (* and the same through the predicates the check evaluates on structlayout's real output *)
  /\ tiles_b (layout T a t) (gc_sizeof a t) = true
  /\ forall2b leaf_ok (nonpad (layout T a t)) (gc_leaves (fst a) (snd a) t [] 0) = true.

Lemma layout_tiles_gen T : T = std_tables ->
  forall a fs, arch_ok a -> wf_ty (TStruct fs) -> layout_matches_gc T a fs.
Proof.
  intros -> a fs Ha Hwf. destruct (layout_tiles_std a fs Ha Hwf) as [H1 H2].
  unfold layout_matches_gc. repeat split; auto.
  - apply tiles_from_true. exact H1.
  - apply forall2b_leaf_ok. exact H2.
Qed.

(* ---- optimize ---- *)
Lemma optimize_perm_gen (recurse : bool) (inp l' : list entry) :
  Permutation (units_of recurse inp) l' ->
  Permutation (map strip (units_of recurse inp)) (map strip (nonpad (pad_units l'))).
Proof. apply optimize_perm_abs. Qed.

Lemma units_wf_std a fs recurse :
  arch_ok a -> wf_ty (TStruct fs) -> Forall unit_wf (units_of recurse (layout std_tables a (TStruct fs))).
Proof.
  intros Ha Hwf. unfold units_of. destruct recurse.
  - destruct fs as [|g gs]; [rewrite layout_nil; constructor|].
    destruct (lay_inv_all a Ha (TStruct (g :: gs)) Hwf eq_refl [] 0 (Z.divide_0_r _)) as (_ & _ & _ & H4 & _).
    apply nonpad_Forall. eapply Forall_impl; [|exact H4]. intros e He Hp. destruct (He Hp) as (B & C & _). split; auto.
  - destruct (combine_layout_std a fs Ha Hwf) as (_ & C2 & _).
    apply nonpad_Forall. eapply Forall_impl; [|exact C2]. intros u Hu _. apply Hu.
Qed.

Lemma combine_faithful_gen T : T = std_tables ->
  forall a fs, arch_ok a -> wf_ty (TStruct fs) ->
    let t := TStruct fs in
    map e_path (combine (layout T a t)) = map (fun g => [g]) (seq 0 (length fs))
    /\ Forall (fun u => e_pad u = false /\ unit_wf u /\ (e_align u | alignof T a t)) (combine (layout T a t))
    /\ rsum (combine (layout T a t)) <= sizeof T a t.
Proof. intros -> a fs Ha Hwf. apply combine_layout_std; auto. Qed.

Lemma optimize_valid_gen T : T = std_tables ->
  forall a fs recurse l', arch_ok a -> wf_ty (TStruct fs) ->
    Permutation (units_of recurse (layout T a (TStruct fs))) l' -> valid_layout l' (pad_units l').
Proof.
  intros -> a fs recurse l' Ha Hwf Hp. apply optimize_valid_abs.
  eapply Permutation_Forall; [exact Hp|]. apply units_wf_std; auto.
Qed.

Lemma optimize_not_larger_gen T chain : T = std_tables -> chain = std_chain ->
  forall a fs recurse l', arch_ok a -> wf_ty (TStruct fs) ->
    let inp := layout T a (TStruct fs) in
    Permutation (units_of recurse inp) l' -> sorted_by (less_chain chain) l' ->
    total (pad_units l') <= total inp.
Proof.
  intros -> -> a fs recurse l' Ha Hwf inp Hp Hs. destruct recurse.
  - apply optimize_r_not_larger_std; auto.
  - apply optimize_not_larger_std; auto.
Qed.

(* the model's own optimize (insertion sort) is one of the orders the theorems quantify over *)
Lemma optimize_instance_gen chain : chain = std_chain ->
  forall recurse inp, inp <> [] ->
    exists l', optimize chain recurse inp = pad_units l'
               /\ Permutation (units_of recurse inp) l' /\ sorted_by (less_chain chain) l'.
Proof.
  intros -> recurse inp Hne. exists (sort_units (less_chain std_chain) (units_of recurse inp)).
  split; [destruct inp; [contradiction | reflexivity]|].
  split; [apply sort_units_perm | apply sort_units_sorted].
Qed.

(* hence, on the predicate the check evaluates on the tools' real output *)
Lemma optimize_model_not_larger_gen T chain : T = std_tables -> chain = std_chain ->
  forall a fs recurse, arch_ok a -> wf_ty (TStruct fs) ->
    opt_not_larger_b (layout T a (TStruct fs)) (optimize chain recurse (layout T a (TStruct fs))) = true.
Proof.
  intros HT Hc a fs recurse Ha Hwf. unfold opt_not_larger_b. apply Z.leb_le.
  destruct (layout T a (TStruct fs)) eqn:E; [simpl; lia|]. rewrite <- E.
  destruct (optimize_instance_gen chain Hc recurse (layout T a (TStruct fs))) as (l' & -> & Hp & Hs).
  { rewrite E. discriminate. }
  apply (optimize_not_larger_gen T chain HT Hc a fs recurse l' Ha Hwf Hp Hs).
Qed.

Lemma optimize_minimal_gen chain : chain = std_chain ->
  forall units l' any,
    Forall unit_wf units -> Forall (fun e => (e_align e | e_size e)) units ->
    Permutation units l' -> sorted_by (less_chain chain) l' -> Permutation units any ->
    total (pad_units l') <= total (pad_units any).
Proof. intros ->. apply optimize_minimal_abs. Qed.

(* ForArch's table for the architectures the theorems cover *)
Definition for_arch (tbl : list (String.string * (Z * Z))) (def : Z * Z) (name : String.string) : Z * Z :=
  match find (fun e => String.eqb (fst e) name) tbl with Some e => snd e | None => def end.
