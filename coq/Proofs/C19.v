(* C19: arithmetic of align, powers of two, and the gcsizes model (offsets_ok, gcsizes_eq_gc). *)
From Coq Require Import List ZArith Bool Lia Znumtheory.
Import ListNotations.
Require Import Verif.Model.C19_Types Verif.Model.C19.
Open Scope Z_scope.

(* ------------------------------------------------------------------------------------------ align *)
Lemma align_up_roundup x a : 0 < a -> align_up x a = roundup x a.
Proof.
  intro Ha. unfold align_up, roundup.
  pose proof (Z.div_mod (x + a - 1) a ltac:(lia)) as H. cbv zeta. lia.
Qed.

Lemma align_up_spec x a : 0 < a -> x <= align_up x a < x + a /\ (a | align_up x a).
Proof.
  intro Ha. unfold align_up. cbv zeta.
  pose proof (Z.mod_pos_bound (x + a - 1) a Ha) as Hb.
  pose proof (Z.div_mod (x + a - 1) a ltac:(lia)) as Hd.
  split; [lia|]. exists ((x + a - 1) / a). lia.
Qed.
Lemma align_up_ge x a : 0 < a -> x <= align_up x a.
Proof. intro H. apply (align_up_spec x a H). Qed.
Lemma align_up_divide x a : 0 < a -> (a | align_up x a).
Proof. intro H. apply (align_up_spec x a H). Qed.

Lemma align_up_mult x a : 0 < a -> (a | x) -> align_up x a = x.
Proof.
  intros Ha [k ->]. unfold align_up. cbv zeta.
  replace (k * a + a - 1) with ((a - 1) + k * a) by lia.
  rewrite Z.mod_add by lia. rewrite Z.mod_small by lia. lia.
Qed.

Lemma align_up_least x y a : 0 < a -> x <= y -> (a | y) -> align_up x a <= y.
Proof.
  intros Ha Hxy [k ->].
  destruct (align_up_spec x a Ha) as [[_ Hlt] [j Hj]]. rewrite Hj in *.
  assert (j < k + 1) by nia. nia.
Qed.

Lemma align_up_mono x y a : 0 < a -> x <= y -> align_up x a <= align_up y a.
Proof.
  intros Ha Hxy. apply align_up_least; auto.
  - pose proof (align_up_ge y a Ha). lia.
  - apply align_up_divide; auto.
Qed.

Lemma align_up_add x k a : 0 < a -> (a | k) -> align_up (k + x) a = k + align_up x a.
Proof.
  intros Ha [j ->]. unfold align_up. cbv zeta.
  replace (j * a + x + a - 1) with ((x + a - 1) + j * a) by lia.
  rewrite Z.mod_add by lia. lia.
Qed.

Lemma align_up_idem x a : 0 < a -> align_up (align_up x a) a = align_up x a.
Proof. intro Ha. apply align_up_mult; auto. apply align_up_divide; auto. Qed.

(* ------------------------------------------------------------------------------------------ powers of two *)
Definition pow2 (z : Z) : Prop := exists n : nat, z = 2 ^ Z.of_nat n.

Lemma pow2_pos z : pow2 z -> 0 < z.
Proof. intros [n ->]. apply Z.pow_pos_nonneg; lia. Qed.
Lemma pow2_1 : pow2 1. Proof. exists 0%nat. reflexivity. Qed.
Lemma pow2_2 : pow2 2. Proof. exists 1%nat. reflexivity. Qed.
Lemma pow2_4 : pow2 4. Proof. exists 2%nat. reflexivity. Qed.
Lemma pow2_8 : pow2 8. Proof. exists 3%nat. reflexivity. Qed.

Lemma pow2_divide a b : pow2 a -> pow2 b -> a <= b -> (a | b).
Proof.
  intros [i ->] [j ->] Hle.
  assert (Hij : Z.of_nat i <= Z.of_nat j).
  { apply (Z.pow_le_mono_r_iff 2); lia. }
  exists (2 ^ (Z.of_nat j - Z.of_nat i)).
  rewrite <- Z.pow_add_r by lia. f_equal. lia.
Qed.
Lemma pow2_max a b : pow2 a -> pow2 b -> pow2 (Z.max a b).
Proof. intros Ha Hb. destruct (Z.max_spec a b) as [[_ ->]|[_ ->]]; auto. Qed.
Lemma pow2_divide_max_l a b : pow2 a -> pow2 b -> (a | Z.max a b).
Proof. intros. apply pow2_divide; auto using pow2_max. lia. Qed.
Lemma pow2_divide_max_r a b : pow2 a -> pow2 b -> (b | Z.max a b).
Proof. intros. apply pow2_divide; auto using pow2_max. lia. Qed.

(* ------------------------------------------------------------------------------------------ types *)
Section ty_induction.
  Variable P : ty -> Prop.
  Hypothesis Hbasic : forall k, P (TBasic k).
  Hypothesis Hptr : P TPtr.
  Hypothesis Hslice : P TSlice.
  Hypothesis Hiface : P TIface.
  Hypothesis Harray : forall n e, P e -> P (TArray n e).
  Hypothesis Hstruct : forall fs, Forall P fs -> P (TStruct fs).
  Fixpoint ty_ind' (t : ty) : P t :=
    match t with
    | TBasic k => Hbasic k
    | TPtr => Hptr
    | TSlice => Hslice
    | TIface => Hiface
    | TArray n e => Harray n e (ty_ind' e)
    | TStruct fs =>
        Hstruct fs ((fix go (fs : list ty) : Forall P fs :=
                       match fs with
                       | [] => Forall_nil P
                       | f :: r => Forall_cons f (ty_ind' f) (go r)
                       end) fs)
    end.
End ty_induction.

(* array lengths are not negative *)
Fixpoint wf_ty (t : ty) : Prop :=
  match t with
  | TArray n e => 0 <= n /\ wf_ty e
  | TStruct fs => (fix go (fs : list ty) : Prop := match fs with [] => True | f :: r => wf_ty f /\ go r end) fs
  | _ => True
  end.
Lemma wf_struct fs : wf_ty (TStruct fs) <-> Forall wf_ty fs.
Proof.
  induction fs as [|f r IH]; simpl.
  - split; auto.
  - split.
    + intros [Hf Hr]. constructor; auto. apply IH. exact Hr.
    + intro H. inversion H; subst. split; auto. apply IH. auto.
Qed.

(* the settings for which gcsizes is meant: WordSize = MaxAlign = 4 (386, arm) or 8 (amd64, ...) *)
Definition arch_ok (a : arch) : Prop := a = (4, 4) \/ a = (8, 8).

(* a (size, align) pair as every type has it *)
Definition ok_sa (a : arch) (p : Z * Z) : Prop :=
  0 <= fst p /\ pow2 (snd p) /\ snd p <= maxalign a /\ (snd p | fst p).

Lemma maxalign_pow2 a : arch_ok a -> pow2 (maxalign a).
Proof. intros [->| ->]; simpl; [apply pow2_4 | apply pow2_8]. Qed.

Ltac pow2_tac := first [apply pow2_1 | apply pow2_2 | apply pow2_4 | apply pow2_8].
Ltac divide_tac :=
  match goal with
  | |- (?a | ?b) => let q := eval vm_compute in (b / a) in exists q; reflexivity
  end.

Ltac solve_ok :=
  match goal with
  | |- ok_sa ?a ?p => let v := eval vm_compute in p in change p with v
  end;
  unfold ok_sa, maxalign; cbn [fst snd]; split; [lia | split; [pow2_tac | split; [lia | divide_tac]]].

Lemma basic_ok a k : arch_ok a -> ok_sa a (sa std_tables a (TBasic k)).
Proof. intros [->| ->]; destruct k; solve_ok. Qed.
Lemma ptr_ok a : arch_ok a -> ok_sa a (sa std_tables a TPtr).
Proof. intros [->| ->]; solve_ok. Qed.
Lemma slice_ok a : arch_ok a -> ok_sa a (sa std_tables a TSlice).
Proof. intros [->| ->]; solve_ok. Qed.
Lemma iface_ok a : arch_ok a -> ok_sa a (sa std_tables a TIface).
Proof. intros [->| ->]; solve_ok. Qed.

(* ------------------------------------------------------------------------------------------ structs *)
Lemma struct_align_ok a l :
  arch_ok a -> Forall (ok_sa a) l ->
  pow2 (struct_align l) /\ struct_align l <= maxalign a /\ Forall (fun p => (snd p | struct_align l)) l.
Proof.
  intros Ha H. induction H as [|p l Hp Hl IH].
  - simpl. split; [apply pow2_1|]. split; [|constructor].
    pose proof (pow2_pos _ (maxalign_pow2 a Ha)). lia.
  - destruct IH as (IH1 & IH2 & IH3). destruct Hp as (_ & Hp2 & Hp3 & _).
    change (struct_align (p :: l)) with (Z.max (snd p) (struct_align l)).
    split; [apply pow2_max; auto|]. split; [lia|]. constructor.
    + apply pow2_divide_max_l; auto.
    + eapply Forall_impl; [|exact IH3]. intros q Hq. cbv beta in Hq.
      eapply Z.divide_trans; [exact Hq|]. apply pow2_divide_max_r; auto.
Qed.

(* offsets are aligned, in order, and the fields do not overlap and end before hi *)
Fixpoint offsets_wf (lo : Z) (l : list (Z * (Z * Z))) (hi : Z) : Prop :=
  match l with
  | [] => lo <= hi
  | (o, (z, al)) :: r => lo <= o /\ (al | o) /\ offsets_wf (o + z) r hi
  end.

Lemma end_from_ge a o l : Forall (ok_sa a) l -> o <= end_from o l.
Proof.
  intro H. revert o. induction H as [|[z al] l Hp Hl IH]; intro o; simpl; [lia|].
  destruct Hp as (Hz & Hal & _ & _). simpl in Hz, Hal.
  pose proof (align_up_ge o al (pow2_pos _ Hal)). specialize (IH (align_up o al + z)). lia.
Qed.

Lemma offsets_from_wf a o l :
  Forall (ok_sa a) l -> offsets_wf o (List.combine (offsets_from o l) l) (end_from o l).
Proof.
  intro H. revert o. induction H as [|[z al] l Hp Hl IH]; intro o; simpl; [lia|].
  destruct Hp as (Hz & Hal & _ & _). simpl in Hz, Hal.
  pose proof (align_up_spec o al (pow2_pos _ Hal)) as [[H1 _] H2].
  split; [lia|]. split; [exact H2|]. apply IH.
Qed.

Lemma offsets_wf_weaken lo l hi hi' : hi <= hi' -> offsets_wf lo l hi -> offsets_wf lo l hi'.
Proof.
  revert lo. induction l as [|[o [z al]] r IH]; intros lo Hle; simpl; [lia|].
  intros (H1 & H2 & H3). repeat split; auto.
Qed.

Lemma struct_size_ok a l :
  arch_ok a -> Forall (ok_sa a) l ->
  end_from 0 l <= struct_size l /\ (struct_align l | struct_size l) /\ 0 <= struct_size l.
Proof.
  intros Ha H. destruct (struct_align_ok a l Ha H) as (Hp & _ & _).
  pose proof (pow2_pos _ Hp) as Hpos.
  destruct l as [|p l'].
  - simpl. split; [lia|]. split; [apply Z.divide_0_r | lia].
  - pose proof (end_from_ge a 0 (p :: l') H) as Hge.
    unfold struct_size. set (l := p :: l') in *. cbv zeta.
    set (z := if (last_size l =? 0) && negb (end_from 0 l =? 0) then end_from 0 l + 1 else end_from 0 l).
    assert (Hz : end_from 0 l <= z) by (unfold z; destruct (_ && _); lia).
    pose proof (align_up_spec z (struct_align l) Hpos) as [[H1 _] H2].
    split; [lia|]. split; [exact H2 | lia].
Qed.

Lemma sa_ok a t : arch_ok a -> wf_ty t -> ok_sa a (sa std_tables a t).
Proof.
  intro Ha. induction t as [k| | | |n e IH|fs IH] using ty_ind'; intro Hwf.
  - apply basic_ok; auto.
  - apply ptr_ok; auto.
  - apply slice_ok; auto.
  - apply iface_ok; auto.
  - destruct Hwf as [Hn He]. specialize (IH He).
    simpl. destruct (sa std_tables a e) as [z al]. destruct IH as (Hz & Hal & Hm & Hd). simpl in *.
    unfold ok_sa; simpl. split; [|split; [auto | split; [auto|]]].
    + destruct (n =? 0) eqn:E; [lia|]. apply Z.eqb_neq in E.
      rewrite align_up_mult by (auto using pow2_pos). nia.
    + destruct (n =? 0); [apply Z.divide_0_r|].
      rewrite align_up_mult by (auto using pow2_pos).
      replace (z * (n - 1) + z) with (z * n) by lia. apply Z.divide_mul_l. exact Hd.
  - apply wf_struct in Hwf.
    assert (Hall : Forall (ok_sa a) (map (sa std_tables a) fs)).
    { apply Forall_map. rewrite Forall_forall in *. intros f Hf. apply IH; auto. }
    simpl. destruct (struct_align_ok a _ Ha Hall) as (H1 & H2 & _).
    destruct (struct_size_ok a _ Ha Hall) as (_ & H4 & H5).
    unfold ok_sa; simpl. auto.
Qed.

Lemma fields_ok a fs : arch_ok a -> wf_ty (TStruct fs) -> Forall (ok_sa a) (map (sa std_tables a) fs).
Proof.
  intros Ha Hwf. apply wf_struct in Hwf. apply Forall_map.
  eapply Forall_impl; [|exact Hwf]. intros f Hf. apply sa_ok; auto.
Qed.

(* offsets_ok: field offsets are non-decreasing multiples of the fields' alignments, consecutive fields do not
   overlap and end within the struct; its size is a multiple of its alignment, which is a power of two, at most
   MaxAlign and a multiple of every field's alignment *)
Theorem offsets_ok_std a fs :
  arch_ok a -> wf_ty (TStruct fs) ->
  let t := TStruct fs in
  offsets_wf 0 (List.combine (offsetsof std_tables a t) (map (sa std_tables a) fs)) (sizeof std_tables a t)
  /\ (alignof std_tables a t | sizeof std_tables a t)
  /\ pow2 (alignof std_tables a t) /\ alignof std_tables a t <= maxalign a
  /\ Forall (fun f => (alignof std_tables a f | alignof std_tables a t)) fs.
Proof.
  intros Ha Hwf t. pose proof (fields_ok a fs Ha Hwf) as Hall.
  destruct (struct_align_ok a _ Ha Hall) as (H1 & H2 & H3).
  destruct (struct_size_ok a _ Ha Hall) as (H4 & H5 & H6).
  unfold t, sizeof, alignof, offsetsof. simpl.
  split; [|split; [auto | split; [auto | split; [auto|]]]].
  - eapply offsets_wf_weaken; [exact H4|]. apply offsets_from_wf with (a := a). exact Hall.
  - rewrite Forall_map in H3. exact H3.
Qed.

(* ------------------------------------------------------------------------------------------ gcsizes = gc *)
Lemma end_from_gc a o l : Forall (ok_sa a) l -> end_from o l = gc_end o l.
Proof.
  intro H. revert o. induction H as [|[z al] l Hp Hl IH]; intro o; simpl; [reflexivity|].
  destruct Hp as (_ & Hal & _ & _). simpl in Hal.
  rewrite align_up_roundup by (auto using pow2_pos). apply IH.
Qed.
Lemma offsets_from_gc a o l : Forall (ok_sa a) l -> offsets_from o l = gc_offsets o l.
Proof.
  intro H. revert o. induction H as [|[z al] l Hp Hl IH]; intro o; simpl; [reflexivity|].
  destruct Hp as (_ & Hal & _ & _). simpl in Hal.
  rewrite align_up_roundup by (auto using pow2_pos). f_equal. apply IH.
Qed.

Lemma struct_gc a l : arch_ok a -> Forall (ok_sa a) l -> (struct_size l, struct_align l) = gc_struct l.
Proof.
  intros Ha H. unfold gc_struct. change (gc_maxalign l) with (struct_align l).
  destruct (struct_align_ok a l Ha H) as (Hp & _ & _). pose proof (pow2_pos _ Hp) as Hpos.
  f_equal. destruct l as [|p l'].
  - reflexivity.
  - set (l := p :: l') in *. unfold struct_size. fold l. cbv zeta.
    rewrite <- (end_from_gc a 0 l H). pose proof (end_from_ge a 0 l H) as Hge.
    rewrite align_up_roundup by exact Hpos. f_equal. unfold last_size.
    destruct (fst (last l (1, 1)) =? 0); destruct (end_from 0 l =? 0) eqn:E1; destruct (0 <? end_from 0 l) eqn:E2;
      simpl; try reflexivity; lia.
Qed.

Lemma sa_eq_gc a t : arch_ok a -> wf_ty t -> sa std_tables a t = gc_sa (fst a) (snd a) t.
Proof.
  intro Ha. induction t as [k| | | |n e IH|fs IH] using ty_ind'; intro Hwf.
  - destruct Ha as [->| ->]; destruct k; reflexivity.
  - destruct Ha as [->| ->]; reflexivity.
  - destruct Ha as [->| ->]; reflexivity.
  - destruct Ha as [->| ->]; reflexivity.
  - destruct Hwf as [Hn He]. pose proof (sa_ok a e Ha He) as Hok. specialize (IH He).
    simpl. rewrite <- IH. destruct (sa std_tables a e) as [z al].
    destruct Hok as (Hz & Hal & _ & Hd). simpl in *. f_equal.
    destruct (n =? 0) eqn:E; [apply Z.eqb_eq in E; subst; lia|].
    rewrite align_up_mult by (auto using pow2_pos). lia.
  - pose proof (fields_ok a fs Ha Hwf) as Hall. apply wf_struct in Hwf.
    simpl. rewrite (struct_gc a _ Ha Hall). f_equal.
    apply map_ext_Forall. rewrite Forall_forall in *. intros f Hf. apply IH; auto.
Qed.

Theorem gcsizes_eq_gc_std a t :
  arch_ok a -> wf_ty t ->
  sizeof std_tables a t = gc_sizeof a t /\ alignof std_tables a t = gc_alignof a t
  /\ offsetsof std_tables a t = gc_offsetsof a t.
Proof.
  intros Ha Hwf. unfold sizeof, alignof, gc_sizeof, gc_alignof, offsetsof, gc_offsetsof.
  rewrite (sa_eq_gc a t Ha Hwf). split; [reflexivity|]. split; [reflexivity|].
  destruct t; try reflexivity. simpl fields_of.
  pose proof (fields_ok a fs Ha Hwf) as Hall. rewrite (offsets_from_gc a 0 _ Hall). f_equal.
  apply wf_struct in Hwf. apply map_ext_Forall. eapply Forall_impl; [|exact Hwf].
  intros f Hf. apply sa_eq_gc; auto.
Qed.
