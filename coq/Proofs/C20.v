(* C20: proofs about Model/C20.v *)
From Coq Require Import List ZArith Bool Lia.
Import ListNotations.
Require Import Verif.Model.C20_Types Verif.Model.C20.
Open Scope Z_scope.

Lemma bound_eqb_eq a b : bound_eqb a b = true <-> a = b.
Proof. destruct a, b; simpl; split; intro H; try reflexivity; try discriminate. Qed.
Lemma field_eqb_eq a b : field_eqb a b = true <-> a = b.
Proof. destruct a, b; simpl; split; intro H; try reflexivity; try discriminate. Qed.
Lemma bound_eqb_refl a : bound_eqb a a = true.
Proof. destruct a; reflexivity. Qed.

Lemma vcmp_range a b : vcmp a b = -1 \/ vcmp a b = 0 \/ vcmp a b = 1.
Proof. unfold vcmp. destruct (fst a ?= fst b); [destruct (snd a ?= snd b)| |]; auto. Qed.

Lemma vcmp_antisym a b : vcmp a b = - vcmp b a.
Proof.
  unfold vcmp. rewrite (Z.compare_antisym (fst a) (fst b)), (Z.compare_antisym (snd a) (snd b)).
  destruct (fst a ?= fst b); simpl; [destruct (snd a ?= snd b)| |]; reflexivity.
Qed.

(* ---------- setters ---------- *)
Lemma set_field_idem f v o : set_field f v (set_field f v o) = set_field f v o.
Proof. destruct f, o; reflexivity. Qed.

Lemma get_set_same f v o : get_field f (set_field f v o) = Some v.
Proof. destruct f; reflexivity. Qed.
Lemma get_set_other f g v o : f <> g -> get_field f (set_field g v o) = get_field f o.
Proof. destruct f, g; intro H; try reflexivity; exfalso; apply H; reflexivity. Qed.

Lemma fold_set_all_same f v l o :
  l <> [] -> forallb (fun g => field_eqb g f) l = true ->
  fold_left (fun o g => set_field g v o) l o = set_field f v o.
Proof.
  revert o. induction l as [|g l IH]; intros o Hne Hall; [contradiction|].
  simpl in Hall. apply andb_true_iff in Hall as [Hg Hl]. apply field_eqb_eq in Hg. subst g.
  simpl. destruct l as [|g' l'].
  - reflexivity.
  - rewrite IH; [apply set_field_idem | discriminate | exact Hl].
Qed.

Lemma tables_ok_fields tbl gates b :
  tables_ok tbl gates = true -> field_list_ok b (fields_of tbl b) = true.
Proof.
  unfold tables_ok. intro H. apply andb_true_iff in H as [H _].
  rewrite forallb_forall in H. apply H. destruct b; simpl; auto.
Qed.
Lemma tables_ok_gates tbl gates f :
  tables_ok tbl gates = true -> gate_list_ok f (gates_for gates f) = true.
Proof.
  unfold tables_ok. intro H. apply andb_true_iff in H as [_ H].
  rewrite forallb_forall in H. apply H. destruct f; simpl; auto.
Qed.

Lemma apply_setter_ok tbl gates o b v :
  tables_ok tbl gates = true -> apply_setter tbl o (b, v) = set_field (field_of b) v o.
Proof.
  intro H. pose proof (tables_ok_fields tbl gates b H) as Hb.
  unfold apply_setter; simpl. unfold field_list_ok in Hb.
  destruct (fields_of tbl b) as [|f l] eqn:E; [discriminate|].
  apply fold_set_all_same; [discriminate | exact Hb].
Qed.

Lemma field_of_inj a b : field_of a = field_of b -> a = b.
Proof. destruct a, b; simpl; intro H; try reflexivity; discriminate. Qed.

Lemma get_after_build tbl gates l : forall o b,
  tables_ok tbl gates = true ->
  get_field (field_of b) (fold_left (apply_setter tbl) l o) =
  match requested b l with Some v => Some v | None => get_field (field_of b) o end.
Proof.
  induction l as [|[b' v] l IH]; intros o b H; simpl; [reflexivity|].
  rewrite IH by exact H. destruct (requested b l) as [x|]; [reflexivity|].
  rewrite (apply_setter_ok tbl gates o b' v H).
  destruct (bound_eqb b b') eqn:E.
  - apply bound_eqb_eq in E. subst b'. apply get_set_same.
  - apply get_set_other. intro Hf. apply field_of_inj in Hf. subst b'.
    rewrite bound_eqb_refl in E. discriminate.
Qed.

Lemma build_opts_field tbl gates l b :
  tables_ok tbl gates = true -> get_field (field_of b) (build_opts tbl l) = requested b l.
Proof.
  intro H. unfold build_opts. rewrite (get_after_build tbl gates l empty_opts b H).
  destruct (requested b l); [reflexivity|]. destruct b; reflexivity.
Qed.

(* ---------- gates ---------- *)
Lemma existsb_by_field (p : field * vkind * Z -> bool) gates :
  existsb p gates =
  existsb (fun f => existsb p (filter (fun g => field_eqb (fst (fst g)) f) gates)) all_fields.
Proof.
  induction gates as [|g gs IH]; [reflexivity|].
  simpl existsb at 1. rewrite IH. unfold all_fields. simpl.
  destruct g as [[f k] s]; simpl. destruct f; simpl; destruct (p _); simpl;
    repeat rewrite orb_true_r; repeat rewrite orb_false_r; try reflexivity.
Qed.

Lemma gate_list_ok_inv f l :
  gate_list_ok f l = true ->
  l <> [] /\ forall g, In g l -> fst g = fst (expected_gate f) /\ snd g = snd (expected_gate f).
Proof.
  unfold gate_list_ok. destruct l as [|g0 l']; [discriminate|]. intro H. split; [discriminate|].
  intros g Hin. rewrite forallb_forall in H. specialize (H g Hin).
  apply andb_true_iff in H as [Hk Hs]. apply Z.eqb_eq in Hs. split; [|exact Hs].
  destruct (fst g), (fst (expected_gate f)); simpl in Hk; try discriminate; reflexivity.
Qed.

Lemma existsb_const {A} (p : A -> bool) (c : bool) l :
  l <> [] -> (forall x, In x l -> p x = c) -> existsb p l = c.
Proof.
  induction l as [|x l IH]; intros Hne Hall; [contradiction|].
  simpl. rewrite (Hall x (or_introl eq_refl)). destruct c; [reflexivity|]. simpl.
  destruct l as [|y l']; [reflexivity|]. apply IH; [discriminate|].
  intros z Hz. apply Hall. right. exact Hz.
Qed.

Lemma gate_group tbl gates o lang std f :
  tables_ok tbl gates = true ->
  existsb (gate_blocks o lang std) (filter (fun g => field_eqb (fst (fst g)) f) gates) =
  match get_field f o with
  | None => false
  | Some n => vcmp n (vsel (fst (expected_gate f)) lang std) =? snd (expected_gate f)
  end.
Proof.
  intro H. pose proof (tables_ok_gates tbl gates f H) as Hg.
  apply gate_list_ok_inv in Hg as [Hne Hg]. unfold gates_for in *.
  set (fl := filter (fun g => field_eqb (fst (fst g)) f) gates) in *.
  apply existsb_const.
  - intro E. apply Hne. rewrite E. reflexivity.
  - intros g Hin.
    assert (Hf : fst (fst g) = f).
    { apply filter_In in Hin as [_ Hin]. apply field_eqb_eq in Hin. exact Hin. }
    destruct (Hg (snd (fst g), snd g)) as [Hk Hs].
    { apply in_map_iff. exists g. split; [reflexivity|exact Hin]. }
    simpl in Hk, Hs. unfold gate_blocks. rewrite Hf, Hk, Hs. reflexivity.
Qed.

Lemma vle_cmp1 n v : negb (vcmp n v =? 1) = vle n v.
Proof. reflexivity. Qed.
Lemma vle_cmpm1 n v : negb (vcmp n v =? -1) = vle v n.
Proof.
  unfold vle. rewrite (vcmp_antisym v n).
  destruct (vcmp_range n v) as [H|[H|H]]; rewrite H; reflexivity.
Qed.

(* The property, generic in the tables: if the tables say what tables_ok demands, then a problem is
   reported exactly when the effective versions lie in the range THE CALLER ASKED FOR. *)
Theorem report_iff_generic tbl gates :
  tables_ok tbl gates = true ->
  forall l lang std, report_impl tbl gates l lang std = in_range l lang std.
Proof.
  intros H l lang std. unfold report_impl. rewrite existsb_by_field.
  unfold all_fields. simpl existsb.
  rewrite !(gate_group tbl gates _ lang std _ H).
  change FMinLang with (field_of BMinLang). change FMaxLang with (field_of BMaxLang).
  change FMinStd with (field_of BMinStd). change FMaxStd with (field_of BMaxStd).
  rewrite !(build_opts_field tbl gates l _ H). simpl.
  unfold in_range, min_ok, max_ok. rewrite orb_false_r.
  destruct (requested BMinLang l) as [a|], (requested BMaxLang l) as [b|],
           (requested BMinStd l) as [c|], (requested BMaxStd l) as [d|];
    rewrite ?negb_orb, ?vle_cmp1, ?vle_cmpm1; simpl; rewrite ?andb_true_r;
    repeat (rewrite <- ?andb_assoc); try reflexivity;
    repeat match goal with |- context [vle ?x ?y] => destruct (vle x y); simpl end; reflexivity.
Qed.

(* ---------- effective versions ---------- *)
Lemma std_version_generic thr sign pkgv tag :
  std_table_ok thr sign = true -> file_std_gen thr sign pkgv tag = file_std_spec pkgv tag.
Proof.
  unfold std_table_ok. intro H. apply andb_true_iff in H as [H Hs]. apply andb_true_iff in H as [H1 H2].
  apply Z.eqb_eq in H1, H2, Hs. destruct thr as [a b]. simpl in H1, H2. subst.
  unfold file_std_gen, file_std_spec, vmax. destruct tag; reflexivity.
Qed.

(* pkg_version: -go 1.N replaces the module version; -go module keeps it *)
Lemma flag_overrides modv v tc : pkg_version modv (Some v) tc = v.
Proof. reflexivity. Qed.
Lemma flag_module_keeps m tc : pkg_version (Some m) None tc = m.
Proof. reflexivity. Qed.
