(* C06: pkg_independent — the result of an action depends only on its own transitive dependency cone: two action
   graphs (for instance the package graphs of two invocations naming different sets of packages) that agree on
   the cone of an action give it the same result, whatever else they contain. *)
From Coq Require Import List Arith Bool Lia PeanoNat.
Import ListNotations.
Require Import Verif.Model.C06_Map Verif.Model.C06 Verif.Proofs.C06_Base Verif.Proofs.C06_Level.

Section Indep.
Variable R : Type.
Variables G G' : dag.
Hypothesis WF : wf_dag G.
Hypothesis WF' : wf_dag G'.
Variable exec : nat -> (nat -> option R) -> option R.
Hypothesis exec_local : forall a m m', (forall d, In d (deps G a) -> m d = m' d) -> exec a m = exec a m'.

Lemma dep_star_dep : forall x a d, dep_star G x a -> In d (deps G x) -> dep_star G d a.
Proof.
  induction 1; intros.
  - econstructor. constructor. assumption.
  - econstructor. apply IHdep_star. assumption. assumption.
Qed.

(* the two graphs agree on the cone of a *)
Definition agree_on_cone (a : nat) : Prop :=
  forall x, dep_star G x a -> In x (nodes G) /\ In x (nodes G') /\ deps G x = deps G' x /\ ifail G x = ifail G' x.

Theorem sol_cone_independent : forall m m' a, sol R G exec m -> sol R G' exec m' -> agree_on_cone a -> m a = m' a.
Proof.
  intros m m' a S S' A.
  assert (forall n x, dep_star G x a -> idx x (nodes G) < n -> m x = m' x).
  { induction n; intros x Hx Hn. lia.
    destruct (A x Hx) as [Hin [Hin' [Hd Hf]]].
    assert (Hdeps : forall d, In d (deps G x) -> m d = m' d).
    { intros d Hd0. apply IHn. eapply dep_star_dep; eauto. pose proof (wf_topo G WF x Hin d Hd0). lia. }
    rewrite (S x Hin), (S' x Hin').
    assert (Esk : skipD G m x = skipD G' m' x).
    { unfold skipD. rewrite <- Hf, <- Hd. f_equal. apply existsb_ext_in. intros d Hd0. rewrite Hdeps; auto. }
    rewrite Esk. rewrite (exec_local x m m' Hdeps). reflexivity. }
  apply (H (Datatypes.S (idx a (nodes G)))). constructor. lia.
Qed.

Hypothesis exec_local' : forall a m m', (forall d, In d (deps G' a) -> m d = m' d) -> exec a m = exec a m'.

Theorem den_cone_independent : forall a, agree_on_cone a -> den G exec a = den G' exec a.
Proof.
  intros a A. apply sol_cone_independent; auto.
  apply den_sol; assumption. apply den_sol; assumption.
Qed.

End Indep.
