(* C06: list lemmas and soundness of the boolean well-formedness check of action graphs. *)
From Coq Require Import List Arith Bool Lia PeanoNat.
Import ListNotations.
Require Import Verif.Model.C06_Map Verif.Model.C06.

Lemma memb_In : forall a l, memb a l = true <-> In a l.
Proof.
  intros. unfold memb. rewrite existsb_exists. split.
  - intros [x [H E]]. apply Nat.eqb_eq in E. subst. assumption.
  - intros H. exists a. split. assumption. apply Nat.eqb_refl.
Qed.

Lemma memb_false : forall a l, memb a l = false <-> ~ In a l.
Proof. intros. rewrite <- memb_In. destruct (memb a l); split; intros; congruence. Qed.

Lemma nodupb_NoDup : forall l, nodupb l = true -> NoDup l.
Proof.
  induction l; simpl; intros. constructor.
  apply andb_true_iff in H. destruct H as [H1 H2]. constructor.
  - apply negb_true_iff in H1. apply memb_false in H1. assumption.
  - auto.
Qed.

Lemma nilb_nil : forall A (l : list A), nilb l = true <-> l = [].
Proof. intros. destruct l; simpl; split; intros; congruence. Qed.

Lemma countb_In : forall a l, 0 < countb a l <-> In a l.
Proof.
  induction l; simpl. split; [lia | tauto].
  destruct (Nat.eqb_spec a0 a).
  - subst. split; intros; [auto | lia].
  - rewrite IHl. simpl. split; intros; [auto | destruct H; [congruence | auto]].
Qed.

Lemma countb_notin : forall a l, ~ In a l -> countb a l = 0.
Proof. intros. destruct (countb a l) eqn:E; auto. exfalso. apply H. apply countb_In. lia. Qed.

Lemma countb_zero_nil : forall l, (forall a, countb a l = 0) -> l = [].
Proof.
  destruct l; auto. intros H. specialize (H n). simpl in H. rewrite Nat.eqb_refl in H. lia.
Qed.

Lemma countb_app : forall a l1 l2, countb a (l1 ++ l2) = countb a l1 + countb a l2.
Proof. induction l1; simpl; intros; auto. rewrite IHl1. lia. Qed.

Lemma countb_NoDup : forall a l, NoDup l -> countb a l = if memb a l then 1 else 0.
Proof.
  induction 1; simpl. reflexivity.
  rewrite IHNoDup. unfold memb at 2. simpl. fold (memb a l).
  destruct (Nat.eqb_spec x a).
  - subst. rewrite Nat.eqb_refl. simpl. apply memb_false in H. rewrite H. reflexivity.
  - assert (a =? x = false) by (apply Nat.eqb_neq; congruence). rewrite H1. simpl. reflexivity.
Qed.

(* remove the first occurrence *)
Fixpoint rm1 (a : nat) (l : list nat) : list nat :=
  match l with [] => [] | x :: r => if x =? a then r else x :: rm1 a r end.

Lemma countb_rm1 : forall a x l, countb x (rm1 a l) = countb x l - (if a =? x then 1 else 0).
Proof.
  induction l; simpl. reflexivity.
  destruct (Nat.eqb_spec a0 a); simpl.
  - destruct (Nat.eqb_spec a0 x); destruct (Nat.eqb_spec a x); try lia; congruence.
  - rewrite IHl. destruct (Nat.eqb_spec a0 x); destruct (Nat.eqb_spec a x); try lia; congruence.
Qed.

Lemma length_rm1 : forall a l, In a l -> S (length (rm1 a l)) = length l.
Proof.
  induction l; simpl; intros. contradiction.
  destruct (Nat.eqb_spec a0 a). reflexivity.
  simpl. rewrite IHl. reflexivity. destruct H; [congruence | assumption].
Qed.

Lemma rm1_incl : forall a l x, In x (rm1 a l) -> In x l.
Proof.
  induction l; simpl; intros. assumption.
  destruct (a0 =? a). auto. destruct H; auto.
Qed.

Lemma remove1_count : forall b l l', remove1 b l = Some l' ->
  forall x, countb x l = countb x l' + (if b =? x then 1 else 0).
Proof.
  induction l; simpl; intros. discriminate.
  destruct (Nat.eqb_spec a b).
  - inversion H; subst. destruct (Nat.eqb_spec b x); lia.
  - destruct (remove1 b l) eqn:E; try discriminate. inversion H; subst. simpl.
    rewrite (IHl l0 eq_refl x). lia.
Qed.

Lemma remove1_some : forall b l, In b l -> exists l', remove1 b l = Some l'.
Proof.
  induction l; simpl; intros. contradiction.
  destruct (Nat.eqb_spec a b). eauto.
  destruct IHl as [l' E]. destruct H; [congruence | assumption]. rewrite E. eauto.
Qed.

Lemma remove1_nil : forall b l l', remove1 b l = Some l' -> l <> [].
Proof. intros. destruct l; simpl in *; congruence. Qed.

(* messages for an item *)
Fixpoint cntq (b : nat) (q : list msg) : nat :=
  match q with [] => 0 | m :: r => (if mitem m =? b then 1 else 0) + cntq b r end.

Lemma cntq_app : forall b q1 q2, cntq b (q1 ++ q2) = cntq b q1 + cntq b q2.
Proof. induction q1; simpl; intros; auto. rewrite IHq1. lia. Qed.

Lemma remove_msg_count : forall b q q', remove_msg b q = Some q' ->
  forall x, cntq x q = cntq x q' + (if b =? x then 1 else 0).
Proof.
  induction q; simpl; intros. discriminate.
  destruct (Nat.eqb_spec (mitem a) b).
  - inversion H; subst. destruct (Nat.eqb_spec (mitem a) x); lia.
  - destruct (remove_msg b q) eqn:E; try discriminate. inversion H; subst. simpl.
    rewrite (IHq l eq_refl x). lia.
Qed.

Lemma remove_msg_some : forall b q, 0 < cntq b q -> exists q', remove_msg b q = Some q'.
Proof.
  induction q; simpl; intros. lia.
  destruct (Nat.eqb_spec (mitem a) b). eauto.
  destruct IHq as [q' E]. lia. rewrite E. eauto.
Qed.

Lemma remove_msg_length : forall b q q', remove_msg b q = Some q' -> length q = S (length q').
Proof.
  induction q; simpl; intros. discriminate.
  destruct (mitem a =? b). inversion H; subst; reflexivity.
  destruct (remove_msg b q) eqn:E; try discriminate. inversion H; subst. simpl. erewrite IHq; eauto.
Qed.

Lemma remove_msg_sub : forall b q q' m, remove_msg b q = Some q' -> In m q' -> In m q.
Proof.
  induction q; simpl; intros. discriminate.
  destruct (mitem a =? b). inversion H; subst; auto.
  destruct (remove_msg b q) eqn:E; try discriminate. inversion H; subst. destruct H0; eauto.
Qed.

Lemma cntq_pos_head : forall q, q <> [] -> exists b, 0 < cntq b q.
Proof. destruct q; intros. congruence. exists (mitem m). simpl. rewrite Nat.eqb_refl. lia. Qed.

(* ---------------------------------------------------------------------------------------------- *)
(* idx / rank *)

Lemma idx_In : forall a l, idx a l < length l <-> In a l.
Proof.
  induction l; simpl. split; [lia | tauto].
  destruct (Nat.eqb_spec a0 a).
  - subst. split; intros; [auto | lia].
  - rewrite <- Nat.succ_lt_mono. rewrite IHl. split; intros; [auto | destruct H; [congruence | auto]].
Qed.

Lemma idx_notin : forall a l, ~ In a l -> idx a l = length l.
Proof.
  induction l; simpl; intros. reflexivity.
  destruct (Nat.eqb_spec a0 a). subst. tauto. rewrite IHl; auto.
Qed.

Lemma idx_le : forall a l, idx a l <= length l.
Proof. induction l; simpl. lia. destruct (a0 =? a); lia. Qed.

Section WF.
Variable G : dag.
Hypothesis WF : wf_dag G.

Lemma deps_in_nodes : forall b, In b (alln G) -> forall d, In d (deps G b) -> In d (nodes G).
Proof.
  intros b Hb d Hd. destruct Hb as [Hb | Hb].
  - subst. apply (wf_rdeps G WF); assumption.
  - pose proof (wf_topo G WF b Hb d Hd). apply idx_In. pose proof (idx_le b (nodes G)). lia.
Qed.

Lemma rank_deps : forall b, In b (alln G) -> forall d, In d (deps G b) -> rank G d < rank G b.
Proof.
  intros b Hb d Hd. pose proof (deps_in_nodes b Hb d Hd) as Hdn.
  unfold rank. destruct (Nat.eqb_spec d (root G)).
  - subst. exfalso. apply (wf_root G WF). assumption.
  - destruct (Nat.eqb_spec b (root G)).
    + apply idx_In. assumption.
    + destruct Hb as [Hb | Hb]; [congruence |]. apply (wf_topo G WF); assumption.
Qed.

Lemma root_not_dep : forall b, In b (alln G) -> ~ In (root G) (deps G b).
Proof. intros b Hb H. apply (wf_root G WF). eapply deps_in_nodes; eauto. Qed.

Lemma trig_deps : forall a b, In a (alln G) -> In b (alln G) -> (In b (trig G a) <-> In a (deps G b)).
Proof. intros. rewrite <- !countb_In. rewrite (wf_inv G WF a b); tauto. Qed.

Lemma nodes_alln : forall a, In a (nodes G) -> In a (alln G).
Proof. intros. right. assumption. Qed.

Lemma root_alln : In (root G) (alln G).
Proof. left. reflexivity. Qed.

Lemma alln_cases : forall a, In a (alln G) -> a = root G \/ (In a (nodes G) /\ a <> root G).
Proof.
  intros a [H | H]. left; auto. right. split; auto. intro. subst. apply (wf_root G WF); assumption.
Qed.

End WF.

(* ---------------------------------------------------------------------------------------------- *)
(* the boolean check implies well-formedness *)

Lemma wf_dagb_sound : forall G, wf_dagb G = true -> wf_dag G.
Proof.
  intros G H. unfold wf_dagb in H.
  repeat (apply andb_true_iff in H; destruct H as [H ?]).
  rename H into A1, H9 into A2, H8 into A3, H7 into A4, H6 into A5, H5 into A6, H4 into A6', H3 into A7, H2 into A8, H1 into A9, H0 into A10.
  assert (Hall : forall a, In a (alln G) -> forall d, In d (deps G a) -> In d (alln G)).
  { intros a Ha d Hd. destruct Ha as [Ha | Ha].
    - subst. right. rewrite forallb_forall in A4. apply memb_In. apply A4. assumption.
    - rewrite forallb_forall in A3. specialize (A3 a Ha). rewrite forallb_forall in A3. specialize (A3 d Hd).
      apply Nat.ltb_lt in A3. right. apply idx_In. pose proof (idx_le a (nodes G)). lia. }
  constructor.
  - apply nodupb_NoDup. assumption.
  - apply negb_true_iff in A2. apply memb_false in A2. assumption.
  - intros a Ha d Hd. rewrite forallb_forall in A3. specialize (A3 a Ha). rewrite forallb_forall in A3.
    apply Nat.ltb_lt. apply A3. assumption.
  - intros d Hd. rewrite forallb_forall in A4. apply memb_In. apply A4. assumption.
  - apply negb_true_iff in A5. intro E. rewrite E in A5. simpl in A5. discriminate.
  - intros a b Ha Hb.
    destruct (in_dec Nat.eq_dec b (trig G a)) as [I | I].
    + rewrite forallb_forall in A6. specialize (A6 a Ha). rewrite forallb_forall in A6. apply Nat.eqb_eq. apply A6. assumption.
    + destruct (in_dec Nat.eq_dec a (deps G b)) as [J | J].
      * rewrite forallb_forall in A6'. specialize (A6' b Hb). rewrite forallb_forall in A6'. apply Nat.eqb_eq. apply A6'. assumption.
      * rewrite !countb_notin; auto.
  - intros a Ha b Hb. rewrite forallb_forall in A7. specialize (A7 a Ha). rewrite forallb_forall in A7. apply memb_In. apply A7. assumption.
  - apply nilb_nil. assumption.
  - intros b Hb. rewrite forallb_forall in A9. apply Nat.eqb_eq. apply A9. assumption.
  - intros a Ha. rewrite forallb_forall in A10. specialize (A10 a Ha). apply negb_true_iff in A10. intro E. rewrite E in A10. discriminate.
Qed.
