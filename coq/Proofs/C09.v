(* C09: the implementation model (State + frame stack + bit masks) refines the reference semantics.
   Everything is proved about the open-recursive step functions; the fuelled functions follow by induction. *)
From Coq Require Import List String ZArith NArith Bool Lia.
Import ListNotations.
Require Import Verif.Model.C09_Types Verif.Model.C09 Verif.Proofs.C09_Frames.
Open Scope string_scope.
Open Scope list_scope.

(* ---------------------------------------------------------------- premises, unfolded *)
Lemma ops_eqb_eq a b : ops_eqb a b = true -> a = b.
Proof.
  unfold ops_eqb. revert b. induction a as [|x a IH]; intros [|y b] H; try discriminate; [reflexivity|].
  destruct x, y; try discriminate; f_equal; apply IH; exact H.
Qed.

Lemma cfg_ok_inv cfg : cfg_ok cfg = true ->
  cfg_or_pre cfg = [OpPush] /\ cfg_or_ok cfg = [OpMerge] /\ cfg_or_fail cfg = [OpPop] /\
  cfg_not_pre cfg = [OpPush] /\ cfg_not_post cfg = [OpPop] /\ cfg_merge_propagates cfg = true.
Proof.
  unfold cfg_ok. intro H. repeat (apply andb_true_iff in H as [H ?]).
  repeat split; try (apply ops_eqb_eq; assumption); assumption.
Qed.

Lemma wf_or mapping ps : wf_pat_b mapping (POr ps) = true -> Forall (fun q => wf_pat_b mapping q = true) ps.
Proof.
  simpl. induction ps as [|q ps IH]; intro H; constructor.
  - apply andb_true_iff in H as [H _]. exact H.
  - apply IH. apply andb_true_iff in H as [_ H]. exact H.
Qed.
Lemma wf_node mapping ty fs :
  wf_pat_b mapping (PNode ty fs) = true -> Forall (fun nf => wf_pat_b mapping (snd nf) = true) fs.
Proof.
  simpl. induction fs as [|[n q] fs IH]; intro H; constructor.
  - apply andb_true_iff in H as [H _]. exact H.
  - apply IH. apply andb_true_iff in H as [_ H]. exact H.
Qed.

Lemma wf_ta_pre mapping k arg q :
  wf_pat_b mapping arg = true -> ta_pre k arg = Some q -> wf_pat_b mapping q = true.
Proof.
  unfold ta_pre. intros Hw H.
  destruct (String.eqb k "Symbol"); [inversion H; reflexivity|].
  destruct (String.eqb k "Builtin"); [inversion H; subst; simpl; rewrite Hw; reflexivity|].
  destruct (String.eqb k "Object"); [inversion H; subst; simpl; rewrite Hw; reflexivity|].
  destruct (String.eqb k "IntegerLiteral"); [inversion H; reflexivity|discriminate].
Qed.

Section Sim.
Variable cfg : matcher_cfg.
Variable orc : oracle.
Variable mapping : list string.
Variable arec : val -> val -> ares.
Hypothesis Hcfg : cfg_ok cfg = true.
Hypothesis Hlen : List.length mapping <= 64.

Let Hpre := proj1 (cfg_ok_inv cfg Hcfg).
Let Hok := proj1 (proj2 (cfg_ok_inv cfg Hcfg)).
Let Hfail := proj1 (proj2 (proj2 (cfg_ok_inv cfg Hcfg))).
Let Hnpre := proj1 (proj2 (proj2 (proj2 (cfg_ok_inv cfg Hcfg)))).
Let Hnpost := proj1 (proj2 (proj2 (proj2 (proj2 (cfg_ok_inv cfg Hcfg))))).
Let Hprop := proj2 (proj2 (proj2 (proj2 (proj2 (cfg_ok_inv cfg Hcfg))))).

(* what one implementation step must satisfy relative to the reference step: the frames below the top
   one are untouched, the top frame still describes the bindings made since it was pushed, and the
   outcome is the reference outcome; on success value and State coincide *)
Definition post (B : state) (rest : list N) (ri : res mstate) (rs : res state) : Prop :=
  match ri with
  | RFuel | RPanic => True
  | RDone ok v (S', stk) =>
      exists f', stk = f' :: rest /\ frame_inv mapping B S' f' /\
        exists vs Ss, rs = RDone ok vs Ss /\ (ok = true -> vs = v /\ Ss = S')
  end.

Definition sim (ri : recfn) (rs : srecfn) : Prop :=
  forall p r S f rest B, wf_pat_b mapping p = true -> frame_inv mapping B S f ->
    post B rest (ri p r (S, f :: rest)) (rs p r S).

Lemma post_done B rest ok v S f vs Ss :
  frame_inv mapping B S f -> (ok = true -> vs = v /\ Ss = S) ->
  post B rest (RDone ok v (S, f :: rest)) (RDone ok vs Ss).
Proof. intros H1 H2. simpl. exists f. split; [reflexivity|]. split; [exact H1|]. exists vs, Ss. auto. Qed.

Lemma post_same B rest ok v S f : frame_inv mapping B S f -> post B rest (RDone ok v (S, f :: rest)) (RDone ok v S).
Proof. intro H. apply post_done; auto. Qed.

(* ---- frame operations under cfg_ok *)
Lemma run_push S stk : run_ops cfg mapping [OpPush] (S, stk) = Some (S, 0%N :: stk).
Proof. reflexivity. Qed.
Lemma run_pop S f stk : run_ops cfg mapping [OpPop] (S, f :: stk) = Some (pop_state mapping f S, stk).
Proof. reflexivity. Qed.
Lemma run_merge S f1 f stk : run_ops cfg mapping [OpMerge] (S, f1 :: f :: stk) = Some (S, N.lor f f1 :: stk).
Proof. simpl. unfold run_op. simpl. rewrite Hprop. reflexivity. Qed.

Variable ri : recfn.
Variable rs : srecfn.
Hypothesis Hsim : sim ri rs.

(* ---- Or *)
Lemma sim_or ps : Forall (fun q => wf_pat_b mapping q = true) ps ->
  forall r S f rest B, frame_inv mapping B S f ->
    post B rest (or_loop cfg mapping ri ps r (S, f :: rest)) (s_or rs ps r S).
Proof.
  induction ps as [|p ps IH]; intros Hwf r S f rest B Hinv.
  - simpl or_loop. simpl s_or. apply post_same. exact Hinv.
  - inversion Hwf as [|? ? Hp Hps]; subst. simpl or_loop. rewrite Hpre, run_push.
    pose proof (Hsim p r S 0%N (f :: rest) S Hp (frame_inv_push mapping S (frame_inv_nodup mapping B S f Hinv))) as H.
    simpl s_or. destruct (ri p r (S, 0%N :: f :: rest)) as [| |ok v [S1 stk1]]; simpl; auto.
    simpl in H. destruct H as [f1 [-> [Hinv1 [vs [Ss [Hrs Heq]]]]]]. rewrite Hrs.
    destruct ok.
    + rewrite Hok, run_merge. destruct (Heq eq_refl) as [-> ->].
      apply post_same. eapply frame_inv_merge; eassumption.
    + rewrite Hfail, run_pop. rewrite (frame_inv_pop mapping S S1 f1 Hinv1). apply IH; assumption.
Qed.

(* ---- struct node fields *)
Lemma sim_fields fs : Forall (fun nf => wf_pat_b mapping (snd nf) = true) fs ->
  forall fsb b S f rest B, frame_inv mapping B S f ->
    post B rest (fields_loop ri fs fsb b (S, f :: rest)) (s_fields rs fs fsb b S).
Proof.
  induction fs as [|[n pf] fs IH]; intros Hwf fsb b S f rest B Hinv.
  - simpl. apply post_same. exact Hinv.
  - inversion Hwf as [|? ? Hp Hps]; subst. simpl in Hp. simpl fields_loop. simpl s_fields.
    destruct (assoc n fsb) as [bf|]; [|exact I].
    assert (Hgen : post B rest
      match ri pf bf (S, f :: rest) with
      | RDone true _ m1 => fields_loop ri fs fsb b m1
      | RDone false _ m1 => RDone false VNil m1
      | e => e end
      match rs pf bf S with
      | RDone true _ s1 => s_fields rs fs fsb b s1
      | RDone false _ _ => RDone false VNil S
      | e => e end).
    { pose proof (Hsim pf bf S f rest B Hp Hinv) as H.
      destruct (ri pf bf (S, f :: rest)) as [| |ok v [S1 stk1]]; simpl; auto.
      simpl in H. destruct H as [f1 [-> [Hinv1 [vs [Ss [Hrs Heq]]]]]]. rewrite Hrs. destruct ok.
      - destruct (Heq eq_refl) as [_ ->]. apply IH; assumption.
      - apply post_done; [exact Hinv1|discriminate]. }
    destruct pf; try exact Hgen.
    destruct (is_vnil bf); [apply post_same|apply post_same]; exact Hinv.
Qed.

(* ---- one step *)
Lemma wf_binding name idx sub :
  wf_pat_b mapping (PBinding name idx sub) = true ->
  nth_error mapping idx = Some name /\ idx < 64 /\ wf_pat_b mapping sub = true.
Proof.
  simpl. intro H. apply andb_true_iff in H as [H1 H2].
  destruct (nth_error mapping idx) as [n|] eqn:E; [|discriminate].
  apply String.eqb_eq in H1. subst n. split; [reflexivity|]. split; [|exact H2].
  assert (idx < List.length mapping) by (apply nth_error_Some; rewrite E; discriminate). lia.
Qed.

Lemma sim_store name idx sub r S f rest B :
  nth_error mapping idx = Some name -> idx < 64 -> wf_pat_b mapping sub = true ->
  frame_inv mapping B S f -> lookup name S = None ->
  post B rest
    match ri sub r (S, f :: rest) with
    | RDone true v m1 => match do_set name idx v m1 with Some m2 => RDone true v m2 | None => RPanic end
    | e => e end
    match rs sub r S with
    | RDone true v s1 => RDone true v (set_st name v s1)
    | RDone false _ _ => RDone false VNil S
    | e => e end.
Proof.
  intros Hidx H64 Hw Hinv Hl.
  pose proof (Hsim sub r S f rest B Hw Hinv) as H.
  destruct (ri sub r (S, f :: rest)) as [| |ok v [S1 stk1]]; simpl; auto.
  simpl in H. destruct H as [f1 [-> [Hinv1 [vs [Ss [Hrs Heq]]]]]]. rewrite Hrs. destruct ok.
  - destruct (Heq eq_refl) as [-> ->]. unfold do_set. simpl. apply post_same.
    apply frame_inv_set; try assumption.
    intro HinB. apply lookup_none_notin in Hl. apply Hl. eapply frame_inv_base_keys; eassumption.
  - apply post_done; [exact Hinv1|discriminate].
Qed.

Lemma sim_step : sim (mi_step cfg orc mapping arec ri) (ms_step cfg orc arec rs).
Proof.
  intros p r S f rest B Hwf Hinv. unfold mi_step, ms_step.
  destruct (unwrap (cfg_unwrap_right cfg) r) as [| |r'].
  2: exact I.
  2: apply Hsim; assumption.
  destruct p as [| | |s|t|name idx sub|hd tl|ps|q|ty fs|k arg].
  - (* PNone *) destruct (is_vnil r); apply post_same; exact Hinv.
  - (* PAny *) apply post_same; exact Hinv.
  - (* PNil *) destruct (nil_match r); apply post_same; exact Hinv.
  - (* PString *) destruct (string_match cfg s r) as [ok v]. apply post_same; exact Hinv.
  - (* PToken *) destruct (token_match t r) as [ok v]. apply post_same; exact Hinv.
  - (* PBinding *)
    apply wf_binding in Hwf as [Hidx [H64 Hsub]].
    unfold binding_match, s_binding. simpl fst.
    destruct (is_nilpat sub).
    + destruct (lookup name S) as [w|] eqn:El.
      * destruct (arec w r); simpl; auto. apply post_same; exact Hinv.
      * apply sim_store; auto.
    + destruct (lookup name S) as [w|] eqn:El; [exact I|]. apply sim_store; auto.
  - (* PList *)
    simpl in Hwf. apply andb_true_iff in Hwf as [Hh Ht].
    unfold list_match, s_list. destruct r; try (apply post_same; exact Hinv).
    destruct (is_nilpat hd).
    + destruct (Nat.eqb (List.length l) 0); apply post_same; exact Hinv.
    + destruct l as [|x xs]; [apply post_same; exact Hinv|].
      pose proof (Hsim hd x S f rest B Hh Hinv) as H.
      destruct (ri hd x (S, f :: rest)) as [| |ok1 v1 [S1 stk1]]; simpl; auto.
      simpl in H. destruct H as [f1 [-> [Hinv1 [vs [Ss [Hrs Heq]]]]]]. rewrite Hrs.
      pose proof (Hsim tl (VList k false xs) S1 f1 rest B Ht Hinv1) as H2.
      destruct (ri tl (VList k false xs) (S1, f1 :: rest)) as [| |ok2 v2 [S2 stk2]]; simpl; auto.
      simpl in H2. destruct H2 as [f2 [-> [Hinv2 [vs2 [Ss2 [Hrs2 Heq2]]]]]].
      destruct ok1; simpl.
      * destruct (Heq eq_refl) as [_ ->]. rewrite Hrs2. destruct ok2.
        -- destruct (Heq2 eq_refl) as [_ ->]. apply post_same; exact Hinv2.
        -- apply post_done; [exact Hinv2|discriminate].
      * apply post_done; [exact Hinv2|discriminate].
  - (* POr *) apply sim_or; [apply wf_or; exact Hwf|exact Hinv].
  - (* PNot *)
    simpl in Hwf. unfold not_match, s_not. rewrite Hnpre, run_push.
    pose proof (Hsim q r S 0%N (f :: rest) S Hwf (frame_inv_push mapping S (frame_inv_nodup mapping B S f Hinv))) as H.
    destruct (ri q r (S, 0%N :: f :: rest)) as [| |ok v [S1 stk1]]; simpl; auto.
    simpl in H. destruct H as [f1 [-> [Hinv1 [vs [Ss [Hrs Heq]]]]]]. rewrite Hrs.
    rewrite Hnpost, run_pop, (frame_inv_pop mapping S S1 f1 Hinv1).
    destruct ok; apply post_same; exact Hinv.
  - (* PNode *)
    unfold node_match, s_node.
    destruct r; try exact I; try (apply post_same; exact Hinv).
    + (* VList *)
      destruct k; try exact I;
        (destruct l as [|x [|y l']]; [apply post_same; exact Hinv | apply Hsim; assumption | apply post_same; exact Hinv]).
    + (* VNode *)
      destruct (String.eqb ty ty0); [|apply post_same; exact Hinv].
      apply sim_fields; [apply wf_node in Hwf; exact Hwf|exact Hinv].
  - (* PTypeAware *)
    simpl in Hwf. unfold ta_match, s_ta.
    assert (Hafter : forall rv S1 f1, frame_inv mapping B S1 f1 ->
      post B rest
        match o_ta orc k rv with
        | None => RDone false VNil (S1, f1 :: rest)
        | Some (resv, None) => RDone true resv (S1, f1 :: rest)
        | Some (resv, Some sv) =>
            match ri arg sv (S1, f1 :: rest) with
            | RDone true _ m2 => RDone true resv m2
            | RDone false _ m2 => RDone false VNil m2
            | e => e end
        end
        match o_ta orc k rv with
        | None => RDone false VNil S
        | Some (resv, None) => RDone true resv S1
        | Some (resv, Some sv) =>
            match rs arg sv S1 with
            | RDone true _ s2 => RDone true resv s2
            | RDone false _ _ => RDone false VNil S
            | e => e end
        end).
    { intros rv S1 f1 Hinv1. destruct (o_ta orc k rv) as [[resv [sv|]]|].
      - pose proof (Hsim arg sv S1 f1 rest B Hwf Hinv1) as H.
        destruct (ri arg sv (S1, f1 :: rest)) as [| |ok v [S2 stk2]]; simpl; auto.
        simpl in H. destruct H as [f2 [-> [Hinv2 [vs [Ss [Hrs Heq]]]]]]. rewrite Hrs. destruct ok.
        + destruct (Heq eq_refl) as [_ ->]. apply post_same; exact Hinv2.
        + apply post_done; [exact Hinv2|discriminate].
      - apply post_same; exact Hinv1.
      - apply post_done; [exact Hinv1|discriminate]. }
    destruct (ta_pre k arg) as [q|] eqn:Epre.
    + pose proof (Hsim q r S f rest B (wf_ta_pre mapping k arg q Hwf Epre) Hinv) as H.
      destruct (ri q r (S, f :: rest)) as [| |ok v [S1 stk1]]; simpl; auto.
      simpl in H. destruct H as [f1 [-> [Hinv1 [vs [Ss [Hrs Heq]]]]]]. rewrite Hrs. destruct ok.
      * destruct (Heq eq_refl) as [-> ->]. apply Hafter. exact Hinv1.
      * apply post_done; [exact Hinv1|discriminate].
    + apply Hafter. exact Hinv.
Qed.
End Sim.

(* ---------------------------------------------------------------- the fuelled functions *)
Lemma sim_fuel cfg orc mapping af :
  cfg_ok cfg = true -> List.length mapping <= 64 ->
  forall fuel, sim mapping (mi cfg orc mapping af fuel) (ms cfg orc af fuel).
Proof.
  intros Hcfg Hlen. induction fuel as [|fuel IH].
  - intros p r S f rest B _ _. exact I.
  - simpl mi. simpl ms. apply sim_step; assumption.
Qed.

(* Whatever Matcher.Match returns without panicking is what the reference semantics returns; on success
   with the same value and the same State. *)
Theorem impl_agrees_gen cfg orc mapping af fuel p t ok v sigma :
  cfg_ok cfg = true -> List.length mapping <= 64 -> wf_pat_b mapping p = true ->
  run_impl cfg orc mapping af fuel p t = RDone ok v sigma ->
  exists vs ss, run_spec cfg orc af fuel p t = RDone ok vs ss /\ (ok = true -> vs = v /\ ss = sigma).
Proof.
  intros Hcfg Hlen Hwf. unfold run_impl, run_spec.
  pose proof (sim_fuel cfg orc mapping af Hcfg Hlen fuel p t [] 0%N [] [] Hwf
                (frame_inv_push mapping [] (NoDup_nil _))) as H.
  destruct (mi cfg orc mapping af fuel p t ([], [0%N])) as [| |ok' v' [S' stk]] eqn:E0;
    try (intro; discriminate).
  unfold state in H, E0. rewrite E0 in H. simpl in H. destruct H as [f' [-> [_ [vs [Ss [Hrs Heq]]]]]]. intro E. inversion E; subst.
  exists vs, Ss. split; assumption.
Qed.

Theorem impl_sound_gen cfg orc mapping af fuel p t v sigma :
  cfg_ok cfg = true -> List.length mapping <= 64 -> wf_pat_b mapping p = true ->
  run_impl cfg orc mapping af fuel p t = RDone true v sigma ->
  run_spec cfg orc af fuel p t = RDone true v sigma.
Proof.
  intros Hcfg Hlen Hwf H.
  destruct (impl_agrees_gen _ _ _ _ _ _ _ _ _ _ Hcfg Hlen Hwf H) as [vs [ss [Hs Heq]]].
  destruct (Heq eq_refl) as [-> ->]. exact Hs.
Qed.

Lemma idx_inj_b_inv mapping p : idx_inj_b mapping p = true ->
  List.length mapping <= 64 /\ wf_pat_b mapping p = true.
Proof.
  unfold idx_inj_b. intro H. apply andb_true_iff in H as [H H2]. apply andb_true_iff in H as [_ H1].
  split; [apply Nat.leb_le; exact H1|exact H2].
Qed.

(* ---------------------------------------------------------------- or_atomic *)
Lemma s_or_inv (rs : srecfn) ps r S v S' :
  s_or rs ps r S = RDone true v S' ->
  exists pre q post, ps = pre ++ q :: post /\
    Forall (fun q' => exists v' s', rs q' r S = RDone false v' s') pre /\ rs q r S = RDone true v S'.
Proof.
  induction ps as [|p ps IH]; simpl; intro H; [discriminate|].
  destruct (rs p r S) as [| |ok v0 s0] eqn:E; try discriminate. destruct ok.
  - inversion H; subst. exists [], p, ps. repeat split; auto.
  - destruct (IH H) as [pre [q [post [-> [Hpre Hq]]]]]. exists (p :: pre), q, post.
    repeat split; auto. constructor; [exists v0, s0; exact E|exact Hpre].
Qed.

(* An Or that succeeds anywhere inside a match (any State, any frame stack that describes it) ends in
   exactly the State its first matching alternative produces when run ALONE from the State before the
   Or: nothing bound by the failed alternatives before it is visible. *)
Theorem or_atomic_gen cfg orc mapping af fuel ps r st f rest B v st' stk :
  cfg_ok cfg = true -> List.length mapping <= 64 -> wf_pat_b mapping (POr ps) = true ->
  frame_inv mapping B st f -> unwrap (cfg_unwrap_right cfg) r = UNo ->
  mi cfg orc mapping af (S fuel) (POr ps) r (st, f :: rest) = RDone true v (st', stk) ->
  exists pre q post, ps = pre ++ q :: post /\
    Forall (fun q' => exists v' s', ms cfg orc af fuel q' r st = RDone false v' s') pre /\
    ms cfg orc af fuel q r st = RDone true v st'.
Proof.
  intros Hcfg Hlen Hwf Hinv Hu H.
  pose proof (sim_fuel cfg orc mapping af Hcfg Hlen (S fuel) (POr ps) r st f rest B Hwf Hinv) as Hp.
  rewrite H in Hp. simpl in Hp. destruct Hp as [f' [_ [_ [vs [Ss [Hrs Heq]]]]]].
  destruct (Heq eq_refl) as [-> ->]. unfold ms_step in Hrs. rewrite Hu in Hrs.
  apply s_or_inv. exact Hrs.
Qed.

(* ---------------------------------------------------------------- not_no_leak *)
(* Whatever the operand of a Not did, after the Not neither the State nor the frame stack has changed. *)
Theorem not_no_leak_gen cfg orc mapping af fuel q r st f rest B ok v m' :
  cfg_ok cfg = true -> List.length mapping <= 64 -> wf_pat_b mapping (PNot q) = true ->
  frame_inv mapping B st f -> unwrap (cfg_unwrap_right cfg) r = UNo ->
  mi cfg orc mapping af (S fuel) (PNot q) r (st, f :: rest) = RDone ok v m' ->
  m' = (st, f :: rest).
Proof.
  intros Hcfg Hlen Hwf Hinv Hu. simpl mi. unfold mi_step. rewrite Hu. unfold not_match.
  destruct (cfg_ok_inv cfg Hcfg) as [_ [_ [_ [Hnpre [Hnpost _]]]]]. rewrite Hnpre. simpl run_ops.
  simpl in Hwf.
  pose proof (sim_fuel cfg orc mapping af Hcfg Hlen fuel q r st 0%N (f :: rest) st Hwf
                (frame_inv_push mapping st (frame_inv_nodup mapping B st f Hinv))) as Hp.
  unfold state in *.
  destruct (mi cfg orc mapping af fuel q r (st, 0%N :: f :: rest)) as [| |ok' v' [st1 stk1]];
    try (intro; discriminate).
  simpl in Hp. destruct Hp as [f1 [-> [Hinv1 _]]]. rewrite Hnpost. simpl run_ops.
  rewrite (frame_inv_pop mapping st st1 f1 Hinv1). destruct ok'; intro E; inversion E; reflexivity.
Qed.

(* ---------------------------------------------------------------- pop_only_own *)
Lemma lookup_filter_keys (P : string -> bool) n (s : state) :
  lookup n (filter (fun kv => negb (P (fst kv))) s) = if P n then None else lookup n s.
Proof.
  unfold lookup. induction s as [|[k w] s IH]; simpl.
  - destruct (P n); reflexivity.
  - destruct (P k) eqn:Ek; simpl.
    + rewrite IH. destruct (String.eqb k n) eqn:E; [|reflexivity].
      apply String.eqb_eq in E. subst. rewrite Ek. reflexivity.
    + destruct (String.eqb k n) eqn:E; [|exact IH].
      apply String.eqb_eq in E. subst. rewrite Ek. reflexivity.
Qed.

Lemma in_frame_bit mapping f i n :
  NoDup mapping -> nth_error mapping i = Some n -> in_frame mapping f n = N.testbit f (N.of_nat i).
Proof.
  intros Hnd Hn. destruct (N.testbit f (N.of_nat i)) eqn:E.
  - apply in_frame_true. exists i. auto.
  - destruct (in_frame mapping f n) eqn:E2; [|reflexivity].
    apply in_frame_true in E2 as [j [Hj Hnj]].
    assert (j = i).
    { apply (proj1 (NoDup_nth_error mapping) Hnd).
      - apply nth_error_Some. rewrite Hnj. discriminate.
      - rewrite Hnj, Hn. reflexivity. }
    subst. rewrite Hj in E. discriminate.
Qed.

(* pop deletes exactly the names whose bit is set in the popped frame (this is where two names sharing
   an index break the matcher) *)
Theorem pop_only_own_gen mapping f st i n :
  NoDup mapping -> nth_error mapping i = Some n ->
  lookup n (pop_state mapping f st) = if N.testbit f (N.of_nat i) then None else lookup n st.
Proof.
  intros Hnd Hn. rewrite pop_state_filter, (lookup_filter_keys (in_frame mapping f)).
  rewrite (in_frame_bit mapping f i n Hnd Hn). reflexivity.
Qed.
(* names outside Pattern.Bindings are never deleted *)
Theorem pop_keeps_foreign mapping f st n :
  ~ In n mapping -> lookup n (pop_state mapping f st) = lookup n st.
Proof.
  intro H. rewrite pop_state_filter, (lookup_filter_keys (in_frame mapping f)).
  destruct (in_frame mapping f n) eqn:E; [|reflexivity].
  apply in_frame_true in E as [i [_ Hi]]. exfalso. apply H. eapply nth_error_In. exact Hi.
Qed.

(* ---------------------------------------------------------------- rebind_equal *)
(* A recall (bare name, already bound) succeeds only if the stored subtree matches the candidate under the
   matcher's value-against-value comparison, and it changes nothing. *)
Theorem rebind_equal_spec cfg orc af fuel n idx sub r st w v st' :
  is_nilpat sub = true -> lookup n st = Some w -> unwrap (cfg_unwrap_right cfg) r = UNo ->
  ms cfg orc af (S fuel) (PBinding n idx sub) r st = RDone true v st' ->
  am cfg orc af w r = ADone true v /\ st' = st.
Proof.
  intros Hn Hl Hu. simpl ms. unfold ms_step. rewrite Hu. unfold s_binding. rewrite Hn, Hl.
  destruct (am cfg orc af w r) as [| |ok v0]; simpl; try discriminate.
  intro E. inversion E; subst. auto.
Qed.
Theorem rebind_equal_impl cfg orc mapping af fuel n idx sub r m w v m' :
  is_nilpat sub = true -> lookup n (fst m) = Some w -> unwrap (cfg_unwrap_right cfg) r = UNo ->
  mi cfg orc mapping af (S fuel) (PBinding n idx sub) r m = RDone true v m' ->
  am cfg orc af w r = ADone true v /\ m' = m.
Proof.
  intros Hn Hl Hu. simpl mi. unfold mi_step. rewrite Hu. unfold binding_match. rewrite Hn, Hl.
  destruct (am cfg orc af w r) as [| |ok v0]; simpl; try discriminate.
  intro E. inversion E; subst. auto.
Qed.
