(* C09 Proofs (under construction) *)
Require Import Verif.Model.C09_Types Verif.Model.C09.
