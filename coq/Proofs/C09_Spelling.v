(* C09: `name` / `(Binding "name" nil)` and `name@pat` / `(Binding "name" pat)` are interchangeable:
   patterns that agree up to norm_pat behave identically in the implementation model and in the
   reference semantics (the parser must give both spellings the same index: checked on every case). *)
From Coq Require Import List String ZArith NArith Bool.
Import ListNotations.
Require Import Verif.Model.C09_Types Verif.Model.C09.
Open Scope string_scope.
Open Scope list_scope.

Lemma is_nilpat_norm p : is_nilpat (norm_pat p) = is_nilpat p.
Proof. destruct p; reflexivity. Qed.

Definition bsub (sub : pat) : pat := match sub with PNil => PNone | _ => norm_pat sub end.
Lemma is_nilpat_bsub sub : is_nilpat (bsub sub) = is_nilpat sub.
Proof. destruct sub; reflexivity. Qed.
Lemma bsub_not_nil sub : is_nilpat sub = false -> bsub sub = norm_pat sub.
Proof. destruct sub; try reflexivity; discriminate. Qed.

Lemma ta_pre_norm k arg : ta_pre k (norm_pat arg) = option_map norm_pat (ta_pre k arg).
Proof.
  unfold ta_pre.
  destruct (String.eqb k "Symbol"); [reflexivity|].
  destruct (String.eqb k "Builtin"); [reflexivity|].
  destruct (String.eqb k "Object"); [reflexivity|].
  destruct (String.eqb k "IntegerLiteral"); reflexivity.
Qed.

Section ImplNorm.
Variable cfg : matcher_cfg.
Variable orc : oracle.
Variable mapping : list string.
Variable arec : val -> val -> ares.
Variable rec : recfn.
Hypothesis Hrec : forall p r m, rec (norm_pat p) r m = rec p r m.

Lemma or_loop_norm ps r m :
  or_loop cfg mapping rec (map norm_pat ps) r m = or_loop cfg mapping rec ps r m.
Proof.
  revert m. induction ps as [|p ps IH]; intro m; simpl; [reflexivity|].
  destruct (run_ops cfg mapping (cfg_or_pre cfg) m) as [m0|]; [|reflexivity].
  rewrite Hrec. destruct (rec p r m0) as [| |ok v m1]; try reflexivity.
  destruct ok; [reflexivity|]. destruct (run_ops cfg mapping (cfg_or_fail cfg) m1); [apply IH|reflexivity].
Qed.

Lemma fields_loop_norm fs fsb b m :
  fields_loop rec (map (fun nf => (fst nf, norm_pat (snd nf))) fs) fsb b m = fields_loop rec fs fsb b m.
Proof.
  revert m. induction fs as [|[n pf] fs IH]; intro m; simpl; [reflexivity|].
  destruct (assoc n fsb) as [bf|]; [|reflexivity].
  assert (Hgen : match rec (norm_pat pf) bf m with
                 | RDone true _ m1 => fields_loop rec (map (fun nf => (fst nf, norm_pat (snd nf))) fs) fsb b m1
                 | RDone false _ m1 => RDone false VNil m1
                 | e => e end =
                 match rec pf bf m with
                 | RDone true _ m1 => fields_loop rec fs fsb b m1
                 | RDone false _ m1 => RDone false VNil m1
                 | e => e end).
  { rewrite Hrec. destruct (rec pf bf m) as [| |ok v m1]; try reflexivity. destruct ok; [apply IH|reflexivity]. }
  destruct pf; try exact Hgen. reflexivity.
Qed.

Lemma mi_step_norm p r m :
  mi_step cfg orc mapping arec rec (norm_pat p) r m = mi_step cfg orc mapping arec rec p r m.
Proof.
  unfold mi_step. destruct (unwrap (cfg_unwrap_right cfg) r) as [| |r']; [|reflexivity|apply Hrec].
  destruct p as [| | |s|t|name idx sub|hd tl|ps|q|ty fs|k arg]; try reflexivity.
  - (* PBinding *)
    simpl norm_pat. fold (bsub sub). unfold binding_match. rewrite is_nilpat_bsub.
    destruct (is_nilpat sub) eqn:E; [reflexivity|]. rewrite (bsub_not_nil sub E), Hrec. reflexivity.
  - (* PList *)
    simpl norm_pat. unfold list_match. destruct r; try reflexivity. rewrite is_nilpat_norm.
    destruct (is_nilpat hd); [reflexivity|]. destruct l as [|x xs]; [reflexivity|].
    rewrite Hrec. destruct (rec hd x m) as [| |ok1 v1 m1]; try reflexivity. rewrite Hrec. reflexivity.
  - (* POr *) simpl norm_pat. apply or_loop_norm.
  - (* PNot *) simpl norm_pat. unfold not_match. destruct (run_ops cfg mapping (cfg_not_pre cfg) m); [|reflexivity].
    rewrite Hrec. reflexivity.
  - (* PNode *)
    simpl norm_pat. unfold node_match. destruct r; try reflexivity.
    + destruct k; try reflexivity;
        (destruct l as [|x [|y l']]; try reflexivity;
         change (PNode ty (map (fun nf => (fst nf, norm_pat (snd nf))) fs)) with (norm_pat (PNode ty fs)); apply Hrec).
    + destruct (String.eqb ty ty0); [apply fields_loop_norm|reflexivity].
  - (* PTypeAware *)
    simpl norm_pat. unfold ta_match. rewrite ta_pre_norm.
    assert (Hafter : forall rv m1,
      match o_ta orc k rv with
      | None => RDone false VNil m1
      | Some (resv, None) => RDone true resv m1
      | Some (resv, Some sv) => match rec (norm_pat arg) sv m1 with
                                | RDone true _ m2 => RDone true resv m2
                                | RDone false _ m2 => RDone false VNil m2
                                | e => e end
      end =
      match o_ta orc k rv with
      | None => RDone false VNil m1
      | Some (resv, None) => RDone true resv m1
      | Some (resv, Some sv) => match rec arg sv m1 with
                                | RDone true _ m2 => RDone true resv m2
                                | RDone false _ m2 => RDone false VNil m2
                                | e => e end
      end).
    { intros rv m1. destruct (o_ta orc k rv) as [[resv [sv|]]|]; try reflexivity. rewrite Hrec. reflexivity. }
    destruct (ta_pre k arg) as [q|]; simpl.
    + rewrite Hrec. destruct (rec q r m) as [| |ok v m1]; try reflexivity. destruct ok; [apply Hafter|reflexivity].
    + apply Hafter.
Qed.
End ImplNorm.

Section SpecNorm.
Variable cfg : matcher_cfg.
Variable orc : oracle.
Variable arec : val -> val -> ares.
Variable rec : srecfn.
Hypothesis Hrec : forall p r s, rec (norm_pat p) r s = rec p r s.

Lemma s_or_norm ps r s : s_or rec (map norm_pat ps) r s = s_or rec ps r s.
Proof.
  induction ps as [|p ps IH]; simpl; [reflexivity|].
  rewrite Hrec. destruct (rec p r s) as [| |ok v s1]; try reflexivity. destruct ok; [reflexivity|apply IH].
Qed.

Lemma s_fields_norm fs fsb b s :
  s_fields rec (map (fun nf => (fst nf, norm_pat (snd nf))) fs) fsb b s = s_fields rec fs fsb b s.
Proof.
  revert s. induction fs as [|[n pf] fs IH]; intro s; simpl; [reflexivity|].
  destruct (assoc n fsb) as [bf|]; [|reflexivity].
  assert (Hgen : match rec (norm_pat pf) bf s with
                 | RDone true _ s1 => s_fields rec (map (fun nf => (fst nf, norm_pat (snd nf))) fs) fsb b s1
                 | RDone false _ _ => RDone false VNil s
                 | e => e end =
                 match rec pf bf s with
                 | RDone true _ s1 => s_fields rec fs fsb b s1
                 | RDone false _ _ => RDone false VNil s
                 | e => e end).
  { rewrite Hrec. destruct (rec pf bf s) as [| |ok v s1]; try reflexivity. destruct ok; [apply IH|reflexivity]. }
  destruct pf; try exact Hgen. reflexivity.
Qed.

Lemma ms_step_norm p r s : ms_step cfg orc arec rec (norm_pat p) r s = ms_step cfg orc arec rec p r s.
Proof.
  unfold ms_step. destruct (unwrap (cfg_unwrap_right cfg) r) as [| |r']; [|reflexivity|apply Hrec].
  destruct p as [| | |str|t|name idx sub|hd tl|ps|q|ty fs|k arg]; try reflexivity.
  - simpl norm_pat. fold (bsub sub). unfold s_binding. rewrite is_nilpat_bsub.
    destruct (is_nilpat sub) eqn:E; [reflexivity|]. rewrite (bsub_not_nil sub E), Hrec. reflexivity.
  - simpl norm_pat. unfold s_list. destruct r; try reflexivity. rewrite is_nilpat_norm.
    destruct (is_nilpat hd); [reflexivity|]. destruct l as [|x xs]; [reflexivity|].
    rewrite Hrec. destruct (rec hd x s) as [| |ok1 v1 s1]; try reflexivity. destruct ok1; [|reflexivity].
    rewrite Hrec. reflexivity.
  - simpl norm_pat. apply s_or_norm.
  - simpl norm_pat. unfold s_not. rewrite Hrec. reflexivity.
  - simpl norm_pat. unfold s_node. destruct r; try reflexivity.
    + destruct k; try reflexivity;
        (destruct l as [|x [|y l']]; try reflexivity;
         change (PNode ty (map (fun nf => (fst nf, norm_pat (snd nf))) fs)) with (norm_pat (PNode ty fs)); apply Hrec).
    + destruct (String.eqb ty ty0); [apply s_fields_norm|reflexivity].
  - simpl norm_pat. unfold s_ta. rewrite ta_pre_norm.
    assert (Hafter : forall rv s1,
      match o_ta orc k rv with
      | None => RDone false VNil s
      | Some (resv, None) => RDone true resv s1
      | Some (resv, Some sv) => match rec (norm_pat arg) sv s1 with
                                | RDone true _ s2 => RDone true resv s2
                                | RDone false _ _ => RDone false VNil s
                                | e => e end
      end =
      match o_ta orc k rv with
      | None => RDone false VNil s
      | Some (resv, None) => RDone true resv s1
      | Some (resv, Some sv) => match rec arg sv s1 with
                                | RDone true _ s2 => RDone true resv s2
                                | RDone false _ _ => RDone false VNil s
                                | e => e end
      end).
    { intros rv s1. destruct (o_ta orc k rv) as [[resv [sv|]]|]; try reflexivity. rewrite Hrec. reflexivity. }
    destruct (ta_pre k arg) as [q|]; simpl.
    + rewrite Hrec. destruct (rec q r s) as [| |ok v s1]; try reflexivity. destruct ok; [apply Hafter|reflexivity].
    + apply Hafter.
Qed.
End SpecNorm.

Lemma mi_norm cfg orc mapping af fuel : forall p r m,
  mi cfg orc mapping af fuel (norm_pat p) r m = mi cfg orc mapping af fuel p r m.
Proof.
  induction fuel as [|fuel IH]; intros p r m; [reflexivity|]. simpl. apply mi_step_norm. exact IH.
Qed.
Lemma ms_norm cfg orc af fuel : forall p r s,
  ms cfg orc af fuel (norm_pat p) r s = ms cfg orc af fuel p r s.
Proof.
  induction fuel as [|fuel IH]; intros p r s; [reflexivity|]. simpl. apply ms_step_norm. exact IH.
Qed.

(* Two parsed patterns that agree up to the spelling of their bindings behave identically. *)
Theorem spellings_equal_gen cfg orc mapping af fuel p1 p2 t :
  norm_pat p1 = norm_pat p2 ->
  run_impl cfg orc mapping af fuel p1 t = run_impl cfg orc mapping af fuel p2 t /\
  run_spec cfg orc af fuel p1 t = run_spec cfg orc af fuel p2 t.
Proof.
  intro H. unfold run_impl, run_spec. split.
  - rewrite <- (mi_norm cfg orc mapping af fuel p1), <- (mi_norm cfg orc mapping af fuel p2), H. reflexivity.
  - rewrite <- (ms_norm cfg orc af fuel p1), <- (ms_norm cfg orc af fuel p2), H. reflexivity.
Qed.
