(* C18 — proofs about the once-guard and the mutex-guarded memo table (Model/C18_Sync.v). *)
From Coq Require Import List Arith Bool Lia.
Import ListNotations.
Require Import Verif.Model.C18 Verif.Model.C18_Sync Verif.Proofs.C18_Task.

Lemma nupd_same : forall A (f : nat -> A) k v, nupd f k v k = v.
Proof. intros. unfold nupd. rewrite Nat.eqb_refl. reflexivity. Qed.

(* ===================== B. once-guard ===================== *)
Record OInv (s : ostate) : Prop := {
  oi_new : o_phase s = ONew -> o_runs s = 0 /\ forall c, o_pc s c = CIdle;
  oi_running : forall c, o_phase s = ORunning c -> o_runs s = 1 /\ o_pc s c = CRunning;
  oi_done : o_phase s = ODone -> o_runs s = 1;
  oi_ret : forall c, o_pc s c = CReturned -> o_phase s = ODone
}.

Lemma cpc_eqb_eq : forall a b, cpc_eqb a b = true <-> a = b.
Proof. destruct a, b; cbn; split; intros; congruence. Qed.

Lemma oinit_inv : OInv oinit.
Proof. constructor; cbn; intros; try discriminate; auto. Qed.

Lemma ostep_inv : forall s l s', OInv s -> ostep s l = Some s' -> OInv s'.
Proof.
  intros s l s' [I1 I2 I3 I4] Hs. unfold ostep in Hs. destruct (oguard s l) eqn:G; [|discriminate].
  injection Hs as <-. destruct l as [c|c|c]; cbn [oguard oeffect] in *.
  - apply cpc_eqb_eq in G. destruct (o_phase s) as [|c'|] eqn:P.
    + destruct (I1 eq_refl) as [R A]. constructor; cbn.
      * discriminate.
      * intros c1 H. injection H as H. subst c1. rewrite R. split; [reflexivity | apply nupd_same].
      * discriminate.
      * intros c1 H. unfold nupd in H. destruct (Nat.eqb c1 c); [discriminate|]. rewrite A in H. discriminate.
    + destruct (I2 c' eq_refl) as [R A]. constructor; cbn.
      * discriminate.
      * intros c1 H. injection H as H. subst c1. split; [assumption|]. unfold nupd. destruct (Nat.eqb c' c) eqn:E; [|assumption].
        apply Nat.eqb_eq in E. subst. congruence.
      * discriminate.
      * intros c1 H. unfold nupd in H. destruct (Nat.eqb c1 c); [discriminate|]. apply I4 in H. discriminate.
    + constructor; cbn.
      * discriminate.
      * discriminate.
      * intros _. apply I3. reflexivity.
      * reflexivity.
  - destruct (o_phase s) as [|c'|] eqn:P; try discriminate. destruct (I2 c' eq_refl) as [R A].
    constructor; cbn.
    * discriminate.
    * discriminate.
    * intros _. assumption.
    * reflexivity.
  - destruct (o_phase s) as [|c'|] eqn:P; try discriminate.
    constructor; cbn.
    * discriminate.
    * discriminate.
    * intros _. apply I3. reflexivity.
    * reflexivity.
Qed.

Lemma orun_inv : forall tr s s', OInv s -> orun s tr = Some s' -> OInv s'.
Proof.
  induction tr as [|l tr IH]; cbn; intros s s' HI Hr.
  - injection Hr as <-. assumption.
  - destruct (ostep s l) as [s1|] eqn:Es; [|discriminate]. eapply IH; [|exact Hr]. eapply ostep_inv; eauto.
Qed.

Theorem build_idempotent_any :
  forall tr s, orun oinit tr = Some s ->
    o_runs s <= 1 /\ forall c, o_pc s c = CReturned -> o_phase s = ODone /\ o_runs s = 1.
Proof.
  intros tr s Hr. destruct (orun_inv _ _ _ oinit_inv Hr) as [I1 I2 I3 I4]. split.
  - destruct (o_phase s) as [|c|] eqn:P.
    + destruct (I1 eq_refl). lia.
    + destruct (I2 c eq_refl). lia.
    + rewrite (I3 eq_refl). lia.
  - intros c Hc. pose proof (I4 c Hc) as Hd. split; [assumption | apply I3; assumption].
Qed.

(* ===================== C. memo table ===================== *)
Record MInv (s : mstate) : Prop := {
  mi_tab : forall k v, m_table s k = Some v <-> In (k, v) (m_created s);
  mi_nodup : NoDup (map fst (m_created s));
  mi_hold : forall t, m_pc s t <> MIdle -> m_lock s = Some t;
  mi_missing : forall t k, m_pc s t = MMissing k -> m_table s k = None;
  mi_got : forall t k v, m_pc s t = MGot k v -> m_table s k = Some v;
  mi_res : forall t k v, In (t, k, v) (m_results s) -> m_table s k = Some v
}.

Lemma minit_inv : MInv minit.
Proof.
  constructor; cbn; intros; try discriminate; try contradiction; try congruence.
  - split; [discriminate | contradiction].
  - constructor.
Qed.

Lemma holds_eq : forall s t, holds s t = true -> m_lock s = Some t.
Proof. unfold holds. intros s t H. destruct (m_lock s); [|discriminate]. apply Nat.eqb_eq in H. subst. reflexivity. Qed.

Lemma mstep_inv : forall s l s', MInv s -> mstep true s l = Some s' -> MInv s'.
Proof.
  intros s l s' [I1 I2 I3 I4 I5 I6] Hs. unfold mstep in Hs. destruct (mguard true s l) eqn:G; [|discriminate].
  injection Hs as <-. destruct l as [t k|t|t|t]; cbn [mguard meffect] in *.
  - (* acquire *)
    destruct (m_pc s t) eqn:P; try discriminate. destruct (m_lock s) eqn:L; [discriminate|].
    assert (forall t', m_pc s t' = MIdle) as Hall.
    { intros t'. destruct (m_pc s t') eqn:P'; auto; exfalso;
        (assert (m_pc s t' <> MIdle) as X by congruence; apply I3 in X; discriminate). }
    constructor; cbn; auto.
    + intros t' Hne. unfold nupd in Hne. destruct (Nat.eqb t' t) eqn:E.
      * apply Nat.eqb_eq in E. subst. reflexivity.
      * exfalso. apply Hne. apply Hall.
    + intros t' k'. unfold nupd. destruct (Nat.eqb t' t); [discriminate|]. rewrite Hall. discriminate.
    + intros t' k' v. unfold nupd. destruct (Nat.eqb t' t); [discriminate|]. rewrite Hall. discriminate.
  - (* lookup *)
    destruct (m_pc s t) as [|k|k|k v] eqn:P; try discriminate. apply holds_eq in G.
    constructor; cbn; auto.
    + intros t' Hne. unfold nupd in Hne. destruct (Nat.eqb t' t) eqn:E.
      * apply Nat.eqb_eq in E. subst. assumption.
      * apply I3. assumption.
    + intros t' k'. unfold nupd. destruct (Nat.eqb t' t) eqn:E; [|apply I4].
      destruct (m_table s k) eqn:T; [discriminate|]. intros H. injection H as <-. assumption.
    + intros t' k' v'. unfold nupd. destruct (Nat.eqb t' t) eqn:E; [|apply I5].
      destruct (m_table s k) eqn:T; [|discriminate]. intros H. injection H as <- <-. assumption.
  - (* create *)
    destruct (m_pc s t) as [|k|k|k v] eqn:P; try discriminate. apply holds_eq in G.
    pose proof (I4 t k P) as Hnone.
    assert (forall t', t' <> t -> m_pc s t' = MIdle) as Hothers.
    { intros t' Hne. destruct (m_pc s t') eqn:P'; auto; (assert (m_lock s = Some t') by (apply I3; congruence); congruence). }
    constructor; cbn.
    + intros k' v'. unfold nupd. destruct (Nat.eqb k' k) eqn:E.
      * apply Nat.eqb_eq in E. subst k'. split.
        -- intros H. injection H as <-. left. reflexivity.
        -- intros [H|H]; [injection H as <-; reflexivity|]. apply I1 in H. congruence.
      * split.
        -- intros H. right. apply I1. assumption.
        -- intros [H|H]; [injection H as -> _; rewrite Nat.eqb_refl in E; discriminate|]. apply I1. assumption.
    + constructor; [|assumption]. intros Hin. apply in_map_iff in Hin. destruct Hin as [[k' v'] [Hk Hin]].
      cbn in Hk. subst k'. apply I1 in Hin. congruence.
    + intros t' Hne. unfold nupd in Hne. destruct (Nat.eqb t' t) eqn:E.
      * apply Nat.eqb_eq in E. subst. assumption.
      * apply I3. assumption.
    + intros t' k'. unfold nupd at 1. destruct (Nat.eqb t' t) eqn:E; [discriminate|].
      apply Nat.eqb_neq in E. rewrite (Hothers t' E). discriminate.
    + intros t' k' v'. unfold nupd at 1. destruct (Nat.eqb t' t) eqn:E.
      * intros H. injection H as <- <-. apply nupd_same.
      * apply Nat.eqb_neq in E. rewrite (Hothers t' E). discriminate.
    + intros t' k' v' Hin. pose proof (I6 _ _ _ Hin) as Ht. unfold nupd. destruct (Nat.eqb k' k) eqn:E; [|assumption].
      apply Nat.eqb_eq in E. subst. congruence.
  - (* release *)
    destruct (m_pc s t) as [|k|k|k v] eqn:P; try discriminate. apply holds_eq in G.
    assert (forall t', t' <> t -> m_pc s t' = MIdle) as Hothers.
    { intros t' Hne. destruct (m_pc s t') eqn:P'; auto; (assert (m_lock s = Some t') by (apply I3; congruence); congruence). }
    constructor; cbn; auto.
    + intros t' Hne. exfalso. apply Hne. unfold nupd. destruct (Nat.eqb t' t) eqn:E; [reflexivity|].
      apply Nat.eqb_neq in E. auto.
    + intros t' k'. unfold nupd. destruct (Nat.eqb t' t) eqn:E; [discriminate|]. apply I4.
    + intros t' k' v'. unfold nupd. destruct (Nat.eqb t' t) eqn:E; [discriminate|]. apply I5.
    + intros t' k' v' [H|H]; [injection H as <- <- <-; eauto | eauto].
Qed.

Lemma mrun_inv : forall tr s s', MInv s -> mrun true s tr = Some s' -> MInv s'.
Proof.
  induction tr as [|l tr IH]; cbn; intros s s' HI Hr.
  - injection Hr as <-. assumption.
  - destruct (mstep true s l) as [s1|] eqn:Es; [|discriminate]. eapply IH; [|exact Hr]. eapply mstep_inv; eauto.
Qed.

Lemma count_occ_nodup_in : forall (l : list nat) k, NoDup l -> In k l -> count_occ Nat.eq_dec l k = 1.
Proof.
  intros l k Hn Hin. pose proof (proj1 (NoDup_count_occ Nat.eq_dec l) Hn k).
  pose proof (proj1 (count_occ_In Nat.eq_dec l k) Hin). lia.
Qed.

Theorem created_once_any :
  forall tr s, mrun true minit tr = Some s ->
    (forall k, creations s k <= 1) /\
    (forall t k v, In (t, k, v) (m_results s) -> creations s k = 1 /\ In (k, v) (m_created s)) /\
    (forall t1 t2 k v1 v2, In (t1, k, v1) (m_results s) -> In (t2, k, v2) (m_results s) -> v1 = v2).
Proof.
  intros tr s Hr. destruct (mrun_inv _ _ _ minit_inv Hr) as [I1 I2 I3 I4 I5 I6]. repeat split.
  - intros k. unfold creations. apply (proj1 (NoDup_count_occ Nat.eq_dec _) I2).
  - unfold creations. apply count_occ_nodup_in; [assumption|]. apply I6 in H. apply I1 in H.
    apply in_map_iff. exists (k, v). split; [reflexivity | assumption].
  - apply I1. eapply I6; eauto.
  - intros t1 t2 k v1 v2 H1 H2. apply I6 in H1, H2. congruence.
Qed.
