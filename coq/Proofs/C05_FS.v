(* C05: the invariant of the cache's file-system state machine and its preservation by every step of every
   process and every fault (at quiescent points for truncation). *)
From Coq Require Import List NArith ZArith Bool Arith Lia ZifyBool ZifyNat ZifyN.
Import ListNotations.
Require Import Verif.Model.C05_Types Verif.Model.C05_Codec Verif.Model.C05_FS.
Require Import Verif.Proofs.C05_Codec Verif.Proofs.C05_FSLemmas.
Open Scope N_scope.

Section WithH.
Variable H : list N -> list N.
Hypothesis H_wf : forall x, wf_id (H x).

Definition contents (st : list (list N * list N)) : list (list N) := map snd st.
(* no two stored contents collide *)
Definition H_inj_on (st : list (list N * list N)) : Prop :=
  forall x y, In x (contents st) -> In y (contents st) -> H x = H y -> x = y.
(* no byte string at all collides with a stored content *)
Definition H_cf_on (st : list (list N * list N)) : Prop :=
  forall x y, In x (contents st) -> H y = H x -> y = x.

Lemma H_cf_inj : forall st, H_cf_on st -> H_inj_on st.
Proof. intros st Hc x y Hx Hy He. symmetry. apply (Hc x y Hx). congruence. Qed.

Definition put_ok (st : list (list N * list N)) (k x : list N) : Prop :=
  In (k, x) st /\ wf_id k /\ xsize x <= max_int64.
Definition entry_of (st : list (list N * list N)) (k o : list N) (sz : N) : Prop :=
  exists x, In (k, x) st /\ o = H x /\ sz = xsize x.

(* every data inode holds a prefix of the content it is named after; every index inode holds a prefix of an
   entry for a content stored under its key *)
Definition file_ok (st : list (list N * list N)) (f : file) : Prop :=
  match fowner f with
  | FD o => exists x, In x (contents st) /\ H x = o /\ prefix (fdata f) x
  | FA k => exists x t, put_ok st k x /\ t <= max_int64 /\ prefix (fdata f) (format_entry k (H x) (xsize x) t)
  end.

Definition has_file (fs : fsys) (i : nat) (p : path) : Prop := exists f, get_file fs i = Some f /\ fowner f = p.

Definition result_ok (st : list (list N * list N)) (r : result) : Prop :=
  match r with
  | RGet k o sz _ => entry_of st k o sz
  | RFile k o sz snap => exists x, In (k, x) st /\ o = H x /\ sz = xsize x /\ snap = Some x
  | RBytes k b => In (k, b) st
  | _ => True
  end.

Definition proc_ok (fs : fsys) (st : list (list N * list N)) (c : pc) : Prop :=
  match c with
  | PPutStat k x | PPutClose k x _ | PPutChtimes k x
  | PPutIdxOpen k x | PPutIdxClose k x _ | PPutIdxChtimes k x => put_ok st k x
  | PPutVOpen k x sz | PPutVRead k x sz _ _ _ => put_ok st k x /\ sz <= xsize x
  | PPutOpen k x st' => put_ok st k x /\ (forall sz, st' = Some sz -> sz <= xsize x)
  | PPutCopy k x i off =>
      put_ok st k x /\
      (exists f, get_file fs i = Some f /\ fowner f = FD (H x) /\ (off <= length (fdata f))%nat) /\
      (off <= length x - 1)%nat /\ x <> []
  | PPutIdxWrite k x j => put_ok st k x /\ has_file fs j (FA k)
  | PPutIdxTrunc k x j =>
      put_ok st k x /\ exists f, get_file fs j = Some f /\ fowner f = FA k /\ (entry_size <= length (fdata f))%nat
  | PGetRead k _ j => has_file fs j (FA k)
  | PGetUsedA k _ o sz _ => entry_of st k o sz
  | PGetUsedD k _ o sz => entry_of st k o sz
  | PGFStat k o sz => entry_of st k o sz
  | PGBOpen k o | PGBRead k o _ _ _ => exists x, In (k, x) st /\ o = H x
  | PDone r => result_ok st r
  | _ => True
  end.

Definition names_ok (fs : fsys) : Prop := forall p i, lookup p (names fs) = Some i -> has_file fs i p.
Definition files_ok (fs : fsys) (st : list (list N * list N)) : Prop := forall i f, get_file fs i = Some f -> file_ok st f.

Definition Inv (s : state) : Prop :=
  names_ok (st_fs s) /\ files_ok (st_fs s) (st_stored s) /\ Forall (proc_ok (st_fs s) (st_stored s)) (st_procs s).

(* ---- monotonicity in the ghost log ---- *)
Lemma contents_incl : forall st st', incl st st' -> incl (contents st) (contents st').
Proof. intros st st' Hi x Hx. unfold contents in *. apply in_map_iff in Hx. destruct Hx as ([k y] & <- & Hin). apply in_map_iff. exists (k, y). auto. Qed.
Lemma in_contents : forall st k x, In (k, x) st -> In x (contents st).
Proof. intros. unfold contents. apply in_map_iff. exists (k, x). auto. Qed.
Lemma put_ok_mono : forall st st' k x, incl st st' -> put_ok st k x -> put_ok st' k x.
Proof. intros st st' k x Hi (H1 & H2 & H3). split; [apply Hi; auto | auto]. Qed.
Lemma entry_of_mono : forall st st' k o sz, incl st st' -> entry_of st k o sz -> entry_of st' k o sz.
Proof. intros st st' k o sz Hi (x & H1 & H2 & H3). exists x. split; [apply Hi; auto | auto]. Qed.
Lemma file_ok_mono : forall st st' f, incl st st' -> file_ok st f -> file_ok st' f.
Proof.
  intros st st' f Hi. unfold file_ok. destruct (fowner f).
  - intros (x & t & H1 & H2 & H3). exists x, t. split; [eapply put_ok_mono; eauto | auto].
  - intros (x & H1 & H2 & H3). exists x. split; [eapply contents_incl; eauto | auto].
Qed.
Lemma result_ok_mono : forall st st' r, incl st st' -> result_ok st r -> result_ok st' r.
Proof.
  intros st st' r Hi. destruct r; simpl; auto.
  - apply entry_of_mono; auto.
  - intros (x & H1 & H2). exists x. auto.
Qed.

(* ---- frame ---- *)
Definition ext_at (fs fs' : fsys) (i : nat) : Prop :=
  forall f, get_file fs i = Some f ->
            exists f', get_file fs' i = Some f' /\ fowner f' = fowner f /\ (length (fdata f) <= length (fdata f'))%nat.

Lemma has_file_ext : forall fs fs' i p, ext_at fs fs' i -> has_file fs i p -> has_file fs' i p.
Proof. intros fs fs' i p He (f & Hf & Ho). destruct (He f Hf) as (f' & H1 & H2 & H3). exists f'. split; congruence. Qed.

Lemma proc_ok_frame : forall fs fs' st st' c,
  (forall i, holds c i = true -> ext_at fs fs' i) -> incl st st' -> proc_ok fs st c -> proc_ok fs' st' c.
Proof.
  intros fs fs' st st' c He Hi.
  destruct c; cbn [proc_ok]; intros Hp; auto;
    try (eapply put_ok_mono; eassumption); try (eapply entry_of_mono; eassumption).
  - destruct Hp as [H1 H2]. split; auto. eapply put_ok_mono; eauto.
  - destruct Hp as [H1 H2]. split; auto. eapply put_ok_mono; eauto.
  - destruct Hp as [H1 H2]. split; auto. eapply put_ok_mono; eauto.
  - destruct Hp as (H1 & (f & Hf & Ho & Hl) & H3 & H4).
    split; [eapply put_ok_mono; eauto |]. split; [| auto].
    assert (Hh : holds (PPutCopy k x i off) i = true) by (cbn; apply Nat.eqb_refl).
    destruct (He i Hh f Hf) as (f' & Hf' & Ho' & Hl'). exists f'. repeat split; auto; try congruence; lia.
  - destruct Hp as [H1 H2]. split; [eapply put_ok_mono; eauto |].
    eapply has_file_ext; [| eassumption]. apply He. cbn. apply Nat.eqb_refl.
  - destruct Hp as (H1 & f & Hf & Ho & Hl). split; [eapply put_ok_mono; eauto |].
    assert (Hh : holds (PPutIdxTrunc k x j) j = true) by (cbn; apply Nat.eqb_refl).
    destruct (He j Hh f Hf) as (f' & Hf' & Ho' & Hl'). exists f'. repeat split; auto; try congruence; lia.
  - eapply has_file_ext; [| eassumption]. apply He. cbn. apply Nat.eqb_refl.
  - destruct Hp as (x & H1 & H2). exists x. auto.
  - destruct Hp as (x & H1 & H2). exists x. auto.
  - eapply result_ok_mono; eauto.
Qed.

Lemma ext_at_refl : forall fs i, ext_at fs fs i.
Proof. intros fs i f Hf. exists f. auto. Qed.

(* ---- primitives ---- *)
Lemma set_file_inv : forall fs st i f f',
  names_ok fs -> files_ok fs st -> get_file fs i = Some f -> fowner f' = fowner f -> file_ok st f' ->
  names_ok (set_file fs i f') /\ files_ok (set_file fs i f') st.
Proof.
  intros fs st i f f' Hn Hf Hg Ho Hok. split.
  - intros p j Hl. cbn [set_file names] in Hl. destruct (Hn p j Hl) as (g & Hg' & Hog).
    destruct (Nat.eq_dec i j) as [-> | Hne].
    + exists f'. split; [eapply get_file_set_eq; eauto | congruence].
    + exists g. split; [rewrite get_file_set_neq; auto | auto].
  - intros j g Hg'. destruct (Nat.eq_dec i j) as [-> | Hne].
    + rewrite (get_file_set_eq _ _ _ _ Hg) in Hg'. inversion Hg'; subst. auto.
    + rewrite get_file_set_neq in Hg' by auto. eapply Hf; eauto.
Qed.

Lemma set_file_ext : forall fs i f f', get_file fs i = Some f -> fowner f' = fowner f ->
  (length (fdata f) <= length (fdata f'))%nat -> forall j, ext_at fs (set_file fs i f') j.
Proof.
  intros fs i f f' Hg Ho Hl j g Hgj. destruct (Nat.eq_dec i j) as [-> | Hne].
  - exists f'. rewrite (get_file_set_eq _ _ _ _ Hg). assert (g = f) by congruence. subst. auto.
  - exists g. rewrite get_file_set_neq by auto. auto.
Qed.

Lemma open_create_inv : forall fs st p now fs' i,
  names_ok fs -> files_ok fs st -> file_ok st (mkFile [] now p) -> open_create fs p now = (fs', i) ->
  names_ok fs' /\ files_ok fs' st /\ (forall j, ext_at fs fs' j) /\ has_file fs' i p.
Proof.
  intros fs st p now fs' i Hn Hf Hnew Hoc. unfold open_create in Hoc.
  destruct (lookup p (names fs)) as [i0 |] eqn:El.
  - inversion Hoc; subst. repeat split; auto using ext_at_refl.
  - inversion Hoc; subst. clear Hoc.
    assert (Hold : forall j g, get_file fs j = Some g ->
              get_file (mkFs ((p, length (inodes fs)) :: names fs) (inodes fs ++ [mkFile [] now p]) (trimstamp fs)) j = Some g).
    { intros j g Hg. unfold get_file in *. cbn [inodes]. rewrite nth_error_app1; auto. apply nth_error_Some. congruence. }
    assert (Hnewi : get_file (mkFs ((p, length (inodes fs)) :: names fs) (inodes fs ++ [mkFile [] now p]) (trimstamp fs)) (length (inodes fs))
                    = Some (mkFile [] now p)).
    { unfold get_file. cbn [inodes]. rewrite nth_error_app2 by lia. rewrite Nat.sub_diag. reflexivity. }
    repeat split.
    + intros q j Hl. cbn [names lookup] in Hl. destruct (path_eqb p q) eqn:E.
      * inversion Hl; subst. apply path_eqb_eq in E. subst. exists (mkFile [] now q). auto.
      * destruct (Hn q j Hl) as (g & Hg & Ho). exists g. auto.
    + intros j g Hg. unfold get_file in Hg. cbn [inodes] in Hg.
      destruct (Nat.lt_ge_cases j (length (inodes fs))) as [Hlt | Hge].
      * rewrite nth_error_app1 in Hg by auto. eapply Hf; eauto.
      * rewrite nth_error_app2 in Hg by auto.
        destruct (j - length (inodes fs))%nat as [| m] eqn:Em; cbn in Hg.
        -- inversion Hg; subst. auto.
        -- destruct m; discriminate.
    + intros j g Hg. exists g. auto.
    + exists (mkFile [] now p). auto.
Qed.

Lemma unlink_inv : forall fs st p, names_ok fs -> files_ok fs st ->
  names_ok (fs_unlink fs p) /\ files_ok (fs_unlink fs p) st /\ (forall j, ext_at fs (fs_unlink fs p) j).
Proof.
  intros fs st p Hn Hf. repeat split.
  - intros q i Hl. cbn [fs_unlink names] in Hl. apply lookup_unlink in Hl. destruct Hl as [Hl _].
    destruct (Hn q i Hl) as (g & Hg & Ho). exists g. auto.
  - intros i f Hg. eapply Hf; eauto.
  - intros j g Hg. exists g. auto.
Qed.

(* chtimes / used: the data and owner of every inode stay *)
Definition touched (fs fs' : fsys) : Prop :=
  fs' = fs \/ exists i f t, get_file fs i = Some f /\ fs' = set_file fs i (mkFile (fdata f) t (fowner f)).

Lemma chtimes_touched : forall fs p t, touched fs (chtimes fs p t).
Proof.
  intros fs p t. unfold chtimes. destruct (lookup p (names fs)) as [i |]; [| left; auto].
  destruct (get_file fs i) as [f |] eqn:E; [| left; auto]. right. exists i, f, t. auto.
Qed.
Lemma used_touched : forall fs p t, touched fs (used fs p t).
Proof.
  intros fs p t. unfold used. destruct (lookup p (names fs)) as [i |]; [| left; auto].
  destruct (get_file fs i) as [f |] eqn:E; [| left; auto].
  destruct (t <? fmtime f + 1); [left; auto |]. right. exists i, f, t. auto.
Qed.

Lemma touched_inv : forall fs fs' st, touched fs fs' -> names_ok fs -> files_ok fs st ->
  names_ok fs' /\ files_ok fs' st /\ (forall j, ext_at fs fs' j).
Proof.
  intros fs fs' st [-> | (i & f & t & Hg & ->)] Hn Hf.
  - repeat split; auto using ext_at_refl.
  - assert (Hok : file_ok st (mkFile (fdata f) t (fowner f))) by (specialize (Hf i f Hg); exact Hf).
    destruct (set_file_inv fs st i f (mkFile (fdata f) t (fowner f)) Hn Hf Hg eq_refl Hok) as [H1 H2].
    repeat split; auto. apply (set_file_ext fs i f (mkFile (fdata f) t (fowner f)) Hg eq_refl). cbn [fdata]. lia.
Qed.

(* ---- the data file named after H x holds a prefix of x ---- *)
Lemma dfile_prefix : forall fs st k x i f,
  files_ok fs st -> H_inj_on st -> In (k, x) st -> get_file fs i = Some f -> fowner f = FD (H x) ->
  prefix (fdata f) x.
Proof.
  intros fs st k x i f Hf Hinj Hin Hg Ho. specialize (Hf i f Hg). unfold file_ok in Hf. rewrite Ho in Hf.
  destruct Hf as (x0 & Hx0 & He & Hp). assert (x0 = x) by (apply Hinj; eauto using in_contents). subst. auto.
Qed.

Lemma afile_short : forall fs st k i f,
  files_ok fs st -> get_file fs i = Some f -> fowner f = FA k -> (length (fdata f) <= entry_size)%nat.
Proof.
  intros fs st k i f Hf Hg Ho. specialize (Hf i f Hg). unfold file_ok in Hf. rewrite Ho in Hf.
  destruct Hf as (x & t & (H1 & H2 & H3) & H4 & Hp). apply prefix_length in Hp.
  rewrite format_entry_length in Hp; auto.
Qed.

Lemma xsize_le : forall a b : list N, (length a <= length b)%nat -> xsize a <= xsize b.
Proof. intros. unfold xsize. lia. Qed.

Ltac same_fs := split; [assumption | split; [assumption | split; [intros; apply ext_at_refl |]]].

(* ---- one step of one process ---- *)
Lemma inv_pstep : forall c fs st pcv fs' pc',
  names_ok fs -> files_ok fs st -> H_cf_on st -> proc_ok fs st pcv -> pstep H c fs pcv = Some (fs', pc') ->
  names_ok fs' /\ files_ok fs' st /\ (forall j, ext_at fs fs' j) /\ proc_ok fs' st pc'.
Proof.
  intros c fs st pcv fs' pc' Hn Hf Hcf Hp Hs. pose proof (H_cf_inj st Hcf) as Hinj.
  destruct pcv; unfold pstep in Hs; cbn [proc_ok] in Hp.
  - (* PPutStat *)
    destruct (lookup (FD (H x)) (names fs)) as [i |] eqn:El.
    + destruct (get_file fs i) as [f |] eqn:Eg; [| discriminate].
      destruct (Hn _ _ El) as (f0 & Hf0 & Ho). assert (f0 = f) by congruence. subst f0.
      pose proof Hp as (Hin & Hw & Hsz).
      pose proof (dfile_prefix fs st k x i f Hf Hinj Hin Eg Ho) as Hpre.
      assert (Hle : fsize f <= xsize x) by (apply xsize_le; apply prefix_length; auto).
      destruct (fsize f =? xsize x); inversion Hs; subst; same_fs; cbn [proc_ok]; split; auto.
      intros sz E. inversion E; subst. auto.
    + inversion Hs; subst. same_fs. cbn [proc_ok]. split; auto. intros sz E. discriminate.
  - (* PPutVOpen *)
    destruct Hp as [Hp Hsz].
    destruct (lookup (FD (H x)) (names fs)) as [i |] eqn:El; inversion Hs; subst; same_fs; cbn [proc_ok]; auto.
    split; auto. intros sz0 E. inversion E; subst. auto.
  - (* PPutVRead *)
    destruct Hp as [Hp Hsz].
    destruct (get_file fs i) as [f |]; [| discriminate]. destruct (c_n c) as [| n']; [discriminate |].
    destruct (firstn (S n') (skipn off (fdata f))) as [| b ch].
    + destruct (bytes_eqb (H buf) (H x)); inversion Hs; subst; same_fs; cbn [proc_ok]; auto.
      split; auto. intros sz0 E. inversion E; subst. auto.
    + inversion Hs; subst. same_fs. cbn [proc_ok]. auto.
  - (* PPutOpen *)
    destruct Hp as [Hp Hst]. pose proof Hp as (Hin & Hw & Hsz).
    assert (Ht : match st0 with Some sz => xsize x <? sz | None => false end = false).
    { destruct st0 as [sz |]; auto. apply N.ltb_ge. auto. }
    rewrite Ht in Hs.
    destruct (open_create fs (FD (H x)) (c_now c)) as [fs1 i] eqn:Hoc.
    assert (Hnew : file_ok st (mkFile [] (c_now c) (FD (H x)))).
    { unfold file_ok. cbn [fowner fdata]. exists x. repeat split; eauto using in_contents, prefix_nil. }
    destruct (open_create_inv fs st _ _ fs1 i Hn Hf Hnew Hoc) as (Hn1 & Hf1 & He1 & (f & Hg & Ho)).
    destruct x as [| b x'].
    + inversion Hs; subst. split; auto.
    + inversion Hs; subst. split; auto. split; auto. split; auto. cbn [proc_ok]. split; auto.
      split; [exists f; repeat split; auto; lia |]. split; [lia | discriminate].
  - (* PPutCopy *)
    destruct Hp as (Hput & (f & Hg & Ho & Hoff) & Hlast & Hne). pose proof Hput as (Hin & Hw & Hsz).
    pose proof (dfile_prefix fs st k x i f Hf Hinj Hin Hg Ho) as Hpre.
    assert (Hlx : (1 <= length x)%nat) by (destruct x; [contradiction | cbn; lia]).
    unfold fs_write in Hs. rewrite Hg in Hs.
    destruct (off <? length x - 1)%nat eqn:El.
    + apply Nat.ltb_lt in El. destruct (c_n c) as [| n'] eqn:En; [discriminate |].
      set (n := Nat.min (S n') (length x - 1 - off)) in *.
      assert (Hn1 : (off + n <= length x)%nat) by lia.
      destruct (write_at_prefix (fdata f) x off n Hpre Hoff Hn1) as (Hp' & Hl1 & Hl2).
      assert (Hlc : length (firstn n (skipn off x)) = n) by (apply firstn_length_le; rewrite skipn_length; lia).
      inversion Hs; subst fs' pc'. clear Hs.
      set (f' := mkFile (write_at (fdata f) off (firstn n (skipn off x))) (c_now c) (fowner f)) in *.
      assert (Hok : file_ok st f').
      { unfold file_ok, f'. cbn [fowner fdata]. rewrite Ho. exists x. repeat split; eauto using in_contents. }
      destruct (set_file_inv fs st i f f' Hn Hf Hg eq_refl Hok) as [Hn' Hf'].
      split; auto. split; auto. split; [apply (set_file_ext fs i f f' Hg eq_refl); exact Hl1 |].
      cbn [proc_ok]. split; auto. split; [| split; [rewrite Hlc; lia | auto]].
      exists f'. rewrite (get_file_set_eq _ _ _ _ Hg). repeat split; auto. rewrite Hlc. exact Hl2.
    + apply Nat.ltb_ge in El.
      assert (Hn1 : (off + 1 <= length x)%nat) by lia.
      destruct (write_at_prefix (fdata f) x off 1 Hpre Hoff Hn1) as (Hp' & Hl1 & Hl2).
      inversion Hs; subst fs' pc'. clear Hs.
      set (f' := mkFile (write_at (fdata f) off (firstn 1 (skipn off x))) (c_now c) (fowner f)) in *.
      assert (Hok : file_ok st f').
      { unfold file_ok, f'. cbn [fowner fdata]. rewrite Ho. exists x. repeat split; eauto using in_contents. }
      destruct (set_file_inv fs st i f f' Hn Hf Hg eq_refl Hok) as [Hn' Hf'].
      split; auto. split; auto. split; [apply (set_file_ext fs i f f' Hg eq_refl); exact Hl1 |].
      cbn [proc_ok]. auto.
  - (* PPutClose *) inversion Hs; subst. same_fs. auto.
  - (* PPutChtimes *)
    inversion Hs; subst.
    destruct (touched_inv fs _ st (chtimes_touched fs (FD (H x)) (c_now c)) Hn Hf) as (H1 & H2 & H3). auto.
  - (* PPutIdxOpen *)
    destruct (open_create fs (FA k) (c_now c)) as [fs1 j] eqn:Hoc. inversion Hs; subst.
    assert (Hnew : file_ok st (mkFile [] (c_now c) (FA k))).
    { unfold file_ok. cbn [fowner fdata]. exists x, 0. split; [exact Hp |]. split; [unfold max_int64; lia | apply prefix_nil]. }
    destruct (open_create_inv fs st _ _ _ _ Hn Hf Hnew Hoc) as (Hn1 & Hf1 & He1 & Hh).
    split; auto. split; auto. split; auto. cbn [proc_ok]. auto.
  - (* PPutIdxWrite *)
    destruct Hp as [Hput (f & Hg & Ho)]. pose proof Hput as (Hin & Hw & Hsz).
    destruct (max_int64 <? c_t c) eqn:Et; [discriminate |]. apply N.ltb_ge in Et.
    unfold fs_write in Hs. rewrite Hg in Hs. inversion Hs; subst fs' pc'. clear Hs.
    set (e := format_entry k (H x) (xsize x) (c_t c)) in *.
    assert (Hle : length e = entry_size) by (apply format_entry_length; auto).
    pose proof (afile_short fs st k j f Hf Hg Ho) as Hshort.
    assert (Hwr : write_at (fdata f) 0 e = e) by (apply write_at_cover; lia).
    rewrite Hwr.
    set (f' := mkFile e (c_now c) (fowner f)) in *.
    assert (Hok : file_ok st f').
    { unfold file_ok, f'. cbn [fowner fdata]. rewrite Ho. exists x, (c_t c). split; [exact Hput |]. split; [exact Et | apply prefix_refl]. }
    destruct (set_file_inv fs st j f f' Hn Hf Hg eq_refl Hok) as [Hn' Hf'].
    split; auto. split; auto. split; [apply (set_file_ext fs j f f' Hg eq_refl); cbn [fdata f']; lia |].
    cbn [proc_ok]. split; [exact Hput |].
    exists f'. rewrite (get_file_set_eq _ _ _ _ Hg). repeat split; auto. cbn [fdata f']. lia.
  - (* PPutIdxTrunc *)
    destruct Hp as [Hp (f & Hg & Ho & Hl)].
    unfold fs_ftrunc in Hs. rewrite Hg in Hs. inversion Hs; subst fs' pc'. clear Hs.
    pose proof (afile_short fs st k j f Hf Hg Ho) as Hshort.
    assert (Hlen : entry_size = length (fdata f)) by lia. rewrite Hlen, ftrunc_id.
    set (f' := mkFile (fdata f) (c_now c) (fowner f)) in *.
    assert (Hok : file_ok st f') by (specialize (Hf j f Hg); exact Hf).
    destruct (set_file_inv fs st j f f' Hn Hf Hg eq_refl Hok) as [Hn' Hf'].
    split; auto. split; auto. split; [apply (set_file_ext fs j f f' Hg eq_refl); cbn [fdata f']; lia |].
    cbn [proc_ok]. auto.
  - (* PPutIdxClose *) inversion Hs; subst. same_fs. auto.
  - (* PPutIdxChtimes *)
    inversion Hs; subst.
    destruct (touched_inv fs _ st (chtimes_touched fs (FA k) (c_now c)) Hn Hf) as (H1 & H2 & H3).
    repeat split; auto.
  - (* PGetOpen *)
    destruct (lookup (FA k) (names fs)) as [j |] eqn:El; inversion Hs; subst; same_fs; cbn [proc_ok result_ok]; auto.
  - (* PGetRead *)
    destruct Hp as (f & Hg & Ho). rewrite Hg in Hs.
    destruct (parse_entry k (fdata f)) as [[[o sz] tm] |] eqn:Ep; inversion Hs; subst; same_fs; cbn [proc_ok result_ok]; auto.
    pose proof (Hf j f Hg) as Hok. unfold file_ok in Hok. rewrite Ho in Hok.
    destruct Hok as (x & t & (Hin & Hw & Hsz) & Ht & (rest & Hpre)).
    destruct (prefix_parse k (H x) (xsize x) t (fdata f) rest (o, sz, tm) Hw (H_wf x) Hsz Ht Hpre Ep) as [_ E].
    inversion E; subst. exists x. auto.
  - (* PGetUsedA *)
    destruct (touched_inv fs _ st (used_touched fs (FA k) (c_now c)) Hn Hf) as (H1 & H2 & H3).
    destruct m; inversion Hs; subst; repeat split; auto.
  - (* PGetUsedD *)
    destruct (touched_inv fs _ st (used_touched fs (FD o) (c_now c)) Hn Hf) as (H1 & H2 & H3).
    destruct Hp as (x & Hin & Ho & Hsz).
    destruct m; inversion Hs; subst; repeat split; auto; cbn [proc_ok]; exists x; auto.
  - (* PGFStat *)
    destruct Hp as (x & Hin & Ho & Hsz).
    destruct (lookup (FD o) (names fs)) as [i |] eqn:El.
    + destruct (get_file fs i) as [f |] eqn:Eg; [| discriminate].
      destruct (Hn _ _ El) as (f0 & Hf0 & Hof). assert (f0 = f) by congruence. subst f0.
      destruct (fsize f =? sz) eqn:Esz; inversion Hs; subst; same_fs; cbn [proc_ok result_ok]; auto.
      exists x. repeat split; auto. f_equal.
      apply prefix_full; [eapply dfile_prefix; eauto |]. apply N.eqb_eq in Esz. unfold fsize, xsize in Esz. lia.
    + inversion Hs; subst. same_fs. cbn [proc_ok result_ok]. auto.
  - (* PGBOpen *)
    destruct Hp as (x & Hin & Ho).
    destruct (lookup (FD o) (names fs)) as [i |] eqn:El; inversion Hs; subst; same_fs; cbn [proc_ok].
    + exists x. auto.
    + destruct (bytes_eqb (H []) (H x)) eqn:E; cbn [result_ok]; auto.
      apply bytes_eqb_eq in E. assert ([] = x) by (apply Hcf; eauto using in_contents). subst. auto.
  - (* PGBRead *)
    destruct Hp as (x & Hin & Ho).
    destruct (get_file fs i) as [f |]; [| discriminate]. destruct (c_n c) as [| n']; [discriminate |].
    destruct (firstn (S n') (skipn off (fdata f))) as [| b ch].
    + inversion Hs; subst. same_fs. cbn [proc_ok].
      destruct (bytes_eqb (H buf) (H x)) eqn:E; cbn [result_ok]; auto.
      apply bytes_eqb_eq in E. assert (buf = x) by (apply Hcf; eauto using in_contents). subst. auto.
    + inversion Hs; subst. same_fs. cbn [proc_ok]. exists x. auto.
  - (* PTrimStart *)
    destruct (trimstamp fs) as [t |]; [destruct (c_now c <? t + trim_interval) |]; inversion Hs; subst; same_fs; cbn [proc_ok result_ok]; auto.
  - (* PTrimLoop *)
    destruct (c_fin c).
    + inversion Hs; subst. split; [exact Hn |]. split; [exact Hf |]. split; [intros j g Hg; exists g; auto |]. cbn [proc_ok result_ok]. auto.
    + destruct (lookup (c_path c) (names fs)) as [i |].
      * destruct (get_file fs i) as [f |]; [| discriminate].
        destruct (fmtime f + trim_limit <? cutoff_now); inversion Hs; subst; same_fs; cbn [proc_ok]; auto.
      * inversion Hs; subst. same_fs. cbn [proc_ok]. auto.
  - (* PTrimRm *)
    inversion Hs; subst. destruct (unlink_inv fs st p Hn Hf) as (H1 & H2 & H3). repeat split; auto.
  - discriminate.
  - discriminate.
Qed.

(* ---- all labels ---- *)
Lemma inv_init : Inv init_state.
Proof.
  unfold Inv, init_state. cbn [st_fs st_stored st_procs]. split; [| split].
  - intros p i Hl. discriminate.
  - intros i f Hg. unfold get_file in Hg. cbn in Hg. destruct i; discriminate.
  - constructor.
Qed.

Lemma wf_idb_wf : forall k, wf_idb k = true -> wf_id k.
Proof.
  intros k Hk. unfold wf_idb in Hk. apply andb_true_iff in Hk. destruct Hk as [H1 H2].
  split; [apply Nat.eqb_eq; auto |]. apply Forall_forall. intros b Hb.
  rewrite forallb_forall in H2. specialize (H2 b Hb). unfold byte_ok in H2. apply N.ltb_lt. auto.
Qed.

Lemma step_stored_incl : forall s l s', step H s l = Some s' -> incl (st_stored s) (st_stored s').
Proof.
  intros s l s' Hs. destruct l; cbn [step] in Hs.
  - destruct (spawn_pc o); [| discriminate]. inversion Hs; subst. cbn [st_stored].
    destruct o; try apply incl_refl. apply incl_tl. apply incl_refl.
  - destruct (nth_error (st_procs s) p); [| discriminate]. destruct (pstep H c (st_fs s) p0) as [[fs' pc'] |]; [| discriminate].
    inversion Hs; subst. apply incl_refl.
  - destruct (nth_error (st_procs s) p); [| discriminate]. inversion Hs; subst. apply incl_refl.
  - unfold ext_trunc in Hs. destruct (lookup p (names (st_fs s))); [| discriminate].
    destruct (get_file (st_fs s) n0); [| discriminate].
    destruct ((n <=? length (fdata f))%nat && (negb true || quiescent (st_procs s) n0)); [| discriminate].
    inversion Hs; subst. apply incl_refl.
  - unfold ext_trunc in Hs. destruct (lookup p (names (st_fs s))); [| discriminate].
    destruct (get_file (st_fs s) n0); [| discriminate].
    destruct ((n <=? length (fdata f))%nat && (negb false || quiescent (st_procs s) n0)); [| discriminate].
    inversion Hs; subst. apply incl_refl.
  - inversion Hs; subst. apply incl_refl.
  - inversion Hs; subst. apply incl_refl.
  - inversion Hs; subst. apply incl_refl.
Qed.

Lemma H_cf_on_incl : forall st st', incl st st' -> H_cf_on st' -> H_cf_on st.
Proof. intros st st' Hi Hc x y Hx. apply Hc. eapply contents_incl; eauto. Qed.

Lemma Forall_frame : forall fs fs' st st' procs,
  (forall j, ext_at fs fs' j) -> incl st st' -> Forall (proc_ok fs st) procs -> Forall (proc_ok fs' st') procs.
Proof.
  intros fs fs' st st' procs He Hi HF. eapply Forall_impl; [| exact HF].
  intros c Hc. eapply proc_ok_frame; eauto.
Qed.

Theorem inv_step_proof : forall s l s',
  Inv s -> label_ok l = true -> step H s l = Some s' -> H_cf_on (st_stored s') -> Inv s'.
Proof.
  intros s l s' (Hn & Hf & HP) Hok Hs Hcf. destruct s as [fs procs st]. cbn [st_fs st_procs st_stored] in *.
  destruct l; cbn [step st_fs st_procs st_stored] in Hs.
  - (* spawn *)
    destruct (spawn_pc o) as [c0 |] eqn:Esp; [| discriminate]. inversion Hs; subst. clear Hs.
    cbn [st_stored] in Hcf. unfold Inv. cbn [st_fs st_procs st_stored].
    set (st' := match o with OpPut k x => (k, x) :: st | _ => st end) in *.
    assert (Hi : incl st st') by (unfold st'; destruct o; try apply incl_refl; apply incl_tl; apply incl_refl).
    split; [exact Hn |]. split; [intros i f Hg; eapply file_ok_mono; eauto |].
    apply Forall_app. split; [eapply Forall_frame; eauto using ext_at_refl |].
    constructor; [| constructor].
    destruct o; cbn [spawn_pc] in Esp; try (inversion Esp; subst; exact I).
    destruct (wf_idb k && (xsize x <=? max_int64)) eqn:E; [| discriminate]. inversion Esp; subst.
    apply andb_true_iff in E. destruct E as [E1 E2]. cbn [proc_ok]. unfold put_ok, st'.
    split; [left; reflexivity |]. split; [apply wf_idb_wf; auto | apply N.leb_le; auto].
  - (* process step *)
    destruct (nth_error procs p) as [pcv |] eqn:En; [| discriminate].
    destruct (pstep H c fs pcv) as [[fs' pc'] |] eqn:Ep; [| discriminate]. inversion Hs; subst. clear Hs.
    cbn [st_stored] in Hcf.
    assert (Hpc : proc_ok fs st pcv). { rewrite Forall_forall in HP. apply HP. eapply nth_error_In; eauto. }
    destruct (inv_pstep c fs st pcv fs' pc' Hn Hf Hcf Hpc Ep) as (Hn' & Hf' & He & Hpc').
    unfold Inv. cbn [st_fs st_procs st_stored]. split; auto. split; auto.
    apply Forall_upd; auto. eapply Forall_frame; eauto using incl_refl.
  - (* crash *)
    destruct (nth_error procs p); [| discriminate]. inversion Hs; subst.
    unfold Inv. cbn [st_fs st_procs st_stored]. split; auto. split; auto. apply Forall_upd; auto. exact I.
  - (* truncate at a quiescent point *)
    unfold ext_trunc in Hs. cbn [st_fs st_procs st_stored] in Hs.
    destruct (lookup p (names fs)) as [i |] eqn:El; [| discriminate].
    destruct (get_file fs i) as [f |] eqn:Eg; [| discriminate].
    destruct ((n <=? length (fdata f))%nat && (negb true || quiescent procs i)) eqn:Ec; [| discriminate].
    inversion Hs; subst. clear Hs. apply andb_true_iff in Ec. destruct Ec as [_ Hq]. cbn [negb orb] in Hq.
    set (f' := mkFile (firstn n (fdata f)) now (fowner f)) in *.
    assert (Hfok : file_ok st f').
    { pose proof (Hf i f Eg) as Hfo. unfold file_ok in *. cbn [fowner fdata f'].
      destruct (fowner f).
      - destruct Hfo as (x & t & H1 & H2 & H3). exists x, t. split; [exact H1 | split; [exact H2 | apply prefix_firstn; auto]].
      - destruct Hfo as (x & H1 & H2 & H3). exists x. split; [exact H1 | split; [exact H2 | apply prefix_firstn; auto]]. }
    destruct (set_file_inv fs st i f f' Hn Hf Eg eq_refl Hfok) as [Hn' Hf'].
    unfold Inv. cbn [st_fs st_procs st_stored]. split; auto. split; auto.
    rewrite Forall_forall in *. intros c0 Hc0. specialize (HP c0 Hc0).
    unfold quiescent in Hq. rewrite forallb_forall in Hq. specialize (Hq c0 Hc0). apply negb_true_iff in Hq.
    eapply proc_ok_frame; [| apply incl_refl | exact HP].
    intros j Hj g Hg. assert (j <> i) by (intro; subst; congruence).
    exists g. rewrite get_file_set_neq by auto. auto.
  - discriminate.
  - (* delete *)
    inversion Hs; subst. destruct (unlink_inv fs st p Hn Hf) as (H1 & H2 & H3).
    unfold Inv. cbn [st_fs st_procs st_stored]. split; [exact H1 | split; [exact H2 | eapply Forall_frame; eauto using incl_refl]].
  - (* touch *)
    inversion Hs; subst. destruct (touched_inv fs _ st (chtimes_touched fs p t) Hn Hf) as (H1 & H2 & H3).
    unfold Inv. cbn [st_fs st_procs st_stored]. split; [exact H1 | split; [exact H2 | eapply Forall_frame; eauto using incl_refl]].
  - (* trim.txt *)
    inversion Hs; subst. unfold Inv. cbn [st_fs st_procs st_stored]. split; [exact Hn |]. split; [exact Hf |].
    eapply Forall_frame; eauto using incl_refl. intros j g Hg. exists g. auto.
Qed.

Lemma exec_stored_incl : forall ls s s', exec H s ls = Some s' -> incl (st_stored s) (st_stored s').
Proof.
  induction ls; intros s s' He; cbn [exec] in He.
  - inversion He; subst. apply incl_refl.
  - destruct (step H s a) as [s1 |] eqn:Es; [| discriminate].
    eapply incl_tran; [eapply step_stored_incl; eauto | eauto].
Qed.

Lemma inv_exec : forall ls s s',
  Inv s -> forallb label_ok ls = true -> exec H s ls = Some s' -> H_cf_on (st_stored s') -> Inv s'.
Proof.
  induction ls; intros s s' Hi Hok He Hcf; cbn [exec] in He.
  - inversion He; subst. auto.
  - destruct (step H s a) as [s1 |] eqn:Es; [| discriminate].
    cbn [forallb] in Hok. apply andb_true_iff in Hok. destruct Hok as [Ha Hok].
    apply (IHls s1 s'); auto. apply (inv_step_proof s a s1); auto.
    eapply H_cf_on_incl; [| exact Hcf]. eapply exec_stored_incl; eauto.
Qed.

(* reachable: any interleaving of any number of processes with crashes, deletions, quiescent truncations *)
Definition reachable (s : state) : Prop := exists ls, forallb label_ok ls = true /\ exec H init_state ls = Some s.

Theorem inv_reachable_proof : forall s, reachable s -> H_cf_on (st_stored s) -> Inv s.
Proof. intros s (ls & Hok & He) Hcf. eapply inv_exec; eauto using inv_init. Qed.

Lemma done_result_ok : forall s p r, Inv s -> nth_error (st_procs s) p = Some (PDone r) -> result_ok (st_stored s) r.
Proof.
  intros s p r (_ & _ & HP) Hn. rewrite Forall_forall in HP. specialize (HP _ (nth_error_In _ _ Hn)). exact HP.
Qed.

Theorem getfile_sound_proof : forall s p k o sz snap,
  reachable s -> H_cf_on (st_stored s) -> nth_error (st_procs s) p = Some (PDone (RFile k o sz snap)) ->
  exists x, In (k, x) (st_stored s) /\ o = H x /\ sz = xsize x /\ snap = Some x.
Proof. intros s p k o sz snap Hr Hcf Hn. exact (done_result_ok s p _ (inv_reachable_proof s Hr Hcf) Hn). Qed.

Theorem getbytes_sound_proof : forall s p k b,
  reachable s -> H_cf_on (st_stored s) -> nth_error (st_procs s) p = Some (PDone (RBytes k b)) ->
  In (k, b) (st_stored s).
Proof. intros s p k b Hr Hcf Hn. exact (done_result_ok s p _ (inv_reachable_proof s Hr Hcf) Hn). Qed.

Theorem get_sound_proof : forall s p k o sz tm,
  reachable s -> H_cf_on (st_stored s) -> nth_error (st_procs s) p = Some (PDone (RGet k o sz tm)) ->
  exists x, In (k, x) (st_stored s) /\ o = H x /\ sz = xsize x.
Proof. intros s p k o sz tm Hr Hcf Hn. exact (done_result_ok s p _ (inv_reachable_proof s Hr Hcf) Hn). Qed.

(* the ghost snapshot in RFile is the content of the returned path in the state in which GetFile returned *)
Theorem getfile_snapshot_proof : forall c fs pcv fs' k o sz snap,
  pstep H c fs pcv = Some (fs', PDone (RFile k o sz snap)) ->
  fs' = fs /\ snap = read_path fs (FD o) /\ pcv = PGFStat k o sz.
Proof.
  intros c fs pcv fs' k o sz snap Hs.
  destruct pcv; unfold pstep in Hs;
    repeat match type of Hs with
           | context [match ?e with _ => _ end] => destruct e eqn:?; try discriminate
           end; try discriminate; inversion Hs; subst; try discriminate.
  split; auto. split; auto. unfold read_path.
  match goal with E : lookup _ _ = Some _ |- _ => rewrite E end.
  match goal with E : get_file _ _ = Some _ |- _ => rewrite E end. reflexivity.
Qed.

(* ---- crash anywhere: one writer killed after any number of its steps, then a lookup ---- *)
Definition label_puts (l : label) : list (list N * list N) :=
  match l with LSpawn (OpPut k x) => [(k, x)] | _ => [] end.

Lemma step_stored : forall s l s', step H s l = Some s' -> st_stored s' = label_puts l ++ st_stored s.
Proof.
  intros s l s' Hs. destruct l; cbn [step] in Hs.
  - destruct (spawn_pc o); [| discriminate]. inversion Hs; subst. cbn [st_stored label_puts]. destruct o; reflexivity.
  - destruct (nth_error (st_procs s) p); [| discriminate]. destruct (pstep H c (st_fs s) p0) as [[fs' pc'] |]; [| discriminate].
    inversion Hs; subst. reflexivity.
  - destruct (nth_error (st_procs s) p); [| discriminate]. inversion Hs; subst. reflexivity.
  - unfold ext_trunc in Hs. destruct (lookup p (names (st_fs s))); [| discriminate].
    destruct (get_file (st_fs s) n0); [| discriminate].
    destruct ((n <=? length (fdata f))%nat && (negb true || quiescent (st_procs s) n0)); [| discriminate].
    inversion Hs; subst. reflexivity.
  - unfold ext_trunc in Hs. destruct (lookup p (names (st_fs s))); [| discriminate].
    destruct (get_file (st_fs s) n0); [| discriminate].
    destruct ((n <=? length (fdata f))%nat && (negb false || quiescent (st_procs s) n0)); [| discriminate].
    inversion Hs; subst. reflexivity.
  - inversion Hs; subst. reflexivity.
  - inversion Hs; subst. reflexivity.
  - inversion Hs; subst. reflexivity.
Qed.

Lemma exec_stored_in : forall ls s s' e, exec H s ls = Some s' -> In e (st_stored s') ->
  In e (st_stored s) \/ In e (flat_map label_puts ls).
Proof.
  induction ls; intros s s' e He Hin; cbn [exec] in He.
  - inversion He; subst. auto.
  - destruct (step H s a) as [s1 |] eqn:Es; [| discriminate].
    destruct (IHls s1 s' e He Hin) as [H1 | H1].
    + rewrite (step_stored s a s1 Es) in H1. apply in_app_or in H1. destruct H1; auto.
      right. cbn [flat_map]. apply in_or_app. auto.
    + right. cbn [flat_map]. apply in_or_app. auto.
Qed.

Lemma steps_ok : forall p cs, forallb label_ok (map (LStep p) cs) = true.
Proof. induction cs; cbn; auto. Qed.
Lemma steps_puts : forall p cs, flat_map label_puts (map (LStep p) cs) = [].
Proof. induction cs; cbn; auto. Qed.

Definition single_sound (k x : list N) (r : result) : Prop :=
  match r with
  | RFile k' o sz snap => k' = k /\ o = H x /\ sz = xsize x /\ snap = Some x
  | RBytes k' b => k' = k /\ b = x
  | RGet k' o sz _ => k' = k /\ o = H x /\ sz = xsize x
  | _ => True
  end.

Theorem crash_anywhere_proof : forall k x cs cs' o s r,
  (forall y, H y = H x -> y = x) ->
  match o with OpPut _ _ => False | _ => True end ->
  exec H init_state (LSpawn (OpPut k x) :: map (LStep 0) cs ++ LCrash 0 :: LSpawn o :: map (LStep 1) cs') = Some s ->
  nth_error (st_procs s) 1 = Some (PDone r) ->
  single_sound k x r.
Proof.
  intros k x cs cs' o s r Hcf1 Ho He Hn.
  assert (Hst : forall e, In e (st_stored s) -> e = (k, x)).
  { intros e Hin. destruct (exec_stored_in _ _ _ e He Hin) as [H1 | H1]; [destruct H1 |].
    cbn [flat_map label_puts] in H1. rewrite flat_map_app, steps_puts in H1. cbn [flat_map label_puts app] in H1.
    rewrite steps_puts in H1. destruct o; try contradiction; cbn in H1; destruct H1 as [H1 | H1]; auto; contradiction. }
  assert (Hcf : H_cf_on (st_stored s)).
  { intros x0 y Hx0 Hy. unfold contents in Hx0. apply in_map_iff in Hx0. destruct Hx0 as ([k0 x1] & E & Hin).
    cbn in E. subst x1. apply Hst in Hin. inversion Hin; subst. auto. }
  assert (Hok : forallb label_ok (LSpawn (OpPut k x) :: map (LStep 0) cs ++ LCrash 0 :: LSpawn o :: map (LStep 1) cs') = true).
  { cbn [forallb label_ok andb]. rewrite forallb_app, steps_ok. cbn [forallb label_ok andb]. apply steps_ok. }
  pose proof (inv_exec _ _ _ inv_init Hok He Hcf) as Hinv.
  pose proof (done_result_ok s 1 r Hinv Hn) as Hr.
  destruct r; cbn [result_ok single_sound] in *; auto.
  - destruct Hr as (x0 & Hin & E1 & E2). apply Hst in Hin. inversion Hin; subst. auto.
  - destruct Hr as (x0 & Hin & E1 & E2 & E3). apply Hst in Hin. inversion Hin; subst. auto.
  - apply Hst in Hr. inversion Hr; subst. auto.
Qed.

(* ---- re-putting the same content never un-commits a committed entry ---- *)
Definition committed (fs : fsys) (k x : list N) : Prop :=
  (exists e tm, read_path fs (FA k) = Some e /\ parse_entry k e = Some (H x, xsize x, tm)) /\
  read_path fs (FD (H x)) = Some x.

Definition put_content (c : pc) : option (list N) :=
  match c with
  | PPutStat _ x | PPutVOpen _ x _ | PPutVRead _ x _ _ _ _ | PPutOpen _ x _ | PPutCopy _ x _ _ | PPutClose _ x _
  | PPutChtimes _ x | PPutIdxOpen _ x | PPutIdxWrite _ x _ | PPutIdxTrunc _ x _ | PPutIdxClose _ x _
  | PPutIdxChtimes _ x => Some x
  | _ => None
  end.

Definition keeps (fs fs' : fsys) : Prop := forall q d, read_path fs q = Some d -> read_path fs' q = Some d.

Lemma committed_keeps : forall fs fs' k x, keeps fs fs' -> committed fs k x -> committed fs' k x.
Proof. intros fs fs' k x Hk ((e & tm & H1 & H2) & H3). split; [exists e, tm; auto | auto]. Qed.

Lemma keeps_refl : forall fs, keeps fs fs.
Proof. intros fs q d Hq. auto. Qed.

Lemma read_path_set_file : forall fs i f f' q, get_file fs i = Some f ->
  read_path (set_file fs i f') q =
  match lookup q (names fs) with
  | Some j => if Nat.eqb j i then Some (fdata f') else option_map fdata (get_file fs j)
  | None => None
  end.
Proof.
  intros fs i f f' q Hg. unfold read_path. cbn [set_file names].
  destruct (lookup q (names fs)) as [j |]; auto.
  destruct (Nat.eqb j i) eqn:E.
  - apply Nat.eqb_eq in E. subst. rewrite (get_file_set_eq _ _ _ _ Hg). reflexivity.
  - apply Nat.eqb_neq in E. rewrite get_file_set_neq by auto. reflexivity.
Qed.

Lemma keeps_same_data : forall fs i f f', get_file fs i = Some f -> fdata f' = fdata f -> keeps fs (set_file fs i f').
Proof.
  intros fs i f f' Hg Hd q d Hq. rewrite (read_path_set_file fs i f f' q Hg). unfold read_path in Hq.
  destruct (lookup q (names fs)) as [j |]; [| discriminate].
  destruct (Nat.eqb j i) eqn:E; auto. apply Nat.eqb_eq in E. subst. rewrite Hg in Hq. cbn in Hq. congruence.
Qed.

Lemma keeps_touched : forall fs fs', touched fs fs' -> keeps fs fs'.
Proof.
  intros fs fs' [-> | (i & f & t & Hg & ->)]; [apply keeps_refl |]. eapply keeps_same_data; eauto.
Qed.

Lemma keeps_open_create : forall fs p now fs' i, open_create fs p now = (fs', i) -> keeps fs fs'.
Proof.
  intros fs p now fs' i Hoc. unfold open_create in Hoc. destruct (lookup p (names fs)) as [i0 |] eqn:El.
  - inversion Hoc; subst. apply keeps_refl.
  - inversion Hoc; subst. intros q d Hq. unfold read_path in *. cbn [names lookup].
    destruct (path_eqb p q) eqn:E.
    + apply path_eqb_eq in E. subst. rewrite El in Hq. discriminate.
    + destruct (lookup q (names fs)) as [j |]; [| discriminate].
      unfold get_file in *. cbn [inodes]. destruct (nth_error (inodes fs) j) eqn:En; [| discriminate].
      rewrite nth_error_app1; [rewrite En; auto |]. apply nth_error_Some. congruence.
Qed.

Lemma read_path_lookup : forall fs q d, read_path fs q = Some d ->
  exists j f, lookup q (names fs) = Some j /\ get_file fs j = Some f /\ fdata f = d.
Proof.
  intros fs q d Hq. unfold read_path in Hq. destruct (lookup q (names fs)) as [j |]; [| discriminate].
  destruct (get_file fs j) as [f |] eqn:Eg; [| discriminate]. cbn in Hq. inversion Hq. exists j, f. auto.
Qed.

Theorem same_content_idempotent_proof : forall s p c s' pcv k x,
  Inv s -> H_cf_on (st_stored s) -> committed (st_fs s) k x ->
  nth_error (st_procs s) p = Some pcv -> put_content pcv = Some x ->
  step H s (LStep p c) = Some s' -> committed (st_fs s') k x.
Proof.
  intros s p c s' pcv k x (Hn & Hf & HP) Hcf Hc Hnth Hpc Hs.
  pose proof (H_cf_inj _ Hcf) as Hinj.
  destruct s as [fs procs st]. cbn [st_fs st_procs st_stored step] in *.
  rewrite Hnth in Hs. destruct (pstep H c fs pcv) as [[fs' pc'] |] eqn:Ep; [| discriminate].
  inversion Hs; subst. clear Hs. cbn [st_fs].
  assert (Hpok : proc_ok fs st pcv). { rewrite Forall_forall in HP. apply HP. eapply nth_error_In; eauto. }
  destruct pcv; cbn [put_content] in Hpc; try discriminate; inversion Hpc; subst; unfold pstep in Ep; cbn [proc_ok] in Hpok.
  - (* PPutStat *)
    destruct (lookup (FD (H x)) (names fs)); [destruct (get_file fs n); [destruct (fsize f =? xsize x) |] |]; inversion Ep; subst; auto.
  - destruct (lookup (FD (H x)) (names fs)); inversion Ep; subst; auto.
  - destruct (get_file fs i); [| discriminate]. destruct (c_n c); [discriminate |].
    destruct (firstn (S n) (skipn off (fdata f))); [destruct (bytes_eqb (H buf) (H x)) |]; inversion Ep; subst; auto.
  - (* PPutOpen: no O_TRUNC *)
    destruct Hpok as [Hput Hst].
    assert (Ht : match st0 with Some sz => xsize x <? sz | None => false end = false).
    { destruct st0 as [sz |]; auto. apply N.ltb_ge. auto. }
    rewrite Ht in Ep. destruct (open_create fs (FD (H x)) (c_now c)) as [fs1 i] eqn:Hoc.
    pose proof (keeps_open_create _ _ _ _ _ Hoc) as Hk.
    destruct x; inversion Ep; subst; eapply committed_keeps; eauto.
  - (* PPutCopy: writes the bytes that are already there *)
    destruct Hpok as (Hput & (f & Hg & Ho & Hoff) & Hlast & Hne).
    destruct Hc as (Ha & Hd).
    assert (Hkeep : forall ch n, ch = firstn n (skipn off x) -> (off + n <= length x)%nat ->
                     keeps fs (set_file fs i (mkFile (write_at (fdata f) off ch) (c_now c) (fowner f)))).
    { intros ch n -> Hle q d Hq. rewrite (read_path_set_file fs i f _ q Hg).
      destruct (read_path_lookup fs q d Hq) as (j & g & Hl & Hgj & Hdj). rewrite Hl.
      destruct (Nat.eqb j i) eqn:E; [| rewrite Hgj; cbn; congruence].
      apply Nat.eqb_eq in E. subst j. assert (g = f) by congruence. subst g.
      destruct (Hn q i Hl) as (f0 & Hf0 & Hq0). assert (f0 = f) by congruence. subst f0.
      assert (Eq : q = FD (H x)) by congruence. rewrite Eq in Hq. rewrite Hd in Hq.
      assert (Edx : d = x) by congruence. cbn [fdata]. rewrite Hdj, Edx. f_equal.
      replace x with (firstn (length x) x) at 1 by apply firstn_all.
      rewrite write_at_firstn by lia. rewrite Nat.max_l by lia. apply firstn_all. }
    unfold fs_write in Ep. rewrite Hg in Ep.
    assert (Hlx : (1 <= length x)%nat) by (destruct x; [contradiction | cbn; lia]).
    destruct (off <? length x - 1)%nat eqn:El.
    + apply Nat.ltb_lt in El. destruct (c_n c) as [| n'] eqn:En; [discriminate |].
      injection Ep as E1 _. rewrite <- E1.
      eapply committed_keeps; [eapply Hkeep; [reflexivity | destruct (length x - 1 - off)%nat eqn:Em; lia] | split; auto].
    + apply Nat.ltb_ge in El. injection Ep as E1 _. rewrite <- E1.
      eapply committed_keeps; [eapply (Hkeep _ 1%nat); [reflexivity | lia] | split; auto].
  - inversion Ep; subst; auto.
  - inversion Ep; subst. eapply committed_keeps; [apply keeps_touched; apply chtimes_touched | auto].
  - (* PPutIdxOpen *)
    destruct (open_create fs (FA k0) (c_now c)) as [fs1 j] eqn:Hoc. inversion Ep; subst.
    eapply committed_keeps; [eapply keeps_open_create; eauto | auto].
  - (* PPutIdxWrite: the same (output id, size) is written again *)
    destruct Hpok as [Hput (f & Hg & Ho)]. pose proof Hput as (Hin & Hw & Hsz).
    destruct (max_int64 <? c_t c) eqn:Et; [discriminate |]. apply N.ltb_ge in Et.
    unfold fs_write in Ep. rewrite Hg in Ep. inversion Ep; subst fs' pc'. clear Ep.
    pose proof (afile_short fs st k0 j f Hf Hg Ho) as Hshort.
    assert (Hle : length (format_entry k0 (H x) (xsize x) (c_t c)) = entry_size) by (apply format_entry_length; auto).
    rewrite write_at_cover by lia.
    destruct Hc as ((e & tm & Ha & Hpa) & Hd). split.
    + rewrite (read_path_set_file fs j f _ (FA k) Hg).
      destruct (read_path_lookup fs _ _ Ha) as (j1 & g & Hl & Hgj & Hdj). rewrite Hl.
      destruct (Nat.eqb j1 j) eqn:E.
      * apply Nat.eqb_eq in E. subst j1. destruct (Hn _ _ Hl) as (f0 & Hf0 & Hq0). assert (f0 = f) by congruence. subst f0.
        assert (k0 = k) by congruence. subst k0.
        exists (format_entry k (H x) (xsize x) (c_t c)), (c_t c). split; [reflexivity |].
        apply parse_format_proof; auto.
      * exists e, tm. rewrite Hgj. cbn. split; [congruence | auto].
    + rewrite (read_path_set_file fs j f _ (FD (H x)) Hg).
      destruct (read_path_lookup fs _ _ Hd) as (j1 & g & Hl & Hgj & Hdj). rewrite Hl.
      destruct (Nat.eqb j1 j) eqn:E; [| rewrite Hgj; cbn; congruence].
      apply Nat.eqb_eq in E. subst j1. destruct (Hn _ _ Hl) as (f0 & Hf0 & Hq0). congruence.
  - (* PPutIdxTrunc: no-op *)
    destruct Hpok as [Hput (f & Hg & Ho & Hl)].
    unfold fs_ftrunc in Ep. rewrite Hg in Ep. inversion Ep; subst fs' pc'. clear Ep.
    pose proof (afile_short fs st k0 j f Hf Hg Ho) as Hshort.
    assert (Hlen : entry_size = length (fdata f)) by lia. rewrite Hlen, ftrunc_id.
    eapply committed_keeps; [eapply keeps_same_data; eauto | auto].
  - inversion Ep; subst; auto.
  - inversion Ep; subst. eapply committed_keeps; [apply keeps_touched; apply chtimes_touched | auto].
Qed.

(* ---- Put post-condition: when copyFile has written the last byte, the inode it wrote holds exactly x ----
   (the runner uses OutputFile(out) right after Put returned, without validation) *)
Theorem put_copy_complete_proof : forall s p c s' k x i off,
  Inv s -> H_cf_on (st_stored s) -> nth_error (st_procs s) p = Some (PPutCopy k x i off) ->
  step H s (LStep p c) = Some s' -> nth_error (st_procs s') p = Some (PPutClose k x i) ->
  exists f', get_file (st_fs s') i = Some f' /\ fdata f' = x.
Proof.
  intros s p c s' k x i off (Hn & Hf & HP) Hcf Hnth Hs Hafter.
  pose proof (H_cf_inj _ Hcf) as Hinj.
  destruct s as [fs procs st]. cbn [st_fs st_procs st_stored step] in *.
  rewrite Hnth in Hs. destruct (pstep H c fs (PPutCopy k x i off)) as [[fs' pc'] |] eqn:Ep; [| discriminate].
  injection Hs as <-. cbn [st_fs st_procs] in *.
  assert (Hpok : proc_ok fs st (PPutCopy k x i off)). { rewrite Forall_forall in HP. apply HP. eapply nth_error_In; eauto. }
  rewrite (nth_error_upd_eq _ _ _ _ _ Hnth) in Hafter. injection Hafter as Epc.
  cbn [proc_ok] in Hpok. destruct Hpok as (Hput & (f & Hg & Ho & Hoff) & Hlast & Hne). pose proof Hput as (Hin & Hw & Hsz).
  pose proof (dfile_prefix fs st k x i f Hf Hinj Hin Hg Ho) as Hpre.
  assert (Hlx : (1 <= length x)%nat) by (destruct x; [contradiction | cbn; lia]).
  unfold pstep, fs_write in Ep. rewrite Hg in Ep.
  destruct (off <? length x - 1)%nat eqn:El.
  - destruct (c_n c); [discriminate |]. injection Ep as _ E2. rewrite <- E2 in Epc. discriminate.
  - apply Nat.ltb_ge in El. injection Ep as E1 _. rewrite <- E1.
    assert (Hn1 : (off + 1 <= length x)%nat) by lia.
    destruct (write_at_prefix (fdata f) x off 1 Hpre Hoff Hn1) as (Hp' & Hl1 & Hl2).
    eexists. split; [eapply get_file_set_eq; eauto |]. cbn [fdata].
    apply prefix_full; [exact Hp' |]. pose proof (prefix_length _ _ Hp') as Hle.
    change (length (write_at (fdata f) off (firstn 1 (skipn off x))) = length x). lia.
Qed.

End WithH.
