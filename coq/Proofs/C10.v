(* C10: proofs about Model/C10.v against Model/C10_Spec.v *)
From Coq Require Import List ZArith Bool String Ascii Lia Setoid.
Import ListNotations.
Require Import Verif.Model.C10 Verif.Model.C10_Spec.
Open Scope string_scope.

(* ------------------------------------------------------------------ globs *)
Definition star_loop (p' : string) := fix star_loop (s : string) : bool :=
  glob_match p' s || match s with EmptyString => false | String _ s' => star_loop s' end.

Lemma glob_star p s : glob_match (String star p) s = star_loop p s.
Proof. reflexivity. Qed.
Lemma star_loop_unfold p s :
  star_loop p s = glob_match p s || match s with EmptyString => false | String _ s' => star_loop p s' end.
Proof. destruct s; reflexivity. Qed.
Lemma glob_nonstar c p s : c <> star ->
  glob_match (String c p) s =
  match s with EmptyString => false | String d s' => (Ascii.eqb c qmark || Ascii.eqb c d) && glob_match p s' end.
Proof.
  intro H. cbn [glob_match]. destruct (Ascii.eqb_spec c star) as [E|E]; [contradiction|]. destruct s; reflexivity.
Qed.

Lemma star_loop_iff p s :
  (forall t, glob_match p t = true <-> Matches p t) ->
  star_loop p s = true <-> exists k t, s = k ++ t /\ Matches p t.
Proof.
  intro IH. induction s as [|a s IHs]; rewrite star_loop_unfold.
  - rewrite orb_false_r, IH. split.
    + intro H. exists EmptyString, EmptyString. split; [reflexivity|exact H].
    + intros (k & t & E & H). destruct k; [|discriminate]. simpl in E. subst t. exact H.
  - rewrite orb_true_iff, IH, IHs. split.
    + intros [H|(k & t & -> & H)].
      * exists EmptyString, (String a s). split; [reflexivity|exact H].
      * exists (String a k), t. split; [reflexivity|exact H].
    + intros (k & t & E & H). destruct k as [|b k]; simpl in E.
      * left. subst t. exact H.
      * right. injection E as -> ->. exists k, t. split; [reflexivity|exact H].
Qed.

Theorem glob_match_iff p : forall s, glob_match p s = true <-> Matches p s.
Proof.
  induction p as [|c p IH]; intro s.
  - destruct s; simpl; split; intro H; try constructor; try discriminate; inversion H.
  - destruct (Ascii.eqb_spec c star) as [->|Hne].
    + rewrite glob_star, (star_loop_iff p s IH). split.
      * intros (k & t & -> & Hm). constructor. exact Hm.
      * intro H. inversion H; subst; try congruence.
        eexists; eexists; split; [reflexivity|assumption].
    + rewrite glob_nonstar by exact Hne. destruct s as [|d s].
      * split; [discriminate|]. intro H. inversion H; subst; congruence.
      * rewrite andb_true_iff, IH. split.
        -- intros [H1 H2]. destruct (Ascii.eqb_spec c qmark) as [->|Hq].
           ++ constructor. exact H2.
           ++ simpl in H1. apply Ascii.eqb_eq in H1. subst d. apply M_lit; assumption.
        -- intro H. inversion H; subst.
           ++ congruence.
           ++ split; [reflexivity|assumption].
           ++ split; [|assumption]. rewrite Ascii.eqb_refl. apply orb_true_r.
Qed.

(* ------------------------------------------------------------------ split / parse_directive *)
Lemma split_nonempty sep s : split sep s <> [].
Proof.
  induction s as [|c r IH]; simpl; [discriminate|].
  destruct (Ascii.eqb c sep); [discriminate|]. destruct (split sep r); discriminate.
Qed.

Lemma join_cons sep x l : l <> [] -> join sep (x :: l) = x ++ String sep (join sep l).
Proof. destruct l; [contradiction|reflexivity]. Qed.

Lemma join_split sep s : join sep (split sep s) = s.
Proof.
  induction s as [|c r IH]; [reflexivity|]. simpl split.
  destruct (Ascii.eqb_spec c sep) as [->|Hne].
  - rewrite join_cons by apply split_nonempty. rewrite IH. reflexivity.
  - pose proof (split_nonempty sep r) as Hn. destruct (split sep r) as [|h t]; [contradiction|].
    destruct t as [|h' t'].
    + simpl in *. rewrite IH. reflexivity.
    + rewrite join_cons by discriminate. rewrite join_cons in IH by discriminate.
      rewrite <- IH. reflexivity.
Qed.

Lemma split_no_sep sep s : forall x, In x (split sep s) -> has_char sep x = false.
Proof.
  induction s as [|c r IH]; simpl split; intros x Hin.
  - destruct Hin as [<-|[]]. reflexivity.
  - destruct (Ascii.eqb_spec c sep) as [->|Hne].
    + destruct Hin as [<-|Hin]; [reflexivity|]. apply IH. exact Hin.
    + pose proof (split_nonempty sep r) as Hn. destruct (split sep r) as [|h t]; [contradiction|].
      destruct Hin as [<-|Hin].
      * simpl. rewrite (IH h (or_introl eq_refl)). rewrite orb_false_r.
        apply Ascii.eqb_neq. intro E. apply Hne. symmetry. exact E.
      * apply IH. right. exact Hin.
Qed.

(* uniqueness: any list of separator-free fields that joins to s is what split returns *)
Lemma split_join sep l : l <> [] -> (forall x, In x l -> has_char sep x = false) -> split sep (join sep l) = l.
Proof.
  induction l as [|x l IH]; intros Hne Hall; [contradiction|].
  destruct l as [|y l'].
  - simpl join. assert (Hx : has_char sep x = false) by (apply Hall; left; reflexivity).
    clear -Hx. induction x as [|c r IHr]; [reflexivity|]. simpl in Hx. apply orb_false_iff in Hx as [H1 H2].
    simpl. rewrite Ascii.eqb_sym in H1. rewrite H1. rewrite (IHr H2). reflexivity.
  - rewrite join_cons by discriminate.
    assert (Hx : has_char sep x = false) by (apply Hall; left; reflexivity).
    assert (IH' : split sep (join sep (y :: l')) = y :: l').
    { apply IH; [discriminate|]. intros z Hz. apply Hall. right. exact Hz. }
    remember (join sep (y :: l')) as J. clear IH Hall HeqJ Hne. induction x as [|c r IHr].
    + simpl. rewrite Ascii.eqb_refl, IH'. reflexivity.
    + simpl in Hx. apply orb_false_iff in Hx as [H1 H2]. rewrite Ascii.eqb_sym in H1.
      simpl. rewrite H1. simpl in IHr. rewrite (IHr H2). reflexivity.
Qed.

Lemma prefix_app p s : prefix p s = true -> s = p ++ drop (String.length p) s.
Proof.
  revert s. induction p as [|c p IH]; intros s H; [reflexivity|].
  destruct s as [|d s]; [discriminate|]. simpl in H.
  destruct (ascii_dec c d) as [->|]; [|discriminate]. simpl. rewrite <- (IH s H). reflexivity.
Qed.
Lemma prefix_app_true p s : prefix p (p ++ s) = true.
Proof. induction p as [|c p IH]; [destruct s; reflexivity|]. simpl. destruct (ascii_dec c c); [exact IH|contradiction]. Qed.
Lemma drop_app p s : drop (String.length p) (p ++ s) = s.
Proof. induction p; [reflexivity|exact IHp]. Qed.

(* parseDirective: the text after "//lint:" is cut at every single space *)
Theorem parse_directive_spec s c args :
  parse_directive s = Some (c, args) <->
  s = lint_prefix ++ join space (c :: args) /\ forall x, In x (c :: args) -> has_char space x = false.
Proof.
  unfold parse_directive. split.
  - destruct (prefix lint_prefix s) eqn:P; [|discriminate].
    destruct (split space (drop 7 s)) as [|h t] eqn:E; [discriminate|]. intro H. injection H as -> ->.
    split.
    + rewrite <- E, join_split. exact (prefix_app lint_prefix s P).
    + intros x Hx. apply (split_no_sep space (drop 7 s)). rewrite E. exact Hx.
  - intros [-> Hall]. rewrite prefix_app_true.
    change 7%nat with (String.length lint_prefix). rewrite drop_app.
    rewrite split_join; [reflexivity|discriminate|exact Hall].
Qed.
Theorem parse_directive_none s : parse_directive s = None <-> prefix lint_prefix s = false.
Proof.
  unfold parse_directive. destruct (prefix lint_prefix s); split; intro H; try reflexivity; try discriminate.
  pose proof (split_nonempty space (drop 7 s)). destruct (split space (drop 7 s)); [contradiction|discriminate].
Qed.

(* ------------------------------------------------------------------ "has a reason" in terms of the comment text *)
Fixpoint all_space (s : string) : bool :=
  match s with EmptyString => true | String c r => Ascii.eqb c space && all_space r end.

Lemma all_space_app a b : all_space (a ++ b) = all_space a && all_space b.
Proof. induction a as [|c a IH]; [reflexivity|]. simpl. rewrite IH, andb_assoc. reflexivity. Qed.
Lemma all_space_nospace x : has_char space x = false -> (all_space x = true <-> x = EmptyString).
Proof.
  destruct x as [|c x]; [intros _; split; reflexivity|]. cbn [has_char all_space]. intro H. apply orb_false_iff in H as [H _].
  rewrite Ascii.eqb_sym, H. cbn [andb]. split; discriminate.
Qed.
Lemma app_empty a b : (a ++ b)%string = EmptyString <-> a = EmptyString /\ b = EmptyString.
Proof. destruct a; simpl; split; [auto|intros [_ H]; exact H|discriminate|intros [H _]; discriminate]. Qed.

Lemma concat_all_empty_iff r :
  (forall x, In x r -> has_char space x = false) ->
  (concat_all r = EmptyString <-> all_space (join space r) = true).
Proof.
  induction r as [|x r IH]; intro Hall; [split; reflexivity|].
  assert (Hx := Hall x (or_introl eq_refl)).
  assert (Hr : forall y, In y r -> has_char space y = false) by (intros; apply Hall; right; assumption).
  simpl concat_all. rewrite app_empty, (IH Hr). destruct r as [|y r'].
  - cbn [join all_space]. pose proof (all_space_nospace x Hx). tauto.
  - rewrite (join_cons space x (y :: r')) by discriminate. rewrite all_space_app. cbn [all_space]. rewrite Ascii.eqb_refl. cbn [andb].
    rewrite andb_true_iff. pose proof (all_space_nospace x Hx). tauto.
Qed.

(* a directive has a reason iff the text after the name list contains a character other than a space *)
Theorem has_reason_text s c args :
  parse_directive s = Some (c, args) ->
  (has_reason args = true <-> exists names rest, args = names :: rest /\ all_space (join space rest) = false).
Proof.
  intro H. apply parse_directive_spec in H as [_ Hall].
  destruct args as [|names rest]; cbn [has_reason].
  - split; [discriminate|]. intros (? & ? & E & _). discriminate.
  - assert (Hr : forall y, In y rest -> has_char space y = false) by (intros; apply Hall; right; right; assumption).
    pose proof (concat_all_empty_iff rest Hr) as E. rewrite negb_true_iff. split.
    + intro Hn. exists names, rest. split; [reflexivity|]. destruct (all_space (join space rest)); [|reflexivity].
      rewrite (proj2 E eq_refl) in Hn. discriminate.
    + intros (n & r & Eq & Hs). injection Eq as <- <-. apply String.eqb_neq. intro Hc. rewrite (proj1 E Hc) in Hs. discriminate.
Qed.

(* ------------------------------------------------------------------ parseDirectives *)
Open Scope list_scope.
Definition wf_b (d : sdir) : bool := is_ignore_cmd (sd_cmd d) && has_reason (sd_args d).

Lemma parse_directives_eq dirs :
  parse_directives dirs = (map ignore_of (filter wf_b dirs), map malformed_diag (filter malformed_b dirs)).
Proof.
  induction dirs as [|d r IH]; [reflexivity|]. simpl. rewrite IH. unfold wf_b, malformed_b.
  destruct (is_ignore_cmd (sd_cmd d)); simpl; [|reflexivity].
  destruct (has_reason (sd_args d)); reflexivity.
Qed.

(* ------------------------------------------------------------------ the ignore loop *)
Lemma ig_match_set_sev ig s d : ig_match ig (set_sev s d) = ig_match ig d.
Proof. destruct ig; reflexivity. Qed.
Lemma set_sev_set_sev s t d : set_sev s (set_sev t d) = set_sev s d.
Proof. reflexivity. Qed.

Lemma existsb_ext' {A} (f g : A -> bool) l : (forall x, f x = g x) -> existsb f l = existsb g l.
Proof. intro H. induction l; simpl; [reflexivity|]. rewrite H, IHl. reflexivity. Qed.

Definition apply_all (igs : list ignore) (ds : list diag) : list diag :=
  map (fun d => if existsb (fun ig => ig_match ig d) igs then set_sev SevIgnored d else d) ds.

Lemma existsb_apply_ignore ig ig' ds : existsb (ig_match ig) (apply_ignore ig' ds) = existsb (ig_match ig) ds.
Proof.
  unfold apply_ignore. induction ds as [|d r IH]; [reflexivity|]. simpl. rewrite IH.
  destruct (ig_match ig' d); [rewrite ig_match_set_sev|]; reflexivity.
Qed.
Lemma unmatched_of_apply allowed ig ig' ds : unmatched_of allowed ig (apply_ignore ig' ds) = unmatched_of allowed ig ds.
Proof. destruct ig; [|reflexivity]. unfold unmatched_of. rewrite existsb_apply_ignore. reflexivity. Qed.
Lemma flat_map_ext_in' {A B} (f g : A -> list B) l : (forall x, f x = g x) -> flat_map f l = flat_map g l.
Proof. intro H. induction l; simpl; [reflexivity|]. rewrite H, IHl. reflexivity. Qed.

Lemma run_ignores_eq allowed igs : forall ds more,
  run_ignores allowed igs ds more = (apply_all igs ds, more ++ flat_map (fun ig => unmatched_of allowed ig ds) igs).
Proof.
  induction igs as [|ig r IH]; intros ds more; simpl.
  - unfold apply_all. simpl. rewrite map_id, app_nil_r. reflexivity.
  - rewrite IH. f_equal.
    + unfold apply_all, apply_ignore. rewrite map_map. apply map_ext. intro d. simpl.
      destruct (ig_match ig d) eqn:E; simpl.
      * rewrite (existsb_ext' _ (fun ig0 => ig_match ig0 d)) by (intro; apply ig_match_set_sev).
        destruct (existsb _ r); reflexivity.
      * reflexivity.
    + rewrite <- app_assoc. f_equal. f_equal.
      apply flat_map_ext_in'. intro x. apply unmatched_of_apply.
Qed.

Definition impl_igs (dirs : list sdir) := map ignore_of (filter wf_b dirs).
Theorem filter_ignored_eq ds dirs allowed :
  filter_ignored ds dirs allowed =
  apply_all (impl_igs dirs) ds ++ map malformed_diag (filter malformed_b dirs) ++
  flat_map (fun ig => unmatched_of allowed ig ds) (impl_igs dirs).
Proof. unfold filter_ignored. rewrite parse_directives_eq, run_ignores_eq. reflexivity. Qed.

(* ------------------------------------------------------------------ model matching = specified matching *)
Lemma is_ignore_cmd_cases c : is_ignore_cmd c = true <-> c = "ignore" \/ c = "file-ignore".
Proof. unfold is_ignore_cmd. rewrite orb_true_iff, !String.eqb_eq. reflexivity. Qed.

Lemma names_match_names_of d cat :
  names_match (names_of (sd_args d)) cat = existsb (fun c => glob_match (lower c) (lower cat)) (dir_names d).
Proof.
  unfold names_match, names_of, dir_names. destruct (sd_args d) as [|a0 rest]; [reflexivity|].
  induction (split comma a0) as [|x l0 IH]; [reflexivity|]. simpl. rewrite IH. reflexivity.
Qed.

Lemma ig_match_ignore_of d x : wf_b d = true -> ig_match (ignore_of d) x = suppresses_b d x.
Proof.
  unfold wf_b, suppresses_b, ignore_of. intro H. apply andb_true_iff in H as [Hc Hr]. rewrite Hr.
  apply is_ignore_cmd_cases in Hc. destruct Hc as [Hc|Hc]; rewrite Hc; simpl;
    rewrite names_match_names_of; rewrite ?orb_false_r, ?andb_true_r, ?andb_assoc; reflexivity.
Qed.
Lemma suppresses_b_wf d x : suppresses_b d x = true -> wf_b d = true.
Proof.
  unfold suppresses_b, wf_b. intro H. rewrite !andb_true_iff in H. destruct H as [[[Hr _] Hc] _].
  rewrite Hr, andb_true_r. apply is_ignore_cmd_cases. rewrite orb_true_iff, andb_true_iff, !String.eqb_eq in Hc. tauto.
Qed.

Lemma existsb_igs dirs x :
  existsb (fun ig => ig_match ig x) (impl_igs dirs) = existsb (fun d => suppresses_b d x) dirs.
Proof.
  unfold impl_igs. induction dirs as [|d r IH]; [reflexivity|]. simpl.
  destruct (wf_b d) eqn:W; simpl.
  - rewrite IH, (ig_match_ignore_of d x W). reflexivity.
  - rewrite IH. destruct (suppresses_b d x) eqn:S; [|reflexivity].
    apply suppresses_b_wf in S. congruence.
Qed.

Lemma apply_all_spec ds dirs : apply_all (impl_igs dirs) ds = spec_main ds dirs.
Proof.
  unfold apply_all, spec_main, spec_sev. apply map_ext. intro x. rewrite existsb_igs.
  destruct (existsb _ dirs); [reflexivity|]. destruct x; reflexivity.
Qed.

Theorem suppresses_b_iff d x : suppresses_b d x = true <-> suppresses d x.
Proof.
  unfold suppresses_b, suppresses, name_matches. rewrite !andb_true_iff, orb_true_iff, andb_true_iff, !String.eqb_eq, Z.eqb_eq, existsb_exists.
  split.
  - intros [[[Hr Hf] Hc] (c & Hin & Hm)]. repeat split; try assumption. exists c. split; [exact Hin|]. apply glob_match_iff. exact Hm.
  - intros (Hr & Hf & Hc & c & Hin & Hm). repeat split; try assumption. exists c. split; [exact Hin|]. apply glob_match_iff. exact Hm.
Qed.

(* ------------------------------------------------------------------ headline statements *)
Theorem main_part ds dirs allowed :
  exists extras, filter_ignored ds dirs allowed = spec_main ds dirs ++ extras /\
    extras = map malformed_diag (filter malformed_b dirs) ++ flat_map (fun ig => unmatched_of allowed ig ds) (impl_igs dirs).
Proof. eexists. split; [|reflexivity]. rewrite filter_ignored_eq, apply_all_spec. reflexivity. Qed.

Lemma nth_error_spec_main ds dirs i x :
  nth_error ds i = Some x -> nth_error (spec_main ds dirs) i = Some (set_sev (spec_sev dirs x) x).
Proof. intro H. unfold spec_main. rewrite nth_error_map, H. reflexivity. Qed.

Theorem ignored_iff_thm ds dirs allowed i x :
  nth_error ds i = Some x ->
  exists y, nth_error (filter_ignored ds dirs allowed) i = Some y /\
    set_sev (d_sev x) y = x /\
    (d_sev y = SevIgnored <-> d_sev x = SevIgnored \/ exists d, In d dirs /\ suppresses d x).
Proof.
  intro H. destruct (main_part ds dirs allowed) as (extras & -> & _).
  exists (set_sev (spec_sev dirs x) x). split; [|split].
  - rewrite nth_error_app1; [apply nth_error_spec_main; exact H|].
    unfold spec_main. rewrite map_length. apply nth_error_Some. congruence.
  - destruct x; reflexivity.
  - unfold spec_sev. simpl. destruct (existsb (fun d => suppresses_b d x) dirs) eqn:E.
    + split; [|reflexivity]. intros _. right. apply existsb_exists in E as (d & Hin & Hs).
      exists d. split; [exact Hin|]. apply suppresses_b_iff. exact Hs.
    + split; [intro Hs; left; exact Hs|]. intros [Hs|(d & Hin & Hs)]; [exact Hs|].
      apply suppresses_b_iff in Hs. assert (existsb (fun d => suppresses_b d x) dirs = true).
      { apply existsb_exists. exists d. split; assumption. } congruence.
Qed.

(* every field other than the severity, and the order, survive; severities only ever move to "ignored" *)
Theorem others_unchanged_thm ds dirs allowed :
  exists main extras, filter_ignored ds dirs allowed = main ++ extras /\
    Forall2 (fun x y => y = x \/ y = set_sev SevIgnored x) ds main.
Proof.
  destruct (main_part ds dirs allowed) as (extras & E & _). exists (spec_main ds dirs), extras. split; [exact E|].
  unfold spec_main. clear E. induction ds as [|x r IH]; simpl; constructor; [|exact IH].
  unfold spec_sev. destruct (existsb _ dirs); [right; reflexivity|left; destruct x; reflexivity].
Qed.

(* malformed: one compile error each, at the node position, in directive order; and no ignore is created *)
Theorem malformed_is_error_thm ds dirs allowed :
  exists unm, filter_ignored ds dirs allowed =
      spec_main ds dirs ++ map malformed_diag (filter malformed_b dirs) ++ unm /\
    Forall (fun u => d_cat u = "staticcheck") unm /\
    forall d, malformed d -> forall x, ~ suppresses d x.
Proof.
  exists (flat_map (fun ig => unmatched_of allowed ig ds) (impl_igs dirs)). split; [|split].
  - rewrite filter_ignored_eq, apply_all_spec. reflexivity.
  - apply Forall_forall. intros u Hu. apply in_flat_map in Hu as (ig & _ & Hu).
    destruct ig; simpl in Hu; [|contradiction]. destruct (_ && _) in Hu; [|contradiction].
    destruct Hu as [<-|[]]. reflexivity.
  - intros d [_ Hr] x (Hr' & _). congruence.
Qed.

(* ------------------------------------------------------------------ unmatched directives *)
Definition impl_report (allowed : allowed_t) (ds : list diag) (d : sdir) : bool :=
  String.eqb (sd_cmd d) "ignore" && has_reason (sd_args d) && negb (existsb (suppresses_b d) ds) &&
  could_have_matched allowed (names_of (sd_args d)).

Lemma unmatched_part_eq allowed ds dirs :
  flat_map (fun ig => unmatched_of allowed ig ds) (impl_igs dirs) =
  flat_map (fun d => if impl_report allowed ds d then [unmatched_diag (sd_dpos d)] else []) dirs.
Proof.
  unfold impl_igs. induction dirs as [|d r IH]; [reflexivity|]. simpl.
  destruct (wf_b d) eqn:W.
  - simpl. rewrite IH. f_equal. unfold impl_report.
    pose proof W as W'. unfold wf_b in W'. apply andb_true_iff in W' as [Hc Hr]. rewrite Hr.
    apply is_ignore_cmd_cases in Hc. unfold ignore_of. destruct Hc as [Hc|Hc]; rewrite Hc; simpl; [|reflexivity].
    assert (E : existsb (ig_match (LineIg (p_file (sd_npos d)) (p_line (sd_npos d)) (names_of (sd_args d)) (sd_dpos d))) ds
                = existsb (suppresses_b d) ds).
    { apply existsb_ext'. intro x. rewrite <- (ig_match_ignore_of d x W). unfold ignore_of. rewrite Hc. reflexivity. }
    simpl in E. rewrite E. reflexivity.
  - rewrite IH. unfold impl_report. unfold wf_b in W.
    destruct (String.eqb (sd_cmd d) "ignore") eqn:Hc; [|reflexivity].
    apply String.eqb_eq in Hc. unfold is_ignore_cmd in W. rewrite Hc in W. simpl in W. rewrite W. reflexivity.
Qed.

(* exact characterisation of couldHaveMatched: the first decisive name decides *)
Theorem chm_iff allowed cs :
  could_have_matched allowed cs = true <->
  exists pre c post, cs = pre ++ c :: post /\ enabled_name allowed c = true /\ names_u1000 c = false /\
                     forall x, In x pre -> names_u1000 x = false /\ enabled_name allowed x = false.
Proof.
  induction cs as [|c r IH]; simpl.
  - split; [discriminate|]. intros (pre & c & post & E & _). destruct pre; discriminate.
  - destruct (names_u1000 c) eqn:U.
    + split; [discriminate|]. intros (pre & c' & post & E & He & Hu & Hpre). destruct pre as [|p pre]; simpl in E; injection E as <- ->.
      * congruence.
      * destruct (Hpre c (or_introl eq_refl)). congruence.
    + destruct (enabled_name allowed c) eqn:En.
      * split; [|reflexivity]. intros _. exists [], c, r. split; [reflexivity|]. split; [exact En|]. split; [exact U|]. intros z [].
      * rewrite IH. split.
        -- intros (pre & c' & post & -> & He & Hu & Hpre). exists (c :: pre), c', post.
           split; [reflexivity|]. split; [exact He|]. split; [exact Hu|].
           intros z [<-|Hz]; [split; assumption|apply Hpre; exact Hz].
        -- intros (pre & c' & post & E & He & Hu & Hpre). destruct pre as [|p pre]; simpl in E; injection E as <- ->.
           ++ congruence.
           ++ exists pre, c', post. split; [reflexivity|]. split; [exact He|]. split; [exact Hu|].
              intros z Hz. apply Hpre. right. exact Hz.
Qed.

Lemma enabled_name_iff allowed c :
  enabled_name allowed c = true <-> exists a, In (a, true) allowed /\ Matches c a.
Proof.
  unfold enabled_name. rewrite existsb_exists. split.
  - intros ([a b] & Hin & H). simpl in H. apply andb_true_iff in H as [-> H]. exists a. split; [exact Hin|apply glob_match_iff; exact H].
  - intros (a & Hin & H). exists (a, true). split; [exact Hin|]. simpl. apply glob_match_iff. exact H.
Qed.

Lemma in_names_of d c : In c (names_of (sd_args d)) <-> exists c0, In c0 (dir_names d) /\ c = lower c0.
Proof.
  unfold names_of, dir_names. destruct (sd_args d); [simpl; split; [tauto|intros (? & [] & _)]|].
  rewrite in_map_iff. split; intros (c0 & H1 & H2); exists c0; split; auto.
Qed.

(* soundness, unconditional: whenever the implementation reports a directive as useless, the directive is a
   line directive with a reason that suppressed nothing and names an enabled check other than U1000 *)
Theorem report_sound allowed ds d : impl_report allowed ds d = true -> must_report allowed ds d.
Proof.
  unfold impl_report, must_report. rewrite !andb_true_iff, String.eqb_eq, negb_true_iff.
  intros [[[Hc Hr] Hn] Hm]. repeat split; try assumption.
  - intros x Hin Hs. apply suppresses_b_iff in Hs.
    assert (existsb (suppresses_b d) ds = true) by (apply existsb_exists; exists x; split; assumption). congruence.
  - apply chm_iff in Hm as (pre & c & post & E & He & Hu & _).
    assert (Hin : In c (names_of (sd_args d))) by (rewrite E; apply in_or_app; right; left; reflexivity).
    apply in_names_of in Hin as (c0 & Hin & ->). exists c0. split; [exact Hin|].
    apply enabled_name_iff in He as (a & Ha & Hma). exists a. repeat split; try assumption.
    intros ->. unfold names_u1000 in Hu. apply glob_match_iff in Hma. congruence.
Qed.

(* the statement of the property (both directions) *)
Definition unmatched_reported_full_statement : Prop :=
  forall allowed ds d, impl_report allowed ds d = true <-> must_report allowed ds d.

(* completeness holds when no name of the directive matches U1000 *)
Definition u1000_free (d : sdir) : Prop := forall c, In c (dir_names d) -> names_u1000 (lower c) = false.
Theorem report_complete_partial allowed ds d :
  u1000_free d -> must_report allowed ds d -> impl_report allowed ds d = true.
Proof.
  intros Hfree (Hc & Hr & Hn & c & Hin & a & Ha & Hne & Hm).
  unfold impl_report. rewrite Hc, Hr. simpl.
  replace (existsb (suppresses_b d) ds) with false.
  2:{ symmetry. destruct (existsb (suppresses_b d) ds) eqn:E; [|reflexivity].
      apply existsb_exists in E as (x & Hx & Hs). apply suppresses_b_iff in Hs. destruct (Hn x Hx Hs). }
  simpl.
  assert (G : forall l, (forall z, In z l -> names_u1000 z = false) -> (exists z, In z l /\ enabled_name allowed z = true) ->
                        could_have_matched allowed l = true).
  { induction l as [|z l IH]; intros Hu (w & Hw & He); [destruct Hw|]. simpl.
    rewrite (Hu z (or_introl eq_refl)). destruct (enabled_name allowed z) eqn:Ez; [reflexivity|].
    apply IH; [intros; apply Hu; right; assumption|]. destruct Hw as [->|Hw]; [congruence|]. exists w. split; assumption. }
  apply G.
  - intros z Hz. apply in_names_of in Hz as (c0 & Hc0 & ->). apply Hfree. exact Hc0.
  - exists (lower c). split; [apply in_names_of; exists c; split; [exact Hin|reflexivity]|].
    apply enabled_name_iff. exists a. split; assumption.
Qed.

(* ... and fails in general: "U1000,SA4006" with SA4006 enabled on a line without problems is never reported
   (F10: couldHaveMatched returns at the first name that is U1000) *)
Definition f10_dir := mkDir "ignore" ["U1000,SA4006"; "reason"] (mkPos "a.go" 3 2) (mkPos "a.go" 4 2).
Definition f10_allowed : allowed_t := [("sa4006", true); ("u1000", true)].
Lemma f10_must_report : must_report f10_allowed [] f10_dir.
Proof.
  unfold must_report. repeat split; try reflexivity.
  - intros x [].
  - exists "SA4006". split; [right; left; reflexivity|]. exists "sa4006". repeat split.
    + left. reflexivity.
    + discriminate.
    + apply glob_match_iff. reflexivity.
Qed.
Theorem unmatched_reported_full_refuted : ~ unmatched_reported_full_statement.
Proof. intro H. pose proof (proj2 (H f10_allowed [] f10_dir) f10_must_report) as E. vm_compute in E. discriminate. Qed.

(* reversing the order of the names repairs this instance *)
Lemma f10_reversed_reported :
  impl_report f10_allowed [] (mkDir "ignore" ["SA4006,U1000"; "reason"] (mkPos "a.go" 3 2) (mkPos "a.go" 4 2)) = true.
Proof. reflexivity. Qed.

Theorem unmatched_extras_thm ds dirs allowed :
  exists main mal, filter_ignored ds dirs allowed =
    main ++ mal ++ flat_map (fun d => if impl_report allowed ds d then [unmatched_diag (sd_dpos d)] else []) dirs.
Proof.
  exists (spec_main ds dirs), (map malformed_diag (filter malformed_b dirs)).
  rewrite filter_ignored_eq, apply_all_spec, unmatched_part_eq. reflexivity.
Qed.

(* when every directive is free of U1000-matching names the whole output is the specified one *)
Lemma must_report_b_iff allowed ds d : must_report_b allowed ds d = true <-> must_report allowed ds d.
Proof.
  unfold must_report_b, must_report, reportable, reportable_b, names_enabled_non_u1000.
  rewrite !andb_true_iff, String.eqb_eq, negb_true_iff. split.
  - intros [[[Hc Hr] Hn] Hm]. repeat split; try assumption.
    + intros x Hin Hs. apply suppresses_b_iff in Hs.
      assert (existsb (suppresses_b d) ds = true) by (apply existsb_exists; exists x; split; assumption). congruence.
    + apply existsb_exists in Hm as (c & Hin & Hm). apply existsb_exists in Hm as ([a b] & Ha & Hm). simpl in Hm.
      rewrite !andb_true_iff, negb_true_iff in Hm. destruct Hm as [[-> Hne] Hm].
      exists c. split; [exact Hin|]. exists a. repeat split; [exact Ha|apply String.eqb_neq; exact Hne|apply glob_match_iff; exact Hm].
  - intros (Hc & Hr & Hn & c & Hin & a & Ha & Hne & Hm). repeat split; try assumption.
    + destruct (existsb (suppresses_b d) ds) eqn:E; [|reflexivity].
      apply existsb_exists in E as (x & Hx & Hs). apply suppresses_b_iff in Hs. destruct (Hn x Hx Hs).
    + apply existsb_exists. exists c. split; [exact Hin|]. apply existsb_exists. exists (a, true). split; [exact Ha|]. simpl.
      apply String.eqb_neq in Hne. rewrite Hne. simpl. apply glob_match_iff. exact Hm.
Qed.

Theorem output_is_spec ds dirs allowed :
  (forall d, In d dirs -> u1000_free d) ->
  filter_ignored ds dirs allowed = spec_main ds dirs ++ spec_extras ds dirs allowed.
Proof.
  intro Hfree. rewrite filter_ignored_eq, apply_all_spec, unmatched_part_eq. f_equal. unfold spec_extras. f_equal.
  - induction dirs as [|d r IH]; [reflexivity|]. simpl. destruct (malformed_b d); simpl; rewrite IH; auto.
    intros; apply Hfree; right; assumption. intros; apply Hfree; right; assumption.
  - induction dirs as [|d r IH]; [reflexivity|]. simpl. rewrite IH by (intros; apply Hfree; right; assumption). f_equal.
    assert (E : impl_report allowed ds d = must_report_b allowed ds d).
    { destruct (impl_report allowed ds d) eqn:I.
      - symmetry. apply must_report_b_iff. apply report_sound. exact I.
      - destruct (must_report_b allowed ds d) eqn:M; [|reflexivity].
        apply must_report_b_iff in M. apply (report_complete_partial allowed ds d (Hfree d (or_introl eq_refl))) in M. congruence. }
    rewrite E. reflexivity.
Qed.

(* ------------------------------------------------------------------ U1000 *)
Theorem u1000_ignored_iff dirs p :
  u1000_ignored dirs p = true <-> exists d, In d dirs /\ u1000_suppresses d p.
Proof.
  unfold u1000_ignored, u1000_keys. rewrite existsb_exists. split.
  - intros (k & Hk & Hc). apply in_flat_map in Hk as (d & Hd & Hk). exists d. split; [exact Hd|].
    unfold u1000_key in Hk. destruct (is_ignore_cmd (sd_cmd d) && has_reason (sd_args d) && u1000_named (sd_args d)) eqn:E; [|destruct Hk].
    destruct Hk as [<-|[]]. rewrite !andb_true_iff in E. destruct E as [[Hc' Hr] Hn].
    unfold key_covers in Hc. simpl in Hc. apply andb_true_iff in Hc as [Hf Hl]. apply String.eqb_eq in Hf.
    unfold u1000_suppresses. split; [exact Hr|]. split; [symmetry; exact Hf|]. split.
    + apply is_ignore_cmd_cases in Hc'. destruct Hc' as [Hc'|Hc']; rewrite Hc' in Hl; simpl in Hl.
      * left. split; [exact Hc'|]. apply Z.eqb_eq in Hl. symmetry. exact Hl.
      * right. exact Hc'.
    + unfold u1000_named in Hn. apply existsb_exists in Hn as (c & Hin & Hm).
      apply in_names_of in Hin as (c0 & Hin & ->). exists c0. split; [exact Hin|]. apply glob_match_iff. exact Hm.
  - intros (d & Hd & Hr & Hf & Hc & c & Hin & Hm).
    assert (Hcmd : is_ignore_cmd (sd_cmd d) = true) by (apply is_ignore_cmd_cases; tauto).
    assert (Hn : u1000_named (sd_args d) = true).
    { unfold u1000_named. apply existsb_exists. exists (lower c). split; [apply in_names_of; exists c; split; [exact Hin|reflexivity]|].
      apply glob_match_iff. exact Hm. }
    eexists. split.
    + apply in_flat_map. exists d. split; [exact Hd|]. unfold u1000_key. rewrite Hcmd, Hr, Hn. left. reflexivity.
    + unfold key_covers. simpl. rewrite Hf, String.eqb_refl. simpl.
      destruct Hc as [[Hc Hl]|Hc]; rewrite Hc; simpl; [apply Z.eqb_eq; symmetry; exact Hl|reflexivity].
Qed.
