(* C02 — the theorems about [wf_ssa] in their final form (hypothesis: the validator accepted). *)
From Coq Require Import List NArith Bool Permutation.
Import ListNotations.
Require Import Verif.Lib.Graphs Verif.Model.C02 Verif.Proofs.C02_Paths Verif.Proofs.C02 Verif.Proofs.C02_Types.
Local Open Scope N_scope.

Section Main.
Variable T : tytable.
Variable f : func.
Hypothesis Hwf : wf_ssa T f = true.

Theorem wf_def_before_use : forall B j i s ty,
  instr_at f B j = Some i -> kind_eqb (i_kind i) KPhi = false -> In (VI s, ty) (i_ops i) ->
  exists D k idef, instr_at f D k = Some idef /\ i_seq idef = s /\ is_value idef = true /\
    forall h, ipath f (B, j) h -> In (D, k) h.
Proof. destruct (wf_ssa_facts T f Hwf) as (d & AF). exact (def_before_use T f d AF). Qed.

Theorem wf_def_before_phi_edge : forall B j i e s ty P,
  instr_at f B j = Some i -> kind_eqb (i_kind i) KPhi = true ->
  nth_error (i_ops i) e = Some (VI s, ty) -> nth_error (b_preds (blk f B)) e = Some P ->
  exists D k idef, instr_at f D k = Some idef /\ i_seq idef = s /\ is_value idef = true /\
    forall h last, last + 1 = blen f P -> ipath f (P, last) h -> In (D, k) ((P, last) :: h).
Proof. destruct (wf_ssa_facts T f Hwf) as (d & AF). exact (def_before_phi_edge T f d AF). Qed.

Theorem wf_preds_succs_inverse : forall a b bla blb,
  nth_error (f_blocks f) (N.to_nat a) = Some bla -> nth_error (f_blocks f) (N.to_nat b) = Some blb ->
  count b (b_succs bla) = count a (b_preds blb).
Proof. destruct (wf_ssa_facts T f Hwf) as (d & AF). exact (preds_succs_inverse T f d AF). Qed.

Theorem wf_block_index : forall b bl, nth_error (f_blocks f) (N.to_nat b) = Some bl -> b_index bl = b.
Proof. destruct (wf_ssa_facts T f Hwf) as (d & AF). exact (block_index_is_position T f d AF). Qed.

Theorem wf_referrers_inverse : forall i, In i (all_instrs f) ->
  match i_refs i with
  | Some r => Permutation r (uses f (VI (i_seq i))) /\ i_ty i <> 0
  | None => i_ty i = 0
  end.
Proof. destruct (wf_ssa_facts T f Hwf) as (d & AF). exact (instr_referrers_inverse T f d AF). Qed.

Theorem wf_local_referrers_inverse :
  (forall n l, nth_error (f_params f) (N.to_nat n) = Some l -> Permutation (l_refs l) (uses f (VP n))) /\
  (forall n l, nth_error (f_free f) (N.to_nat n) = Some l -> Permutation (l_refs l) (uses f (VF n))) /\
  (forall n l, nth_error (f_anons f) (N.to_nat n) = Some l -> Permutation (l_refs l) (uses f (VA n))).
Proof. destruct (wf_ssa_facts T f Hwf) as (d & AF). exact (local_referrers_inverse T f d AF). Qed.

Theorem wf_phi_shape : forall b bl k i,
  nth_error (f_blocks f) (N.to_nat b) = Some bl -> nth_error (b_instrs bl) k = Some i ->
  kind_eqb (i_kind i) KPhi = true ->
  length (i_ops i) = length (b_preds bl) /\
  forall k', (k' < k)%nat -> exists i', nth_error (b_instrs bl) k' = Some i' /\ kind_eqb (i_kind i') KPhi = true.
Proof. destruct (wf_ssa_facts T f Hwf) as (d & AF). exact (phi_shape T f d AF). Qed.

Theorem wf_terminators : forall b bl, nth_error (f_blocks f) (N.to_nat b) = Some bl ->
  exists pre last, b_instrs bl = pre ++ [last] /\ is_terminator (i_kind last) = true /\
    arity_ok last (len_N (b_succs bl)) = true /\ forall i, In i pre -> is_terminator (i_kind i) = false.
Proof. destruct (wf_ssa_facts T f Hwf) as (d & AF). exact (terminators T f d AF). Qed.

Theorem wf_types : forall i, In i (all_instrs f) -> instr_typed T f i.
Proof.
  destruct (wf_ssa_facts T f Hwf) as (d & AF). intros i Hi. apply type_ok_sound.
  pose proof (flat_map_nil _ _ (af_type _ _ _ AF) _ Hi) as E. simpl in E.
  destruct (type_ok T f i); [reflexivity|discriminate].
Qed.

End Main.
