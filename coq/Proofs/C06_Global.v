(* C06: the two-level system (package level + one analyzer level per package being analysed, sharing the
   semaphore): invariants for every execution, token accounting, no_deadlock, projections onto the levels. *)
From Coq Require Import List Arith Bool Lia PeanoNat.
Import ListNotations.
Require Import Verif.Model.C06_Map Verif.Model.C06 Verif.Proofs.C06_Base Verif.Proofs.C06_Level.

Ltac gsimp :=
  repeat match goal with
  | |- context [get (set _ ?a _) ?a] => rewrite gss
  | H : context [get (set _ ?a _) ?a] |- _ => rewrite gss in H
  | N : ?a <> ?b |- context [get (set _ ?a _) ?b] => rewrite (gso _ _ a b _ N)
  | N : ?b <> ?a |- context [get (set _ ?a _) ?b] => rewrite (gso _ _ a b _ (not_eq_sym N))
  | N : ?a <> ?b, H : context [get (set _ ?a _) ?b] |- _ => rewrite (gso _ _ a b _ N) in H
  | N : ?b <> ?a, H : context [get (set _ ?a _) ?b] |- _ => rewrite (gso _ _ a b _ (not_eq_sym N)) in H
  end.
Ltac cases x b := destruct (Nat.eq_dec x b) as [?Heq | ?Hne]; [subst x |].

Definition holder := (option nat * nat)%type.
Definition holder_eq_dec : forall x y : holder, {x = y} + {x <> y}.
Proof. decide equality. apply Nat.eq_dec. decide equality. apply Nat.eq_dec. Defined.

Lemma NoDup_remove_fn : forall (x : holder) l, NoDup l -> NoDup (remove holder_eq_dec x l).
Proof.
  induction 1; simpl. constructor.
  destruct (holder_eq_dec x x0). assumption. constructor; auto. intro Hi. apply in_remove in Hi. tauto.
Qed.

Lemma remove_length : forall (x : holder) l, NoDup l -> In x l -> S (length (remove holder_eq_dec x l)) = length l.
Proof.
  induction 1; simpl; intros. contradiction.
  destruct (holder_eq_dec x x0).
  - subst. rewrite notin_remove by assumption. reflexivity.
  - simpl. rewrite IHNoDup. reflexivity. destruct H1; [congruence | assumption].
Qed.

Section GlobalProofs.
Variables Rp Ra : Type.
Variables (strict : bool) (GG : gdag) (cap : nat).
Hypothesis WFT : wf_dag (gtopd GG).
Hypothesis CAP : 1 <= cap.

Notation gstate := (gstate Rp Ra).
Notation glabel := (glabel Rp Ra).
Notation gstep := (gstep strict GG cap).
Notation GT := (gtopd GG).
Notation GI := (ginnerd GG).

(* executions of the two-level system *)
Inductive grun_rel : list glabel -> gstate -> Prop :=
| gr_nil : grun_rel [] (ginit GG cap)
| gr_snoc : forall tr s l s', grun_rel tr s -> gstep s l = Some s' -> grun_rel (tr ++ [l]) s'.

(* ghost: who holds a token *)
Definition holdsg (s : gstate) (x : holder) : bool :=
  match x with
  | (None, a) => holdsb Rp (gtop s) a
  | (Some p, a) => match get (ginner s) p with Some si => holdsb Ra si a | None => false end
  end.

Definition hold_step (hold : list holder) (l : glabel) : list holder :=
  match l with
  | GTop (ESpawn b) => (None, b) :: hold
  | GTop (ERel a) => remove holder_eq_dec (None, a) hold
  | GIn p (ESpawn b) => (Some p, b) :: hold
  | GIn p (ERel a) => remove holder_eq_dec (Some p, a) hold
  | _ => hold
  end.

Record GInv (s : gstate) (hold : list holder) : Prop := mkGInv {
  gi_top : exists g, Inv Rp true GT (gtop s) g;
  gi_in : forall p si, get (ginner s) p = Some si -> wf_dag (GI p) /\ exists g, Inv Ra false (GI p) si g;
  gi_free : gfree s + length hold = cap;
  gi_nodup : NoDup hold;
  gi_hold : forall x, In x hold <-> holdsg s x = true;
  gi_over : gover s = false }.

Lemma GInv_init : GInv (ginit GG cap) [].
Proof.
  constructor; unfold ginit; simpl; intros.
  - eexists. apply Inv_init. assumption.
  - rewrite get_const in H. discriminate.
  - lia.
  - constructor.
  - split; intros. contradiction. exfalso. destruct x as [[p |] a]; simpl in H.
    + rewrite get_const in H. discriminate.
    + unfold holdsb, init in H. simpl in H. rewrite get_const in H. discriminate.
  - reflexivity.
Qed.

(* token bookkeeping of one level step, in terms of the list of holders *)
Lemma hold_level : forall R top G (WF : wf_dag G) (s : lstate R) g free e s' f' (hold : list holder) (mk : nat -> holder),
  (forall a b, mk a = mk b -> a = b) ->
  Inv R top G s g -> step top strict G s free e = Some (s', f') ->
  NoDup hold -> free + length hold = cap ->
  (forall a, In (mk a) hold <-> holdsb R s a = true) ->
  let hold' := match e with ESpawn b => mk b :: hold | ERel a => remove holder_eq_dec (mk a) hold | _ => hold end in
  NoDup hold' /\ f' + length hold' = cap /\ (forall a, In (mk a) hold' <-> holdsb R s' a = true)
  /\ (forall x, (forall a, x <> mk a) -> (In x hold' <-> In x hold)).
Proof.
  intros R top G WF s g free e s' f' hold mk Hinj I H ND Hf Hh hold'.
  pose proof (free_step R top strict G s free e s' f' H) as Hfs.
  pose proof (holds_step R top strict G s g free e s' f' I H) as Hhs.
  destruct e; subst hold'; cbn iota in Hfs;
    try (subst f'; split; [assumption | split; [assumption | split; [| tauto]]];
         intros a0; rewrite (proj1 (Hhs a0)); apply Hh).
  - (* ESpawn *) destruct Hfs as [Hpos ->]. split; [| split; [| split]].
    + constructor; auto. rewrite Hh. rewrite (proj2 (proj2 (Hhs b)) eq_refl). discriminate.
    + simpl. lia.
    + intros a. rewrite (proj1 (Hhs a)). simpl. destruct (Nat.eqb_spec a b).
      * subst. tauto.
      * rewrite <- Hh. split; intros. destruct H0; auto. apply Hinj in H0. congruence. auto.
    + intros x Hx. simpl. split; intros; auto. destruct H0; auto. exfalso. eapply Hx; eauto.
  - (* ERel *) subst f'. assert (Hin : In (mk a) hold). { apply Hh. apply (proj1 (proj2 (Hhs a))). reflexivity. }
    split; [| split; [| split]].
    + apply NoDup_remove_fn. assumption.
    + pose proof (remove_length (mk a) hold ND Hin). lia.
    + intros a0. rewrite (proj1 (Hhs a0)). destruct (Nat.eqb_spec a0 a).
      * subst. split; intros; try discriminate. apply in_remove in H0. tauto.
      * rewrite <- Hh. split; intros. apply in_remove in H0. tauto. apply in_in_remove; [intro E; apply Hinj in E; congruence | assumption].
    + intros x Hx. split; intros. apply in_remove in H0. tauto. apply in_in_remove; [apply Hx | assumption].
Qed.

Lemma le_ltb_false : forall a b, a <= b -> (b <? a) = false.
Proof. intros. apply Nat.ltb_ge. assumption. Qed.

Theorem GInv_step : forall s hold l s', GInv s hold -> gstep s l = Some s' -> GInv s' (hold_step hold l).
Proof.
  intros s hold l s' GI H. destruct GI as [[gt It] Iin Hfree Hnd Hhold Hover].
  destruct l as [e | p | p e]; unfold C06.gstep in H.
  - (* package level *)
    destruct (match e with EEnd p _ => inner_done s p | _ => true end); try discriminate.
    destruct (step true strict GT (gtop s) (gfree s) e) as [[t' f'] |] eqn:Hs; try discriminate.
    inversion H; subst; clear H.
    destruct (hold_level Rp true GT WFT (gtop s) gt (gfree s) e t' f' hold (fun a => (None, a))
                ltac:(intros a b E; inversion E; reflexivity) It Hs Hnd Hfree ltac:(intros a; apply (Hhold (None, a))))
      as [A [B [C D]]].
    assert (Eh : hold_step hold (GTop e) = match e with ESpawn b => (None, b) :: hold | ERel a => remove holder_eq_dec (None, a) hold | _ => hold end)
      by (destruct e; reflexivity).
    rewrite Eh. constructor; simpl.
    + eexists. eapply Inv_step; eauto.
    + assumption.
    + assumption.
    + assumption.
    + intros [[p |] a]; simpl.
      * rewrite D by (intros; discriminate). apply (Hhold (Some p, a)).
      * apply C.
    + rewrite Hover. simpl. apply le_ltb_false. lia.
  - (* runAnalyzers builds its graph *)
    destruct (running s p && isNone (get (ginner s) p) && wf_dagb (GI p)) eqn:Hc; try discriminate.
    inversion H; subst; clear H.
    apply andb_true_iff in Hc. destruct Hc as [Hc Hw]. apply andb_true_iff in Hc. destruct Hc as [Hr Hn].
    apply wf_dagb_sound in Hw.
    assert (En : get (ginner s) p = None) by (destruct (get (ginner s) p); simpl in Hn; congruence).
    constructor; simpl; auto.
    + eauto.
    + intros q si Hq. cases q p; gsimp.
      * inversion Hq; subst. split; auto. eexists. apply Inv_init. assumption.
      * apply Iin. assumption.
    + intros [[q |] a]; simpl.
      * cases q p; gsimp.
        -- rewrite (Hhold (Some p, a)). simpl. rewrite En. unfold holdsb, init. simpl. rewrite get_const. tauto.
        -- apply (Hhold (Some q, a)).
      * apply (Hhold (None, a)).
  - (* analyzer level of package p *)
    destruct (get (ginner s) p) as [si |] eqn:Ep; try discriminate.
    destruct (step false strict (GI p) si (gfree s) e) as [[si' f'] |] eqn:Hs; try discriminate.
    inversion H; subst; clear H.
    destruct (Iin p si Ep) as [Wp [gi Ii]].
    destruct (hold_level Ra false (GI p) Wp si gi (gfree s) e si' f' hold (fun a => (Some p, a))
                ltac:(intros a b E; inversion E; reflexivity) Ii Hs Hnd Hfree
                ltac:(intros a; rewrite (Hhold (Some p, a)); simpl; rewrite Ep; tauto))
      as [A [B [C D]]].
    assert (Eh : hold_step hold (GIn p e) = match e with ESpawn b => (Some p, b) :: hold | ERel a => remove holder_eq_dec (Some p, a) hold | _ => hold end)
      by (destruct e; reflexivity).
    rewrite Eh. constructor; simpl.
    + eauto.
    + intros q sq Hq. cases q p; gsimp.
      * inversion Hq; subst. split; auto. eexists. eapply Inv_step; eauto.
      * apply Iin. assumption.
    + assumption.
    + assumption.
    + intros [[q |] a]; simpl.
      * cases q p; gsimp.
        -- apply C.
        -- rewrite D by (intros a0 E; inversion E; congruence). apply (Hhold (Some q, a)).
      * rewrite D by (intros; discriminate). apply (Hhold (None, a)).
    + rewrite Hover. simpl. apply le_ltb_false. lia.
Qed.

Lemma grun_GInv : forall tr s, grun_rel tr s -> exists hold, GInv s hold.
Proof.
  induction 1. exists []. apply GInv_init.
  destruct IHgrun_rel as [hold I]. eexists. eapply GInv_step; eauto.
Qed.

(* the semaphore never exceeds its capacity, and the number of free tokens plus the number of handlers that
   hold one is the capacity (in particular a token is never released twice) *)
Theorem tokens_conserved : forall tr s, grun_rel tr s ->
  gover s = false /\ exists hold, NoDup hold /\ gfree s + length hold = cap /\ forall x, In x hold <-> holdsg s x = true.
Proof.
  intros tr s H. destruct (grun_GInv _ _ H) as [hold I]. split. apply (gi_over _ _ I).
  exists hold. split. apply (gi_nodup _ _ I). split. apply (gi_free _ _ I). apply (gi_hold _ _ I).
Qed.

(* ---- projections: every level of a global execution is an execution of that level ---- *)
Fixpoint proj_top (tr : list glabel) : list (label Rp) :=
  match tr with [] => [] | GTop e :: r => e :: proj_top r | _ :: r => proj_top r end.
Fixpoint proj_in (p : nat) (tr : list glabel) : list (label Ra) :=
  match tr with [] => [] | GIn q e :: r => if q =? p then e :: proj_in p r else proj_in p r | _ :: r => proj_in p r end.

Lemma proj_top_app : forall t1 t2, proj_top (t1 ++ t2) = proj_top t1 ++ proj_top t2.
Proof. induction t1; simpl; intros. reflexivity. destruct a; simpl; rewrite IHt1; reflexivity. Qed.
Lemma proj_in_app : forall p t1 t2, proj_in p (t1 ++ t2) = proj_in p t1 ++ proj_in p t2.
Proof. induction t1; simpl; intros. reflexivity. destruct a as [e | q | q e]; simpl; auto. destruct (q =? p); simpl; rewrite IHt1; reflexivity. Qed.

Theorem grun_proj : forall tr s, grun_rel tr s ->
  lrun Rp true strict GT (proj_top tr) (gtop s)
  /\ forall p, match get (ginner s) p with
               | Some si => lrun Ra false strict (GI p) (proj_in p tr) si
               | None => proj_in p tr = []
               end.
Proof.
  induction 1.
  - split. constructor. intros. unfold ginit. simpl. rewrite get_const. reflexivity.
  - destruct IHgrun_rel as [Ht Hi]. destruct l as [e | p | p e]; unfold C06.gstep in H0.
    + destruct (match e with EEnd p _ => inner_done s p | _ => true end); try discriminate.
      destruct (step true strict GT (gtop s) (gfree s) e) as [[t' f'] |] eqn:Hs; try discriminate.
      inversion H0; subst; clear H0. simpl. split.
      * rewrite proj_top_app. simpl. econstructor; eauto.
      * intros p. rewrite proj_in_app. simpl. rewrite app_nil_r. apply Hi.
    + destruct (running s p && isNone (get (ginner s) p) && wf_dagb (GI p)) eqn:Hc; try discriminate.
      inversion H0; subst; clear H0. simpl. split.
      * rewrite proj_top_app. simpl. rewrite app_nil_r. assumption.
      * intros q. rewrite proj_in_app. simpl. rewrite app_nil_r. cases q p; gsimp.
        -- apply andb_true_iff in Hc. destruct Hc as [Hc _]. apply andb_true_iff in Hc. destruct Hc as [_ Hn].
           specialize (Hi p). destruct (get (ginner s) p); simpl in Hn; try discriminate. rewrite Hi. constructor.
        -- apply Hi.
    + destruct (get (ginner s) p) as [si |] eqn:Ep; try discriminate.
      destruct (step false strict (GI p) si (gfree s) e) as [[si' f'] |] eqn:Hs; try discriminate.
      inversion H0; subst; clear H0. simpl. split.
      * rewrite proj_top_app. simpl. rewrite app_nil_r. assumption.
      * intros q. rewrite proj_in_app. simpl. cases q p; gsimp.
        -- rewrite Nat.eqb_refl. specialize (Hi p). rewrite Ep in Hi. econstructor; eauto.
        -- rewrite (proj2 (Nat.eqb_neq p q)) by congruence. rewrite app_nil_r. apply Hi.
Qed.

(* exec_once for the two-level system: in every execution every package action and, within every package,
   every analyzer action is started at most once, and no action is ever handed to a second handler *)
Theorem exec_once_global : forall tr s, grun_rel tr s ->
  (forall a, starts Rp a (proj_top tr) <= 1) /\ (forall p a, starts Ra a (proj_in p tr) <= 1)
  /\ bad (gtop s) = false /\ (forall p si, get (ginner s) p = Some si -> bad si = false).
Proof.
  intros tr s H. destruct (grun_proj _ _ H) as [Ht Hi]. destruct (grun_GInv _ _ H) as [hold I].
  split; [| split; [| split]].
  - intros. eapply exec_once_level; eauto.
  - intros p a. specialize (Hi p). destruct (get (ginner s) p) as [si |] eqn:E.
    + destruct (gi_in _ _ I p si E) as [W _]. eapply exec_once_level; eauto.
    + rewrite Hi. unfold starts. simpl. lia.
  - eapply never_bad_level; eauto.
  - intros p si E. specialize (Hi p). rewrite E in Hi. destruct (gi_in _ _ I p si E) as [W _]. eapply never_bad_level; eauto.
Qed.

(* ... and exactly once in every maximal execution *)
Theorem exec_once_final_global : forall tr s, grun_rel tr s -> gfinal s = true ->
  forall a, In a (nodes GT) -> starts Rp a (proj_top tr) = 1.
Proof.
  intros tr s H Hf a Ha. destruct (grun_proj _ _ H) as [Ht _]. eapply exec_once_final_level; eauto.
Qed.

(* deps_first *)
Theorem deps_first_global : forall tr s, grun_rel tr s ->
  (forall a s', gstep s (GTop (EStart a)) = Some s' -> forall d, In d (deps GT a) -> get (dn (gtop s)) d = true)
  /\ (forall p a s' si, gstep s (GIn p (EStart a)) = Some s' -> get (ginner s) p = Some si ->
        forall d, In d (deps (GI p) a) -> get (dn si) d = true).
Proof.
  intros tr s H. destruct (grun_proj _ _ H) as [Ht Hi]. destruct (grun_GInv _ _ H) as [hold I]. split.
  - intros a s' Hs d Hd. unfold C06.gstep in Hs.
    destruct (step true strict GT (gtop s) (gfree s) (EStart a)) as [[t' f'] |] eqn:E; try discriminate.
    eapply deps_first_level; eauto.
  - intros p a s' si Hs Ep d Hd. unfold C06.gstep in Hs. rewrite Ep in Hs.
    destruct (step false strict (GI p) si (gfree s) (EStart a)) as [[si' f'] |] eqn:E; try discriminate.
    specialize (Hi p). rewrite Ep in Hi. destruct (gi_in _ _ I p si Ep) as [W _]. eapply deps_first_level; eauto.
Qed.

(* ---- no_deadlock ---- *)
Lemma holds_movable : forall R top (s : lstate R) a, holdsb R s a = true -> movable R top s a = true.
Proof.
  intros R top s a H. unfold holdsb in H. unfold movable. destruct (get (th s) a); try discriminate.
  apply andb_true_iff in H. destruct H as [_ H]. destruct (hph t); simpl in *; try discriminate; reflexivity.
Qed.

Lemma movable_gstep_in : forall (s : gstate) p si gi a, get (ginner s) p = Some si -> Inv Ra false (GI p) si gi ->
  movable Ra false si a = true -> exists l s', gstep s l = Some s'.
Proof.
  intros s p si gi a Ep Ii Hm.
  destruct (movable_step Ra false strict (GI p) si gi a Ii Hm) as [[t [sk [Ht [Hp Hs]]]] | [e [Hs _]]].
  - destruct (Hs None (gfree s) ltac:(reflexivity)) as [si' Hst].
    exists (GIn p (EEnd a None)). eexists. unfold C06.gstep. rewrite Ep, Hst. reflexivity.
  - destruct (Hs (gfree s)) as [si' [f' [Hst _]]].
    exists (GIn p e). eexists. unfold C06.gstep. rewrite Ep, Hst. reflexivity.
Qed.

Lemma inner_progress : forall (s : gstate) p si gi, get (ginner s) p = Some si -> wf_dag (GI p) -> Inv Ra false (GI p) si gi ->
  final si = false -> exists l s', gstep s l = Some s'.
Proof.
  intros s p si gi Ep Wp Ii Hf.
  destruct (level_progress Ra false strict (GI p) Wp si gi Ii Hf) as [[a [_ Hm]] | [[b Hm] | [e [_ Hs]]]].
  - eapply movable_gstep_in; eauto.
  - destruct (0 <? gfree s) eqn:Efree.
    + exists (GIn p (ESpawn b)). eexists. unfold C06.gstep, C06.step. rewrite Ep, Hm, Nat.eqb_refl, Efree. reflexivity.
    + exists (GIn p (EInline b)). eexists. unfold C06.gstep, C06.step. rewrite Ep, Hm, Nat.eqb_refl.
      apply Nat.ltb_ge in Efree. assert (gfree s = 0) by lia. rewrite H. simpl. rewrite orb_true_r. reflexivity.
  - destruct (Hs (gfree s)) as [si' Hst]. exists (GIn p e). eexists. unfold C06.gstep. rewrite Ep, Hst. reflexivity.
Qed.

Lemma top_movable_gstep : forall s hold a, GInv s hold -> movable Rp true (gtop s) a = true -> exists l s', gstep s l = Some s'.
Proof.
  intros s hold a I Hm. destruct (gi_top _ _ I) as [gt It].
  destruct (movable_step Rp true strict GT (gtop s) gt a It Hm) as [[t [sk [Ht [Hp Hs]]]] | [e [Hs He]]].
  - destruct (inner_done s a) eqn:Hd.
    + destruct (Hs None (gfree s) ltac:(reflexivity)) as [t' Hst].
      exists (GTop (EEnd a None)). eexists. unfold C06.gstep. rewrite Hd, Hst. reflexivity.
    + unfold inner_done in Hd. destruct (get (ginner s) a) as [si |] eqn:Ep; try discriminate.
      destruct (gi_in _ _ I a si Ep) as [Wp [gi Ii]]. eapply inner_progress; eauto.
  - destruct (Hs (gfree s)) as [t' [f' [Hst _]]].
    exists (GTop e). eexists. unfold C06.gstep. rewrite Hst. destruct e; try contradiction; reflexivity.
Qed.

(* no_deadlock: every reachable state that is not final has an enabled transition, for every capacity >= 1 *)
Theorem no_deadlock_inv : forall s hold, GInv s hold -> gfinal s = false -> exists l s', gstep s l = Some s'.
Proof.
  intros s hold I Hf. destruct (gi_top _ _ I) as [gt It].
  destruct (level_progress Rp true strict GT WFT (gtop s) gt It Hf) as [[a [_ Hm]] | [[b Hm] | [e [He Hs]]]].
  - eapply top_movable_gstep; eauto.
  - destruct (0 <? gfree s) eqn:Efree.
    + exists (GTop (ESpawn b)). eexists. unfold C06.gstep, C06.step. rewrite Hm, Nat.eqb_refl, Efree. reflexivity.
    + (* no free token: some handler holds one, and a handler that holds a token can always move *)
      apply Nat.ltb_ge in Efree. pose proof (gi_free _ _ I) as Hfr.
      destruct hold as [| x hold']. simpl in Hfr. lia.
      assert (Hx : holdsg s x = true). { apply (gi_hold _ _ I). left. reflexivity. }
      destruct x as [[p |] a]; simpl in Hx.
      * destruct (get (ginner s) p) as [si |] eqn:Ep; try discriminate.
        destruct (gi_in _ _ I p si Ep) as [Wp [gi Ii]].
        apply (movable_gstep_in s p si gi a Ep Ii). apply holds_movable. assumption.
      * apply (top_movable_gstep s _ a I). apply holds_movable. assumption.
  - destruct (Hs (gfree s)) as [t' Hst]. exists (GTop e). eexists. unfold C06.gstep. rewrite Hst.
    destruct e; try contradiction; reflexivity.
Qed.

Theorem no_deadlock_global : forall tr s, grun_rel tr s -> gfinal s = false -> exists l s', gstep s l = Some s'.
Proof. intros tr s H Hf. destruct (grun_GInv _ _ H) as [hold I]. eapply no_deadlock_inv; eauto. Qed.

End GlobalProofs.

(* ------------------------------------------------------------------------------------------------ *)
(* The checker for recorded traces is sound: an accepted trace is a complete execution of the system  *)

Lemma grun_sound : forall Rp Ra strict GG cap tr (s s' : gstate Rp Ra) tr0,
  grun Rp Ra strict GG cap s tr = Some s' -> grun_rel Rp Ra strict GG cap tr0 s -> grun_rel Rp Ra strict GG cap (tr0 ++ tr) s'.
Proof.
  induction tr; simpl; intros.
  - inversion H; subst. rewrite app_nil_r. assumption.
  - destruct (gstep strict GG cap s a) as [s1 |] eqn:E; try discriminate.
    replace (tr0 ++ a :: tr) with ((tr0 ++ [a]) ++ tr) by (rewrite <- app_assoc; reflexivity).
    eapply IHtr; eauto. econstructor; eauto.
Qed.

Theorem valid_trace_sound : forall Rp Ra GG cap (tr : list (glabel Rp Ra)),
  valid_trace Rp Ra GG cap tr = true ->
  1 <= cap /\ wf_dag (gtopd GG) /\
  exists s, grun_rel Rp Ra false GG cap tr s /\ gfinal s = true /\ bad (gtop s) = false /\ gover s = false.
Proof.
  intros Rp Ra GG cap tr H. unfold valid_trace in H.
  apply andb_true_iff in H. destruct H as [H H3]. apply andb_true_iff in H. destruct H as [H1 H2].
  apply Nat.leb_le in H1. apply wf_dagb_sound in H2.
  destruct (grun Rp Ra false GG cap (ginit GG cap) tr) as [s |] eqn:E; try discriminate.
  repeat (apply andb_true_iff in H3; destruct H3 as [H3 ?]).
  split; auto. split; auto. exists s. split.
  - apply (grun_sound Rp Ra false GG cap tr _ _ [] E). constructor.
  - split. assumption. split. apply negb_true_iff. assumption. apply negb_true_iff. assumption.
Qed.

(* ... and every execution is accepted step by step: the checker is the transition relation *)
Lemma grun_complete : forall Rp Ra strict GG cap tr s, grun_rel Rp Ra strict GG cap tr s ->
  grun Rp Ra strict GG cap (ginit GG cap) tr = Some s.
Proof.
  assert (Happ : forall Rp Ra strict GG cap t1 t2 (s s1 : gstate Rp Ra),
            grun Rp Ra strict GG cap s t1 = Some s1 -> grun Rp Ra strict GG cap s (t1 ++ t2) = grun Rp Ra strict GG cap s1 t2).
  { induction t1; simpl; intros. inversion H; reflexivity.
    destruct (gstep strict GG cap s a); try discriminate. eapply IHt1; eauto. }
  induction 1. reflexivity.
  rewrite (Happ _ _ _ _ _ _ _ _ _ IHgrun_rel). simpl. rewrite H0. reflexivity.
Qed.

(* ------------------------------------------------------------------------------------------------ *)
(* Happens-before for the two-level system: every level of a global execution is an execution of that *)
(* level with the happens-before tracker running alongside                                           *)

Theorem results_read_after_write_global : forall Rp Ra strict GG cap, wf_dag (gtopd GG) -> 1 <= cap ->
  forall tr (s : gstate Rp Ra), grun_rel Rp Ra strict GG cap tr s ->
  (exists g h, hrun Rp true strict (gtopd GG) (proj_top Rp Ra tr) (gtop s) g h /\
     (forall a s', gstep strict GG cap s (GTop (EStart a)) = Some s' ->
        forall d, dep_plus (gtopd GG) d a -> In d (kt h a) /\ get (dn (gtop s)) d = true) /\
     (gfinal s = true -> forall a, In a (nodes (gtopd GG)) -> In a (km h) /\ get (dn (gtop s)) a = true))
  /\ (forall p si, get (ginner s) p = Some si ->
        exists g h, hrun Ra false strict (ginnerd GG p) (proj_in Rp Ra p tr) si g h /\
          (forall a s', gstep strict GG cap s (GIn p (EStart a)) = Some s' ->
             forall d, dep_plus (ginnerd GG p) d a -> In d (kt h a) /\ get (dn si) d = true) /\
          (final si = true -> forall a, In a (nodes (ginnerd GG p)) -> In a (km h) /\ get (dn si) a = true)).
Proof.
  intros Rp Ra strict GG cap WFT CAP tr s H.
  destruct (grun_proj Rp Ra strict GG cap tr s H) as [Ht Hi].
  destruct (grun_GInv Rp Ra strict GG cap WFT CAP tr s H) as [hold I]. split.
  - destruct (lrun_hrun _ _ _ _ _ _ Ht) as [g [h Hh]]. exists g, h. split; auto. split.
    + intros a s' Hs d Hd. unfold gstep in Hs.
      destruct (step true strict (gtopd GG) (gtop s) (gfree s) (EStart a)) as [[t' f'] |] eqn:E; try discriminate.
      eapply results_read_after_write_level; eauto.
    + intros Hf a Ha. eapply final_reads_after_writes_level; eauto.
  - intros p si Ep. specialize (Hi p). rewrite Ep in Hi. destruct (gi_in _ _ _ _ _ _ I p si Ep) as [Wp _].
    destruct (lrun_hrun _ _ _ _ _ _ Hi) as [g [h Hh]]. exists g, h. split; auto. split.
    + intros a s' Hs d Hd. unfold gstep in Hs. rewrite Ep in Hs.
      destruct (step false strict (ginnerd GG p) si (gfree s) (EStart a)) as [[si' f'] |] eqn:E; try discriminate.
      eapply results_read_after_write_level; eauto.
    + intros Hf a Ha. eapply final_reads_after_writes_level; eauto.
Qed.

(* ------------------------------------------------------------------------------------------------ *)
(* Results of the two-level system: executions in which every analyzer returns the value of one fixed   *)
(* function of its inputs and every package result is computed from its analyzers' results              *)

Section GlobalExec.
Variables Rp Ra : Type.
Variables (strict : bool) (GG : gdag) (cap : nat).
Hypothesis WFT : wf_dag (gtopd GG).
Hypothesis CAP : 1 <= cap.
Notation GT := (gtopd GG).
Notation GI := (ginnerd GG).

Variable exec_an : nat -> (nat -> option Rp) -> nat -> (nat -> option Ra) -> option Ra.
Variable need : nat -> (nat -> option Rp) -> bool.
Variable fin : nat -> (nat -> option Rp) -> (nat -> option Ra) -> option Rp.
Variable fout : nat -> (nat -> option Rp) -> option Rp.

(* everything a package computes depends on the other packages only through the results of its dependencies;
   an analyzer depends on the other analyzers only through the results of the analyzers it requires *)
Hypothesis exec_an_top_local : forall p m m', (forall d, In d (deps GT p) -> m d = m' d) -> forall a r, exec_an p m a r = exec_an p m' a r.
Hypothesis exec_an_in_local : forall p m a r r', (forall d, In d (deps (GI p) a) -> r d = r' d) -> exec_an p m a r = exec_an p m a r'.
Hypothesis need_local : forall p m m', (forall d, In d (deps GT p) -> m d = m' d) -> need p m = need p m'.
Hypothesis fout_local : forall p m m', (forall d, In d (deps GT p) -> m d = m' d) -> fout p m = fout p m'.
Hypothesis fin_local : forall p m m' r r', (forall d, In d (deps GT p) -> m d = m' d) ->
  (forall a, In a (nodes (GI p)) -> r a = r' a) -> fin p m r = fin p m' r'.

Notation gstate := (gstate Rp Ra).
Notation glabel := (glabel Rp Ra).
Notation exec_top := (exec_top GG exec_an need fin fout).
Notation gcons := (gconsistent exec_an need fin fout).

Lemma exec_top_local : forall p m m', (forall d, In d (deps GT p) -> m d = m' d) -> exec_top p m = exec_top p m'.
Proof.
  intros p m m' H. unfold C06.exec_top. rewrite (need_local p m m' H). destruct (need p m').
  - apply fin_local; auto. intros a _. apply den_ext. intros. apply exec_an_top_local. assumption.
  - apply fout_local. assumption.
Qed.

Inductive gcrun : list glabel -> gstate -> Prop :=
| gc_nil : gcrun [] (ginit GG cap)
| gc_snoc : forall tr s l s', gcrun tr s -> gstep strict GG cap s l = Some s' -> gcons s l -> gcrun (tr ++ [l]) s'.

Lemma gcrun_grun : forall tr s, gcrun tr s -> grun_rel Rp Ra strict GG cap tr s.
Proof. induction 1; econstructor; eauto. Qed.

Record GF (s : gstate) : Prop := mkGF {
  gf_top : InvF Rp GT exec_top (gtop s);
  gf_in : forall p si, get (ginner s) p = Some si -> running s p = true ->
            InvF Ra (GI p) (exec_an p (get (res (gtop s)))) si /\ need p (get (res (gtop s))) = true;
  gf_started : forall p si, get (ginner s) p = Some si ->
            exists t, get (th (gtop s)) p = Some t /\ hph t <> HFresh /\ hph t <> HRun true }.

Lemma GF_init : GF (ginit GG cap).
Proof.
  constructor; unfold ginit; simpl; intros; try (rewrite get_const in *; discriminate).
  apply InvF_init.
Qed.

Lemma running_inv : forall (s : gstate) p, running s p = true -> exists t, get (th (gtop s)) p = Some t /\ hph t = HRun false.
Proof.
  unfold running. intros. destruct (get (th (gtop s)) p) as [t |]; try discriminate.
  exists t. split; auto. destruct (hph t) as [| [|] | | |]; try discriminate. reflexivity.
Qed.

Lemma final_closed_inv : forall R top G tr (s : lstate R), lrun R top strict G tr s -> final s = true -> closed s = true.
Proof. intros. eapply final_closed; eauto. Qed.

(* what a package-level step may do to the handler of another package p that is running its analyzers *)
Lemma running_preserved : forall (s : gstate) gt free e t' f' p,
  Inv Rp true GT (gtop s) gt -> step true strict GT (gtop s) free e = Some (t', f') ->
  (match get (th t') p with Some t => match hph t with HRun false => true | _ => false end | None => false end) = true ->
  (forall t, get (th (gtop s)) p = Some t -> hph t <> HFresh) -> get (th (gtop s)) p <> None ->
  running s p = true /\ (forall q o, e = EEnd q o -> q <> p).
Proof.
  intros s gt free e t' f' p It Hs Hr Hnf Hex.
  destruct (th_step Rp true strict GT (gtop s) gt free e t' f' It Hs p) as [E | [[E1 _] | [t [p' [E1 [E2 E3]]]]]].
  - rewrite E in Hr. split. exact Hr. intros q o -> Hq. subst q.
    unfold C06.step in Hs. unfold running in Hr. destruct (get (th (gtop s)) p) as [t |] eqn:Et; try discriminate.
    destruct (hph t) eqn:Ep; try discriminate.
    destruct (sk && isSome o); try discriminate. inversion Hs; subst. simpl in E. rewrite gss in E.
    inversion E as [Ex]. rewrite <- Ex in Ep. simpl in Ep. unfold after_end in Ep. destruct (hsem t); discriminate.
  - congruence.
  - rewrite E2 in Hr. simpl in Hr. exfalso. destruct e; simpl in E3; try contradiction.
    + destruct E3 as [_ [E3 _]]. eapply Hnf; eauto.
    + destruct E3 as [_ [_ ->]]. destruct (hsem t); discriminate.
    + destruct E3 as [_ [_ ->]]. discriminate.
    + destruct E3 as [_ [ts [_ [-> | ->]]]]; discriminate.
    + destruct E3 as [_ [ts [_ ->]]]. discriminate.
    + destruct E3 as [_ [_ ->]]. destruct (hsem t); discriminate.
Qed.

(* the analyzers' final results are the denotation of the analyzer graph *)
Lemma inner_final_den : forall tr (s : gstate) hold p si,
  grun_rel Rp Ra strict GG cap tr s -> GInv Rp Ra GG cap s hold -> GF s ->
  get (ginner s) p = Some si -> running s p = true -> final si = true ->
  forall a, In a (nodes (GI p)) -> get (res si) a = den (GI p) (exec_an p (get (res (gtop s)))) a.
Proof.
  intros tr s hold p si Hr I F Ep Hrun Hf a Ha.
  destruct (gi_in _ _ _ _ _ _ I p si Ep) as [Wp [gi Ii]].
  destruct (gf_in _ F p si Ep Hrun) as [Fi _].
  destruct (grun_proj Rp Ra strict GG cap tr s Hr) as [_ Hi]. specialize (Hi p). rewrite Ep in Hi.
  pose proof (final_closed_inv _ _ _ _ _ Hi Hf) as Hc.
  assert (Hloc : forall x m m', (forall d, In d (deps (GI p) x) -> m d = m' d) ->
             exec_an p (get (res (gtop s))) x m = exec_an p (get (res (gtop s))) x m').
  { intros. apply exec_an_in_local. assumption. }
  destruct (sol_of_inv Ra false (GI p) Wp _ si gi Ii Fi Hc) as [S _].
  apply (sol_unique Ra (GI p) Wp _ Hloc _ _ S (den_sol Ra (GI p) Wp _ Hloc) a Ha).
Qed.

Lemma GF_step : forall tr s hold l s', grun_rel Rp Ra strict GG cap tr s -> GInv Rp Ra GG cap s hold -> GF s ->
  gstep strict GG cap s l = Some s' -> gcons s l -> GF s'.
Proof.
  intros tr s hold l s' Hr I F H C.
  destruct (gi_top _ _ _ _ _ _ I) as [gt It].
  destruct l as [e | p | p e]; unfold C06.gstep in H.
  - (* package level *)
    destruct (match e with EEnd p _ => inner_done s p | _ => true end) eqn:Hok; try discriminate.
    destruct (step true strict GT (gtop s) (gfree s) e) as [[t' f'] |] eqn:Hs; try discriminate.
    inversion H; subst; clear H.
    assert (Cons : consistent exec_top (gtop s) e).
    { destruct e; simpl; auto. intros t Ht Hp.
      assert (Hrun : running s a = true) by (unfold running; rewrite Ht, Hp; reflexivity).
      simpl in C. specialize (C Hrun). destruct (get (ginner s) a) as [si |] eqn:Ep.
      - destruct C as [Hn ->]. unfold C06.exec_top. rewrite Hn. apply fin_local; auto.
        unfold inner_done in Hok. rewrite Ep in Hok. intros x Hx. eapply inner_final_den; eauto.
      - destruct C as [Hn ->]. unfold C06.exec_top. rewrite Hn. reflexivity. }
    constructor; simpl.
    + exact (InvF_step Rp true strict GT WFT exec_top exec_top_local (gtop s) gt (gfree s) e t' f' It (gf_top _ F) Hs Cons).
    + intros p si Ep Hrun. unfold running in Hrun. simpl in Hrun.
      destruct (gf_started _ F p si Ep) as [tp [Htp [Hnf _]]].
      destruct (running_preserved s gt (gfree s) e t' f' p It Hs Hrun ltac:(intros t0 Ht0; congruence) ltac:(congruence)) as [Hold Hne].
      destruct (gf_in _ F p si Ep Hold) as [Fi Hn].
      (* the results of p's dependencies are not touched by this step *)
      assert (Hag : forall d, In d (deps GT p) -> get (res (gtop s)) d = get (res t') d).
      { intros d Hd. destruct e; try (unfold C06.step in Hs;
          repeat match type of Hs with context [match ?x with _ => _ end] => destruct x eqn:?; try discriminate end;
          inversion Hs; subst; reflexivity).
        assert (a <> p) by (eapply Hne; eauto).
        unfold C06.step in Hs. destruct (get (th (gtop s)) a) as [ta |] eqn:Eta; try discriminate.
        destruct (hph ta) eqn:Epa; try discriminate. destruct (sk && isSome o); try discriminate.
        inversion Hs; subst. simpl. cases d a; gsimp; auto.
        (* a is a dependency of p that has not ended, but p has been started *)
        exfalso. destruct (running_inv s p Hold) as [t0 [Ht0 Hp0]].
        assert (get (dn (gtop s)) a = true).
        { eapply (i_deps _ _ _ _ _ It p); eauto. eapply th_alln; eauto. erewrite th_stage; eauto. discriminate. }
        rewrite (i_dn _ _ _ _ _ It _ _ Eta), Epa in H0. discriminate. }
      split.
      * eapply InvF_ext; [| exact Fi]. intros. apply exec_an_top_local. assumption.
      * rewrite <- Hn. symmetry. apply need_local. assumption.
    + intros p si Ep. destruct (gf_started _ F p si Ep) as [tp [Htp [Hnf Hnt]]].
      destruct (th_step Rp true strict GT (gtop s) gt (gfree s) e t' f' It Hs p) as [E | [[E1 _] | [t [p' [E1 [E2 E3]]]]]].
      * rewrite E. eauto.
      * congruence.
      * rewrite E2. eexists. split. reflexivity. simpl. rewrite Htp in E1. inversion E1; subst t.
        destruct e; simpl in E3; try contradiction.
        -- destruct E3 as [_ [E3 _]]. congruence.
        -- destruct E3 as [_ [_ ->]]. destruct (hsem tp); split; discriminate.
        -- destruct E3 as [_ [_ ->]]. split; discriminate.
        -- destruct E3 as [_ [ts [_ [-> | ->]]]]; split; discriminate.
        -- destruct E3 as [_ [ts [_ ->]]]. split; discriminate.
        -- destruct E3 as [_ [E3 _]]. congruence.
  - (* runAnalyzers builds its graph *)
    destruct (running s p && isNone (get (ginner s) p) && wf_dagb (GI p)) eqn:Hc; try discriminate.
    inversion H; subst; clear H.
    apply andb_true_iff in Hc. destruct Hc as [Hc Hw]. apply andb_true_iff in Hc. destruct Hc as [Hrun Hn].
    constructor; simpl.
    + apply (gf_top _ F).
    + intros q si Eq Hq. unfold running in Hq. simpl in Hq. cases q p; gsimp.
      * inversion Eq; subst. split. apply InvF_init. exact C.
      * apply (gf_in _ F q si Eq Hq).
    + intros q si Eq. cases q p; gsimp.
      * destruct (running_inv s p Hrun) as [t [Ht Hp]]. exists t. split; auto. rewrite Hp. split; discriminate.
      * apply (gf_started _ F q si Eq).
  - (* analyzer level *)
    destruct (get (ginner s) p) as [si |] eqn:Ep; try discriminate.
    destruct (step false strict (GI p) si (gfree s) e) as [[si' f'] |] eqn:Hs; try discriminate.
    inversion H; subst; clear H.
    destruct (gi_in _ _ _ _ _ _ I p si Ep) as [Wp [gi Ii]].
    constructor; simpl.
    + apply (gf_top _ F).
    + intros q sq Eq Hq. unfold running in Hq. simpl in Hq. cases q p; gsimp.
      * inversion Eq; subst. destruct (gf_in _ F p si Ep Hq) as [Fi Hn]. split; auto.
        eapply InvF_step; eauto.
      * apply (gf_in _ F q sq Eq Hq).
    + intros q sq Eq. cases q p; gsimp.
      * apply (gf_started _ F p si Ep).
      * apply (gf_started _ F q sq Eq).
Qed.

Lemma gcrun_inv : forall tr s, gcrun tr s -> (exists hold, GInv Rp Ra GG cap s hold) /\ GF s.
Proof.
  induction 1.
  - split. exists []. apply GInv_init; assumption. apply GF_init.
  - destruct IHgcrun as [[hold I] F]. split.
    + eexists. eapply GInv_step; eauto.
    + eapply (GF_step tr s hold l s' (gcrun_grun _ _ H) I F); eauto.
Qed.

(* confluence for the two-level system: every maximal execution ends with the same package results and
   failed flags: the denotation of the package graph, where the result of a package is computed from the
   denotation of its analyzer graph *)
Theorem final_den_global : forall tr s, gcrun tr s -> gfinal s = true -> forall p, In p (nodes GT) ->
  get (res (gtop s)) p = den GT exec_top p /\ get (failed (gtop s)) p = isNone (den GT exec_top p).
Proof.
  intros tr s Hc Hf p Hp. destruct (gcrun_inv _ _ Hc) as [[hold I] F].
  destruct (gi_top _ _ _ _ _ _ I) as [gt It].
  destruct (grun_proj Rp Ra strict GG cap tr s (gcrun_grun _ _ Hc)) as [Ht _].
  pose proof (final_closed_inv _ _ _ _ _ Ht Hf) as Hcl.
  destruct (sol_of_inv Rp true GT WFT _ (gtop s) gt It (gf_top _ F) Hcl) as [S E].
  pose proof (sol_unique Rp GT WFT _ exec_top_local _ _ S (den_sol Rp GT WFT _ exec_top_local) p Hp) as Ed.
  split. assumption. rewrite (E p Hp), Ed. reflexivity.
Qed.

Theorem confluence_global : forall tr1 s1 tr2 s2, gcrun tr1 s1 -> gfinal s1 = true -> gcrun tr2 s2 -> gfinal s2 = true ->
  forall p, In p (nodes GT) ->
    get (res (gtop s1)) p = get (res (gtop s2)) p /\ get (failed (gtop s1)) p = get (failed (gtop s2)) p.
Proof.
  intros tr1 s1 tr2 s2 H1 F1 H2 F2 p Hp.
  destruct (final_den_global _ _ H1 F1 p Hp) as [A1 B1]. destruct (final_den_global _ _ H2 F2 p Hp) as [A2 B2].
  split; congruence.
Qed.

(* failed_iff for packages *)
Theorem failed_iff_global : forall tr s, gcrun tr s -> gfinal s = true -> forall p, In p (nodes GT) ->
  (get (failed (gtop s)) p = true <->
   exists d, dep_star GT d p /\ In d (nodes GT) /\ raised Rp GT exec_top (get (res (gtop s))) d).
Proof.
  intros tr s Hc Hf p Hp. destruct (gcrun_inv _ _ Hc) as [[hold I] F].
  destruct (gi_top _ _ _ _ _ _ I) as [gt It].
  destruct (grun_proj Rp Ra strict GG cap tr s (gcrun_grun _ _ Hc)) as [Ht _].
  pose proof (final_closed_inv _ _ _ _ _ Ht Hf) as Hcl.
  destruct (sol_of_inv Rp true GT WFT _ (gtop s) gt It (gf_top _ F) Hcl) as [S E].
  rewrite (E p Hp). rewrite <- (failed_iff_sol Rp GT WFT _ _ S p Hp).
  destruct (get (res (gtop s)) p); simpl; split; intros; congruence.
Qed.

(* ---- no_deadlock for the system with results: a non-final state has an enabled CONSISTENT transition ---- *)
Hypothesis WFI : forall p, wf_dagb (GI p) = true.

Lemma movable_gstep_in_c : forall (s : gstate) p si gi a, get (ginner s) p = Some si -> Inv Ra false (GI p) si gi ->
  movable Ra false si a = true -> exists l s', gstep strict GG cap s l = Some s' /\ gcons s l.
Proof.
  intros s p si gi a Ep Ii Hm.
  destruct (movable_step Ra false strict (GI p) si gi a Ii Hm) as [[t [sk [Ht [Hp Hs]]]] | [e [Hs He]]].
  - set (o := if sk then None else exec_an p (get (res (gtop s))) a (get (res si))).
    destruct (Hs o (gfree s) ltac:(intros ->; reflexivity)) as [si' Hst].
    exists (GIn p (EEnd a o)). eexists. split. unfold C06.gstep. rewrite Ep, Hst. reflexivity.
    simpl. intros si0 E0 t0 Ht0 Hp0. rewrite Ep in E0. inversion E0; subst si0. rewrite Ht in Ht0. inversion Ht0; subst t0.
    rewrite Hp in Hp0. inversion Hp0; subst sk. reflexivity.
  - destruct (Hs (gfree s)) as [si' [f' [Hst _]]].
    exists (GIn p e). eexists. split. unfold C06.gstep. rewrite Ep, Hst. reflexivity.
    simpl. intros. destruct e; simpl; auto; contradiction.
Qed.

Lemma inner_progress_c : forall (s : gstate) p si gi, get (ginner s) p = Some si -> wf_dag (GI p) -> Inv Ra false (GI p) si gi ->
  final si = false -> exists l s', gstep strict GG cap s l = Some s' /\ gcons s l.
Proof.
  intros s p si gi Ep Wp Ii Hf.
  destruct (level_progress Ra false strict (GI p) Wp si gi Ii Hf) as [[a [_ Hm]] | [[b Hm] | [e [He Hs]]]].
  - eapply movable_gstep_in_c; eauto.
  - destruct (0 <? gfree s) eqn:Efree.
    + exists (GIn p (ESpawn b)). eexists. split. unfold C06.gstep, C06.step. rewrite Ep, Hm, Nat.eqb_refl, Efree. reflexivity.
      simpl. auto.
    + exists (GIn p (EInline b)). eexists. split. unfold C06.gstep, C06.step. rewrite Ep, Hm, Nat.eqb_refl.
      apply Nat.ltb_ge in Efree. assert (gfree s = 0) by lia. rewrite H. simpl. rewrite orb_true_r. reflexivity.
      simpl. auto.
  - destruct (Hs (gfree s)) as [si' Hst]. exists (GIn p e). eexists. split. unfold C06.gstep. rewrite Ep, Hst. reflexivity.
    simpl. intros. destruct e; simpl; auto; contradiction.
Qed.

Lemma top_movable_gstep_c : forall tr (s : gstate) hold a, grun_rel Rp Ra strict GG cap tr s -> GInv Rp Ra GG cap s hold -> GF s ->
  movable Rp true (gtop s) a = true -> exists l s', gstep strict GG cap s l = Some s' /\ gcons s l.
Proof.
  intros tr s hold a Hr I F Hm. destruct (gi_top _ _ _ _ _ _ I) as [gt It].
  destruct (movable_step Rp true strict GT (gtop s) gt a It Hm) as [[t [sk [Ht [Hp Hs]]]] | [e [Hs He]]].
  - destruct sk.
    + (* skipped: ends failed *)
      destruct (get (ginner s) a) as [si |] eqn:Ep.
      { exfalso. destruct (gf_started _ F a si Ep) as [t0 [Ht0 [_ Hnt]]]. rewrite Ht in Ht0. inversion Ht0; subst t0. congruence. }
      destruct (Hs None (gfree s) ltac:(reflexivity)) as [t' Hst].
      exists (GTop (EEnd a None)). eexists. split. unfold C06.gstep, inner_done. rewrite Ep, Hst. reflexivity.
      simpl. intros Hrun. unfold running in Hrun. rewrite Ht, Hp in Hrun. discriminate.
    + (* running *)
      assert (Hrun : running s a = true) by (unfold running; rewrite Ht, Hp; reflexivity).
      destruct (get (ginner s) a) as [si |] eqn:Ep.
      * destruct (gi_in _ _ _ _ _ _ I a si Ep) as [Wp [gi Ii]].
        destruct (final si) eqn:Hf.
        -- destruct (gf_in _ F a si Ep Hrun) as [_ Hn].
           set (o := fin a (get (res (gtop s))) (get (res si))).
           destruct (Hs o (gfree s) ltac:(discriminate)) as [t' Hst].
           exists (GTop (EEnd a o)). eexists. split. unfold C06.gstep, inner_done. rewrite Ep, Hf, Hst. reflexivity.
           simpl. intros _. rewrite Ep. split; auto.
        -- eapply inner_progress_c; eauto.
      * destruct (need a (get (res (gtop s)))) eqn:Hn.
        -- exists (GInit a). eexists. split. unfold C06.gstep. rewrite Hrun, Ep, WFI. reflexivity. simpl. assumption.
        -- set (o := fout a (get (res (gtop s)))).
           destruct (Hs o (gfree s) ltac:(discriminate)) as [t' Hst].
           exists (GTop (EEnd a o)). eexists. split. unfold C06.gstep, inner_done. rewrite Ep, Hst. reflexivity.
           simpl. intros _. rewrite Ep. split; auto.
  - destruct (Hs (gfree s)) as [t' [f' [Hst _]]].
    exists (GTop e). eexists. split. unfold C06.gstep. rewrite Hst. destruct e; try contradiction; reflexivity.
    destruct e; try contradiction; simpl; auto.
Qed.

Theorem no_deadlock_consistent : forall tr s, gcrun tr s -> gfinal s = false ->
  exists l s', gstep strict GG cap s l = Some s' /\ gcons s l.
Proof.
  intros tr s Hc Hf. destruct (gcrun_inv _ _ Hc) as [[hold I] F]. pose proof (gcrun_grun _ _ Hc) as Hr.
  destruct (gi_top _ _ _ _ _ _ I) as [gt It].
  destruct (level_progress Rp true strict GT WFT (gtop s) gt It Hf) as [[a [_ Hm]] | [[b Hm] | [e [He Hs]]]].
  - eapply top_movable_gstep_c; eauto.
  - destruct (0 <? gfree s) eqn:Efree.
    + exists (GTop (ESpawn b)). eexists. split. unfold C06.gstep, C06.step. rewrite Hm, Nat.eqb_refl, Efree. reflexivity. simpl. auto.
    + apply Nat.ltb_ge in Efree. pose proof (gi_free _ _ _ _ _ _ I) as Hfr.
      destruct hold as [| x hold']. simpl in Hfr. lia.
      assert (Hx : holdsg Rp Ra s x = true). { apply (gi_hold _ _ _ _ _ _ I). left. reflexivity. }
      destruct x as [[p |] a]; simpl in Hx.
      * destruct (get (ginner s) p) as [si |] eqn:Ep; try discriminate.
        destruct (gi_in _ _ _ _ _ _ I p si Ep) as [Wp [gi Ii]].
        apply (movable_gstep_in_c s p si gi a Ep Ii). apply holds_movable. assumption.
      * apply (top_movable_gstep_c tr s _ a Hr I F). apply holds_movable. assumption.
  - destruct (Hs (gfree s)) as [t' Hst]. exists (GTop e). eexists. split. unfold C06.gstep. rewrite Hst.
    destruct e; try contradiction; reflexivity. destruct e; try contradiction; simpl; auto.
Qed.

End GlobalExec.

(* ------------------------------------------------------------------------------------------------ *)
(* The fast checker (well-formedness of each distinct analyzer graph evaluated once) accepts only what *)
(* the checker accepts                                                                              *)

Lemma grun_nowf_eq : forall Rp Ra strict GG cap tr (s : gstate Rp Ra),
  (forall p, In p (inits Rp Ra tr) -> wf_dagb (ginnerd GG p) = true) ->
  grun_nowf Rp Ra strict GG cap s tr = grun Rp Ra strict GG cap s tr.
Proof.
  induction tr as [| l r IH]; intros s H. reflexivity.
  simpl. assert (E : gstep_nowf Rp Ra strict GG cap s l = gstep strict GG cap s l).
  { destruct l as [e | p | p e]; simpl; auto.
    rewrite (H p) by (simpl; left; reflexivity). rewrite andb_true_r. reflexivity. }
  rewrite E. destruct (gstep strict GG cap s l); auto. apply IH.
  intros p Hp. apply H. destruct l; simpl; auto.
Qed.

Theorem valid_trace_fast_sound : forall Rp Ra top tabs assign cap (tr : list (glabel Rp Ra)),
  valid_trace_fast Rp Ra top tabs assign cap tr = true ->
  valid_trace Rp Ra (gdag_of_shared top tabs assign) cap tr = true.
Proof.
  intros Rp Ra top tabs assign cap tr H. unfold valid_trace_fast in H. unfold valid_trace.
  apply andb_true_iff in H. destruct H as [H H5]. apply andb_true_iff in H. destruct H as [H H4].
  apply andb_true_iff in H. destruct H as [H H3]. apply andb_true_iff in H. destruct H as [H1 H2].
  rewrite H1, H2. simpl.
  rewrite <- grun_nowf_eq. exact H5.
  intros p Hp. rewrite forallb_forall in H4. specialize (H4 p Hp). apply Nat.ltb_lt in H4.
  rewrite forallb_forall in H3. simpl. apply H3. apply nth_In. assumption.
Qed.

(* the checker that also compares the skip decisions accepts only what the fast checker accepts *)
Lemma grun_skip_nowf : forall Rp Ra strict GG cap atr (s s' : gstate Rp Ra) i,
  grun_skip Rp Ra strict GG cap s atr i = inl s' -> grun_nowf Rp Ra strict GG cap s (map fst atr) = Some s'.
Proof.
  induction atr as [| [l obs] r IH]; simpl; intros s s' i H.
  - inversion H. reflexivity.
  - destruct (gstep_nowf Rp Ra strict GG cap s l) as [s1 |]; try discriminate.
    destruct (skip_of Rp Ra s1 l) as [sk |].
    + destruct (Bool.eqb sk obs); try discriminate. eapply IH; eauto.
    + eapply IH; eauto.
Qed.

Theorem valid_trace_skips_sound : forall Rp Ra top tabs assign cap (atr : list (glabel Rp Ra * bool)),
  valid_trace_skips Rp Ra top tabs assign cap atr = true ->
  valid_trace Rp Ra (gdag_of_shared top tabs assign) cap (map fst atr) = true.
Proof.
  intros Rp Ra top tabs assign cap atr H. apply valid_trace_fast_sound.
  unfold valid_trace_skips in H. unfold valid_trace_fast.
  apply andb_true_iff in H. destruct H as [H H5]. rewrite H. simpl.
  destruct (grun_skip Rp Ra false (gdag_of_shared top tabs assign) cap (ginit (gdag_of_shared top tabs assign) cap) atr 0) as [s |] eqn:E; try discriminate.
  rewrite (grun_skip_nowf _ _ _ _ _ _ _ _ _ E). exact H5.
Qed.
