(* C06: the two-level system (package level + one analyzer level per package being analysed, sharing the
   semaphore): invariants for every execution, token accounting, no_deadlock, projections onto the levels. *)
From Coq Require Import List Arith Bool Lia PeanoNat.
Import ListNotations.
Require Import Verif.Model.C06_Map Verif.Model.C06 Verif.Proofs.C06_Base Verif.Proofs.C06_Level.

Ltac gsimp :=
  repeat match goal with
  | |- context [get (set _ ?a _) ?a] => rewrite gss
  | H : context [get (set _ ?a _) ?a] |- _ => rewrite gss in H
  | N : ?a <> ?b |- context [get (set _ ?a _) ?b] => rewrite (gso _ _ a b _ N)
  | N : ?b <> ?a |- context [get (set _ ?a _) ?b] => rewrite (gso _ _ a b _ (not_eq_sym N))
  | N : ?a <> ?b, H : context [get (set _ ?a _) ?b] |- _ => rewrite (gso _ _ a b _ N) in H
  | N : ?b <> ?a, H : context [get (set _ ?a _) ?b] |- _ => rewrite (gso _ _ a b _ (not_eq_sym N)) in H
  end.
Ltac cases x b := destruct (Nat.eq_dec x b) as [?Heq | ?Hne]; [subst x |].

Definition holder := (option nat * nat)%type.
Definition holder_eq_dec : forall x y : holder, {x = y} + {x <> y}.
Proof. decide equality. apply Nat.eq_dec. decide equality. apply Nat.eq_dec. Defined.

Lemma NoDup_remove_fn : forall (x : holder) l, NoDup l -> NoDup (remove holder_eq_dec x l).
Proof.
  induction 1; simpl. constructor.
  destruct (holder_eq_dec x x0). assumption. constructor; auto. intro Hi. apply in_remove in Hi. tauto.
Qed.

Lemma remove_length : forall (x : holder) l, NoDup l -> In x l -> S (length (remove holder_eq_dec x l)) = length l.
Proof.
  induction 1; simpl; intros. contradiction.
  destruct (holder_eq_dec x x0).
  - subst. rewrite notin_remove by assumption. reflexivity.
  - simpl. rewrite IHNoDup. reflexivity. destruct H1; [congruence | assumption].
Qed.

Section GlobalProofs.
Variables Rp Ra : Type.
Variables (strict : bool) (GG : gdag) (cap : nat).
Hypothesis WFT : wf_dag (gtopd GG).
Hypothesis CAP : 1 <= cap.

Notation gstate := (gstate Rp Ra).
Notation glabel := (glabel Rp Ra).
Notation gstep := (gstep strict GG cap).
Notation GT := (gtopd GG).
Notation GI := (ginnerd GG).

(* executions of the two-level system *)
Inductive grun_rel : list glabel -> gstate -> Prop :=
| gr_nil : grun_rel [] (ginit GG cap)
| gr_snoc : forall tr s l s', grun_rel tr s -> gstep s l = Some s' -> grun_rel (tr ++ [l]) s'.

(* ghost: who holds a token *)
Definition holdsg (s : gstate) (x : holder) : bool :=
  match x with
  | (None, a) => holdsb Rp (gtop s) a
  | (Some p, a) => match get (ginner s) p with Some si => holdsb Ra si a | None => false end
  end.

Definition hold_step (hold : list holder) (l : glabel) : list holder :=
  match l with
  | GTop (ESpawn b) => (None, b) :: hold
  | GTop (ERel a) => remove holder_eq_dec (None, a) hold
  | GIn p (ESpawn b) => (Some p, b) :: hold
  | GIn p (ERel a) => remove holder_eq_dec (Some p, a) hold
  | _ => hold
  end.

Record GInv (s : gstate) (hold : list holder) : Prop := mkGInv {
  gi_top : exists g, Inv Rp true GT (gtop s) g;
  gi_in : forall p si, get (ginner s) p = Some si -> wf_dag (GI p) /\ exists g, Inv Ra false (GI p) si g;
  gi_free : gfree s + length hold = cap;
  gi_nodup : NoDup hold;
  gi_hold : forall x, In x hold <-> holdsg s x = true;
  gi_over : gover s = false }.

Lemma GInv_init : GInv (ginit GG cap) [].
Proof.
  constructor; unfold ginit; simpl; intros.
  - eexists. apply Inv_init. assumption.
  - rewrite get_const in H. discriminate.
  - lia.
  - constructor.
  - split; intros. contradiction. exfalso. destruct x as [[p |] a]; simpl in H.
    + rewrite get_const in H. discriminate.
    + unfold holdsb, init in H. simpl in H. rewrite get_const in H. discriminate.
  - reflexivity.
Qed.

(* token bookkeeping of one level step, in terms of the list of holders *)
Lemma hold_level : forall R top G (WF : wf_dag G) (s : lstate R) g free e s' f' (hold : list holder) (mk : nat -> holder),
  (forall a b, mk a = mk b -> a = b) ->
  Inv R top G s g -> step top strict G s free e = Some (s', f') ->
  NoDup hold -> free + length hold = cap ->
  (forall a, In (mk a) hold <-> holdsb R s a = true) ->
  let hold' := match e with ESpawn b => mk b :: hold | ERel a => remove holder_eq_dec (mk a) hold | _ => hold end in
  NoDup hold' /\ f' + length hold' = cap /\ (forall a, In (mk a) hold' <-> holdsb R s' a = true)
  /\ (forall x, (forall a, x <> mk a) -> (In x hold' <-> In x hold)).
Proof.
  intros R top G WF s g free e s' f' hold mk Hinj I H ND Hf Hh hold'.
  pose proof (free_step R top strict G s free e s' f' H) as Hfs.
  pose proof (holds_step R top strict G s g free e s' f' I H) as Hhs.
  destruct e; subst hold'; cbn iota in Hfs;
    try (subst f'; split; [assumption | split; [assumption | split; [| tauto]]];
         intros a0; rewrite (proj1 (Hhs a0)); apply Hh).
  - (* ESpawn *) destruct Hfs as [Hpos ->]. split; [| split; [| split]].
    + constructor; auto. rewrite Hh. rewrite (proj2 (proj2 (Hhs b)) eq_refl). discriminate.
    + simpl. lia.
    + intros a. rewrite (proj1 (Hhs a)). simpl. destruct (Nat.eqb_spec a b).
      * subst. tauto.
      * rewrite <- Hh. split; intros. destruct H0; auto. apply Hinj in H0. congruence. auto.
    + intros x Hx. simpl. split; intros; auto. destruct H0; auto. exfalso. eapply Hx; eauto.
  - (* ERel *) subst f'. assert (Hin : In (mk a) hold). { apply Hh. apply (proj1 (proj2 (Hhs a))). reflexivity. }
    split; [| split; [| split]].
    + apply NoDup_remove_fn. assumption.
    + pose proof (remove_length (mk a) hold ND Hin). lia.
    + intros a0. rewrite (proj1 (Hhs a0)). destruct (Nat.eqb_spec a0 a).
      * subst. split; intros; try discriminate. apply in_remove in H0. tauto.
      * rewrite <- Hh. split; intros. apply in_remove in H0. tauto. apply in_in_remove; [intro E; apply Hinj in E; congruence | assumption].
    + intros x Hx. split; intros. apply in_remove in H0. tauto. apply in_in_remove; [apply Hx | assumption].
Qed.

Lemma le_ltb_false : forall a b, a <= b -> (b <? a) = false.
Proof. intros. apply Nat.ltb_ge. assumption. Qed.

Theorem GInv_step : forall s hold l s', GInv s hold -> gstep s l = Some s' -> GInv s' (hold_step hold l).
Proof.
  intros s hold l s' GI H. destruct GI as [[gt It] Iin Hfree Hnd Hhold Hover].
  destruct l as [e | p | p e]; unfold C06.gstep in H.
  - (* package level *)
    destruct (match e with EEnd p _ => inner_done s p | _ => true end); try discriminate.
    destruct (step true strict GT (gtop s) (gfree s) e) as [[t' f'] |] eqn:Hs; try discriminate.
    inversion H; subst; clear H.
    destruct (hold_level Rp true GT WFT (gtop s) gt (gfree s) e t' f' hold (fun a => (None, a))
                ltac:(intros a b E; inversion E; reflexivity) It Hs Hnd Hfree ltac:(intros a; apply (Hhold (None, a))))
      as [A [B [C D]]].
    assert (Eh : hold_step hold (GTop e) = match e with ESpawn b => (None, b) :: hold | ERel a => remove holder_eq_dec (None, a) hold | _ => hold end)
      by (destruct e; reflexivity).
    rewrite Eh. constructor; simpl.
    + eexists. eapply Inv_step; eauto.
    + assumption.
    + assumption.
    + assumption.
    + intros [[p |] a]; simpl.
      * rewrite D by (intros; discriminate). apply (Hhold (Some p, a)).
      * apply C.
    + rewrite Hover. simpl. apply le_ltb_false. lia.
  - (* runAnalyzers builds its graph *)
    destruct (running s p && isNone (get (ginner s) p) && wf_dagb (GI p)) eqn:Hc; try discriminate.
    inversion H; subst; clear H.
    apply andb_true_iff in Hc. destruct Hc as [Hc Hw]. apply andb_true_iff in Hc. destruct Hc as [Hr Hn].
    apply wf_dagb_sound in Hw.
    assert (En : get (ginner s) p = None) by (destruct (get (ginner s) p); simpl in Hn; congruence).
    constructor; simpl; auto.
    + eauto.
    + intros q si Hq. cases q p; gsimp.
      * inversion Hq; subst. split; auto. eexists. apply Inv_init. assumption.
      * apply Iin. assumption.
    + intros [[q |] a]; simpl.
      * cases q p; gsimp.
        -- rewrite (Hhold (Some p, a)). simpl. rewrite En. unfold holdsb, init. simpl. rewrite get_const. tauto.
        -- apply (Hhold (Some q, a)).
      * apply (Hhold (None, a)).
  - (* analyzer level of package p *)
    destruct (get (ginner s) p) as [si |] eqn:Ep; try discriminate.
    destruct (step false strict (GI p) si (gfree s) e) as [[si' f'] |] eqn:Hs; try discriminate.
    inversion H; subst; clear H.
    destruct (Iin p si Ep) as [Wp [gi Ii]].
    destruct (hold_level Ra false (GI p) Wp si gi (gfree s) e si' f' hold (fun a => (Some p, a))
                ltac:(intros a b E; inversion E; reflexivity) Ii Hs Hnd Hfree
                ltac:(intros a; rewrite (Hhold (Some p, a)); simpl; rewrite Ep; tauto))
      as [A [B [C D]]].
    assert (Eh : hold_step hold (GIn p e) = match e with ESpawn b => (Some p, b) :: hold | ERel a => remove holder_eq_dec (Some p, a) hold | _ => hold end)
      by (destruct e; reflexivity).
    rewrite Eh. constructor; simpl.
    + eauto.
    + intros q sq Hq. cases q p; gsimp.
      * inversion Hq; subst. split; auto. eexists. eapply Inv_step; eauto.
      * apply Iin. assumption.
    + assumption.
    + assumption.
    + intros [[q |] a]; simpl.
      * cases q p; gsimp.
        -- apply C.
        -- rewrite D by (intros a0 E; inversion E; congruence). apply (Hhold (Some q, a)).
      * rewrite D by (intros; discriminate). apply (Hhold (None, a)).
    + rewrite Hover. simpl. apply le_ltb_false. lia.
Qed.

Lemma grun_GInv : forall tr s, grun_rel tr s -> exists hold, GInv s hold.
Proof.
  induction 1. exists []. apply GInv_init.
  destruct IHgrun_rel as [hold I]. eexists. eapply GInv_step; eauto.
Qed.

(* the semaphore never exceeds its capacity, and the number of free tokens plus the number of handlers that
   hold one is the capacity (in particular a token is never released twice) *)
Theorem tokens_conserved : forall tr s, grun_rel tr s ->
  gover s = false /\ exists hold, NoDup hold /\ gfree s + length hold = cap /\ forall x, In x hold <-> holdsg s x = true.
Proof.
  intros tr s H. destruct (grun_GInv _ _ H) as [hold I]. split. apply (gi_over _ _ I).
  exists hold. split. apply (gi_nodup _ _ I). split. apply (gi_free _ _ I). apply (gi_hold _ _ I).
Qed.

(* ---- projections: every level of a global execution is an execution of that level ---- *)
Fixpoint proj_top (tr : list glabel) : list (label Rp) :=
  match tr with [] => [] | GTop e :: r => e :: proj_top r | _ :: r => proj_top r end.
Fixpoint proj_in (p : nat) (tr : list glabel) : list (label Ra) :=
  match tr with [] => [] | GIn q e :: r => if q =? p then e :: proj_in p r else proj_in p r | _ :: r => proj_in p r end.

Lemma proj_top_app : forall t1 t2, proj_top (t1 ++ t2) = proj_top t1 ++ proj_top t2.
Proof. induction t1; simpl; intros. reflexivity. destruct a; simpl; rewrite IHt1; reflexivity. Qed.
Lemma proj_in_app : forall p t1 t2, proj_in p (t1 ++ t2) = proj_in p t1 ++ proj_in p t2.
Proof. induction t1; simpl; intros. reflexivity. destruct a as [e | q | q e]; simpl; auto. destruct (q =? p); simpl; rewrite IHt1; reflexivity. Qed.

Theorem grun_proj : forall tr s, grun_rel tr s ->
  lrun Rp true strict GT (proj_top tr) (gtop s)
  /\ forall p, match get (ginner s) p with
               | Some si => lrun Ra false strict (GI p) (proj_in p tr) si
               | None => proj_in p tr = []
               end.
Proof.
  induction 1.
  - split. constructor. intros. unfold ginit. simpl. rewrite get_const. reflexivity.
  - destruct IHgrun_rel as [Ht Hi]. destruct l as [e | p | p e]; unfold C06.gstep in H0.
    + destruct (match e with EEnd p _ => inner_done s p | _ => true end); try discriminate.
      destruct (step true strict GT (gtop s) (gfree s) e) as [[t' f'] |] eqn:Hs; try discriminate.
      inversion H0; subst; clear H0. simpl. split.
      * rewrite proj_top_app. simpl. econstructor; eauto.
      * intros p. rewrite proj_in_app. simpl. rewrite app_nil_r. apply Hi.
    + destruct (running s p && isNone (get (ginner s) p) && wf_dagb (GI p)) eqn:Hc; try discriminate.
      inversion H0; subst; clear H0. simpl. split.
      * rewrite proj_top_app. simpl. rewrite app_nil_r. assumption.
      * intros q. rewrite proj_in_app. simpl. rewrite app_nil_r. cases q p; gsimp.
        -- apply andb_true_iff in Hc. destruct Hc as [Hc _]. apply andb_true_iff in Hc. destruct Hc as [_ Hn].
           specialize (Hi p). destruct (get (ginner s) p); simpl in Hn; try discriminate. rewrite Hi. constructor.
        -- apply Hi.
    + destruct (get (ginner s) p) as [si |] eqn:Ep; try discriminate.
      destruct (step false strict (GI p) si (gfree s) e) as [[si' f'] |] eqn:Hs; try discriminate.
      inversion H0; subst; clear H0. simpl. split.
      * rewrite proj_top_app. simpl. rewrite app_nil_r. assumption.
      * intros q. rewrite proj_in_app. simpl. cases q p; gsimp.
        -- rewrite Nat.eqb_refl. specialize (Hi p). rewrite Ep in Hi. econstructor; eauto.
        -- rewrite (proj2 (Nat.eqb_neq p q)) by congruence. rewrite app_nil_r. apply Hi.
Qed.

(* exec_once for the two-level system: in every execution every package action and, within every package,
   every analyzer action is started at most once, and no action is ever handed to a second handler *)
Theorem exec_once_global : forall tr s, grun_rel tr s ->
  (forall a, starts Rp a (proj_top tr) <= 1) /\ (forall p a, starts Ra a (proj_in p tr) <= 1)
  /\ bad (gtop s) = false /\ (forall p si, get (ginner s) p = Some si -> bad si = false).
Proof.
  intros tr s H. destruct (grun_proj _ _ H) as [Ht Hi]. destruct (grun_GInv _ _ H) as [hold I].
  split; [| split; [| split]].
  - intros. eapply exec_once_level; eauto.
  - intros p a. specialize (Hi p). destruct (get (ginner s) p) as [si |] eqn:E.
    + destruct (gi_in _ _ I p si E) as [W _]. eapply exec_once_level; eauto.
    + rewrite Hi. unfold starts. simpl. lia.
  - eapply never_bad_level; eauto.
  - intros p si E. specialize (Hi p). rewrite E in Hi. destruct (gi_in _ _ I p si E) as [W _]. eapply never_bad_level; eauto.
Qed.

(* ... and exactly once in every maximal execution *)
Theorem exec_once_final_global : forall tr s, grun_rel tr s -> gfinal s = true ->
  forall a, In a (nodes GT) -> starts Rp a (proj_top tr) = 1.
Proof.
  intros tr s H Hf a Ha. destruct (grun_proj _ _ H) as [Ht _]. eapply exec_once_final_level; eauto.
Qed.

(* deps_first *)
Theorem deps_first_global : forall tr s, grun_rel tr s ->
  (forall a s', gstep s (GTop (EStart a)) = Some s' -> forall d, In d (deps GT a) -> get (dn (gtop s)) d = true)
  /\ (forall p a s' si, gstep s (GIn p (EStart a)) = Some s' -> get (ginner s) p = Some si ->
        forall d, In d (deps (GI p) a) -> get (dn si) d = true).
Proof.
  intros tr s H. destruct (grun_proj _ _ H) as [Ht Hi]. destruct (grun_GInv _ _ H) as [hold I]. split.
  - intros a s' Hs d Hd. unfold C06.gstep in Hs.
    destruct (step true strict GT (gtop s) (gfree s) (EStart a)) as [[t' f'] |] eqn:E; try discriminate.
    eapply deps_first_level; eauto.
  - intros p a s' si Hs Ep d Hd. unfold C06.gstep in Hs. rewrite Ep in Hs.
    destruct (step false strict (GI p) si (gfree s) (EStart a)) as [[si' f'] |] eqn:E; try discriminate.
    specialize (Hi p). rewrite Ep in Hi. destruct (gi_in _ _ I p si Ep) as [W _]. eapply deps_first_level; eauto.
Qed.

(* ---- no_deadlock ---- *)
Lemma holds_movable : forall R top (s : lstate R) a, holdsb R s a = true -> movable R top s a = true.
Proof.
  intros R top s a H. unfold holdsb in H. unfold movable. destruct (get (th s) a); try discriminate.
  apply andb_true_iff in H. destruct H as [_ H]. destruct (hph t); simpl in *; try discriminate; reflexivity.
Qed.

Lemma movable_gstep_in : forall (s : gstate) p si gi a, get (ginner s) p = Some si -> Inv Ra false (GI p) si gi ->
  movable Ra false si a = true -> exists l s', gstep s l = Some s'.
Proof.
  intros s p si gi a Ep Ii Hm.
  destruct (movable_step Ra false strict (GI p) si gi a Ii Hm) as [[t [sk [Ht [Hp Hs]]]] | [e [Hs _]]].
  - destruct (Hs None (gfree s) ltac:(reflexivity)) as [si' Hst].
    exists (GIn p (EEnd a None)). eexists. unfold C06.gstep. rewrite Ep, Hst. reflexivity.
  - destruct (Hs (gfree s)) as [si' [f' [Hst _]]].
    exists (GIn p e). eexists. unfold C06.gstep. rewrite Ep, Hst. reflexivity.
Qed.

Lemma inner_progress : forall (s : gstate) p si gi, get (ginner s) p = Some si -> wf_dag (GI p) -> Inv Ra false (GI p) si gi ->
  final si = false -> exists l s', gstep s l = Some s'.
Proof.
  intros s p si gi Ep Wp Ii Hf.
  destruct (level_progress Ra false strict (GI p) Wp si gi Ii Hf) as [[a [_ Hm]] | [[b Hm] | [e [_ Hs]]]].
  - eapply movable_gstep_in; eauto.
  - destruct (0 <? gfree s) eqn:Efree.
    + exists (GIn p (ESpawn b)). eexists. unfold C06.gstep, C06.step. rewrite Ep, Hm, Nat.eqb_refl, Efree. reflexivity.
    + exists (GIn p (EInline b)). eexists. unfold C06.gstep, C06.step. rewrite Ep, Hm, Nat.eqb_refl.
      apply Nat.ltb_ge in Efree. assert (gfree s = 0) by lia. rewrite H. simpl. rewrite orb_true_r. reflexivity.
  - destruct (Hs (gfree s)) as [si' Hst]. exists (GIn p e). eexists. unfold C06.gstep. rewrite Ep, Hst. reflexivity.
Qed.

Lemma top_movable_gstep : forall s hold a, GInv s hold -> movable Rp true (gtop s) a = true -> exists l s', gstep s l = Some s'.
Proof.
  intros s hold a I Hm. destruct (gi_top _ _ I) as [gt It].
  destruct (movable_step Rp true strict GT (gtop s) gt a It Hm) as [[t [sk [Ht [Hp Hs]]]] | [e [Hs He]]].
  - destruct (inner_done s a) eqn:Hd.
    + destruct (Hs None (gfree s) ltac:(reflexivity)) as [t' Hst].
      exists (GTop (EEnd a None)). eexists. unfold C06.gstep. rewrite Hd, Hst. reflexivity.
    + unfold inner_done in Hd. destruct (get (ginner s) a) as [si |] eqn:Ep; try discriminate.
      destruct (gi_in _ _ I a si Ep) as [Wp [gi Ii]]. eapply inner_progress; eauto.
  - destruct (Hs (gfree s)) as [t' [f' [Hst _]]].
    exists (GTop e). eexists. unfold C06.gstep. rewrite Hst. destruct e; try contradiction; reflexivity.
Qed.

(* no_deadlock: every reachable state that is not final has an enabled transition, for every capacity >= 1 *)
Theorem no_deadlock_inv : forall s hold, GInv s hold -> gfinal s = false -> exists l s', gstep s l = Some s'.
Proof.
  intros s hold I Hf. destruct (gi_top _ _ I) as [gt It].
  destruct (level_progress Rp true strict GT WFT (gtop s) gt It Hf) as [[a [_ Hm]] | [[b Hm] | [e [He Hs]]]].
  - eapply top_movable_gstep; eauto.
  - destruct (0 <? gfree s) eqn:Efree.
    + exists (GTop (ESpawn b)). eexists. unfold C06.gstep, C06.step. rewrite Hm, Nat.eqb_refl, Efree. reflexivity.
    + (* no free token: some handler holds one, and a handler that holds a token can always move *)
      apply Nat.ltb_ge in Efree. pose proof (gi_free _ _ I) as Hfr.
      destruct hold as [| x hold']. simpl in Hfr. lia.
      assert (Hx : holdsg s x = true). { apply (gi_hold _ _ I). left. reflexivity. }
      destruct x as [[p |] a]; simpl in Hx.
      * destruct (get (ginner s) p) as [si |] eqn:Ep; try discriminate.
        destruct (gi_in _ _ I p si Ep) as [Wp [gi Ii]].
        apply (movable_gstep_in s p si gi a Ep Ii). apply holds_movable. assumption.
      * apply (top_movable_gstep s _ a I). apply holds_movable. assumption.
  - destruct (Hs (gfree s)) as [t' Hst]. exists (GTop e). eexists. unfold C06.gstep. rewrite Hst.
    destruct e; try contradiction; reflexivity.
Qed.

Theorem no_deadlock_global : forall tr s, grun_rel tr s -> gfinal s = false -> exists l s', gstep s l = Some s'.
Proof. intros tr s H Hf. destruct (grun_GInv _ _ H) as [hold I]. eapply no_deadlock_inv; eauto. Qed.

End GlobalProofs.

(* ------------------------------------------------------------------------------------------------ *)
(* The checker for recorded traces is sound: an accepted trace is a complete execution of the system  *)

Lemma grun_sound : forall Rp Ra strict GG cap tr (s s' : gstate Rp Ra) tr0,
  grun Rp Ra strict GG cap s tr = Some s' -> grun_rel Rp Ra strict GG cap tr0 s -> grun_rel Rp Ra strict GG cap (tr0 ++ tr) s'.
Proof.
  induction tr; simpl; intros.
  - inversion H; subst. rewrite app_nil_r. assumption.
  - destruct (gstep strict GG cap s a) as [s1 |] eqn:E; try discriminate.
    replace (tr0 ++ a :: tr) with ((tr0 ++ [a]) ++ tr) by (rewrite <- app_assoc; reflexivity).
    eapply IHtr; eauto. econstructor; eauto.
Qed.

Theorem valid_trace_sound : forall Rp Ra GG cap (tr : list (glabel Rp Ra)),
  valid_trace Rp Ra GG cap tr = true ->
  1 <= cap /\ wf_dag (gtopd GG) /\
  exists s, grun_rel Rp Ra false GG cap tr s /\ gfinal s = true /\ bad (gtop s) = false /\ gover s = false.
Proof.
  intros Rp Ra GG cap tr H. unfold valid_trace in H.
  apply andb_true_iff in H. destruct H as [H H3]. apply andb_true_iff in H. destruct H as [H1 H2].
  apply Nat.leb_le in H1. apply wf_dagb_sound in H2.
  destruct (grun Rp Ra false GG cap (ginit GG cap) tr) as [s |] eqn:E; try discriminate.
  repeat (apply andb_true_iff in H3; destruct H3 as [H3 ?]).
  split; auto. split; auto. exists s. split.
  - apply (grun_sound Rp Ra false GG cap tr _ _ [] E). constructor.
  - split. assumption. split. apply negb_true_iff. assumption. apply negb_true_iff. assumption.
Qed.

(* ... and every execution is accepted step by step: the checker is the transition relation *)
Lemma grun_complete : forall Rp Ra strict GG cap tr s, grun_rel Rp Ra strict GG cap tr s ->
  grun Rp Ra strict GG cap (ginit GG cap) tr = Some s.
Proof.
  assert (Happ : forall Rp Ra strict GG cap t1 t2 (s s1 : gstate Rp Ra),
            grun Rp Ra strict GG cap s t1 = Some s1 -> grun Rp Ra strict GG cap s (t1 ++ t2) = grun Rp Ra strict GG cap s1 t2).
  { induction t1; simpl; intros. inversion H; reflexivity.
    destruct (gstep strict GG cap s a); try discriminate. eapply IHt1; eauto. }
  induction 1. reflexivity.
  rewrite (Happ _ _ _ _ _ _ _ _ _ IHgrun_rel). simpl. rewrite H0. reflexivity.
Qed.
