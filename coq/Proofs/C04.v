(* C04: proofs about Model/C04.v *)
From Coq Require Import List String Bool Arith Lia.
Import ListNotations.
Require Import Verif.Model.C04_Types Verif.Model.C04.

(* ---------- dims ---------- *)
Lemma dim_eqb_eq a b : dim_eqb a b = true -> a = b.
Proof.
  destruct a, b; simpl; intro E; try reflexivity; try discriminate;
    apply String.eqb_eq in E; subst; reflexivity.
Qed.
Lemma dim_eqb_refl a : dim_eqb a a = true.
Proof. destruct a; simpl; try reflexivity; apply String.eqb_refl. Qed.
Lemma dmem_In d l : dmem d l = true <-> In d l.
Proof.
  unfold dmem. rewrite existsb_exists. split.
  - intros [x [Hin E]]. apply dim_eqb_eq in E. subst. exact Hin.
  - intro Hin. exists d. split; [exact Hin | apply dim_eqb_refl].
Qed.
Lemma dsubset_incl a b : dsubset a b = true -> forall d, In d a -> In d b.
Proof.
  unfold dsubset. rewrite forallb_forall. intros Hs d Hd. apply dmem_In. apply Hs. exact Hd.
Qed.
Lemma dmem_false_notin d l : dmem d l = false -> ~ In d l.
Proof. intros E Hin. apply dmem_In in Hin. rewrite Hin in E. discriminate. Qed.

Lemma map_eq_pointwise {A B} (f g : A -> B) l : map f l = map g l -> forall x, In x l -> f x = g x.
Proof.
  induction l as [|a l IH]; simpl; intros E x Hx; [contradiction|].
  injection E as E1 E2. destruct Hx as [<-|Hx]; [exact E1 | apply IH; assumption].
Qed.

Section Proofs.
  Variables V F R O K : Type.
  Variable K_eq_dec : forall a b : K, {a = b} + {a <> b}.
  Variables KF REL : list dim.
  Variable H : list (ival V F) -> K.
  Hypothesis H_inj : forall a b, H a = H b -> a = b.
  Variable analyse : inp V F -> option (F * R).
  Hypothesis analyse_relevant :
    forall i i', (forall d, In d REL -> get i d = get i' d) -> analyse i = analyse i'.
  Hypothesis rel_in_key : forall d, In d REL -> In d KF.
  Variable post : world V -> list (pkgid * outcome R) -> O.

  Local Notation keyf := (key KF H).
  Local Notation stepf := (step V F R K K_eq_dec KF H analyse).
  Local Notation run_pkgsf := (run_pkgs V F R K K_eq_dec KF H analyse).
  Local Notation runf := (run V F R K K_eq_dec KF H analyse).
  Local Notation ref_stepf := (ref_step V F R analyse).
  Local Notation ref_pkgsf := (ref_pkgs V F R analyse).
  Local Notation ref_runf := (ref_run V F R analyse).
  Local Notation inv := (cache_inv V F R K KF H analyse).
  Local Notation outputf := (output V F R O K K_eq_dec KF H analyse post).
  Local Notation afterf := (after V F R K K_eq_dec KF H analyse).
  Local Notation put_vetxf := (put_vetx F R K K_eq_dec).
  Local Notation put_resf := (put_res F R K K_eq_dec).

  (* equal keys -> equal analysis: injective hash + every relevant dimension is a key field *)
  Lemma key_eq_analyse i i' : keyf i = keyf i' -> analyse i = analyse i'.
  Proof.
    unfold key. intro E. apply H_inj in E. apply analyse_relevant.
    intros d Hd. apply (map_eq_pointwise _ _ _ E). apply rel_in_key. exact Hd.
  Qed.

  Lemma inv_empty : inv empty.
  Proof. split; intros k x E; discriminate. Qed.

  Lemma inv_put_vetx c i f r : inv c -> analyse i = Some (f, r) -> inv (put_vetxf (keyf i) f c).
  Proof.
    intros [Hv Hr] Ha. split; simpl.
    - intros k f0 E i2 Hk. destruct (K_eq_dec k (keyf i)) as [->|Hne].
      + injection E as <-. exists r. rewrite (key_eq_analyse i2 i Hk). exact Ha.
      + exact (Hv k f0 E i2 Hk).
    - exact Hr.
  Qed.
  Lemma inv_put_res c i f r : inv c -> analyse i = Some (f, r) -> inv (put_resf (keyf i) r c).
  Proof.
    intros [Hv Hr] Ha. split; simpl.
    - exact Hv.
    - intros k r0 E i2 Hk. destruct (K_eq_dec k (keyf i)) as [->|Hne].
      + injection E as <-. exists f. rewrite (key_eq_analyse i2 i Hk). exact Ha.
      + exact (Hr k r0 E i2 Hk).
  Qed.

  (* one package: the cached step returns what the cache-less step returns, and keeps the invariant *)
  Lemma step_ref c dn p :
    inv c ->
    (snd (fst (stepf c dn p)), snd (stepf c dn p)) = ref_stepf dn p /\ inv (fst (fst (stepf c dn p))).
  Proof.
    intro Hinv. unfold step, ref_step.
    destruct (dep_facts F dn (p_deps p)) as [df|]; [|split; [reflexivity|exact Hinv]].
    set (i := mkInp (p_loc p) df).
    destruct (p_initial p).
    - destruct (c_vetx c (keyf i)) as [f|] eqn:Ev; [destruct (c_res c (keyf i)) as [r|] eqn:Er|].
      + simpl. destruct Hinv as [Hv Hr].
        destruct (Hv _ _ Ev i eq_refl) as [r1 H1]. destruct (Hr _ _ Er i eq_refl) as [f1 H2].
        rewrite H1 in H2. injection H2 as -> ->. rewrite H1. split; [reflexivity|split; assumption].
      + destruct (analyse i) as [[f1 r1]|] eqn:Ea; simpl; [|split; [reflexivity|exact Hinv]].
        split; [reflexivity|]. eapply inv_put_res; [eapply inv_put_vetx|]; eassumption.
      + destruct (analyse i) as [[f1 r1]|] eqn:Ea; simpl; [|split; [reflexivity|exact Hinv]].
        split; [reflexivity|]. eapply inv_put_res; [eapply inv_put_vetx|]; eassumption.
    - destruct (c_vetx c (keyf i)) as [f|] eqn:Ev.
      + simpl. destruct Hinv as [Hv Hr]. destruct (Hv _ _ Ev i eq_refl) as [r1 H1]. rewrite H1.
        split; [reflexivity|split; assumption].
      + destruct (analyse i) as [[f1 r1]|] eqn:Ea; simpl; [|split; [reflexivity|exact Hinv]].
        split; [reflexivity|]. eapply inv_put_vetx; eassumption.
  Qed.

  Lemma run_pkgs_ref ps : forall c dn,
    inv c -> snd (run_pkgsf c dn ps) = ref_pkgsf dn ps /\ inv (fst (run_pkgsf c dn ps)).
  Proof.
    induction ps as [|p t IH]; intros c dn Hinv; simpl; [split; [reflexivity|exact Hinv]|].
    pose proof (step_ref c dn p Hinv) as [Hs Hi].
    destruct (stepf c dn p) as [[c' f] o]. simpl in Hs, Hi.
    destruct (ref_stepf dn p) as [f' o']. injection Hs as <- <-.
    specialize (IH c' ((p_id p, f) :: dn) Hi).
    destruct (run_pkgsf c' ((p_id p, f) :: dn) t) as [c'' os]. simpl in *.
    destruct IH as [IH1 IH2]. split; [rewrite IH1; reflexivity | exact IH2].
  Qed.

  (* a run on a cache satisfying the invariant returns exactly what analysing everything returns *)
  Theorem run_eq_ref w c : inv c -> snd (runf w c) = ref_runf w.
  Proof. intro Hi. apply (run_pkgs_ref w c [] Hi). Qed.
  Theorem run_keeps_inv w c : inv c -> inv (fst (runf w c)).
  Proof. intro Hi. apply (run_pkgs_ref w c [] Hi). Qed.

  Lemma trim_keeps_inv kv kr c : inv c -> inv (trim F R K kv kr c).
  Proof.
    intros [Hv Hr]. split; simpl.
    - intros k f E. destruct (kv k); [exact (Hv k f E) | discriminate].
    - intros k r E. destruct (kr k); [exact (Hr k r E) | discriminate].
  Qed.

  (* cache_inv: every history of edits, runs and trims, from any cache satisfying the invariant *)
  Theorem cache_inv_after h : forall w c, inv c -> inv (snd (afterf h w c)).
  Proof.
    induction h as [|op t IH]; intros w c Hi; simpl; [exact Hi|].
    destruct op as [e| |kv kr].
    - apply IH. exact Hi.
    - apply IH. apply run_keeps_inv. exact Hi.
    - apply IH. apply trim_keeps_inv. exact Hi.
  Qed.

  Theorem warm_eq_ref_generic h w0 w :
    snd (runf w (snd (afterf h w0 empty))) = ref_runf w.
  Proof. apply run_eq_ref. apply cache_inv_after. apply inv_empty. Qed.

  (* warm = cold, for every history and every later world *)
  Theorem warm_eq_cold_generic h w0 w :
    outputf w (snd (afterf h w0 empty)) = outputf w empty.
  Proof.
    unfold output. rewrite warm_eq_ref_generic. rewrite (run_eq_ref w empty inv_empty). reflexivity.
  Qed.

  (* the check selection is not a key field: inputs differing only there share one key ... *)
  Lemma key_same_but_checks i i' :
    ~ In (Cfg "Checks") KF -> ~ In FlagChecks KF -> same_but_checks V F i i' -> keyf i = keyf i'.
  Proof.
    intros N1 N2 [Hd Hl]. unfold key. f_equal. apply map_ext_in. intros d Hin.
    assert (d <> Cfg "Checks") by (intro; subst; contradiction).
    assert (d <> FlagChecks) by (intro; subst; contradiction).
    specialize (Hl d H0 H1).
    destruct d; simpl; try (rewrite Hl; reflexivity). rewrite Hd. reflexivity.
  Qed.

  (* ... so the entries written under one selection are found under another one (no re-analysis), and
     because [post] (which applies the selection) works on the loaded, unfiltered record the output is
     still the cold output *)
  Theorem checks_not_in_key_generic :
    ~ In (Cfg "Checks") KF -> ~ In FlagChecks KF ->
    (forall i i', same_but_checks V F i i' -> keyf i = keyf i') /\
    (forall h w0 w, outputf w (snd (afterf h w0 empty)) = outputf w empty).
  Proof.
    intros N1 N2. split.
    - intros i i'. apply key_same_but_checks; assumption.
    - apply warm_eq_cold_generic.
  Qed.


  (* ---------- the cache is effective: what a run stored is found by later runs ---------- *)
  Local Notation analyses_pkgsf := (analyses_pkgs V F R K K_eq_dec KF H analyse).
  Local Notation step_analysesf := (step_analyses V F R K K_eq_dec KF H).

  (* the cache only grows during a run *)
  Definition grows (c c' : cache F R K) : Prop :=
    (forall k, c_vetx c k <> None -> c_vetx c' k <> None) /\ (forall k, c_res c k <> None -> c_res c' k <> None).
  Lemma grows_refl c : grows c c.
  Proof. split; auto. Qed.
  Lemma grows_trans a b c : grows a b -> grows b c -> grows a c.
  Proof. intros [A1 A2] [B1 B2]. split; auto. Qed.
  Lemma grows_put_vetx k f c : grows c (put_vetxf k f c).
  Proof. split; simpl; intros k' Hk; [destruct (K_eq_dec k' k); [discriminate|exact Hk] | exact Hk]. Qed.
  Lemma grows_put_res k r c : grows c (put_resf k r c).
  Proof. split; simpl; intros k' Hk; [exact Hk | destruct (K_eq_dec k' k); [discriminate|exact Hk]]. Qed.

  (* a step that succeeds leaves vetx (and, for an initial package, results) under the package's key *)
  Lemma step_grows_stores c dn p :
    grows c (fst (fst (stepf c dn p))) /\
    (forall df f, dep_facts F dn (p_deps p) = Some df -> snd (fst (stepf c dn p)) = Some f ->
       c_vetx (fst (fst (stepf c dn p))) (keyf (mkInp (p_loc p) df)) <> None /\
       (p_initial p = true -> c_res (fst (fst (stepf c dn p))) (keyf (mkInp (p_loc p) df)) <> None)).
  Proof.
    unfold step. destruct (dep_facts F dn (p_deps p)) as [df|];
      [|split; [apply grows_refl | intros df f E; discriminate]].
    set (k := keyf (mkInp (p_loc p) df)).
    destruct (p_initial p).
    - destruct (c_vetx c k) as [fv|] eqn:Ev; [destruct (c_res c k) as [rv|] eqn:Er|].
      + simpl. split; [apply grows_refl|]. intros df' f E _. injection E as <-. fold k.
        rewrite Ev, Er. split; [discriminate | intros _; discriminate].
      + destruct (analyse (mkInp (p_loc p) df)) as [[f1 r1]|]; simpl.
        * split; [eapply grows_trans; [apply grows_put_vetx | apply grows_put_res]|].
          intros df' f E _. injection E as <-. fold k. simpl.
          destruct (K_eq_dec k k) as [_|N]; [|contradiction]. split; [discriminate | intros _; discriminate].
        * split; [apply grows_refl | intros df' f _ E; discriminate].
      + destruct (analyse (mkInp (p_loc p) df)) as [[f1 r1]|]; simpl.
        * split; [eapply grows_trans; [apply grows_put_vetx | apply grows_put_res]|].
          intros df' f E _. injection E as <-. fold k. simpl.
          destruct (K_eq_dec k k) as [_|N]; [|contradiction]. split; [discriminate | intros _; discriminate].
        * split; [apply grows_refl | intros df' f _ E; discriminate].
    - destruct (c_vetx c k) as [fv|] eqn:Ev.
      + simpl. split; [apply grows_refl|]. intros df' f E _. injection E as <-. fold k.
        rewrite Ev. split; [discriminate | intro; discriminate].
      + destruct (analyse (mkInp (p_loc p) df)) as [[f1 r1]|]; simpl.
        * split; [apply grows_put_vetx|].
          intros df' f E _. injection E as <-. fold k. simpl.
          destruct (K_eq_dec k k) as [_|N]; [|contradiction]. split; [discriminate | intro; discriminate].
        * split; [apply grows_refl | intros df' f _ E; discriminate].
  Qed.

  Lemma run_pkgs_grows ps : forall c dn, grows c (fst (run_pkgsf c dn ps)).
  Proof.
    induction ps as [|p t IH]; intros c dn; simpl; [apply grows_refl|].
    pose proof (proj1 (step_grows_stores c dn p)) as Hs. destruct (stepf c dn p) as [[c' f] o]. simpl in Hs.
    specialize (IH c' ((p_id p, f) :: dn)). destruct (run_pkgsf c' ((p_id p, f) :: dn) t) as [c'' os]. simpl in *.
    eapply grows_trans; eassumption.
  Qed.

  (* two descriptions of a package that differ at most in the check selection *)
  Definition same_pkg (p p' : pkg V) : Prop :=
    p_id p = p_id p' /\ p_deps p = p_deps p' /\ p_initial p = p_initial p' /\
    forall d, d <> Cfg "Checks" -> d <> FlagChecks -> p_loc p d = p_loc p' d.

  Lemma rerun_pkgs :
    ~ In (Cfg "Checks") KF -> ~ In FlagChecks KF ->
    forall ps ps', Forall2 same_pkg ps ps' ->
    forall c dn cR, inv c -> inv cR -> grows (fst (run_pkgsf c dn ps)) cR ->
      (forall x, In x (ref_pkgsf dn ps) -> snd x <> OFailed) ->
      analyses_pkgsf cR dn ps' = 0.
  Proof.
    intros N1 N2 ps ps' HF. induction HF as [|p p' t t' Hp HF IH]; intros c dn cR Hc HR Hg Hok; [reflexivity|].
    destruct Hp as [Hid [Hdeps [Hini Hloc]]].
    (* the first run on p *)
    pose proof (step_ref c dn p Hc) as [Hs Hi].
    pose proof (step_grows_stores c dn p) as [_ Hst].
    simpl in Hg, Hok.
    destruct (stepf c dn p) as [[c1 f] o] eqn:Estep. simpl in Hs, Hi, Hst.
    destruct (ref_stepf dn p) as [f0 o0] eqn:Eref. injection Hs as <- <-.
    assert (Ho : o <> OFailed) by (apply (Hok (p_id p, o)); left; reflexivity).
    assert (Hg1 : grows c1 cR).
    { pose proof (run_pkgs_grows t c1 ((p_id p, f) :: dn)) as G.
      destruct (run_pkgsf c1 ((p_id p, f) :: dn) t) as [c2 os]. simpl in *. eapply grows_trans; eassumption. }
    (* it succeeded *)
    unfold ref_step in Eref.
    destruct (dep_facts F dn (p_deps p)) as [df|] eqn:Edf; [|injection Eref as <- <-; contradiction].
    destruct (analyse (mkInp (p_loc p) df)) as [[fa ra]|] eqn:Ea; [|injection Eref as <- <-; contradiction].
    injection Eref as <- Eo.
    destruct (Hst df fa eq_refl eq_refl) as [Hv Hr].
    (* the second run on p' hits *)
    assert (Hk : keyf (mkInp (p_loc p') df) = keyf (mkInp (p_loc p) df)).
    { apply key_same_but_checks; [assumption|assumption|]. split; [reflexivity|].
      intros d D1 D2. simpl. symmetry. apply Hloc; assumption. }
    destruct Hg1 as [Gv Gr].
    simpl. unfold step_analyses, step. rewrite <- Hdeps, Edf, <- Hini. rewrite Hk.
    set (k := keyf (mkInp (p_loc p) df)) in *.
    destruct (c_vetx cR k) as [fv|] eqn:Ev; [|exfalso; apply (Gv k Hv); exact Ev].
    assert (Hfv : fv = fa).
    { destruct HR as [HRv _]. destruct (HRv k fv Ev (mkInp (p_loc p) df) eq_refl) as [r1 H1].
      rewrite Ea in H1. injection H1 as -> _. reflexivity. }
    subst fv.
    assert (Htail : forall x, In x (ref_pkgsf ((p_id p, Some fa) :: dn) t) -> snd x <> OFailed).
    { intros x Hx. apply Hok. right. exact Hx. }
    assert (Hg2 : grows (fst (run_pkgsf c1 ((p_id p, Some fa) :: dn) t)) cR).
    { destruct (run_pkgsf c1 ((p_id p, Some fa) :: dn) t) as [c2 os]. exact Hg. }
    destruct (p_initial p).
    - destruct (c_res cR k) as [rv|] eqn:Er; [|exfalso; apply (Gr k (Hr eq_refl)); exact Er].
      simpl. rewrite <- Hid. apply (IH c1 ((p_id p, Some fa) :: dn) cR Hi HR Hg2 Htail).
    - simpl. rewrite <- Hid. apply (IH c1 ((p_id p, Some fa) :: dn) cR Hi HR Hg2 Htail).
  Qed.

  (* After a run of w (on any cache satisfying the invariant, e.g. the one an arbitrary history left) in which
     no package failed, a run of any world that differs from w at most in the check selection performs NO
     analysis, provided nothing was trimmed in between. *)
  Theorem rerun_no_analysis_generic :
    ~ In (Cfg "Checks") KF -> ~ In FlagChecks KF ->
    forall w w' c, inv c -> Forall2 same_pkg w w' ->
      (forall x, In x (ref_runf w) -> snd x <> OFailed) ->
      analyses V F R K K_eq_dec KF H analyse w' (fst (runf w c)) = 0.
  Proof.
    intros N1 N2 w w' c Hc HF Hok. unfold analyses.
    apply (rerun_pkgs N1 N2 w w' HF c [] (fst (runf w c)) Hc (run_keeps_inv w c Hc)); [apply grows_refl | exact Hok].
  Qed.
End Proofs.
