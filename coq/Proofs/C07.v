(* C07 — U1000 is deletion-safe and catches every zero-reference object: proofs over the shared graph model. *)
From Coq Require Import List NArith PArith Bool Lia Arith Permutation Wf_nat.
From Coq Require Import ZifyBool ZifyNat ZifyN.
Import ListNotations.
Require Import Verif.Model.C17_Graph Verif.Model.C17_Check Verif.Model.C07 Verif.Proofs.C17_Graph Verif.Proofs.C17.
Open Scope N_scope.

(* no kept object refers to a removed one along a use edge: the set of used nodes is closed under uses *)
Theorem used_closed : forall g a b, seen g a -> In b (guses g a) -> b < gn g -> seen g b.
Proof. intros g a b Ha Hb Hn. eapply reach_step; eauto. Qed.

Lemma seen_root : forall g, 0 < gn g -> seen g 0.
Proof. intros g H. apply reach_src; auto. Qed.

(* a node without any incoming use edge and without owner is reported *)
Theorem zero_in_unused : forall g v,
  v <> 0 -> (forall u, u < gn g -> ~ In v (guses g u)) -> (forall u, u < gn g -> ~ In v (gowns g u)) ->
  verdict g v = Unused.
Proof.
  intros g v Hv Hu Ho. apply verdict_spec. split.
  - intros H. inversion H as [y Hsrc Hy | y z Hy Hz Hzn]; subst.
    + congruence.
    + apply (Hu y); [eapply reachN_lt; eauto|exact Hz].
  - intros H. inversion H as [y Hsrc Hy | y z Hy Hz Hzn]; subst.
    + destruct Hsrc as (u & Hlt & _ & Hin). apply (Ho u); assumption.
    + apply (Ho y); [eapply reachN_lt; eauto|exact Hz].
Qed.

(* weaker premise: no incoming edge FROM USED CODE and no owner *)
Theorem unreferenced_from_used_is_unused : forall g v,
  v <> 0 -> (forall u, seen g u -> ~ In v (guses g u)) -> (forall u, u < gn g -> ~ In v (gowns g u)) ->
  verdict g v = Unused.
Proof.
  intros g v Hv Hu Ho. apply verdict_spec. split.
  - intros H. inversion H as [y Hsrc Hy | y z Hy Hz Hzn]; subst; [congruence|]. apply (Hu y); assumption.
  - intros H. inversion H as [y Hsrc Hy | y z Hy Hz Hzn]; subst.
    + destruct Hsrc as (u & Hlt & _ & Hin). apply (Ho u); assumption.
    + apply (Ho y); [eapply reachN_lt; eauto|exact Hz].
Qed.

(* ------------------------------------------------------------------ the deleted set *)
Lemma reach_owns_iff : forall g (src : node -> Prop) x,
  reachN (gn g) (gowns g) src x <-> exists u, src u /\ u < gn g /\ owns_star g u x.
Proof.
  intros g src x. split.
  - intros H. induction H as [y Hs Hy | y z _ (u & Hs & Hu & Hst) Hz Hzn].
    + exists y. repeat split; auto. constructor.
    + exists u. repeat split; auto. eapply os_step; eauto.
  - intros (u & Hs & Hu & Hst). induction Hst.
    + apply reach_src; auto.
    + eapply reach_step; eauto.
Qed.

Lemma unused_nodes_iff : forall g u, In u (unused_nodes g) <-> u < gn g /\ verdict g u = Unused.
Proof.
  intros g u. unfold unused_nodes, unused_nodes_of. rewrite filter_In, in_all_nodes.
  fold (verdict g u). rewrite verdict_eqb_eq. tauto.
Qed.

Theorem deletedb_iff : forall g x, deletedb g x = true <-> deleted g x.
Proof.
  intros g x. unfold deletedb, deleted_set, deleted. rewrite reach_from_iff, reach_owns_iff.
  split; intros (u & H1 & H2 & H3).
  - apply unused_nodes_iff in H1. exists u. tauto.
  - exists u. split; [apply unused_nodes_iff|]; tauto.
Qed.

Lemma mkctx_eq : forall g, mkctx g = mkCtx (seen_set g) (quiet_set g) (deleted_set g).
Proof. reflexivity. Qed.

Lemma owns_star_lt : forall g u x, owns_star g u x -> u < gn g -> x < gn g.
Proof. intros g u x H Hu. induction H; auto. Qed.

Lemma owns_plus_star : forall g u x, owns_plus g u x -> u < gn g -> owns_star g u x.
Proof.
  intros g u x (w & Hw & Hwn & Hst) Hu.
  eapply owns_star_trans; [|exact Hst]. eapply os_step; [constructor|exact Hw|exact Hwn].
Qed.

Lemma owns_star_cases : forall g u x, owns_star g u x -> u = x \/ owns_plus g u x.
Proof.
  intros g u x H. induction H as [|a b c Hab IH Hc Hcn]; [left; reflexivity|].
  right. destruct IH as [->|(w & Hw & Hwn & Hst)].
  - exists c. repeat split; auto. constructor.
  - exists w. repeat split; auto. eapply os_step; eauto.
Qed.

(* the objects removed together with the reported ones are exactly the reported ones and their owns+ ... *)
Theorem owned_deleted_with_owner : forall g x,
  deleted g x <-> (x < gn g /\ verdict g x = Unused) \/ (exists u, u < gn g /\ verdict g u = Unused /\ owns_plus g u x).
Proof.
  intros g x. split.
  - intros (u & Hu & Hv & Hst). destruct (owns_star_cases g u x Hst) as [->|Hp]; [left; auto|right; eauto].
  - intros [(Hx & Hv)|(u & Hu & Hv & Hp)].
    + exists x. repeat split; auto. constructor.
    + exists u. repeat split; auto. apply owns_plus_star; auto.
Qed.

(* ... and nothing inside a reported object is reported a second time: it is quiet (or used) *)
Theorem nested_not_reported : forall g u x,
  u < gn g -> verdict g u = Unused -> owns_plus g u x -> verdict g x <> Unused.
Proof.
  intros g u x Hu Hv Hp Hx. apply verdict_spec in Hx. destruct Hx as (_ & Hnq). apply Hnq.
  apply quiet_iff_owns_plus. exists u. repeat split; auto. apply verdict_spec in Hv. tauto.
Qed.

(* if owns is acyclic (ranked), every quiet node lies inside a reported one *)
Theorem quiet_has_unused_root : forall g (rank : node -> nat),
  (forall u v, u < gn g -> v < gn g -> In v (gowns g u) -> (rank u < rank v)%nat) ->
  rooted g.
Proof.
  intros g rank Hrank.
  assert (Hstar : forall u x, owns_star g u x -> u < gn g -> (rank u <= rank x)%nat).
  { intros u x H Hu. induction H as [|a b c Hab IH Hc Hcn]; [lia|].
    specialize (IH Hu). pose proof (Hrank b c (owns_star_lt g a b Hab Hu) Hcn Hc). lia. }
  assert (Hplus : forall u x, owns_plus g u x -> u < gn g -> (rank u < rank x)%nat).
  { intros u x (w & Hw & Hwn & Hst) Hu. pose proof (Hrank u w Hu Hwn Hw). pose proof (Hstar w x Hst Hwn). lia. }
  unfold rooted. intros v. remember (rank v) as k eqn:Ek. revert v Ek.
  induction k as [k IH] using lt_wf_ind. intros v Ek Hv Hq.
  apply verdict_spec in Hq. destruct Hq as (Hns & Hq). apply quiet_iff_owns_plus in Hq.
  destruct Hq as (u & Hu & Hnsu & Hp).
  destruct (verdict g u) eqn:Eu.
  - exfalso. apply Hnsu. apply verdict_spec. exact Eu.
  - assert (Hlt : (rank u < k)%nat) by (subst k; apply Hplus; auto).
    destruct (IH (rank u) Hlt u eq_refl Hu Eu) as (w & Hw & Hvw & Hst).
    exists w. repeat split; auto. eapply owns_star_trans; [exact Hst|]. apply owns_plus_star; auto.
  - exists u. repeat split; auto. apply owns_plus_star; auto.
Qed.

(* ------------------------------------------------------------------ deletion safety *)
Theorem deletion_safe_model : forall g refs,
  edges_cover_refs g refs -> rooted g -> inner_refs_local g refs -> deletion_safe g refs.
Proof.
  intros g refs Hc Hr Hi a w b Hin Hna Hdb.
  destruct (Hc a w b Hin) as (Hw & Hb & Hst & Hedge).
  assert (Hsw : seen g w).
  { destruct (verdict g w) eqn:Ew.
    - apply verdict_spec. exact Ew.
    - exfalso. apply Hna. destruct (Hr w Hw Ew) as (u & Hu & Hvu & Hsu).
      exists u. repeat split; auto. eapply owns_star_trans; eauto.
    - exfalso. apply Hna. exists w. repeat split; auto. }
  assert (Hsb : seen g b) by (eapply used_closed; eauto).
  apply Hna. eapply Hi; eauto.
Qed.

(* soundness of the boolean checks evaluated on exported graphs *)
Lemma wit_okb_sound : forall g a w b, wit_okb g (a, w, b) = true ->
  w < gn g /\ b < gn g /\ owns_star g w a /\ In b (guses g w).
Proof.
  intros g a w b H. unfold wit_okb in H. repeat (apply andb_true_iff in H; destruct H as (H & ?)).
  assert (Hw : w < gn g) by lia. repeat split; try lia.
  - apply reach_from_iff in H0. apply reach_owns_iff in H0. destruct H0 as (u & [<-|[]] & _ & Hst). exact Hst.
  - apply memN_iff. assumption.
Qed.

Theorem edges_cover_refsb_sound : forall g refs, edges_cover_refsb g refs = true -> edges_cover_refs g refs.
Proof.
  intros g refs H a w b Hin. unfold edges_cover_refsb in H. rewrite forallb_forall in H.
  apply wit_okb_sound. apply H. exact Hin.
Qed.

Lemma vmem_seen : forall g x, vmem x (seen_set g) = seenb g x. Proof. reflexivity. Qed.
Lemma vmem_del : forall g x, vmem x (deleted_set g) = deletedb g x. Proof. reflexivity. Qed.

Theorem rootedb_sound : forall g, rootedb g = true -> rooted g.
Proof.
  intros g H v Hv Hq. unfold rootedb in H. rewrite mkctx_eq in H. unfold rootedb_ctx in H. cbn [cx_seen cx_quiet cx_del] in H.
  rewrite forallb_forall in H. specialize (H v (proj2 (in_all_nodes _ v) Hv)).
  fold (verdict g v) in H. rewrite Hq in H. cbn in H. apply deletedb_iff. exact H.
Qed.

Theorem inner_okb_sound : forall g refs, inner_okb g refs = true -> inner_refs_local g refs.
Proof.
  intros g refs H a w b Hin Hs Hd. unfold inner_okb in H. rewrite mkctx_eq in H. unfold inner_okb_ctx in H.
  cbn [cx_seen cx_del] in H. rewrite forallb_forall in H. specialize (H _ Hin). cbv beta iota in H.
  change (negb (seenb g b && deletedb g b) || deletedb g a = true) in H.
  apply seenb_iff in Hs. apply deletedb_iff in Hd. rewrite Hs, Hd in H. cbn in H. apply deletedb_iff. exact H.
Qed.

Theorem deletion_safe_b_complete : forall g refs, deletion_safe g refs -> deletion_safe_b g refs = true.
Proof.
  intros g refs H. unfold deletion_safe_b. rewrite mkctx_eq. unfold deletion_safe_b_ctx. cbn [cx_del].
  apply forallb_forall. intros [[a w] b] Hin.
  change (deletedb g a || negb (deletedb g b) = true).
  destruct (deletedb g a) eqn:Ea; [reflexivity|]. cbn.
  destruct (deletedb g b) eqn:Eb; [|reflexivity]. exfalso.
  apply (H a w b Hin).
  - intros Hd. apply deletedb_iff in Hd. congruence.
  - apply deletedb_iff. exact Eb.
Qed.

(* what three successful hypothesis checks on an exported graph imply *)
Theorem checked_graph_is_deletion_safe : forall c refs,
  edges_cover_refsb (of_cgraph c) refs = true -> rootedb (of_cgraph c) = true -> inner_okb (of_cgraph c) refs = true ->
  deletion_safe (of_cgraph c) refs /\ deletion_safe_b (of_cgraph c) refs = true.
Proof.
  intros c refs H1 H2 H3.
  assert (D : deletion_safe (of_cgraph c) refs).
  { apply deletion_safe_model; [apply edges_cover_refsb_sound|apply rootedb_sound|apply inner_okb_sound]; assumption. }
  split; [exact D|apply deletion_safe_b_complete; exact D].
Qed.

(* ------------------------------------------------------------------ Results() is a partition of nodes[1:] *)
Lemma filter3_perm : forall (A : Type) (f : A -> verdictT) (l : list A),
  Permutation (filter (fun p => verdict_eqb (f p) Used) l ++ filter (fun p => verdict_eqb (f p) Unused) l ++
               filter (fun p => verdict_eqb (f p) Quiet) l) l.
Proof.
  intros A f l. induction l as [|x l IH]; [constructor|]. cbn [filter].
  destruct (f x); cbn [verdict_eqb].
  - cbn. constructor. exact IH.
  - eapply Permutation_trans; [|apply perm_skip; exact IH].
    rewrite !app_assoc. apply Permutation_sym. apply Permutation_cons_app. rewrite app_nil_r || idtac.
    rewrite <- !app_assoc. apply Permutation_refl.
  - eapply Permutation_trans; [|apply perm_skip; exact IH].
    apply Permutation_sym. apply Permutation_cons_app. apply Permutation_refl.
Qed.

Lemma map_fst_combine : forall (A B : Type) (l : list A) (vs : list B),
  length vs = length l -> map fst (combine l vs) = l.
Proof.
  intros A B l. induction l as [|x l IH]; intros vs H; [reflexivity|].
  destruct vs as [|v vs]; [discriminate|]. cbn. f_equal. apply IH. injection H; auto.
Qed.
Lemma map_tl' : forall (A B : Type) (f : A -> B) (l : list A), map f (tl l) = tl (map f l).
Proof. intros A B f [|x l]; reflexivity. Qed.

Theorem reported_partition : forall l u un q, results l = (u, un, q) ->
  Permutation (u ++ un ++ q) (map fst (tl l)).
Proof.
  intros l u un q H. unfold results in H.
  assert (Hlen : length (verdicts (of_cgraph (strip l))) = length (map fst l)).
  { rewrite verdicts_length. cbn [of_cgraph gn]. unfold strip. rewrite !map_length. lia. }
  assert (Hfst : map fst (tl (combine (map fst l) (verdicts (of_cgraph (strip l))))) = map fst (tl l)).
  { rewrite map_tl', map_fst_combine by exact Hlen. symmetry. apply map_tl'. }
  inversion H; subst u un q; clear H.
  rewrite <- Hfst. rewrite <- !map_app. apply Permutation_map.
  apply (filter3_perm _ snd (tl (combine (map fst l) (verdicts (of_cgraph (strip l)))))).
Qed.
