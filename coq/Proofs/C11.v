(* C11: proofs about Model/C11.v *)
From Coq Require Import List ZArith Bool String Ascii Lia.
Import ListNotations.
Require Import Verif.Model.C11.
Open Scope string_scope.
Open Scope list_scope.

(* ---------- the allow map ---------- *)
Lemma mem_In a l : mem a l = true <-> In a l.
Proof.
  unfold mem. rewrite existsb_exists. split.
  - intros [x [I E]]. apply String.eqb_eq in E. subst. exact I.
  - intro I. exists a. split; [exact I|apply String.eqb_refl].
Qed.
Lemma mem_filter (p : string -> bool) a l : mem a (filter p l) = mem a l && p a.
Proof.
  apply eq_true_iff_eq. rewrite andb_true_iff, !mem_In, filter_In. tauto.
Qed.
Lemma lookup_set_all names b m a :
  lookup (set_all names b m) a = if mem a names then Some b else lookup m a.
Proof.
  unfold set_all. revert m. induction names as [|x r IH]; intro m; [reflexivity|].
  simpl fold_left. rewrite IH. unfold mem. simpl. rewrite (String.eqb_sym a x).
  destruct (existsb (String.eqb a) r); [rewrite orb_true_r; reflexivity|].
  rewrite orb_false_r. reflexivity.
Qed.

(* one selection element overrides the verdict of exactly the names it matches *)
Lemma sel_step_lookup all m s a :
  lookup (sel_step all m s) a = if matches all (pattern_of s) a then Some (sign_of s) else lookup m a.
Proof.
  unfold sel_step, matches.
  destruct (String.eqb (pattern_of s) "*" || String.eqb (pattern_of s) "all").
  - apply lookup_set_all.
  - destruct (ends_star (pattern_of s)).
    + destruct (has_digit (drop_last (pattern_of s))); simpl; rewrite lookup_set_all, mem_filter; reflexivity.
    + simpl. reflexivity.
Qed.

Lemma fold_lookup all sel : forall m a,
  lookup (fold_left (sel_step all) sel m) a =
  fold_left (fun acc s => if matches all (pattern_of s) a then Some (sign_of s) else acc) sel (lookup m a).
Proof.
  induction sel as [|s r IH]; intros m a; simpl; [reflexivity|].
  rewrite IH, sel_step_lookup. reflexivity.
Qed.

Theorem filter_last_match_gen all sel a : lookup (filter_names all sel) a = last_match all sel a.
Proof. unfold filter_names, last_match. rewrite fold_lookup. reflexivity. Qed.

(* "the last element that matches decides", spelled out *)
Definition decides (all : list string) (sel : list string) (a : string) (b : bool) : Prop :=
  exists l1 s l2, sel = l1 ++ s :: l2 /\ matches all (pattern_of s) a = true /\ sign_of s = b /\
                  forall s', In s' l2 -> matches all (pattern_of s') a = false.

Lemma last_match_app all l1 l2 a :
  last_match all (l1 ++ l2) a =
  match last_match all l2 a with Some b => Some b | None => last_match all l1 a end.
Proof.
  unfold last_match. rewrite fold_left_app.
  generalize (fold_left (fun acc s => if matches all (pattern_of s) a then Some (sign_of s) else acc) l1 None).
  induction l2 as [|s r IH]; intro acc; simpl.
  - destruct acc; reflexivity.
  - rewrite IH. destruct (matches all (pattern_of s) a).
    + rewrite (IH (Some (sign_of s))). destruct (fold_left _ r None); reflexivity.
    + reflexivity.
Qed.
Lemma last_match_none all sel a :
  last_match all sel a = None <-> forall s, In s sel -> matches all (pattern_of s) a = false.
Proof.
  induction sel as [|s r IH] using rev_ind.
  - split; [intros _ s []|reflexivity].
  - rewrite last_match_app. unfold last_match at 1. simpl.
    destruct (matches all (pattern_of s) a) eqn:E.
    + split; [discriminate|]. intro H. assert (Is : In s (r ++ [s])) by (apply in_or_app; right; left; reflexivity). specialize (H s Is). congruence.
    + rewrite IH. split.
      * intros H x Ix. apply in_app_or in Ix. destruct Ix as [Ix|[<-|[]]]; auto.
      * intros H x Ix. apply H. apply in_or_app. left. exact Ix.
Qed.
Theorem last_match_some all sel a b : last_match all sel a = Some b <-> decides all sel a b.
Proof.
  induction sel as [|s r IH] using rev_ind.
  - split; [discriminate|]. intros (l1 & s & l2 & E & _). destruct l1; discriminate.
  - rewrite last_match_app. unfold last_match at 1. simpl.
    destruct (matches all (pattern_of s) a) eqn:E.
    + split.
      * intro H. inversion H. exists r, s, []. repeat split; auto. intros s' [].
      * intros (l1 & s0 & l2 & El & Hm & Hs & Hl2).
        destruct l2 as [|x l2] using rev_ind.
        -- apply app_inj_tail in El. destruct El as [_ <-]. congruence.
        -- clear IHl2. rewrite app_comm_cons, app_assoc in El. apply app_inj_tail in El. destruct El as [_ <-].
           rewrite (Hl2 s) in E; [discriminate|]. apply in_or_app. right. left. reflexivity.
    + rewrite IH. split.
      * intros (l1 & s0 & l2 & -> & Hm & Hs & Hl2). exists l1, s0, (l2 ++ [s]). rewrite <- app_assoc. simpl.
        repeat split; auto. intros s' I. apply in_app_or in I. destruct I as [I|[<-|[]]]; auto.
      * intros (l1 & s0 & l2 & El & Hm & Hs & Hl2).
        destruct l2 as [|x l2] using rev_ind.
        -- apply app_inj_tail in El. destruct El as [_ <-]. congruence.
        -- clear IHl2. rewrite app_comm_cons, app_assoc in El. apply app_inj_tail in El. destruct El as [-> <-].
           exists l1, s0, l2. repeat split; auto. intros s' I. apply Hl2. apply in_or_app. left. exact I.
Qed.

(* ---------- what the globs mean ---------- *)
Lemma ends_star_app p : ends_star (p ++ "*")%string = true.
Proof. induction p as [|a r IH]; simpl; [reflexivity|]. destruct (r ++ "*")%string eqn:E; [destruct r; discriminate|exact IH]. Qed.
Lemma drop_last_app p : drop_last (p ++ "*")%string = p.
Proof.
  induction p as [|a r IH]; simpl; [reflexivity|].
  destruct (r ++ "*")%string eqn:E; [destruct r; discriminate|]. rewrite IH. reflexivity.
Qed.
Lemma not_all_star p : p <> "" -> String.eqb (p ++ "*")%string "*" = false.
Proof.
  intro H. destruct p as [|a r]; [contradiction|]. simpl. destruct (Ascii.eqb a "*"); [|reflexivity].
  destruct r; reflexivity.
Qed.
Lemma not_all_word p : String.eqb (p ++ "*")%string "all" = false.
Proof.
  apply String.eqb_neq. intro E.
  assert (H : ends_star (p ++ "*")%string = true) by apply ends_star_app. rewrite E in H. discriminate.
Qed.
(* C* with letters only: exactly the names whose letter prefix is C (so S* does not match SA1000) *)
Theorem category_glob all p a : p <> "" -> has_digit p = false ->
  matches all (p ++ "*")%string a = mem a all && String.eqb p (letter_prefix a).
Proof.
  intros Hne Hd. unfold matches. rewrite (not_all_star p Hne), not_all_word, ends_star_app, drop_last_app, Hd.
  reflexivity.
Qed.
(* P* with a digit in P: string prefix *)
Theorem prefix_glob all p a : has_digit p = true ->
  matches all (p ++ "*")%string a = mem a all && has_prefix p a.
Proof.
  intro Hd. assert (Hne : p <> "") by (intro E; subst; discriminate).
  unfold matches. rewrite (not_all_star p Hne), not_all_word, ends_star_app, drop_last_app, Hd. reflexivity.
Qed.
Theorem all_glob all a : matches all "*" a = mem a all /\ matches all "all" a = mem a all.
Proof. split; reflexivity. Qed.
Theorem literal_name all pat a : ends_star pat = false -> pat <> "all" -> matches all pat a = String.eqb pat a.
Proof.
  intros H1 H2. unfold matches. rewrite H1.
  assert (E1 : String.eqb pat "*" = false) by (apply String.eqb_neq; intro E; subst; discriminate).
  assert (E2 : String.eqb pat "all" = false) by (apply String.eqb_neq; exact H2).
  rewrite E1, E2. reflexivity.
Qed.

(* ---------- configuration lists ---------- *)
Lemma merge_lists_app a b c : merge_lists a (b ++ c) = merge_lists a b ++ merge_lists a c.
Proof. unfold merge_lists. apply flat_map_app. Qed.
Theorem merge_assoc_gen a b c : merge_lists a (merge_lists b c) = merge_lists (merge_lists a b) c.
Proof.
  induction c as [|x r IH]; [reflexivity|].
  change (merge_lists b (x :: r)) with ((if String.eqb x "inherit" then b else [x]) ++ merge_lists b r).
  change (merge_lists (merge_lists a b) (x :: r)) with
    ((if String.eqb x "inherit" then merge_lists a b else [x]) ++ merge_lists (merge_lists a b) r).
  rewrite merge_lists_app, IH. f_equal.
  destruct (String.eqb x "inherit") eqn:E; [reflexivity|]. simpl. rewrite E. reflexivity.
Qed.
Lemma merge_inherit_id a : merge_lists a ["inherit"] = a.
Proof. simpl. apply app_nil_r. Qed.
Lemma merge_no_inherit a l : ~ In "inherit" l -> merge_lists a l = l.
Proof.
  induction l as [|x r IH]; intro H; [reflexivity|].
  change (merge_lists a (x :: r)) with ((if String.eqb x "inherit" then a else [x]) ++ merge_lists a r).
  destruct (String.eqb x "inherit") eqn:E.
  - apply String.eqb_eq in E. subst. exfalso. apply H. left. reflexivity.
  - rewrite IH; [reflexivity|]. intro I. apply H. right. exact I.
Qed.
Theorem inherit_splices_gen default cs : merge_configs default cs = splice default (rev cs).
Proof.
  unfold merge_configs. induction cs as [|c r IH] using rev_ind; [reflexivity|].
  rewrite fold_left_app, rev_app_distr. simpl. rewrite IH. destruct c; reflexivity.
Qed.
Theorem no_inherit_left default chain : ~ In "inherit" default -> ~ In "inherit" (splice default chain).
Proof.
  intro H. induction chain as [|[l|] r IH]; simpl; auto.
  intro I. apply in_flat_map in I. destruct I as [el [_ I]].
  destruct (String.eqb el "inherit") eqn:E; [auto|].
  destruct I as [->|[]]. rewrite String.eqb_refl in E. discriminate.
Qed.

(* removing adjacent duplicates does not change a left fold of an idempotent step *)
Lemma fold_normalize {S} (f : S -> string -> S) (g : string -> string) :
  (forall acc s, f (f acc s) s = f acc s) ->
  forall l acc, fold_left f (map g (normalize l)) acc = fold_left f (map g l) acc.
Proof.
  intro Hid. induction l as [|x r IH]; intro acc; [reflexivity|].
  destruct r as [|y r'].
  - reflexivity.
  - change (normalize (x :: y :: r')) with (if String.eqb x y then normalize (y :: r') else x :: normalize (y :: r')).
    destruct (String.eqb x y) eqn:E.
    + apply String.eqb_eq in E. subst y. rewrite IH. simpl. rewrite Hid. reflexivity.
    + simpl map at 1. simpl fold_left at 1. rewrite IH. reflexivity.
Qed.
Theorem normalize_preserves_gen all l a : allowed all (normalize l) a = allowed all l a.
Proof.
  unfold allowed. rewrite !filter_last_match_gen. unfold last_match.
  rewrite (fold_normalize (fun acc s => if matches (map lower all) (pattern_of s) (lower a) then Some (sign_of s) else acc) lower).
  - reflexivity.
  - intros acc s. destruct (matches (map lower all) (pattern_of s) (lower a)); reflexivity.
Qed.

(* ---------- success(), exit status ---------- *)
Theorem print_subset_gen all checks ps p :
  In p (success all checks ps) <-> In p ps /\ allowed all checks (p_cat p) = true.
Proof. unfold success. apply filter_In. Qed.

Lemma length_pos_iff {A} (l : list A) : (exists x, In x l) <-> List.length l <> O.
Proof.
  destruct l as [|x r]; simpl; split.
  - intros [x []].
  - congruence.
  - intros _. discriminate.
  - intros _. exists x. left. reflexivity.
Qed.

Theorem exit_iff_gen f all fail si nc ps :
  exit_status f all fail si nc ps = 1%Z <->
  f <> FSarif /\ exists p, In p ps /\ shown si nc p = true /\ should_exit all fail (p_cat p) = true.
Proof.
  unfold exit_status, num_errors.
  set (l := filter (fun p => should_exit all fail (p_cat p)) (filter (shown si nc) ps)).
  assert (Hl : (exists p, In p ps /\ shown si nc p = true /\ should_exit all fail (p_cat p) = true) <-> List.length l <> O).
  { rewrite <- length_pos_iff. unfold l. split; intros [p H]; exists p; rewrite !filter_In in *; tauto. }
  destruct (List.length l) eqn:E.
  - split; [discriminate|]. intros [_ H]. apply Hl in H. congruence.
  - destruct f; split; intro H; try (split; [discriminate|apply Hl; discriminate]); try reflexivity; try discriminate.
    destruct H as [H _]. congruence.
Qed.
Theorem exit_never_other f all fail si nc ps :
  exit_status f all fail si nc ps = 0%Z \/ exit_status f all fail si nc ps = 1%Z.
Proof. unfold exit_status. destruct (num_errors all fail si nc ps); [left; reflexivity|destruct f; auto]. Qed.

Theorem should_exit_spec all fail cat :
  should_exit all fail cat = true <->
  In (lower cat) ["staticcheck"; "compile"; "config"] \/
  last_match (map lower all) (map lower fail) (lower cat) = Some true.
Proof.
  unfold should_exit, allowed. rewrite filter_last_match_gen.
  destruct (String.eqb (lower cat) "staticcheck") eqn:E1; [apply String.eqb_eq in E1; simpl; split; auto|].
  destruct (String.eqb (lower cat) "compile") eqn:E2; [apply String.eqb_eq in E2; simpl; split; auto|].
  destruct (String.eqb (lower cat) "config") eqn:E3; [apply String.eqb_eq in E3; simpl; split; auto|].
  simpl. apply String.eqb_neq in E1, E2, E3.
  destruct (last_match (map lower all) (map lower fail) (lower cat)) as [[|]|]; split; auto; try discriminate;
    intros [[H|[H|[H|[]]]]|H]; try congruence; try discriminate.
Qed.

(* what reaches the formatter *)
Theorem printed_from_shown all fail si nc ps q :
  In q (to_print all fail si nc ps) ->
  exists p, In p ps /\ shown si nc p = true /\ render q = render p.
Proof.
  unfold to_print. rewrite in_map_iff. intros [p [<- I]]. apply filter_In in I. destruct I as [I S].
  exists p. repeat split; auto. unfold resev. destruct (should_exit all fail (p_cat p)); reflexivity.
Qed.
Theorem shown_all_printed all fail si nc ps p :
  In p ps -> shown si nc p = true -> In (render p) (map render (to_print all fail si nc ps)).
Proof.
  intros I S. apply in_map_iff. exists (resev all fail p). split.
  - unfold resev. destruct (should_exit all fail (p_cat p)); reflexivity.
  - unfold to_print. apply in_map. apply filter_In. auto.
Qed.
Theorem formats_same_gen f f' ps : f <> FNull -> f' <> FNull -> format_output f ps = format_output f' ps.
Proof. intros H H'. destruct f, f'; try reflexivity; contradiction. Qed.
Theorem ignored_not_shown_gen nc p : p_sev p = SevIgnored -> shown false nc p = false.
Proof. intro H. unfold shown. rewrite H. simpl. apply andb_false_r. Qed.

(* ---------- failed packages in the import cone ---------- *)
Theorem failed_dep_kept_gen all eff ps p :
  In p ps -> load_error (p_cat p) = true -> In p (lint_package all eff PFailedDep ps).
Proof. intros I H. simpl. apply filter_In. auto. Qed.
Lemma load_error_exits all fail cat : load_error cat = true -> should_exit all fail cat = true.
Proof.
  intro H. apply should_exit_spec. left.
  unfold load_error in H. apply mem_In in H. destruct H as [<-|[<-|[]]]; simpl; auto.
Qed.
Theorem load_error_exit_gen f all fail si l p :
  f <> FSarif -> In p l -> load_error (p_cat p) = true -> shown si false p = true ->
  exit_status f all fail si false l = 1%Z.
Proof.
  intros Hf I H S. apply exit_iff_gen. split; [exact Hf|]. exists p. repeat split; auto. apply load_error_exits. exact H.
Qed.

Theorem undecodable_conf_fails_gen chain :
  load_fails chain = true <-> exists c, In c chain /\ (c = ConfSyntaxError \/ c = ConfMistyped).
Proof.
  unfold load_fails. rewrite existsb_exists. split; intros [c [I H]]; exists c; (split; [exact I|]).
  - destruct c; simpl in H; auto; discriminate.
  - destruct H as [->| ->]; reflexivity.
Qed.
