(* C16 rewrite catalogue, lemmas: before/after schemas of fixes proved equivalent FOR ALL sub-expressions
   (arbitrary denotations: any events, store effects, panics), or refuted with a concrete witness where
   the analyzer's rewrite is not an equivalence.  Each lemma names the check it covers. *)
From Coq Require Import List Arith Bool ZArith Lia.
Import ListNotations.
Require Import Verif.Model.C16_Rewrites.
Local Open Scope Z_scope.

(* ================================================================== monad laws *)
Lemma deq_refl {A} (m : den A) : deq m m. Proof. intro; reflexivity. Qed.
Lemma deq_sym {A} (m n : den A) : deq m n -> deq n m. Proof. intros H s; symmetry; apply H. Qed.
Lemma deq_trans {A} (m n o : den A) : deq m n -> deq n o -> deq m o.
Proof. intros H1 H2 s. rewrite H1. apply H2. Qed.

Lemma bind_ret_l {A B} (a : A) (k : A -> den B) : deq (bind (ret a) k) (k a).
Proof. intro s. unfold bind, ret. destruct (k a s) as [[t s'] r]. reflexivity. Qed.
Lemma bind_ret_r {A} (m : den A) : deq (bind m ret) m.
Proof. intro s. unfold bind, ret. destruct (m s) as [[t s'] [a|]]; [rewrite app_nil_r|]; reflexivity. Qed.
Lemma bind_assoc {A B C} (m : den A) (k : A -> den B) (h : B -> den C) :
  deq (bind (bind m k) h) (bind m (fun a => bind (k a) h)).
Proof.
  intro s. unfold bind. destruct (m s) as [[t1 s1] [a|]]; [|reflexivity].
  destruct (k a s1) as [[t2 s2] [b|]]; [|reflexivity].
  destruct (h b s2) as [[t3 s3] r]. rewrite app_assoc. reflexivity.
Qed.
Lemma bind_ext {A B} (m m' : den A) (k k' : A -> den B) :
  deq m m' -> (forall a, deq (k a) (k' a)) -> deq (bind m k) (bind m' k').
Proof. intros Hm Hk s. unfold bind. rewrite Hm. destruct (m' s) as [[t1 s1] [a|]]; [rewrite Hk|]; reflexivity. Qed.
Lemma bind_ext_r {A B} (m : den A) (k k' : A -> den B) :
  (forall a, deq (k a) (k' a)) -> deq (bind m k) (bind m k').
Proof. intro. apply bind_ext; [apply deq_refl|assumption]. Qed.

(* ================================================================== comparisons *)
Lemma neg_cmpZ o a b : cmpZ (neg_cmp o) a b = negb (cmpZ o a b).
Proof.
  destruct o; simpl; try rewrite negb_involutive; try reflexivity;
    rewrite ?Z.leb_antisym, ?Z.ltb_antisym, ?negb_involutive; reflexivity.
Qed.
Lemma cmpZ_eq_sym o a b : o = Eq \/ o = Ne -> cmpZ o a b = cmpZ o b a.
Proof. intros [->| ->]; simpl; rewrite Z.eqb_sym; reflexivity. Qed.

(* ================================================================== S1002 / double negation *)
(* !!e == e *)
Lemma not_not e : deq (beval (BNot (BNot e))) (beval e).
Proof.
  intro s. simpl. unfold bind, ret. destruct (beval e s) as [[t s'] [b|]]; [|reflexivity].
  rewrite !app_nil_r, negb_involutive. reflexivity.
Qed.

(* S1002: e == true, e == false, e != true, e != false (constant on the right) *)
Lemma S1002_cmp_const_r eq v e :
  deq (beval (BCmpB eq e (BLit v))) (beval (if Bool.eqb eq v then e else BNot e)).
Proof.
  intro s. destruct eq, v; simpl; unfold bind, ret; destruct (beval e s) as [[t s'] [b|]]; try reflexivity;
    rewrite ?app_nil_r; destruct b; reflexivity.
Qed.
(* S1002: constant on the left: true == e, ... *)
Lemma S1002_cmp_const_l eq v e :
  deq (beval (BCmpB eq (BLit v) e)) (beval (if Bool.eqb eq v then e else BNot e)).
Proof.
  intro s. destruct eq, v; simpl; unfold bind, ret; destruct (beval e s) as [[t s'] [b|]]; try reflexivity;
    rewrite ?app_nil_r; destruct b; reflexivity.
Qed.

Lemma strip_nots_correct e :
  deq (beval e) (beval (let (n, c) := strip_nots e in if Nat.odd n then BNot c else c)).
Proof.
  induction e; try apply deq_refl.
  simpl strip_nots. destruct (strip_nots e) as [n c]. rewrite Nat.odd_succ, <- Nat.negb_odd.
  destruct (Nat.odd n); simpl negb; cbv iota.
  - (* e == !c, so !e == !!c == c *)
    eapply deq_trans; [|apply not_not]. simpl. apply bind_ext; [exact IHe|intro; apply deq_refl].
  - simpl. apply bind_ext; [exact IHe|intro; apply deq_refl].
Qed.

(* S1002, the fix as the analyzer builds it (prefix "!" when needed, cancel pairs of leading "!") *)
Theorem S1002_fix_correct eq v e :
  deq (beval (s1002_fix eq v e)) (beval (BCmpB eq e (BLit v))).
Proof.
  unfold s1002_fix. apply deq_sym. eapply deq_trans; [apply S1002_cmp_const_r|]. apply strip_nots_correct.
Qed.

(* ================================================================== QF1001 De Morgan *)
Lemma QF1001_demorgan_and a b : deq (beval (BNot (BAnd a b))) (beval (BOr (BNot a) (BNot b))).
Proof.
  intro s. simpl. unfold bind, ret. destruct (beval a s) as [[t1 s1] [[|]|]]; simpl; rewrite ?app_nil_r; try reflexivity.
  destruct (beval b s1) as [[t2 s2] [x|]]; simpl; rewrite ?app_nil_r, ?app_nil_l; reflexivity.
Qed.
Lemma QF1001_demorgan_or a b : deq (beval (BNot (BOr a b))) (beval (BAnd (BNot a) (BNot b))).
Proof.
  intro s. simpl. unfold bind, ret. destruct (beval a s) as [[t1 s1] [[|]|]]; simpl; rewrite ?app_nil_r; try reflexivity.
  destruct (beval b s1) as [[t2 s2] [x|]]; simpl; rewrite ?app_nil_r, ?app_nil_l; reflexivity.
Qed.
Lemma not_cmpI o a b : deq (beval (BNot (BCmpI o a b))) (beval (BCmpI (neg_cmp o) a b)).
Proof.
  intro s. simpl. unfold bind, ret. destruct (ieval a s) as [[t1 s1] [x|]]; [|reflexivity].
  destruct (ieval b s1) as [[t2 s2] [y|]]; [|reflexivity]. rewrite neg_cmpZ, !app_nil_r. reflexivity.
Qed.
Lemma not_cmpB eq a b : deq (beval (BNot (BCmpB eq a b))) (beval (BCmpB (negb eq) a b)).
Proof.
  intro s. simpl. unfold bind, ret. destruct (beval a s) as [[t1 s1] [x|]]; [|reflexivity].
  destruct (beval b s1) as [[t2 s2] [y|]]; [|reflexivity]. rewrite !app_nil_r.
  destruct eq, x, y; reflexivity.
Qed.
Lemma not_cong a b : deq (beval a) (beval b) -> deq (beval (BNot a)) (beval (BNot b)).
Proof. intro H. simpl. apply bind_ext; [exact H|intro; apply deq_refl]. Qed.

(* QF1001 (all four offered fixes' negation step) and QF1006: NegateDeMorgan is an equivalence, for every
   expression without float comparisons, with arbitrary side-effecting operands, recursive or not *)
Theorem QF1001_negate_correct r e :
  no_float_cmp e = true -> deq (beval (negate r e)) (beval (BNot e)).
Proof.
  induction e; intro NF; simpl negate; try apply deq_refl.
  - (* !a  ~> a *) apply deq_sym, not_not.
  - simpl in NF. apply andb_true_iff in NF as [N1 N2].
    apply deq_sym. eapply deq_trans; [apply QF1001_demorgan_and|].
    simpl. apply bind_ext; [apply deq_sym, IHe1, N1|]. intros [|]; [apply deq_refl|apply deq_sym, IHe2, N2].
  - simpl in NF. apply andb_true_iff in NF as [N1 N2].
    apply deq_sym. eapply deq_trans; [apply QF1001_demorgan_or|].
    simpl. apply bind_ext; [apply deq_sym, IHe1, N1|]. intros [|]; [apply deq_sym, IHe2, N2|apply deq_refl].
  - apply deq_sym, not_cmpI.
  - discriminate.
  - apply deq_sym, not_cmpB.
  - destruct r; [|apply deq_refl]. simpl in NF. exact (IHe NF).
Qed.

(* ... and is NOT one on float orderings: !(NaN < 0) is true, NaN >= 0 is false.  QF1001 guards this with
   hasFloats; QF1006 applies NegateDeMorgan to the loop condition without such a guard. *)
Theorem QF1006_negate_float_refuted :
  exists e s, beval (negate false e) s <> beval (BNot e) s.
Proof.
  exists (BCmpF Lt (FLit FNaN) (FLit (FNum 0))), (mkStore [] [] []). vm_compute. discriminate.
Qed.

(* SimplifyParentheses: a op (b op c) ~> (a op b) op c.  Sound for && || + * ... *)
Lemma and_assoc a b c : deq (beval (BAnd a (BParen (BAnd b c)))) (beval (BAnd (BAnd a b) c)).
Proof.
  intro s. simpl. unfold bind, ret. destruct (beval a s) as [[t1 s1] [[|]|]]; simpl; rewrite ?app_nil_r; try reflexivity.
  destruct (beval b s1) as [[t2 s2] [[|]|]]; simpl; rewrite ?app_nil_r; try reflexivity.
  destruct (beval c s2) as [[t3 s3] r]. rewrite app_assoc. reflexivity.
Qed.
Lemma or_assoc a b c : deq (beval (BOr a (BParen (BOr b c)))) (beval (BOr (BOr a b) c)).
Proof.
  intro s. simpl. unfold bind, ret. destruct (beval a s) as [[t1 s1] [[|]|]]; simpl; rewrite ?app_nil_r; try reflexivity.
  destruct (beval b s1) as [[t2 s2] [[|]|]]; simpl; rewrite ?app_nil_r; try reflexivity.
  destruct (beval c s2) as [[t3 s3] r]. rewrite app_assoc. reflexivity.
Qed.
Lemma rotate_assoc_ok o a b c : o = Add \/ o = Mul ->
  deq (ieval (fst (rotate_i o a b c))) (ieval (snd (rotate_i o a b c))).
Proof.
  intros Ho s. destruct Ho as [->| ->]; simpl; unfold bind, ret;
  (destruct (ieval a s) as [[t1 s1] [x|]]; [|reflexivity]);
  (destruct (ieval b s1) as [[t2 s2] [y|]]; [|reflexivity]); simpl;
  (destruct (ieval c s2) as [[t3 s3] [z|]]; simpl; rewrite ?app_nil_r, ?app_assoc; [|reflexivity]);
  rewrite ?Z.add_assoc, ?Z.mul_assoc; reflexivity.
Qed.
(* ... and NOT for - and / : QF1001's "& simplify" fixes rewrite x == a-(b-c) into x == a-b-c *)
Theorem QF1001_simplify_sub_refuted :
  exists a b c s, ieval (fst (rotate_i Sub a b c)) s <> ieval (snd (rotate_i Sub a b c)) s.
Proof. exists (ILit 5), (ILit 3), (ILit 1), (mkStore [] [] []). vm_compute. discriminate. Qed.
Theorem QF1001_simplify_div_refuted :
  exists a b c s, ieval (fst (rotate_i Div a b c)) s <> ieval (snd (rotate_i Div a b c)) s.
Proof. exists (ILit 8), (ILit 4), (ILit 2), (mkStore [] [] []). vm_compute. discriminate. Qed.

(* ================================================================== ST1017 Yoda conditions *)
Lemma iconst_eval c : iconst c = true -> exists z, forall s, ieval c s = ([], s, Some z).
Proof.
  induction c; simpl; intro H; try discriminate.
  - eexists; intro; reflexivity.
  - destruct o; try discriminate; apply andb_true_iff in H as [H1 H2];
      destruct (IHc1 H1) as [x Hx]; destruct (IHc2 H2) as [y Hy];
      eexists; intro s; unfold bind; rewrite Hx, Hy; simpl; reflexivity.
  - auto.
Qed.
(* swapping is sound when the left operand is a constant expression, whatever the right one does *)
Theorem ST1017_yoda_swap o c e : iconst c = true -> o = Eq \/ o = Ne ->
  deq (beval (BCmpI o c e)) (beval (BCmpI o e c)).
Proof.
  intros Hc Ho s. destruct (iconst_eval c Hc) as [z Hz]. simpl. unfold bind, ret. rewrite Hz.
  destruct (ieval e s) as [[t s'] [y|]]; [|reflexivity]. rewrite Hz. simpl.
  rewrite !app_nil_r, (cmpZ_eq_sym o z y Ho). reflexivity.
Qed.
(* ... and not in general: two operands that log *)
Theorem yoda_swap_effectful_refuted :
  exists a b s, beval (BCmpI Eq a b) s <> beval (BCmpI Eq b a) s.
Proof.
  exists (IOp (fun s => ([Ev 1 0], s, Some 0))), (IOp (fun s => ([Ev 2 0], s, Some 0))), (mkStore [] [] []).
  vm_compute. discriminate.
Qed.

(* ================================================================== S1008 *)
(* if c { return true }; return false   ==   return c *)
Theorem S1008_if_return c :
  deq (sexec (SSeq (SIf c (SReturnB (BLit true)) SSkip) (SReturnB (BLit false)))) (sexec (SReturnB c)).
Proof.
  intro s. simpl. unfold bind, ret, seqr. destruct (beval c s) as [[t s'] [[|]|]]; simpl; rewrite ?app_nil_r; reflexivity.
Qed.
(* if c { return false }; return true   ==   return !c *)
Theorem S1008_if_return_neg c :
  deq (sexec (SSeq (SIf c (SReturnB (BLit false)) SSkip) (SReturnB (BLit true)))) (sexec (SReturnB (BNot c))).
Proof.
  intro s. simpl. unfold bind, ret, seqr. destruct (beval c s) as [[t s'] [[|]|]]; simpl; rewrite ?app_nil_r; reflexivity.
Qed.

(* ================================================================== QF1007 / S1021 *)
Lemma upd_upd {A} (d : A) l : forall x a b, upd d (upd d l x a) x b = upd d l x b.
Proof.
  induction l as [|y l IH]; intros x a b.
  - induction x; simpl; [reflexivity|]. f_equal. exact IHx.
  - destruct x; simpl; [reflexivity|]. f_equal. apply IH.
Qed.
Lemma setb_setb s x a b : setb (setb s x a) x b = setb s x b.
Proof. unfold setb. simpl. rewrite upd_upd. reflexivity. Qed.
Lemma seti_seti s x a b : seti (seti s x a) x b = seti s x b.
Proof. unfold seti. simpl. rewrite upd_upd. reflexivity. Qed.

(* x := false; if c { x = true }   ==   x := c      (c does not mention the new x).
   If c panics, the only difference is that the (dead, function-local) variable x already holds its
   initial value on the left; [upto_dead_b x v] states exactly that. *)
Definition upto_dead_b {A} (x : nat) (v : bool) (l r : trace * store * option A) : Prop :=
  match r with
  | (t, s2, Some a) => l = (t, s2, Some a)
  | (t, s2, None) => l = (t, setb s2 x v, None)
  end.
Definition upto_dead_i {A} (x : nat) (v : Z) (l r : trace * store * option A) : Prop :=
  match r with
  | (t, s2, Some a) => l = (t, s2, Some a)
  | (t, s2, None) => l = (t, seti s2 x v, None)
  end.
Theorem QF1007_merge_false c x : indep_b c x ->
  forall s, upto_dead_b x false
    (sexec (SSeq (SAssignB x (BLit false)) (SIf c (SAssignB x (BLit true)) SSkip)) s) (sexec (SAssignB x c) s).
Proof.
  intros I s. unfold upto_dead_b. simpl. unfold bind, ret, seqr. simpl. rewrite (I s false).
  destruct (beval c s) as [[t s'] [[|]|]]; simpl; rewrite ?app_nil_r, ?setb_setb; reflexivity.
Qed.
(* x := true; if c { x = false }   ==   x := !c *)
Theorem QF1007_merge_true c x : indep_b c x ->
  forall s, upto_dead_b x true
    (sexec (SSeq (SAssignB x (BLit true)) (SIf c (SAssignB x (BLit false)) SSkip)) s) (sexec (SAssignB x (BNot c)) s).
Proof.
  intros I s. unfold upto_dead_b. simpl. unfold bind, ret, seqr. simpl. rewrite (I s true).
  destruct (beval c s) as [[t s'] [[|]|]]; simpl; rewrite ?app_nil_r, ?setb_setb; reflexivity.
Qed.
(* when c reads the variable the merge is wrong (in Go the merged form does not even resolve x) *)
Theorem QF1007_needs_independence :
  exists c x s, sexec (SSeq (SAssignB x (BLit true)) (SIf c (SAssignB x (BLit false)) SSkip)) s
                <> sexec (SAssignB x (BNot c)) s.
Proof. exists (BVar 0), 0%nat, (mkStore [] [false] []). vm_compute. discriminate. Qed.

(* S1021: var x int; x = e   ==   var x int = e *)
Theorem S1021_merge_decl e x : indep_i e x ->
  forall s, upto_dead_i x 0 (sexec (SSeq (SAssignI x (ILit 0)) (SAssignI x e)) s) (sexec (SAssignI x e) s).
Proof.
  intros I s. unfold upto_dead_i. simpl. unfold bind, ret, seqr. simpl. rewrite (I s 0).
  destruct (ieval e s) as [[t s'] [v|]]; simpl; rewrite ?seti_seti; reflexivity.
Qed.

(* ================================================================== x = x + 1, x += 1, x++ ; S1005 *)
Theorem incdec_forms x :
  deq (sexec (SAssignI x (IBin Add (IVar x) (ILit 1)))) (sexec (SIncr x)) /\
  deq (sexec (SAddAssign x (ILit 1))) (sexec (SIncr x)).
Proof. split; intro s; reflexivity. Qed.
(* S1005: _ = e   ==   e   (any e, e.g. a channel receive) *)
Theorem S1005_blank_assign e : deq (sexec (SBlankI e)) (sexec (SExprI e)).
Proof. intro s; reflexivity. Qed.

(* ================================================================== QF1006 *)
Lemma loop_ext n : forall c c' b b', deq c c' -> deq b b' -> deq (loop n c b) (loop n c' b').
Proof.
  induction n; intros c c' b b' Hc Hb; simpl; [apply deq_refl|].
  apply bind_ext; [exact Hc|]. intros [|]; [|apply deq_refl].
  apply bind_ext; [exact Hb|]. intros []; try apply deq_refl. apply IHn; assumption.
Qed.

(* for { if c { break }; body }   ==   for !c { body }     (any fuel: same number of iterations) *)
Theorem QF1006_lift_cond n c body :
  deq (sexec (SFor n None (SSeq (SIf c SBreak SSkip) body))) (sexec (SFor n (Some (BNot c)) body)).
Proof.
  simpl sexec. induction n as [|n IH]; [apply deq_refl|].
  simpl loop.
  eapply deq_trans; [apply bind_ret_l|]. cbv beta iota.
  eapply deq_trans; [apply bind_assoc|].
  eapply deq_trans; [apply bind_assoc|].
  apply deq_sym. eapply deq_trans; [apply bind_assoc|]. apply deq_sym.
  apply bind_ext_r. intros [|]; cbv beta iota.
  - (* the condition holds: leave the loop *)
    eapply deq_trans; [apply bind_ret_l|]. simpl seqr. eapply deq_trans; [apply bind_ret_l|].
    apply deq_sym. eapply deq_trans; [apply bind_ret_l|]. apply deq_refl.
  - eapply deq_trans; [apply bind_ret_l|]. simpl seqr.
    apply deq_sym. eapply deq_trans; [apply bind_ret_l|]. simpl negb. cbv iota.
    apply bind_ext_r. intros []; try apply deq_refl. apply deq_sym, IH.
Qed.
(* with the condition NegateDeMorgan produces, for conditions without float comparisons *)
Corollary QF1006_fix_correct n c body : no_float_cmp c = true ->
  deq (sexec (SFor n None (SSeq (SIf c SBreak SSkip) body))) (sexec (SFor n (Some (negate false c)) body)).
Proof.
  intro NF. eapply deq_trans; [apply QF1006_lift_cond|]. simpl. apply loop_ext; [|apply deq_refl].
  apply deq_sym. exact (QF1001_negate_correct false c NF).
Qed.
(* and the loop really differs for a float ordering: one side leaves at once, the other runs the body *)
Theorem QF1006_float_loop_refuted :
  exists c body s,
    sexec (SFor 1 None (SSeq (SIf c SBreak SSkip) body)) s <> sexec (SFor 1 (Some (negate false c)) body) s.
Proof.
  exists (BCmpF Lt (FLit FNaN) (FLit (FNum 0))), (SOp (fun s => ([Ev 7 0], s, Some RNormal))), (mkStore [] [] []).
  vm_compute. discriminate.
Qed.

(* ================================================================== S1033 / S1036 (map guards) *)
Lemma ipure_eval k : ipure k = true -> forall s, exists z, ieval k s = ([], s, Some z).
Proof.
  induction k; simpl; intros H s; try discriminate; try (eexists; reflexivity); auto.
  destruct o; try discriminate; apply andb_true_iff in H as [H1 H2];
    destruct (IHk1 H1 s) as [x Hx]; destruct (IHk2 H2 s) as [y Hy];
    eexists; unfold bind; rewrite Hx, Hy; simpl; reflexivity.
Qed.
Lemma mdelete_absent m k : mlookup m k = None -> mdelete m k = m.
Proof.
  induction m as [|[k' v] m IH]; simpl; intro H; [reflexivity|].
  destruct (Z.eqb k k') eqn:E; [discriminate|]. simpl. f_equal. exact (IH H).
Qed.
Lemma setm_same s : setm s (sm s) = s.
Proof. destruct s; reflexivity. Qed.

(* S1033: if _, ok := m[k]; ok { delete(m, k) }   ==   delete(m, k)      for a key without side effects *)
Theorem S1033_guarded_delete_pure k : ipure k = true ->
  deq (sexec (SGuardedDelete k)) (sexec (SDelete k)).
Proof.
  intros P s. destruct (ipure_eval k P s) as [z Hz]. simpl. unfold bind. rewrite Hz.
  destruct (mlookup (sm s) z) eqn:L.
  - rewrite Hz. reflexivity.
  - simpl. rewrite (mdelete_absent _ _ L), setm_same. reflexivity.
Qed.
(* ... the analyzer does not ask for that: a key whose evaluation counts its calls is evaluated twice
   before and once after the fix *)
Theorem S1033_guarded_delete_refuted :
  exists k s, sexec (SGuardedDelete k) s <> sexec (SDelete k) s.
Proof.
  exists (IOp (fun s => ([Ev 1 (geti s 0)], seti s 0 (geti s 0 + 1), Some 7))), (mkStore [0] [] [(7, 1)]).
  vm_compute. discriminate.
Qed.

(* S1036: if _, ok := m[k]; ok { m[k]++ } else { m[k] = 1 }   ==   m[k]++   (the analyzer requires a pure key) *)
Theorem S1036_guarded_incr k : ipure k = true ->
  deq (sexec (SGuardedMapIncr k)) (sexec (SMapIncr k)).
Proof.
  intros P s. destruct (ipure_eval k P s) as [z Hz]. simpl. unfold bind. rewrite Hz.
  destruct (mlookup (sm s) z) eqn:L; rewrite Hz; unfold map_incr; simpl; rewrite ?L; reflexivity.
Qed.
