(* C08: soundness of the root call symbols: a pattern (CallExpr <Symbol(s)> args) with root call symbols
   [names] matches only call expressions whose Fun -- after removing the transparent wrappers -- go/types
   resolves (Symbol.Match) to a symbol whose fully qualified name is one of [names]. *)
From Coq Require Import List String ZArith NArith Bool Lia.
Import ListNotations.
Require Import Verif.Model.C09_Types Verif.Model.C09 Verif.Model.C08_Types Verif.Model.C08
               Verif.Proofs.C09_Frames Verif.Proofs.C09 Verif.Proofs.C08.
Open Scope string_scope.
Open Scope list_scope.
Local Arguments String.eqb : simpl never.

Section RootCalls.
Variable cfg : matcher_cfg.
Variable orc : oracle.
Variable af : nat.
(* Symbol.Match always compares fn.Name with the name it computed *)
Hypothesis Hsymo : forall rv obj o, o_ta orc "Symbol" rv = Some (obj, o) -> exists nm, o = Some (VStr nm).

(* r with its transparent wrappers (and one-element lists) removed *)
Inductive strip : val -> val -> Prop :=
| strip_refl r : strip r r
| strip_unwrap r r' v : unwrap (cfg_unwrap_right cfg) r = UTo r' -> strip r' v -> strip r v
| strip_single k b x v : strip x v -> strip (VList k b [x]) v.

(* n is (a wrapper around) a call expression whose Fun strips to rv *)
Inductive fun_of : val -> val -> Prop :=
| fo_call fsb fv rv : assoc "Fun" fsb = Some fv -> strip fv rv -> fun_of (VNode "CallExpr" fsb) rv
| fo_unwrap n n' rv : unwrap (cfg_unwrap_right cfg) n = UTo n' -> fun_of n' rv -> fun_of n rv
| fo_single k b x rv : fun_of x rv -> fun_of (VList k b [x]) rv.

(* the value a struct node pattern returns is the matched node with its wrappers removed *)
Lemma pnode_value : forall f ty fs r s v sigma,
  ms cfg orc af f (PNode ty fs) r s = RDone true v sigma -> strip r v.
Proof.
  induction f as [|f IH]; intros ty fs r s v sigma H; [discriminate|].
  simpl ms in H. unfold ms_step in H.
  destruct (unwrap (cfg_unwrap_right cfg) r) as [| |r'] eqn:Hu; [|discriminate|].
  2: { eapply strip_unwrap; [exact Hu|]. eapply IH. exact H. }
  unfold s_node in H. destruct r as [|?|?|?|?|?|k isn l|tyb fsb|?|?|?]; try discriminate.
  - destruct k; try discriminate; destruct l as [|x [|y l']]; try discriminate;
      apply strip_single; eapply IH; exact H.
  - destruct (String.eqb ty tyb); [|discriminate].
    assert (Hv : forall pfs s0, s_fields (ms cfg orc af f) pfs fsb (VNode tyb fsb) s0 = RDone true v sigma -> v = VNode tyb fsb).
    { induction pfs as [|[n pf] pfs IHf]; intros s0 H0; simpl in H0.
      - inversion H0. reflexivity.
      - destruct (assoc n fsb) as [bf|]; [|discriminate].
        destruct (is_pnone pf) eqn:Epn.
        + destruct pf; try discriminate. destruct (is_vnil bf); [|discriminate]. inversion H0. reflexivity.
        + assert (Hgen : match ms cfg orc af f pf bf s0 with
                         | RDone true _ s1 => s_fields (ms cfg orc af f) pfs fsb (VNode tyb fsb) s1
                         | RDone false _ _ => RDone false VNil s0
                         | e => e end = RDone true v sigma).
          { destruct pf; try exact H0. discriminate. }
          destruct (ms cfg orc af f pf bf s0) as [| |ok v1 s1]; try discriminate.
          destruct ok; [eapply IHf; exact Hgen|discriminate]. }
    rewrite (Hv _ _ H). apply strip_refl.
Qed.

Lemma strip_trans_unwrap r r' v : unwrap (cfg_unwrap_right cfg) r = UTo r' -> strip r' v -> strip r v.
Proof. apply strip_unwrap. Qed.

(* the same for an Or of struct node patterns (the pre-pattern of Symbol) *)
Lemma por_nodes_value : forall f ps r s v sigma,
  Forall (fun q => exists ty fs, q = PNode ty fs) ps ->
  ms cfg orc af f (POr ps) r s = RDone true v sigma -> strip r v.
Proof.
  induction f as [|f IH]; intros ps r s v sigma Hps H; [discriminate|].
  simpl ms in H. unfold ms_step in H.
  destruct (unwrap (cfg_unwrap_right cfg) r) as [| |r'] eqn:Hu; [|discriminate|].
  2: { eapply strip_unwrap; [exact Hu|]. eapply IH; eassumption. }
  apply s_or_inv in H as [pre [q [post [-> [_ Hq]]]]].
  rewrite Forall_forall in Hps. destruct (Hps q) as [ty [fs ->]]; [apply in_or_app; right; left; reflexivity|].
  eapply pnode_value. exact Hq.
Qed.

Lemma sym_names_strings : forall ps l,
  (fix go (l : list pat) : option (list string) :=
     match l with
     | [] => Some []
     | PString s :: l' => option_map (cons s) (go l')
     | _ => None
     end) ps = Some l ->
  forall q, In q ps -> exists s, q = PString s /\ In s l.
Proof.
  induction ps as [|p ps IH]; intros l H q Hq; [contradiction|].
  destruct p; try discriminate.
  destruct ((fix go (l : list pat) : option (list string) :=
     match l with
     | [] => Some []
     | PString s :: l' => option_map (cons s) (go l')
     | _ => None
     end) ps) as [l'|] eqn:E; [|discriminate].
  simpl in H. inversion H; subst. destruct Hq as [<-|Hq].
  - exists s. split; [reflexivity|left; reflexivity].
  - destruct (IH l' eq_refl q Hq) as [s' [-> Hin]]. exists s'. split; [reflexivity|right; exact Hin].
Qed.

(* handleSymName: the name pattern of a root Symbol matches exactly the listed names *)
Lemma sym_names_match : forall f name nm s v sigma l,
  sym_names name = Some l -> ms cfg orc af f name (VStr nm) s = RDone true v sigma -> In nm l.
Proof.
  induction f as [|f IH]; intros name nm s v sigma l Hn H; [discriminate|].
  simpl ms in H. unfold ms_step in H. simpl unwrap in H.
  destruct name; try discriminate.
  - (* PString *) simpl in Hn. inversion Hn; subst. simpl in H.
    destruct (String.eqb s0 nm) eqn:E; [|discriminate]. apply String.eqb_eq in E. subst. left. reflexivity.
  - (* PBinding *) simpl in Hn. unfold s_binding in H.
    destruct (is_nilpat name0) eqn:En.
    { destruct name0; try discriminate. }
    destruct (lookup name s); [discriminate|].
    destruct (ms cfg orc af f name0 (VStr nm) s) as [| |ok v1 s1] eqn:E; try discriminate.
    destruct ok; [|discriminate]. eapply IH; eassumption.
  - (* POr *) simpl in Hn. apply s_or_inv in H as [pre [q [post [-> [_ Hq]]]]].
    destruct (sym_names_strings _ _ Hn q) as [s' [-> Hin]]; [apply in_or_app; right; left; reflexivity|].
    destruct f as [|f']; [discriminate|]. simpl in Hq. unfold ms_step in Hq. simpl in Hq.
    destruct (String.eqb s' nm) eqn:E; [|discriminate]. apply String.eqb_eq in E. subst. exact Hin.
Qed.

Lemma root_fun_symbols : forall ps l,
  (fix go (l : list pat) : option (list string) :=
     match l with
     | [] => Some []
     | PTypeAware k name :: l' =>
         if String.eqb k "Symbol" then
           match sym_names name, go l' with Some a, Some b => Some (a ++ b) | _, _ => None end
         else None
     | _ => None
     end) ps = Some l ->
  forall q, In q ps -> exists name a, q = PTypeAware "Symbol" name /\ sym_names name = Some a /\ incl a l.
Proof.
  induction ps as [|p ps IH]; intros l H q Hq; [contradiction|].
  destruct p; try discriminate.
  destruct (String.eqb k "Symbol") eqn:Ek; [|discriminate]. apply String.eqb_eq in Ek. subst k.
  destruct (sym_names p) as [a|] eqn:Ea; [|discriminate].
  destruct ((fix go (l : list pat) : option (list string) :=
     match l with
     | [] => Some []
     | PTypeAware k name :: l' =>
         if String.eqb k "Symbol" then
           match sym_names name, go l' with Some a, Some b => Some (a ++ b) | _, _ => None end
         else None
     | _ => None
     end) ps) as [b|] eqn:Eb; [|discriminate].
  inversion H; subst. destruct Hq as [<-|Hq].
  - exists p, a. repeat split; auto. apply incl_appl. apply incl_refl.
  - destruct (IH b eq_refl q Hq) as [name [a' [-> [Hs Hi]]]]. exists name, a'. repeat split; auto.
    apply incl_appr. exact Hi.
Qed.

Lemma sym_pre_nodes :
  Forall (fun q => exists ty fs, q = PNode ty fs)
    (sym_base ++ [PNode "IndexExpr" [("X", POr sym_base); ("Index", PAny)];
                  PNode "IndexListExpr" [("X", POr sym_base); ("Indices", PAny)]]).
Proof. repeat constructor; eexists; eexists; reflexivity. Qed.

(* handleRootFun *)
Lemma root_fun_match : forall f fp r s v sigma l,
  root_fun fp = Some l -> ms cfg orc af f fp r s = RDone true v sigma ->
  exists rv obj nm, strip r rv /\ o_ta orc "Symbol" rv = Some (obj, Some (VStr nm)) /\ In nm l.
Proof.
  intro f0. induction f0 as [f0 IHs] using lt_wf_ind. intros fp r s v sigma l Hr H.
  destruct f0 as [|f]; [discriminate|].
  simpl ms in H. unfold ms_step in H.
  destruct (unwrap (cfg_unwrap_right cfg) r) as [| |r'] eqn:Hu; [|discriminate|].
  2: { destruct (IHs f (Nat.lt_succ_diag_r f) _ _ _ _ _ _ Hr H) as [rv [obj [nm [Hs [Ho Hin]]]]].
       exists rv, obj, nm. repeat split; auto. eapply strip_unwrap; eassumption. }
  destruct fp; try discriminate.
  - (* PBinding *) simpl in Hr. unfold s_binding in H.
    destruct (is_nilpat fp) eqn:En.
    { destruct fp; try discriminate. }
    destruct (lookup name s); [discriminate|].
    destruct (ms cfg orc af f fp r s) as [| |ok v1 s1] eqn:E; try discriminate.
    destruct ok; [|discriminate]. eapply (IHs f); [lia|exact Hr|exact E].
  - (* POr of Symbols *)
    simpl in Hr. apply s_or_inv in H as [pre [q [post [-> [_ Hq]]]]].
    destruct (root_fun_symbols _ _ Hr q) as [name [a [-> [Hs Hi]]]]; [apply in_or_app; right; left; reflexivity|].
    assert (Hrq : root_fun (PTypeAware "Symbol" name) = Some a) by (simpl; rewrite ?String.eqb_refl; exact Hs).
    destruct (IHs f (Nat.lt_succ_diag_r f) _ _ _ _ _ _ Hrq Hq) as [rv [obj [nm [Hst [Ho Hin]]]]].
    exists rv, obj, nm. repeat split; auto.
  - (* Symbol *)
    simpl in Hr. destruct (String.eqb k "Symbol") eqn:Ek; [|discriminate]. apply String.eqb_eq in Ek. subst k.
    unfold s_ta in H. unfold ta_pre in H. rewrite String.eqb_refl in H.
    match type of H with match ?X with _ => _ end = _ => destruct X as [| |ok rv s1] eqn:E; try discriminate end.
    destruct ok; [|discriminate].
    destruct (o_ta orc "Symbol" rv) as [[obj o]|] eqn:Eo; [|discriminate].
    destruct (Hsymo _ _ _ Eo) as [nm ->].
    destruct (ms cfg orc af f fp (VStr nm) s1) as [| |ok2 v2 s2] eqn:E2; try discriminate.
    destruct ok2; [|discriminate].
    exists rv, obj, nm. split; [eapply por_nodes_value; [exact sym_pre_nodes|exact E]|]. split; [exact Eo|].
    eapply sym_names_match; eassumption.
Qed.

(* s_fields: the pattern of field [fname] matched the value of that field *)
Lemma s_fields_field (rs : srecfn) fname fp : forall fs fsb b s v s',
  Forall (fun nf => is_pnone (snd nf) = false) fs ->
  assoc fname fs = Some fp ->
  s_fields rs fs fsb b s = RDone true v s' ->
  exists bf s1 v1 s2, assoc fname fsb = Some bf /\ rs fp bf s1 = RDone true v1 s2.
Proof.
  induction fs as [|[n pf] fs IH]; intros fsb b s v s' Hnn Ha H; [discriminate|].
  inversion Hnn as [|? ? Hpf Hrest]; subst. simpl in Hpf.
  simpl in H. destruct (assoc n fsb) as [bf|] eqn:Eb; [|discriminate].
  assert (Hgen : match rs pf bf s with
                 | RDone true _ s1 => s_fields rs fs fsb b s1
                 | RDone false _ _ => RDone false VNil s
                 | e => e end = RDone true v s').
  { destruct pf; try exact H. discriminate. }
  clear H. destruct (rs pf bf s) as [| |ok v1 s1] eqn:E; try discriminate. destruct ok; [|discriminate].
  simpl in Ha. destruct (String.eqb n fname) eqn:En.
  - apply String.eqb_eq in En. subst n. inversion Ha; subst pf. exists bf, s, v1, s1. split; assumption.
  - eapply IH; eassumption.
Qed.

(* rootcalls_sound *)
Theorem rootcalls_sound_gen : forall f p n s v sigma,
  known_pat_b p = true -> root_call_names p <> [] ->
  ms cfg orc af f p n s = RDone true v sigma ->
  exists rv obj nm, fun_of n rv /\ o_ta orc "Symbol" rv = Some (obj, Some (VStr nm)) /\ In nm (root_call_names p).
Proof.
  induction f as [|f IH]; intros p n s v sigma Hk Hne H; [discriminate|].
  destruct p as [| | |?|?|? ? ?|? ?|?|?|ty fs|? ?]; try (exfalso; apply Hne; reflexivity).
  unfold root_call_names in *.
  destruct (String.eqb ty "CallExpr") eqn:Ety; [|exfalso; apply Hne; reflexivity].
  apply String.eqb_eq in Ety. subst ty.
  destruct (assoc "Fun" fs) as [fp|] eqn:Efun; [|exfalso; apply Hne; reflexivity].
  destruct (root_fun fp) as [l|] eqn:Erf; [|exfalso; apply Hne; reflexivity].
  simpl ms in H. unfold ms_step in H.
  destruct (unwrap (cfg_unwrap_right cfg) n) as [| |n'] eqn:Hu; [|discriminate|].
  2: { assert (Hne' : root_call_names (PNode "CallExpr" fs) <> []).
       { unfold root_call_names. rewrite String.eqb_refl, Efun, Erf. exact Hne. }
       destruct (IH _ _ _ _ _ Hk Hne' H) as [rv [obj [nm [Hf [Ho Hin]]]]].
       unfold root_call_names in Hin. rewrite String.eqb_refl, Efun, Erf in Hin.
       exists rv, obj, nm. repeat split; auto. eapply fo_unwrap; eassumption. }
  unfold s_node in H. destruct n as [|?|?|?|?|?|k isn l0|ty fsb|?|?|?]; try discriminate.
  - (* one-element list *)
    assert (Hone : exists x, l0 = [x] /\ ms cfg orc af f (PNode "CallExpr" fs) x s = RDone true v sigma).
    { destruct k; try discriminate; destruct l0 as [|x [|y l']]; try discriminate; exists x; split; auto. }
    destruct Hone as [x [-> Hx]].
    assert (Hne' : root_call_names (PNode "CallExpr" fs) <> []).
    { unfold root_call_names. rewrite String.eqb_refl, Efun, Erf. exact Hne. }
    destruct (IH _ _ _ _ _ Hk Hne' Hx) as [rv [obj [nm [Hf [Ho Hin]]]]].
    unfold root_call_names in Hin. rewrite String.eqb_refl, Efun, Erf in Hin.
    exists rv, obj, nm. repeat split; auto. apply fo_single. exact Hf.
  - (* the call expression itself *)
    destruct (String.eqb "CallExpr" ty) eqn:Ety; [|discriminate]. apply String.eqb_eq in Ety. subst ty.
    assert (Hnn : Forall (fun nf : string * pat => is_pnone (snd nf) = false) fs).
    { change (known_pat_b (PNode "CallExpr" fs)) with
        (negb (mem "CallExpr" reserved_names) &&
         (fix go (l : list (string * pat)) : bool :=
            match l with [] => true | (_, q) :: l' => negb (is_pnone q) && known_pat_b q && go l' end) fs) in Hk.
      apply andb_true_iff in Hk as [_ Hk]. clear - Hk. induction fs as [|[n q] fs IHf]; constructor.
      - apply andb_true_iff in Hk as [Hk _]. apply andb_true_iff in Hk as [Hk _]. apply negb_true_iff. exact Hk.
      - apply IHf. apply andb_true_iff in Hk as [_ Hk]. exact Hk. }
    destruct (s_fields_field _ "Fun" fp _ _ _ _ _ _ Hnn Efun H) as [bf [s1 [v1 [s2 [Hbf Hm]]]]].
    destruct (root_fun_match _ _ _ _ _ _ _ Erf Hm) as [rv [obj [nm [Hst [Ho Hin]]]]].
    exists rv, obj, nm. repeat split; auto. eapply fo_call; eassumption.
Qed.
End RootCalls.
