(* C17 / C07 — the executable colouring computes exactly reachability (for every graph, no size bound):
     seenb_iff  : seenb g x = true  <->  seen g x          (reachable from the root along uses, inside 0..n-1)
     quietb_iff : quietb g x = true <->  quiet g x         (owns+ below some node that is not seen)
   plus the generic homomorphism lemma from which order independence and monotonicity follow. *)
From Coq Require Import List NArith PArith Bool Lia Arith MSets.MSetPositive Permutation.
From Coq Require Import ZifyBool ZifyNat ZifyN.
Import ListNotations.
Require Import Verif.Model.C17_Graph.
Open Scope N_scope.

(* ------------------------------------------------------------------ the visited-set mirror *)
Lemma vkey_inj : forall x y, vkey x = vkey y -> x = y.
Proof.
  intros x y H. unfold vkey in H.
  assert (N.pos (N.succ_pos x) = N.pos (N.succ_pos y)) by (f_equal; exact H).
  rewrite !N.succ_pos_spec in H0. lia.
Qed.

Definition wfv (n : N) (v : vis) : Prop :=
  NoDup (fst v) /\ (forall x, In x (fst v) -> x < n) /\ (forall x, vmem x v = true <-> In x (fst v)).

Lemma wfv_empty : forall n, wfv n vempty.
Proof.
  intros n. split; [constructor|]. split; [intros x []|].
  intros x. unfold vmem, vempty. cbn [snd fst]. split; [|intros []].
  intros H. apply PositiveSet.mem_spec in H. exfalso. revert H. apply PositiveSet.empty_spec.
Qed.

Lemma wfv_add : forall n v x, wfv n v -> x < n -> vmem x v = false -> wfv n (vadd x v).
Proof.
  intros n v x (Hnd & Hr & Hm) Hx Hnot. unfold vadd. split; [|split]; cbn [fst snd].
  - constructor; [|exact Hnd]. intros Hin. apply Hm in Hin. congruence.
  - intros y [->|Hy]; auto.
  - intros y. unfold vmem. cbn [snd fst]. rewrite PositiveSet.mem_spec, PositiveSet.add_spec.
    split.
    + intros [He|Hy]; [left; symmetry; apply vkey_inj; exact He|].
      right. apply Hm. unfold vmem. apply PositiveSet.mem_spec. exact Hy.
    + intros [->|Hy]; [left; reflexivity|]. right. apply Hm in Hy. unfold vmem in Hy.
      apply PositiveSet.mem_spec. exact Hy.
Qed.

Lemma wfv_length : forall n v, wfv n v -> (length (fst v) <= N.to_nat n)%nat.
Proof.
  intros n v (Hnd & Hr & _).
  assert (Hnd' : NoDup (map N.to_nat (fst v))).
  { apply FinFun.Injective_map_NoDup; [|exact Hnd]. intros a b Hab. lia. }
  assert (Hincl : incl (map N.to_nat (fst v)) (seq 0 (N.to_nat n))).
  { intros a Ha. apply in_map_iff in Ha. destruct Ha as (b & <- & Hb). apply Hr in Hb.
    apply in_seq. lia. }
  pose proof (NoDup_incl_length Hnd' Hincl) as H. rewrite map_length, seq_length in H. exact H.
Qed.

(* ------------------------------------------------------------------ reachN: basic facts *)
Lemma reachN_lt : forall n succ src x, reachN n succ src x -> x < n.
Proof. intros n succ src x H. destruct H; assumption. Qed.

(* graph homomorphisms preserve reachability: the single lemma behind order independence and monotonicity *)
Lemma reachN_hom : forall n1 n2 succ1 succ2 (src1 src2 : node -> Prop) (f : node -> node),
  (forall x, x < n1 -> f x < n2) ->
  (forall x, src1 x -> x < n1 -> src2 (f x)) ->
  (forall x y, x < n1 -> y < n1 -> In y (succ1 x) -> In (f y) (succ2 (f x))) ->
  forall x, reachN n1 succ1 src1 x -> reachN n2 succ2 src2 (f x).
Proof.
  intros n1 n2 succ1 succ2 src1 src2 f Hr Hs He x H. induction H.
  - apply reach_src; auto.
  - apply reach_step with (x := f x); auto. apply He; auto. eapply reachN_lt; eauto.
Qed.

Lemma reachN_src_mono : forall n succ (s1 s2 : node -> Prop),
  (forall x, s1 x -> x < n -> s2 x) -> forall x, reachN n succ s1 x -> reachN n succ s2 x.
Proof.
  intros n succ s1 s2 H x Hx.
  apply (reachN_hom n n succ succ s1 s2 (fun a => a)); auto.
Qed.

Lemma reachN_via_succ : forall n succ x a,
  x < n -> reachN n succ (fun s => In s (succ x)) a -> reachN n succ (eq x) a.
Proof.
  intros n succ x a Hx H. induction H.
  - apply reach_step with (x := x); auto. apply reach_src; auto.
  - eapply reach_step; eauto.
Qed.

(* ------------------------------------------------------------------ dfs *)
Section Dfs.
  Variable n : N.
  Variable succ : node -> list node.

  (* what one call (or a fold of calls over the list l) guarantees about its result r, given the state v *)
  Definition post (l : list node) (v r : vis) : Prop :=
    wfv n r /\ incl (fst v) (fst r) /\ (length (fst v) <= length (fst r))%nat /\
    (forall y, In y l -> y < n -> In y (fst r)) /\
    (forall a, In a (fst r) -> ~ In a (fst v) -> forall b, In b (succ a) -> b < n -> In b (fst r)) /\
    (forall a, In a (fst r) -> In a (fst v) \/ reachN n succ (fun s => In s l) a).

  Lemma post_nil : forall v, wfv n v -> post [] v v.
  Proof.
    intros v Hv. split; [exact Hv|]. split; [apply incl_refl|]. split; [lia|]. split; [|split].
    - intros y [].
    - intros a Ha Hna. contradiction.
    - intros a Ha. left; exact Ha.
  Qed.

  Lemma fold_post : forall (f : nat),
    (forall x v, wfv n v -> (N.to_nat n < f + length (fst v))%nat -> post [x] v (dfs n succ f x v)) ->
    forall l v, wfv n v -> (N.to_nat n < f + length (fst v))%nat ->
      post l v (fold_left (fun v' y => dfs n succ f y v') l v).
  Proof.
    intros f IH l. induction l as [|y l IHl]; intros v Hv Hfuel.
    - apply post_nil; assumption.
    - cbn [fold_left].
      destruct (IH y v Hv Hfuel) as (Hw1 & Hi1 & Hl1 & Hy1 & Hc1 & Hs1).
      set (v1 := dfs n succ f y v) in *.
      assert (Hfuel1 : (N.to_nat n < f + length (fst v1))%nat) by lia.
      destruct (IHl v1 Hw1 Hfuel1) as (Hw2 & Hi2 & Hl2 & Hy2 & Hc2 & Hs2).
      set (r := fold_left (fun v' y0 => dfs n succ f y0 v') l v1) in *.
      split; [exact Hw2|]. split; [eapply incl_tran; eauto|]. split; [lia|]. split; [|split].
      + intros z [<-|Hz] Hzn; [apply Hi2, Hy1; [left; reflexivity|assumption]|auto].
      + intros a Ha Hna b Hb Hbn.
        destruct (in_dec N.eq_dec a (fst v1)) as [Hin|Hnin].
        * apply Hi2. eapply Hc1; eauto.
        * eapply Hc2; eauto.
      + intros a Ha. destruct (Hs2 a Ha) as [Hin|Hre].
        * destruct (Hs1 a Hin) as [Hin0|Hre0]; [left; assumption|right].
          eapply reachN_src_mono; [|exact Hre0]. cbn. intros s [<-|[]] _. left; reflexivity.
        * right. eapply reachN_src_mono; [|exact Hre]. cbn. intros s Hs _. right; assumption.
  Qed.

  Lemma dfs_post : forall f x v, wfv n v -> (N.to_nat n < f + length (fst v))%nat ->
    post [x] v (dfs n succ f x v).
  Proof.
    induction f as [|f IH]; intros x v Hv Hfuel.
    - pose proof (wfv_length n v Hv). lia.
    - cbn [dfs].
      destruct (negb (x <? n) || vmem x v) eqn:Hc.
      + (* out of range or already seen *)
        destruct (post_nil v Hv) as (Hw & Hi & Hl & _ & Hcl & Hs).
        split; [exact Hw|]. split; [exact Hi|]. split; [exact Hl|]. split; [|split].
        * intros y [<-|[]] Hy. apply Hv. destruct (x <? n) eqn:E; [|lia]. cbn in Hc. exact Hc.
        * exact Hcl.
        * intros a Ha. left; exact Ha.
      + apply orb_false_iff in Hc. destruct Hc as (Hlt & Hm).
        assert (Hx : x < n) by lia.
        assert (Hv0 : wfv n (vadd x v)) by (apply wfv_add; assumption).
        assert (Hfuel0 : (N.to_nat n < f + length (fst (vadd x v)))%nat) by (cbn [vadd fst length]; lia).
        destruct (fold_post f IH (succ x) (vadd x v) Hv0 Hfuel0) as (Hw & Hi & Hl & Hy & Hcl & Hs).
        set (r := fold_left (fun v' y => dfs n succ f y v') (succ x) (vadd x v)) in *.
        assert (Hxr : In x (fst r)) by (apply Hi; left; reflexivity).
        split; [exact Hw|]. split; [intros a Ha; apply Hi; right; exact Ha|].
        split; [cbn [vadd fst length] in Hl; lia|]. split; [|split].
        * intros y [<-|[]] _. exact Hxr.
        * intros a Ha Hna b Hb Hbn.
          destruct (N.eq_dec a x) as [->|Hne].
          -- apply Hy; assumption.
          -- eapply Hcl; eauto. intros [E|Hin]; [congruence|contradiction].
        * intros a Ha. destruct (Hs a Ha) as [[<-|Hin]|Hre].
          -- right. apply reach_src; [left; reflexivity|assumption].
          -- left; assumption.
          -- right. eapply reachN_src_mono; [|apply reachN_via_succ; [exact Hx|exact Hre]].
             cbn. intros s <- _. left; reflexivity.
  Qed.

  (* the closure computed from the empty set is exactly reachability from the sources *)
  Theorem reach_from_iff : forall srcs x,
    vmem x (reach_from n succ srcs) = true <-> reachN n succ (fun s => In s srcs) x.
  Proof.
    intros srcs x. unfold reach_from.
    assert (Hfuel : (N.to_nat n < S (N.to_nat n) + length (fst vempty))%nat) by (cbn; lia).
    destruct (fold_post (S (N.to_nat n)) (dfs_post (S (N.to_nat n))) srcs vempty (wfv_empty n) Hfuel)
      as (Hw & _ & _ & Hy & Hcl & Hs).
    set (r := fold_left (fun v y => dfs n succ (S (N.to_nat n)) y v) srcs vempty) in *.
    destruct Hw as (_ & _ & Hm). rewrite Hm. split.
    - intros Hin. destruct (Hs x Hin) as [[]|H]. exact H.
    - intros H. induction H.
      + apply Hy; assumption.
      + eapply Hcl; eauto.
  Qed.

  Lemma reach_from_wfv : forall srcs, wfv n (reach_from n succ srcs).
  Proof.
    intros srcs. unfold reach_from.
    assert (Hfuel : (N.to_nat n < S (N.to_nat n) + length (fst vempty))%nat) by (cbn; lia).
    apply (fold_post (S (N.to_nat n)) (dfs_post (S (N.to_nat n))) srcs vempty (wfv_empty n) Hfuel).
  Qed.
End Dfs.

(* ------------------------------------------------------------------ seen / quiet / verdict *)
Lemma in_all_nodes : forall n x, In x (all_nodes n) <-> x < n.
Proof.
  intros n x. unfold all_nodes. rewrite in_map_iff. split.
  - intros (k & <- & Hk). apply in_seq in Hk. lia.
  - intros H. exists (N.to_nat x). split; [lia|]. apply in_seq. lia.
Qed.

Theorem seenb_iff : forall g x, seenb g x = true <-> seen g x.
Proof.
  intros g x. unfold seenb, seen_set, seen. rewrite reach_from_iff.
  split; intro H; (eapply reachN_src_mono; [|exact H]); cbn.
  - intros y [<-|[]] _. reflexivity.
  - intros y <- _. left; reflexivity.
Qed.

Lemma quiet_sources_iff : forall g y, In y (quiet_sources g (seen_set g)) <-> quiet_src g y.
Proof.
  intros g y. unfold quiet_sources, quiet_src. rewrite in_flat_map. split.
  - intros (u & Hu & Hy). apply in_all_nodes in Hu. exists u. split; [exact Hu|].
    fold (seenb g u) in Hy. destruct (seenb g u) eqn:E; [destruct Hy|].
    split; [|exact Hy]. intros Hs. apply seenb_iff in Hs. congruence.
  - intros (u & Hu & Hns & Hy). exists u. split; [apply in_all_nodes; exact Hu|].
    fold (seenb g u). destruct (seenb g u) eqn:E; [|exact Hy]. exfalso. apply Hns, seenb_iff, E.
Qed.

Theorem quietb_iff : forall g x, quietb g x = true <-> quiet g x.
Proof.
  intros g x. unfold quietb, quiet_set, quiet_set_of, quiet. rewrite reach_from_iff.
  split; intro H; (eapply reachN_src_mono; [|exact H]); cbn; intros y Hy _; apply quiet_sources_iff; exact Hy.
Qed.

Theorem verdict_spec : forall g x,
  (verdict g x = Used <-> seen g x) /\
  (verdict g x = Quiet <-> ~ seen g x /\ quiet g x) /\
  (verdict g x = Unused <-> ~ seen g x /\ ~ quiet g x).
Proof.
  intros g x. unfold verdict, verdict_of. fold (seenb g x) (quietb g x).
  pose proof (seenb_iff g x) as Hs. pose proof (quietb_iff g x) as Hq.
  destruct (seenb g x), (quietb g x); repeat split; try discriminate; try tauto;
    try (intros _; tauto); try (intros H; exfalso; intuition congruence);
    intuition (try congruence).
Qed.

Lemma verdicts_nth : forall g x, x < gn g ->
  nth (N.to_nat x) (verdicts g) Unused = verdict g x.
Proof.
  intros g x Hx. unfold verdicts, verdict, all_nodes.
  fold (quiet_set g).
  set (f := verdict_of (seen_set g) (quiet_set g)).
  rewrite map_map.
  rewrite nth_indep with (d' := f (N.of_nat O)) by (rewrite map_length, seq_length; lia).
  rewrite (map_nth (fun k => f (N.of_nat k)) (seq 0 (N.to_nat (gn g))) O).
  rewrite seq_nth by lia. cbn [Nat.add]. f_equal. lia.
Qed.

Lemma verdicts_length : forall g, length (verdicts g) = N.to_nat (gn g).
Proof. intros g. unfold verdicts, all_nodes. rewrite !map_length, seq_length. reflexivity. Qed.

(* owns* / owns+ versus the quiet relation *)
Lemma owns_star_trans : forall g x y z, owns_star g x y -> owns_star g y z -> owns_star g x z.
Proof. intros g x y z Hxy Hyz. induction Hyz as [|a b c Hab IH Hc Hcn]; [assumption|]. apply os_step with (y := b); auto. Qed.

Lemma quiet_iff_owns_plus : forall g x,
  quiet g x <-> exists u, u < gn g /\ ~ seen g u /\ owns_plus g u x.
Proof.
  intros g x. unfold quiet. split.
  - intros H. induction H as [y (u & Hu & Hns & Hy) Hyn | y z _ (u & Hu & Hns & w & Hw & Hwn & Hst) Hz Hzn].
    + exists u. repeat split; auto. exists y. repeat split; auto. constructor.
    + exists u. repeat split; auto. exists w. repeat split; auto. eapply os_step; eauto.
  - intros (u & Hu & Hns & w & Hw & Hwn & Hst). induction Hst.
    + apply reach_src; [exists u; auto|assumption].
    + eapply reach_step; eauto.
Qed.
