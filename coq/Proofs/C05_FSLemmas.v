(* C05: list / file-system primitive lemmas used by the invariant proof. *)
From Coq Require Import List NArith ZArith Bool Arith Lia ZifyBool ZifyNat ZifyN.
Import ListNotations.
Require Import Verif.Model.C05_Types Verif.Model.C05_Codec Verif.Model.C05_FS Verif.Proofs.C05_Codec.
Open Scope N_scope.

(* ---- upd ---- *)
Lemma length_upd : forall A (l : list A) i x, length (upd i x l) = length l.
Proof. induction l; destruct i; simpl; auto. Qed.

Lemma nth_error_upd_eq : forall A (l : list A) i x y, nth_error l i = Some y -> nth_error (upd i x l) i = Some x.
Proof. induction l; destruct i; simpl; intros; try discriminate; eauto. Qed.

Lemma nth_error_upd_neq : forall A (l : list A) i j x, i <> j -> nth_error (upd i x l) j = nth_error l j.
Proof.
  induction l; destruct i, j; simpl; intros; auto; try congruence.
Qed.

Lemma nth_error_upd_none : forall A (l : list A) i x, nth_error l i = None -> upd i x l = l.
Proof. induction l; destruct i; simpl; intros; try discriminate; auto. f_equal. auto. Qed.

Lemma Forall_upd : forall A (P : A -> Prop) l i x, Forall P l -> P x -> Forall P (upd i x l).
Proof.
  induction l; destruct i; simpl; intros x HF Hx; auto; inversion HF; subst; constructor; auto.
Qed.

Lemma forallb_nth_error : forall A (f : A -> bool) l i x, forallb f l = true -> nth_error l i = Some x -> f x = true.
Proof.
  intros A f l i x HF Hn. rewrite forallb_forall in HF. apply HF. eapply nth_error_In; eauto.
Qed.

(* ---- prefix ---- *)
Definition prefix (a b : list N) : Prop := exists c, b = a ++ c.

Lemma prefix_nil : forall x, prefix [] x.
Proof. intro x. exists x. reflexivity. Qed.
Lemma prefix_refl : forall x, prefix x x.
Proof. intro x. exists []. rewrite app_nil_r. reflexivity. Qed.
Lemma prefix_length : forall d x, prefix d x -> (length d <= length x)%nat.
Proof. intros d x [c ->]. rewrite app_length. lia. Qed.
Lemma prefix_firstn_eq : forall d x, prefix d x -> d = firstn (length d) x.
Proof. intros d x [c ->]. rewrite firstn_app, Nat.sub_diag, firstn_all. simpl. rewrite app_nil_r. reflexivity. Qed.
Lemma firstn_prefix : forall n x, prefix (firstn n x) x.
Proof. intros n x. exists (skipn n x). symmetry. apply firstn_skipn. Qed.
Lemma prefix_full : forall d x, prefix d x -> length d = length x -> d = x.
Proof. intros d x Hp Hl. rewrite (prefix_firstn_eq d x Hp), Hl. apply firstn_all. Qed.
Lemma prefix_firstn : forall n d x, prefix d x -> prefix (firstn n d) x.
Proof.
  intros n d x Hp. rewrite (prefix_firstn_eq d x Hp). rewrite firstn_firstn. apply firstn_prefix.
Qed.

Lemma firstn_add : forall (x : list N) a b, firstn (a + b) x = firstn a x ++ firstn b (skipn a x).
Proof.
  induction x as [| y x IHx]; intros a b.
  - rewrite !firstn_nil, skipn_nil, firstn_nil. reflexivity.
  - destruct a; simpl; [reflexivity |]. f_equal. apply IHx.
Qed.

Lemma skipn_firstn_swap : forall (x : list N) m n, skipn m (firstn n x) = firstn (n - m) (skipn m x).
Proof.
  induction x as [| y x IHx]; intros m n.
  - rewrite firstn_nil, !skipn_nil, firstn_nil. reflexivity.
  - destruct n; destruct m; simpl; auto.
Qed.

Lemma write_at_firstn : forall x m off n, (m <= length x)%nat -> (off <= m)%nat -> (off + n <= length x)%nat ->
  write_at (firstn m x) off (firstn n (skipn off x)) = firstn (Nat.max m (off + n)) x.
Proof.
  intros x m off n Hm Ho Hn. unfold write_at.
  assert (Hlm : length (firstn m x) = m) by (apply firstn_length_le; lia).
  assert (Hlc : length (firstn n (skipn off x)) = n) by (apply firstn_length_le; rewrite skipn_length; lia).
  rewrite Hlm, Hlc.
  replace (off - m)%nat with 0%nat by lia. cbn [repeat app].
  rewrite firstn_firstn. replace (Nat.min off m) with off by lia.
  rewrite skipn_firstn_swap.
  rewrite app_assoc, <- firstn_add, <- firstn_add. f_equal. lia.
Qed.

Lemma write_at_prefix : forall d x off n, prefix d x -> (off <= length d)%nat -> (off + n <= length x)%nat ->
  let d' := write_at d off (firstn n (skipn off x)) in
  prefix d' x /\ (length d <= length d')%nat /\ (off + n <= length d')%nat.
Proof.
  intros d x off n Hp Ho Hn. pose proof (prefix_length d x Hp) as Hl. cbv zeta.
  pose proof (prefix_firstn_eq d x Hp) as Hd. set (m := length d) in *.
  rewrite Hd. rewrite write_at_firstn by lia.
  split; [apply firstn_prefix |]. rewrite !firstn_length_le by lia. lia.
Qed.

Lemma write_at_cover : forall d e, (length d <= length e)%nat -> write_at d 0 e = e.
Proof.
  intros d e Hl. unfold write_at. cbn [firstn Nat.sub repeat app Nat.add].
  rewrite skipn_all2 by lia. apply app_nil_r.
Qed.

Lemma ftrunc_id : forall d, ftrunc d (length d) = d.
Proof. intro d. unfold ftrunc. rewrite firstn_all, Nat.sub_diag. apply app_nil_r. Qed.

(* ---- paths, names ---- *)
Lemma path_eqb_eq : forall a b, path_eqb a b = true <-> a = b.
Proof.
  destruct a, b; simpl; split; intro Hx; try discriminate; try (apply bytes_eqb_eq in Hx; congruence);
    inversion Hx; subst; apply bytes_eqb_eq; reflexivity.
Qed.
Lemma path_eqb_refl : forall a, path_eqb a a = true.
Proof. intro a. apply path_eqb_eq. reflexivity. Qed.

Lemma lookup_unlink : forall q p ns i, lookup q (unlink p ns) = Some i -> lookup q ns = Some i /\ q <> p.
Proof.
  induction ns as [| [r j] ns IH]; intros i Hl; simpl in *; [discriminate |].
  destruct (path_eqb r p) eqn:E; simpl in Hl.
  - destruct (IH i Hl) as [H1 H2]. split; auto.
    destruct (path_eqb r q) eqn:E2; auto. apply path_eqb_eq in E, E2. congruence.
  - destruct (path_eqb r q) eqn:E2.
    + split; auto. apply path_eqb_eq in E2. subst. intro. subst. rewrite path_eqb_refl in E. discriminate.
    + apply IH; auto.
Qed.

Lemma lookup_unlink_other : forall q p ns, q <> p -> lookup q (unlink p ns) = lookup q ns.
Proof.
  induction ns as [| [r j] ns IH]; intros Hne; simpl; auto.
  destruct (path_eqb r p) eqn:E; simpl.
  - destruct (path_eqb r q) eqn:E2; auto. apply path_eqb_eq in E, E2. congruence.
  - destruct (path_eqb r q); auto.
Qed.

Lemma get_file_set_eq : forall fs i f g, get_file fs i = Some g -> get_file (set_file fs i f) i = Some f.
Proof. intros. unfold get_file, set_file in *. simpl. eapply nth_error_upd_eq; eauto. Qed.
Lemma get_file_set_neq : forall fs i j f, i <> j -> get_file (set_file fs i f) j = get_file fs j.
Proof. intros. unfold get_file, set_file. simpl. apply nth_error_upd_neq; auto. Qed.
