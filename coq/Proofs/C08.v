(* C08: soundness of the entry-kind restriction relative to the reference semantics of the matcher. *)
From Coq Require Import List String ZArith NArith Bool Lia.
Import ListNotations.
Require Import Verif.Model.C09_Types Verif.Model.C09 Verif.Model.C08_Types Verif.Model.C08
               Verif.Proofs.C09_Frames Verif.Proofs.C09.
Open Scope string_scope.
Open Scope list_scope.

Lemma mem_In x l : mem x l = true <-> In x l.
Proof.
  induction l as [|y l IH]; simpl; [split; [discriminate|contradiction]|].
  rewrite orb_true_iff, IH, String.eqb_eq. tauto.
Qed.
Lemma incl_b_In a b x : incl_b a b = true -> In x a -> In x b.
Proof.
  induction a as [|y a IH]; simpl; intros H Hin; [contradiction|].
  apply andb_true_iff in H as [H1 H2]. destruct Hin as [->|Hin]; [apply mem_In; exact H1|apply IH; assumption].
Qed.

Section Entry.
Variable T : entry_tables.
Hypothesis Hok : tables_ok T = true.

Lemma ok_parts :
  (forall ty, In ty (t_all T) -> In ty (row_of T ty) /\ is_table T ty = true) /\
  is_reclist T "Or" = true /\ is_rec T "Binding" = true /\ is_all T "Not" = true /\
  is_all T "Nil" = true /\ is_all T "nil" = true /\ is_table T "Any" = true /\
  (forall ty, In ty (t_all T) -> In ty (row_of T "Any")) /\
  (forall k, In k ta_kinds -> is_table T k = true /\
     match ta_pre k PAny with
     | Some q => forall ty, In ty (entry_kinds T q) -> In ty (row_of T k)
     | None => forall ty, In ty (t_all T) -> In ty (row_of T k)
     end).
Proof.
  unfold tables_ok in Hok.
  apply andb_true_iff in Hok as [Hok _].
  apply andb_true_iff in Hok as [Hok Hta].
  apply andb_true_iff in Hok as [Hok Hanyrow].
  apply andb_true_iff in Hok as [Hok Hany].
  apply andb_true_iff in Hok as [Hok Hnone].
  apply andb_true_iff in Hok as [Hok Hnil].
  apply andb_true_iff in Hok as [Hok Hnot].
  apply andb_true_iff in Hok as [Hok Hbind].
  apply andb_true_iff in Hok as [Hok Hor].
  apply andb_true_iff in Hok as [_ Hrows].
  rewrite forallb_forall in Hrows, Hta.
  repeat split; try assumption.
  - apply Hrows in H. apply andb_true_iff in H as [H _]. apply mem_In. exact H.
  - apply Hrows in H. apply andb_true_iff in H as [_ H]. exact H.
  - intros ty Hty. eapply incl_b_In; eassumption.
  - apply Hta in H. apply andb_true_iff in H as [H _]. exact H.
  - apply Hta in H. apply andb_true_iff in H as [_ H].
    destruct (ta_pre k PAny); intros ty Hty; eapply incl_b_In; eassumption.
Qed.

Lemma ek_table p : is_table T (pat_type p) = true -> entry_kinds T p = row_of T (pat_type p).
Proof.
  unfold is_table, row_of. destruct p; simpl; destruct (beh_of (t_ebeh T) ETable _); try discriminate; reflexivity.
Qed.
Lemma ek_all p : is_all T (pat_type p) = true -> entry_kinds T p = t_all T.
Proof.
  unfold is_all. destruct p; simpl; destruct (beh_of (t_ebeh T) ETable _); try discriminate; reflexivity.
Qed.
Lemma ek_binding n i sub : is_rec T "Binding" = true -> entry_kinds T (PBinding n i sub) = entry_kinds T sub.
Proof. unfold is_rec. simpl. destruct (beh_of (t_ebeh T) ETable "Binding"); try discriminate; reflexivity. Qed.
Lemma ek_or ps q ty : is_reclist T "Or" = true -> In q ps -> In ty (entry_kinds T q) -> In ty (entry_kinds T (POr ps)).
Proof.
  unfold is_reclist. simpl. destruct (beh_of (t_ebeh T) ETable "Or"); try discriminate. intros _.
  induction ps as [|q' ps IH]; intros Hin Hty; [contradiction|].
  apply in_or_app. destruct Hin as [->|Hin]; [left; exact Hty|right; apply IH; assumption].
Qed.

(* the entry kinds of a structural pre-match do not depend on the argument pattern *)
Lemma ek_pre_indep k arg q q0 :
  ta_pre k arg = Some q -> ta_pre k PAny = Some q0 -> entry_kinds T q = entry_kinds T q0.
Proof.
  unfold ta_pre.
  destruct (String.eqb k "Symbol"); [intros H1 H2; inversion H1; inversion H2; reflexivity|].
  destruct (String.eqb k "Builtin").
  { intros H1 H2; inversion H1; inversion H2; subst. simpl.
    destruct (beh_of (t_ebeh T) ETable "Ident"); reflexivity. }
  destruct (String.eqb k "Object").
  { intros H1 H2; inversion H1; inversion H2; subst. simpl.
    destruct (beh_of (t_ebeh T) ETable "Ident"); reflexivity. }
  destruct (String.eqb k "IntegerLiteral"); [intros H1 H2; inversion H1; inversion H2; reflexivity|discriminate].
Qed.
Lemma ta_pre_none_indep k arg : ta_pre k arg = None -> ta_pre k PAny = None.
Proof.
  unfold ta_pre. destruct (String.eqb k "Symbol"); [discriminate|].
  destruct (String.eqb k "Builtin"); [discriminate|]. destruct (String.eqb k "Object"); [discriminate|].
  destruct (String.eqb k "IntegerLiteral"); [discriminate|reflexivity].
Qed.
Lemma ta_pre_some_indep k arg q : ta_pre k arg = Some q -> exists q0, ta_pre k PAny = Some q0.
Proof.
  unfold ta_pre. destruct (String.eqb k "Symbol"); [eexists; reflexivity|].
  destruct (String.eqb k "Builtin"); [eexists; reflexivity|]. destruct (String.eqb k "Object"); [eexists; reflexivity|].
  destruct (String.eqb k "IntegerLiteral"); [eexists; reflexivity|discriminate].
Qed.
Lemma known_ta_pre k arg q :
  is_pnone arg = false -> known_pat_b arg = true -> ta_pre k arg = Some q -> known_pat_b q = true.
Proof.
  unfold ta_pre. intros Hn Hk.
  destruct (String.eqb k "Symbol"); [intro H; inversion H; reflexivity|].
  destruct (String.eqb k "Builtin"); [intro H; inversion H; subst; simpl; rewrite Hk, Hn; reflexivity|].
  destruct (String.eqb k "Object"); [intro H; inversion H; subst; simpl; rewrite Hk, Hn; reflexivity|].
  destruct (String.eqb k "IntegerLiteral"); [intro H; inversion H; reflexivity|discriminate].
Qed.
Lemma known_or ps q : known_pat_b (POr ps) = true -> In q ps -> known_pat_b q = true.
Proof.
  simpl. induction ps as [|q' ps IH]; intros H Hin; [contradiction|].
  apply andb_true_iff in H as [H1 H2]. destruct Hin as [->|Hin]; [exact H1|apply IH; assumption].
Qed.

Variable cfg : matcher_cfg.
Variable orc : oracle.
Variable af : nat.

(* entry_sound: a node of a kind that can start a match (allTypes), which is not itself a transparent
   wrapper, and on which the pattern matches, has its kind among the pattern's entry kinds. *)
Theorem entry_sound_gen ty fs :
  unwrap (cfg_unwrap_right cfg) (VNode ty fs) = UNo -> In ty (t_all T) ->
  forall fuel p s v sigma, known_pat_b p = true ->
    ms cfg orc af fuel p (VNode ty fs) s = RDone true v sigma -> In ty (entry_kinds T p).
Proof.
  intros Hu Hty.
  destruct ok_parts as [Hrows [Hor [Hbind [Hnot [Hnil [Hnone [Hany [Hanyrow Hta]]]]]]]].
  induction fuel as [|fuel IH]; intros p s v sigma Hk H; [discriminate|].
  simpl ms in H. unfold ms_step in H. rewrite Hu in H.
  destruct p as [| | |str|t|name idx sub|hd tl|ps|q|pty pfs|k arg].
  - (* PNone *) simpl in H. discriminate.
  - (* PAny *) rewrite ek_table by exact Hany. apply Hanyrow. exact Hty.
  - (* PNil *) simpl in H. discriminate.
  - (* PString *) simpl in H. discriminate.
  - (* PToken *) simpl in H. discriminate.
  - (* PBinding *)
    rewrite ek_binding by exact Hbind. simpl in Hk. unfold s_binding in H.
    destruct (is_nilpat sub) eqn:En.
    + destruct sub; try discriminate; [rewrite ek_all by exact Hnone | rewrite ek_all by exact Hnil]; exact Hty.
    + destruct (lookup name s); [discriminate|].
      destruct (ms cfg orc af fuel sub (VNode ty fs) s) as [| |ok v1 s1] eqn:E; try discriminate.
      destruct ok; [|discriminate]. eapply IH; eassumption.
  - (* PList *) simpl in H. discriminate.
  - (* POr *)
    apply s_or_inv in H as [pre [q [post [-> [_ Hq]]]]].
    eapply ek_or; [exact Hor | apply in_or_app; right; left; reflexivity |].
    eapply IH; [|exact Hq]. eapply known_or; [exact Hk|]. apply in_or_app. right. left. reflexivity.
  - (* PNot *) rewrite ek_all by exact Hnot. exact Hty.
  - (* PNode *)
    simpl in H. destruct (String.eqb pty ty) eqn:E; [|discriminate]. apply String.eqb_eq in E. subst pty.
    destruct (Hrows ty Hty) as [Hin Htab]. rewrite ek_table by exact Htab. exact Hin.
  - (* PTypeAware *)
    change (known_pat_b (PTypeAware k arg)) with (mem k ta_kinds && negb (is_pnone arg) && known_pat_b arg) in Hk.
    apply andb_true_iff in Hk as [Hkk Harg]. apply andb_true_iff in Hkk as [Hkk Hnn].
    apply negb_true_iff in Hnn. apply mem_In in Hkk.
    destruct (Hta k Hkk) as [Htab Hpre]. rewrite ek_table by exact Htab. simpl pat_type.
    unfold s_ta in H. destruct (ta_pre k arg) as [q|] eqn:Epre.
    + destruct (ta_pre_some_indep k arg q Epre) as [q0 Eq0]. rewrite Eq0 in Hpre.
      apply Hpre. rewrite <- (ek_pre_indep k arg q q0 Epre Eq0).
      destruct (ms cfg orc af fuel q (VNode ty fs) s) as [| |ok v1 s1] eqn:E; try discriminate.
      destruct ok; [|discriminate]. eapply IH; [|exact E]. eapply known_ta_pre; eassumption.
    + rewrite (ta_pre_none_indep k arg Epre) in Hpre. apply Hpre. exact Hty.
Qed.
End Entry.

(* ---- kinds outside allTypes: patterns without a start-anywhere alternative *)
Section Tight.
Variable T : entry_tables.
Hypothesis Hok : tables_ok T = true.
Variable cfg : matcher_cfg.
Variable orc : oracle.
Variable af : nat.

Lemma ok_heads k q : In k ta_kinds -> ta_pre k PAny = Some q -> forall ty, In ty (head_kinds q) -> In ty (row_of T k).
Proof.
  intros Hk Hq ty Hty. unfold tables_ok in Hok. apply andb_true_iff in Hok as [_ H].
  rewrite forallb_forall in H. specialize (H k Hk). rewrite Hq in H. eapply incl_b_In; eassumption.
Qed.

(* a pattern made of Or and struct nodes matches a node only at one of its head kinds *)
Fixpoint heads_shape (q : pat) : bool :=
  match q with
  | PNode _ _ => true
  | POr ps => (fix go (l : list pat) : bool := match l with [] => true | x :: l' => heads_shape x && go l' end) ps
  | _ => false
  end.
Lemma heads_shape_or ps q : heads_shape (POr ps) = true -> In q ps -> heads_shape q = true.
Proof.
  simpl. induction ps as [|x ps IH]; intros H Hin; [contradiction|].
  apply andb_true_iff in H as [H1 H2]. destruct Hin as [->|Hin]; [exact H1|apply IH; assumption].
Qed.
Lemma head_kinds_or ps q ty : In q ps -> In ty (head_kinds q) -> In ty (head_kinds (POr ps)).
Proof.
  simpl. induction ps as [|x ps IH]; intros Hin Hty; [contradiction|].
  apply in_or_app. destruct Hin as [->|Hin]; [left; exact Hty|right; apply IH; assumption].
Qed.

Lemma heads_sound ty fs : unwrap (cfg_unwrap_right cfg) (VNode ty fs) = UNo ->
  forall fuel q s v sigma, heads_shape q = true ->
    ms cfg orc af fuel q (VNode ty fs) s = RDone true v sigma -> In ty (head_kinds q).
Proof.
  intro Hu. induction fuel as [|fuel IH]; intros q s v sigma Hshape H; [discriminate|].
  simpl ms in H. unfold ms_step in H. rewrite Hu in H.
  destruct q; try discriminate.
  - apply s_or_inv in H as [pre [q [post [-> [_ Hq]]]]].
    assert (Hin : In q (pre ++ q :: post)) by (apply in_or_app; right; left; reflexivity).
    eapply head_kinds_or; [exact Hin|]. eapply IH; [|exact Hq]. eapply heads_shape_or; eassumption.
  - simpl in H. destruct (String.eqb ty0 ty) eqn:E; [|discriminate]. apply String.eqb_eq in E. subst. left. reflexivity.
Qed.

Lemma pre_shape k arg q : ta_pre k arg = Some q -> heads_shape q = true.
Proof.
  unfold ta_pre. destruct (String.eqb k "Symbol"); [intro H; inversion H; reflexivity|].
  destruct (String.eqb k "Builtin"); [intro H; inversion H; reflexivity|].
  destruct (String.eqb k "Object"); [intro H; inversion H; reflexivity|].
  destruct (String.eqb k "IntegerLiteral"); [intro H; inversion H; reflexivity|discriminate].
Qed.
Lemma pre_heads_indep k arg q q0 : ta_pre k arg = Some q -> ta_pre k PAny = Some q0 -> head_kinds q = head_kinds q0.
Proof.
  unfold ta_pre. destruct (String.eqb k "Symbol"); [intros H1 H2; inversion H1; inversion H2; reflexivity|].
  destruct (String.eqb k "Builtin"); [intros H1 H2; inversion H1; inversion H2; reflexivity|].
  destruct (String.eqb k "Object"); [intros H1 H2; inversion H1; inversion H2; reflexivity|].
  destruct (String.eqb k "IntegerLiteral"); [intros H1 H2; inversion H1; inversion H2; reflexivity|discriminate].
Qed.
Lemma tight_or ps q : tight T (POr ps) = true -> In q ps -> tight T q = true.
Proof.
  simpl. induction ps as [|x ps IH]; intros H Hin; [contradiction|].
  apply andb_true_iff in H as [H1 H2]. destruct Hin as [->|Hin]; [exact H1|apply IH; assumption].
Qed.

(* entry_sound at EVERY kind (also outside allTypes) for patterns without a start-anywhere alternative *)
Theorem entry_sound_tight_gen ty fs :
  unwrap (cfg_unwrap_right cfg) (VNode ty fs) = UNo ->
  forall fuel p s v sigma, known_pat_b p = true -> tight T p = true ->
    ms cfg orc af fuel p (VNode ty fs) s = RDone true v sigma -> In ty (entry_kinds T p).
Proof.
  intros Hu.
  destruct (ok_parts T Hok) as [Hrows [Hor [Hbind [Hnot [Hnil [Hnone [Hany [Hanyrow Hta]]]]]]]].
  induction fuel as [|fuel IH]; intros p s v sigma Hk Ht H; [discriminate|].
  simpl ms in H. unfold ms_step in H. rewrite Hu in H.
  destruct p as [| | |str|t|name idx sub|hd tl|ps|q|pty pfs|k arg]; try discriminate.
  - (* PBinding *)
    rewrite (ek_binding T) by exact Hbind. simpl in Hk. simpl in Ht. apply andb_true_iff in Ht as [Hn Hts].
    apply negb_true_iff in Hn. unfold s_binding in H. rewrite Hn in H.
    destruct (lookup name s); [discriminate|].
    destruct (ms cfg orc af fuel sub (VNode ty fs) s) as [| |ok v1 s1] eqn:E; try discriminate.
    destruct ok; [|discriminate]. eapply IH; eassumption.
  - (* POr *)
    apply s_or_inv in H as [pre [q [post [-> [_ Hq]]]]].
    assert (Hin : In q (pre ++ q :: post)) by (apply in_or_app; right; left; reflexivity).
    eapply (ek_or T); [exact Hor | exact Hin |].
    eapply IH; [| |exact Hq]; [eapply known_or; eassumption|eapply tight_or; eassumption].
  - (* PNode *)
    simpl in H. destruct (String.eqb pty ty) eqn:E; [|discriminate]. apply String.eqb_eq in E. subst pty.
    simpl in Ht. apply mem_In in Ht. destruct (Hrows ty Ht) as [Hin Htab]. rewrite (ek_table T) by exact Htab. exact Hin.
  - (* PTypeAware *)
    change (known_pat_b (PTypeAware k arg)) with (mem k ta_kinds && negb (is_pnone arg) && known_pat_b arg) in Hk.
    apply andb_true_iff in Hk as [Hkk _]. apply andb_true_iff in Hkk as [Hkk _]. apply mem_In in Hkk.
    destruct (Hta k Hkk) as [Htab _]. rewrite (ek_table T) by exact Htab. simpl pat_type.
    simpl in Ht. destruct (ta_pre k PAny) as [q0|] eqn:Eq0; [|discriminate].
    unfold s_ta in H. destruct (ta_pre k arg) as [q|] eqn:Epre.
    + apply (ok_heads k q0 Hkk Eq0). rewrite <- (pre_heads_indep k arg q q0 Epre Eq0).
      destruct (ms cfg orc af fuel q (VNode ty fs) s) as [| |ok v1 s1] eqn:E; try discriminate.
      destruct ok; [|discriminate]. eapply heads_sound; [exact Hu| |exact E]. eapply pre_shape. exact Epre.
    + rewrite (ta_pre_none_indep k arg Epre) in Eq0. discriminate.
Qed.

(* ... hence a match through such an alternative of an Or is never lost to the entry-kind restriction, whatever
   the other alternatives are *)
Corollary entry_sound_alt_gen ty fs ps q :
  unwrap (cfg_unwrap_right cfg) (VNode ty fs) = UNo ->
  In q ps -> known_pat_b q = true -> tight T q = true ->
  forall fuel s v sigma, ms cfg orc af fuel q (VNode ty fs) s = RDone true v sigma ->
    In ty (entry_kinds T (POr ps)).
Proof.
  intros Hu Hin Hk Ht fuel s v sigma H.
  destruct (ok_parts T Hok) as [_ [Hor _]].
  eapply (ek_or T); [exact Hor|exact Hin|]. eapply entry_sound_tight_gen; eassumption.
Qed.
End Tight.

(* wrapper_transparent: on a transparent wrapper node the matcher does exactly what it does on the node
   it wraps, so the wrapper copies of a match carry no information of their own (the "core node"). *)
Theorem wrapper_transparent_gen cfg orc af fuel p n n' s :
  unwrap (cfg_unwrap_right cfg) n = UTo n' ->
  ms cfg orc af (S fuel) p n s = ms cfg orc af fuel p n' s.
Proof. intro H. simpl. unfold ms_step. rewrite H. reflexivity. Qed.
