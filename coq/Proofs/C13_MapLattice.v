(* C13 — dfa.MapLattice over any element lattice: on maps satisfying the documented representation invariant
   (distinct keys, the identity element never stored) Merge never panics, preserves the invariant, is the pointwise
   merge, and Equals is pointwise equality; hence the semilattice laws. *)
From Coq Require Import List Arith Bool Lia Setoid Morphisms.
Import ListNotations.
Require Import Verif.Model.C13 Verif.Proofs.C13.

Section MapLaws.
  Context {E : Type} {LE : Semilattice E} {LLE : SemilatticeLaws E}.
  Notation amap := (@amap E).
  Notation get := (@map_get E LE).

  Definition keys (m : amap) : list nat := map fst m.

  Lemma afind_none_keys (m : amap) k : afind m k = None <-> ~ In k (keys m).
  Proof.
    induction m as [|[k' v] m IH]; simpl; [tauto|].
    destruct (Nat.eqb_spec k' k).
    - split; [discriminate|]. intros H. exfalso. apply H. auto.
    - rewrite IH. tauto.
  Qed.

  Lemma afind_some_in (m : amap) k v : afind m k = Some v -> In (k, v) m.
  Proof.
    induction m as [|[k' w] m IH]; simpl; [discriminate|].
    destruct (Nat.eqb_spec k' k).
    - intros H. inversion H; subst. auto.
    - intros H. right. auto.
  Qed.

  Lemma keys_distinct_NoDup (m : amap) : keys_distinct m = true <-> NoDup (keys m).
  Proof.
    induction m as [|[k v] m IH]; simpl.
    - split; auto. constructor.
    - rewrite andb_true_iff, negb_true_iff, IH. split.
      + intros [H1 H2]. constructor; auto. intros Hin. apply in_map_iff in Hin. destruct Hin as ([k' w] & Ek & Hin).
        simpl in Ek. subst k'.
        assert (existsb (fun kv : nat * E => fst kv =? k) m = true).
        { apply existsb_exists. exists (k, w). split; auto. simpl. apply Nat.eqb_refl. }
        congruence.
      + intros H. inversion H; subst. split; auto.
        destruct (existsb (fun kv : nat * E => fst kv =? k) m) eqn:Ex; auto.
        apply existsb_exists in Ex. destruct Ex as ([k' w] & Hin & Ek). simpl in Ek. apply Nat.eqb_eq in Ek. subst k'.
        exfalso. apply H2. apply in_map_iff. exists (k, w). auto.
  Qed.

  Lemma in_afind (m : amap) k v : NoDup (keys m) -> In (k, v) m -> afind m k = Some v.
  Proof.
    induction m as [|[k' w] m IH]; simpl; intros ND Hin; [tauto|].
    inversion ND; subst.
    destruct Hin as [H|H].
    - inversion H; subst. rewrite Nat.eqb_refl. reflexivity.
    - destruct (Nat.eqb_spec k' k).
      + subst k'. exfalso. apply H1. apply in_map_iff. exists (k, v). auto.
      + apply IH; auto.
  Qed.

  Definition wf (m : amap) : Prop := NoDup (keys m) /\ forall k v, In (k, v) m -> eqv v ident = false.

  Lemma map_wf_spec (m : amap) : map_wf m = true <-> wf m.
  Proof.
    unfold map_wf, wf. rewrite andb_true_iff, keys_distinct_NoDup, forallb_forall. split; intros [H1 H2]; split; auto.
    - intros k v Hin. specialize (H2 (k, v) Hin). simpl in H2. apply negb_true_iff in H2. exact H2.
    - intros [k v] Hin. simpl. apply negb_true_iff. eapply H2; eauto.
  Qed.

  Lemma get_ident_iff (m : amap) k : wf m -> (eqvP (get m k) ident <-> afind m k = None).
  Proof.
    intros [ND NI]. unfold map_get. destruct (afind m k) as [v|] eqn:A.
    - split; [| discriminate]. intros H. apply afind_some_in in A. unfold eqvP in H. rewrite (NI k v A) in H. discriminate.
    - split; auto. intros _. reflexivity.
  Qed.

  (* ---- Equals *)
  Lemma map_equals_spec (a b : amap) : wf a -> wf b ->
    (map_equals a b = true <-> forall k, eqvP (get a k) (get b k)).
  Proof.
    intros Wa Wb. unfold map_equals. rewrite andb_true_iff, Nat.eqb_eq, forallb_forall. split.
    - intros [Len Hall] k.
      assert (Sub : incl (keys a) (keys b)).
      { intros k' Hk. apply in_map_iff in Hk. destruct Hk as ([k'' v] & <- & Hin). simpl.
        specialize (Hall _ Hin). simpl in Hall. destruct (afind b k'') eqn:A; [| discriminate].
        apply afind_some_in in A. apply in_map_iff. exists (k'', e). auto. }
      assert (Sup : incl (keys b) (keys a)).
      { apply NoDup_length_incl; [apply Wa | unfold keys; rewrite !map_length; lia | exact Sub]. }
      unfold map_get. destruct (afind a k) as [v|] eqn:A.
      + apply afind_some_in in A. specialize (Hall _ A). simpl in Hall.
        destruct (afind b k); [exact Hall | discriminate].
      + destruct (afind b k) as [w|] eqn:B; [| reflexivity].
        exfalso. apply afind_none_keys in A. apply A. apply Sup. apply afind_some_in in B.
        apply in_map_iff. exists (k, w). auto.
    - intros H.
      assert (Sub : forall x y : amap, wf x -> wf y -> (forall k, eqvP (get x k) (get y k)) -> incl (keys x) (keys y)).
      { intros x y Wx Wy Hxy k Hk. destruct (afind y k) eqn:A.
        - apply afind_some_in in A. apply in_map_iff. exists (k, e). auto.
        - exfalso. apply (get_ident_iff y k Wy) in A. rewrite <- (Hxy k) in A.
          apply (get_ident_iff x k Wx) in A. apply afind_none_keys in A. auto. }
      split.
      + pose proof (NoDup_incl_length (proj1 Wa) (Sub a b Wa Wb H)).
        assert (H' : forall k, eqvP (get b k) (get a k)) by (intros k; symmetry; apply H).
        pose proof (NoDup_incl_length (proj1 Wb) (Sub b a Wb Wa H')).
        unfold keys in *. rewrite !map_length in *. lia.
      + intros [k v] Hin. simpl. specialize (H k). unfold map_get in H.
        rewrite (in_afind a k v (proj1 Wa) Hin) in H.
        destruct (afind b k) as [w|] eqn:B; [exact H|].
        destruct Wa as [_ NI]. unfold eqvP in H. rewrite (NI k v Hin) in H. discriminate.
  Qed.

  (* ---- Merge *)
  Definition mergedA (a b : amap) : amap :=
    map (fun kv => (fst kv, match afind b (fst kv) with None => snd kv | Some bv => merge (snd kv) bv end)) a.
  Definition onlyB (a b : amap) : amap :=
    filter (fun kv => match afind a (fst kv) with None => true | Some _ => false end) b.

  Lemma afind_app (l1 l2 : amap) k :
    afind (l1 ++ l2) k = match afind l1 k with Some v => Some v | None => afind l2 k end.
  Proof.
    induction l1 as [|[k' v] l1 IH]; simpl; auto. destruct (Nat.eqb k' k); auto.
  Qed.

  Lemma afind_mergedA a b k :
    afind (mergedA a b) k =
    match afind a k with
    | None => None
    | Some av => Some (match afind b k with None => av | Some bv => merge av bv end)
    end.
  Proof.
    unfold mergedA. induction a as [|[k' v] a IH]; simpl; auto.
    destruct (Nat.eqb_spec k' k); auto. subst. reflexivity.
  Qed.

  Lemma afind_onlyB a b k :
    afind (onlyB a b) k = match afind a k with None => afind b k | Some _ => None end.
  Proof.
    unfold onlyB. induction b as [|[k' w] b IH]; simpl.
    - destruct (afind a k); reflexivity.
    - destruct (afind a k') eqn:Ak'; simpl.
      + destruct (Nat.eqb_spec k' k).
        * subst. rewrite Ak' in *. rewrite IH. reflexivity.
        * exact IH.
      + destruct (Nat.eqb_spec k' k).
        * subst. rewrite Ak'. reflexivity.
        * exact IH.
  Qed.

  Lemma keys_mergedA a b : keys (mergedA a b) = keys a.
  Proof. unfold keys, mergedA. rewrite map_map. reflexivity. Qed.

  Lemma fromA_eq (a b : amap) : wf a ->
    map (fun kv : nat * E => match afind b (fst kv) with
                             | None => Some kv
                             | Some bv => if eqv (merge (snd kv) bv) ident then None else Some (fst kv, merge (snd kv) bv)
                             end) a = map Some (mergedA a b).
  Proof.
    intros Wa. unfold mergedA. rewrite map_map. apply map_ext_in. intros [k v] Hin. cbn [fst snd].
    destruct (afind b k) as [bv|] eqn:Bk; [| reflexivity].
    destruct (eqv (merge v bv) ident) eqn:Z; [| reflexivity].
    exfalso. apply merge_ident_inv in Z. destruct Wa as [_ NI]. unfold eqvP in Z. rewrite (NI k v Hin) in Z. discriminate.
  Qed.

  Lemma flat_map_some (l : amap) :
    flat_map (fun o : option (nat * E) => match o with Some kv => [kv] | None => [] end) (map Some l) = l.
  Proof. induction l; simpl; auto. f_equal. exact IHl. Qed.

  Lemma map_merge_opt_general (a b : amap) : wf a -> wf b -> a <> [] -> b <> [] ->
    map_merge_opt a b = Some (mergedA a b ++ onlyB a b).
  Proof.
    intros Wa Wb Na Nb.
    assert (G : map_merge_opt a b =
                let fromA := map (fun kv : nat * E => match afind b (fst kv) with
                                  | None => Some kv
                                  | Some bv => let w := merge (snd kv) bv in if eqv w ident then None else Some (fst kv, w)
                                  end) a in
                if forallb (fun o : option (nat * E) => match o with Some _ => true | None => false end) fromA then
                  Some (flat_map (fun o : option (nat * E) => match o with Some kv => [kv] | None => [] end) fromA ++
                        filter (fun kv : nat * E => match afind a (fst kv) with None => true | Some _ => false end) b)
                else None).
    { unfold map_merge_opt. destruct a; [congruence|]. destruct b; [congruence|]. reflexivity. }
    rewrite G. cbv zeta. rewrite (fromA_eq a b Wa).
    assert (AllSome : forallb (fun o : option (nat * E) => match o with Some _ => true | None => false end)
                              (map Some (mergedA a b)) = true).
    { apply forallb_forall. intros o Ho. apply in_map_iff in Ho. destruct Ho as (x & <- & _). reflexivity. }
    rewrite AllSome, flat_map_some. reflexivity.
  Qed.

  Lemma map_merge_sound (a b : amap) : wf a -> wf b ->
    exists m, map_merge_opt a b = Some m /\ wf m /\ forall k, eqvP (get m k) (merge (get a k) (get b k)).
  Proof.
    intros Wa Wb.
    destruct a as [|a0 a'] eqn:Ea.
    { exists b. repeat split; try apply Wb. intros k. unfold map_get at 2. simpl. symmetry. apply merge_ident_l. }
    destruct b as [|b0 b'] eqn:Eb.
    { exists (a0 :: a'). repeat split; try apply Wa. intros k. unfold map_get at 3. simpl. symmetry. apply merge_ident. }
    rewrite <- Ea, <- Eb in *.
    assert (Na : a <> []) by (rewrite Ea; discriminate). assert (Nb : b <> []) by (rewrite Eb; discriminate).
    exists (mergedA a b ++ onlyB a b). split; [apply map_merge_opt_general; auto|]. clear Ea Eb a0 a' b0 b'.
    assert (FIND : forall k, afind (mergedA a b ++ onlyB a b) k =
                             match afind a k with
                             | Some av => Some (match afind b k with None => av | Some bv => merge av bv end)
                             | None => afind b k
                             end).
    { intros k. rewrite afind_app, afind_mergedA, afind_onlyB. destruct (afind a k); reflexivity. }
    split; [split|].
    - (* distinct keys *)
      unfold keys. rewrite map_app. fold (keys (mergedA a b)). rewrite keys_mergedA.
      assert (NDb : NoDup (keys (onlyB a b))).
      { unfold keys, onlyB. destruct Wb as [NDb _]. clear -NDb. induction b as [|[k w] b IH]; simpl; [constructor|].
        inversion NDb; subst. destruct (afind a k); simpl; auto. constructor; auto.
        intros Hin. apply H1. apply in_map_iff in Hin. destruct Hin as (x & Ex & Hin). apply filter_In in Hin.
        apply in_map_iff. exists x. tauto. }
      assert (Disj : forall k, In k (keys a) -> ~ In k (map fst (onlyB a b))).
      { intros k Hk Hin. apply in_map_iff in Hin. destruct Hin as ([k' w] & Ek & Hin). simpl in Ek. subst k'.
        unfold onlyB in Hin. apply filter_In in Hin. destruct Hin as [_ Hf]. simpl in Hf.
        destruct (afind a k) eqn:A; [discriminate|]. apply afind_none_keys in A. auto. }
      destruct Wa as [NDa _]. clear -NDa NDb Disj. unfold keys in *.
      induction (map fst a) as [|k l IH]; simpl; auto. inversion NDa; subst. constructor.
      + rewrite in_app_iff. intros [H|H]; auto. apply (Disj k); simpl; auto.
      + apply IH; auto. intros k' Hk'. apply Disj. simpl; auto.
    - (* identity never stored *)
      intros k v Hin. apply in_app_iff in Hin. destruct Hin as [Hin|Hin].
      + unfold mergedA in Hin. apply in_map_iff in Hin. destruct Hin as ([k' av] & Ekv & Hin). simpl in Ekv.
        inversion Ekv; subst. destruct Wa as [_ NIa].
        destruct (afind b k) as [bv|]; [| eapply NIa; eauto].
        destruct (eqv (merge av bv) ident) eqn:Z; auto. apply merge_ident_inv in Z. unfold eqvP in Z. rewrite (NIa k av Hin) in Z. discriminate.
      + unfold onlyB in Hin. apply filter_In in Hin. destruct Wb as [_ NIb]. eapply NIb. apply Hin.
    - (* pointwise *)
      intros k. unfold map_get. rewrite FIND.
      destruct (afind a k) as [av|]; destruct (afind b k) as [bv|].
      + reflexivity.
      + symmetry. apply merge_ident.
      + symmetry. apply merge_ident_l.
      + symmetry. apply merge_ident.
  Qed.

  Lemma map_merge_get (a b : amap) : wf a -> wf b ->
    wf (map_merge a b) /\ forall k, eqvP (get (map_merge a b) k) (merge (get a k) (get b k)).
  Proof.
    intros Wa Wb. destruct (map_merge_sound a b Wa Wb) as (m & Em & Wm & Hm). unfold map_merge. rewrite Em. auto.
  Qed.

  (* ---- the laws, on well-formed maps *)
  Theorem map_lattice_laws_wf :
    wf [] /\
    (forall a b, wf a -> wf b -> map_merge_opt a b <> None /\ wf (map_merge a b)) /\
    (forall a, wf a -> map_equals a a = true) /\
    (forall a b, wf a -> wf b -> map_equals a b = true -> map_equals b a = true) /\
    (forall a b c, wf a -> wf b -> wf c -> map_equals a b = true -> map_equals b c = true -> map_equals a c = true) /\
    (forall a a' b b', wf a -> wf a' -> wf b -> wf b' -> map_equals a a' = true -> map_equals b b' = true ->
                       map_equals (map_merge a b) (map_merge a' b') = true) /\
    (forall a b c, wf a -> wf b -> wf c ->
                   map_equals (map_merge a (map_merge b c)) (map_merge (map_merge a b) c) = true) /\
    (forall a b, wf a -> wf b -> map_equals (map_merge a b) (map_merge b a) = true) /\
    (forall a, wf a -> map_equals (map_merge a a) a = true) /\
    (forall a, wf a -> map_equals (map_merge a []) a = true).
  Proof.
    assert (W0 : wf []) by (split; [constructor | intros k v []]).
    split; [exact W0|].
    split. { intros a b Wa Wb. split.
             - intros H. destruct (map_merge_sound a b Wa Wb) as (m & Em & _). congruence.
             - apply (map_merge_get a b); auto. }
    split. { intros a Wa. apply map_equals_spec; auto. intros k. reflexivity. }
    split. { intros a b Wa Wb H. apply map_equals_spec; auto. intros k. symmetry. revert k. apply map_equals_spec; auto. }
    split. { intros a b c Wa Wb Wc H1 H2. apply map_equals_spec; auto. intros k.
             rewrite (proj1 (map_equals_spec a b Wa Wb) H1 k). apply (map_equals_spec b c Wb Wc); auto. }
    split. { intros a a' b b' Wa Wa' Wb Wb' H1 H2.
             destruct (map_merge_get a b Wa Wb) as [W1 G1]. destruct (map_merge_get a' b' Wa' Wb') as [W2 G2].
             apply map_equals_spec; auto. intros k. rewrite G1, G2.
             rewrite (proj1 (map_equals_spec a a' Wa Wa') H1 k), (proj1 (map_equals_spec b b' Wb Wb') H2 k). reflexivity. }
    split. { intros a b c Wa Wb Wc.
             destruct (map_merge_get b c Wb Wc) as [Wbc Gbc]. destruct (map_merge_get a b Wa Wb) as [Wab Gab].
             destruct (map_merge_get a _ Wa Wbc) as [W1 G1]. destruct (map_merge_get _ c Wab Wc) as [W2 G2].
             apply map_equals_spec; auto. intros k. rewrite G1, G2, Gbc, Gab. apply merge_assoc. }
    split. { intros a b Wa Wb.
             destruct (map_merge_get a b Wa Wb) as [W1 G1]. destruct (map_merge_get b a Wb Wa) as [W2 G2].
             apply map_equals_spec; auto. intros k. rewrite G1, G2. apply merge_comm. }
    split. { intros a Wa. destruct (map_merge_get a a Wa Wa) as [W1 G1].
             apply map_equals_spec; auto. intros k. rewrite G1. apply merge_idem. }
    intros a Wa. destruct (map_merge_get a [] Wa W0) as [W1 G1].
    apply map_equals_spec; auto. intros k. rewrite G1. apply merge_ident.
  Qed.
End MapLaws.
