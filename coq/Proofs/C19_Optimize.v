(* C19: structlayout-optimize — pad produces a valid layout of whatever order it is given; for every order that is
   sorted w.r.t. byAlignAndSize.Less the result is bounded by the sum of the alignment-rounded sizes. *)
From Coq Require Import List ZArith Bool Lia Znumtheory Permutation.
Import ListNotations.
Require Import Verif.Model.C19_Types Verif.Model.C19 Verif.Proofs.C19.
Open Scope Z_scope.

(* a contiguous run of entries covering [lo, hi) *)
Fixpoint tiles (l : list entry) (lo hi : Z) : Prop :=
  match l with
  | [] => lo = hi
  | e :: r => e_start e = lo /\ e_end e = lo + e_size e /\ 0 <= e_size e /\ tiles r (e_end e) hi
  end.

Lemma tiles_app l1 l2 lo mid hi : tiles l1 lo mid -> tiles l2 mid hi -> tiles (l1 ++ l2) lo hi.
Proof.
  revert lo. induction l1 as [|e r IH]; intros lo H1 H2; simpl in *.
  - subst. exact H2.
  - destruct H1 as (A & B & C & D). repeat split; auto.
Qed.
Lemma tiles_le l lo hi : tiles l lo hi -> lo <= hi.
Proof.
  revert lo. induction l as [|e r IH]; intros lo H; simpl in H; [lia|].
  destruct H as (A & B & C & D). apply IH in D. lia.
Qed.
Lemma tiles_sum l lo hi : tiles l lo hi -> sum_sizes l = hi - lo.
Proof.
  revert lo. induction l as [|e r IH]; intros lo H; simpl in *; [lia|].
  destruct H as (A & B & C & D). rewrite (IH _ D). lia.
Qed.
Lemma tiles_end l lo hi : tiles l lo hi -> l <> [] -> end_of l = hi.
Proof.
  revert lo. induction l as [|e r IH]; intros lo H Hne; [contradiction|].
  destruct H as (A & B & C & D). destruct r as [|e' r'].
  - simpl in D. unfold end_of. simpl. lia.
  - unfold end_of in *. change (last (e :: e' :: r') (mkpad 0 0)) with (last (e' :: r') (mkpad 0 0)).
    eapply IH; [exact D | discriminate].
Qed.
Lemma tiles_pad lo hi : lo <= hi -> tiles [mkpad lo hi] lo hi.
Proof. intro H. simpl. repeat split; lia. Qed.

Definition unit_wf (e : entry) : Prop := 0 <= e_size e /\ pow2 (e_align e).
Definition strip (e : entry) := (e_path e, e_size e, e_align e).

(* final value of the running offset of pad/offsetsof *)
Fixpoint pad_end (l : list entry) (o : Z) : Z :=
  match l with
  | [] => o
  | f :: r => pad_end r (align_up o (e_align f) + e_size f)
  end.

Lemma pad_go_tiles l o : Forall unit_wf l -> tiles (pad_go l o) o (pad_end l o).
Proof.
  intro H. revert o. induction H as [|f r [Hs Ha] Hr IH]; intro o; simpl; [reflexivity|].
  pose proof (align_up_ge o (e_align f) (pow2_pos _ Ha)) as Hge.
  set (off := align_up o (e_align f)) in *.
  destruct (o <? off) eqn:E.
  - apply Z.ltb_lt in E. simpl. repeat split; try lia. apply IH.
  - apply Z.ltb_ge in E. assert (off = o) by lia. simpl. repeat split; try lia. rewrite H. apply IH.
Qed.

Lemma pad_go_nonpad l o : map strip (nonpad (pad_go l o)) = map strip l.
Proof.
  revert o. induction l as [|f r IH]; intro o; simpl; [reflexivity|].
  destruct (o <? align_up o (e_align f)); simpl; unfold strip at 1; simpl; f_equal; apply IH.
Qed.

(* every non-padding entry placed by pad starts at a multiple of its alignment *)
Lemma pad_go_aligned l o :
  Forall unit_wf l -> Forall (fun e => e_pad e = false -> (e_align e | e_start e)) (pad_go l o).
Proof.
  intro H. revert o. induction H as [|f r [Hs Ha] Hr IH]; intro o; simpl; [constructor|].
  apply Forall_app. split.
  - destruct (o <? _); constructor; [simpl; discriminate | constructor].
  - constructor; [|apply IH]. simpl. intros _. apply align_up_divide. apply pow2_pos; auto.
Qed.

Lemma pad_go_nonempty l o : l <> [] -> pad_go l o <> [].
Proof. destruct l; [contradiction|]. intros _. simpl. destruct (o <? _); discriminate. Qed.

Lemma units_align_ok l : Forall unit_wf l -> pow2 (units_align l) /\ Forall (fun e => (e_align e | units_align l)) l.
Proof.
  intro H. induction H as [|f r [Hs Ha] Hr [IH1 IH2]]; simpl.
  - split; [apply pow2_1 | constructor].
  - change (units_align (f :: r)) with (Z.max (e_align f) (units_align r)).
    split; [apply pow2_max; auto|]. constructor.
    + apply pow2_divide_max_l; auto.
    + eapply Forall_impl; [|exact IH2]. intros e He. cbv beta in He.
      eapply Z.divide_trans; [exact He|]. apply pow2_divide_max_r; auto.
Qed.

Lemma nonpad_snoc_pad l a b : nonpad (l ++ [mkpad a b]) = nonpad l.
Proof. unfold nonpad. rewrite filter_app. simpl. apply app_nil_r. Qed.

Definition total (l : list entry) : Z := end_of l.   (* End of the last line = padded size *)

Lemma pad_units_spec l :
  Forall unit_wf l -> l <> [] ->
  tiles (pad_units l) 0 (align_up (pad_end l 0) (units_align l))
  /\ total (pad_units l) = align_up (pad_end l 0) (units_align l)
  /\ map strip (nonpad (pad_units l)) = map strip l
  /\ Forall (fun e => e_pad e = false -> (e_align e | e_start e)) (pad_units l).
Proof.
  intros H Hne. pose proof (pad_go_tiles l 0 H) as Ht.
  destruct (units_align_ok l H) as [Hp _]. pose proof (pow2_pos _ Hp) as Hpos.
  pose proof (pad_go_nonempty l 0 Hne) as Hne'.
  pose proof (align_up_ge (pad_end l 0) (units_align l) Hpos) as Hge.
  unfold pad_units, total. destruct l as [|f r]; [contradiction|]. set (l := f :: r) in *. cbv zeta.
  rewrite (tiles_sum _ _ _ Ht), (tiles_end _ _ _ Ht Hne'). rewrite Z.sub_0_r.
  destruct (0 <? align_up (pad_end l 0) (units_align l) - pad_end l 0) eqn:E.
  - apply Z.ltb_lt in E.
    replace (pad_end l 0 + (align_up (pad_end l 0) (units_align l) - pad_end l 0))
      with (align_up (pad_end l 0) (units_align l)) by lia.
    assert (Ht2 : tiles (pad_go l 0 ++ [mkpad (pad_end l 0) (align_up (pad_end l 0) (units_align l))]) 0
                        (align_up (pad_end l 0) (units_align l))).
    { eapply tiles_app; [exact Ht|]. apply tiles_pad. lia. }
    split; [exact Ht2|]. split.
    + eapply tiles_end; [exact Ht2|]. destruct (pad_go l 0); discriminate.
    + split.
      * rewrite nonpad_snoc_pad. apply pad_go_nonpad.
      * apply Forall_app. split; [apply pad_go_aligned; auto|]. constructor; [simpl; discriminate | constructor].
  - apply Z.ltb_ge in E. assert (Heq : align_up (pad_end l 0) (units_align l) = pad_end l 0) by lia.
    rewrite Heq. split; [exact Ht|]. split; [eapply tiles_end; eauto|].
    split; [apply pad_go_nonpad | apply pad_go_aligned; auto].
Qed.

(* ---------------------------------------------------------------------------------------------- the order *)
(* what a list sorted w.r.t. Less guarantees about an earlier unit x and a later unit y *)
Definition ord_ok (x y : entry) : Prop := e_size x <> 0 -> e_size y <> 0 /\ e_align y <= e_align x.
Definition sorted_by (lt : entry -> entry -> bool) (l : list entry) : Prop :=
  ForallOrdPairs (fun x y => lt y x = false) l.

Lemma less_std_ord x y : less_chain std_chain y x = false -> ord_ok x y.
Proof.
  unfold less_chain, std_chain, ofield_get, ord_ok. intros H Hx.
  destruct (e_size y =? 0) eqn:E1; destruct (e_size x =? 0) eqn:E2; simpl in H;
    try discriminate; try (apply Z.eqb_eq in E2; contradiction).
  apply Z.eqb_neq in E1. split; [exact E1|].
  destruct (e_align y =? e_align x) eqn:E3; simpl in H.
  - apply Z.eqb_eq in E3. lia.
  - apply Z.ltb_ge in H. exact H.
Qed.

Definition rsize (e : entry) : Z := align_up (e_size e) (e_align e).
Definition rsum (l : list entry) : Z := fold_right (fun e s => rsize e + s) 0 l.

Lemma rsize_ge e : unit_wf e -> e_size e <= rsize e /\ (e_align e | rsize e).
Proof.
  intros [Hs Ha]. unfold rsize.
  destruct (align_up_spec (e_size e) (e_align e) (pow2_pos _ Ha)) as [[H1 _] H2]. auto.
Qed.

Lemma pad_end_bound l o R :
  Forall unit_wf l -> ForallOrdPairs ord_ok l -> o <= R -> Forall (fun e => (e_align e | R)) l ->
  pad_end l o <= R + rsum l.
Proof.
  intros Hwf. revert o R. induction Hwf as [|f r [Hs Ha] Hr IH]; intros o R Hord HoR Hdiv; simpl; [lia|].
  inversion Hord as [|? ? Hf Hord']; subst. inversion Hdiv as [|? ? Hdf Hdr]; subst.
  pose proof (pow2_pos _ Ha) as Hpos.
  pose proof (align_up_least o R (e_align f) Hpos HoR Hdf) as Hoff.
  destruct (rsize_ge f (conj Hs Ha)) as [Hge Hdv].
  replace (R + (rsize f + rsum r)) with ((R + rsize f) + rsum r) by lia.
  apply IH; auto; [lia|].
  rewrite Forall_forall in *. intros e He. apply Z.divide_add_r; [apply Hdr; auto|].
  destruct (Z.eq_dec (e_size f) 0) as [Hz|Hnz].
  - unfold rsize. rewrite Hz. rewrite align_up_mult; [apply Z.divide_0_r | exact Hpos | apply Z.divide_0_r].
  - destruct (Hf e He Hnz) as [_ Hle].
    eapply Z.divide_trans; [|exact Hdv]. apply pow2_divide; auto. apply (Hr e He).
Qed.

Lemma rsum_perm l l' : Permutation l l' -> rsum l = rsum l'.
Proof. intro H. induction H; simpl; lia. Qed.
Lemma units_align_perm l l' : Permutation l l' -> units_align l = units_align l'.
Proof. intro H. induction H; simpl; lia. Qed.

(* the bound: B is any multiple of the largest alignment with room for every unit rounded up to its own alignment *)
Lemma pad_units_bound l B :
  Forall unit_wf l -> ForallOrdPairs ord_ok l -> (units_align l | B) -> rsum l <= B -> 0 <= B ->
  total (pad_units l) <= B.
Proof.
  intros Hwf Hord Hdiv Hsum HB. destruct l as [|f r]; [unfold total, end_of; simpl; lia|].
  destruct (pad_units_spec (f :: r) Hwf ltac:(discriminate)) as (_ & -> & _).
  destruct (units_align_ok _ Hwf) as [Hp _].
  apply align_up_least; [apply pow2_pos; auto | | exact Hdiv].
  pose proof (pad_end_bound (f :: r) 0 0 Hwf Hord ltac:(lia)) as H.
  assert (Forall (fun e => (e_align e | 0)) (f :: r)) as H0.
  { rewrite Forall_forall. intros. apply Z.divide_0_r. }
  specialize (H H0). lia.
Qed.

(* ---------------------------------------------------------------------------------------------- insertion sort *)
Lemma insert_perm lt x l : Permutation (x :: l) (insert lt x l).
Proof.
  induction l as [|y r IH]; simpl; [reflexivity|].
  destruct (lt y x); [|reflexivity]. rewrite perm_swap. constructor. exact IH.
Qed.
Lemma sort_units_perm lt l : Permutation l (sort_units lt l).
Proof.
  induction l as [|x r IH]; simpl; [constructor|].
  etransitivity; [|apply insert_perm]. constructor. exact IH.
Qed.

Definition less_std := less_chain std_chain.
Lemma less_std_asym x y : less_std x y = true -> less_std y x = false.
Proof.
  unfold less_std, less_chain, std_chain, ofield_get.
  destruct (e_size x =? 0) eqn:E1; destruct (e_size y =? 0) eqn:E2; simpl; try discriminate; try reflexivity;
    (destruct (e_align x =? e_align y) eqn:E3; [apply Z.eqb_eq in E3 | apply Z.eqb_neq in E3]);
    (destruct (e_align y =? e_align x) eqn:E4; [apply Z.eqb_eq in E4 | apply Z.eqb_neq in E4]); try lia; simpl;
    (destruct (e_size x =? e_size y) eqn:E5; [apply Z.eqb_eq in E5 | apply Z.eqb_neq in E5]);
    (destruct (e_size y =? e_size x) eqn:E6; [apply Z.eqb_eq in E6 | apply Z.eqb_neq in E6]); try lia; simpl;
    try discriminate; intro H; try apply Z.ltb_lt in H; try apply Z.ltb_ge; try lia.
Qed.

Ltac zcases :=
  repeat match goal with
         | H : context [?a =? ?b] |- _ => destruct (Z.eqb_spec a b); simpl in H
         | |- context [?a =? ?b] => destruct (Z.eqb_spec a b); simpl
         end.

Lemma less_std_negtrans b y x : less_std b y = false -> less_std y x = false -> less_std b x = false.
Proof.
  unfold less_std, less_chain, std_chain, ofield_get. intros H1 H2.
  zcases; try discriminate; try reflexivity; try lia;
    rewrite ?Z.ltb_ge in *; rewrite ?Z.ltb_lt in *; try lia.
Qed.

Lemma insert_sorted x l : sorted_by less_std l -> sorted_by less_std (insert less_std x l).
Proof.
  unfold sorted_by. intro H. induction H as [|y r Hy Hr IH]; simpl.
  - constructor; constructor.
  - destruct (less_std y x) eqn:E.
    + constructor; [|exact IH].
      rewrite Forall_forall. intros b Hb.
      apply (Permutation_in _ (Permutation_sym (insert_perm less_std x r))) in Hb.
      destruct Hb as [<-|Hb]; [apply less_std_asym; exact E|].
      rewrite Forall_forall in Hy. apply Hy; auto.
    + constructor; [|constructor; auto].
      constructor; [exact E|]. rewrite Forall_forall in *. intros b Hb.
      eapply less_std_negtrans; [apply Hy; exact Hb | exact E].
Qed.
Lemma sort_units_sorted l : sorted_by less_std (sort_units less_std l).
Proof. induction l as [|x r IH]; simpl; [constructor | apply insert_sorted; exact IH]. Qed.

Lemma sorted_ord l : sorted_by less_std l -> ForallOrdPairs ord_ok l.
Proof.
  unfold sorted_by. intro H. induction H as [|y r Hy Hr IH]; constructor; auto.
  eapply Forall_impl; [|exact Hy]. intros b Hb. apply less_std_ord. exact Hb.
Qed.

(* ---------------------------------------------------------------------------------------------- statements *)
Lemma pad_units_nonpad l : map strip (nonpad (pad_units l)) = map strip l.
Proof.
  destruct l as [|f r]; [reflexivity|]. unfold pad_units. cbv zeta.
  destruct (0 <? _); [rewrite nonpad_snoc_pad|]; apply pad_go_nonpad.
Qed.

(* optimize_perm: whatever order sort leaves the units in, the non-padding lines of the output are exactly those
   units (name, size, alignment), hence a permutation of the input units *)
Lemma optimize_perm_abs units l' :
  Permutation units l' -> Permutation (map strip units) (map strip (nonpad (pad_units l'))).
Proof. intro H. rewrite pad_units_nonpad. apply Permutation_map. exact H. Qed.

(* optimize_valid: the output covers [0, total) contiguously, every unit starts at a multiple of its alignment and
   keeps its size and alignment, and the total is a multiple of the largest alignment *)
Definition valid_layout (units out : list entry) : Prop :=
  tiles out 0 (total out)
  /\ map strip (nonpad out) = map strip units
  /\ Forall (fun e => e_pad e = false -> (e_align e | e_start e)) out
  /\ (units_align units | total out).
Lemma optimize_valid_abs l' : Forall unit_wf l' -> valid_layout l' (pad_units l').
Proof.
  intro H. destruct l' as [|f r].
  - unfold valid_layout, total, end_of. simpl. repeat split; auto. apply Z.divide_0_r.
  - destruct (pad_units_spec (f :: r) H ltac:(discriminate)) as (H1 & H2 & H3 & H4).
    unfold valid_layout. rewrite H2. repeat split; auto.
    apply align_up_divide. destruct (units_align_ok _ H) as [Hp _]. apply pow2_pos; auto.
Qed.

(* optimize_not_larger, abstractly: for every permutation of the units that is sorted w.r.t. Less, the padded size
   is at most any B that is a multiple of the largest alignment and has room for every unit rounded up to its own
   alignment *)
Lemma optimize_not_larger_abs units l' B :
  Forall unit_wf units -> Permutation units l' -> sorted_by less_std l' ->
  (units_align units | B) -> rsum units <= B -> 0 <= B ->
  total (pad_units l') <= B.
Proof.
  intros Hwf Hp Hs Hd Hsum HB. apply pad_units_bound; auto.
  - eapply Permutation_Forall; eauto.
  - apply sorted_ord; auto.
  - rewrite <- (units_align_perm _ _ Hp). exact Hd.
  - rewrite <- (rsum_perm _ _ Hp). exact Hsum.
Qed.

(* when every unit's size is a multiple of its alignment the result is exactly the sum of the sizes rounded up to the
   largest alignment, which no order can beat (optimize_minimal) *)
Lemma pad_end_ge l o : Forall unit_wf l -> o + sum_sizes l <= pad_end l o.
Proof.
  intro H. revert o. induction H as [|f r [Hs Ha] Hr IH]; intro o; simpl; [lia|].
  pose proof (align_up_ge o (e_align f) (pow2_pos _ Ha)). specialize (IH (align_up o (e_align f) + e_size f)). lia.
Qed.
Lemma optimize_minimal_abs units l' any :
  Forall unit_wf units -> Forall (fun e => (e_align e | e_size e)) units ->
  Permutation units l' -> sorted_by less_std l' -> Permutation units any ->
  total (pad_units l') <= total (pad_units any).
Proof.
  intros Hwf Hmul Hp Hs Hany.
  assert (Hwf' : Forall unit_wf any) by (eapply Permutation_Forall; eauto).
  destruct any as [|f r].
  - apply Permutation_sym, Permutation_nil in Hany. subst. apply Permutation_nil in Hp. subst. lia.
  - destruct (pad_units_spec (f :: r) Hwf' ltac:(discriminate)) as (_ & Hany2 & _).
    set (anyl := f :: r) in *.
    destruct (units_align_ok _ Hwf') as [Hpw _]. pose proof (pow2_pos _ Hpw) as Hpos.
    apply optimize_not_larger_abs with (units := units); auto.
    + rewrite Hany2. rewrite (units_align_perm _ _ Hany). apply align_up_divide; auto.
    + rewrite Hany2. pose proof (pad_end_ge anyl 0 Hwf') as Hge.
      pose proof (align_up_ge (pad_end anyl 0) (units_align anyl) Hpos).
      assert (rsum units = sum_sizes anyl).
      { rewrite (rsum_perm _ _ Hany).
        assert (Hm : Forall (fun e => (e_align e | e_size e)) anyl) by (eapply Permutation_Forall; eauto).
        clear -Hm Hwf'. induction anyl as [|e l IH]; simpl; [reflexivity|].
        inversion Hm; subst. inversion Hwf'; subst. rewrite IH by auto. unfold rsize.
        rewrite align_up_mult; auto. apply pow2_pos. apply H3. }
      lia.
    + rewrite Hany2. pose proof (pad_end_ge anyl 0 Hwf').
      pose proof (align_up_ge (pad_end anyl 0) (units_align anyl) Hpos).
      assert (0 <= sum_sizes anyl).
      { clear -Hwf'. induction anyl; simpl; [lia|]. inversion Hwf'; subst. destruct H1. specialize (IHanyl H2). lia. }
      lia.
Qed.
