(* C13 — proofs about the dense worklist solver (any pick order). *)
From Coq Require Import List Arith Bool Lia Setoid Morphisms.
Import ListNotations.
Require Import Verif.Model.C13.

(* ------------------------------------------------------------------ list helpers *)
Lemma length_upd {A} (l : list A) i x : length (upd l i x) = length l.
Proof. revert i; induction l; destruct i; simpl; auto. Qed.

Lemma nth_upd_eq {A} (l : list A) i x d : i < length l -> nth i (upd l i x) d = x.
Proof. revert i; induction l; destruct i; simpl; intros; try lia; auto. apply IHl; lia. Qed.

Lemma nth_upd_neq {A} (l : list A) i j x d : i <> j -> nth j (upd l i x) d = nth j l d.
Proof. revert i j; induction l; destruct i, j; simpl; intros; try congruence; auto. Qed.

Lemma memb_In x l : memb x l = true <-> In x l.
Proof.
  unfold memb. rewrite existsb_exists. split.
  - intros (y & Hy & E). apply Nat.eqb_eq in E. subst; auto.
  - intros H. exists x. split; auto. apply Nat.eqb_refl.
Qed.

Lemma memb_false x l : memb x l = false <-> ~ In x l.
Proof. rewrite <- memb_In. destruct (memb x l); split; congruence. Qed.

Lemma In_enqueue w y x : In x (enqueue w y) <-> In x w \/ x = y.
Proof.
  unfold enqueue. destruct (memb y w) eqn:E.
  - apply memb_In in E. split; [auto|]. intros [H| ->]; auto.
  - rewrite in_app_iff. simpl. intuition.
Qed.

Lemma NoDup_snoc {A} (w : list A) y : NoDup w -> ~ In y w -> NoDup (w ++ [y]).
Proof.
  induction w; simpl; intros ND NI.
  - constructor; auto.
  - inversion ND; subst. constructor.
    + rewrite in_app_iff. simpl. intuition.
    + apply IHw; auto.
Qed.

Lemma NoDup_enqueue w y : NoDup w -> NoDup (enqueue w y).
Proof.
  unfold enqueue. destruct (memb y w) eqn:E; auto.
  intros H. apply memb_false in E.
  apply NoDup_snoc; auto.
Qed.

Lemma length_enqueue w y : length (enqueue w y) <= S (length w).
Proof. unfold enqueue. destruct (memb y w); [lia|]. rewrite app_length. simpl. lia. Qed.

Lemma In_fold_enqueue l w x : In x (fold_left enqueue l w) <-> In x w \/ In x l.
Proof.
  revert w; induction l; simpl; intros.
  - tauto.
  - rewrite IHl, In_enqueue. intuition.
Qed.

Lemma NoDup_fold_enqueue l w : NoDup w -> NoDup (fold_left enqueue l w).
Proof. revert w; induction l; simpl; intros; auto. apply IHl, NoDup_enqueue; auto. Qed.

Lemma length_fold_enqueue l w : length (fold_left enqueue l w) <= length w + length l.
Proof.
  revert w; induction l; simpl; intros; [lia|].
  specialize (IHl (enqueue w a)). pose proof (length_enqueue w a). lia.
Qed.

Lemma In_rm b w x : In x (rm b w) <-> In x w /\ x <> b.
Proof.
  unfold rm. rewrite filter_In. rewrite negb_true_iff, Nat.eqb_neq. tauto.
Qed.

Lemma NoDup_rm b w : NoDup w -> NoDup (rm b w).
Proof. apply NoDup_filter. Qed.

Lemma length_rm_notin b w : ~ In b w -> length (rm b w) = length w.
Proof.
  induction w; simpl; intros; auto.
  destruct (Nat.eqb_spec a b); simpl.
  - subst. exfalso; auto.
  - rewrite IHw; auto.
Qed.

Lemma length_rm b w : NoDup w -> In b w -> S (length (rm b w)) = length w.
Proof.
  induction w; simpl; intros ND HI; [tauto|].
  inversion ND; subst.
  destruct (Nat.eqb_spec a b); simpl.
  - subst. rewrite length_rm_notin; auto.
  - destruct HI; [congruence|]. rewrite IHw; auto.
Qed.

(* ------------------------------------------------------------------ order lemmas *)
Section Order.
  Context {F : Type} {L : Semilattice F} {LL : SemilatticeLaws F}.

  Definition eqvP (a b : F) : Prop := eqv a b = true.

  Global Instance eqvP_equiv : Equivalence eqvP.
  Proof.
    split; red; unfold eqvP.
    - apply eqv_refl.
    - apply eqv_sym.
    - apply eqv_trans.
  Qed.

  Global Instance merge_proper : Proper (eqvP ==> eqvP ==> eqvP) merge.
  Proof. intros a a' Ha b b' Hb. apply merge_cong; auto. Qed.

  Global Instance leq_proper : Proper (eqvP ==> eqvP ==> iff) leq.
  Proof.
    intros a a' Ha b b' Hb. unfold leq, leqb. fold (eqvP (merge a b) b). fold (eqvP (merge a' b') b').
    rewrite Ha, Hb. reflexivity.
  Qed.

  Lemma leq_eqvP a b : leq a b <-> eqvP (merge a b) b.
  Proof. reflexivity. Qed.

  Lemma merge_ident_l a : eqvP (merge ident a) a.
  Proof. unfold eqvP. eapply eqv_trans; [apply merge_comm | apply merge_ident]. Qed.

  Lemma leq_refl a : leq a a.
  Proof. apply merge_idem. Qed.

  Lemma eqv_leq a b : eqvP a b -> leq a b.
  Proof. intros H. rewrite H. apply leq_refl. Qed.

  Lemma leq_trans a b c : leq a b -> leq b c -> leq a c.
  Proof.
    rewrite !leq_eqvP. intros H1 H2.
    (* a ∧ c ≡ a ∧ (b ∧ c) ≡ (a ∧ b) ∧ c ≡ b ∧ c ≡ c *)
    rewrite <- H2 at 1.
    assert (A : eqvP (merge a (merge b c)) (merge (merge a b) c)) by apply merge_assoc.
    rewrite A, H1. exact H2.
  Qed.

  Lemma leq_antisym a b : leq a b -> leq b a -> eqvP a b.
  Proof.
    rewrite !leq_eqvP. intros H1 H2.
    rewrite <- H2. rewrite <- H1 at 2.
    apply merge_comm.
  Qed.

  Lemma ident_least a : leq ident a.
  Proof. apply merge_ident_l. Qed.

  Lemma merge_ub_l a b : leq a (merge a b).
  Proof.
    rewrite leq_eqvP.
    assert (A : eqvP (merge a (merge a b)) (merge (merge a a) b)) by apply merge_assoc.
    rewrite A. assert (B : eqvP (merge a a) a) by apply merge_idem. rewrite B. reflexivity.
  Qed.

  Lemma merge_ub_r a b : leq b (merge a b).
  Proof.
    assert (A : eqvP (merge a b) (merge b a)) by apply merge_comm.
    rewrite A. apply merge_ub_l.
  Qed.

  Lemma merge_lub a b c : leq a c -> leq b c -> leq (merge a b) c.
  Proof.
    rewrite !leq_eqvP. intros H1 H2.
    assert (A : eqvP (merge (merge a b) c) (merge a (merge b c))) by (symmetry; apply merge_assoc).
    rewrite A, H2, H1. reflexivity.
  Qed.

  Lemma merge_mono a a' b b' : leq a a' -> leq b b' -> leq (merge a b) (merge a' b').
  Proof.
    intros. apply merge_lub.
    - eapply leq_trans; [eassumption | apply merge_ub_l].
    - eapply leq_trans; [eassumption | apply merge_ub_r].
  Qed.

  (* merging non-identities never yields the identity (the panic in MapLattice.Merge is dead code) *)
  Lemma merge_ident_inv a b : eqvP (merge a b) ident -> eqvP a ident.
  Proof.
    intros H. apply leq_antisym; [| apply ident_least].
    rewrite <- H. apply merge_ub_l.
  Qed.

  Lemma mrg_eqv a b : eqvP (mrg a b) (merge a b).
  Proof.
    unfold mrg. destruct (eqv a b) eqn:E; [| reflexivity].
    fold (eqvP a b) in E. rewrite <- E.
    symmetry. apply merge_idem.
  Qed.

  Global Instance mrg_proper : Proper (eqvP ==> eqvP ==> eqvP) mrg.
  Proof. intros a a' Ha b b' Hb. rewrite !mrg_eqv. rewrite Ha, Hb. reflexivity. Qed.

  (* fold_left mrg xs x  ≡  merge x (big_merge xs) *)
  Lemma fold_mrg_big xs : forall x, eqvP (fold_left mrg xs x) (merge x (big_merge xs)).
  Proof.
    induction xs; simpl; intros.
    - symmetry. apply merge_ident.
    - rewrite IHxs. rewrite mrg_eqv. symmetry. apply merge_assoc.
  Qed.

  Lemma big_merge_lub l c : (forall x, In x l -> leq x c) -> leq (big_merge l) c.
  Proof.
    induction l; simpl; intros.
    - apply ident_least.
    - apply merge_lub; auto.
  Qed.

  Lemma big_merge_ub l x : In x l -> leq x (big_merge l).
  Proof.
    induction l; simpl; intros H; [tauto|].
    destruct H as [-> | H].
    - apply merge_ub_l.
    - eapply leq_trans; [apply IHl; auto | apply merge_ub_r].
  Qed.

  Lemma big_merge_map_mono {A} (f g : A -> F) l :
    (forall e, In e l -> leq (f e) (g e)) -> leq (big_merge (map f l)) (big_merge (map g l)).
  Proof.
    induction l; simpl; intros.
    - apply leq_refl.
    - apply merge_mono; auto.
  Qed.
End Order.

(* ------------------------------------------------------------------ the dense solver *)
Section DenseProofs.
  Context {F : Type} {L : Semilattice F} {LL : SemilatticeLaws F}.
  Variable succs : list (list nat).
  Variable transfer : nat -> nat -> F -> F.
  Variable entry : nat -> option F.

  Notation n := (nn succs).
  Notation preds := (preds succs).
  Notation outdeg := (outdeg succs).
  Notation succ_at := (succ_at succs).
  Notation state := (@state F).
  Notation step_at := (step_at succs transfer).
  Notation in_of := (in_of succs).
  Notation entry0 := (entry0 entry).
  Notation init := (init succs entry).
  Notation out_res := (out_res succs transfer).

  Definition wf_graph : Prop := forall b i, b < n -> i < outdeg b -> succ_at b i < n.
  Hypothesis wf : wf_graph.

  Lemma In_preds p i b : In (p, i) (preds b) <-> p < n /\ i < outdeg p /\ succ_at p i = b.
  Proof.
    unfold C13.preds. rewrite in_flat_map. split.
    - intros (p' & Hp & H). apply in_seq in Hp. apply in_flat_map in H.
      destruct H as (i' & Hi & H). apply in_seq in Hi.
      destruct (Nat.eqb_spec (succ_at p' i') b); simpl in H; [| tauto].
      destruct H as [H|[]]. inversion H; subst. repeat split; lia.
    - intros (Hp & Hi & E). exists p. split; [apply in_seq; lia|].
      apply in_flat_map. exists i. split; [apply in_seq; lia|].
      rewrite E, Nat.eqb_refl. simpl; auto.
  Qed.

  Definition effs (s : state) (b : nat) : list F := map (eff s) (preds b).

  Lemma fold_left_mrg_map (s : state) rest x :
    fold_left (fun acc e' => mrg acc (eff s e')) rest x = fold_left mrg (map (eff s) rest) x.
  Proof. revert x; induction rest; simpl; intros; auto. Qed.

  Lemma in_of_alt s b :
    in_of s b = match effs s b with [] => get_in s b | x :: xs => fold_left mrg xs x end.
  Proof.
    unfold C13.in_of, effs. destruct (preds b); simpl; auto. apply fold_left_mrg_map.
  Qed.

  Lemma in_of_ext s s' b :
    (forall e, In e (preds b) -> eff s' e = eff s e) ->
    (preds b = [] -> get_in s' b = get_in s b) -> in_of s' b = in_of s b.
  Proof.
    intros H G. rewrite !in_of_alt. unfold effs.
    rewrite (map_ext_in _ _ _ H). destruct (preds b); simpl; auto.
  Qed.

  Lemma in_of_nopreds s b : preds b = [] -> in_of s b = get_in s b.
  Proof. intros H. unfold C13.in_of. rewrite H. reflexivity. Qed.

  Lemma in_of_big s b : preds b <> [] -> eqvP (in_of s b) (big_merge (effs s b)).
  Proof.
    intros H. rewrite in_of_alt. unfold effs. destruct (preds b); [congruence|]. simpl.
    apply fold_mrg_big.
  Qed.

  (* ---- accessors after one step *)
  Definition cont (s : state) (b : nat) : bool := negb (is_dirty s b) && eqv (in_of s b) (get_in s b).

  Lemma step_C s b : cont s b = true ->
    step_at b s = mkState (dirty s) (inF s) (outF s) (rm b (work s)).
  Proof. intros H. unfold C13.step_at. fold (cont s b). rewrite H. reflexivity. Qed.

  Definition enq_of (s : state) (b : nat) : list nat :=
    map (fun i => succ_at b i)
        (filter (fun i => snd (out_res s b (in_of s b) i)) (seq 0 (outdeg b))).

  Lemma step_P s b : cont s b = false ->
    step_at b s = mkState (upd (dirty s) b false) (upd (inF s) b (in_of s b))
                          (upd (outF s) b (map fst (map (out_res s b (in_of s b)) (seq 0 (outdeg b)))))
                          (fold_left enqueue (enq_of s b) (rm b (work s))).
  Proof. intros H. unfold C13.step_at. fold (cont s b). rewrite H. reflexivity. Qed.

  Lemma In_enq_of s b x :
    In x (enq_of s b) <-> exists i, i < outdeg b /\ succ_at b i = x /\ snd (out_res s b (in_of s b) i) = true.
  Proof.
    unfold enq_of. rewrite in_map_iff. split.
    - intros (i & E & H). apply filter_In in H. destruct H as [H1 H2]. apply in_seq in H1.
      exists i. repeat split; auto; lia.
    - intros (i & Hi & E & H). exists i. split; auto. apply filter_In. split; auto. apply in_seq; lia.
  Qed.

  (* ---- the invariant *)
  Record Inv (s : state) : Prop := {
    inv_len_d : length (dirty s) = n;
    inv_len_i : length (inF s) = n;
    inv_len_o : length (outF s) = n;
    inv_len_oo : forall b, b < n -> length (nth b (outF s) []) = outdeg b;
    inv_work_lt : forall b, In b (work s) -> b < n;
    inv_work_nd : NoDup (work s);
    inv_dirty : forall b, b < n -> is_dirty s b = true -> In b (work s);
    inv_entry : forall b, b < n -> preds b = [] -> get_in s b = entry0 b;
    inv_in : forall b, b < n -> ~ In b (work s) -> eqvP (get_in s b) (in_of s b);
    inv_out : forall b i, b < n -> is_dirty s b = false -> i < outdeg b ->
              eqvP (get_out s b i) (transfer b (succ_at b i) (get_in s b))
  }.

  Lemma nth_repeat_lt {A} (x d : A) k i : i < k -> nth i (repeat x k) d = x.
  Proof. revert i; induction k; destruct i; simpl; intros; try lia; auto. apply IHk; lia. Qed.

  Lemma Inv_init : Inv init.
  Proof.
    split; unfold C13.init; simpl.
    - apply repeat_length.
    - rewrite map_length, seq_length. reflexivity.
    - rewrite map_length. reflexivity.
    - intros b Hb. unfold C13.outdeg, C13.succs_of.
      rewrite (nth_indep _ [] (repeat ident (length (@nil nat)))) by (rewrite map_length; exact Hb).
      rewrite (map_nth (fun ss => repeat ident (length ss))). apply repeat_length.
    - intros b H. apply in_seq in H. lia.
    - apply seq_NoDup.
    - intros b Hb _. apply in_seq. lia.
    - intros b Hb _. unfold get_in. simpl.
      rewrite (nth_indep _ ident (entry0 0)) by (rewrite map_length, seq_length; exact Hb).
      rewrite (map_nth entry0). rewrite seq_nth; auto.
    - intros b Hb H. exfalso. apply H. apply in_seq. lia.
    - intros b i Hb H. unfold is_dirty in H. simpl in H. rewrite nth_repeat_lt in H by exact Hb. discriminate.
  Qed.

  Section StepFacts.
    Variable s : state.
    Variable b : nat.
    Hypothesis I : Inv s.
    Hypothesis Hb : b < n.
    Hypothesis HP : cont s b = false.
    Let s' := step_at b s.
    Let inn := in_of s b.

    Lemma P_dirty c : is_dirty s' c = if Nat.eqb c b then false else is_dirty s c.
    Proof.
      unfold s'. rewrite step_P by exact HP. unfold is_dirty. simpl.
      destruct (Nat.eqb_spec c b).
      - subst. apply nth_upd_eq. rewrite (inv_len_d _ I). exact Hb.
      - apply nth_upd_neq. auto.
    Qed.

    Lemma P_in c : get_in s' c = if Nat.eqb c b then inn else get_in s c.
    Proof.
      unfold s'. rewrite step_P by exact HP. unfold get_in. simpl.
      destruct (Nat.eqb_spec c b).
      - subst. apply nth_upd_eq. rewrite (inv_len_i _ I). exact Hb.
      - apply nth_upd_neq. auto.
    Qed.

    Lemma P_out c i : i < outdeg c ->
      get_out s' c i = if Nat.eqb c b then fst (out_res s b inn i) else get_out s c i.
    Proof.
      intros Hi. unfold s'. rewrite step_P by exact HP. unfold get_out. simpl.
      destruct (Nat.eqb_spec c b).
      - subst. rewrite nth_upd_eq by (rewrite (inv_len_o _ I); exact Hb).
        rewrite map_map.
        rewrite (nth_indep _ ident (fst (out_res s b inn 0))) by (rewrite map_length, seq_length; exact Hi).
        rewrite (map_nth (fun x => fst (out_res s b inn x))). rewrite seq_nth; auto.
      - rewrite nth_upd_neq; auto.
    Qed.

    Lemma P_work x : In x (work s') <-> (In x (work s) /\ x <> b) \/ In x (enq_of s b).
    Proof.
      unfold s'. rewrite step_P by exact HP. simpl. rewrite In_fold_enqueue, In_rm. reflexivity.
    Qed.

    Lemma P_len_oo c : c < n -> length (nth c (outF s') []) = outdeg c.
    Proof.
      intros Hc. unfold s'. rewrite step_P by exact HP. simpl.
      destruct (Nat.eq_dec c b).
      - subst. rewrite nth_upd_eq by (rewrite (inv_len_o _ I); exact Hb).
        rewrite !map_length, seq_length. reflexivity.
      - rewrite nth_upd_neq by auto. apply (inv_len_oo _ I); auto.
    Qed.

    (* an edge fact seen by a node outside the new queue is unchanged *)
    Lemma P_eff_unchanged c e : In e (preds c) -> ~ In c (work s') -> eff s' e = eff s e.
    Proof.
      destruct e as [p i]. intros He Hc. apply In_preds in He. destruct He as (Hp & Hi & E).
      unfold eff. simpl. rewrite P_dirty. rewrite P_out by exact Hi.
      destruct (Nat.eqb_spec p b); [| reflexivity].
      subst p.
      destruct (snd (out_res s b inn i)) eqn:Ch.
      - exfalso. apply Hc. apply P_work. right. apply In_enq_of. exists i. repeat split; auto.
      - unfold C13.out_res in *. fold inn in Ch.
        destruct (is_dirty s b || negb (eqv (get_out s b i) (transfer b (succ_at b i) inn))) eqn:D;
          simpl in Ch; [discriminate|].
        apply orb_false_iff in D. destruct D as [D _]. rewrite D. simpl. reflexivity.
    Qed.
  End StepFacts.

  Lemma Inv_step s b : Inv s -> In b (work s) -> Inv (step_at b s).
  Proof.
    intros I Hw. pose proof (inv_work_lt _ I _ Hw) as Hb.
    destruct (cont s b) eqn:HC.
    - (* continue *)
      rewrite step_C by exact HC.
      unfold cont in HC. apply andb_true_iff in HC. destruct HC as [Hd He]. apply negb_true_iff in Hd.
      split; simpl; try apply I.
      + intros c Hc. apply In_rm in Hc. apply (inv_work_lt _ I). tauto.
      + apply NoDup_rm, I.
      + intros c Hc D. apply In_rm. split; [apply (inv_dirty _ I); auto|].
        intros ->. unfold is_dirty in *. simpl in D. congruence.
      + intros c Hc Hn.
        assert (E : in_of (mkState (dirty s) (inF s) (outF s) (rm b (work s))) c = in_of s c)
          by (apply in_of_ext; intros; reflexivity).
        unfold eqvP. rewrite E. change (get_in (mkState (dirty s) (inF s) (outF s) (rm b (work s))) c) with (get_in s c).
        destruct (Nat.eq_dec c b).
        * subst. apply eqv_sym. exact He.
        * apply (inv_in _ I); auto. intros H. apply Hn. apply In_rm. tauto.
    - (* process *)
      pose proof (P_dirty s b I Hb HC) as PD.
      pose proof (P_in s b I Hb HC) as PI.
      pose proof (P_out s b I Hb HC) as PO.
      pose proof (P_work s b HC) as PW.
      split.
      + rewrite step_P by exact HC. simpl. rewrite length_upd. apply I.
      + rewrite step_P by exact HC. simpl. rewrite length_upd. apply I.
      + rewrite step_P by exact HC. simpl. rewrite length_upd. apply I.
      + apply P_len_oo; auto.
      + intros c Hc. apply PW in Hc. destruct Hc as [[Hc _] | Hc].
        * apply (inv_work_lt _ I); auto.
        * apply In_enq_of in Hc. destruct Hc as (i & Hi & E & _). subst c. apply wf; auto.
      + rewrite step_P by exact HC. simpl. apply NoDup_fold_enqueue, NoDup_rm, I.
      + intros c Hc D. rewrite PD in D. destruct (Nat.eqb_spec c b); [discriminate|].
        apply PW. left. split; auto. apply (inv_dirty _ I); auto.
      + intros c Hc Hp. rewrite PI. destruct (Nat.eqb_spec c b).
        * subst c. rewrite in_of_nopreds by exact Hp. apply (inv_entry _ I); auto.
        * apply (inv_entry _ I); auto.
      + intros c Hc Hn.
        assert (E : in_of (step_at b s) c = in_of s c).
        { apply in_of_ext.
          - intros e He. eapply P_eff_unchanged; eauto.
          - intros Pc. rewrite PI. destruct (Nat.eqb_spec c b); [| reflexivity].
            subst c. apply in_of_nopreds; exact Pc. }
        unfold eqvP. rewrite E, PI. destruct (Nat.eqb_spec c b).
        * subst c. apply eqv_refl.
        * apply (inv_in _ I); auto. intros H. apply Hn. apply PW. left. auto.
      + intros c i Hc D Hi. rewrite PD in D. rewrite PO by exact Hi. rewrite PI.
        destruct (Nat.eqb_spec c b).
        * subst c. unfold C13.out_res.
          destruct (is_dirty s b || negb (eqv (get_out s b i) (transfer b (succ_at b i) (in_of s b)))) eqn:Ch; simpl.
          -- apply eqv_refl.
          -- apply orb_false_iff in Ch. destruct Ch as [_ Ch]. apply negb_false_iff in Ch. exact Ch.
        * apply (inv_out _ I); auto.
  Qed.

  Lemma Inv_steps picks : forall s s', steps succs transfer picks s = Some s' -> Inv s -> Inv s'.
  Proof.
    induction picks; simpl; intros s s' H I.
    - inversion H; subst; auto.
    - destruct (memb a (work s)) eqn:M; [| discriminate].
      apply memb_In in M. eapply IHpicks; eauto. apply Inv_step; auto.
  Qed.

  (* ---- dense_fixpoint *)
  Lemma eff_clean s e : is_dirty s (fst e) = false -> eff s e = get_out s (fst e) (snd e).
  Proof. intros H. unfold eff. rewrite H. reflexivity. Qed.

  Lemma fixpoint_of_Inv s :
    Inv s -> work s = [] ->
    (forall b, b < n -> is_dirty s b = false) /\ is_fixpoint_b succs transfer entry (get_in s) (get_out s) = true.
  Proof.
    intros I W.
    assert (Cl : forall b, b < n -> is_dirty s b = false).
    { intros b Hb. destruct (is_dirty s b) eqn:D; auto.
      apply (inv_dirty _ I) in D; auto. rewrite W in D. destruct D. }
    split; auto.
    unfold is_fixpoint_b. apply forallb_forall. intros b Hb. apply in_seq in Hb.
    assert (Hb' : b < n) by lia.
    apply andb_true_iff. split.
    - assert (NI : ~ In b (work s)) by (rewrite W; simpl; tauto).
      pose proof (inv_in _ I b Hb' NI) as E.
      unfold in_eq. destruct (preds b) eqn:Pb.
      + rewrite <- (inv_entry _ I b Hb' Pb). apply eqv_refl.
      + rewrite <- Pb.
        assert (NE : preds b <> []) by (rewrite Pb; discriminate).
        pose proof (in_of_big s b NE) as B.
        unfold effs in B.
        rewrite (map_ext_in (eff s) (fun e => get_out s (fst e) (snd e))) in B.
        * eapply eqv_trans; eauto.
        * intros [p' i'] He. apply In_preds in He. apply eff_clean. simpl. apply Cl. tauto.
    - apply forallb_forall. intros i Hi. apply in_seq in Hi.
      apply (inv_out _ I); auto. lia.
  Qed.

  (* ---- dense_least *)
  Definition mono_transfer : Prop :=
    forall a b x y, leq x y -> leq (transfer a b x) (transfer a b y).

  Definition post_fixpoint (inf : nat -> F) (outf : nat -> nat -> F) : Prop :=
    (forall b, b < n -> leq (in_eq succs entry outf b) (inf b)) /\
    (forall b i, b < n -> i < outdeg b -> leq (transfer b (succ_at b i) (inf b)) (outf b i)).

  Section Least.
    Variable inf : nat -> F.
    Variable outf : nat -> nat -> F.
    Hypothesis mono : mono_transfer.
    Hypothesis PF : post_fixpoint inf outf.

    Definition LInv (s : state) : Prop :=
      forall b, b < n -> is_dirty s b = false ->
        leq (get_in s b) (inf b) /\ forall i, i < outdeg b -> leq (get_out s b i) (outf b i).

    Lemma in_of_below s b : Inv s -> LInv s -> b < n -> leq (in_of s b) (inf b).
    Proof.
      intros I LI Hb. destruct PF as [PF1 PF2].
      eapply leq_trans; [| apply PF1; exact Hb].
      unfold in_eq. destruct (preds b) eqn:Pb.
      - rewrite in_of_nopreds by exact Pb. rewrite (inv_entry _ I b Hb Pb). apply leq_refl.
      - rewrite <- Pb. assert (NE : preds b <> []) by (rewrite Pb; discriminate).
        rewrite (in_of_big s b NE). unfold effs.
        apply big_merge_map_mono. intros [q i] He. apply In_preds in He. destruct He as (Hq & Hi & _).
        unfold eff. simpl. destruct (is_dirty s q) eqn:D.
        + apply ident_least.
        + apply (LI q Hq D); auto.
    Qed.

    Lemma LInv_step s b : Inv s -> LInv s -> In b (work s) -> LInv (step_at b s).
    Proof.
      intros I LI Hw. pose proof (inv_work_lt _ I _ Hw) as Hb.
      destruct (cont s b) eqn:HC.
      - rewrite step_C by exact HC. exact LI.
      - intros c Hc D.
        rewrite (P_dirty s b I Hb HC) in D. rewrite (P_in s b I Hb HC).
        destruct (Nat.eqb_spec c b).
        + subst c. pose proof (in_of_below s b I LI Hb) as B. split; auto.
          intros i Hi. rewrite (P_out s b I Hb HC) by exact Hi. rewrite Nat.eqb_refl.
          assert (T : leq (transfer b (succ_at b i) (in_of s b)) (outf b i)).
          { eapply leq_trans; [apply mono; exact B | apply PF; auto]. }
          unfold C13.out_res.
          destruct (is_dirty s b || negb (eqv (get_out s b i) (transfer b (succ_at b i) (in_of s b)))) eqn:Ch; simpl; auto.
          apply orb_false_iff in Ch. destruct Ch as [_ Ch]. apply negb_false_iff in Ch.
          fold (eqvP (get_out s b i) (transfer b (succ_at b i) (in_of s b))) in Ch.
          rewrite Ch. exact T.
        + destruct (LI c Hc D) as [A B]. split; auto.
          intros i Hi. rewrite (P_out s b I Hb HC) by exact Hi.
          destruct (Nat.eqb_spec c b); [congruence|]. auto.
    Qed.

    Lemma LInv_init : LInv init.
    Proof.
      intros b Hb D. exfalso. unfold is_dirty, C13.init in D. simpl in D.
      rewrite nth_repeat_lt in D by exact Hb. discriminate.
    Qed.

    Lemma LInv_steps picks : forall s s', steps succs transfer picks s = Some s' -> Inv s -> LInv s -> LInv s'.
    Proof.
      induction picks; simpl; intros s s' H I LI.
      - inversion H; subst; auto.
      - destruct (memb a (work s)) eqn:M; [| discriminate].
        apply memb_In in M. eapply IHpicks; eauto.
        + apply Inv_step; auto.
        + apply LInv_step; auto.
    Qed.
  End Least.

  (* a solution (is_fixpoint_b) is in particular a post-fixpoint *)
  Lemma fixpoint_post inf outf :
    is_fixpoint_b succs transfer entry inf outf = true -> post_fixpoint inf outf.
  Proof.
    intros H. unfold is_fixpoint_b in H. rewrite forallb_forall in H. split.
    - intros b Hb. specialize (H b). rewrite in_seq in H. specialize (H ltac:(lia)).
      apply andb_true_iff in H. destruct H as [H _]. apply eqv_leq. apply eqv_sym. exact H.
    - intros b i Hb Hi. specialize (H b). rewrite in_seq in H. specialize (H ltac:(lia)).
      apply andb_true_iff in H. destruct H as [_ H]. rewrite forallb_forall in H.
      specialize (H i). rewrite in_seq in H. specialize (H ltac:(lia)).
      apply eqv_leq. apply eqv_sym. exact H.
  Qed.

  Theorem dense_fixpoint_steps picks s :
    steps succs transfer picks init = Some s -> work s = [] ->
    (forall b, b < n -> is_dirty s b = false) /\
    is_fixpoint_b succs transfer entry (get_in s) (get_out s) = true.
  Proof.
    intros H W. apply fixpoint_of_Inv; auto. eapply Inv_steps; eauto. apply Inv_init.
  Qed.

  Theorem dense_least_steps picks s inf outf :
    mono_transfer -> post_fixpoint inf outf ->
    steps succs transfer picks init = Some s -> work s = [] ->
    forall b, b < n -> leq (get_in s b) (inf b) /\ forall i, i < outdeg b -> leq (get_out s b i) (outf b i).
  Proof.
    intros M PF H W b Hb.
    pose proof (Inv_steps _ _ _ H Inv_init) as I.
    pose proof (LInv_steps inf outf M PF _ _ _ H Inv_init (LInv_init inf outf)) as LI.
    apply LI; auto. apply (fixpoint_of_Inv s I W); auto.
  Qed.

  (* two schedules: same solution up to Equals *)
  Theorem dense_pick_independent_steps picks1 picks2 s1 s2 :
    mono_transfer ->
    steps succs transfer picks1 init = Some s1 -> work s1 = [] ->
    steps succs transfer picks2 init = Some s2 -> work s2 = [] ->
    forall b, b < n -> eqvP (get_in s1 b) (get_in s2 b) /\
                       forall i, i < outdeg b -> eqvP (get_out s1 b i) (get_out s2 b i).
  Proof.
    intros M H1 W1 H2 W2 b Hb.
    destruct (dense_fixpoint_steps _ _ H1 W1) as [_ F1].
    destruct (dense_fixpoint_steps _ _ H2 W2) as [_ F2].
    pose proof (dense_least_steps _ _ _ _ M (fixpoint_post _ _ F2) H1 W1 b Hb) as [A1 B1].
    pose proof (dense_least_steps _ _ _ _ M (fixpoint_post _ _ F1) H2 W2 b Hb) as [A2 B2].
    split.
    - apply leq_antisym; auto.
    - intros i Hi. apply leq_antisym; auto.
  Qed.

  (* ---- run = some schedule *)
  Lemma pick_ok_In pick w : w <> [] -> In (pick_ok pick w) w.
  Proof.
    intros H. unfold pick_ok. destruct (memb (pick w) w) eqn:M.
    - apply memb_In; auto.
    - destruct w; [congruence|]. simpl. auto.
  Qed.

  Lemma run_steps pick fuel : forall s s', run succs transfer pick fuel s = Some s' ->
    exists picks, steps succs transfer picks s = Some s' /\ work s' = [].
  Proof.
    induction fuel; simpl; intros s s' H.
    - destruct (work s) eqn:W; [| discriminate]. inversion H; subst. exists []. simpl. auto.
    - destruct (work s) eqn:W.
      + inversion H; subst. exists []. simpl; auto.
      + rewrite <- W in H. apply IHfuel in H. destruct H as (picks & H1 & H2).
        exists (pick_ok pick (work s) :: picks). simpl.
        assert (M : memb (pick_ok pick (work s)) (work s) = true).
        { apply memb_In. apply pick_ok_In. rewrite W. discriminate. }
        rewrite M. auto.
  Qed.

  (* ---- termination for ranked lattices *)
  Section Termination.
    Variable rank : F -> nat.
    Variable H : nat.
    Hypothesis rank_bound : forall x, rank x <= H.
    Hypothesis rank_strict : forall a b, leq a b -> eqv b a = false -> rank a < rank b.
    Hypothesis mono : mono_transfer.

    Definition MInv (s : state) : Prop :=
      forall b, b < n -> is_dirty s b = false -> leq (get_in s b) (in_of s b).

    Lemma MInv_init : MInv init.
    Proof.
      intros b Hb D. exfalso. unfold is_dirty, C13.init in D. simpl in D.
      rewrite nth_repeat_lt in D by exact Hb. discriminate.
    Qed.

    Lemma P_eff_mono s b : Inv s -> MInv s -> b < n -> cont s b = false ->
      forall e, fst e < n -> snd e < outdeg (fst e) -> leq (eff s e) (eff (step_at b s) e).
    Proof.
      intros I MI Hb HC [p i] Hp Hi. simpl in *. unfold eff. simpl.
      rewrite (P_dirty s b I Hb HC). rewrite (P_out s b I Hb HC) by exact Hi.
      destruct (Nat.eqb_spec p b); [| apply leq_refl].
      subst p. destruct (is_dirty s b) eqn:D; [apply ident_least|].
      unfold C13.out_res. rewrite D. simpl.
      destruct (negb (eqv (get_out s b i) (transfer b (succ_at b i) (in_of s b)))) eqn:Ch; simpl; [| apply leq_refl].
      pose proof (inv_out _ I b i Hb D Hi) as O. rewrite O.
      apply mono. apply MI; auto.
    Qed.

    Lemma P_in_of_mono s b c : Inv s -> MInv s -> b < n -> cont s b = false ->
      leq (in_of s c) (in_of (step_at b s) c).
    Proof.
      intros I MI Hb HC. destruct (preds c) eqn:Pc.
      - rewrite !in_of_nopreds by exact Pc. rewrite (P_in s b I Hb HC).
        destruct (Nat.eqb_spec c b); [| apply leq_refl].
        subst c. rewrite in_of_nopreds by exact Pc. apply leq_refl.
      - assert (NE : preds c <> []) by (rewrite Pc; discriminate).
        rewrite (in_of_big s c NE), (in_of_big (step_at b s) c NE). unfold effs.
        apply big_merge_map_mono. intros [q i] He. apply In_preds in He.
        apply P_eff_mono; simpl; tauto.
    Qed.

    Lemma MInv_step s b : Inv s -> MInv s -> In b (work s) -> MInv (step_at b s).
    Proof.
      intros I MI Hw. pose proof (inv_work_lt _ I _ Hw) as Hb.
      destruct (cont s b) eqn:HC.
      - rewrite step_C by exact HC. intros c Hc D.
        assert (E : in_of (mkState (dirty s) (inF s) (outF s) (rm b (work s))) c = in_of s c)
          by (apply in_of_ext; intros; reflexivity).
        rewrite E. apply MI; auto.
      - intros c Hc D. rewrite (P_dirty s b I Hb HC) in D. rewrite (P_in s b I Hb HC).
        destruct (Nat.eqb_spec c b).
        + subst c. apply P_in_of_mono; auto.
        + eapply leq_trans; [apply MI; auto | apply P_in_of_mono; auto].
    Qed.

    Definition pot (s : state) (b : nat) : nat :=
      if is_dirty s b then S H else H - rank (get_in s b).
    Definition sumpot (s : state) : nat := list_sum (map (pot s) (seq 0 n)).
    Definition maxdeg : nat := list_max (map (@length nat) succs).
    Definition Phi (s : state) : nat := length (work s) + S maxdeg * sumpot s.

    Lemma outdeg_le_maxdeg b : outdeg b <= maxdeg.
    Proof.
      unfold C13.outdeg, C13.succs_of, maxdeg.
      destruct (Nat.lt_ge_cases b (length succs)) as [Hb | Hb].
      - assert (A : Forall (fun k => k <= list_max (map (@length nat) succs)) (map (@length nat) succs))
          by (apply list_max_le; lia).
        rewrite Forall_forall in A. apply A. apply in_map. apply nth_In. exact Hb.
      - rewrite nth_overflow by exact Hb. simpl. lia.
    Qed.

    Lemma sum_decrease (f g : nat -> nat) l b :
      NoDup l -> In b l -> (forall c, In c l -> c <> b -> g c = f c) -> g b + 1 <= f b ->
      list_sum (map g l) + 1 <= list_sum (map f l).
    Proof.
      induction l; simpl; intros ND HI Heq Hb; [tauto|].
      inversion ND; subst.
      destruct (Nat.eq_dec a b).
      - subst a.
        assert (E : map g l = map f l).
        { apply map_ext_in. intros c Hc. apply Heq; auto. intros ->. auto. }
        rewrite E. lia.
      - destruct HI; [congruence|].
        rewrite (Heq a) by auto.
        assert (list_sum (map g l) + 1 <= list_sum (map f l)) by (apply IHl; auto).
        lia.
    Qed.

    Lemma filter_length {A} (f : A -> bool) l : length (filter f l) <= length l.
    Proof. induction l; simpl; auto. destruct (f a); simpl; lia. Qed.

    Lemma Phi_step s b : Inv s -> MInv s -> In b (work s) -> Phi (step_at b s) < Phi s.
    Proof.
      intros I MI Hw. pose proof (inv_work_lt _ I _ Hw) as Hb.
      pose proof (length_rm b (work s) (inv_work_nd _ I) Hw) as LR.
      destruct (cont s b) eqn:HC.
      - rewrite step_C by exact HC. unfold Phi. simpl.
        assert (E : sumpot (mkState (dirty s) (inF s) (outF s) (rm b (work s))) = sumpot s) by reflexivity.
        rewrite E. lia.
      - assert (LW : length (work (step_at b s)) <= length (rm b (work s)) + maxdeg).
        { rewrite step_P by exact HC. simpl.
          etransitivity; [apply length_fold_enqueue|].
          apply Nat.add_le_mono_l. unfold enq_of. rewrite map_length.
          etransitivity; [apply filter_length|]. rewrite seq_length. apply outdeg_le_maxdeg. }
        assert (SP : sumpot (step_at b s) + 1 <= sumpot s).
        { unfold sumpot. apply sum_decrease with (b := b).
          - apply seq_NoDup.
          - apply in_seq. lia.
          - intros c _ Hne. unfold pot. rewrite (P_dirty s b I Hb HC), (P_in s b I Hb HC).
            destruct (Nat.eqb_spec c b); [congruence | reflexivity].
          - unfold pot. rewrite (P_dirty s b I Hb HC), (P_in s b I Hb HC). rewrite Nat.eqb_refl.
            pose proof (rank_bound (in_of s b)).
            destruct (is_dirty s b) eqn:D; [lia|].
            unfold cont in HC. rewrite D in HC. simpl in HC.
            pose proof (rank_strict _ _ (MI b Hb D) HC).
            pose proof (rank_bound (get_in s b)). lia. }
        unfold Phi.
        assert (S maxdeg * sumpot (step_at b s) + S maxdeg <= S maxdeg * sumpot s) by nia.
        lia.
    Qed.

    Lemma run_total pick fuel : forall s, Inv s -> MInv s -> Phi s <= fuel ->
      exists s', run succs transfer pick fuel s = Some s'.
    Proof.
      induction fuel; intros s I MI HF; simpl.
      - destruct (work s) eqn:W; [eauto|]. unfold Phi in HF. rewrite W in HF. simpl in HF. lia.
      - destruct (work s) eqn:W; [eauto|]. rewrite <- W.
        assert (Hw : In (pick_ok pick (work s)) (work s)) by (apply pick_ok_In; rewrite W; discriminate).
        apply IHfuel.
        + apply Inv_step; auto.
        + apply MInv_step; auto.
        + pose proof (Phi_step s _ I MI Hw). lia.
    Qed.

    Lemma sumpot_init : sumpot init = n * S H.
    Proof.
      unfold sumpot.
      assert (E : map (pot init) (seq 0 n) = map (fun _ => S H) (seq 0 n)).
      { apply map_ext_in. intros b Hb. apply in_seq in Hb. unfold pot, is_dirty, C13.init. simpl.
        rewrite nth_repeat_lt by lia. reflexivity. }
      rewrite E. clear E. generalize 0. generalize n as k.
      induction k as [|k IH]; simpl; intros; [reflexivity|]. rewrite IH. lia.
    Qed.

    Definition dense_fuel : nat := n + S maxdeg * (n * S H).

    Theorem dense_terminates_run pick fuel :
      dense_fuel <= fuel -> exists s, run succs transfer pick fuel init = Some s.
    Proof.
      intros HF. apply run_total.
      - apply Inv_init.
      - apply MInv_init.
      - unfold Phi. rewrite sumpot_init. unfold C13.init. simpl. rewrite seq_length.
        unfold dense_fuel in HF. lia.
    Qed.

    (* every schedule is at most dense_fuel long *)
    Lemma steps_length picks : forall s s', Inv s -> MInv s ->
      steps succs transfer picks s = Some s' -> length picks + Phi s' <= Phi s.
    Proof.
      induction picks; simpl; intros s s' I MI HS.
      - inversion HS; subst. lia.
      - destruct (memb a (work s)) eqn:M; [| discriminate]. apply memb_In in M.
        pose proof (Phi_step s a I MI M).
        specialize (IHpicks _ _ (Inv_step _ _ I M) (MInv_step _ _ I MI M) HS). lia.
    Qed.
  End Termination.
End DenseProofs.
