(* Three-way comparison functions as total preorders: algebra (pull-back along a projection,
   lexicographic product), instances for Z, N, ascii strings, and a generic insertion sort
   that is proved to return a sorted permutation.  Axiom-free. *)
From Coq Require Import List ZArith NArith Bool String Ascii Permutation Sorting.Sorted Lia.
Import ListNotations.


Section Pre.
  Variable A : Type.
  Variable c : A -> A -> comparison.

  (* [c] compares like a total preorder: Eq is a congruence, Lt is transitive, Gt is the mirror of Lt *)
  Record pre_ok : Prop := {
    pre_refl : forall a, c a a = Eq;
    pre_antisym : forall a b, c a b = CompOpp (c b a);
    pre_lt_trans : forall a b d, c a b = Lt -> c b d = Lt -> c a d = Lt;
    pre_eq_compat : forall a b d, c a b = Eq -> c a d = c b d
  }.

  Definition cle (a b : A) : Prop := c a b <> Gt.

  Hypothesis H : pre_ok.

  Lemma pre_eq_sym a b : c a b = Eq -> c b a = Eq.
  Proof. intro E. rewrite (pre_antisym H b a), E. reflexivity. Qed.

  Lemma pre_eq_compat_r a b d : c a b = Eq -> c d a = c d b.
  Proof.
    intro E. rewrite (pre_antisym H d a), (pre_antisym H d b), (pre_eq_compat H a b d E). reflexivity.
  Qed.

  Lemma pre_gt_lt a b : c a b = Gt -> c b a = Lt.
  Proof. intro E. rewrite (pre_antisym H b a), E. reflexivity. Qed.

  Lemma pre_lt_gt a b : c a b = Lt -> c b a = Gt.
  Proof. intro E. rewrite (pre_antisym H b a), E. reflexivity. Qed.

  Lemma cle_trans a b d : cle a b -> cle b d -> cle a d.
  Proof.
    unfold cle. intros H1 H2.
    destruct (c a b) eqn:E1; [| |congruence].
    - rewrite (pre_eq_compat H a b d E1). exact H2.
    - destruct (c b d) eqn:E2; [| |congruence].
      + rewrite <- (pre_eq_compat_r b d a E2), E1. discriminate.
      + rewrite (pre_lt_trans H a b d E1 E2). discriminate.
  Qed.

  Lemma cle_total a b : cle a b \/ cle b a.
  Proof.
    unfold cle. rewrite (pre_antisym H b a). destruct (c a b); simpl; [left|left|right]; discriminate.
  Qed.

  Lemma cle_refl a : cle a a.
  Proof. unfold cle. rewrite (pre_refl H). discriminate. Qed.

  (* squeezing: a <= x <= b and a ~ b gives x ~ b *)
  Lemma cle_squeeze a x b : cle a x -> cle x b -> c a b = Eq -> c x b = Eq.
  Proof.
    unfold cle. intros H1 H2 E.
    destruct (c x b) eqn:E2; [reflexivity| |congruence].
    exfalso. apply H1.
    (* c a x = c b x (a ~ b) = Gt since c x b = Lt *)
    rewrite (pre_eq_compat H a b x E). apply pre_lt_gt. exact E2.
  Qed.
End Pre.
Arguments pre_ok {A} c.
Arguments cle {A} c a b.
Arguments pre_refl {A c} _ a.
Arguments pre_antisym {A c} _ a b.
Arguments pre_lt_trans {A c} _ a b d _ _.
Arguments pre_eq_compat {A c} _ a b d _.
Arguments pre_eq_sym {A c} _ a b _.
Arguments pre_eq_compat_r {A c} _ a b d _.
Arguments pre_gt_lt {A c} _ a b _.
Arguments pre_lt_gt {A c} _ a b _.
Arguments cle_trans {A c} _ a b d _ _.
Arguments cle_total {A c} _ a b.
Arguments cle_refl {A c} _ a.
Arguments cle_squeeze {A c} _ a x b _ _ _.

(* ---- pull-back along a projection ---- *)
Section Pull.
  Variables A B : Type.
  Variable f : A -> B.
  Variable c : B -> B -> comparison.
  Definition pull (a b : A) : comparison := c (f a) (f b).
  Lemma pull_ok : pre_ok c -> pre_ok pull.
  Proof.
    intros [r a t e]. unfold pull. split; intros.
    - apply r. - apply a. - eapply t; eassumption. - apply e; assumption.
  Qed.
End Pull.
Arguments pull {A B} f c a b.
Arguments pull_ok {A B} f c _.

(* ---- lexicographic product ---- *)
Section Lex.
  Variable A : Type.
  Variables c1 c2 : A -> A -> comparison.
  Definition lex (a b : A) : comparison :=
    match c1 a b with Eq => c2 a b | x => x end.
  Lemma lex_ok : pre_ok c1 -> pre_ok c2 -> pre_ok lex.
  Proof.
    intros H1 H2. unfold lex. split.
    - intros a. rewrite (pre_refl H1). apply (pre_refl H2).
    - intros a b. rewrite (pre_antisym H1 a b). destruct (c1 b a); simpl; [apply (pre_antisym H2)|reflexivity|reflexivity].
    - intros a b d.
      destruct (c1 a b) eqn:E1; [| |discriminate].
      + rewrite (pre_eq_compat H1 a b d E1). intro L1.
        destruct (c1 b d) eqn:E2; [| |discriminate]; auto.
        intro L2. eapply (pre_lt_trans H2); eassumption.
      + intros _. destruct (c1 b d) eqn:E2; [| |discriminate].
        * intros _. rewrite <- (pre_eq_compat_r H1 b d a E2), E1. reflexivity.
        * intros _. rewrite (pre_lt_trans H1 a b d E1 E2). reflexivity.
    - intros a b d.
      destruct (c1 a b) eqn:E1; try discriminate. intro E2.
      rewrite (pre_eq_compat H1 a b d E1). destruct (c1 b d); auto. apply (pre_eq_compat H2); assumption.
  Qed.
  Lemma lex_eq a b : lex a b = Eq <-> c1 a b = Eq /\ c2 a b = Eq.
  Proof. unfold lex. destruct (c1 a b); split; intros; try tauto; try discriminate; destruct H; discriminate. Qed.
  Lemma lex_cle_fst : forall a b, cle lex a b -> cle c1 a b.
  Proof. unfold cle, lex. intros a b. destruct (c1 a b); congruence. Qed.
End Lex.
Arguments lex {A} c1 c2 a b.
Arguments lex_ok {A c1 c2} _ _.
Arguments lex_eq {A} c1 c2 a b.
Arguments lex_cle_fst {A} c1 c2 a b _.

Definition ceq {A} (a b : A) : comparison := Eq.
Lemma ceq_ok A : pre_ok (@ceq A).
Proof. split; unfold ceq; intros; try reflexivity; discriminate. Qed.

(* lexicographic product of a list of comparisons, most significant first *)
Fixpoint lexl {A} (cs : list (A -> A -> comparison)) : A -> A -> comparison :=
  match cs with
  | [] => ceq
  | c :: r => lex c (lexl r)
  end.
Lemma lexl_ok A (cs : list (A -> A -> comparison)) : Forall (@pre_ok A) cs -> pre_ok (lexl cs).
Proof. induction 1; simpl; [apply ceq_ok | apply lex_ok; assumption]. Qed.
Lemma lexl_eq A (cs : list (A -> A -> comparison)) a b :
  lexl cs a b = Eq <-> Forall (fun c => c a b = Eq) cs.
Proof.
  induction cs as [|c r IH]; simpl.
  - split; [constructor|reflexivity].
  - rewrite lex_eq, IH. split; [intros [? ?]; constructor; assumption | inversion 1; subst; split; assumption].
Qed.
Lemma lexl_app A (cs ds : list (A -> A -> comparison)) a b :
  lexl (cs ++ ds) a b = lex (lexl cs) (lexl ds) a b.
Proof.
  induction cs as [|c r IH]; simpl; [reflexivity|].
  unfold lex in *. destruct (c a b); auto.
Qed.

(* ---- instances ---- *)
Lemma Zcompare_ok : pre_ok Z.compare.
Proof.
  split.
  - apply Z.compare_refl.
  - intros a b. apply Z.compare_antisym.
  - intros a b d. rewrite !Z.compare_lt_iff. lia.
  - intros a b d E. apply Z.compare_eq in E. subst. reflexivity.
Qed.
Lemma Ncompare_ok : pre_ok N.compare.
Proof.
  split.
  - apply N.compare_refl.
  - intros a b. apply N.compare_antisym.
  - intros a b d. rewrite !N.compare_lt_iff. lia.
  - intros a b d E. apply N.compare_eq in E. subst. reflexivity.
Qed.

Lemma ascii_compare_refl a : Ascii.compare a a = Eq.
Proof. unfold Ascii.compare. apply N.compare_refl. Qed.
Lemma string_compare_refl s : String.compare s s = Eq.
Proof. induction s; simpl; [reflexivity|]. rewrite ascii_compare_refl. assumption. Qed.
Lemma string_compare_eq s t : String.compare s t = Eq <-> s = t.
Proof. split; [apply String.compare_eq_iff | intros ->; apply string_compare_refl]. Qed.
Lemma string_compare_lt_trans a : forall b d, String.compare a b = Lt -> String.compare b d = Lt -> String.compare a d = Lt.
Proof.
  induction a as [|x a IH]; intros [|y b] [|z d]; simpl; try discriminate; auto.
  unfold Ascii.compare.
  destruct (N.compare (N_of_ascii x) (N_of_ascii y)) eqn:E1; try discriminate;
  destruct (N.compare (N_of_ascii y) (N_of_ascii z)) eqn:E2; try discriminate; intros L1 L2.
  - apply N.compare_eq in E1. apply N.compare_eq in E2. rewrite E1, E2, N.compare_refl. eapply IH; eassumption.
  - apply N.compare_eq in E1. rewrite E1, E2. reflexivity.
  - apply N.compare_eq in E2. rewrite <- E2, E1. reflexivity.
  - rewrite N.compare_lt_iff in E1, E2. assert (L : (N_of_ascii x < N_of_ascii z)%N) by lia.
    rewrite <- N.compare_lt_iff in L. rewrite L. reflexivity.
Qed.
Lemma string_compare_ok : pre_ok String.compare.
Proof.
  split.
  - apply string_compare_refl.
  - apply String.compare_antisym.
  - apply string_compare_lt_trans.
  - intros a b d E. apply String.compare_eq_iff in E. subst. reflexivity.
Qed.

(* ---- insertion sort ---- *)
Section Sort.
  Variable A : Type.
  Variable c : A -> A -> comparison.

  Fixpoint insert (x : A) (l : list A) : list A :=
    match l with
    | [] => [x]
    | y :: r => match c x y with Gt => y :: insert x r | _ => x :: l end
    end.
  Definition isort (l : list A) : list A := fold_right insert [] l.

  Lemma insert_perm x l : Permutation (insert x l) (x :: l).
  Proof.
    induction l as [|y r IH]; simpl; [reflexivity|].
    destruct (c x y); try reflexivity.
    rewrite IH. apply perm_swap.
  Qed.
  Lemma isort_perm l : Permutation (isort l) l.
  Proof. induction l; simpl; [constructor|]. rewrite insert_perm. constructor. assumption. Qed.

  Hypothesis H : pre_ok c.

  Lemma insert_sorted x l : StronglySorted (cle c) l -> StronglySorted (cle c) (insert x l).
  Proof.
    induction 1 as [|y r Hs IH Hall]; simpl.
    - constructor; constructor.
    - destruct (c x y) eqn:E.
      + constructor; [constructor; assumption|].
        assert (Lxy : cle c x y) by (unfold cle; congruence).
        constructor; [assumption|]. eapply Forall_impl; [|exact Hall]. intros z Lz. eapply cle_trans; eassumption.
      + constructor; [constructor; assumption|].
        assert (Lxy : cle c x y) by (unfold cle; congruence).
        constructor; [assumption|]. eapply Forall_impl; [|exact Hall]. intros z Lz. eapply cle_trans; eassumption.
      + constructor; [assumption|].
        assert (P : Permutation (insert x r) (x :: r)) by apply insert_perm.
        apply (Permutation_Forall (Permutation_sym P)). constructor; [|assumption].
        unfold cle. rewrite (pre_gt_lt H _ _ E). discriminate.
  Qed.
  Lemma isort_sorted l : StronglySorted (cle c) (isort l).
  Proof. induction l; simpl; [constructor|]. apply insert_sorted. assumption. Qed.
End Sort.
Arguments insert {A} c x l.
Arguments isort {A} c l.
Arguments insert_perm {A} c x l.
Arguments isort_perm {A} c l.
Arguments insert_sorted {A c} _ x l _.
Arguments isort_sorted {A c} _ l.

(* a strictly sorted list is determined by its elements *)
Section StrictUnique.
  Variable A : Type.
  Variable c : A -> A -> comparison.
  Hypothesis H : pre_ok c.
  Definition clt (a b : A) : Prop := c a b = Lt.

  Lemma strict_sorted_unique l1 : forall l2,
    StronglySorted clt l1 -> StronglySorted clt l2 -> (forall x, In x l1 <-> In x l2) -> l1 = l2.
  Proof.
    induction l1 as [|a r1 IH]; intros [|b r2] S1 S2 E.
    - reflexivity.
    - exfalso. apply (proj2 (E b)). left. reflexivity.
    - exfalso. apply (proj1 (E a)). left. reflexivity.
    - inversion S1 as [|? ? S1' F1]; inversion S2 as [|? ? S2' F2]; subst.
      rewrite Forall_forall in F1, F2.
      assert (a = b).
      { destruct (proj1 (E a) (or_introl eq_refl)) as [->|Ia]; [reflexivity|].
        destruct (proj2 (E b) (or_introl eq_refl)) as [->|Ib]; [reflexivity|].
        pose proof (F2 _ Ia) as L1. pose proof (F1 _ Ib) as L2. unfold clt in *.
        rewrite (pre_antisym H a b), L1 in L2. discriminate. }
      subst b. f_equal. apply IH; try assumption.
      intro x. split; intro Ix.
      + destruct (proj1 (E x) (or_intror Ix)) as [->|]; [|assumption].
        pose proof (F1 _ Ix) as L. unfold clt in L. rewrite (pre_refl H) in L. discriminate.
      + destruct (proj2 (E x) (or_intror Ix)) as [->|]; [|assumption].
        pose proof (F2 _ Ix) as L. unfold clt in L. rewrite (pre_refl H) in L. discriminate.
  Qed.
End StrictUnique.
Arguments clt {A} c a b.
Arguments strict_sorted_unique {A c} _ l1 l2 _ _ _.
