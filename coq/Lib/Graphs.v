(* Lib/Graphs.v — directed graphs over block indices: paths, reachability, a verified
   worklist reachability-avoiding-a-node, the reference dominance test [dom_ref] and the
   reference dominance matrix [dom_rows] for control-flow graphs with two roots (function
   entry = node 0, optional recover node).  Used by C14 (dominator tree checker) and C02
   (def-dominates-use).  Owner: builder of C14/C02.

   Nodes are binary naturals [N] (block indices); a graph is the list of successor lists.
   Node sets are bit sets stored in an [N] (bit a set <-> node a is a member).

   Paths are kept as the HISTORY of the walk: [path g r c l] says that l lists, most recent
   first, the nodes of a walk r -> ... -> c along edges of g (so c is the head of l and r
   its last element).  "every path from r to c contains b" is [forall l, path g r c l -> In b l];
   there is no bound on the length of l. *)
From Coq Require Import List NArith Bool Lia Arith Permutation.
Import ListNotations.
Local Open Scope N_scope.

Definition graph := list (list N).
Definition succs (g : graph) (a : N) : list N := nth (N.to_nat a) g [].
Definition nnodes (g : graph) : N := N.of_nat (length g).
Definition edge (g : graph) (a b : N) : Prop := In b (succs g a).

Inductive path (g : graph) (r : N) : N -> list N -> Prop :=
| path_root : path g r r [r]
| path_step : forall c d l, path g r c l -> edge g c d -> path g r d (d :: l).

Definition reachable (g : graph) (r c : N) : Prop := exists l, path g r c l.
(* c can be reached from r without ever touching x (endpoints included) *)
Definition reach_avoid (g : graph) (x r c : N) : Prop := exists l, path g r c l /\ ~ In x l.
(* b dominates c w.r.t. root r: every walk from r to c, of any length, passes through b *)
Definition dominates (g : graph) (r b c : N) : Prop := forall l, path g r c l -> In b l.

(* ------------------------------------------------------------------ basic path facts *)
Lemma path_head : forall g r c l, path g r c l -> exists t, l = c :: t.
Proof. intros g r c l H; inversion H; subst; eauto. Qed.

Lemma path_in_end : forall g r c l, path g r c l -> In c l.
Proof. intros g r c l H; destruct (path_head _ _ _ _ H) as [t ->]; now left. Qed.

Lemma path_in_root : forall g r c l, path g r c l -> In r l.
Proof. induction 1; [now left | now right]. Qed.

(* every node on a walk is itself reached by an initial part of the walk *)
Lemma path_split : forall g r d l, path g r d l -> forall c, In c l ->
  exists l1 l2, l = l2 ++ l1 /\ path g r c l1.
Proof.
  induction 1 as [|c d l Hp IH He]; intros c0 Hin.
  - destruct Hin as [<-|[]]. exists [r], []. split; [reflexivity | constructor].
  - destruct Hin as [<-|Hin].
    + exists (d :: l), []. split; [reflexivity | econstructor; eauto].
    + destruct (IH _ Hin) as (l1 & l2 & -> & Hp1). exists l1, (d :: l2). split; [reflexivity | assumption].
Qed.

Lemma path_trans : forall g r c l, path g r c l -> forall d l', path g c d l' ->
  exists l'', path g r d l'' /\ (forall v, In v l'' <-> In v l' \/ In v l).
Proof.
  intros g r c l Hp d l' Hq. induction Hq as [|c' d' l' Hq IH He].
  - exists l. split; [assumption|]. intros v; split; [now right|].
    intros [[<-|[]]|H]; [eapply path_in_end; eauto | assumption].
  - destruct IH as (l'' & Hp'' & Hin). exists (d' :: l''). split; [econstructor; eauto|].
    intros v; simpl; rewrite Hin; tauto.
Qed.

Lemma dominates_refl : forall g r c, dominates g r c c.
Proof. intros g r c l H; eapply path_in_end; eauto. Qed.

Lemma dominates_root : forall g r c, dominates g r r c.
Proof. intros g r c l H; eapply path_in_root; eauto. Qed.

Lemma dominates_trans : forall g r a b c, dominates g r a b -> dominates g r b c -> dominates g r a c.
Proof.
  intros g r a b c Hab Hbc l Hp. destruct (path_split _ _ _ _ Hp b (Hbc _ Hp)) as (l1 & l2 & -> & Hp1).
  apply in_or_app; right; now apply Hab.
Qed.

(* two reachable nodes that dominate each other are equal (no bound on path length: descent on
   the length of a walk reaching c) *)
Lemma dominates_antisym : forall g r b c, reachable g r c ->
  dominates g r b c -> dominates g r c b -> b = c.
Proof.
  intros g r b c [l Hl] Hbc Hcb.
  destruct (N.eq_dec b c) as [|Hne]; [assumption|exfalso].
  remember (length l) as k eqn:Hk. revert l Hl Hk.
  induction k as [k IH] using lt_wf_ind; intros l Hl Hk.
  destruct (path_split _ _ _ _ Hl b (Hbc _ Hl)) as (l1 & l2 & E1 & Hp1).
  destruct (path_split _ _ _ _ Hp1 c (Hcb _ Hp1)) as (l3 & l4 & E3 & Hp3).
  assert (l2 <> []).
  { intros ->; simpl in E1; subst l1.
    destruct (path_head _ _ _ _ Hl) as [t Ht]. destruct (path_head _ _ _ _ Hp1) as [t' Ht'].
    rewrite Ht in Ht'; injection Ht' as E _; congruence. }
  eapply (IH (length l3)); [|exact Hp3|reflexivity].
  subst k l l1; rewrite !app_length. destruct l2; [congruence|simpl; lia].
Qed.

(* immediate dominator, declaratively: a strict dominator of c that every other strict
   dominator of c dominates *)
Definition is_idom (g : graph) (r d c : N) : Prop :=
  d <> c /\ dominates g r d c /\ forall b, b <> c -> dominates g r b c -> dominates g r b d.

Theorem idom_unique : forall g r c d d', reachable g r c ->
  is_idom g r d c -> is_idom g r d' c -> d = d'.
Proof.
  intros g r c d d' [l Hl] (Hn & Hd & Hm) (Hn' & Hd' & Hm').
  apply (dominates_antisym g r).
  - destruct (path_split _ _ _ _ Hl d' (Hd' _ Hl)) as (l1 & _ & _ & H1); now exists l1.
  - now apply Hm'.
  - now apply Hm.
Qed.

(* ------------------------------------------------------------------ bounded graphs *)
Definition graph_ok (g : graph) : bool := forallb (forallb (fun b => b <? nnodes g)) g.

Lemma succs_in_range : forall g a b, graph_ok g = true -> edge g a b -> b < nnodes g /\ a < nnodes g.
Proof.
  unfold graph_ok, edge, succs, nnodes; intros g a b Hok Hin.
  destruct (lt_dec (N.to_nat a) (length g)) as [Hlt|Hge].
  - rewrite forallb_forall in Hok. specialize (Hok _ (nth_In g [] Hlt)).
    rewrite forallb_forall in Hok. specialize (Hok _ Hin). apply N.ltb_lt in Hok. split; [assumption|lia].
  - rewrite nth_overflow in Hin by lia. destruct Hin.
Qed.

Lemma path_in_range : forall g r c l, graph_ok g = true -> r < nnodes g -> path g r c l ->
  forall v, In v l -> v < nnodes g.
Proof.
  intros g r c l Hok Hr Hp. induction Hp as [|c d l Hp IH He]; intros v Hin.
  - destruct Hin as [<-|[]]; assumption.
  - destruct Hin as [<-|Hin]; [apply (succs_in_range g c d Hok He) | auto].
Qed.

(* ------------------------------------------------------------------ worklist reachability *)
(* Depth-first worklist; [vis] = nodes already expanded, node x is never expanded.
   Runs out of fuel -> None (never a normal-looking answer). *)
Fixpoint dfs (fuel : nat) (g : graph) (x : N) (work : list N) (vis : N) : option N :=
  match work with
  | [] => Some vis
  | a :: w =>
    match fuel with
    | O => None
    | S f => if (a =? x) || N.testbit vis a then dfs f g x w vis
             else dfs f g x (succs g a ++ w) (N.setbit vis a)
    end
  end.

Definition edge_count (g : graph) : nat := fold_right (fun l acc => (length l + acc)%nat) O g.
(* every step pops one work item; at most 1 + (number of edges) items are ever pushed *)
Definition reach_fuel (g : graph) : nat := (edge_count g + 2)%nat.
Definition reach_set (g : graph) (x r : N) : option N := dfs (reach_fuel g) g x [r] 0.

Lemma setbit_test : forall s a b, N.testbit (N.setbit s a) b = (a =? b) || N.testbit s b.
Proof. intros; apply N.setbit_eqb. Qed.

Lemma dfs_inv : forall g x r fuel work vis s,
  dfs fuel g x work vis = Some s ->
  (forall v, N.testbit vis v = true -> reach_avoid g x r v) ->
  (forall w, In w work -> w = x \/ reach_avoid g x r w) ->
  (forall a, N.testbit vis a = true -> forall b, edge g a b -> b = x \/ N.testbit vis b = true \/ In b work) ->
  (forall v, N.testbit s v = true -> reach_avoid g x r v) /\
  (forall a, N.testbit s a = true -> forall b, edge g a b -> b = x \/ N.testbit s b = true) /\
  (forall v, N.testbit vis v = true -> N.testbit s v = true) /\
  (forall w, In w work -> w = x \/ N.testbit s w = true).
Proof.
  intros g x r. induction fuel as [|f IH]; intros work vis s Hd I1 I2 I3.
  - destruct work; [|discriminate]. injection Hd as <-.
    split; [assumption|]. split; [|split; [auto|intros w []]].
    intros a Ha b Hb. destruct (I3 a Ha b Hb) as [?|[?|[]]]; auto.
  - destruct work as [|a w]; simpl in Hd.
    { injection Hd as <-.
      split; [assumption|]. split; [|split; [auto|intros w []]].
      intros a Ha b Hb. destruct (I3 a Ha b Hb) as [?|[?|[]]]; auto. }
    destruct ((a =? x) || N.testbit vis a) eqn:Hskip.
    + destruct (IH w vis s Hd I1) as (S1 & S2 & S3 & S4).
      * intros w0 Hw0; apply I2; now right.
      * intros a0 Ha0 b Hb. destruct (I3 a0 Ha0 b Hb) as [?|[?|[<-|?]]]; auto.
        apply orb_true_iff in Hskip as [Hx|Hv]; [left; now apply N.eqb_eq in Hx | right; left; assumption].
      * split; [assumption|]. split; [assumption|]. split; [assumption|].
        intros w0 [<-|Hw0]; [|auto].
        apply orb_true_iff in Hskip as [Hx|Hv]; [left; now apply N.eqb_eq in Hx | right; auto].
    + apply orb_false_iff in Hskip as [Hx Hv]. apply N.eqb_neq in Hx.
      assert (Ra : reach_avoid g x r a) by (destruct (I2 a (or_introl eq_refl)); [contradiction|assumption]).
      destruct (IH (succs g a ++ w) (N.setbit vis a) s Hd) as (S1 & S2 & S3 & S4).
      * intros v Hv'. rewrite setbit_test in Hv'. apply orb_true_iff in Hv' as [E|Hv'].
        -- apply N.eqb_eq in E; now subst v.
        -- auto.
      * intros w0 Hw0. apply in_app_or in Hw0 as [Hs|Hw0].
        -- destruct (N.eq_dec w0 x) as [|Hne]; [now left|right].
           destruct Ra as (l & Hl & Hnx). exists (w0 :: l). split; [econstructor; eauto|].
           intros [E|E]; [congruence|contradiction].
        -- apply I2; now right.
      * intros a0 Ha0 b Hb. rewrite setbit_test in Ha0. apply orb_true_iff in Ha0 as [E|Ha0].
        -- apply N.eqb_eq in E; subst a0. right; right. apply in_or_app; now left.
        -- destruct (I3 a0 Ha0 b Hb) as [?|[Hvb|[<-|?]]]; auto.
           ++ right; left. rewrite setbit_test. apply orb_true_iff; now right.
           ++ right; left. rewrite setbit_test, N.eqb_refl. reflexivity.
           ++ right; right. apply in_or_app; now right.
      * assert (Sa : N.testbit s a = true) by (apply S3; rewrite setbit_test, N.eqb_refl; reflexivity).
        split; [assumption|]. split; [assumption|]. split.
        -- intros v Hv'. apply S3. rewrite setbit_test. apply orb_true_iff; now right.
        -- intros w0 [<-|Hw0]; [now right|]. apply S4. apply in_or_app; now right.
Qed.

(* Sound and complete: the computed set is exactly the set of nodes reachable from r by a walk
   (of any length) that never touches x. *)
Theorem reach_set_correct : forall g x r s, reach_set g x r = Some s ->
  forall c, N.testbit s c = true <-> reach_avoid g x r c.
Proof.
  unfold reach_set; intros g x r s Hd.
  destruct (dfs_inv g x r _ _ _ _ Hd) as (S1 & S2 & _ & S4).
  - intros v Hv; rewrite N.bits_0 in Hv; discriminate.
  - intros w [<-|[]]. destruct (N.eq_dec r x) as [|Hne]; [now left|right].
    exists [r]. split; [constructor|]. intros [E|[]]; congruence.
  - intros a Ha; rewrite N.bits_0 in Ha; discriminate.
  - intros c; split; [apply S1|].
    intros (l & Hl & Hnx). induction Hl as [|c d l Hl IH He].
    + destruct (S4 r (or_introl eq_refl)) as [E|?]; [|assumption]. exfalso; apply Hnx; now left.
    + assert (Hc : N.testbit s c = true) by (apply IH; intros H; apply Hnx; now right).
      destruct (S2 c Hc d He) as [E|?]; [|assumption]. exfalso; apply Hnx; now left.
Qed.

(* ------------------------------------------------------------------ fuel is always sufficient *)
Definition deg_unvisited (g : graph) (vis : N) : nat :=
  fold_right (fun a acc => ((if N.testbit vis (N.of_nat a) then O else length (nth a g [])) + acc)%nat)
             O (seq 0 (length g)).

Lemma deg_unvisited_mark_gen : forall (g : graph) vis a l, NoDup l ->
  N.testbit vis a = false ->
  (fold_right (fun b acc => ((if N.testbit (N.setbit vis a) (N.of_nat b) then O else length (nth b g [])) + acc)%nat) O l
   + (if existsb (fun b => N.eqb (N.of_nat b) a) l then length (succs g a) else O)
   = fold_right (fun b acc => ((if N.testbit vis (N.of_nat b) then O else length (nth b g [])) + acc)%nat) O l)%nat.
Proof.
  intros g vis a l Hnd Hv. induction l as [|b l IH]; [reflexivity|].
  inversion Hnd as [|? ? Hnin Hnd']; subst. specialize (IH Hnd'). simpl.
  rewrite setbit_test. destruct (N.of_nat b =? a) eqn:E.
  - apply N.eqb_eq in E. assert (Eb : b = N.to_nat a) by lia.
    replace (a =? N.of_nat b) with true by (symmetry; apply N.eqb_eq; lia).
    replace (N.testbit vis (N.of_nat b)) with false by (rewrite E; congruence). simpl.
    assert (Hex : existsb (fun b0 => N.eqb (N.of_nat b0) a) l = false).
    { apply not_true_is_false; intros Hex. apply existsb_exists in Hex as (b' & Hb' & E').
      apply N.eqb_eq in E'. apply Hnin. replace b with b' by lia. assumption. }
    rewrite Hex in IH. unfold succs. subst b. lia.
  - replace (a =? N.of_nat b) with false by (symmetry; apply N.eqb_neq; apply N.eqb_neq in E; congruence).
    simpl. lia.
Qed.

Lemma deg_unvisited_mark : forall g vis a, N.testbit vis a = false ->
  (deg_unvisited g (N.setbit vis a) + length (succs g a) = deg_unvisited g vis)%nat.
Proof.
  intros g vis a Hv. unfold deg_unvisited.
  rewrite <- (deg_unvisited_mark_gen g vis a (seq 0 (length g)) (seq_NoDup _ _) Hv).
  destruct (existsb (fun b => N.eqb (N.of_nat b) a) (seq 0 (length g))) eqn:Hex; [reflexivity|].
  assert (length (succs g a) = O); [|lia].
  unfold succs. destruct (lt_dec (N.to_nat a) (length g)) as [Hlt|Hge].
  - exfalso. apply not_true_iff_false in Hex; apply Hex. apply existsb_exists.
    exists (N.to_nat a). split; [apply in_seq; lia | apply N.eqb_eq; lia].
  - rewrite nth_overflow by lia. reflexivity.
Qed.

Lemma dfs_fuel_enough : forall g x fuel work vis,
  (length work + deg_unvisited g vis < fuel)%nat -> dfs fuel g x work vis <> None.
Proof.
  intros g x. induction fuel as [|f IH]; intros work vis Hlt; [lia|].
  destruct work as [|a w]; simpl; [discriminate|].
  destruct ((a =? x) || N.testbit vis a) eqn:Hskip.
  - apply IH. simpl in Hlt. lia.
  - apply orb_false_iff in Hskip as [_ Hv]. apply IH.
    pose proof (deg_unvisited_mark g vis a Hv). rewrite app_length. simpl in Hlt. lia.
Qed.

Lemma fold_right_ext_in : forall {A B} (f f' : A -> B -> B) (b : B) (l : list A),
  (forall a acc, In a l -> f a acc = f' a acc) -> fold_right f b l = fold_right f' b l.
Proof.
  intros A B f f' b l; induction l as [|a t IH]; intros H; [reflexivity|].
  simpl. rewrite IH by (intros; apply H; now right). apply H; now left.
Qed.

Lemma deg_unvisited_0 : forall g, (deg_unvisited g 0 <= edge_count g)%nat.
Proof.
  intros g. unfold deg_unvisited, edge_count.
  assert (H : forall k (l : graph),
    (fold_right (fun a acc => ((if N.testbit 0 (N.of_nat a) then O else length (nth (a - k) l [])) + acc)%nat) O (seq k (length l))
     <= fold_right (fun l acc => (length l + acc)%nat) O l)%nat).
  { intros k l; revert k; induction l as [|h t IHt]; intros k; [simpl; lia|].
    cbn [length seq fold_right]. rewrite N.bits_0. replace (k - k)%nat with O by lia.
    cbn [nth]. apply Nat.add_le_mono_l.
    specialize (IHt (S k)).
    rewrite (fold_right_ext_in _
      (fun a acc => ((if N.testbit 0 (N.of_nat a) then O else length (nth (a - S k) t [])) + acc)%nat)); [exact IHt|].
    intros a acc Ha; apply in_seq in Ha. rewrite !N.bits_0.
      replace (a - k)%nat with (S (a - S k)) by lia. reflexivity. }
  specialize (H O g).
  rewrite (fold_right_ext_in _
      (fun a acc => ((if N.testbit 0 (N.of_nat a) then O else length (nth (a - 0) g [])) + acc)%nat)); [exact H|].
  intros a acc _. now rewrite Nat.sub_0_r.
Qed.

Theorem reach_set_total : forall g x r, reach_set g x r <> None.
Proof.
  intros g x r. unfold reach_set, reach_fuel. apply dfs_fuel_enough.
  pose proof (deg_unvisited_0 g). simpl; lia.
Qed.

(* ------------------------------------------------------------------ reference dominance *)
(* [dom_ref g r b c]: b dominates c w.r.t. root r, decided by deleting b. *)
Definition dom_ref (g : graph) (r b c : N) : option bool :=
  if b =? c then Some true
  else match reach_set g b r with
       | Some s => Some (negb (N.testbit s c))
       | None => None
       end.

Theorem dom_ref_correct : forall g r b c v, dom_ref g r b c = Some v ->
  (v = true <-> dominates g r b c).
Proof.
  unfold dom_ref; intros g r b c v H. destruct (b =? c) eqn:E.
  - apply N.eqb_eq in E; subst c. injection H as <-. split; [intros _; apply dominates_refl | reflexivity].
  - destruct (reach_set g b r) as [s|] eqn:Hs; [|discriminate]. injection H as <-.
    pose proof (reach_set_correct _ _ _ _ Hs c) as Hc. split.
    + intros Hn l Hl. destruct (in_dec N.eq_dec b l) as [|Hnin]; [assumption|exfalso].
      apply negb_true_iff in Hn. assert (N.testbit s c = true) by (apply Hc; now exists l). congruence.
    + intros Hd. apply negb_true_iff. apply not_true_is_false. intros Ht.
      apply Hc in Ht as (l & Hl & Hnin). apply Hnin, Hd, Hl.
Qed.

Theorem dom_ref_total : forall g r b c, dom_ref g r b c <> None.
Proof.
  unfold dom_ref; intros g r b c. destruct (b =? c); [discriminate|].
  pose proof (reach_set_total g b r). destruct (reach_set g b r); [discriminate|congruence].
Qed.

(* ------------------------------------------------------------------ two-rooted CFGs *)
(* Root of a block: the entry (node 0) if the block is reachable from it, otherwise the
   recover node.  [Dominates] is the relation the API of go/ir documents. *)
Definition Dominates (g : graph) (rec : option N) (b c : N) : Prop :=
  (reachable g 0 c /\ dominates g 0 b c) \/
  (~ reachable g 0 c /\ exists rc, rec = Some rc /\ dominates g rc b c).

Definition node_list (g : graph) : list N := map N.of_nat (seq 0 (length g)).

Lemma node_list_in : forall g c, In c (node_list g) <-> c < nnodes g.
Proof.
  unfold node_list, nnodes; intros g c; rewrite in_map_iff; split.
  - intros (k & <- & Hk); apply in_seq in Hk; lia.
  - intros H; exists (N.to_nat c); split; [lia | apply in_seq; lia].
Qed.

(* all nodes reachable from r (nothing avoided: the avoided node is out of range) *)
Definition reach_all (g : graph) (r : N) : option N := reach_set g (nnodes g) r.

Lemma reach_all_correct : forall g r s, graph_ok g = true -> r < nnodes g -> reach_all g r = Some s ->
  forall c, N.testbit s c = true <-> reachable g r c.
Proof.
  unfold reach_all; intros g r s Hok Hr Hs c. rewrite (reach_set_correct _ _ _ _ Hs c). split.
  - intros (l & Hl & _); now exists l.
  - intros (l & Hl); exists l; split; [assumption|]. intros Hin.
    pose proof (path_in_range _ _ _ _ Hok Hr Hl _ Hin). lia.
Qed.

(* Row b of the reference matrix: the set of blocks b dominates.
   E = blocks reachable from entry, all = all blocks. *)
Definition dom_row (g : graph) (rec : option N) (E all : N) (b : N) : option N :=
  match reach_set g b 0 with
  | None => None
  | Some Rb =>
    let inE := N.ldiff E Rb in
    match rec with
    | None => Some (N.setbit inE b)
    | Some rc =>
      match reach_set g b rc with
      | None => None
      | Some Rb' => Some (N.setbit (N.lor inE (N.ldiff (N.ldiff all E) Rb')) b)
      end
    end
  end.

Fixpoint opt_map {A B} (f : A -> option B) (l : list A) : option (list B) :=
  match l with
  | [] => Some []
  | a :: t => match f a, opt_map f t with Some b, Some r => Some (b :: r) | _, _ => None end
  end.

Lemma opt_map_nth : forall {A B} (f : A -> option B) l r, opt_map f l = Some r ->
  length r = length l /\ forall k da db, (k < length l)%nat -> f (nth k l da) = Some (nth k r db).
Proof.
  intros A B f; induction l as [|a t IH]; intros r H; simpl in H.
  - injection H as <-. split; [reflexivity|]. intros; simpl in *; lia.
  - destruct (f a) as [b|] eqn:Ea; [|discriminate]. destruct (opt_map f t) as [r'|] eqn:Et; [|discriminate].
    injection H as <-. destruct (IH _ eq_refl) as (Hl & Hn). split; [simpl; congruence|].
    intros [|k] da db Hk; simpl; [assumption|]. apply Hn. simpl in Hk. lia.
Qed.

Record cfg_dom := mkCfgDom {
  cd_E : N;            (* blocks reachable from the entry *)
  cd_R : N;            (* blocks reachable from the recover block (0 if none) *)
  cd_rows : list N     (* row b = set of blocks dominated by b *)
}.

(* The reference dominance relation of a two-rooted CFG; None if the graph is malformed
   (edge out of range, no entry, recover out of range or reachable from entry, a block reachable
   from neither root). *)
Definition cfg_dominance (g : graph) (rec : option N) : option cfg_dom :=
  let n := nnodes g in
  if negb (graph_ok g && (0 <? n)) then None else
  match reach_all g 0 with
  | None => None
  | Some E =>
    let all := N.ones n in
    match (match rec with
           | None => Some 0
           | Some rc => if (rc <? n) && negb (N.testbit E rc) then reach_all g rc else None
           end) with
    | None => None
    | Some R =>
      if negb (N.lor E R =? all) then None else
      match opt_map (dom_row g rec E all) (node_list g) with
      | None => None
      | Some rows => Some (mkCfgDom E R rows)
      end
    end
  end.

Definition row (rows : list N) (b : N) : N := nth (N.to_nat b) rows 0.

Lemma ones_test : forall n c, N.testbit (N.ones n) c = (c <? n).
Proof.
  intros n c. destruct (c <? n) eqn:E.
  - apply N.ltb_lt in E. now apply N.ones_spec_low.
  - apply N.ltb_ge in E. now apply N.ones_spec_high.
Qed.

Theorem cfg_dominance_correct : forall g rec d, cfg_dominance g rec = Some d ->
  graph_ok g = true /\ 0 < nnodes g /\ length (cd_rows d) = length g /\
  (forall rc, rec = Some rc -> rc < nnodes g /\ ~ reachable g 0 rc) /\
  (forall c, N.testbit (cd_E d) c = true <-> reachable g 0 c) /\
  (forall c, c < nnodes g -> reachable g 0 c \/ exists rc, rec = Some rc /\ reachable g rc c) /\
  (forall b c, b < nnodes g -> c < nnodes g ->
     (N.testbit (row (cd_rows d) b) c = true <-> Dominates g rec b c)).
Proof.
  unfold cfg_dominance; intros g rec d H.
  destruct (graph_ok g && (0 <? nnodes g)) eqn:Hok; [|discriminate]. simpl in H.
  apply andb_true_iff in Hok as [Hok Hn]. apply N.ltb_lt in Hn.
  destruct (reach_all g 0) as [E|] eqn:HE; [|discriminate].
  pose proof (reach_all_correct g 0 E Hok Hn HE) as HEc.
  destruct (match rec with None => Some 0 | Some rc => _ end) as [R|] eqn:HR; [|discriminate].
  destruct (N.lor E R =? N.ones (nnodes g)) eqn:Hall; [|discriminate]. simpl in H.
  apply N.eqb_eq in Hall.
  destruct (opt_map (dom_row g rec E (N.ones (nnodes g))) (node_list g)) as [rows|] eqn:Hrows; [|discriminate].
  injection H as <-. simpl.
  assert (Hrec : forall rc, rec = Some rc -> rc < nnodes g /\ ~ reachable g 0 rc /\ reach_all g rc = Some R).
  { intros rc ->. destruct ((rc <? nnodes g) && negb (N.testbit E rc)) eqn:C; [|discriminate].
    apply andb_true_iff in C as [C1 C2]. apply N.ltb_lt in C1. apply negb_true_iff in C2.
    repeat split; auto. intros Hr. apply HEc in Hr. congruence. }
  assert (Hcover : forall c, c < nnodes g -> reachable g 0 c \/ exists rc, rec = Some rc /\ reachable g rc c).
  { intros c Hc. assert (Hb : N.testbit (N.lor E R) c = true) by (rewrite Hall, ones_test; now apply N.ltb_lt).
    rewrite N.lor_spec in Hb. apply orb_true_iff in Hb as [Hb|Hb]; [left; now apply HEc|].
    destruct rec as [rc|].
    - destruct (Hrec rc eq_refl) as (Hrc & _ & HRc). right. exists rc. split; [reflexivity|].
      now apply (reach_all_correct g rc R Hok Hrc HRc).
    - injection HR as <-. rewrite N.bits_0 in Hb. discriminate. }
  destruct (opt_map_nth _ _ _ Hrows) as (Hlen & Hnth).
  unfold node_list in Hlen; rewrite map_length, seq_length in Hlen.
  repeat split; auto.
  - now apply (Hrec rc).
  - now apply (Hrec rc).
  - apply HEc.
  - apply HEc.
  - (* the matrix *)
    unfold row.
    assert (Hb : (N.to_nat b < length (node_list g))%nat)
      by (unfold node_list; rewrite map_length, seq_length; unfold nnodes in *; lia).
    specialize (Hnth (N.to_nat b) 0 0 Hb).
    assert (Enb : nth (N.to_nat b) (node_list g) 0 = b).
    { unfold node_list. rewrite (nth_indep _ 0 (N.of_nat 0)) by assumption.
      rewrite map_nth, seq_nth by (unfold nnodes in *; lia). lia. }
    rewrite Enb in Hnth. unfold dom_row in Hnth.
    destruct (reach_set g b 0) as [Rb|] eqn:HRb; [|discriminate].
    pose proof (reach_set_correct _ _ _ _ HRb c) as HRbc.
    destruct rec as [rc|].
    + destruct (Hrec rc eq_refl) as (Hrc & Hnr & HRc).
      destruct (reach_set g b rc) as [Rb'|] eqn:HRb'; [|discriminate].
      pose proof (reach_set_correct _ _ _ _ HRb' c) as HRbc'.
      injection Hnth as <-. rewrite setbit_test, N.lor_spec, !N.ldiff_spec, ones_test.
      intros Ht. unfold Dominates.
      destruct (N.testbit E c) eqn:Ec.
      * left. split; [now apply HEc|]. apply orb_true_iff in Ht as [Ht|Ht].
        { apply N.eqb_eq in Ht; subst c; apply dominates_refl. }
        simpl in Ht. rewrite andb_false_r, orb_false_r in Ht. apply negb_true_iff in Ht.
        intros l Hl. destruct (in_dec N.eq_dec b l) as [|Hnin]; [assumption|exfalso].
        assert (N.testbit Rb c = true) by (apply HRbc; now exists l). congruence.
      * right. split; [intros Hr; apply HEc in Hr; congruence|]. exists rc. split; [reflexivity|].
        apply orb_true_iff in Ht as [Ht|Ht].
        { apply N.eqb_eq in Ht; subst c; apply dominates_refl. }
        simpl in Ht. apply andb_true_iff in Ht as [_ Ht]. apply negb_true_iff in Ht.
        intros l Hl. destruct (in_dec N.eq_dec b l) as [|Hnin]; [assumption|exfalso].
        assert (N.testbit Rb' c = true) by (apply HRbc'; now exists l). congruence.
    + injection Hnth as <-. rewrite setbit_test, N.ldiff_spec. intros Ht. unfold Dominates.
      left. destruct (Hcover c H0) as [Hr|(rc & Hrc & _)]; [|discriminate]. split; [assumption|].
      apply orb_true_iff in Ht as [Ht|Ht].
      { apply N.eqb_eq in Ht; subst c; apply dominates_refl. }
      apply andb_true_iff in Ht as [_ Ht]. apply negb_true_iff in Ht.
      intros l Hl. destruct (in_dec N.eq_dec b l) as [|Hnin]; [assumption|exfalso].
      assert (N.testbit Rb c = true) by (apply HRbc; now exists l). congruence.
  - (* converse *)
    unfold row.
    assert (Hb : (N.to_nat b < length (node_list g))%nat)
      by (unfold node_list; rewrite map_length, seq_length; unfold nnodes in *; lia).
    specialize (Hnth (N.to_nat b) 0 0 Hb).
    assert (Enb : nth (N.to_nat b) (node_list g) 0 = b).
    { unfold node_list. rewrite (nth_indep _ 0 (N.of_nat 0)) by assumption.
      rewrite map_nth, seq_nth by (unfold nnodes in *; lia). lia. }
    rewrite Enb in Hnth. unfold dom_row in Hnth.
    destruct (reach_set g b 0) as [Rb|] eqn:HRb; [|discriminate].
    pose proof (reach_set_correct _ _ _ _ HRb c) as HRbc.
    intros HD. destruct (N.eq_dec b c) as [<-|Hne].
    { destruct rec as [rc|].
      - destruct (reach_set g b rc); [|discriminate]. injection Hnth as <-.
        rewrite setbit_test, N.eqb_refl; reflexivity.
      - injection Hnth as <-. rewrite setbit_test, N.eqb_refl; reflexivity. }
    assert (Enc : (b =? c) = false) by now apply N.eqb_neq.
    destruct rec as [rc|].
    + destruct (Hrec rc eq_refl) as (Hrc & Hnr & HRc).
      destruct (reach_set g b rc) as [Rb'|] eqn:HRb'; [|discriminate].
      pose proof (reach_set_correct _ _ _ _ HRb' c) as HRbc'.
      injection Hnth as <-. rewrite setbit_test, N.lor_spec, !N.ldiff_spec, ones_test, Enc. simpl.
      destruct HD as [(Hr & Hd)|(Hnr' & rc' & Erc & Hd)].
      * apply HEc in Hr. rewrite Hr. simpl. apply orb_true_iff; left. apply negb_true_iff, not_true_is_false.
        intros Ht. apply HRbc in Ht as (l & Hl & Hnin). apply Hnin, Hd, Hl.
      * injection Erc as <-. assert (Ec : N.testbit E c = false).
        { apply not_true_is_false; intros Ht; apply Hnr'; now apply HEc. }
        rewrite Ec. simpl. replace (c <? nnodes g) with true by (symmetry; now apply N.ltb_lt). simpl.
        apply negb_true_iff, not_true_is_false.
        intros Ht. apply HRbc' in Ht as (l & Hl & Hnin). apply Hnin, Hd, Hl.
    + injection Hnth as <-. rewrite setbit_test, N.ldiff_spec, Enc. simpl.
      destruct HD as [(Hr & Hd)|(_ & rc' & Erc & _)]; [|discriminate].
      apply HEc in Hr. rewrite Hr. simpl. apply negb_true_iff, not_true_is_false.
      intros Ht. apply HRbc in Ht as (l & Hl & Hnin). apply Hnin, Hd, Hl.
Qed.

(* the recover region of the reference: blocks reachable from the recover block *)
Lemma cfg_dominance_R : forall g rec d, cfg_dominance g rec = Some d ->
  forall rc, rec = Some rc -> forall c, N.testbit (cd_R d) c = true <-> reachable g rc c.
Proof.
  unfold cfg_dominance; intros g rec d H rc -> c.
  destruct (graph_ok g && (0 <? nnodes g)) eqn:Hok; [|discriminate]. simpl in H.
  apply andb_true_iff in Hok as [Hok Hn].
  destruct (reach_all g 0) as [E|] eqn:HE; [|discriminate].
  destruct ((rc <? nnodes g) && negb (N.testbit E rc)) eqn:C; [|discriminate].
  destruct (reach_all g rc) as [R|] eqn:HR; [|discriminate].
  destruct (N.lor E R =? N.ones (nnodes g)); [|discriminate]. simpl in H.
  destruct (opt_map _ _); [|discriminate]. injection H as <-. simpl.
  apply andb_true_iff in C as [C1 _]. apply N.ltb_lt in C1.
  now apply (reach_all_correct g rc R Hok C1 HR).
Qed.
