(* C16: non-vacuity — concrete non-trivial instances satisfying the hypotheses of each theorem. *)
From Coq Require Import List Arith Bool NArith ZArith String Permutation.
Import ListNotations.
Require Import Verif.Model.C16 Verif.Model.C16_Check Verif.Model.C16_Rewrites Verif.Proofs.C16_Rewrites.
Local Open Scope string_scope.

(* "package p\r\n\r\nfunc f() {}" : CRLF line ends, no final newline *)
Definition crlf : file := Eval vm_compute in unhex "7061636b61676520700d0a0d0a66756e6320662829207b7d".
(* "a\nbc\n" : final newline, hence an empty last line *)
Definition lf : file := Eval vm_compute in unhex "610a62630a".

Example crlf_lines : line_lengths crlf = [10; 1; 11]%nat.          (* the CR is a byte of its line *)
Proof. reflexivity. Qed.
Example crlf_roundtrip : forallb (fun o => match offset_of crlf (pos_of crlf o) with Some o' => Nat.eqb o o' | None => false end)
                                 (seq 0 (S (List.length crlf))) = true.
Proof. vm_compute. reflexivity. Qed.
Example crlf_eof_valid : valid_pos_b crlf (3, 12)%nat = true /\ valid_pos_b crlf (3, 13)%nat = false /\ valid_pos_b crlf (4, 1)%nat = false.
Proof. repeat split. Qed.
Example crlf_on_newline : pos_of crlf 10 = (1, 11)%nat /\ pos_of crlf 11 = (2, 1)%nat.   (* offset 10 is the LF of line 1 *)
Proof. split; reflexivity. Qed.
Example lf_last_empty_line : pos_of lf 5 = (3, 1)%nat /\ valid_pos_b lf (3, 1)%nat = true /\ valid_pos_b lf (3, 2)%nat = false.
Proof. repeat split. Qed.
Example col_zero_invalid : valid_pos_b lf (1, 0)%nat = false /\ valid_pos_b lf (0, 1)%nat = false.
Proof. split; reflexivity. Qed.

(* edits: replace "p" by "AB", insert "C" at 0, delete "package" (0..7): an insertion and a replacement
   that start at the same offset do not overlap *)
Definition e1 := mkEdit 8 9 [65%N; 66%N].
Definition e2 := mkEdit 0 0 [67%N].
Definition e3 := mkEdit 0 7 [].
Example apply_orders :
  apply_edits crlf [e1; e2; e3] = apply_edits crlf [e3; e1; e2] /\
  apply_edits crlf [e1; e2; e3] = apply_edits crlf [e2; e3; e1] /\
  exists r, apply_edits crlf [e1; e2; e3] = Some r /\ List.length r = 19%nat.
Proof. repeat split. eexists. split; reflexivity. Qed.
Example perm_hyp : Permutation [e1; e2; e3] [e3; e1; e2] /\ inserts_unambiguous [e1; e2; e3].
Proof.
  split.
  - apply Permutation_sym. apply (Permutation_cons_app [e1; e2] [] e3). apply Permutation_refl.
  - intros a b Ha Hb Ia Ib _. simpl in Ha, Hb.
    destruct Ha as [<-|[<-|[<-|[]]]]; destruct Hb as [<-|[<-|[<-|[]]]]; try reflexivity; try discriminate Ia; try discriminate Ib.
Qed.
Example ambiguous_inserts_do_depend_on_order :
  apply_edits lf [mkEdit 1 1 [88%N]; mkEdit 1 1 [89%N]] <> apply_edits lf [mkEdit 1 1 [89%N]; mkEdit 1 1 [88%N]].
Proof. vm_compute. discriminate. Qed.
Example overlap_rejected : apply_edits crlf [e1; mkEdit 0 9 []] = None /\ edits_ok_b (List.length crlf) [e1; mkEdit 0 9 []] = false.
Proof. split; reflexivity. Qed.
Example out_of_bounds_rejected : apply_edits lf [mkEdit 4 6 []] = None /\ apply_edits lf [mkEdit 3 2 []] = None.
Proof. split; reflexivity. Qed.
Example untouched_shift :
  untouched [e1; e2; e3] 13 /\ shifted [e1; e2; e3] 13 = 8%nat /\
  (exists r, apply_edits crlf [e1; e2; e3] = Some r /\ nth_error r 8 = nth_error crlf 13 /\ nth_error crlf 13 = Some 102%N).
Proof.
  split; [|split; [reflexivity|eexists; repeat split; reflexivity]].
  intros e [<-|[<-|[<-|[]]]]; simpl; intros [A B]; inversion B; try (inversion A; fail).
  all: repeat match goal with H : (_ <= _)%nat |- _ => inversion H; clear H end.
Qed.
Example length_instance : sum_del [e1; e2; e3] = 8%nat /\ sum_new [e1; e2; e3] = 3%nat /\ List.length crlf = 24%nat.
Proof. repeat split. Qed.

(* ---------- rewrite catalogue ---------- *)
Local Open Scope Z_scope.
Definition st0 := mkStore [5; 0] [true; false] [(7, 1)].
(* sub-expressions that log an event, bump a counter, and may panic *)
Definition tickb (id : nat) (v : bool) : bexpr := BOp (fun s => ([Ev id (geti s 1)], seti s 1 (geti s 1 + 1), Some v)).
Definition ticki (id : nat) (v : Z) : iexpr := IOp (fun s => ([Ev id (geti s 1)], seti s 1 (geti s 1 + 1), Some v)).
Definition boom : bexpr := BOp (fun s => ([Ev 99%nat 0], s, None)).

Definition dm := BAnd (BOr (tickb 1 false) (BCmpI Lt (ticki 2 3) (ticki 3 4))) (BParen (BAnd (BNot (tickb 4 true)) boom)).
Example negate_instance :
  no_float_cmp dm = true /\
  beval (negate true dm) st0 = beval (BNot dm) st0 /\
  fst (fst (beval (BNot dm) st0)) = [Ev 1%nat 0; Ev 2%nat 1; Ev 3%nat 2; Ev 4%nat 3].   (* order and count visible *)
Proof. repeat split. Qed.
Example negate_changes_the_term : negate true dm <> BNot dm /\ negate false dm <> negate true dm.
Proof. split; discriminate. Qed.
Example s1002_instance :
  s1002_fix true false (BNot (BNot (BNot (tickb 1 true)))) = tickb 1 true /\
  s1002_fix false false (BCmpI Lt (ticki 1 1) (ILit 2)) = BCmpI Lt (ticki 1 1) (ILit 2).
Proof. split; reflexivity. Qed.
Example yoda_instance : iconst (IBin Add (ILit 2) (IParen (IBin Mul (ILit 3) (ILit 4)))) = true.
Proof. reflexivity. Qed.
(* a condition with side effects that is independent of boolean variable 1 *)
Example indep_instance : indep_b (BAnd (BVar 0) (tickb 5 true)) 1.
Proof.
  intros [i0 b0 m0] v. unfold beval, bind, tickb, getb, setb, seti, geti; simpl.
  destruct b0 as [|x [|y r]]; simpl; try destruct x; reflexivity.
Qed.
Example indep_i_instance : indep_i (IBin Add (IVar 0) (ticki 1 2)) 2.
Proof.
  intros [i0 b0 m0] v. unfold ieval, bind, ticki, arith, ret, getb, setb, seti, geti; simpl.
  destruct i0 as [|a [|b [|c r]]]; simpl; reflexivity.
Qed.
Example qf1006_instance :
  let c := BOr (BCmpI Ge (IVar 0) (ILit 8)) (tickb 1 false) in
  let body := SIncr 0 in
  no_float_cmp c = true /\
  sexec (SFor 10 None (SSeq (SIf c SBreak SSkip) body)) st0 = sexec (SFor 10 (Some (negate false c)) body) st0 /\
  snd (sexec (SFor 10 (Some (negate false c)) body) st0) = Some RNormal /\
  List.length (fst (fst (sexec (SFor 10 (Some (negate false c)) body) st0))) = 3%nat.
Proof. repeat split. Qed.
Example s1033_instance :
  ipure (IBin Add (IVar 0) (ILit 2)) = true /\
  sm (snd (fst (sexec (SDelete (IBin Add (IVar 0) (ILit 2))) st0))) = [] /\
  sexec (SGuardedDelete (IBin Add (IVar 0) (ILit 2))) st0 = sexec (SDelete (IBin Add (IVar 0) (ILit 2))) st0.
Proof. repeat split. Qed.
