(* C12: non-vacuity — concrete non-trivial instances of the quantified statements, and the refutation of
   build_names_exact for the sort key the pinned tree had before the repair (DESIGN §7 F8). *)
From Coq Require Import List ZArith Bool String Permutation Sorting.Sorted.
Import ListNotations.
Require Import Verif.Lib.CmpOrder Verif.Model.C12_Types Verif.Gen.C12_SortKey Verif.Model.C12 Verif.Model.C12_Check
               Verif.Proofs.C12.
Open Scope string_scope.
Open Scope Z_scope.

Definition dX (b : string) := mkD "p.go" 0 3 1 "p.go" 0 3 9 "SA4006" "m0" 0 0 b.
Definition dY (b : string) := mkD "p.go" 0 3 1 "p.go" 0 3 9 "SA1000" "m0" 0 0 b.
Definition uA (b : string) := mkD "q.go" 0 7 2 "" 0 0 0 "U1000" "func f is unused" 0 1 b.

(* 'all' semantics: run "linux" reports uA and checked q.go; run "darwin" checked q.go without reporting it
   -> dropped; run "windows" did not check q.go -> does not veto *)
Definition r_linux := mkRun ["p.go"; "q.go"] [dX "linux"; dY "linux"; uA "linux"].
Definition r_darwin := mkRun ["p.go"; "q.go"] [dX "darwin"].
Definition r_windows := mkRun ["p.go"] [dX "windows"; uA "windows"].
Example all_vetoed : merge_runs all_dfields 0 1 [r_linux; r_darwin; r_windows]
                     = [dX "linux"; dY "linux"; dX "darwin"; dX "windows"].
Proof. reflexivity. Qed.
Example all_kept : merge_runs all_dfields 0 1 [r_linux; r_windows]
                   = [dX "linux"; dY "linux"; uA "linux"; dX "windows"; uA "windows"].
Proof. reflexivity. Qed.
(* later entry of a run wins *)
Example last_wins : run_map all_dfields (mkRun [] [dX "a"; dY "a"; dX "b"]) = [dY "a"; dX "b"].
Proof. reflexivity. Qed.

(* the hypotheses of build_names_exact are satisfiable on an input with collisions *)
Definition ds3 := [dX "linux"; dY "linux"; dX "darwin"; uA "linux"; dX "linux"].
Lemma ds3_canon : cat_canon ds3.
Proof.
  intros a b Ia Ib. simpl in Ia, Ib.
  repeat (destruct Ia as [<-|Ia]; [|]); try contradiction;
  repeat (destruct Ib as [<-|Ib]; [|]); try contradiction; simpl; intro E; try reflexivity; discriminate E.
Qed.
Definition good_key := [KFile; KOff; KLine; KCol; KMsg; KCat; KEFile; KEOff; KELine; KECol; KBuild].
Example good_key_ok : key_ok good_key = true.
Proof. reflexivity. Qed.
Example ds3_sorted : sorted_by good_key (sort_diags good_key ds3) /\ Permutation (sort_diags good_key ds3) ds3.
Proof. split; [apply isort_sorted; apply key_cmp_ok | apply isort_perm]. Qed.
Example ds3_printed :
  map view_of_entry (print_entries good_key gen_equal_fields gen_descr_fields ds3) =
  [("p.go", 3, 1, ("p.go", 3, 9), "SA1000", "m0", "linux");
   ("p.go", 3, 1, ("p.go", 3, 9), "SA4006", "m0", "darwin,linux");
   ("q.go", 7, 2, ("", 0, 0), "U1000", "func f is unused", "linux")].
Proof. vm_compute. reflexivity. Qed.

(* ---- F8: the key of the pinned tree (file, line, column, message, BUILD, category; no End) ---- *)
Definition old_key := [KFile; KLine; KCol; KMsg; KBuild; KCat].
Example old_key_not_ok : key_ok old_key = false.
Proof. reflexivity. Qed.
Definition f8 := [dY "a"; dX "a"; dY "b"].
Lemma f8_canon : cat_canon f8.
Proof.
  intros a b Ia Ib. simpl in Ia, Ib.
  repeat (destruct Ia as [<-|Ia]; [|]); try contradiction;
  repeat (destruct Ib as [<-|Ib]; [|]); try contradiction; simpl; intro E; try reflexivity; discriminate E.
Qed.
Lemma f8_sorted : sorted_by old_key f8.
Proof.
  unfold sorted_by, f8. repeat constructor; unfold cle; vm_compute; discriminate.
Qed.
(* same position and message, categories SA1000 and SA4006 under build a, SA1000 under build b:
   SA1000 is printed twice ([a] and [b]) instead of once with [a,b] *)
Theorem build_names_exact_refuted_for_old_key :
  exists ds s, cat_canon ds /\ Permutation s ds /\ sorted_by old_key s /\
               ~ exact_output ds (map finish (dedupe gen_equal_fields gen_descr_fields s)).
Proof.
  exists f8, f8. split; [exact f8_canon|]. split; [apply Permutation_refl|].
  split; [exact f8_sorted|]. intros [N _].
  assert (E : map (fun e => descr_of (fst e)) (map finish (dedupe gen_equal_fields gen_descr_fields f8))
              = [descr_of (dY "a"); descr_of (dX "a"); descr_of (dY "b")]) by (vm_compute; reflexivity).
  rewrite E in N. inversion N as [|? ? N1 _]. apply N1. right. left. reflexivity.
Qed.
Example old_key_printed :
  map view_of_entry (print_entries old_key gen_equal_fields gen_descr_fields f8) =
  [("p.go", 3, 1, ("p.go", 3, 9), "SA1000", "m0", "a");
   ("p.go", 3, 1, ("p.go", 3, 9), "SA4006", "m0", "a");
   ("p.go", 3, 1, ("p.go", 3, 9), "SA1000", "m0", "b")].
Proof. vm_compute. reflexivity. Qed.
(* the enumerator finds it ... *)
Example cex_on_old_key : find_cex old_key gen_equal_fields gen_descr_fields <> [].
Proof. vm_compute. discriminate. Qed.
(* ... and finds nothing for the key the code has now *)
Example no_cex_now : find_cex gen_sort_key gen_equal_fields gen_descr_fields = [].
Proof. vm_compute. reflexivity. Qed.
