(* C17 — non-vacuity: concrete, non-trivial instances that meet the hypotheses of every theorem in Props/C17.v. *)
From Coq Require Import String List NArith Bool Permutation.
Import ListNotations.
Require Import Verif.Model.C17_Graph Verif.Model.C17_Merge Verif.Model.C17_Check
               Verif.Proofs.C17_Graph Verif.Proofs.C17.
Open Scope N_scope.

(* root uses 1 and 2; 2 uses 3; 4 uses and owns 5 (4 is unreachable: reported, 5 quiet); 5 owns 6; 7 owned by used 1 but unused *)
Definition ex : cgraph :=
  [([1; 2], []); ([], [7]); ([3], []); ([], []); ([5], [5]); ([], [6]); ([], []); ([], [])].
Example ex_verdicts :
  verdicts (of_cgraph ex) = [Used; Used; Used; Used; Unused; Quiet; Quiet; Unused].
Proof. vm_compute. reflexivity. Qed.
Example ex_results : results (combine [100; 101; 102; 103; 104; 105; 106; 107] ex) = ([101; 102; 103], [104; 107], [105; 106]).
Proof. vm_compute. reflexivity. Qed.

(* the same graph with adjacency lists permuted and duplicated, and the nodes renumbered by a non-trivial bijection *)
Definition ex_pi : list N := [0; 3; 1; 2; 7; 6; 5; 4].
Definition ex_pinv : list N := [0; 2; 3; 1; 7; 6; 5; 4].
Definition ex2 : cgraph :=
  [([1; 3; 1], []); ([2], []); ([], []); ([], [4]); ([], []); ([], []); ([], [5; 5]); ([6], [6])].
Example ex_iso : iso_b ex ex2 ex_pi ex_pinv = true.
Proof. vm_compute. reflexivity. Qed.
Example ex_iso_hyp : iso (of_cgraph ex) (of_cgraph ex2) (pif ex_pi) (pif ex_pinv).
Proof. apply iso_b_sound. exact ex_iso. Qed.
Example ex_iso_verdicts : verdicts (of_cgraph ex2) = [Used; Used; Used; Used; Unused; Quiet; Quiet; Unused].
Proof. vm_compute. reflexivity. Qed.
(* a graph that differs in one edge is rejected *)
Example ex_iso_neg : iso_b ex (([1], []) :: tl ex2) ex_pi ex_pinv = false.
Proof. vm_compute. reflexivity. Qed.

(* monotonicity: add the use edge 3 -> 4 (from used code): 4, 5 become used, 6 (owned by the now used 5) becomes reported *)
Example ex_add : verdicts (add_use (of_cgraph ex) 3 4) = [Used; Used; Used; Used; Used; Used; Unused; Unused].
Proof. vm_compute. reflexivity. Qed.
Example ex_hom : hom_b ex [([1; 2], []); ([], [7]); ([3], []); ([4], []); ([5], [5]); ([], [6]); ([], []); ([], [])]
                       [0; 1; 2; 3; 4; 5; 6; 7] = true.
Proof. vm_compute. reflexivity. Qed.
(* an edge from code that is not used changes nothing *)
Example ex_add_unused : verdicts (add_use (of_cgraph ex) 7 6) = verdicts (of_cgraph ex).
Proof. vm_compute. reflexivity. Qed.
Example ex_mark : verdicts (mark (of_cgraph ex)) = verdicts (of_cgraph ex).
Proof. vm_compute. reflexivity. Qed.

(* variant merge: package p analysed as p and as p [p.test]; f is unused in both -> reported;
   g is unused in p but used by the test variant -> not reported; h only exists in the test variant and is unused -> reported;
   q has U1000 disabled: its unused object is not reported, but what it lists as used still counts *)
Local Open Scope string_scope.
Definition o_f := mkObj "/m/p/a.go" 3 6 "f" "func" "/m/p/a.go" 3 6.
Definition o_g := mkObj "/m/p/a.go" 5 6 "g" "func" "/m/p/a.go" 5 6.
Definition o_h := mkObj "/m/p/a_test.go" 4 6 "h" "func" "/m/p/a_test.go" 4 6.
Definition o_k := mkObj "/m/q/b.go" 2 6 "k" "func" "/m/q/b.go" 2 6.
(* declared after "//line p_tmpl.go:100": the key uses the raw position, the problem is printed at the display position *)
Definition o_l := mkObj "/m/p/b.go" 9 6 "viaLine" "func" "/m/p/p_tmpl.go" 100 6.
Example ex_line_directive :
  predicted [mkRes "m/p" true [] [o_l]; mkRes "m/p" true [o_l] []] = [] /\
  predicted [mkRes "m/p" true [] [o_l]] = [("/m/p/p_tmpl.go", 100%N, 6%N, "func viaLine is unused")].
Proof. vm_compute. split; reflexivity. Qed.
Definition rs : list vresult :=
  [ mkRes "m/p" true [] [o_f; o_g];
    mkRes "m/p" true [o_g] [o_f; o_h];
    mkRes "m/q" false [] [o_k] ].
Example ex_merge : map (fun uo => o_name (snd uo)) (merge_impl rs) = ["f"; "f"; "h"].
Proof. vm_compute. reflexivity. Qed.
Example ex_merge_perm : map (fun uo => o_name (snd uo)) (merge_impl (rev rs)) = ["f"; "h"; "f"].
Proof. vm_compute. reflexivity. Qed.
Example ex_predicted : predicted rs =
  [("/m/p/a.go", 3%N, 6%N, "func f is unused"); ("/m/p/a.go", 3%N, 6%N, "func f is unused");
   ("/m/p/a_test.go", 4%N, 6%N, "func h is unused")].
Proof. vm_compute. reflexivity. Qed.
Example ex_basename : basename "/tmp/x/p0/a_test.go" = "a_test.go".
Proof. vm_compute. reflexivity. Qed.
(* an OR-merge (report if unused in some variant) would also have reported g: the specification excludes it *)
Example ex_g_not_reported : existsb (fun uo => String.eqb (o_name (snd uo)) "g") (merge_impl rs) = false.
Proof. vm_compute. reflexivity. Qed.
