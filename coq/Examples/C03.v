(* C03: non-vacuity — the universes are inhabited, the dispatch model distinguishes handled from unhandled values,
   interface cases expand, invalid exclusions do not exclude, and the coverage test finds the historical defects. *)
From Coq Require Import List String Bool Arith.
Import ListNotations.
Require Import Verif.Model.C03_Types Verif.Gen.C03_Switches Verif.Model.C03 Verif.Model.C03_Registry.
Open Scope string_scope.

(* the quantifiers of switch_total range over non-trivial sets *)
Example universes_inhabited :
  (40 <=? List.length (members gen_universes "ir.Instruction"))%nat = true /\
  (20 <=? List.length (members gen_universes "ast.Expr"))%nat = true /\
  (18 <=? List.length (members gen_universes "ast.Stmt"))%nat = true /\
  (14 <=? List.length (members gen_universes "types.Type"))%nat = true /\
  (6 <=? List.length builtin_universe)%nat = true /\
  (40 <=? List.length registry)%nat = true /\ (60 <=? List.length gen_switches)%nat = true.
Proof. vm_compute. repeat split. Qed.

(* an interface case accepts its implementors: *ir.Defer is handled by nilness through `case ir.CallInstruction` *)
Example defer_handled_through_interface_case :
  exists sw k, find_switch (nilness ++ "instr.(type)") = Some sw /\
    mem "*ir.Defer" (sw_cases sw) = false /\ mem "ir.CallInstruction" (sw_cases sw) = true /\
    dispatch gen_universes (sw_cases sw) "*ir.Defer" = Clause k.
Proof. vm_compute. eexists. eexists. repeat split. Qed.

(* the model does reach Default for a type no case accepts (the excluded, never constructed instruction) *)
Example stringlookup_would_panic :
  exists sw, find_switch (nilness ++ "instr.(type)") = Some sw /\
    dispatch gen_universes (sw_cases sw) "*ir.StringLookup" = Default.
Proof. vm_compute. eexists. split; reflexivity. Qed.

(* first-match semantics on a literal table *)
Example first_match :
  dispatch [("I", ["*A"; "*B"])] ["*B"; "I"; "*A"] "*A" = Clause 1%nat /\
  dispatch [("I", ["*A"; "*B"])] ["*B"; "I"; "*A"] "*B" = Clause 0%nat /\
  dispatch [("I", ["*A"; "*B"])] ["*B"; "I"; "*A"] "*C" = Default.
Proof. repeat split. Qed.

(* the coverage test finds the defects that were on the pinned tree (literal copies of the old case lists) *)
Example old_builtin_switch_misses_recover :
  uncovered gen_universes ["append"; "UnsafeSlice"; "UnsafeStringData"; "UnsafeSliceData"; "UnsafeAdd"; "ssa:deferstack"; "ssa:wrapnilchk"]
            builtin_universe [] = ["recover"].
Proof. vm_compute. reflexivity. Qed.
Example old_token_switch_misses_ordered_comparisons :
  uncovered [] ["token.EQL"; "token.NEQ"] ["token.EQL"; "token.NEQ"; "token.GTR"; "token.LSS"; "token.LEQ"; "token.GEQ"] []
  = ["token.GTR"; "token.LSS"; "token.LEQ"; "token.GEQ"].
Proof. reflexivity. Qed.

(* a NotConstructed exclusion of a type that go/ir does construct is invalid and excludes nothing *)
Example invalid_exclusion_excludes_nothing :
  excluded (mkReg "x" (UIface "ir.Instruction") [mkEx ["*ir.Call"] NotConstructed "wrong"]) = [] /\
  excluded (mkReg "x" (UIface "ir.Instruction") [mkEx ["*ir.StringLookup"] NotConstructed "right"]) = ["*ir.StringLookup"].
Proof. vm_compute. split; reflexivity. Qed.

(* a registration whose switch disappeared is not ok (the tie is reported, not silently dropped) *)
Example stale_registration_not_ok : reg_ok (mkReg "no/such/file.go:f:x.(type)" (UIface "ast.Expr") []) = false.
Proof. vm_compute. reflexivity. Qed.
