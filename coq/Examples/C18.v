(* C18: non-vacuity — concrete non-trivial runs satisfying the hypotheses of each theorem, and runs
   showing that the guards the theorems rest on are what makes them true. *)
From Coq Require Import List Arith NArith Bool String.
Import ListNotations.
Require Import Verif.Model.C18_Types Verif.Model.C18 Verif.Model.C18_Sync Verif.Model.C18_Check.

Open Scope N_scope.

(* Three builders 1,2,3 with a cycle 1 -> 2 -> 3 -> 1 (cycles are permitted), shared functions 10,20,30.
   Builder 1 marks done and waits; the waiter has to cross all edges and blocks until 2 and 3 are done. *)
Definition ex_cycle : list label :=
  [ LEnqueue 1 10; LEnqueue 2 20; LEnqueue 3 30;
    LAddEdge 1 2; LAddEdge 2 3; LAddEdge 3 1; LAddSkip 1 1;
    LBuilt 10; LMarkDone 1;
    LWaitStart 1 1; LWaitObserve 1 1 [2];
    LBuilt 20; LMarkDone 2; LWaitObserve 1 2 [3];
    LBuilt 30; LMarkDone 3; LWaitObserve 1 3 [1];
    LWaitClosed 1 1;
    (* a second waiter on 2 finds 1 transitively done and skips it *)
    LWaitStart 2 2; LWaitObserve 2 2 [3]; LWaitObserve 2 3 [1]; LWaitSkip 2 1; LWaitClosed 2 2;
    (* the order in which enqueued tasks are taken is free: a waiter on 3 sees edges [1] then skips 1 *)
    LWaitStart 4 3; LWaitObserve 4 3 [1]; LWaitSkip 4 1; LWaitClosed 4 3;
    (* a third one returns on the fast path *)
    LWaitStart 3 1; LWaitFast 3 1;
    (* afterwards addEdge to a transitively done task is skipped *)
    LAddSkip 4 1 ].

Example ex_cycle_runs : first_rejected init ex_cycle 0%nat = None.
Proof. vm_compute. reflexivity. Qed.
Example ex_cycle_returned :
  match run init ex_cycle with
  | Some s => match waiter s 1 with Some ws => w_closed ws && Nat.eqb (List.length (w_work ws)) 3%nat | None => false end
  | None => false
  end = true.
Proof. vm_compute. reflexivity. Qed.
Example ex_cycle_no_violation : trace_violations ex_cycle = [].
Proof. vm_compute. reflexivity. Qed.

(* the guards are needed: a wait that returns before following the edge to 2 is not a run of the model ... *)
Definition ex_early : list label :=
  [ LAddEdge 1 2; LMarkDone 1; LWaitStart 1 1; LWaitObserve 1 1 [2]; LWaitClosed 1 1 ].
Example ex_early_rejected : first_rejected init ex_early 0%nat = Some (4%nat, LWaitClosed 1 1).
Proof. vm_compute. reflexivity. Qed.
(* ... and the property predicate flags it: task 2 is reachable and not done *)
Example ex_early_violation : trace_violations ex_early = [VUndone 4%nat 1 1 [2]].
Proof. vm_compute. reflexivity. Qed.
(* an edge added after markDone is rejected (and can be missed by a waiter that already read the edges) *)
Definition ex_late_edge : list label :=
  [ LMarkDone 1; LWaitStart 1 1; LWaitObserve 1 1 []; LAddEdge 1 2; LWaitClosed 1 1 ].
Example ex_late_edge_rejected : first_rejected init ex_late_edge 0%nat = Some (3%nat, LAddEdge 1 2).
Proof. vm_compute. reflexivity. Qed.
Example ex_late_edge_violation :
  trace_violations ex_late_edge = [VEdgeAfterDone 3%nat 1 2; VUndone 4%nat 1 1 [2]].
Proof. vm_compute. reflexivity. Qed.
(* markDone before the shared function is built is rejected, and the waiter then sees an unbuilt function *)
Definition ex_early_done : list label :=
  [ LEnqueue 1 10; LMarkDone 1; LWaitStart 1 1; LWaitObserve 1 1 []; LWaitClosed 1 1; LBuilt 10 ].
Example ex_early_done_rejected : first_rejected init ex_early_done 0%nat = Some (1%nat, LMarkDone 1).
Proof. vm_compute. reflexivity. Qed.
Example ex_early_done_violation : trace_violations ex_early_done = [VUnbuilt 4%nat 1 1 [10]].
Proof. vm_compute. reflexivity. Qed.

Close Scope N_scope.

(* once-guard: three interleaved calls, one runs the body, all return after it is complete *)
Definition ex_once : list olabel :=
  [ OCall 1; OCall 2; OBodyEnd 1; OCall 3; OReturn 2; OReturn 1; OReturn 3 ].
Example ex_once_runs :
  match orun oinit ex_once with
  | Some s => Nat.eqb (o_runs s) 1 && cpc_eqb (o_pc s 3) CReturned
  | None => false
  end = true.
Proof. vm_compute. reflexivity. Qed.
(* a waiting call cannot return before the body has finished *)
Example ex_once_blocked : orun oinit [OCall 1; OCall 2; OReturn 2] = None.
Proof. vm_compute. reflexivity. Qed.

(* memo table: threads 1 and 2 both ask for key 7, thread 3 for key 8; one creation per key *)
Definition ex_memo : list mlabel :=
  [ MAcquire 1 7; MLookup 1; MCreate 1; MRelease 1;
    MAcquire 2 7; MLookup 2; MRelease 2;
    MAcquire 3 8; MLookup 3; MCreate 3; MRelease 3 ].
Example ex_memo_runs :
  match mrun true minit ex_memo with
  | Some s => Nat.eqb (creations s 7) 1 && Nat.eqb (creations s 8) 1 && Nat.eqb (List.length (m_results s)) 3
  | None => false
  end = true.
Proof. vm_compute. reflexivity. Qed.
(* under the lock thread 2 cannot slip its lookup between thread 1's lookup and create ... *)
Definition ex_memo_race : list mlabel :=
  [ MAcquire 1 7; MLookup 1; MAcquire 2 7; MLookup 2; MCreate 1; MCreate 2; MRelease 1; MRelease 2 ].
Example ex_memo_race_blocked : mrun true minit ex_memo_race = None.
Proof. vm_compute. reflexivity. Qed.
(* ... and without the lock the same schedule creates key 7 twice: the lock is what created_once needs *)
Example ex_memo_race_unlocked :
  match mrun false minit ex_memo_race with Some s => creations s 7 | None => 0 end = 2.
Proof. vm_compute. reflexivity. Qed.

(* lock discipline: the shape extracted from the source passes, a lookup hoisted above Lock does not *)
Open Scope string_scope.
Definition ex_guards : list (string * string * bool) := [("instances", "instancesMu", true); ("mapping", "methodsMu", false)].
Example ex_disc_ok :
  disc ex_guards [] [] [Lock "gen" "instancesMu"; DeferUnlock "gen" "instancesMu"; Read "gen" "instances"; Write "gen" "instances"] = true.
Proof. vm_compute. reflexivity. Qed.
Example ex_disc_hoisted :
  disc ex_guards [] [] [Read "gen" "instances"; Lock "gen" "instancesMu"; DeferUnlock "gen" "instancesMu"; Write "gen" "instances"] = false.
Proof. vm_compute. reflexivity. Qed.
Example ex_disc_other_base :
  disc ex_guards [] [] [Lock "gen" "instancesMu"; Read "other" "instances"; Unlock "gen" "instancesMu"] = false.
Proof. vm_compute. reflexivity. Qed.
Example ex_disc_after_unlock :
  disc ex_guards [] [] [Lock "p" "methodsMu"; Read "mset" "mapping"; Unlock "p" "methodsMu"; Write "mset" "mapping"] = false.
Proof. vm_compute. reflexivity. Qed.
Example ex_two_sections :
  locks_once [] [Lock "p" "methodsMu"; Read "mset" "mapping"; Unlock "p" "methodsMu"; Lock "p" "methodsMu"; Write "mset" "mapping"; Unlock "p" "methodsMu"] = false.
Proof. vm_compute. reflexivity. Qed.
