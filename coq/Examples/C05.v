(* C05: non-vacuity — concrete, non-trivial instances meeting the hypotheses of each theorem. *)
From Coq Require Import List NArith ZArith Bool Arith Lia.
Import ListNotations.
Require Import Verif.Model.C05_Types Verif.Model.C05_Codec Verif.Model.C05_FS.
Require Import Verif.Proofs.C05_Codec Verif.Proofs.C05_FSLemmas Verif.Proofs.C05_FS Verif.Proofs.C05.
Open Scope N_scope.

(* ---- codec ---- *)
Definition kA : list N := map N.of_nat (seq 100 32).
Definition oA : list N := map N.of_nat (seq 200 32).
Example kA_wf : wf_id kA /\ wf_id oA.
Proof. split; (split; [reflexivity | repeat constructor]). Qed.

Example format_concrete :
  firstn 12 (format_entry kA oA 12345 1700000000000000000) = [118; 49; 32; 54; 52; 54; 53; 54; 54; 54; 55; 54] /\
  length (format_entry kA oA 12345 1700000000000000000) = 175%nat.
Proof. split; vm_compute; reflexivity. Qed.
Example parse_format_concrete :
  parse_entry kA (format_entry kA oA 12345 1700000000000000000) = Some (oA, 12345, 1700000000000000000).
Proof. vm_compute. reflexivity. Qed.
Example prefix_rejected : parse_entry kA (firstn 174 (format_entry kA oA 12345 1700000000000000000)) = None.
Proof. vm_compute. reflexivity. Qed.
Example strict_prefix_inhabited : strict_prefix (firstn 174 (format_entry kA oA 5 7)) (format_entry kA oA 5 7).
Proof. exists (skipn 174 (format_entry kA oA 5 7)). split; [vm_compute; discriminate | symmetry; apply firstn_skipn]. Qed.
Example other_id_rejected : parse_entry oA (format_entry kA oA 12345 1700000000000000000) = None.
Proof. vm_compute. reflexivity. Qed.
(* ParseInt quirks that the model keeps: "+5" and "-0" are accepted, "-1", "1_0" and an over-long number are not *)
Definition with_size (s : list N) : list N :=
  firstn 133 (format_entry kA oA 0 7) ++ repeat 32 (20 - length s) ++ s ++ skipn 153 (format_entry kA oA 0 7).
Example quirk_plus : parse_entry kA (with_size [43; 53]) = Some (oA, 5, 7).
Proof. vm_compute. reflexivity. Qed.
Example quirk_minus_zero : parse_entry kA (with_size [45; 48]) = Some (oA, 0, 7).
Proof. vm_compute. reflexivity. Qed.
Example quirk_negative : parse_entry kA (with_size [45; 49]) = None.
Proof. vm_compute. reflexivity. Qed.
Example quirk_underscore : parse_entry kA (with_size [49; 95; 48]) = None.
Proof. vm_compute. reflexivity. Qed.
Example quirk_overflow : parse_entry kA (with_size (repeat 57 20)) = None.
Proof. vm_compute. reflexivity. Qed.
Example quirk_max : parse_entry kA (with_size (dec_of_N max_int64)) = Some (oA, max_int64, 7).
Proof. vm_compute. reflexivity. Qed.

(* ---- state machine, with the two-valued hash H2 (collision-free on the stored content [1;2;3]) ---- *)
Definition c2 : choice := mkCh 1000 1700000000000000001 2 (FD (H2 x123)) false.
Definition cfin : choice := mkCh 1000 0 1 (FA []) true.
Definition k6 : list N := repeat 6 32.

(* two writers of the same content under two keys, interleaved byte by byte; the first dies after two bytes;
   the second completes; the data file is deleted (while nobody holds it) and re-put by a third writer; the
   index of k6 is truncated at a quiescent point; Trim runs; lookups of every kind run to completion *)
Definition demo_trace : list label :=
  [LSpawn (OpPut k5 x123); LSpawn (OpPut k6 x123)] ++
  [LStep 0 c1; LStep 0 c1; LStep 1 c1; LStep 1 c1; LStep 0 c1; LStep 1 c1; LStep 0 c1; LCrash 0] ++
  repeat (LStep 1 c1) 9 ++
  [LSpawn (OpGetFile k6)] ++ repeat (LStep 2 c1) 5 ++
  [LSpawn (OpGetBytes k6)] ++ repeat (LStep 3 c2) 8 ++
  [LSpawn (OpGetFile k5)] ++ repeat (LStep 4 c1) 1 ++
  [LDelete (FD (H2 x123)); LSpawn (OpPut k5 x123)] ++ repeat (LStep 5 c2) 11 ++
  [LTrunc (FA k6) 100 1000; LSpawn (OpGet k6)] ++ repeat (LStep 6 c1) 2 ++
  [LSpawn (OpGet k5)] ++ repeat (LStep 7 c1) 3 ++
  [LTouch (FA k6) 1; LSpawn OpTrim; LStep 8 c1; LStep 8 (mkCh 1000 0 1 (FA k6) false); LStep 8 c1; LStep 8 cfin].

Definition demo_final : option state := Eval vm_compute in exec H2 init_state demo_trace.

Example demo_runs : exists s, demo_final = Some s /\
  map (fun c => match c with PDone r => Some r | _ => None end) (st_procs s) =
  [ None;                                                         (* writer 0: crashed *)
    Some RUnit;                                                   (* writer 1: done *)
    Some (RFile k6 (H2 x123) 3 (Some x123));                      (* GetFile k6: hit, the path held [1;2;3] *)
    Some (RBytes k6 x123);                                        (* GetBytes k6: hit *)
    Some (RMiss k5);                                              (* GetFile k5: the dead writer never wrote an index entry *)
    Some RUnit;                                                   (* third writer: done *)
    Some (RMiss k6);                                              (* Get k6 after truncating its index file to 100 bytes *)
    Some (RGet k5 (H2 x123) 3 1700000000000000001);               (* Get k5 *)
    Some RUnit ] /\                                               (* Trim removed the aged index file of k6 *)
  read_path (st_fs s) (FA k6) = None /\ read_path (st_fs s) (FD (H2 x123)) = Some x123.
Proof. eexists. split; [reflexivity |]. split; [reflexivity | split; reflexivity]. Qed.

(* the hypotheses of inv_reachable / getfile_sound / getbytes_sound are met by that state *)
Example demo_reachable : forall s, demo_final = Some s ->
  reachable H2 s /\ H_cf_on H2 (st_stored s) /\ Inv H2 s.
Proof.
  intros s Hs. assert (Hr : reachable H2 s).
  { exists demo_trace. split; [reflexivity |]. unfold demo_final in Hs. exact Hs. }
  assert (Hcf : H_cf_on H2 (st_stored s)).
  { unfold demo_final in Hs. inversion Hs; subst s. cbn [st_stored].
    intros x y Hx Hy. cbn in Hx. assert (x = x123) by (repeat (destruct Hx as [<- | Hx]; [reflexivity |]); destruct Hx). subst x.
    unfold H2 in Hy. rewrite list_eqb_N_refl in Hy.
    destruct (bytes_eqb y x123) eqn:E; [apply bytes_eqb_eq; auto | discriminate]. }
  split; [exact Hr |]. split; [exact Hcf |]. exact (inv_reachable_proof H2 H2_wf s Hr Hcf).
Qed.

Example demo_getfile_sound : forall s, demo_final = Some s ->
  exists x, In (k6, x) (st_stored s) /\ Some x123 = Some x.
Proof.
  intros s Hs. destruct (demo_reachable s Hs) as (Hr & Hcf & _).
  assert (Hn : nth_error (st_procs s) 2 = Some (PDone (RFile k6 (H2 x123) 3 (Some x123)))).
  { unfold demo_final in Hs. inversion Hs; subst s. reflexivity. }
  destruct (getfile_sound_proof H2 H2_wf s 2 _ _ _ _ Hr Hcf Hn) as (x & H1 & _ & _ & H4). exists x. auto.
Qed.

(* crash_anywhere instance: the writer is killed after 3 of its steps (one byte written); lookups miss *)
Example crash_instance :
  exists s, exec H2 init_state (LSpawn (OpPut k5 x123) :: map (LStep 0) [c1; c1; c1] ++ LCrash 0 :: LSpawn (OpGetFile k5) :: map (LStep 1) [c1]) = Some s /\
            nth_error (st_procs s) 1 = Some (PDone (RMiss k5)) /\ read_path (st_fs s) (FD (H2 x123)) = Some [1].
Proof. eexists. split; [vm_compute; reflexivity |]. split; reflexivity. Qed.
(* ... and killed after all but its last step (index written): the lookup hits with exactly x *)
Example crash_instance_late :
  exists s, exec H2 init_state (LSpawn (OpPut k5 x123) :: map (LStep 0) (repeat c1 11) ++ LCrash 0 :: LSpawn (OpGetBytes k5) :: map (LStep 1) (repeat c2 8)) = Some s /\
            nth_error (st_procs s) 1 = Some (PDone (RBytes k5 x123)).
Proof. eexists. split; [vm_compute; reflexivity |]. reflexivity. Qed.
Example crash_hypothesis : forall y, H2 y = H2 x123 -> y = x123.
Proof. intros y Hy. apply (H2_cf k5 x123 y); [left; reflexivity | exact Hy]. Qed.

(* same_content_idempotent instance: k5 committed, a second writer of the same content under k6 is about to write *)
Definition commit_trace : list label :=
  [LSpawn (OpPut k5 x123)] ++ repeat (LStep 0 c1) 12 ++ [LSpawn (OpPut k6 x123); LStep 1 c1].
Definition commit_state : option state := Eval vm_compute in exec H2 init_state commit_trace.
Example committed_instance : forall s, commit_state = Some s ->
  committed H2 (st_fs s) k5 x123 /\ nth_error (st_procs s) 1 = Some (PPutVOpen k6 x123 3) /\
  put_content (PPutVOpen k6 x123 3) = Some x123.
Proof.
  intros s Hs. unfold commit_state in Hs. inversion Hs; subst s. clear Hs.
  split; [| split; reflexivity]. split; [| reflexivity].
  eexists. exists 1700000000000000000. split; [reflexivity |]. vm_compute. reflexivity.
Qed.

(* quiescence is a real restriction: the same truncation that midwrite_truncate_refuted uses is refused by LTrunc *)
Example trunc_refused_while_held :
  exec H2 init_state ([LSpawn (OpPut k5 x123)] ++ repeat (LStep 0 c1) 4 ++ [LTrunc (FD (H2 x123)) 0 1000]) = None.
Proof. vm_compute. reflexivity. Qed.
Example trunc_allowed_when_quiescent :
  exists s, exec H2 init_state ([LSpawn (OpPut k5 x123)] ++ repeat (LStep 0 c1) 4 ++ [LCrash 0; LTrunc (FD (H2 x123)) 1 1000]) = Some s /\
            read_path (st_fs s) (FD (H2 x123)) = Some [1].
Proof. eexists. split; [vm_compute; reflexivity | reflexivity]. Qed.
