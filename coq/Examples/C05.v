Require Import Verif.Model.C05_Types Verif.Model.C05_Codec Verif.Model.C05_FS.
