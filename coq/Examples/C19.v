(* C19: non-vacuity — concrete, non-trivial instances of the quantified statements, including the inputs on which
   the pinned tree failed before the repairs (DESIGN §7 F6, F7, F15, F17 and the complex64 alignment). *)
From Coq Require Import List ZArith Bool Permutation.
Import ListNotations.
Require Import Verif.Model.C19_Types Verif.Gen.C19_BasicSizes Verif.Gen.C19_Optimize Verif.Model.C19 Verif.Model.C19_Check.
Require Import Verif.Proofs.C19 Verif.Proofs.C19_Optimize Verif.Proofs.C19_Layout.
Open Scope Z_scope.

Definition amd64 : arch := (8, 8).
Definition i386 : arch := (4, 4).
Example amd64_ok : arch_ok amd64. Proof. right. reflexivity. Qed.
Example i386_ok : arch_ok i386. Proof. left. reflexivity. Qed.

Definition i8 := TBasic KInt8.
Definition i64 := TBasic KInt64.
Definition inner := TStruct [i64; i8].                                (* struct{ x int64; y int8 } *)
Definition tF6 := TStruct [TStruct []].                                (* struct{ a struct{} } *)
Definition tF7 := TStruct [i64; inner; i8].                            (* struct{ a int64; b inner; c int8 } *)
Definition tF15 := TStruct [TArray 7 i8; i8; i64; TArray 7 i8; i8; i64].
Definition tF17 := TStruct [i8; inner].
Definition tC64 := TStruct [i8; TBasic KComplex64].
Definition tZ := TStruct [TStruct [i64; TArray 0 i64]; i8].            (* nested struct ending in a zero-size field *)
Definition tDeep := TStruct [i8; TStruct [i8; TStruct [i64; i8]]; TArray 3 inner; TBasic KString; TArray 0 i64].

Example wf_all : wf_ty tF6 /\ wf_ty tF7 /\ wf_ty tF15 /\ wf_ty tF17 /\ wf_ty tC64 /\ wf_ty tZ /\ wf_ty tDeep.
Proof. cbv; intuition discriminate. Qed.

(* F6: a struct of zero-size fields has size 0; the byte is added only to otherwise non-zero-sized structs *)
Example f6_size : sizeof gen_tables amd64 tF6 = 0 /\ layout gen_tables amd64 tF6 = [mkE [0%nat] 0 0 0 1 false].
Proof. split; reflexivity. Qed.
Example trailing_zero_gets_a_byte : sizeof gen_tables amd64 (TStruct [i64; TStruct []]) = 16.
Proof. reflexivity. Qed.
(* complex64 is aligned to 4, complex128 to 8 (4 on 386) *)
Example c64 : offsetsof gen_tables amd64 tC64 = [0; 4] /\ sizeof gen_tables amd64 tC64 = 12
              /\ alignof gen_tables i386 (TBasic KComplex128) = 4.
Proof. repeat split; reflexivity. Qed.
(* F7: the 7 bytes of padding inside the nested struct are printed *)
Example f7_layout :
  layout gen_tables amd64 tF7 =
  [mkE [0%nat] 0 8 8 8 false; mkE [1%nat; 0%nat] 8 16 8 8 false; mkE [1%nat; 1%nat] 16 17 1 1 false;
   mkpad 17 24; mkE [2%nat] 24 25 1 1 false; mkpad 25 32].
Proof. reflexivity. Qed.
Example f7_tiles : tiles_b (layout gen_tables amd64 tF7) 32 = true. Proof. reflexivity. Qed.
(* the fudge: a trailing zero-size leaf inside a non-zero-sized nested struct is shown with size 1 *)
Example z_layout :
  layout gen_tables amd64 tZ =
  [mkE [0%nat; 0%nat] 0 8 8 8 false; mkE [0%nat; 1%nat] 8 9 1 8 false; mkpad 9 16; mkE [1%nat] 16 17 1 1 false; mkpad 17 24].
Proof. reflexivity. Qed.
(* F15: combine keeps every field's own alignment; the result stays at 32 bytes *)
Example f15_opt : total (optimize gen_less_chain false (layout gen_tables amd64 tF15)) = 32
                  /\ map e_align (combine (layout gen_tables amd64 tF15)) = [1; 1; 8; 1; 1; 8].
Proof. split; reflexivity. Qed.
(* F17: the nested struct keeps its last leaf and its trailing padding: 16 bytes, aligned 8 *)
Example f17_combine :
  combine (layout gen_tables amd64 tF17) = [mkE [0%nat] 0 1 1 1 false; mkE [1%nat] 8 24 16 8 false].
Proof. reflexivity. Qed.
Example f17_opt :
  optimize gen_less_chain false (layout gen_tables amd64 tF17) =
  [mkE [1%nat] 0 16 16 8 false; mkE [0%nat] 16 17 1 1 false; mkpad 17 24].
Proof. reflexivity. Qed.
(* a deeper type: the hypotheses of optimize_not_larger are met by a non-trivial sorted permutation, on both paths *)
Example deep_sorted_perm :
  let inp := layout gen_tables amd64 tDeep in
  let l' := sort_units (less_chain gen_less_chain) (units_of true inp) in
  Permutation (units_of true inp) l' /\ sorted_by (less_chain gen_less_chain) l'
  /\ l' <> units_of true inp /\ total (pad_units l') = 80 /\ total inp = 104.
Proof.
  cbv zeta. split; [apply sort_units_perm|]. split; [apply sort_units_sorted|].
  split; [vm_compute; discriminate|]. split; reflexivity.
Qed.
Example deep_default : total (optimize gen_less_chain false (layout gen_tables amd64 tDeep)) = 96.
Proof. reflexivity. Qed.
(* the reference rules agree on these, 32-bit too *)
Example gc_agrees : map (fun t => gc_sizeof i386 t) [tF6; tF7; tF15; tF17; tC64; tZ; tDeep]
                    = map (fun t => sizeof gen_tables i386 t) [tF6; tF7; tF15; tF17; tC64; tZ; tDeep].
Proof. reflexivity. Qed.
(* the comparison chain in force, and what a different one would do to F15's input (sorting by ascending alignment
   grows the struct: the check's search finds such inputs when the chain obligation breaks) *)
(* the comparison chain matters: sorting by ascending alignment leaves the same type at 88 bytes instead of 80 *)
Example chain_matters :
  total (pad_units (sort_units (less_chain [CZeroFirst OSize; CAsc OAlign; CDesc OSize])
                               (units_of true (layout gen_tables amd64 tDeep)))) = 88.
Proof. reflexivity. Qed.
