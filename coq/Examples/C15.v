(* C15: non-vacuity. *)
From Coq Require Import List Arith Bool.
Import ListNotations.
Require Import Verif.Model.C13 Verif.Model.C13_Nilness Verif.Model.C15.
