(* C15: non-vacuity — a concrete function meets every hypothesis of nilness_sound / sa4023_sound, has a real
   execution that returns, and exports a non-trivial claim; and the analysis distinguishes the claims. *)
From Coq Require Import List Arith Bool.
Import ListNotations.
Require Import Verif.Model.C13 Verif.Model.C13_Nilness Verif.Model.C15 Verif.Gen.C15_SA4023 Verif.Model.C15_Check.

(* func NilCheck(p *int) *int { if p == nil { return new(int) }; return p }
   values: 0 = p, 1 = nil:*int, 2 = new(int), 3 = p == nil *)
Definition nilcheck : func :=
  mkF [mkV VParam true false; mkV VNilConst true false; mkV VInstr true false; mkV VInstr false false]
      [mkB [IDef 3; IIf 0 true] [1; 2] [];
       mkB [INew 2; IReturn [2]] [] [0];
       mkB [IReturn [0]] [] [0]]
      [0; 1] [(true, false)].

Example nilcheck_wf : wf_func_b nilcheck = true.
Proof. vm_compute. reflexivity. Qed.

Example nilcheck_fact : analyse nilcheck (pick_heap (fsuccs nilcheck)) 100 = Some [(MaybeNil, NeverNil)].
Proof. vm_compute. reflexivity. Qed.

(* the execution NilCheck(non-nil p): entry --false branch--> block 2 returns p *)
Definition r0 : env := fun v => match v with 0 => Some SNon | 1 => Some SNil | _ => None end.

Example r0_ok : init_env_ok nilcheck r0.
Proof.
  intros v. destruct v as [|[|v]]; simpl.
  - repeat split; auto.
  - repeat split; auto.
  - exact I.
Qed.

Example nilcheck_returns : returns nilcheck r0 0 SNon.
Proof.
  exists 2, (eset r0 3 SNon), (eset r0 3 SNon), [0]. repeat split.
  - apply R_step with (a := 0) (r := r0); [apply R_entry|].
    split; [simpl; auto|].
    exists (eset r0 3 SNon). split.
    + eapply EL_cons; [apply E_def; reflexivity|].
      eapply EL_cons; [| apply EL_nil].
      eapply E_if with (first := false) (sh := SNon); reflexivity.
    + exists []. repeat split. intros k p H. destruct k; discriminate.
  - eapply EL_cons; [apply E_return | apply EL_nil].
Qed.

(* SA4023-style claim on an interface result: func F() any { return new(int) } is never a nil interface *)
Definition mkiface : func :=
  mkF [mkV VInstr true false; mkV VInstr true true]
      [mkB [INew 0; IMakeIface 1 0; IReturn [1]] [] []] [] [(true, true)].
Example mkiface_flagged :
  option_map (fun facts => sa4023_flags (nth 0 facts MM)) (analyse mkiface (fun w => hd 0 w) 10) = Some true.
Proof. vm_compute. reflexivity. Qed.

(* the analysis does not claim NeverNil when a nil can flow: func G(p *int) *int { return p } *)
Definition ident_fn : func :=
  mkF [mkV VParam true false] [mkB [IReturn [0]] [] []] [0] [(true, false)].
Example ident_fact : analyse ident_fn (fun w => hd 0 w) 10 = Some [(MaybeNil, MaybeNil)].
Proof. vm_compute. reflexivity. Qed.

(* a loop that swaps a nil and a non-nil pointer: parallel phis give MaybeNil (sequential ones claimed NeverNil) *)
Definition swap : func :=
  mkF [mkV VNilConst true false; mkV VInstr true false; mkV VInstr true false; mkV VInstr true false; mkV VInstr false false]
      [mkB [INew 1] [1] [];
       mkB [IPhi 2 [0; 3]; IPhi 3 [1; 2]; IDef 4] [2; 3] [0; 2];
       mkB [INop] [1] [1];
       mkB [IReturn [3]] [] [1]]
      [0] [(true, false)].
Example swap_fact : analyse swap (pick_heap (fsuccs swap)) 200 = Some [(MaybeNil, MaybeNil)].
Proof. vm_compute. reflexivity. Qed.
