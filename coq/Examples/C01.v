(* C01: non-vacuity — concrete programs satisfying the hypotheses of the theorems. *)
From Coq Require Import List ZArith NArith PArith Bool FMapPositive.
Import ListNotations.
Require Import Verif.Model.C01_IRSem Verif.Model.C01_Syntax Verif.Model.C01_Check Verif.Model.C01_SSA Verif.Proofs.C01 Verif.Proofs.C01_SSA.
Open Scope Z_scope.

(* func F(x int) int { s := 0; for i := 0; i < x; i++ { s += i }; return s }  (lifted form) *)
Definition ex_sum : func :=
  mkFunc 0 [1]%positive [] 1 [VInt 0] [
    blk [] [1]%N [jp];
    blk [0; 2]%N [2; 3]%N [ph 2 [ci 0; r 5]; ph 3 [ci 0; r 6]; bin 4 Lss i64 i64 (r 3) (r 1); br (r 4)];
    blk [1]%N [1]%N [bin 5 Add i64 i64 (r 2) (r 3); bin 6 Add i64 i64 (r 3) (ci 1); jp];
    blk [1]%N []%N [rt [r 2]]] None.
Definition ex_prog : program := mkProgram [ex_sum] [].
Definition empty_heap : heap := mkHeap (PM.empty _) (PM.empty _) 1.

Example ex_sum_runs : exists h tr, exec 100 ex_prog 0 [VInt 5] empty_heap = Done [VInt 10] h tr.
Proof. eexists. eexists. vm_compute. reflexivity. Qed.
Example ex_sum_terminates : exists o, terminates_with ex_prog
    (match init_state ex_prog 0 [VInt 5] empty_heap with inl s => s | inr _ => mkState [] empty_heap [] end) o.
Proof. eexists. exists 100%nat. split. vm_compute. reflexivity. discriminate. Qed.
Example ex_sum_out_of_fuel : exec 5 ex_prog 0 [VInt 5] empty_heap = OutOfFuel.
Proof. vm_compute. reflexivity. Qed.
Example ex_sum_ssa_ok : ssa_ok_prog ex_prog = true.
Proof. vm_compute. reflexivity. Qed.

(* func G(n, x, y int) (int, int) { for i := 0; i < n; i++ { x, y = y, x }; return x, y }  (lifted form):
   the two phis of the loop head refer to each other, so they must be read as a parallel copy *)
Definition ex_swap : func :=
  mkFunc 0 [1; 2; 3]%positive [] 2 [VInt 0; VInt 0] [
    blk [] [1]%N [jp];
    blk [0; 2]%N [2; 3]%N [ph 4 [r 2; r 5]; ph 5 [r 3; r 4]; ph 6 [ci 0; r 8]; bin 7 Lss i64 i64 (r 6) (r 1); br (r 7)];
    blk [1]%N [1]%N [bin 8 Add i64 i64 (r 6) (ci 1); jp];
    blk [1]%N []%N [rt [r 4; r 5]]] None.
Definition ex_prog2 : program := mkProgram [ex_swap] [].

Example ex_swap_runs : exists h tr, exec 100 ex_prog2 0 [VInt 3; VInt 10; VInt 20] empty_heap = Done [VInt 20; VInt 10] h tr.
Proof. eexists. eexists. vm_compute. reflexivity. Qed.
Example ex_swap_ssa_ok : ssa_ok_prog ex_prog2 = true.
Proof. vm_compute. reflexivity. Qed.
(* the hypothesis of wf_no_undef holds and its conclusion is about a real execution *)
Example ex_swap_no_undef : forall n r, exec n ex_prog2 0 [VInt 3; VInt 10; VInt 20] empty_heap <> Stuck (EUndef r).
Proof. intros. apply exec_no_undef. vm_compute. reflexivity. Qed.

(* a use before its definition is rejected by the validator, and does get stuck *)
Definition ex_bad : func :=
  mkFunc 0 [1]%positive [] 1 [VInt 0] [
    blk [] [1; 2]%N [bin 2 Lss i64 i64 (r 1) (ci 0); br (r 2)];
    blk [0]%N [2]%N [bin 3 Add i64 i64 (r 1) (ci 1); jp];
    blk [0; 1]%N []%N [rt [r 3]]] None.
Example ex_bad_rejected : ssa_ok_prog (mkProgram [ex_bad] []) = false.
Proof. vm_compute. reflexivity. Qed.
Example ex_bad_stuck : exec 100 (mkProgram [ex_bad] []) 0 [VInt 5] empty_heap = Stuck (EUndef 3%positive).
Proof. vm_compute. reflexivity. Qed.

(* defer + recover with a named result kept in memory (naive-like form):
     func H(x int) (r int) { defer func() { if recover() != nil { r = -1 } }(); r = 10 / x; return }  *)
Definition ex_h : func :=
  mkFunc 0 [1]%positive [] 1 [VInt 0] [
    blk [] []%N [al 2 true (VInt 0); o 3 (OpMakeClosure 1) [r 2]; IDefer CValue None [r 3];
                 bin 4 Quo i64 i64 (ci 10) (r 1); st (r 2) (r 4); IRunDefers; ld 5 (r 2); rt [r 5]];
    blk [] []%N [ld 6 (r 2); rt [r 6]]] (Some 1%N).
Definition ex_h1 : func :=
  mkFunc 0 [] [1]%positive 0 [] [
    blk [] [1; 2]%N [ICall (Some 2%positive) CRecover []; bin 3 Neq KOther KOther (r 2) (cv (VIface None)); br (r 3)];
    blk [0]%N [2]%N [st (r 1) (ci (-1)); jp];
    blk [0; 1]%N []%N [rt []]] None.
Definition ex_prog3 : program := mkProgram [ex_h; ex_h1] [].
Example ex_h_ok : exists h tr, exec 100 ex_prog3 0 [VInt 2] empty_heap = Done [VInt 5] h tr.
Proof. eexists. eexists. vm_compute. reflexivity. Qed.
Example ex_h_recovers : exists h tr, exec 100 ex_prog3 0 [VInt 0] empty_heap = Done [VInt (-1)] h tr.
Proof. eexists. eexists. vm_compute. reflexivity. Qed.
Example ex_h_ssa_ok : ssa_ok_prog ex_prog3 = true.
Proof. vm_compute. reflexivity. Qed.
