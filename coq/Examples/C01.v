(* C01: non-vacuity — concrete programs satisfying the hypotheses of the theorems. *)
From Coq Require Import List ZArith NArith PArith Bool FMapPositive.
Import ListNotations.
Require Import Verif.Model.C01_IRSem Verif.Model.C01_Syntax Verif.Model.C01_Check Verif.Model.C01_SSA Verif.Proofs.C01.
Open Scope Z_scope.

(* func F(x int) int { s := 0; for i := 0; i < x; i++ { s += i }; return s }  (lifted form) *)
Definition ex_sum : func :=
  mkFunc 0 [1]%positive [] 1 [VInt 0] [
    blk [] [1]%N [jp];
    blk [0; 2]%N [2; 3]%N [ph 2 [ci 0; r 5]; ph 3 [ci 0; r 6]; bin 4 Lss i64 i64 (r 3) (r 1); br (r 4)];
    blk [1]%N [1]%N [bin 5 Add i64 i64 (r 2) (r 3); bin 6 Add i64 i64 (r 3) (ci 1); jp];
    blk [1]%N []%N [rt [r 2]]] None.
Definition ex_prog : program := mkProgram [ex_sum] [].
Definition empty_heap : heap := mkHeap (PM.empty _) (PM.empty _) 1.

Example ex_sum_runs : exists h tr, exec 100 ex_prog 0 [VInt 5] empty_heap = Done [VInt 10] h tr.
Proof. eexists. eexists. vm_compute. reflexivity. Qed.
Example ex_sum_terminates : exists o, terminates_with ex_prog
    (match init_state ex_prog 0 [VInt 5] empty_heap with inl s => s | inr _ => mkState [] empty_heap [] end) o.
Proof. eexists. exists 100%nat. split. vm_compute. reflexivity. discriminate. Qed.
Example ex_sum_out_of_fuel : exec 5 ex_prog 0 [VInt 5] empty_heap = OutOfFuel.
Proof. vm_compute. reflexivity. Qed.
Example ex_sum_ssa_ok : ssa_ok_prog ex_prog = true.
Proof. vm_compute. reflexivity. Qed.
