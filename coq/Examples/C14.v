(* C14: non-vacuity — concrete CFGs (a loop, an irreducible region, a recover block) on which the
   reference is defined, the hypotheses of the theorems hold, and the checker accepts the right
   observation and rejects wrong ones. *)
From Coq Require Import List NArith Bool. Import ListNotations.
Require Import Verif.Lib.Graphs Verif.Model.C14 Verif.Proofs.C14.
Local Open Scope N_scope.

(* 0 -> 1,2 ; 1 -> 3 ; 2 -> 3 ; 3 -> 1 (back edge), 4 ; 4 exit *)
Definition g_loop : graph := [[1;2];[3];[3];[1;4];[]].
Ltac step c := apply (path_step _ _ c); [|unfold edge; simpl; tauto].
Example loop_path : path g_loop 0 4 [4;3;1;3;1;0].
Proof. step 3. step 1. step 3. step 1. step 0. apply path_root. Qed.
Example loop_reach : reach_set g_loop 3 0 = Some 7.       (* deleting 3 leaves {0,1,2} *)
Proof. reflexivity. Qed.
Example loop_dom : dom_ref g_loop 0 3 4 = Some true /\ dom_ref g_loop 0 1 3 = Some false.
Proof. split; reflexivity. Qed.
Example loop_matrix : option_map cd_rows (cfg_dominance g_loop None) = Some [31; 2; 4; 24; 16].
Proof. reflexivity. Qed.

(* dominator tree 0 -> {1,2,3}, 3 -> 4; numbering as go/ir's numberDomTree would produce *)
Definition o_loop := mkObs [31; 2; 4; 24; 16] [None; Some 0; Some 0; Some 0; Some 3]
                           [[1;2;3]; []; []; [4]; []] [0;1;2;3;4] [1;2;4;3;0].
Example loop_accepted : tree_check g_loop None o_loop = true.
Proof. reflexivity. Qed.
Example loop_exact : exact g_loop None o_loop.
Proof. apply tree_check_sound; reflexivity. Qed.
(* wrong answers are rejected: 1 claimed to dominate 3; idom(4) = 0; post numbers off by one *)
Example loop_bad_dom : tree_diag g_loop None (mkObs [31; 10; 4; 24; 16] (o_idom o_loop) (o_kids o_loop) (o_pre o_loop) (o_post o_loop)) = [CDominates 1].
Proof. reflexivity. Qed.
Example loop_bad_idom : tree_diag g_loop None (mkObs (o_dom o_loop) [None; Some 0; Some 0; Some 0; Some 0] (o_kids o_loop) (o_pre o_loop) (o_post o_loop)) <> [].
Proof. vm_compute. discriminate. Qed.
Example loop_bad_post : tree_diag g_loop None (mkObs (o_dom o_loop) (o_idom o_loop) (o_kids o_loop) (o_pre o_loop) [1;4;2;3;0]) <> [].
Proof. vm_compute. discriminate. Qed.

(* irreducible region {1,2} entered at both nodes: 0 -> 1,2 ; 1 -> 2 ; 2 -> 1,3 *)
Definition g_irr : graph := [[1;2];[2];[1;3];[]].
Example irr_matrix : option_map cd_rows (cfg_dominance g_irr None) = Some [15; 2; 12; 8].
Proof. reflexivity. Qed.
Definition o_irr := mkObs [15; 2; 12; 8] [None; Some 0; Some 0; Some 2] [[1;2]; []; [3]; []] [0;1;2;3] [0;3;2;1].
Example irr_rejected_order : tree_check g_irr None o_irr = false.   (* this post listing is not a postorder *)
Proof. reflexivity. Qed.
Definition o_irr_ok := mkObs [15; 2; 12; 8] [None; Some 0; Some 0; Some 2] [[1;2]; []; [3]; []] [0;1;2;3] [1;3;2;0].
Example irr_accepted : tree_check g_irr None o_irr_ok = true.
Proof. reflexivity. Qed.

(* function with a recover block: entry region {0,1}, recover block 2 (second root) *)
Definition g_rec : graph := [[1];[];[]].
Definition o_rec := mkObs [3; 2; 4] [None; Some 0; None] [[1]; []; []] [0;1;2] [1;0;2].
Example rec_accepted : tree_check g_rec (Some 2) o_rec = true.
Proof. reflexivity. Qed.
Example rec_not_a_root : tree_diag g_rec None o_rec = [CGraph].   (* without the second root block 2 is unreachable *)
Proof. reflexivity. Qed.
Example rec_dominates : Dominates g_rec (Some 2) 2 2 /\ ~ Dominates g_rec (Some 2) 0 2.
Proof.
  pose proof (tree_check_sound g_rec (Some 2) o_rec eq_refl) as E. split.
  - apply (ex_dominates _ _ _ E 2 2); reflexivity.
  - intros H. apply (ex_dominates _ _ _ E 0 2) in H; [discriminate| reflexivity | reflexivity].
Qed.
(* hypotheses of the uniqueness theorems are satisfiable *)
Example loop_idom : is_idom g_loop 0 3 4.
Proof.
  assert (D : forall b v, dom_ref g_loop 0 b 4 = Some v -> v = true -> dominates g_loop 0 b 4)
    by (intros b v H Hv; now apply (dom_ref_correct _ _ _ _ _ H)).
  split; [discriminate|]. split; [apply (D 3 true); reflexivity|].
  intros b Hb Hd.
  assert (H1 : In b [4;3;1;0]) by (apply Hd; step 3; step 1; step 0; apply path_root).
  assert (H2 : In b [4;3;2;0]) by (apply Hd; step 3; step 2; step 0; apply path_root).
  destruct H1 as [<-|[<-|[<-|[<-|[]]]]].
  - congruence.
  - apply dominates_refl.
  - exfalso. destruct H2 as [H|[H|[H|[H|[]]]]]; discriminate.
  - apply dominates_root.
Qed.
