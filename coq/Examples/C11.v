(* C11: non-vacuity — concrete non-trivial instances of the quantified statements. *)
From Coq Require Import List ZArith Bool String.
Import ListNotations.
Require Import Verif.Gen.C11_Names Verif.Model.C11 Verif.Model.C11_Check Verif.Proofs.C11.
Open Scope string_scope.
Open Scope list_scope.

Definition names := ["S1000"; "S1001"; "SA1000"; "SA1001"; "SA4006"; "ST1003"; "U1000"].

(* S* is the category S: it matches S1000 but not SA1000; SA1* is a prefix glob; later elements override *)
Example s_star_not_sa :
  allowed names ["S*"] "S1000" = true /\ allowed names ["S*"] "SA1000" = false /\ allowed names ["s*"] "s1001" = true.
Proof. repeat split; reflexivity. Qed.
Example order_matters :
  allowed names ["all"; "-SA1*"; "sa1001"] "SA1000" = false /\
  allowed names ["all"; "-SA1*"; "sa1001"] "SA1001" = true /\
  allowed names ["all"; "-SA1*"; "sa1001"] "SA4006" = true /\
  allowed names ["sa1001"; "-SA1*"; "all"] "SA1000" = true /\
  allowed names ["-all"; "SA*"] "U1000" = false.
Proof. repeat split; reflexivity. Qed.
(* "-" alone is a literal; unknown literals add keys *)
Example dash_is_literal : lookup (filter_names (map lower names) ["-"; "nosuch"]) "-" = Some true
                          /\ lookup (filter_names (map lower names) ["-"; "-nosuch"]) "nosuch" = Some false.
Proof. split; reflexivity. Qed.
(* the hypotheses of last_match_decides hold on a selection with a later non-matching tail *)
Example decides_instance : decides (map lower names) ["all"; "-sa1*"; "st1003"] "sa1000" false.
Proof.
  exists ["all"], "-sa1*", ["st1003"]. repeat split; try reflexivity.
  intros s' [<-|[]]. reflexivity.
Qed.
(* the category/prefix lemmas apply to real globs *)
Example glob_instances :
  matches (map lower names) ("s" ++ "*")%string "s1000" = true /\ matches (map lower names) ("sa1" ++ "*")%string "sa1001" = true.
Proof. split; reflexivity. Qed.

(* inheritance: default; outer file disables ST*, middle file unset, inner file re-enables one and inherits *)
Definition dflt := ["all"; "-ST1003"].
Definition chain := [Some ["inherit"; "-ST*"]; None; Some ["ST1003"; "inherit"; "-U1000"]].
Example effective_instance :
  effective_checks dflt chain (Some ["inherit"]) = ["ST1003"; "all"; "-ST1003"; "-ST*"; "-U1000"] /\
  effective_checks dflt chain (Some ["inherit"; "U1000"]) = ["ST1003"; "all"; "-ST1003"; "-ST*"; "-U1000"; "U1000"] /\
  effective_checks dflt chain None = ["ST1003"; "all"; "-ST1003"; "-ST*"; "-U1000"] /\
  effective_checks dflt chain (Some ["SA*"]) = ["SA*"].
Proof. repeat split; reflexivity. Qed.
Example not_assoc_trivial : merge_lists ["a"] (merge_lists ["inherit"; "b"] ["c"; "inherit"; "inherit"]) = ["c"; "a"; "b"; "a"; "b"].
Proof. reflexivity. Qed.
Example normalize_instance : normalize ["all"; "all"; "-S*"; "all"; "all"] = ["all"; "-S*"; "all"].
Proof. reflexivity. Qed.
Example default_has_no_inherit : ~ In "inherit" default_checks.
Proof. vm_compute. intuition discriminate. Qed.

(* exit status: an ignored problem does not count, -fail negation is honoured, compile errors always count, SARIF exits 0 *)
Definition pA := mkP "a.go" 1 1 "SA1000" "m" SevError.
Definition pI := mkP "a.go" 2 1 "SA4006" "m" SevIgnored.
Definition pC := mkP "a.go" 3 1 "compile" "m" SevError.
Example exit_instances :
  exit_status FText names ["all"] false false [pA; pI] = 1%Z /\
  exit_status FText names ["all"; "-SA1000"] false false [pA; pI] = 0%Z /\
  exit_status FText names ["all"; "-SA1000"] true false [pA; pI] = 1%Z /\
  exit_status FJson names [] false false [pA; pC] = 1%Z /\
  exit_status FSarif names ["all"] false false [pA; pC] = 0%Z /\
  exit_status FText names [] false true [pA; pC] = 0%Z.
Proof. repeat split; reflexivity. Qed.
Example resev_instance : map p_sev (to_print names ["-SA1000"] false false [pA; pI; pC]) = [SevWarning; SevError].
Proof. reflexivity. Qed.

(* the enumerator of small selections finds no disagreement between the loop and the specification *)
Example no_cex_now : find_cex = [].
Proof. vm_compute. reflexivity. Qed.
