(* C06: non-vacuity — concrete graphs, executions and result functions satisfying the hypotheses of the theorems. *)
From Coq Require Import List Arith Bool NArith ZArith.
Import ListNotations.
Require Import Verif.Model.C06_Map Verif.Model.C06 Verif.Model.C06_Out Verif.Gen.C06_SortKey.
Require Import Verif.Proofs.C06_Base Verif.Proofs.C06_Level Verif.Proofs.C06_Global Verif.Proofs.C06_Out.

(* package level: a diamond 0 <- {1,2} <- 3, root 4 names 3 and 1; analyzer level of every package: 0 <- 1, root 2 *)
Definition ex_top : list row :=
  [([], [1; 2], 0, false); ([0], [3; 4], 1, false); ([0], [3], 1, false); ([1; 2], [4], 2, false); ([3; 1], [], 2, false)].
Definition ex_in : list row := [([], [1; 2], 0, false); ([0], [2], 1, false); ([0; 1], [], 2, false)].
Definition ex_gg : gdag := gdag_of_tables ex_top [(0, ex_in); (1, ex_in); (2, ex_in); (3, ex_in)].

Example ex_top_wf : wf_dag (gtopd ex_gg).
Proof. apply wf_dagb_sound. vm_compute. reflexivity. Qed.
Example ex_in_wf : wf_dag (ginnerd ex_gg 2).
Proof. apply wf_dagb_sound. vm_compute. reflexivity. Qed.

(* the analyzer level of package p, run to completion with every handler spawned ... *)
Definition an_run_spawn (p : nat) : list (glabel unit unit) :=
  map (GIn p) [ESeed 0; EDeq 0; ESpawn 0; EStart 0; EEnd 0 (Some tt); ERel 0; EDec 0 1; EEnq 0 1; EDec 0 2;
               EDeq 1; ESpawn 1; EStart 1; EEnd 1 (Some tt); ERel 1; EDec 1 2; EEnq 1 2;
               EDeq 2; ESpawn 2; EClose; EExit; ERel 2].
(* ... and with every handler run inline (no token available) *)
Definition an_run_inline (p : nat) : list (glabel unit unit) :=
  map (GIn p) [ESeed 0; EDeq 0; EInline 0; EStart 0; EEnd 0 (Some tt); EDec 0 1; EEnq 0 1; EDec 0 2;
               EDeq 1; EInline 1; EStart 1; EEnd 1 (Some tt); EDec 1 2; EEnq 1 2;
               EDeq 2; EInline 2; EClose; EExit].

(* a complete execution with capacity 1: package 0, then 1 and 2, then 3; package 2's analysis fails *)
Definition ex_trace : list (glabel unit unit) :=
  [GTop (ESeed 0); GTop (EDeq 0); GTop (ESpawn 0); GTop (EStart 0); GInit 0] ++ an_run_inline 0 ++
  [GTop (EEnd 0 (Some tt)); GTop (ERel 0); GTop (EDec 0 1); GTop (EEnq 0 1); GTop (EDeq 1); GTop (ESpawn 1);
   GTop (EDec 0 2); GTop (EEnq 0 2); GTop (EDeq 2);
   GTop (EStart 1); GInit 1] ++ an_run_inline 1 ++
  [GTop (EEnd 1 (Some tt)); GTop (ERel 1); GTop (ESpawn 2); GTop (EStart 2); GTop (EEnd 2 None); GTop (ERel 2);
   GTop (EDec 1 3); GTop (EDec 2 3); GTop (EEnq 2 3); GTop (EDeq 3); GTop (ESpawn 3);
   GTop (EDec 1 4); GTop (EStart 3); GTop (EEnd 3 None); GTop (ERel 3); GTop (EDec 3 4); GTop (EEnq 3 4);
   GTop (EDeq 4); GTop (ESpawn 4); GTop EClose; GTop (ERel 4); GTop EExit].

Example ex_trace_valid : valid_trace unit unit ex_gg 1 ex_trace = true.
Proof. vm_compute. reflexivity. Qed.

(* hence it is an execution of the system (hypothesis of exec_once, deps_first, no_deadlock, tokens_conserved) *)
Example ex_is_execution : exists s, grun_rel unit unit false ex_gg 1 ex_trace s /\ gfinal s = true.
Proof. destruct (valid_trace_sound _ _ _ _ _ ex_trace_valid) as [_ [_ [s [H1 [H2 _]]]]]. eauto. Qed.

(* with capacity 2 the analyzers of package 0 can be spawned *)
Example ex_spawn_valid :
  valid_trace unit unit ex_gg 2
    ([GTop (ESeed 0); GTop (EDeq 0); GTop (ESpawn 0); GTop (EStart 0); GInit 0] ++
     firstn 20 (an_run_spawn 0) ++ [GTop (EEnd 0 None); GIn 0 (ERel 2)]) = false.   (* incomplete: not final *)
Proof. vm_compute. reflexivity. Qed.
Example ex_spawn_steps :
  first_reject unit unit true ex_gg 2 (ginit ex_gg 2)
    ([GTop (ESeed 0); GTop (EDeq 0); GTop (ESpawn 0); GTop (EStart 0); GInit 0] ++
     firstn 20 (an_run_spawn 0) ++ [GTop (EEnd 0 None); GIn 0 (ERel 2)]) 0 = None.
Proof. vm_compute. reflexivity. Qed.

(* the checker rejects what the protocol forbids *)
(* a dependent started before its dependency ended *)
Example rej_start_early :
  first_reject unit unit false ex_gg 2 (ginit ex_gg 2)
    [GTop (ESeed 0); GTop (EDeq 0); GTop (ESpawn 0); GTop (EStart 0); GTop (EEnq 0 1)] 0 = Some 4.
Proof. vm_compute. reflexivity. Qed.
(* a trigger enqueued by a decrement that is not the last one (3 has two dependencies) *)
Example rej_early_enqueue :
  first_reject unit unit false ex_gg 4 (ginit ex_gg 4)
    [GTop (ESeed 0); GTop (EDeq 0); GTop (ESpawn 0); GTop (EStart 0); GTop (EEnd 0 (Some tt)); GTop (ERel 0);
     GTop (EDec 0 1); GTop (EEnq 0 1); GTop (EDeq 1); GTop (ESpawn 1); GTop (EStart 1); GTop (EEnd 1 (Some tt)); GTop (ERel 1);
     GTop (EDec 1 3); GTop (EEnq 1 3)] 0 = Some 14.
Proof. vm_compute. reflexivity. Qed.
(* a token released twice *)
Example rej_double_release :
  first_reject unit unit false ex_gg 2 (ginit ex_gg 2)
    [GTop (ESeed 0); GTop (EDeq 0); GTop (ESpawn 0); GTop (EStart 0); GTop (EEnd 0 None); GTop (ERel 0); GTop (ERel 0)] 0 = Some 6.
Proof. vm_compute. reflexivity. Qed.
(* Acquire without a free token *)
Example rej_no_token :
  first_reject unit unit false ex_gg 1 (ginit ex_gg 1)
    [GTop (ESeed 0); GTop (EDeq 0); GTop (ESpawn 0); GTop (EStart 0); GTop (EEnd 0 None); GTop (EDec 0 1)] 0 = Some 5.
Proof. vm_compute. reflexivity. Qed.
(* a sender on the unbuffered queue continues before its message was received *)
Example rej_sender_not_blocked :
  first_reject unit unit false ex_gg 2 (ginit ex_gg 2)
    [GTop (ESeed 0); GTop (EDeq 0); GTop (ESpawn 0); GTop (EStart 0); GTop (EEnd 0 None); GTop (ERel 0);
     GTop (EDec 0 1); GTop (EEnq 0 1); GTop (EDec 0 2)] 0 = Some 8.
Proof. vm_compute. reflexivity. Qed.
(* a skipped action (failed dependency) must end failed *)
Example rej_skip_not_failed :
  first_reject unit unit false ex_gg 2 (ginit ex_gg 2)
    [GTop (ESeed 0); GTop (EDeq 0); GTop (ESpawn 0); GTop (EStart 0); GTop (EEnd 0 None); GTop (ERel 0);
     GTop (EDec 0 1); GTop (EEnq 0 1); GTop (EDeq 1); GTop (ESpawn 1); GTop (EStart 1); GTop (EEnd 1 (Some tt))] 0 = Some 11.
Proof. vm_compute. reflexivity. Qed.

(* the checker with skip bits: package 2 fails while the runner executes (EEnd 2 None); its dependent 3 must be
   skipped; a trace in which 3 ran exec although 2 had failed is rejected at 3's start *)
Definition annot (skip3 : bool) : list (glabel unit unit * bool) :=
  map (fun l => (l, match l with GTop (EStart 3) => skip3 | _ => false end)) ex_trace.
Example ex_skips_ok : valid_trace_skips unit unit ex_top [ex_in] [(0, 0); (1, 0); (2, 0); (3, 0)] 1 (annot true) = true.
Proof. vm_compute. reflexivity. Qed.
Example ex_skip_mismatch :
  grun_skip unit unit false ex_gg 1 (ginit ex_gg 1) (annot false) 0 = inr (64, true).
Proof. vm_compute. reflexivity. Qed.

(* ---- results: exec sums the results of the dependencies, action 2 raises an error ---- *)
Definition ex_dag : dag := dag_of_table ex_top.
Definition ex_exec (a : nat) (m : nat -> option nat) : option nat :=
  if a =? 2 then None else Some (a + fold_right (fun d acc => match m d with Some v => v + acc | None => acc end) 0 (deps ex_dag a)).
Example ex_exec_local : forall a m m', (forall d, In d (deps ex_dag a) -> m d = m' d) -> ex_exec a m = ex_exec a m'.
Proof.
  intros. unfold ex_exec. destruct (a =? 2); auto. f_equal. f_equal.
  induction (deps ex_dag a); simpl; auto. rewrite H by (left; reflexivity). rewrite IHl. reflexivity. intros. apply H. right. assumption.
Qed.
(* the denotation: 0 -> 0, 1 -> 1, 2 fails, 3 is skipped (failed dependency) *)
Example ex_den : map (den ex_dag ex_exec) [0; 1; 2; 3] = [Some 0; Some 1; None; None].
Proof. vm_compute. reflexivity. Qed.

(* a consistent execution of one level reaching the final state (hypotheses of confluence / failed_iff) *)
Definition lrun_fn {R} top strict G (tr : list (label R)) : option (lstate R * nat) :=
  fold_left (fun acc e => match acc with Some (s, f) => step top strict G s f e | None => None end) tr (Some (init G, 2)).
Definition ex_level_trace : list (label nat) :=
  [ESeed 0; EDeq 0; ESpawn 0; EStart 0; EEnd 0 (Some 0); ERel 0; EDec 0 1; EEnq 0 1; EDeq 1; ESpawn 1; EDec 0 2; EEnq 0 2;
   EStart 1; EEnd 1 (Some 1); ERel 1; EDeq 2; ESpawn 2; EStart 2; EEnd 2 None; ERel 2; EDec 1 3; EDec 2 3; EEnq 2 3;
   EDec 1 4; EDeq 3; ESpawn 3; EStart 3; EEnd 3 None; ERel 3; EDec 3 4; EEnq 3 4; EDeq 4; ESpawn 4; EClose; ERel 4; EExit].
Example ex_level_final :
  match lrun_fn true true ex_dag ex_level_trace with
  | Some (s, f) => final s && (f =? 2) && forallb (fun a => match get (res s) a, den ex_dag ex_exec a with
                                                            | Some x, Some y => x =? y | None, None => true | _, _ => false end) [0; 1; 2; 3]
  | None => false
  end = true.
Proof. vm_compute. reflexivity. Qed.

(* ---- output: the regenerated key orders the observed kind of list and is total on it ---- *)
Definition ex_diags : list diag :=
  [[1; 3; 2; 0; 5; 1; 0; 1; 3; 9; 0; 0]; [1; 3; 2; 0; 5; 2; 0; 1; 3; 9; 0; 0]; [1; 4; 1; 0; 2; 1; 0; 1; 4; 5; 0; 0]; [2; 1; 1; 0; 7; 3; 0; 2; 1; 4; 0; 0]]%Z.
Example ex_sorted : sortedb gen_sort_key ex_diags = true /\ key_total gen_sort_key ex_diags.
Proof. split. vm_compute. reflexivity. apply key_totalb_sound. vm_compute. reflexivity. Qed.
(* two entries that differ only in a field the key does not compare would not be ordered by it *)
Example ex_partial_key_not_total : key_totalb [DPosFile; DPosLine] ex_diags = false.
Proof. vm_compute. reflexivity. Qed.
