(* C13: non-vacuity — concrete non-trivial instances. *)
From Coq Require Import List Arith Bool NArith.
Import ListNotations.
Require Import Verif.Model.C13 Verif.Gen.C13_NilnessTable Verif.Model.C13_Nilness Verif.Model.C13_Check.
