(* C13: non-vacuity — concrete non-trivial instances satisfying the hypotheses of each theorem, and evidence that
   the transfer families used by the correspondence check satisfy the theorems' premises. *)
From Coq Require Import List Arith Bool NArith Lia.
Import ListNotations.
Require Import Verif.Model.C13 Verif.Gen.C13_NilnessTable Verif.Model.C13_Nilness Verif.Model.C13_Check.
Require Import Verif.Proofs.C13 Verif.Proofs.C13_Lattices Verif.Proofs.C13_MapLattice Verif.Proofs.C13_Sparse Verif.Proofs.C13_Nilness.

Local Existing Instance BitsSemilattice.

(* an irreducible loop with a self loop, a multi-edge and an unreachable cycle: 0 -> {1,2}, 1 <-> 2, 2 -> 2, 2 -> 3 twice, 4 <-> 5 *)
Definition g1 : list (list nat) := [[1; 2]; [2]; [1; 2; 3; 3]; []; [5]; [4]].
Definition t1 (from to : nat) (x : N) : N := N.lor (N.ldiff x (N.of_nat to)) (N.shiftl 1 (N.of_nat from)).
Definition e1 (b : nat) : option N := match b with 0 => Some 64%N | 2 => Some 255%N (* ignored: 2 has predecessors *) | _ => None end.

Example g1_wf : wf_graph g1.
Proof.
  intros b i Hb Hi. unfold nn in Hb. simpl in Hb.
  do 6 (destruct b as [|b]; [unfold outdeg, succs_of in Hi; simpl in Hi;
         do 4 (destruct i as [|i]; [vm_compute; lia|]); lia |]). lia.
Qed.

(* gen/kill transfer functions are monotone *)
Lemma genkill_mono g k x y : @leq N BitsSemilattice x y -> @leq N BitsSemilattice (N.lor (N.ldiff x k) g) (N.lor (N.ldiff y k) g).
Proof.
  unfold leq, leqb. simpl. rewrite !N.eqb_eq. intros H. apply N.bits_inj. intros n.
  rewrite <- H at 2. rewrite !N.lor_spec, !N.ldiff_spec, !N.lor_spec.
  destruct (N.testbit x n), (N.testbit y n), (N.testbit k n), (N.testbit g n); reflexivity.
Qed.
Example t1_mono : mono_transfer t1.
Proof. intros a b x y H. apply genkill_mono. exact H. Qed.

Definition g1_result (pick : list nat -> nat) : option (list N * bool) :=
  match run g1 t1 pick 200 (init g1 e1) with
  | Some s => Some (result_in g1 s, is_fixpoint_b g1 t1 e1 (get_in s) (get_out s))
  | None => None
  end.
Example g1_runs_fifo_lifo_heap :
  g1_result (fun w => hd 0 w) = Some ([64; 71; 71; 68; 48; 48]%N, true) /\
  g1_result (fun w => last w 0) = Some ([64; 71; 71; 68; 48; 48]%N, true) /\
  g1_result (pick_heap g1) = Some ([64; 71; 71; 68; 48; 48]%N, true).
Proof. repeat split; vm_compute; reflexivity. Qed.

(* ranked lattice instances for dense_terminates: bitsets of width w, the nilness lattice *)
Example nilness_is_ranked :
  (forall a, nil_rank a <= nil_height) /\ (forall a b : nilness, leq a b -> eqv b a = false -> nil_rank a < nil_rank b).
Proof. exact (conj nil_rank_bound nil_rank_strict). Qed.

(* the sparse harness transfer family satisfies the premise of sparse_fixpoint_least (reads only operands) *)
Lemma sc_tself_reads_ops c i (m m' : nat -> N) :
  (forall v, In v (ops_of (sc_instrs c) i) -> m v = m' v) -> sc_tself c i m = sc_tself c i m'.
Proof.
  intros H. unfold sc_tself. destruct (nth i (sc_desc c) TNone); auto.
  - f_equal. f_equal. f_equal.
    generalize 0%N. induction (ops_of (sc_instrs c) i) as [|e l IH]; intros acc; simpl; auto.
    rewrite (H e) by (simpl; auto). apply IH. intros v Hv. apply H. simpl; auto.
  - destruct (ops_of (sc_instrs c) i); auto. rewrite (H n) by (simpl; auto). reflexivity.
  - assert (E : fold_left (fun acc v => N.lor acc (m v)) (ops_of (sc_instrs c) i) 0%N =
                fold_left (fun acc v => N.lor acc (m' v)) (ops_of (sc_instrs c) i) 0%N).
    { generalize 0%N. induction (ops_of (sc_instrs c) i) as [|e l IH]; intros acc; simpl; auto.
      rewrite (H e) by (simpl; auto). apply IH. intros v Hv. apply H. simpl; auto. }
    cbv zeta. rewrite E. reflexivity.
Qed.

(* a loop through a phi: v0 = gen; v1 = phi(v0, v2); v2 = v1 + gen *)
Definition sc1 : scase :=
  mkSC [([3], false); ([0; 2], true); ([1], false)] [TGen 1 0; TNone; TGen 4 2] [(3, 2%N)] [] false.
Example sc1_solution :
  sparse_model sc1 (fun w => hd 0 w) = Some [3; 7; 5]%N /\ sparse_model sc1 (fun w => last w 0) = Some [3; 7; 5]%N.
Proof. split; vm_compute; reflexivity. Qed.

(* MapLattice: well-formed maps over the flat constant lattice *)
Example map_wf_examples :
  @map_wf N FlatSemilattice [(1, 3%N); (4, 255%N)] = true /\ @map_wf N FlatSemilattice [(1, 0%N)] = false /\
  @map_merge N FlatSemilattice [(1, 3%N); (4, 2%N)] [(4, 5%N); (7, 1%N)] = [(1, 3%N); (4, 255%N); (7, 1%N)].
Proof. repeat split; vm_compute; reflexivity. Qed.

(* DenseMapLattice.Equals identifies slices differing by trailing identities, and only those *)
Example dense_equals_examples :
  @dense_equals vn VNSemilattice [(NeverNil, MaybeNil)] [(NeverNil, MaybeNil); (NoNil, NoNil)] = true /\
  @dense_equals vn VNSemilattice [(NeverNil, MaybeNil)] [(NeverNil, MaybeNil); (NoNil, NeverNil)] = false.
Proof. split; vm_compute; reflexivity. Qed.
