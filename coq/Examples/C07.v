(* C07 — non-vacuity: a concrete package-shaped graph meeting every hypothesis of Props/C07.v, and graphs that
   violate each hypothesis / the conclusion (so the boolean checks are not constantly true). *)
From Coq Require Import List NArith Bool Permutation.
Import ListNotations.
Require Import Verif.Model.C17_Graph Verif.Model.C17_Check Verif.Model.C07
               Verif.Proofs.C17_Graph Verif.Proofs.C17 Verif.Proofs.C07.
Open Scope N_scope.

(* 0 root; 1 = func F (exported, used by root) owns its local 2 and uses it and 3; 3 = type t, owns field 4, F uses 4;
   5 = func dead (reported) owns local type 6 (quiet) which owns field 7 (quiet); dead uses 3 and 8; 8 = func helper,
   only used by dead: reported. *)
Definition ex : cgraph :=
  [([1], []); ([2; 3; 4], [2]); ([], []); ([], [4]); ([], []); ([6; 3; 8], [6]); ([7], [7]); ([], []); ([], [])].
Example ex_verdicts : verdicts (of_cgraph ex) = [Used; Used; Used; Used; Used; Unused; Quiet; Quiet; Unused].
Proof. vm_compute. reflexivity. Qed.

(* identifiers: in F: refs to local 2, type 3, field 4; in local 2's declaration (inside F): type 3, with the edge
   carried by the owner F; in dead: 6, 3, 8; in 6: 7 *)
Definition ex_refs : list ref := [(1, 1, 2); (1, 1, 3); (1, 1, 4); (2, 1, 3); (5, 5, 6); (5, 5, 3); (5, 5, 8); (6, 6, 7)].
Example ex_cover : edges_cover_refsb (of_cgraph ex) ex_refs = true. Proof. vm_compute. reflexivity. Qed.
Example ex_rooted : rootedb (of_cgraph ex) = true. Proof. vm_compute. reflexivity. Qed.
Example ex_inner : inner_okb (of_cgraph ex) ex_refs = true. Proof. vm_compute. reflexivity. Qed.
Example ex_safe : deletion_safe (of_cgraph ex) ex_refs /\ deletion_safe_b (of_cgraph ex) ex_refs = true.
Proof. apply checked_graph_is_deletion_safe; vm_compute; reflexivity. Qed.
Example ex_deleted : map (deletedb (of_cgraph ex)) (all_nodes 9) = [false; false; false; false; false; true; true; true; true].
Proof. vm_compute. reflexivity. Qed.
Example ex_zero : no_incoming_b ex 5 = true /\ no_incoming_b ex 8 = false. Proof. vm_compute. split; reflexivity. Qed.
Example ex_ranked : rooted (of_cgraph ex).
Proof.
  apply (quiet_has_unused_root (of_cgraph ex) (fun x => if (x =? 2) || (x =? 4) || (x =? 6) then 1%nat else if x =? 7 then 2%nat else 0%nat)).
  intros u v Hu Hv Hin. cbn [of_cgraph gn length] in Hu, Hv.
  assert (Hc : In u (all_nodes 9)) by (apply in_all_nodes; exact Hu).
  vm_compute in Hc. cbn [of_cgraph gowns] in Hin.
  repeat (destruct Hc as [<-|Hc]; [vm_compute in Hin; repeat (destruct Hin as [<-|Hin]; [vm_compute; auto with arith|]); try contradiction|]);
    contradiction.
Qed.

(* a missed edge (F's use of field 4 not recorded): the field is reported although an identifier in kept code refers to it *)
Definition bad : cgraph :=
  [([1], []); ([2; 3], [2]); ([], []); ([], [4]); ([], []); ([6; 3; 8], [6]); ([7], [7]); ([], []); ([], [])].
Example bad_cover : edges_cover_refsb (of_cgraph bad) ex_refs = false. Proof. vm_compute. reflexivity. Qed.
Example bad_unsafe : deletion_safe_b (of_cgraph bad) ex_refs = false. Proof. vm_compute. reflexivity. Qed.
(* an ownership cycle among unseen nodes: both quiet, neither inside a reported object *)
Example cyc_not_rooted : rootedb (of_cgraph [([], []); ([], [2]); ([], [1])]) = false. Proof. vm_compute. reflexivity. Qed.
(* a used field of a reported type, referred to from kept code: the inner-reference hypothesis fails *)
Definition inner_bad : cgraph := [([1], []); ([3], []); ([], [3]); ([], [])].
Example inner_bad_fails : inner_okb (of_cgraph inner_bad) [(1, 1, 3)] = false /\ deletion_safe_b (of_cgraph inner_bad) [(1, 1, 3)] = false.
Proof. vm_compute. split; reflexivity. Qed.

(* cases as written by the harness *)
Definition ex_case : caseD :=
  mkD (mkG (combine [100; 101; 102; 103; 104; 105; 106; 107; 108] ex)
           ([101; 102; 103; 104], [105; 108], [106; 107]) ([101; 102; 103; 104], [105; 108], [106; 107]))
      ex_refs [] [105].
Example ex_case_ok : caseD_mismatch ex_case = [] /\ caseD_violation ex_case = [].
Proof. vm_compute. split; reflexivity. Qed.
(* implementation that forgets to report 108 although nothing refers to it / reports 104 although F refers to it *)
Example ex_case_viol :
  caseD_violation (mkD (mkG (combine [100; 101; 102; 103; 104; 105; 106; 107; 108] ex)
                            ([101; 102; 103], [105; 104], [106; 107; 108]) ([], [], [])) ex_refs [(1, 1, 4)] [105; 108])
  = [DDangling 2; DDanglingWrite 0; DNotReported 108].
Proof. vm_compute. reflexivity. Qed.
