(* C09: non-vacuity — concrete non-trivial instances of the hypotheses and conclusions of the theorems,
   and the historical defects as instances where a premise fails and the conclusion with it. *)
From Coq Require Import List String ZArith NArith Bool.
Import ListNotations.
Require Import Verif.Model.C09_Types Verif.Gen.C09_Matcher Verif.Model.C09 Verif.Model.C09_Check
               Verif.Proofs.C09_Frames.
Open Scope string_scope.

(* (BinaryExpr z@(Ident _) "+" (Or (CallExpr (Binding "x" (Ident _)) []) (CallExpr _ _))) on a + f(1),
   with the indices the repaired parser assigns: z=0, x=1 *)
Definition p_f3 (ix : nat) : pat :=
  pbin_ (PBinding "z" 0 (pid_ PAny)) (PString "+")
        (POr [pcall_ (PBinding "x" ix (pid_ PAny)) (PList PNone PNone); pcall_ PAny PAny]).

(* premise of impl_sound holds and the conclusion is non-trivial: success with a non-empty State *)
Example f3_premise : idx_inj_b ["z"; "x"] (p_f3 1) = true.
Proof. reflexivity. Qed.
Example f3_repaired :
  run_impl gen_cfg no_oracle ["z"; "x"] 50 50 (p_f3 1) t_a_plus_f1 = RDone true t_a_plus_f1 [("z", id_ "a")].
Proof. vm_compute. reflexivity. Qed.
Example f3_spec :
  run_spec gen_cfg no_oracle 50 50 (p_f3 1) t_a_plus_f1 = RDone true t_a_plus_f1 [("z", id_ "a")].
Proof. vm_compute. reflexivity. Qed.
(* the defect F3: the parser gave the explicit Binding index 0 -> premise idx_inj fails, x leaks, z is lost *)
Example f3_premise_fails : idx_inj_b ["z"; "x"] (p_f3 0) = false.
Proof. reflexivity. Qed.
Example f3_defect :
  run_impl gen_cfg no_oracle ["z"; "x"] 50 50 (p_f3 0) t_a_plus_f1 = RDone true t_a_plus_f1 [("x", id_ "f")].
Proof. vm_compute. reflexivity. Qed.

(* the frame invariant is satisfiable in a non-initial situation: one name bound before the frame, one in it *)
Example frame_inv_instance :
  frame_inv ["z"; "x"] [("z", id_ "a")] [("z", id_ "a"); ("x", id_ "f")] 2%N.
Proof.
  exists [("x", id_ "f")]. split; [reflexivity|]. split.
  - repeat constructor; simpl; intuition discriminate.
  - split.
    + intros n [<-|[]]. exists 1. split; reflexivity.
    + intros i Hi. destruct i as [|[|i]]; try discriminate.
      * exists "x". split; [reflexivity|left; reflexivity].
      * exfalso. change 2%N with (bit 1) in Hi. rewrite testbit_bit in Hi by (repeat constructor). discriminate.
Qed.

(* the code shape obligations, and what happens when they fail (the three historical matcher shapes) *)
Definition cfg_not_unframed := mkCfg (cfg_unwrap_left gen_cfg) (cfg_unwrap_right gen_cfg)
  [OpPush] [OpMerge] [OpPop] [] [] true (cfg_tokens gen_cfg) (cfg_expr_types gen_cfg) (cfg_stmt_types gen_cfg).
Definition cfg_merge_drops := mkCfg (cfg_unwrap_left gen_cfg) (cfg_unwrap_right gen_cfg)
  [OpPush] [OpMerge] [OpPop] [OpPush] [OpPop] false (cfg_tokens gen_cfg) (cfg_expr_types gen_cfg) (cfg_stmt_types gen_cfg).
Definition cfg_or_no_pop := mkCfg (cfg_unwrap_left gen_cfg) (cfg_unwrap_right gen_cfg)
  [OpPush] [OpMerge] [OpMerge] [OpPush] [OpPop] true (cfg_tokens gen_cfg) (cfg_expr_types gen_cfg) (cfg_stmt_types gen_cfg).

Example no_cex_now : find_cex gen_cfg = [].
Proof. vm_compute. reflexivity. Qed.
Example cex_not_unframed : cfg_ok cfg_not_unframed = false /\ find_cex cfg_not_unframed = [0; 4].
Proof. split; vm_compute; reflexivity. Qed.
Example cex_merge_drops : cfg_ok cfg_merge_drops = false /\ find_cex cfg_merge_drops = [2].
Proof. split; vm_compute; reflexivity. Qed.
Example cex_or_no_pop : cfg_ok cfg_or_no_pop = false /\ find_cex cfg_or_no_pop <> [].
Proof. split; vm_compute; [reflexivity|discriminate]. Qed.

(* recall: x@(Ident _) + x matches a + a through the value-against-value comparison, not a + b *)
Definition p_recall := pbin_ (bx (pid_ PAny)) (PString "+") (bx PNone).
Example recall_equal :
  run_spec gen_cfg no_oracle 50 50 p_recall (bin_ (id_ "a") 12 (id_ "a")) = RDone true (bin_ (id_ "a") 12 (id_ "a")) [("x", id_ "a")].
Proof. vm_compute. reflexivity. Qed.
Example recall_unequal :
  exists v s, run_spec gen_cfg no_oracle 50 50 p_recall t_a_plus_b = RDone false v s.
Proof. eexists. eexists. vm_compute. reflexivity. Qed.
(* F18 (not a C09 violation, modelled faithfully): a recalled STRING never matches *)
Example recall_string_never :
  exists v s, run_impl gen_cfg no_oracle ["x"] 50 50 (pbin_ (pid_ (bx PNone)) (PString "+") (pid_ (bx PNone)))
                       (bin_ (id_ "a") 12 (id_ "a")) = RDone false v s.
Proof. eexists. eexists. vm_compute. reflexivity. Qed.

(* the two spellings *)
Example spelling_instance :
  norm_pat (pbin_ (PBinding "x" 0 PNil) (PString "+") PAny) = norm_pat (pbin_ (PBinding "x" 0 PNone) (PString "+") PAny).
Proof. reflexivity. Qed.
