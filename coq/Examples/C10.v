(* C10: non-vacuity — concrete instances of the quantified statements with non-trivial values. *)
From Coq Require Import List ZArith Bool String Ascii.
Import ListNotations.
Require Import Verif.Model.C10 Verif.Model.C10_Spec Verif.Proofs.C10.
Open Scope string_scope.
Open Scope Z_scope.

Definition P f l c := mkPos f l c.
Definition d1 := mkDiag (P "a.go" 10 5) "SA4000" "identical expressions" SevError 7.
Definition d2 := mkDiag (P "a.go" 10 15) "S1002" "bool constant" SevError 0.
Definition d3 := mkDiag (P "a.go" 12 2) "SA4000" "identical expressions" SevWarning 0.
Definition d4 := mkDiag (P "b.go" 10 5) "SA4000" "identical expressions" SevError 0.
Definition allowed : allowed_t := [("sa4000", true); ("s1002", true); ("st1003", false); ("u1000", true)].

(* glob, case folding *)
Example glob1 : glob_match (lower "sa40*") (lower "SA4000") = true. Proof. reflexivity. Qed.
Example glob2 : glob_match "s?002" "s1002" = true /\ glob_match "s?002" "sa002x" = false. Proof. split; reflexivity. Qed.
Example glob3 : Matches "s*2" "s1002". Proof. apply glob_match_iff. reflexivity. Qed.
Example glob4 : glob_match "*" "" = true /\ glob_match "" "x" = false /\ glob_match "**a" "bca" = true. Proof. repeat split; reflexivity. Qed.

(* parseDirective *)
Example parse1 : parse_directive "//lint:ignore SA4000,S1002 some reason" = Some ("ignore", ["SA4000,S1002"; "some"; "reason"]).
Proof. reflexivity. Qed.
Example parse2 : parse_directive "//lint:ignore SA4000 " = Some ("ignore", ["SA4000"; ""]). Proof. reflexivity. Qed.
Example parse3 : parse_directive "// lint:ignore SA4000 x" = None. Proof. reflexivity. Qed.
Example reason1 : has_reason ["SA4000"; ""] = false /\ has_reason ["SA4000"] = false /\ has_reason ["SA4000"; ""; "why"] = true.
Proof. repeat split; reflexivity. Qed.

(* a line directive suppresses exactly the named problem on its line in its file; everything else is unchanged *)
Definition dir1 := mkDir "ignore" ["sa4000"; "why"] (P "a.go" 9 2) (P "a.go" 10 2).
Example line_ignore :
  filter_ignored [d1; d2; d3; d4] [dir1] allowed = [set_sev SevIgnored d1; d2; d3; d4].
Proof. reflexivity. Qed.
Example line_ignore_suppresses : suppresses dir1 d1 /\ ~ suppresses dir1 d2 /\ ~ suppresses dir1 d3 /\ ~ suppresses dir1 d4.
Proof.
  split; [apply suppresses_b_iff; reflexivity|].
  split; [|split]; intro H; apply suppresses_b_iff in H; discriminate.
Qed.
(* file-ignore with a glob: the whole file, not the other file *)
Example file_ignore :
  filter_ignored [d1; d2; d3; d4] [mkDir "file-ignore" ["S*"; "generated"] (P "a.go" 1 1) (P "a.go" 2 1)] allowed
  = [set_sev SevIgnored d1; set_sev SevIgnored d2; set_sev SevIgnored d3; d4].
Proof. reflexivity. Qed.
(* no reason: error at the node, nothing suppressed *)
Example no_reason :
  filter_ignored [d1; d2] [mkDir "ignore" ["SA4000"] (P "a.go" 9 2) (P "a.go" 10 2)] allowed
  = [d1; d2; mkDiag (P "a.go" 10 2) "compile" msg_malformed SevError 0].
Proof. reflexivity. Qed.
Example empty_reason :
  filter_ignored [d1] [mkDir "ignore" ["SA4000"; ""] (P "a.go" 9 2) (P "a.go" 10 2)] allowed
  = [d1; mkDiag (P "a.go" 10 2) "compile" msg_malformed SevError 0].
Proof. reflexivity. Qed.
(* a directive that matches nothing is reported at the comment; not when it names only disabled checks or U1000 *)
Definition dir2 := mkDir "ignore" ["S1002,XY12"; "why"] (P "a.go" 11 2) (P "a.go" 12 2).
Example unmatched :
  filter_ignored [d1; d3] [dir2] allowed = [d1; d3; unmatched_diag (P "a.go" 11 2)].
Proof. reflexivity. Qed.
Example unmatched_glob :
  filter_ignored [d3] [mkDir "ignore" ["S1*"; "why"] (P "a.go" 11 2) (P "a.go" 12 2)] allowed = [d3; unmatched_diag (P "a.go" 11 2)].
Proof. reflexivity. Qed.
Example unmatched_disabled_or_u1000 :
  filter_ignored [d3] [mkDir "ignore" ["ST1003,U1000,U*"; "why"] (P "a.go" 11 2) (P "a.go" 12 2)] allowed = [d3].
Proof. reflexivity. Qed.
(* hypotheses of unmatched_reported_iff_partial are satisfiable with a true conclusion *)
Example dir2_u1000_free : u1000_free dir2.
Proof. intros c [<-|[<-|[]]]; reflexivity. Qed.
Example dir2_must_report : must_report allowed [d1; d3] dir2.
Proof. apply report_sound. reflexivity. Qed.
(* the hypothesis of filter_ignored_is_spec holds for a non-trivial directive list *)
Example all_free : forall d, In d [dir1; dir2] -> u1000_free d.
Proof.
  intros d [<-|[<-|[]]]; [|exact dir2_u1000_free]. intros c [<-|[]]. reflexivity.
Qed.
(* unknown commands are not directives of this kind *)
Example unknown_cmd :
  filter_ignored [d1] [mkDir "nolint" ["SA4000"; "x"] (P "a.go" 9 2) (P "a.go" 10 2)] allowed = [d1].
Proof. reflexivity. Qed.

(* U1000 *)
Example u1000_line :
  u1000_ignored [mkDir "ignore" ["u*"; "kept for later"] (P "a.go" 4 1) (P "a.go" 5 1)] (P "a.go" 5 6) = true /\
  u1000_ignored [mkDir "ignore" ["u*"; "kept for later"] (P "a.go" 4 1) (P "a.go" 5 1)] (P "a.go" 6 6) = false /\
  u1000_ignored [mkDir "file-ignore" ["SA4000,U1000"; "x"] (P "a.go" 1 1) (P "a.go" 2 1)] (P "a.go" 60 6) = true /\
  u1000_ignored [mkDir "ignore" ["U1000"] (P "a.go" 4 1) (P "a.go" 5 1)] (P "a.go" 5 6) = false.
Proof. repeat split; reflexivity. Qed.
