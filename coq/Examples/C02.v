(* C02: non-vacuity — a concrete function with an irreducible loop, phis, a Defer and a Recover block that
   [wf_ssa] accepts (so the hypotheses of the theorems are satisfiable), walks through it, and small
   corruptions of it that are rejected with the expected clause. *)
From Coq Require Import List NArith Bool. Import ListNotations.
Require Import Verif.Lib.Graphs Verif.Model.C02 Verif.Proofs.C02_Paths Verif.Proofs.C02_Main.
Local Open Scope N_scope.

(* types: 1 int, 2 bool, 3 *int, 4 func() *)
Definition Tx : tytable :=
  [mkT TBasic 1 1 0 0 [] [] [] false 2; mkT TBasic 2 2 0 0 [] [] [] false 1;
   mkT TPointer 3 3 1 0 [] [] [] false 0; mkT TSig 4 4 0 0 [] [] [] false 0].

(* func(p0 int, p1 bool) int
   0: t0 = new int; *t0 = p0; defer g(); if p1 goto 1 else 2
   1: t4 = phi [0: p0, 2: t7]; t5 = t4 + c; jump 2
   2: t7 = phi [0: p0, 1: t5]; t8 = t7 < c; if t8 goto 1 else 3          (1 <-> 2: irreducible, entered at both)
   3: t10 = *t0; return t10
   4 (recover): t12 = *t0; return t12 *)
Definition b0 := mkB 0 [] [1;2]
  [mkI 0 1 KAlloc [] (Some [1;10;12]) 3 [1]; mkI 1 2 KStore [(VI 0,3);(VP 0,1)] None 0 [];
   mkI 2 3 KDefer [(VFn,4);(VN,0)] None 0 [0;0;0]; mkI 3 4 KIf [(VP 1,2)] None 0 []].
Definition b1 := mkB 1 [0;2] [2]
  [mkI 4 5 KPhi [(VP 0,1);(VI 7,1)] (Some [5]) 1 []; mkI 5 6 KBinOp [(VI 4,1);(VC,1)] (Some [7]) 1 [0];
   mkI 6 7 KJump [] None 0 []].
Definition b2 := mkB 2 [0;1] [1;3]
  [mkI 7 8 KPhi [(VP 0,1);(VI 5,1)] (Some [8;4]) 1 []; mkI 8 9 KBinOp [(VI 7,1);(VC,1)] (Some [9]) 2 [2];
   mkI 9 10 KIf [(VI 8,2)] None 0 []].
Definition b3 := mkB 3 [2] []
  [mkI 10 11 KLoad [(VI 0,3)] (Some [11]) 1 []; mkI 11 12 KReturn [(VI 10,1)] None 0 []].
Definition b4 := mkB 4 [] []
  [mkI 12 13 KLoad [(VI 0,3)] (Some [13]) 1 []; mkI 13 14 KReturn [(VI 12,1)] None 0 []].
Definition fx := mkF [b0; b1; b2; b3; b4] (Some 4) [mkL 1 [1;4;7]; mkL 2 [3]] [] [] [1].

Example fx_accepted : wf_ssa Tx fx = true.
Proof. vm_compute. reflexivity. Qed.

Ltac edge_tac := unfold cedge, blk, nth_N; simpl; tauto.

(* a walk twice around the irreducible loop to the use in block 3 *)
Example fx_walk : exists h, ipath fx (3, 0) h /\ length h = 13%nat.
Proof.
  eexists. split.
  - apply (ip_edge fx 2 2 3); [|reflexivity|edge_tac].
    apply (ip_next fx 2 1); [|reflexivity]. apply (ip_next fx 2 0); [|reflexivity].
    apply (ip_edge fx 1 2 2); [|reflexivity|edge_tac].
    apply (ip_next fx 1 1); [|reflexivity]. apply (ip_next fx 1 0); [|reflexivity].
    apply (ip_edge fx 2 2 1); [|reflexivity|edge_tac].
    apply (ip_next fx 2 1); [|reflexivity]. apply (ip_next fx 2 0); [|reflexivity].
    apply (ip_edge fx 0 3 2); [|reflexivity|edge_tac].
    apply (ip_next fx 0 2); [|reflexivity]. apply (ip_next fx 0 1); [|reflexivity]. apply (ip_next fx 0 0); [|reflexivity].
    apply ip_entry.
  - reflexivity.
Qed.

(* a recovered panic: after the Defer at (0,2) control may resume at the Recover block from anywhere *)
Example fx_panic_walk : ipath fx (4, 0) [(1, 0); (0, 3); (0, 2); (0, 1); (0, 0)].
Proof.
  apply (ip_panic fx 1 0 4); [|reflexivity|].
  - apply (ip_edge fx 0 3 1); [|reflexivity|edge_tac].
    apply (ip_next fx 0 2); [|reflexivity]. apply (ip_next fx 0 1); [|reflexivity]. apply (ip_next fx 0 0); [|reflexivity].
    apply ip_entry.
  - exists (0, 2). split; [simpl; tauto|]. eexists. split; reflexivity.
Qed.

(* the theorem applied: the Load in the Recover block has its operand defined on that walk *)
Example fx_recover_use : exists D k idef,
  instr_at fx D k = Some idef /\ i_seq idef = 0 /\ In (D, k) [(1, 0); (0, 3); (0, 2); (0, 1); (0, 0)].
Proof.
  destruct (wf_def_before_use Tx fx fx_accepted 4 0 (mkI 12 13 KLoad [(VI 0,3)] (Some [13]) 1 []) 0 3)
    as (D & k & idef & Hat & Hseq & _ & Hall); [reflexivity|reflexivity|simpl; tauto|].
  exists D, k, idef. repeat split; auto. apply Hall. exact fx_panic_walk.
Qed.

(* corruptions *)
Definition with_block (k : nat) (b : block) : func :=
  mkF (firstn k (f_blocks fx) ++ b :: skipn (S k) (f_blocks fx)) (f_rec fx) (f_params fx) (f_free fx) (f_anons fx) (f_results fx).

(* use not dominated by its definition: block 3 loads through t5, defined in block 1 *)
Example bad_use_not_dominated :
  wf_diag Tx (with_block 3 (mkB 3 [2] [] [mkI 10 11 KLoad [(VI 5,3)] (Some [11]) 1 []; mkI 11 12 KReturn [(VI 10,1)] None 0 []]))
  <> [].
Proof. vm_compute. discriminate. Qed.
(* the Recover block may not use a value defined after the first Defer *)
Example bad_recover_use_dominance :
  existsb (fun c => match c with CDominance 12 => true | _ => false end)
    (wf_diag Tx (mkF [mkB 0 [] [1;2]
                       [mkI 0 1 KAlloc [] (Some [1;10]) 3 [1]; mkI 1 2 KStore [(VI 0,3);(VP 0,1)] None 0 [];
                        mkI 2 3 KDefer [(VFn,4);(VN,0)] None 0 [0;0;0]; mkI 3 4 KIf [(VP 1,2)] None 0 []];
                      b1; b2; mkB 3 [2] [] [mkI 10 11 KLoad [(VI 0,3)] (Some [11;12]) 1 []; mkI 11 12 KReturn [(VI 10,1)] None 0 []];
                      mkB 4 [] [] [mkI 12 13 KBinOp [(VI 10,1);(VC,1)] (Some [13]) 1 [0]; mkI 13 14 KReturn [(VI 12,1)] None 0 []]]
                     (Some 4) [mkL 1 [1;4;7]; mkL 2 [3]] [] [] [1])) = true.
Proof. vm_compute. reflexivity. Qed.
(* phi edge dropped when a predecessor remains *)
Example bad_phi_edge_dropped :
  wf_diag Tx (with_block 1 (mkB 1 [0;2] [2] [mkI 4 5 KPhi [(VP 0,1)] (Some [5]) 1 []; mkI 5 6 KBinOp [(VI 4,1);(VC,1)] (Some [7]) 1 [0]; mkI 6 7 KJump [] None 0 []]))
  = [CPhiShape 1].
Proof. vm_compute. reflexivity. Qed.
(* predecessor list not updated *)
Example bad_preds :
  hd CNumbering (wf_diag Tx (with_block 3 (mkB 3 [] [] (b_instrs b3)))) = CPredSucc 2.
Proof. vm_compute. reflexivity. Qed.
(* a referrer not recorded *)
Example bad_referrer_missing :
  wf_diag Tx (with_block 0 (mkB 0 [] [1;2]
    [mkI 0 1 KAlloc [] (Some [1;10]) 3 [1]; mkI 1 2 KStore [(VI 0,3);(VP 0,1)] None 0 [];
     mkI 2 3 KDefer [(VFn,4);(VN,0)] None 0 [0;0;0]; mkI 3 4 KIf [(VP 1,2)] None 0 []])) = [CReferrers 0].
Proof. vm_compute. reflexivity. Qed.
(* Store of a bool through *int *)
Example bad_store_type :
  wf_diag Tx (mkF [mkB 0 [] [1;2]
    [mkI 0 1 KAlloc [] (Some [1;10;12]) 3 [1]; mkI 1 2 KStore [(VI 0,3);(VP 1,2)] None 0 [];
     mkI 2 3 KDefer [(VFn,4);(VN,0)] None 0 [0;0;0]; mkI 3 4 KIf [(VP 1,2)] None 0 []]; b1; b2; b3; b4]
    (Some 4) [mkL 1 [4;7]; mkL 2 [1;3]] [] [] [1]) = [CType 1].
Proof. vm_compute. reflexivity. Qed.
(* a block that does not end in a terminator *)
Example bad_terminator :
  existsb (fun c => match c with CTerminator 3 => true | _ => false end)
          (wf_diag Tx (with_block 3 (mkB 3 [2] [] [mkI 10 11 KLoad [(VI 0,3)] (Some [11]) 1 []; mkI 11 12 KBlankStore [(VI 10,1)] None 0 []]))) = true.
Proof. vm_compute. reflexivity. Qed.
