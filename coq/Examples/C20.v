(* C20: non-vacuity — concrete instances of the quantified statements with non-trivial values. *)
From Coq Require Import List ZArith Bool.
Import ListNotations.
Require Import Verif.Model.C20_Types Verif.Gen.C20_ReportOpts Verif.Model.C20.
Open Scope Z_scope.

(* a maximum-language bound caps: bound go1.21, file at go1.22 -> not reported *)
Example max_lang_caps : report_impl gen_setters gen_gates [(BMaxLang, (1, 21))] (1, 22) (1, 22) = false.
Proof. reflexivity. Qed.
(* ... and does not raise the minimum: file at go1.20 -> reported *)
Example max_lang_no_min : report_impl gen_setters gen_gates [(BMaxLang, (1, 21))] (1, 20) (1, 20) = true.
Proof. reflexivity. Qed.
(* last setter wins *)
Example last_wins : report_impl gen_setters gen_gates [(BMinStd, (1, 25)); (BMinStd, (1, 18))] (1, 20) (1, 20) = true.
Proof. reflexivity. Qed.
(* go1.20 module, file tagged go1.18: stdlib version is the tag; language version max(tag, 1.21) *)
Example old_module_tag : file_std (1, 20) (Some (1, 18)) = (1, 18) /\ file_lang (1, 20) (Some (1, 18)) = (1, 21).
Proof. split; reflexivity. Qed.
Example new_module_tag : file_std (1, 22) (Some (1, 18)) = (1, 22).
Proof. reflexivity. Qed.
(* the counterexample search finds nothing on the current tables *)
Example no_cex_now : find_cex gen_setters gen_gates = [].
Proof. vm_compute. reflexivity. Qed.
(* ... and finds the historical defect (MaximumLanguageVersion wrote MinimumLanguageVersion) *)
Example cex_on_old_bug :
  find_cex [(BMinLang, FMinLang); (BMaxLang, FMinLang); (BMinStd, FMinStd); (BMaxStd, FMaxStd)] gen_gates <> [].
Proof. vm_compute. discriminate. Qed.
