(* C08: non-vacuity — concrete instances of the hypotheses and conclusions of the theorems, and the
   historical defects as tables on which the obligations fail. *)
From Coq Require Import List String ZArith NArith Bool.
Import ListNotations.
Require Import Verif.Model.C09_Types Verif.Gen.C09_Matcher Verif.Model.C09 Verif.Model.C09_Check
               Verif.Model.C08_Types Verif.Gen.C08_Tables Verif.Model.C08 Verif.Model.C08_Check.
Open Scope string_scope.

(* entry_sound instance: (Or (CallExpr f _) (Not (Ident _))) matches the BinaryExpr a + b (through Not);
   its kind is an entry kind *)
Definition p_or_not := POr [pcall_ (PBinding "f" 0 PNone) PAny; PNot (pid_ PAny)].
Example entry_premises :
  unwrap (cfg_unwrap_right gen_cfg) t_a_plus_b = UNo /\ In "BinaryExpr" (t_all gen_tables) /\ known_pat_b p_or_not = true.
Proof. repeat split; vm_compute; auto 50. Qed.
Example entry_matches :
  ms gen_cfg no_oracle 50 50 p_or_not t_a_plus_b [] = RDone true t_a_plus_b [].
Proof. vm_compute. reflexivity. Qed.
Example entry_conclusion : mem "BinaryExpr" (entry_kinds gen_tables p_or_not) = true.
Proof. vm_compute. reflexivity. Qed.
(* entry kinds of an ordinary pattern are small: the restriction is not trivial *)
Example entry_small : entry_kinds gen_tables (pcall_ (PTypeAware "Symbol" (PString "fmt.Println")) PAny) = ["CallExpr"].
Proof. vm_compute. reflexivity. Qed.

(* the historical tables: Not recursing into its operand (F5), Symbol's row without IndexExpr (F20) *)
Definition tables_not_rec := mkTables gen_all_types gen_rows
  [("Or", ERecList "Nodes"); ("Not", ERec "Node"); ("Binding", ERec "Node"); ("Nil", EAll); ("nil", EAll); ("default", ETable)] gen_sym_beh.
Example f5_obligation_fails : tables_ok tables_not_rec = false.
Proof. vm_compute. reflexivity. Qed.
Example f5_witness :
  ms gen_cfg no_oracle 50 50 (PNot (pid_ (PString "x"))) t_a_plus_b [] = RDone true t_a_plus_b [] /\
  mem "BinaryExpr" (entry_kinds tables_not_rec (PNot (pid_ (PString "x")))) = false.
Proof. split; vm_compute; reflexivity. Qed.
Definition tables_symbol_row := mkTables gen_all_types
  (("Symbol", ["Ident"; "SelectorExpr"]) :: gen_rows) gen_entry_beh gen_sym_beh.
Example f20_obligation_fails : tables_ok tables_symbol_row = false.
Proof. vm_compute. reflexivity. Qed.

(* symbolToIndexSymbol *)
Example sym_of_func : sym_of "net/url.PathEscape" = SSym "net/url" "" "PathEscape".
Proof. vm_compute. reflexivity. Qed.
Example sym_of_method : sym_of "(*bytes.Buffer).String" = SSym "bytes" "Buffer" "String".
Proof. vm_compute. reflexivity. Qed.
Example sym_of_builtin : sym_of "len" = SSym "" "" "len".
Proof. vm_compute. reflexivity. Qed.

(* symbols_sound instance: the package does not reference fmt.Println -> rejected; with the oracle that
   resolves nothing the pattern indeed matches nothing. And the pre-filter is not trivially true. *)
Definition p_println := pcall_ (PTypeAware "Symbol" (PString "fmt.Println")) PAny.
Example symbols_pattern : collect gen_tables p_println false = SSym "fmt" "" "Println".
Proof. vm_compute. reflexivity. Qed.
Example could_rejects : could gen_could_empty_path_any (fun _ _ _ => false) (collect gen_tables p_println false) = false.
Proof. vm_compute. reflexivity. Qed.
Example could_accepts :
  could gen_could_empty_path_any (fun p _ i => String.eqb p "fmt" && String.eqb i "Println") (collect gen_tables p_println false) = true.
Proof. vm_compute. reflexivity. Qed.
(* F16: a builtin symbol has an empty path; with the repaired CouldMatchAny it is always present *)
Example builtin_present :
  could true (fun _ _ _ => false) (collect gen_tables (pcall_ (PTypeAware "Symbol" (PString "len")) PAny) false) = true /\
  could false (fun _ _ _ => false) (collect gen_tables (pcall_ (PTypeAware "Symbol" (PString "len")) PAny) false) = false.
Proof. split; vm_compute; reflexivity. Qed.
(* the oracle hypotheses of symbols_sound are satisfiable by an oracle that does resolve something *)
Definition orc1 : oracle := mkOracle (fun _ => None)
  (fun k rv => if String.eqb k "Symbol" then Some (VObj 1, Some (VStr "fmt.Println")) else None).
Example oracle_hyp_instance :
  forall rv obj o, o_ta orc1 "Symbol" rv = Some (obj, o) ->
    exists nm, o = Some (VStr nm) /\
      could true (fun p _ i => String.eqb p "fmt" && String.eqb i "Println") (sym_of nm) = true.
Proof. intros rv obj o H. vm_compute in H. inversion H; subst. exists "fmt.Println". split; reflexivity. Qed.
Example oracle_match :
  exists v s, ms gen_cfg orc1 50 50 p_println (call_ (id_ "p") []) [] = RDone true v s.
Proof. eexists. eexists. vm_compute. reflexivity. Qed.

(* root call symbols *)
Example root_calls : root_call_names (pcall_ (PBinding "fn" 0 (POr [PTypeAware "Symbol" (PString "a.F"); PTypeAware "Symbol" (POr [PString "b.G"; PString "c.H"])])) PAny)
                     = ["a.F"; "b.G"; "c.H"].
Proof. vm_compute. reflexivity. Qed.

(* kinds outside allTypes: Symbol next to a start-anywhere alternative keeps IndexListExpr as an entry kind *)
Definition p_any_or_sym := POr [PAny; PTypeAware "Symbol" (PString "example.com/m/lib.Pair")].
Example extra_kind_kept :
  mem "IndexListExpr" (entry_kinds gen_tables p_any_or_sym) = true /\ mem "IndexListExpr" (t_all gen_tables) = false /\
  tight gen_tables (PTypeAware "Symbol" (PString "example.com/m/lib.Pair")) = true /\ tight gen_tables p_any_or_sym = false.
Proof. repeat split; vm_compute; reflexivity. Qed.
(* a mixed callee has no root call symbols *)
Example mixed_callee : root_call_names (pcall_ (POr [PTypeAware "Symbol" (PString "a.F"); pid_ (PString "f")]) PAny) = [].
Proof. vm_compute. reflexivity. Qed.
