(* C04: non-vacuity.  A concrete instance (naturals; identity as injective hash; an analysis that depends on
   exactly the assumed-relevant dimensions and can fail) satisfies every hypothesis of the theorems of
   Props/C04.v, and concrete histories show that the statements are not trivially true. *)
From Coq Require Import List String Bool Arith Lia.
Import ListNotations.
Require Import Verif.Model.C04_Types Verif.Gen.C04_CacheKey Verif.Model.C04 Verif.Model.C04_Check
               Verif.Proofs.C04 Verif.Props.C04.
Open Scope string_scope.

(* the hypotheses are satisfiable *)
Lemma Hn_inj : forall a b, Hn a = Hn b -> a = b.
Proof. intros a b E. exact E. Qed.

Lemma get_valn (i i' : inp nat nat) d : get i d = get i' d -> valn i d = valn i' d.
Proof.
  destruct d; simpl; intro E; try (injection E as E; exact E).
  injection E as E. rewrite E. reflexivity.
Qed.
Lemma analyse_n_relevant L :
  forall i i', (forall d, In d L -> get i d = get i' d) -> analyse_n L i = analyse_n L i'.
Proof.
  intros i i' Hd. unfold analyse_n.
  assert (E : fold_right (fun d a => valn i d + a) 0 L = fold_right (fun d a => valn i' d + a) 0 L).
  { induction L as [|d L IH]; simpl; [reflexivity|].
    rewrite (get_valn i i' d (Hd d (or_introl eq_refl))). rewrite IH; [reflexivity|].
    intros d' Hin. apply Hd. right. exact Hin. }
  rewrite E. reflexivity.
Qed.

(* instance of warm_eq_cold: every history over this instance *)
Example warm_eq_cold_instance :
  forall (h : list (hop nat Kn)) (w0 w : world nat),
    snd (run_n key_fields relevant_assumed w
               (snd (after nat nat nat Kn Kn_eq_dec key_fields Hn (analyse_n relevant_assumed) h w0 empty)))
    = ref_run nat nat nat (analyse_n relevant_assumed) w.
Proof.
  intros. apply (warm_eq_reference nat nat nat Kn Kn_eq_dec Hn Hn_inj (analyse_n relevant_assumed)
                                   (analyse_n_relevant relevant_assumed)).
Qed.

(* a concrete history: run; the dependency's sources change (its facts flip); run; revert; run; trim; run *)
Definition hist1 : list (hop nat Kn) :=
  [HRun; HEdit (fun _ => w_flip DepFacts); HRun; HEdit (fun _ => w_base); HRun;
   HTrim (fun k => match k with IV 1 :: _ => true | _ => false end) (fun _ => false); HRun].
Definition cache1 := snd (after nat nat nat Kn Kn_eq_dec key_fields Hn (analyse_n relevant_assumed) hist1 w_base empty).

(* the result of the target really depends on the dependency's facts ... *)
Example facts_matter :
  outs_eqb (ref_run nat nat nat (analyse_n relevant_assumed) w_base)
           (ref_run nat nat nat (analyse_n relevant_assumed) (w_flip DepFacts)) = false.
Proof. vm_compute. reflexivity. Qed.
(* ... the warm run after the history returns the cold result for both worlds ... *)
Example warm_is_cold_concrete :
  outs_eqb (snd (run_n key_fields relevant_assumed (w_flip DepFacts) cache1))
           (snd (run_n key_fields relevant_assumed (w_flip DepFacts) empty)) = true /\
  outs_eqb (snd (run_n key_fields relevant_assumed w_base cache1))
           (snd (run_n key_fields relevant_assumed w_base empty)) = true.
Proof. vm_compute. split; reflexivity. Qed.
(* ... and the cache is really used: a cold run analyses 3 packages, a second run of the same world none,
   a run with another check selection none either *)
Definition count_n (w : world nat) c := analyses nat nat nat Kn Kn_eq_dec key_fields Hn (analyse_n relevant_assumed) w c.
Example cache_is_used :
  count_n w_base empty = 3 /\
  count_n w_base (fst (run_n key_fields relevant_assumed w_base empty)) = 0 /\
  count_n (world3 (set_dim FlagChecks 7 loc1) (set_dim (Cfg "Checks") 9 loc1) (set_dim FlagChecks 7 loc1))
          (fst (run_n key_fields relevant_assumed w_base empty)) = 0 /\
  count_n (w_flip FlagGo) (fst (run_n key_fields relevant_assumed w_base empty)) = 3.
Proof. vm_compute. repeat split; reflexivity. Qed.

(* a failing package is never stored and fails again; its dependents fail with it *)
Definition w_fail : world nat :=
  world3 (fun _ => 0) loc1 loc1.
Example failure_not_cached :
  snd (run_n key_fields relevant_assumed w_fail empty) = [(0, OFailed); (1, OFailed); (2, OFailed)] /\
  count_n w_fail (fst (run_n key_fields relevant_assumed w_fail empty)) = 1.
Proof. vm_compute. split; reflexivity. Qed.

(* necessity of the obligation: with a key that lacks a relevant dimension the MODEL serves stale results *)
Fixpoint remove_dim (d : dim) (l : list dim) : list dim :=
  match l with [] => [] | x :: t => if dim_eqb x d then remove_dim d t else x :: remove_dim d t end.
Example stale_without_go : stale_in_model (remove_dim FlagGo key_fields) relevant FlagGo = true.
Proof. vm_compute. reflexivity. Qed.
Example stale_without_vetx : stale_in_model (remove_dim DepFacts key_fields) relevant DepFacts = true.
Proof. vm_compute. reflexivity. Qed.
Example stale_without_cfg :
  stale_in_model (remove_dim (Cfg "Initialisms") key_fields) relevant (Cfg "Initialisms") = true.
Proof. vm_compute. reflexivity. Qed.
Example fresh_with_full_key :
  forallb (fun d => negb (stale_in_model key_fields relevant_assumed d)) relevant_assumed = true.
Proof. vm_compute. reflexivity. Qed.
(* caching results that already went through the check selection would be unsound: an analysis depending on
   the (unkeyed) selection is stale after the selection changes *)
Example filtered_results_would_be_stale :
  stale_in_model key_fields (FlagChecks :: relevant_assumed) FlagChecks = true.
Proof. vm_compute. reflexivity. Qed.

(* the set of named packages changes: a package first reached only as a dependency (vetx stored, no results)
   and later named is analysed again (1 analysis: results sub-key missing) and yields the cold result *)
Definition w_dep_only : world nat := [mkPkg 0 [] false loc1; mkPkg 1 [0] false loc1; mkPkg 2 [1] false loc1].
Definition w_all_named : world nat := [mkPkg 0 [] true loc1; mkPkg 1 [0] true loc1; mkPkg 2 [1] true loc1].
Example dependency_then_named :
  count_n w_all_named (fst (run_n key_fields relevant_assumed w_dep_only empty)) = 3 /\
  outs_eqb (snd (run_n key_fields relevant_assumed w_all_named (fst (run_n key_fields relevant_assumed w_dep_only empty))))
           (snd (run_n key_fields relevant_assumed w_all_named empty)) = true /\
  count_n w_dep_only (fst (run_n key_fields relevant_assumed w_all_named empty)) = 0.
Proof. vm_compute. repeat split; reflexivity. Qed.
