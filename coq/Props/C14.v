(* C14 — dominance queries are exact on every CFG the builder produces.
   ONLY statements closed by [exact]; each followed by Print Assumptions.
   Nothing here depends on /repo: the theorems are about the reference and the checker; the
   implementation's answers are validated per function by evaluating [tree_check] (checks/C14.py). *)
From Coq Require Import List NArith Bool.
Import ListNotations.
Require Import Verif.Lib.Graphs Verif.Model.C14 Verif.Proofs.C14.
Local Open Scope N_scope.

(* The worklist reachability is sound and complete: the computed set is exactly the set of nodes
   reachable from r by a walk of any length that never touches x ... *)
Theorem reach_avoiding_correct : forall g x r s, reach_set g x r = Some s ->
  forall c, N.testbit s c = true <-> exists l, path g r c l /\ ~ In x l.
Proof. exact reach_set_correct. Qed.
Print Assumptions reach_avoiding_correct.

(* ... and its fuel (number of edges + 2) always suffices. *)
Theorem reach_avoiding_total : forall g x r, reach_set g x r <> None.
Proof. exact reach_set_total. Qed.
Print Assumptions reach_avoiding_total.

(* The reference dominance test decides the all-paths definition (no bound on path length). *)
Theorem dom_ref_exact : forall g r b c v, dom_ref g r b c = Some v ->
  (v = true <-> forall l, path g r c l -> In b l).
Proof. exact dom_ref_correct. Qed.
Print Assumptions dom_ref_exact.

Theorem dom_ref_defined : forall g r b c, dom_ref g r b c <> None.
Proof. exact dom_ref_total. Qed.
Print Assumptions dom_ref_defined.

(* Two reachable blocks that dominate each other are equal; the immediate dominator is unique. *)
Theorem dominance_antisymmetric : forall g r b c, reachable g r c ->
  dominates g r b c -> dominates g r c b -> b = c.
Proof. exact dominates_antisym. Qed.
Print Assumptions dominance_antisymmetric.

Theorem immediate_dominator_unique : forall g r c d d', reachable g r c ->
  is_idom g r d c -> is_idom g r d' c -> d = d'.
Proof. exact idom_unique. Qed.
Print Assumptions immediate_dominator_unique.

Theorem immediate_dominator_unique_two_roots : forall g rec c d d',
  (forall x, x < nnodes g -> reachable g 0 x \/ exists rc, rec = Some rc /\ reachable g rc x) ->
  c < nnodes g -> d < nnodes g -> d' < nnodes g ->
  Idom_of g rec d c -> Idom_of g rec d' c -> d = d'.
Proof. exact Idom_of_unique. Qed.
Print Assumptions immediate_dominator_unique_two_roots.

(* The reference matrix of a CFG with entry 0 and an optional recover block is the documented
   relation: row b contains c iff every path from c's root (entry if c is reachable from it, else the
   recover block) to c passes through b. *)
Theorem reference_matrix_exact : forall g rec d, cfg_dominance g rec = Some d ->
  forall b c, b < nnodes g -> c < nnodes g ->
    (N.testbit (row (cd_rows d) b) c = true <-> Dominates g rec b c).
Proof. exact (fun g rec d H => proj2 (proj2 (proj2 (proj2 (proj2 (proj2 (cfg_dominance_correct g rec d H))))))). Qed.
Print Assumptions reference_matrix_exact.

(* Whatever the checker accepts is exact: Dominates on all ordered pairs, Idom is the immediate
   dominator (None exactly for the two roots), Dominees is the inverse of Idom without duplicates,
   DomPreorder/DomPostorder list every block once, the pre/post interval test coincides with
   dominance on all pairs, and the blocks dominated by b form the contiguous run of the preorder
   starting at b (of the postorder ending at b). *)
Theorem tree_check_exact : forall g rec o, tree_check g rec o = true -> exact g rec o.
Proof. exact tree_check_sound. Qed.
Print Assumptions tree_check_exact.
