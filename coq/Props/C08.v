(* C08 — pattern pre-filtering never changes what a pattern matches.
   ONLY statements closed by [exact]; each followed by Print Assumptions.
   gen_tables (allTypes, nodeToASTTypes, the per-case behaviour of collectEntryNodes and collectSymbols)
   and gen_cfg are regenerated from /repo on every run; [eq_refl] below is re-checked against what
   pattern/parser.go says now. Matching is the reference semantics ms of the C09 development (to which
   the implementation's matcher is tied by C09's impl_agrees). *)
From Coq Require Import List String ZArith NArith Bool.
Import ListNotations.
Require Import Verif.Model.C09_Types Verif.Gen.C09_Matcher Verif.Model.C09
               Verif.Model.C08_Types Verif.Gen.C08_Tables Verif.Model.C08
               Verif.Proofs.C08 Verif.Proofs.C08_Symbols Verif.Proofs.C08_RootCalls.

(* Finite per-kind obligations on the regenerated tables: every kind of allTypes is in the row of its own
   pattern node; Or collects from all alternatives, Binding from its node; bare names, Nil and Not
   contribute all kinds; the row of each type-aware node covers what its structural pre-match accepts. *)
Theorem c08_tables_ok : tables_ok gen_tables = true.
Proof. exact (eq_refl true). Qed.
Print Assumptions c08_tables_ok.

Theorem c08_sym_tables_ok : sym_tables_ok gen_tables = true.
Proof. exact (eq_refl true). Qed.
Print Assumptions c08_sym_tables_ok.

(* entry_sound: if a pattern matches a node whose kind can start a match (allTypes) and which is not a
   transparent wrapper, then that kind is among the pattern's entry kinds -- the entry-kind restriction of
   code.Matches drops no match. For every pattern the parser can produce, tree, state, oracle, fuel. *)
Theorem entry_sound :
  forall orc af ty fs fuel p s v sigma,
    unwrap (cfg_unwrap_right gen_cfg) (VNode ty fs) = UNo -> In ty (t_all gen_tables) ->
    known_pat_b p = true ->
    ms gen_cfg orc af fuel p (VNode ty fs) s = RDone true v sigma ->
    In ty (entry_kinds gen_tables p).
Proof.
  exact (fun orc af ty fs fuel p s v sigma Hu Hty =>
           entry_sound_gen gen_tables c08_tables_ok gen_cfg orc af ty fs Hu Hty fuel p s v sigma).
Qed.
Print Assumptions entry_sound.

(* entry_sound at EVERY go/ast kind, also those outside allTypes (Symbol at IndexListExpr): for patterns
   without a start-anywhere alternative, and for any such alternative inside an Or whatever its siblings are. *)
Theorem entry_sound_tight :
  forall orc af ty fs fuel p s v sigma,
    unwrap (cfg_unwrap_right gen_cfg) (VNode ty fs) = UNo ->
    known_pat_b p = true -> tight gen_tables p = true ->
    ms gen_cfg orc af fuel p (VNode ty fs) s = RDone true v sigma ->
    In ty (entry_kinds gen_tables p).
Proof.
  exact (fun orc af ty fs fuel p s v sigma Hu =>
           entry_sound_tight_gen gen_tables c08_tables_ok gen_cfg orc af ty fs Hu fuel p s v sigma).
Qed.
Print Assumptions entry_sound_tight.

Theorem entry_sound_alt :
  forall orc af ty fs ps q,
    unwrap (cfg_unwrap_right gen_cfg) (VNode ty fs) = UNo ->
    In q ps -> known_pat_b q = true -> tight gen_tables q = true ->
    forall fuel s v sigma, ms gen_cfg orc af fuel q (VNode ty fs) s = RDone true v sigma ->
      In ty (entry_kinds gen_tables (POr ps)).
Proof. exact (entry_sound_alt_gen gen_tables c08_tables_ok gen_cfg). Qed.
Print Assumptions entry_sound_alt.

(* the wrapper copies of a match: on a transparent wrapper the matcher does what it does on the wrapped node *)
Theorem wrapper_transparent :
  forall orc af fuel p n n' s,
    unwrap (cfg_unwrap_right gen_cfg) n = UTo n' ->
    ms gen_cfg orc af (S fuel) p n s = ms gen_cfg orc af fuel p n' s.
Proof. exact (wrapper_transparent_gen gen_cfg). Qed.
Print Assumptions wrapper_transparent.

(* symbols_sound: when CouldMatchAny rejects the package, the pattern matches nothing in it -- under the
   index contract stated as the hypotheses on the go/types oracle (see Proofs/C08_Symbols.v). *)
Theorem symbols_sound :
  forall has orc af,
    (forall rv obj o, o_ta orc "Symbol" rv = Some (obj, o) ->
       exists nm, o = Some (VStr nm) /\ could gen_could_empty_path_any has (sym_of nm) = true) ->
    (forall k rv res o, k = "IntegerLiteral"%string \/ k = "TrulyConstantExpression"%string ->
       o_ta orc k rv = Some (res, o) -> (exists sv, o = Some sv) /\ (forall nm, rv <> VStr nm)) ->
    forall p, known_pat_b p = true ->
      could gen_could_empty_path_any has (collect gen_tables p (String.eqb (pat_type p) "Symbol")) = false ->
      forall fuel n s v sigma, ms gen_cfg orc af fuel p n s <> RDone true v sigma.
Proof.
  exact (fun has orc af => symbols_sound_gen gen_tables gen_could_empty_path_any has gen_cfg orc af c08_sym_tables_ok).
Qed.
Print Assumptions symbols_sound.

(* rootcalls_sound: a pattern with root call symbols matches only (wrappers of) call expressions whose Fun,
   with its transparent wrappers removed, go/types resolves to a symbol named by one of the root call
   symbols. Together with the index contract (Index.Calls(obj) yields every call whose callee is obj) this
   is why enumerating Index.Calls instead of all entry nodes drops no match. *)
Theorem rootcalls_sound :
  forall orc af,
    (forall rv obj o, o_ta orc "Symbol" rv = Some (obj, o) -> exists nm, o = Some (VStr nm)) ->
    forall f p n s v sigma,
      known_pat_b p = true -> root_call_names p <> [] ->
      ms gen_cfg orc af f p n s = RDone true v sigma ->
      exists rv obj nm, fun_of gen_cfg n rv /\ o_ta orc "Symbol" rv = Some (obj, Some (VStr nm)) /\
                        In nm (root_call_names p).
Proof. exact (rootcalls_sound_gen gen_cfg). Qed.
Print Assumptions rootcalls_sound.

(* The index contract cannot hold for predeclared functions (no package) nor for conversions (not calls):
   code.Matches must not use the call index for them, and CouldMatchAny must not reject packages because of
   them -- finite obligation on the transcribed shape of analysis/code/visit.go. *)
Theorem c08_visit_guards :
  (gen_could_empty_path_any && gen_root_guard_empty_path && gen_root_guard_type_name)%bool = true.
Proof. exact (eq_refl true). Qed.
Print Assumptions c08_visit_guards.
