From Coq Require Import List NArith Bool.
Require Import Verif.Model.C05_Types Verif.Gen.C05_CacheLayout Verif.Model.C05_Codec.
Theorem c05_layout_ok : layout_eqb gen_layout canonical_layout = true.
Proof. exact (eq_refl true). Qed.
Print Assumptions c05_layout_ok.
Theorem c05_protocol_ok : protocol_eqb gen_protocol canonical_protocol = true.
Proof. exact (eq_refl true). Qed.
Print Assumptions c05_protocol_ok.
